(* A closed client: every broker client closed, every operation ended.  Nothing is ever connected, written or
   scheduled again, whatever happens (Props/C20.v). *)
From AV Require Import Base.Util Proofs.UtilFacts Model.Framing Proofs.FramingFacts
  Proofs.BrokerClientTbl Proofs.BrokerClientInv Proofs.BrokerClientC06 Proofs.BrokerClientC10.
From AV Require Model.BrokerClient.
From AV Require Import Model.ClientReq Proofs.ClientReqBase Proofs.ClientReqStep Proofs.ClientReqC11.
From Coq Require Import Lia.

(* ------------------------------------------------------------------ a closed client *)
Definition quiet_out (o : output) : bool :=
  match o with OConnect _ _ | OWrite _ _ | OBootConnect _ _ | OBootWrite _ _ | OSched _ _ _ => false | _ => true end.
Definition quiet (os : list output) : Prop := forallb quiet_out os = true.

Lemma quiet_app a b : quiet a -> quiet b -> quiet (a ++ b).
Proof. unfold quiet. intros A B. rewrite forallb_app, A, B. reflexivity. Qed.

Definition all_down (C : cstate) : Prop :=
  forall i b, nth_error (c_bcs C) i = Some b -> BrokerClient.s_down (b_st b) <> BrokerClient.DNone.
Definition all_done (C : cstate) : Prop := forall p o, nth_error (c_ops C) p = Some o -> o_phase o = PDone.

Record ClosedInv (C : cstate) : Prop := {
  cl_closing : c_clients C = None;
  cl_wf : TInvC [] C;
  cl_down : all_down C;
  cl_done : all_done C;
  cl_topics : c_topics C = []
}.

Definition inert_mo (o : BrokerClient.output) : bool :=
  match o with
  | BrokerClient.OCancelTimer | BrokerClient.OCancelAttempt | BrokerClient.OLose | BrokerClient.OCloseFired
  | BrokerClient.ORaised _ | BrokerClient.OErr _ _ => true
  | _ => false
  end.

Lemma closed_mo s e s' mo : CInv s -> closed s -> is_make e = false -> BrokerClient.step s e = (s', mo) ->
  closed s' /\ forallb inert_mo mo = true.
Proof.
  intros I Cl M H. destruct (closed_step _ _ _ _ I Cl H) as (Cl' & W & Cn & Sc & D). split; [exact Cl'|].
  apply forallb_forall. intros o Ho. destruct o; try reflexivity; exfalso.
  - assert (In addr (connects mo)) as X by (unfold connects; apply in_flat_map; exists (BrokerClient.OConnect addr); split; [exact Ho | left; reflexivity]).
    rewrite Cn in X. exact X.
  - assert (In (h, rid) (writes mo)) as X by (unfold writes; apply in_flat_map; exists (BrokerClient.OWrite h rid); split; [exact Ho | left; reflexivity]).
    rewrite W in X. exact X.
  - assert (In k (scheds mo)) as X by (unfold scheds; apply in_flat_map; exists (BrokerClient.OSched k); split; [exact Ho | left; reflexivity]).
    rewrite Sc in X. exact X.
  - destruct (D h o Ho) as (_ & rid & ex & ->). discriminate.
Qed.

Lemma closed_all_fired s h : CInv s -> closed s -> (h < length (sdlog s))%nat -> sfired s h.
Proof.
  intros I Cl L. destruct (in_dec Nat.eq_dec h (BrokerClient.t_fired (BrokerClient.s_t s))) as [X|X]; [exact X|].
  exfalso. destruct (ti_complete _ (ci_t s I) h L X) as (r & Hr & _).
  destruct (ci_closed s I Cl) as [E _]. unfold reqs in E. rewrite E in Hr. exact Hr.
Qed.

Lemma tr_out_quiet C i o : inert_mo o = true -> quiet (snd (tr_out C i o)).
Proof.
  destruct o; try discriminate; intros _; cbn [tr_out snd]; try reflexivity.
  - destruct (nth_error (c_bcs C) i) as [b|]; [|reflexivity]. destruct (b_timer b); reflexivity.
  - unfold dl_refresh. destruct (c_dl C) as [l|]; [|reflexivity]. destruct (filter (bc_pending C) l); [|reflexivity].
    destruct (c_wait _); reflexivity.
Qed.

Section ProcInert.
Variable succ : cstate -> nat -> list Z -> cstate * list output.

Lemma proc_inert : forall mo C i, forallb inert_mo mo = true ->
  proc succ C i mo = tr_list C i mo /\ quiet (snd (tr_list C i mo)).
Proof.
  induction mo as [|o mo IH]; intros C i H; cbn [proc tr_list]; [split; reflexivity|].
  cbn [forallb] in H. apply andb_prop in H. destruct H as [Ho Hmo].
  assert (match o with BrokerClient.ODef h oc => on_def succ C i h oc | _ => tr_out C i o end = tr_out C i o) as E
    by (destruct o; try reflexivity; discriminate).
  rewrite E. pose proof (tr_out_quiet C i o Ho) as Q1. destruct (tr_out C i o) as [C1 o1]. cbn [snd] in Q1.
  destruct (IH C1 i Hmo) as [E2 Q2]. rewrite E2. destruct (tr_list C1 i mo) as [C2 o2]. cbn [snd] in *.
  split; [reflexivity | apply quiet_app; assumption].
Qed.
End ProcInert.

Lemma same_core_down C C' : same_core C C' -> all_down C -> all_down C'.
Proof.
  intros [E _] D i b' Hb'. pose proof (cores_nth _ _ _ Hb') as H. rewrite E in H.
  destruct (cores_nth_inv _ _ _ _ _ H) as (b & Hb & _ & Es & _). rewrite <- Es. exact (D i b Hb).
Qed.

Lemma ev_bc_closed C i e C' o : ClosedInv C -> is_make e = false -> ev_bc C i e = (C', o) -> ClosedInv C' /\ quiet o.
Proof.
  intros [Cc T D Dn Tp] M H.
  pose proof (ev_bc_wf [] C i e M T) as T'. rewrite H in T'. cbn [fst] in T'.
  unfold ev_bc, bc_event, apply_bc in H.
  destruct (nth_error (c_bcs C) i) as [b|] eqn:Eb.
  - destruct (BrokerClient.step (b_st b) e) as [s' mo] eqn:Es.
    destruct (TInvC_bc _ _ _ _ T Eb) as (I & _).
    destruct (closed_mo _ _ _ _ I (D i b Eb) M Es) as [Cl' In].
    destruct (proc_inert succ1 mo (upd_bc C i (set_st s')) i In) as [E Q]. rewrite E in H.
    pose proof (tr_list_core mo (upd_bc C i (set_st s')) i) as SC.
    pose proof (tr_list_rest mo (upd_bc C i (set_st s')) i) as SR.
    rewrite H in *. cbn [fst snd] in *. split; [|exact Q].
    destruct SR as (_ & R2 & _ & R4 & _ & R6 & _).
    constructor; [| | | |rewrite R4; exact Tp].
    + rewrite R2. exact Cc.
    + exact T'.
    + apply (same_core_down _ _ SC). intros j b' Hb'. cbn [upd_bc with_bcs c_bcs] in Hb'. apply nth_upd_inv in Hb'.
      destruct Hb' as [[<- (x & Hx & ->)]|[N Hb']]; [|exact (D j b' Hb')]. cbn [set_st b_st]. exact Cl'.
    + intros p op Hp. rewrite R6 in Hp. exact (Dn p op Hp).
  - cbn [proc] in H. injection H as <- <-. split; [constructor; assumption | reflexivity].
Qed.

Lemma closed_set_boot C a st : ClosedInv C -> ClosedInv (set_boot C a st).
Proof. intros [A B D E F]. constructor; auto. Qed.

Lemma phase_done C p : all_done C -> phase_of C p = PDone.
Proof. intro D. unfold phase_of. destruct (nth_error (c_ops C) p) as [o|] eqn:E; [exact (D p o E) | reflexivity]. Qed.

Ltac closed_bc K H :=
  match type of H with ev_bc ?C ?i ?e = (?C', ?o) => exact (ev_bc_closed C i e C' o K eq_refl H) end.

Theorem step_closed C e C' o : ClosedInv C -> step C e = (C', o) -> ClosedInv C' /\ quiet o.
Proof.
  intros K H. pose proof K as [Cc T D Dn Tp]. destruct e; cbn [step] in H.
  - (* ESend *) rewrite Cc in H. injection H as <- <-. split; [exact K | reflexivity].
  - (* ECancelReq *)
    destruct (nth_error (c_direct C) d) as [[i h]|]; [|injection H as <- <-; split; [exact K | reflexivity]].
    closed_bc K H.
  - (* EOp *)
    unfold next_id in H. cbn [fst snd] in H.
    set (C1 := with_corr C _) in *. set (op0 := mkOp kind all _ PDone) in *.
    change (c_clients (with_ops C1 (c_ops C1 ++ [op0]))) with (c_clients C) in H. rewrite Cc in H.
    unfold op_fail in H. change (c_ops (with_ops C1 (c_ops C1 ++ [op0]))) with (c_ops C ++ [op0]) in H.
    change (length (c_ops C1)) with (length (c_ops C)) in H. rewrite nth_error_snoc in H.
    injection H as <- <-. split; [|reflexivity].
    constructor; [exact Cc | eapply TInvC_same_core; [exact T | score] | exact D | | exact Tp].
    intros p o Hp. unfold set_phase in Hp. cbn [c_ops with_ops] in Hp. apply nth_upd_inv in Hp.
    destruct Hp as [[_ (x & _ & ->)]|[_ Hp]]; [reflexivity|].
    change (c_ops C1) with (c_ops C) in Hp. apply nth_error_snoc_inv in Hp. destruct Hp as [Hp|[_ ->]]; [exact (Dn p o Hp) | reflexivity].
  - (* EUpdate *)
    unfold update_brokers in H. cbn [c_clients with_brokers] in H. rewrite Cc in H.
    assert (ClosedInv (with_brokers C (dict_update (c_brokers C) (dict_update [] brokers)))) as K1.
    { constructor; [exact Cc | eapply TInvC_same_core; [exact T | score] | exact D | exact Dn | exact Tp]. }
    destruct (dict_update [] brokers); [destruct remove|]; injection H as <- <-; (split; [exact K1 | reflexivity]).
  - (* EClose *) rewrite Cc in H. injection H as <- <-. split; [exact K | reflexivity].
  - (* EReset *) injection H as <- <-. split; [|reflexivity].
    constructor; [exact Cc | eapply TInvC_same_core; [exact T | score] | exact D | exact Dn | reflexivity].
  - closed_bc K H.
  - closed_bc K H.
  - closed_bc K H.
  - closed_bc K H.
  - (* ETimer *)
    destruct (nth_error (c_timers C) t) as [[i h|i|p a|p]|]; [| | | |injection H as <- <-; split; [exact K | reflexivity]].
    + unfold creq_at in H. destruct (nth_error (c_bcs C) i) as [b|] eqn:Eb; [|injection H as <- <-; split; [exact K | reflexivity]].
      destruct (nth_error (b_reqs b) h) as [[ow [t'|] to]|] eqn:Eq; try (injection H as <- <-; split; [exact K | reflexivity]).
      exfalso. destruct (TInvC_bc _ _ _ _ T Eb) as (I & L & A & _). destruct (A h _ t' Eq eq_refl) as [_ [X|[]]].
      apply X. apply closed_all_fired; [exact I | exact (D i b Eb) |]. rewrite <- L. apply nth_error_Some. congruence.
    + destruct (nth_error (c_bcs C) i) as [b|]; [|injection H as <- <-; split; [exact K | reflexivity]].
      destruct (match b_timer b with Some t' => Nat.eqb t t' | None => false end); [|injection H as <- <-; split; [exact K | reflexivity]].
      match type of H with ev_bc ?C0 ?i0 ?e0 = _ => refine (ev_bc_closed C0 i0 e0 C' o _ eq_refl H) end.
      constructor; [exact Cc | eapply TInvC_same_core; [exact T | apply upd_bc_core; intros; reflexivity] | | exact Dn | exact Tp].
      apply (same_core_down C); [apply upd_bc_core; intros; reflexivity | exact D].
    + rewrite (phase_done C p Dn) in H. injection H as <- <-. split; [exact K | reflexivity].
    + rewrite (phase_done C p Dn) in H. injection H as <- <-. split; [exact K | reflexivity].
  - (* EBootOk *)
    destruct (nth_error (c_boots C) a) as [[[p rid] [| |]]|]; try (injection H as <- <-; split; [exact K | reflexivity]).
    rewrite (phase_done C p Dn) in H. injection H as <- <-. split; [exact K | reflexivity].
  - (* EBootFail *)
    destruct (nth_error (c_boots C) a) as [[[p rid] [| |]]|]; try (injection H as <- <-; split; [exact K | reflexivity]).
    rewrite (phase_done C p Dn) in H. injection H as <- <-. split; [exact K | reflexivity].
  - (* EBootReply *)
    destruct (nth_error (c_boots C) a) as [[[p rid'] [|pend|]]|]; try (injection H as <- <-; split; [exact K | reflexivity]).
    destruct (pend && zlist_eqb (id4 rid) (id4 rid')); [|injection H as <- <-; split; [exact K | reflexivity]].
    pose proof (closed_set_boot C a (KLive false) K) as K1.
    rewrite (phase_done _ p (cl_done _ K1)) in H. injection H as <- <-. split; [exact K1 | reflexivity].
  - (* EBootLost *)
    destruct (nth_error (c_boots C) a) as [[[p rid'] [|pend|]]|]; try (injection H as <- <-; split; [exact K | reflexivity]).
    pose proof (closed_set_boot C a KDead K) as K1.
    rewrite (phase_done _ p (cl_done _ K1)) in H. destruct pend; injection H as <- <-; (split; [exact K1 | reflexivity]).
  - (* EResend *) rewrite Cc in H. injection H as <- <-. split; [exact K | reflexivity].
Qed.

Theorem run_closed : forall evs C C' o, ClosedInv C -> run C evs = (C', o) -> ClosedInv C' /\ quiet o.
Proof.
  induction evs as [|e evs IH]; intros C C' o K H; cbn [run] in H.
  - injection H as <- <-. split; [exact K | reflexivity].
  - destruct (step C e) as [C1 o1] eqn:E1. destruct (run C1 evs) as [C2 o2] eqn:E2. injection H as <- <-.
    destruct (step_closed _ _ _ _ K E1) as [K1 Q1]. destruct (IH _ _ _ K1 E2) as [K2 Q2].
    split; [exact K2 | apply quiet_app; assumption].
Qed.
