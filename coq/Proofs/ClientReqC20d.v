(* With what pending work ends inside close() (Props/C20.v). *)
From AV Require Import Base.Util Proofs.UtilFacts Model.Framing Proofs.FramingFacts
  Proofs.BrokerClientTbl Proofs.BrokerClientInv Proofs.BrokerClientC06 Proofs.BrokerClientC10.
From AV Require Model.BrokerClient.
From AV Require Import Model.ClientReq Proofs.ClientReqBase Proofs.ClientReqStep Proofs.ClientReqC11 Proofs.ClientReqMono
  Proofs.ClientReqMono2 Proofs.ClientReqClosed Proofs.ClientReqStruct Proofs.ClientReqC20 Proofs.ClientReqDl Proofs.ClientReqC20b
  Proofs.ClientReqC11b Proofs.ClientReqC11c.
From Coq Require Import Lia.

(* ------------------------------------------------------------------ WITH WHAT pending work ends inside close() *)
Definition failres (r : res) : Prop := r = RClosed \/ r = RUnavail \/ r = RKCancelled \/ r = ROpNone \/ r = RCancelled.

(* [Rop C o C']: an operation whose phase changed was told so, with a failure (or the None of F-C20-2) *)
Definition Rop (C : cstate) (o : list output) (C' : cstate) : Prop :=
  forall p, phase_of C' p = phase_of C p \/ exists r, In (OOp p r) o /\ failres r.

Lemma Rop_refl C : Rop C [] C. Proof. intro p. left. reflexivity. Qed.

Lemma Rop_trans A o1 B o2 C : Rop A o1 B -> Rop B o2 C -> Rop A (o1 ++ o2) C.
Proof.
  intros H1 H2 p. destruct (H1 p) as [E1|(r & I1 & F1)]; [|right; exists r; split; [apply in_or_app; left; exact I1 | exact F1]].
  destruct (H2 p) as [E2|(r & I2 & F2)]; [left; congruence | right; exists r; split; [apply in_or_app; right; exact I2 | exact F2]].
Qed.

Lemma Rop_more A o B x y : Rop A o B -> Rop A (x ++ o ++ y) B.
Proof. intros H p. destruct (H p) as [E|(r & I & F)]; [left; exact E | right; exists r; split; [apply in_or_app; right; apply in_or_app; left; exact I | exact F]]. Qed.

Lemma Rop_ops A o B : c_ops B = c_ops A -> Rop A o B.
Proof. intros E p. left. unfold phase_of. rewrite E. reflexivity. Qed.

Lemma failres_op_result kind r : r = RClosed \/ r = RKCancelled \/ r = RTimedOut -> kind =? 1 = true \/ r <> RTimedOut -> failres (op_result kind r).
Proof.
  unfold op_result, failres. intros [->|[->| ->]] K; destruct (kind =? 1); auto 7; destruct K as [K|K]; try discriminate; congruence.
Qed.

Lemma op_fail_Rop C p r : r = RClosed \/ r = RKCancelled -> Rop C (snd (op_fail C p r)) (fst (op_fail C p r)).
Proof.
  intro Hr. unfold op_fail. destruct (nth_error (c_ops C) p) as [o|] eqn:Eo; cbn [fst snd]; [|apply Rop_ops; reflexivity].
  intro p'. destruct (Nat.eq_dec p' p) as [->|N].
  - right. eexists. split; [left; reflexivity|]. apply failres_op_result; [tauto|]. right. destruct Hr as [->| ->]; discriminate.
  - left. apply phase_set_other. exact N.
Qed.

Lemma op_fail_Rop_cancelled C p : Rop C (snd (op_fail C p RCancelled)) (fst (op_fail C p RCancelled)).
Proof.
  unfold op_fail. destruct (nth_error (c_ops C) p) as [o|] eqn:Eo; cbn [fst snd]; [|apply Rop_ops; reflexivity].
  intro p'. destruct (Nat.eq_dec p' p) as [->|N].
  - right. eexists. split; [left; reflexivity|]. unfold op_result, failres. destruct (o_kind o =? 1); auto 7.
  - left. apply phase_set_other. exact N.
Qed.

Lemma boot_next_closing_Rop C p hosts : c_clients C = None -> Rop C (snd (boot_next C p hosts)) (fst (boot_next C p hosts)).
Proof. intro H. unfold boot_next, closing. rewrite H. apply op_fail_Rop. auto. Qed.

Lemma op_known_closing_Rop C p rid nodes : c_clients C = None -> Rop C (snd (op_known C p rid nodes)) (fst (op_known C p rid nodes)).
Proof.
  intro H. destruct nodes; cbn [op_known]; [apply boot_next_closing_Rop; exact H|]. rewrite H. apply op_fail_Rop. auto.
Qed.

Definition others_same (j : nat) (C C' : cstate) : Prop := forall k, k <> j -> nth_error (c_bcs C') k = nth_error (c_bcs C) k.
Definition creqs_kept (j : nat) (C C' : cstate) : Prop :=
  forall h q, creq_at C j h = Some q -> exists q', creq_at C' j h = Some q' /\ q_owner q' = q_owner q /\ q_to q' = q_to q.

Lemma others_same_refl j C : others_same j C C. Proof. intros k _. reflexivity. Qed.
Lemma others_same_trans j A B C : others_same j A B -> others_same j B C -> others_same j A C.
Proof. intros H1 H2 k N. rewrite (H2 k N). apply H1. exact N. Qed.
Lemma creqs_kept_refl j C : creqs_kept j C C. Proof. intros h q H. exists q. auto. Qed.
Lemma creqs_kept_trans j A B C : creqs_kept j A B -> creqs_kept j B C -> creqs_kept j A C.
Proof. intros H1 H2 h q H. destruct (H1 h q H) as (q1 & A1 & A2 & A3). destruct (H2 h q1 A1) as (q2 & B1 & B2 & B3). exists q2. repeat split; congruence. Qed.

Lemma bcs_same_kept j C C' : c_bcs C' = c_bcs C -> others_same j C C' /\ creqs_kept j C C'.
Proof. intro E. split; [intros k _; rewrite E; reflexivity | intros h q H; exists q; unfold creq_at in *; rewrite E; auto]. Qed.

Lemma op_fail_bcs C p r : c_bcs (fst (op_fail C p r)) = c_bcs C /\ c_clients (fst (op_fail C p r)) = c_clients C.
Proof. unfold op_fail. destruct (nth_error (c_ops C) p); cbn; auto. Qed.

Lemma op_known_closing_bcs C p rid nodes : c_clients C = None ->
  c_bcs (fst (op_known C p rid nodes)) = c_bcs C /\ c_clients (fst (op_known C p rid nodes)) = None.
Proof.
  intro H. destruct nodes; cbn [op_known].
  - unfold boot_next, closing. rewrite H. destruct (op_fail_bcs C p RKCancelled) as [A B]. split; congruence.
  - rewrite H. destruct (op_fail_bcs C p RClosed) as [A B]. split; congruence.
Qed.

(* _mrtb_cb for a request failed by the closing broker client, in a closing client *)
Lemma on_def0_close C j h : c_clients C = None ->
  let R := on_def succ0 C j h BrokerClient.FailClosed in
  c_clients (fst R) = None /\ others_same j C (fst R) /\ creqs_kept j C (fst R) /\ Rop C (snd R) (fst R)
  /\ (forall q d, creq_at C j h = Some q -> q_owner q = Direct d -> q_to q = false -> In (OReq d RClosed) (snd R)).
Proof.
  intros Hc R. unfold R, on_def, creq_at. destruct (nth_error (c_bcs C) j) as [b|] eqn:Eb.
  2:{ cbn [fst snd]. split; [exact Hc|]. split; [apply others_same_refl|]. split; [apply creqs_kept_refl|]. split; [apply Rop_ops; reflexivity | intros q d H; discriminate]. }
  destruct (nth_error (b_reqs b) h) as [q|] eqn:Eq.
  2:{ cbn [fst snd]. split; [exact Hc|]. split; [apply others_same_refl|]. split; [apply creqs_kept_refl|]. split; [apply Rop_ops; reflexivity | intros q d H; discriminate]. }
  set (X := match q_timer q with
            | Some t => (upd_creq C j h (fun q0 => mkCreq (q_owner q0) None (q_to q0)), [OCancelTimer t])
            | None => (C, []) end).
  assert (c_clients (fst X) = None /\ others_same j C (fst X) /\ creqs_kept j C (fst X) /\ c_ops (fst X) = c_ops C) as (X1 & X2 & X3 & X4).
  { unfold X. destruct (q_timer q); cbn [fst]; [|split; [exact Hc|]; split; [apply others_same_refl|]; split; [apply creqs_kept_refl | reflexivity]].
    split; [exact Hc|]. split; [|split; [|reflexivity]].
    - intros k N. unfold upd_creq, upd_bc. cbn [c_bcs with_bcs]. apply nth_upd_other. congruence.
    - intros h' q' H'. unfold creq_at, upd_creq, upd_bc in *. cbn [c_bcs with_bcs]. rewrite Eb in H'. rewrite (nth_upd_same _ _ _ _ Eb). cbn [set_reqs b_reqs].
      destruct (Nat.eq_dec h h') as [<-|N]; [rewrite (nth_upd_same _ _ _ _ H'); eexists; split; [reflexivity | split; reflexivity]
                                          | rewrite nth_upd_other by exact N; exists q'; auto]. }
  destruct X as [C1 o1]. cbn [fst snd] in *.
  assert (Rop C o1 C1) as Rp1 by (apply Rop_ops; exact X4).
  destruct (q_owner q) as [d|p] eqn:Eo.
  - cbn [fst snd]. split; [exact X1|]. split; [exact X2|]. split; [exact X3|]. split; [apply Rop_ops; exact X4|].
    intros q0 d0 H0 Ho Hto. injection H0 as <-. rewrite Eo in Ho. injection Ho as <-. rewrite Hto. cbn [res_of]. apply in_or_app. right. left. reflexivity.
  - assert (forall q0 d0, Some q = Some q0 -> q_owner q0 = Direct d0 -> q_to q0 = false -> False) as NoD
      by (intros q0 d0 H0 Ho; injection H0 as <-; congruence).
    destruct (nth_error (c_ops C1) p) as [[k al rid ph]|]; [|cbn [fst snd]; repeat (split; auto); [apply Rop_ops; exact X4 | intros q0 d0 A B D; exfalso; eauto]].
    destruct ph as [rest i' h'| | | |];
      try (cbn [fst snd]; repeat (split; auto); [apply Rop_ops; exact X4 | intros q0 d0 A B D; exfalso; eauto]).
    destruct (Nat.eqb j i' && Nat.eqb h h');
      [|cbn [fst snd]; repeat (split; auto); [apply Rop_ops; exact X4 | intros q0 d0 A B D; exfalso; eauto]].
    assert (forall Y, (if q_to q then RTimedOut else res_of BrokerClient.FailClosed) = Y -> Y = RTimedOut \/ Y = RClosed) as Ry
      by (intros Y <-; destruct (q_to q); auto).
    destruct (if q_to q then RTimedOut else res_of BrokerClient.FailClosed) eqn:Er; destruct (Ry _ eq_refl) as [Z|Z]; try discriminate;
      (destruct (op_known_closing_bcs C1 p rid rest X1) as [B1 B2]; pose proof (op_known_closing_Rop C1 p rid rest X1) as B3;
       destruct (op_known C1 p rid rest) as [C2 o2]; cbn [fst snd] in *;
       destruct (bcs_same_kept j C1 C2 B1) as [K1 K2];
       split; [exact B2|]; split; [eapply others_same_trans; eauto|]; split; [eapply creqs_kept_trans; eauto|];
       split; [apply (Rop_trans C o1 C1 o2 C2); assumption | intros q0 d0 A B D; exfalso; eauto]).
Qed.

Lemma dl_refresh_bcs C : c_bcs (fst (dl_refresh C)) = c_bcs C.
Proof.
  unfold dl_refresh. destruct (c_dl C) as [l|]; [|reflexivity]. destruct (filter (bc_pending C) l); [|reflexivity].
  destruct (c_wait _); reflexivity.
Qed.

Definition only_closed (os : list BrokerClient.output) : Prop :=
  forall h oc, In (BrokerClient.ODef h oc) os -> oc = BrokerClient.FailClosed.

Lemma tr_out_close_frame C j o : close_mo o = true ->
  c_clients (fst (tr_out C j o)) = c_clients C /\ others_same j C (fst (tr_out C j o)) /\ creqs_kept j C (fst (tr_out C j o))
  /\ c_ops (fst (tr_out C j o)) = c_ops C.
Proof.
  intro H. pose proof (tr_out_rest C j o) as (_ & R2 & _ & _ & _ & R6 & _). split; [exact R2|]. split; [|split; [|exact R6]].
  - destruct o; try discriminate; cbn [tr_out fst]; try apply others_same_refl.
    + destruct (nth_error (c_bcs C) j) as [b|]; [|apply others_same_refl]. destruct (b_timer b); [|apply others_same_refl].
      intros k N. cbn [fst upd_bc c_bcs with_bcs]. apply nth_upd_other. congruence.
    + apply (proj1 (bcs_same_kept j C _ (dl_refresh_bcs C))).
  - intros h q Hq. pose proof (creq_at_cores C (fst (tr_out C j o)) j h (proj1 (tr_out_core C j o))) as E. rewrite E. exists q. auto.
Qed.

Lemma proc0_close : forall os C j, c_clients C = None -> forallb close_mo os = true -> only_closed os ->
  let R := proc succ0 C j os in
  c_clients (fst R) = None /\ others_same j C (fst R) /\ creqs_kept j C (fst R) /\ Rop C (snd R) (fst R)
  /\ (forall h q d, creq_at C j h = Some q -> q_owner q = Direct d -> q_to q = false ->
        In (BrokerClient.ODef h BrokerClient.FailClosed) os -> In (OReq d RClosed) (snd R)).
Proof.
  induction os as [|o os IH]; intros C j Hc Hm Hk; cbn [proc].
  - cbn [fst snd]. split; [exact Hc|]. split; [apply others_same_refl|]. split; [apply creqs_kept_refl|]. split; [apply Rop_refl | intros h q d _ _ _ []].
  - cbn [forallb] in Hm. apply andb_prop in Hm. destruct Hm as [Ho Hos].
    assert (only_closed os) as Hk' by (intros h oc Hin; apply (Hk h oc); right; exact Hin).
    set (Y := match o with BrokerClient.ODef h oc => on_def succ0 C j h oc | _ => tr_out C j o end).
    assert (c_clients (fst Y) = None /\ others_same j C (fst Y) /\ creqs_kept j C (fst Y) /\ Rop C (snd Y) (fst Y)
            /\ (forall h q d, creq_at C j h = Some q -> q_owner q = Direct d -> q_to q = false ->
                  o = BrokerClient.ODef h BrokerClient.FailClosed -> In (OReq d RClosed) (snd Y))) as (Y1 & Y2 & Y3 & Y4 & Y5).
    { unfold Y. destruct o; try (destruct (tr_out_close_frame C j _ Ho) as (A1 & A2 & A3 & A4);
        split; [congruence|]; split; [exact A2|]; split; [exact A3|]; split; [apply Rop_ops; exact A4 | intros h0 q d _ _ _ E; discriminate]).
      rewrite (Hk h o (or_introl eq_refl)). destruct (on_def0_close C j h Hc) as (A1 & A2 & A3 & A4 & A5).
      split; [exact A1|]. split; [exact A2|]. split; [exact A3|]. split; [exact A4|].
      intros h0 q d Hq Hd Ht E. injection E as <-. exact (A5 q d Hq Hd Ht). }
    destruct Y as [C1 o1]. cbn [fst snd] in *.
    destruct (IH C1 j Y1 Hos Hk') as (B1 & B2 & B3 & B4 & B5). destruct (proc succ0 C1 j os) as [C2 o2]. cbn [fst snd] in *.
    split; [exact B1|]. split; [eapply others_same_trans; eauto|]. split; [eapply creqs_kept_trans; eauto|].
    split; [apply (Rop_trans C o1 C1 o2 C2); assumption|].
    intros h q d Hq Hd Ht [E|Hin]; apply in_or_app.
    + left. apply (Y5 h q d Hq Hd Ht). exact E.
    + right. destruct (Y3 h q Hq) as (q1 & Q1 & Q2 & Q3). apply (B5 h q1 d Q1); [congruence | congruence | exact Hin].
Qed.

Lemma close_only_closed s s' mo : CInv s -> BrokerClient.step s BrokerClient.EClose = (s', mo) -> only_closed mo.
Proof.
  intros I H h oc Hin. destruct (BrokerClient.s_down s) eqn:D.
  - destruct (close_step _ _ _ I D H) as (_ & _ & _ & Df & _).
    assert (In (BrokerClient.ODef h oc) (defs mo)) as X by (unfold defs; apply filter_In; split; [exact Hin | reflexivity]).
    rewrite Df in X. apply in_map_iff in X. destruct X as (r & E & _). congruence.
  - assert (closed s) as Cl by (unfold closed; congruence). destruct (closed_step _ _ _ _ I Cl H) as (_ & _ & _ & _ & X).
    destruct (X h oc Hin) as (_ & rid & ex & E). discriminate.
  - assert (closed s) as Cl by (unfold closed; congruence). destruct (closed_step _ _ _ _ I Cl H) as (_ & _ & _ & _ & X).
    destruct (X h oc Hin) as (_ & rid & ex & E). discriminate.
Qed.

Lemma close_fails_unfired s s' mo h : CInv s -> BrokerClient.step s BrokerClient.EClose = (s', mo) ->
  (h < length (sdlog s))%nat -> ~ sfired s h -> In (BrokerClient.ODef h BrokerClient.FailClosed) mo.
Proof.
  intros I H L F. assert (BrokerClient.s_down s = BrokerClient.DNone) as D.
  { destruct (BrokerClient.s_down s) eqn:D; [reflexivity | |]; exfalso; apply F; apply closed_all_fired; auto; unfold closed; congruence. }
  destruct (close_step _ _ _ I D H) as (_ & _ & _ & Df & _).
  destruct (nth_error (sdlog s) h) as [rid|] eqn:En; [|apply nth_error_None in En; lia].
  destruct (TInv_unfired _ h rid (ci_t s I) En F) as (r & _ & Hr & Eh & _ & Ec).
  assert (In (BrokerClient.ODef h BrokerClient.FailClosed) (defs mo)) as X.
  { rewrite Df. apply in_map_iff. exists r. split; [rewrite Eh; reflexivity|]. apply filter_In. split; [apply -> in_rev; exact Hr|].
    unfold live. rewrite Ec. reflexivity. }
  unfold defs in X. apply filter_In in X. exact (proj1 X).
Qed.

Lemma bc_close pend C j : c_clients C = None -> TInvC pend C ->
  let R := bc_event succ0 C j BrokerClient.EClose in
  c_clients (fst R) = None /\ others_same j C (fst R) /\ Rop C (snd R) (fst R)
  /\ (forall b h q d, nth_error (c_bcs C) j = Some b -> nth_error (b_reqs b) h = Some q -> q_owner q = Direct d -> q_to q = false ->
        ~ sfired (b_st b) h -> In (OReq d RClosed) (snd R)).
Proof.
  intros Hc T R. unfold R, bc_event, apply_bc. destruct (nth_error (c_bcs C) j) as [b|] eqn:Eb.
  2:{ cbn [proc fst snd]. split; [exact Hc|]. split; [apply others_same_refl|]. split; [apply Rop_refl | intros b h q d H; discriminate]. }
  destruct (BrokerClient.step (b_st b) BrokerClient.EClose) as [s' mo] eqn:Es.
  destruct (TInvC_bc _ _ _ _ T Eb) as (I & L & _).
  set (C1 := upd_bc C j (set_st s')).
  destruct (proc0_close mo C1 j Hc (close_outputs _ _ _ I Es) (close_only_closed _ _ _ I Es)) as (A1 & A2 & A3 & A4 & A5).
  assert (others_same j C C1) as O1 by (intros k N; unfold C1, upd_bc; cbn [c_bcs with_bcs]; apply nth_upd_other; congruence).
  split; [exact A1|]. split; [eapply others_same_trans; eauto|]. split; [exact A4|].
  intros b0 h q d Hb Hq Hd Ht F. injection Hb as <-. apply (A5 h q d); auto.
  - unfold creq_at, C1, upd_bc. cbn [c_bcs with_bcs]. rewrite (nth_upd_same _ _ _ _ Eb). exact Hq.
  - apply (close_fails_unfired _ _ _ _ I Es); [|exact F]. rewrite <- L. apply nth_error_Some. congruence.
Qed.

Lemma close_each_outcomes : forall l pend C, c_clients C = None -> TInvC pend C ->
  let R := close_each C l in
  c_clients (fst R) = None /\ Rop C (snd R) (fst R)
  /\ (forall i b h q d, In i l -> nth_error (c_bcs C) i = Some b -> nth_error (b_reqs b) h = Some q -> q_owner q = Direct d ->
        q_to q = false -> ~ sfired (b_st b) h -> In (OReq d RClosed) (snd R)).
Proof.
  induction l as [|j l IH]; intros pend C Hc T; cbn [close_each].
  - cbn [fst snd]. split; [exact Hc|]. split; [apply Rop_refl | intros i b h q d []].
  - destruct (bc_close pend C j Hc T) as (A1 & A2 & A3 & A4).
    pose proof (bc_event_wf succ0 succ0_wf pend C j BrokerClient.EClose eq_refl T) as T1.
    destruct (bc_event succ0 C j BrokerClient.EClose) as [C1 o1]. cbn [fst snd] in *.
    destruct (IH pend C1 A1 T1) as (B1 & B2 & B3). destruct (close_each C1 l) as [C2 o2]. cbn [fst snd] in *.
    split; [exact B1|]. split; [apply (Rop_trans C o1 C1 o2 C2); assumption|].
    intros i b h q d Hi Hb Hq Hd Ht F. apply in_or_app. destruct (Nat.eq_dec i j) as [->|N].
    + left. exact (A4 b h q d Hb Hq Hd Ht F).
    + right. destruct Hi as [Hi|Hi]; [congruence|]. apply (B3 i b h q d Hi); auto. rewrite (A2 i N). exact Hb.
Qed.

Lemma cancel_boots_closing_Rop : forall n C p, c_clients C = None -> Rop C (snd (cancel_boots C n p)) (fst (cancel_boots C n p)).
Proof.
  induction n as [|n IH]; intros C p H; cbn [cancel_boots]; [apply Rop_refl|].
  set (X := match nth_error (c_ops C) p with
            | Some (mkOp _ _ _ (PBootConn a rest)) => let (C', o') := boot_next (set_boot C a KDead) p rest in (C', OBootCancel a :: o')
            | Some (mkOp _ _ _ (PBootReq a t rest)) => let (C', o') := boot_next C p rest in (C', OCancelTimer t :: OBootLose a :: o')
            | Some (mkOp _ _ _ (PWait t)) => let (C', o') := op_fail C p RCancelled in (C', OCancelTimer t :: o')
            | _ => (C, []) end).
  assert (c_clients (fst X) = None /\ Rop C (snd X) (fst X)) as [H1 R1].
  { unfold X. destruct (nth_error (c_ops C) p) as [[k al rid ph]|]; [|split; [exact H | apply Rop_refl]].
    destruct ph; try (split; [exact H | apply Rop_refl]).
    - pose proof (boot_next_closing_Rop (set_boot C a KDead) p rest H) as Q.
      pose proof (g_boot_next Rnone Rnone_refl Rnone_trans Rnone_frame2 (set_boot C a KDead) p rest H) as N.
      destruct (boot_next (set_boot C a KDead) p rest) as [C' o']. cbn [fst snd] in *. split; [exact N|].
      apply (Rop_more _ o' _ [OBootCancel a] []) in Q. rewrite app_nil_r in Q. exact Q.
    - pose proof (boot_next_closing_Rop C p rest H) as Q.
      pose proof (g_boot_next Rnone Rnone_refl Rnone_trans Rnone_frame2 C p rest H) as N.
      destruct (boot_next C p rest) as [C' o']. cbn [fst snd] in *. split; [exact N|].
      apply (Rop_more _ o' _ [OCancelTimer t; OBootLose a] []) in Q. rewrite app_nil_r in Q. exact Q.
    - pose proof (op_fail_Rop_cancelled C p) as Q.
      assert (c_clients (fst (op_fail C p RCancelled)) = None) as N by (unfold op_fail; destruct (nth_error (c_ops C) p); exact H).
      destruct (op_fail C p RCancelled) as [C' o']. cbn [fst snd] in *. split; [exact N|].
      apply (Rop_more _ o' _ [OCancelTimer t] []) in Q. rewrite app_nil_r in Q. exact Q. }
  destruct X as [C1 o1]. cbn [fst snd] in *. pose proof (IH C1 (S p) H1) as R2. destruct (cancel_boots C1 n (S p)) as [C2 o2]. cbn [fst snd] in *.
  apply (Rop_trans C o1 C1 o2 C2); assumption.
Qed.

(* ------------------------------------------------------------------ the close step: every pending request FAILS with ClientError *)
Theorem close_requests_fail C cl C' o i b h q d : TInvC [] C -> SInv None [] C -> Ito C -> c_clients C = Some cl ->
  step C EClose = (C', o) ->
  nth_error (c_bcs C) i = Some b -> nth_error (b_reqs b) h = Some q -> q_owner q = Direct d ->
  ~ In h (BrokerClient.t_fired (BrokerClient.s_t (b_st b))) -> In (OReq d RClosed) o.
Proof.
  intros T Sv It Ec H Hb Hq Hd F.
  assert (q_to q = false) as Ht.
  { destruct (q_to q) eqn:E; [|reflexivity]. exfalso. pose proof (It i h q) as X. unfold creq_at in X. rewrite Hb in X. specialize (X Hq E).
    destruct (TInvC_bc _ _ _ _ T Hb) as (_ & _ & _ & U & _). exact (U h q Hq F X). }
  assert (In i (map snd cl)) as Hi.
  { destruct (TInvC_bc _ _ _ _ T Hb) as (I & L & _).
    assert (is_open (b_st b)) as O.
    { unfold is_open. destruct (BrokerClient.s_down (b_st b)) eqn:D; [reflexivity | |]; exfalso; apply F;
        apply closed_all_fired; auto; try (unfold closed; congruence); rewrite <- L; apply nth_error_Some; congruence. }
    destruct (s_open _ _ _ Sv i _ _ _ (cores_nth _ _ _ Hb) O) as [X|[]]. unfold in_clients in X. rewrite Ec in X. destruct X as [n X].
    change i with (snd (n, i)). apply in_map. exact X. }
  cbn [step] in H. rewrite Ec in H. unfold close_brokerclients in H.
  assert (TInvC [] (with_clients C None)) as T0 by (eapply TInvC_same_core; [exact T | score]).
  destruct (close_each_outcomes (map snd cl) [] (with_clients C None) eq_refl T0) as (_ & _ & A).
  specialize (A i b h q d Hi Hb Hq Hd Ht F).
  destruct (close_each (with_clients C None) (map snd cl)) as [C1 o1]. cbn [snd] in A.
  destruct (dl_refresh _) as [C2 o2]. destruct (cancel_boots C2 (length (c_ops C2)) 0) as [C3 o3].
  destruct (c_dl (with_topics C3 [])); injection H as _ <-; apply in_or_app; left; apply in_or_app; left; exact A.
Qed.

(* ... and every broker-agnostic operation that was in progress is told it has ended, with a failure (ClientError,
   KafkaUnavailableError, CancelledError) - or, for load_metadata_for_topics, the None of finding F-C20-2; never a response *)
Theorem close_operations_end C cl C' o p : TInvC [] C -> SInv None [] C -> c_clients C = Some cl -> step C EClose = (C', o) ->
  phase_of C p <> PDone -> exists r, In (OOp p r) o /\ failres r.
Proof.
  intros T Sv Ec H Np.
  pose proof (close_establishes C cl C' o T Sv Ec H) as K.
  assert (Rop C o C') as R.
  { cbn [step] in H. rewrite Ec in H. unfold close_brokerclients in H.
    assert (TInvC [] (with_clients C None)) as T0 by (eapply TInvC_same_core; [exact T | score]).
    destruct (close_each_outcomes (map snd cl) [] (with_clients C None) eq_refl T0) as (A1 & A2 & _).
    destruct (close_each (with_clients C None) (map snd cl)) as [C1 o1]. cbn [fst snd] in *.
    set (C1' := with_dl C1 _) in *.
    assert (c_ops (fst (dl_refresh C1')) = c_ops C1 /\ c_clients (fst (dl_refresh C1')) = None) as [E2 N2].
    { split; [|rewrite dl_refresh_clients; exact A1]. unfold dl_refresh. destruct (c_dl C1') as [l|]; [|reflexivity].
      destruct (filter (bc_pending C1') l); [|reflexivity]. destruct (c_wait _); reflexivity. }
    destruct (dl_refresh C1') as [C2 o2]. cbn [fst] in *.
    pose proof (cancel_boots_closing_Rop (length (c_ops C2)) C2 0 N2) as A3.
    destruct (cancel_boots C2 (length (c_ops C2)) 0) as [C3 o3]. cbn [fst snd] in *.
    assert (Rop C ((o1 ++ o2) ++ o3) C3) as R3.
    { apply (Rop_trans C (o1 ++ o2) C2 o3 C3); [|exact A3]. apply (Rop_trans C o1 C1 o2 C2); [exact A2 | apply Rop_ops; exact E2]. }
    destruct (c_dl (with_topics C3 [])); injection H as <- <-.
    - intro p0. destruct (R3 p0) as [X|(r & X & Y)]; [left; exact X | right; exists r; split; [exact X | exact Y]].
    - intro p0. destruct (R3 p0) as [X|(r & X & Y)]; [left; exact X | right; exists r; split; [|exact Y]].
      rewrite app_assoc. apply in_or_app. left. exact X. }
  destruct (R p) as [E|X]; [|exact X]. exfalso. apply Np. rewrite <- E. apply phase_done. exact (cl_done _ K).
Qed.

Lemma c20_pending_requests_fail g evs cl C' o i b h q d :
  c_clients (fst (run (init g) evs)) = Some cl -> step (fst (run (init g) evs)) EClose = (C', o) ->
  nth_error (c_bcs (fst (run (init g) evs))) i = Some b -> nth_error (b_reqs b) h = Some q -> q_owner q = Direct d ->
  ~ In h (BrokerClient.t_fired (BrokerClient.s_t (b_st b))) -> In (OReq d RClosed) o.
Proof. intros. eapply close_requests_fail; eauto; [apply reachable_wf | apply reachable_S | apply Ito_reachable]. Qed.

Lemma c20_pending_operations_end g evs cl C' o p :
  c_clients (fst (run (init g) evs)) = Some cl -> step (fst (run (init g) evs)) EClose = (C', o) ->
  phase_of (fst (run (init g) evs)) p <> PDone ->
  exists r, In (OOp p r) o /\ (r = RClosed \/ r = RUnavail \/ r = RKCancelled \/ r = ROpNone \/ r = RCancelled).
Proof. intros. eapply close_operations_end; eauto; [apply reachable_wf | apply reachable_S]. Qed.
