From AV Require Import Base.Util Model.Murmur Model.MurmurGen Model.Partitioner Proofs.MurmurGenEq Proofs.MurmurJava.
Lemma gen_is_java data : bytes_ok data = true ->
  murmur2_java (map sbyte data) mod 0x100000000 = gen_pure_murmur2 data gen_seed.
Proof. intro H. rewrite (gen_eq_model data H). apply murmur_java_agree. exact H. Qed.
