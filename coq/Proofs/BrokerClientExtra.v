(* Corollaries of the broker-client invariant in the form quoted by Props/C10.v. *)
From AV Require Import Base.Util Model.Framing Model.BrokerClient
  Proofs.BrokerClientTbl Proofs.BrokerClientInv Proofs.BrokerClientC06 Proofs.BrokerClientC10.

Theorem never_resent evs s outs a h oc b : run init evs = (s, outs) -> outs = a ++ ODef h oc :: b ->
  forall rid, ~ In (OWrite h rid) b.
Proof.
  intros H E rid Hin.
  destruct (after_fired evs s outs a h oc b H E _ Hin) as [_ X]. exact (X rid eq_refl).
Qed.

Theorem write_own_id evs s outs h rid : run init evs = (s, outs) -> In (OWrite h rid) outs ->
  nth_error (t_dlog (s_t s)) h = Some rid.
Proof. intros H Hin. destruct (run_init_scan _ _ _ H) as (_ & S). eapply scan_write; eauto. Qed.

(* whenever requests wait and there is no connection (client not closed) an attempt or a back-off timer is pending *)
Theorem never_stuck evs s outs : run init evs = (s, outs) ->
  s_down s = DNone -> s_proto s = false -> t_reqs (s_t s) <> [] ->
  s_connector s = CAttempt \/ s_connector s = CTimer.
Proof.
  intros H D P R. pose proof (reachable_inv evs) as C. rewrite H in C. cbn [fst] in C.
  exact (ci_reconn s C D P R).
Qed.

(* never an attempt or a timer while a connection is up; so never two connections *)
Theorem one_connection evs s outs : run init evs = (s, outs) -> s_proto s = true -> s_connector s = CNone.
Proof.
  intros H P. pose proof (reachable_inv evs) as C. rewrite H in C. cbn [fst] in C. exact (ci_conn s C P).
Qed.

(* while a connection is up the table holds only requests that were written on it and expect a reply;
   while none is up nothing is marked written (no tombstones survive a loss) *)
Theorem table_shape evs s outs : run init evs = (s, outs) ->
  (s_proto s = true -> Forall (fun r => r_sent r = true /\ r_expect r = true) (t_reqs (s_t s)))
  /\ (s_proto s = false -> Forall (fun r => r_sent r = false /\ r_cancelled r = false) (t_reqs (s_t s))).
Proof.
  intros H. pose proof (reachable_inv evs) as C. rewrite H in C. cbn [fst] in C. split.
  - exact (ci_sent s C).
  - intro P. pose proof (ci_unsent s C P) as U. unfold reqs in U. rewrite Forall_forall in *. intros r Hr.
    split; [exact (U r Hr)|].
    destruct (TInv_entry _ r (ci_t s C) Hr) as (_ & E2 & _ & _).
    destruct (r_cancelled r) eqn:Cc; [|reflexivity]. specialize (E2 eq_refl). rewrite (U r Hr) in E2. discriminate.
Qed.
