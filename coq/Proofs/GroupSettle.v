(* C17, last clause, in event-order form: once faults cease a member that is not stopped rejoins and becomes stable after a
   bounded number of the events it is owed.  [owed s e]: e is the fault-free answer of an honest coordinator / reactor / consumer to
   what the member is waiting for in s (the armed join_and_sync call fires; lookup, metadata, JoinGroup, partition lookup, SyncGroup
   answered ok; a consumer that was asked to shut down completes).  [mu s]: how many owed events are still needed at most. *)
From Coq Require Import Lia.
From AV Require Import Base.Util Model.Group Model.GroupObs Proofs.GroupInv Proofs.GroupInvH Proofs.GroupEsc Proofs.GroupC17.

Definition pend (l : list shc) : nat := length (filter (fun x => negb (sh_done x)) l).

Definition mu (s : state) : nat :=
  match gens s with
  | [] => if rejoin_needed s then 7 + length (consumers s) else 0
  | g :: _ => match g_ph g with
              | GLookup _ => 6 + length (consumers s)
              | GMeta _ => 5 + length (consumers s)
              | GPrepare l => 4 + pend l
              | GJoin _ => 3 | GParts _ => 2 | GSync _ => 1
              end
  end%nat.

Definition owed (s : state) (e : event) : Prop :=
  match gens s with
  | [] => rejoin_needed s = true /\ exists id k, e = EFire id /\ In (id, k) (timers s)
  | [g] => match g_ph g with
           | GLookup rid => e = ELookup rid LBroker
           | GMeta rid => e = EMeta rid ROk
           | GPrepare l => exists cid, e = ECShut cid true /\ sh_has cid l = true
           | GJoin rid => exists gn mem role, e = EJoin rid (JOk gn mem role) /\ (role = 0 \/ role = 1)
           | GParts rid => e = EParts rid POk
           | GSync rid => exists asg, e = ESync rid (SOk asg)
           end
  | _ => False
  end.

(* started, neither stop() nor a fatal error, no non-Kafka escape *)
Definition live (s : state) : Prop :=
  start_d s <> None /\ stopping s = false /\ stop_requested s = false /\ escaped s = false.

Definition stable (s : state) : Prop :=
  gens s = [] /\ rejoin_needed s = false /\ hb_running s = true /\ (is_group s = true -> consumers s <> [] \/ cur_assign s = []).

Lemma pend_mark_le : forall cid l, (pend (sh_mark_done cid l) <= pend l)%nat.
Proof.
  intros cid l. unfold pend, sh_mark_done. induction l as [|y l IH]; cbn; [lia|].
  destruct (c_id (sh_c y) =? cid); cbn; destruct (sh_done y); cbn; lia.
Qed.
Lemma pend_mark : forall cid l, sh_has cid l = true -> (pend (sh_mark_done cid l) < pend l)%nat.
Proof.
  intros cid l. induction l as [|x l IH]; [discriminate|].
  unfold sh_has. cbn [existsb]. intros H. apply orb_prop in H.
  pose proof (pend_mark_le cid l) as LE. unfold pend, sh_mark_done in *. cbn [map filter].
  destruct (c_id (sh_c x) =? cid) eqn:E; cbn [andb] in H.
  - destruct (sh_done x) eqn:D; cbn in *.
    + destruct H as [H|H]; [discriminate|]. specialize (IH H). lia.
    + lia.
  - destruct H as [H|H]; [discriminate|]. specialize (IH H). destruct (sh_done x); cbn; lia.
Qed.

Lemma all_done_pend : forall l, sh_all_done l = false -> (1 <= pend l)%nat.
Proof. unfold sh_all_done, pend. induction l as [|x l IH]; cbn; [discriminate|]. destruct (sh_done x); cbn; [auto|lia]. Qed.

Lemma pend_fresh : forall (l : list consumer), pend (map (fun c => mkSh c false) l) = length l.
Proof. unfold pend. induction l; cbn; auto. Qed.
Lemma sh_has_pend : forall cid l, sh_has cid l = true -> (1 <= pend l)%nat.
Proof. intros cid l H. pose proof (pend_mark cid l H). lia. Qed.

Ltac live_split := unfold live; prj; repeat split; auto.
Ltac nlt := cbn [g_ph g_id gens consumers rejoin_needed length Nat.add]; rewrite ?pend_fresh; cbn [length Nat.add]; first [lia | (unfold lt; auto 20 with arith; fail)].

(* ---------- each phase's owed event leads to the next phase ---------- *)
Lemma step_fire : forall s id k, gens s = [] -> rejoin_d s = None -> rejoin_needed s = true -> live s -> In (id, k) (timers s) ->
  let s' := fst (step s (EFire id)) in live s' /\ (mu s' < mu s)%nat.
Proof.
  intros s id k G Rd Rn L Hin. pose proof (existsb_in_timer _ _ _ Hin) as Ex. destruct L as (L1 & L2 & L3 & L4).
  cbn [step]. unfold on_fire. rewrite Ex. unfold remove_timer, join_and_sync, add_gen, mu. ds s. cbn in G, Rd, Rn, L1, L2, L3, L4. subst.
  destruct grp; destruct dc0 as [|i|]; prj; try (assert (E : exists b, (i =? id) = b) by eauto; destruct E as [[|] E]; rewrite E); prj;
    (split; [live_split|nlt]).
Qed.

Lemma step_lookup : forall s gid rid, gens s = [mkGen gid (GLookup rid)] -> live s ->
  let s' := fst (step s (ELookup rid LBroker)) in live s' /\ (mu s' < mu s)%nat.
Proof.
  intros s gid rid G L. destruct L as (L1 & L2 & L3 & L4). cbn [step]. unfold on_lookup, with_gen, mu. rewrite G.
  cbn [take_first awaits g_ph]. rewrite Z.eqb_refl. unfold fresh_rid, add_gen. ds s. cbn in *. subst. split; [live_split|nlt].
Qed.

Lemma step_meta : forall s gid rid, gens s = [mkGen gid (GMeta rid)] -> live s ->
  let s' := fst (step s (EMeta rid ROk)) in live s' /\ (mu s' < mu s)%nat.
Proof.
  intros s gid rid G L. destruct L as (L1 & L2 & L3 & L4). cbn [step]. unfold on_meta, with_gen, mu. rewrite G.
  cbn [take_first awaits g_ph]. rewrite Z.eqb_refl. unfold stop_pend, prepare_and_join, begin_shutdown, send_join, fresh_rid, add_gen.
  ds s. cbn in G, L1, L2, L3, L4. subst. destruct grp; destruct cs as [|c cs']; prj; cbv [orb]; prj; (split; [live_split|cbn [gens g_ph]; rewrite ?pend_fresh; nlt]).
Qed.

Lemma step_cshut : forall s gid l cid, gens s = [mkGen gid (GPrepare l)] -> live s -> sh_has cid l = true ->
  let s' := fst (step s (ECShut cid true)) in live s' /\ (mu s' < mu s)%nat.
Proof.
  intros s gid l cid G L Hh. destruct L as (L1 & L2 & L3 & L4). cbn [step]. unfold on_cshut, mu. rewrite G.
  cbn [take_first gen_list g_ph]. rewrite Hh. cbn [gen_list g_ph g_id].
  pose proof (pend_mark cid l Hh) as PM. pose proof (sh_has_pend cid l Hh) as P1.
  destruct (sh_all_done (sh_mark_done cid l)).
  - unfold after_prepare, stop_pend, send_join, fresh_rid, add_gen. ds s. cbn in G, L1, L2, L3, L4. subst. prj. cbv [orb]. prj. split; [live_split|nlt].
  - ds s. cbn in G, L1, L2, L3, L4. subst. prj. cbv [orb]. prj. split; [live_split|nlt].
Qed.

Lemma step_join : forall s gid rid gn mem role, gens s = [mkGen gid (GJoin rid)] -> live s -> role = 0 \/ role = 1 ->
  let s' := fst (step s (EJoin rid (JOk gn mem role))) in live s' /\ (mu s' < mu s)%nat.
Proof.
  intros s gid rid gn' mem' role G L R. destruct L as (L1 & L2 & L3 & L4). cbn [step]. unfold on_join, with_gen, mu. rewrite G.
  cbn [take_first awaits g_ph]. rewrite Z.eqb_refl. unfold seq, upd, stop_pend, send_sync, fresh_rid, add_gen.
  ds s. cbn in G, L1, L2, L3, L4. subst. destruct R as [-> | ->]; prj; cbv [orb]; prj; (split; [live_split|nlt]).
Qed.

Lemma step_parts : forall s gid rid, gens s = [mkGen gid (GParts rid)] -> live s ->
  let s' := fst (step s (EParts rid POk)) in live s' /\ (mu s' < mu s)%nat.
Proof.
  intros s gid rid G L. destruct L as (L1 & L2 & L3 & L4). cbn [step]. unfold on_parts, with_gen, mu. rewrite G.
  cbn [take_first awaits g_ph]. rewrite Z.eqb_refl. unfold stop_pend, send_sync, fresh_rid, add_gen.
  ds s. cbn in G, L1, L2, L3, L4. subst. prj. cbv [orb]. prj. split; [live_split|nlt].
Qed.

Lemma step_sync : forall s gid rid asg, gens s = [mkGen gid (GSync rid)] -> live s ->
  let s' := fst (step s (ESync rid (SOk asg))) in
  live s' /\ gens s' = [] /\ rejoin_needed s' = false /\ hb_running s' = true /\ (mu s' < mu s)%nat.
Proof.
  intros s gid rid asg G L. destruct L as (L1 & L2 & L3 & L4). cbn [step]. unfold on_sync, with_gen. rewrite G.
  cbn [take_first awaits g_ph]. rewrite Z.eqb_refl.
  replace (stop_pend (set_gens [] s)) with false by (unfold stop_pend; ds s; cbn in *; subst; reflexivity).
  cbv zeta. rewrite !seq_fst. unfold gen_end, upd. cbn [fst]. rewrite !reset_hb_fst.
  set (sA := set_rejoin_needed false (set_hb_running true (set_cur_assign asg (set_gens [] s)))).
  assert (X : exists cs', same_core (set_consumers cs' sA) (fst (on_join_complete asg sA))).
  { unfold on_join_complete. destruct (is_group sA); [|exists (consumers sA); cbn [fst]; ds s; frame].
    destruct (stop_requested sA); [exists (consumers sA); cbn [fst]; ds s; frame|].
    destruct (start_consumers_spec (group_by_topic asg) sA) as [A _]. eauto. }
  destruct X as (cs' & SC). unfold same_core in SC. destruct SC as (_&_&_&E4&E5&E6&E7&_&_&E10&_&E12&_&_&_&_&E17).
  set (sB := fst (on_join_complete asg sA)) in *. clearbody sB.
  assert (F : start_d (set_rejoin_d None sB) = start_d s /\ stopping (set_rejoin_d None sB) = false /\ stop_requested (set_rejoin_d None sB) = false /\
              escaped (set_rejoin_d None sB) = false /\ gens (set_rejoin_d None sB) = [] /\ rejoin_needed (set_rejoin_d None sB) = false /\
              hb_running (set_rejoin_d None sB) = true).
  { destruct sB. subst sA. ds s. cbn in *. subst. repeat split; auto. }
  destruct F as (F1 & F2 & F3 & F4 & F5 & F6 & F7).
  split; [unfold live; rewrite F1, F2, F3, F4; auto|]. split; [exact F5|]. split; [exact F6|]. split; [exact F7|].
  unfold mu. rewrite F5, F6, G. cbn [g_ph]. lia.
Qed.

(* ---------- every owed event keeps the member live and strictly decreases the measure ---------- *)
Lemma owed_step : forall s e, Inv s -> live s -> owed s e ->
  live (fst (step s e)) /\ (mu (fst (step s e)) < mu s)%nat.
Proof.
  intros s e I L O. destruct L as (L1 & L2 & L3 & L4). pose proof (j8 _ _ (i_core _ I) L2) as S8. cbn in S8.
  assert (L : live s) by (unfold live; auto).
  unfold owed in O. destruct (gens s) as [|g [|g' r]] eqn:G; [| |destruct O].
  - destruct O as (Rn & id & k & -> & Hin). destruct S8 as [[_ Rd]|(g0 & X & _)]; [|discriminate].
    apply (step_fire s id k); auto.
  - destruct g as [gid ph]. cbn [g_ph] in O. destruct ph.
    + subst e. apply (step_lookup s gid rid); auto.
    + subst e. apply (step_meta s gid rid); auto.
    + destruct O as (cid & -> & Hh). apply (step_cshut s gid l cid); auto.
    + destruct O as (gn & mem & role & -> & R). apply (step_join s gid rid); auto.
    + subst e. apply (step_parts s gid rid); auto.
    + destruct O as (asg & ->). destruct (step_sync s gid rid asg G L) as (A & _ & _ & _ & B). auto.
Qed.

(* ---------- no deadlock: as long as the member is not stable something is owed ---------- *)
Definition prep_live (s : state) : Prop := forall g l, In g (gens s) -> g_ph g = GPrepare l -> sh_all_done l = false.

Lemma not_all_done_has : forall l, sh_all_done l = false -> exists cid, sh_has cid l = true.
Proof.
  unfold sh_all_done, sh_has. induction l as [|x l IH]; cbn; [discriminate|]. destruct (sh_done x) eqn:D; cbn.
  - intros H. destruct (IH H) as (cid & X). exists cid. rewrite X. apply orb_true_r.
  - intros _. exists (c_id (sh_c x)). rewrite Z.eqb_refl. reflexivity.
Qed.

Lemma no_deadlock : forall s, Inv s -> live s -> prep_live s -> (0 < mu s)%nat -> exists e, owed s e.
Proof.
  intros s I L PL M. destruct L as (L1 & L2 & L3 & L4). pose proof (j8 _ _ (i_core _ I) L2) as S8. cbn in S8.
  unfold owed, mu in *. destruct (gens s) as [|g [|g' r]] eqn:G.
  - destruct (rejoin_needed s) eqn:Rn; [|lia].
    destruct (i_prog _ I L1 L2 L3 L4) as [X|[[X _]|X]]; [congruence|congruence|].
    destruct (timers s) as [|[id k] t]; [congruence|]. exists (EFire id). split; auto. exists id, k. split; auto. left; auto.
  - destruct g as [gid ph]. cbn [g_ph] in *. destruct ph as [rid|rid|l|rid|rid|rid].
    + exists (ELookup rid LBroker). reflexivity.
    + exists (EMeta rid ROk). reflexivity.
    + assert (AD : sh_all_done l = false) by (apply (PL (mkGen gid (GPrepare l)) l); [rewrite G; left; reflexivity|reflexivity]).
      destruct (not_all_done_has l AD) as (cid & X). exists (ECShut cid true). exists cid. auto.
    + exists (EJoin rid (JOk 0 0 0)). exists 0, 0, 0. auto.
    + exists (EParts rid POk). reflexivity.
    + exists (ESync rid (SOk [])). exists []. reflexivity.
  - destruct S8 as [[X _]|(g0 & X & _)]; discriminate.
Qed.

Lemma mu_zero_stable : forall s, Inv s -> live s -> mu s = 0%nat -> gens s = [] /\ rejoin_needed s = false /\ hb_running s = true.
Proof.
  intros s I L M. destruct L as (L1 & L2 & L3 & L4). unfold mu in M. destruct (gens s) as [|g r] eqn:G.
  - destruct (rejoin_needed s) eqn:Rn; [lia|]. repeat split; auto. exact (i_stab _ I L2 Rn).
  - destruct (g_ph g); lia.
Qed.

(* ---------- the run: only owed events are delivered (fairness premise: the environment answers what the member waits for,
   fault-free; nothing else happens) ---------- *)
Fixpoint owed_all (s : state) (es : list event) : Prop :=
  match es with [] => True | e :: r => owed s e /\ owed_all (fst (step s e)) r end.

Lemma settles_run : forall grp es evs, let s := state_after grp evs in
  live s -> owed_all s es ->
  let s' := state_after grp (evs ++ es) in live s' /\ (length es + mu s' <= mu s)%nat.
Proof.
  intros grp es. induction es as [|e es IH]; intros evs s L O.
  - rewrite app_nil_r. fold s. split; auto.
  - destruct O as [O1 O2]. pose proof (owed_step s e (reachable_Inv grp evs) L O1) as [L' M'].
    assert (E : fst (step s e) = state_after grp (evs ++ [e])).
    { unfold s, state_after. rewrite fold_left_app. reflexivity. }
    rewrite E in L', M', O2. specialize (IH (evs ++ [e]) L' O2). cbv zeta in IH. rewrite <- app_assoc in IH. cbn [app] in IH.
    destruct IH as [A B]. split; [exact A|]. cbn [length]. lia.
Qed.

Lemma settles : forall grp es evs, let s := state_after grp evs in
  live s -> owed_all s es ->
  let s' := state_after grp (evs ++ es) in
  (length es <= mu s)%nat /\ live s' /\
  ((forall e, ~ owed s' e) -> prep_live s' -> gens s' = [] /\ rejoin_needed s' = false /\ hb_running s' = true) /\
  (prep_live s' -> (0 < mu s')%nat -> exists e, owed s' e).
Proof.
  intros grp es evs s L O. destruct (settles_run grp es evs L O) as [L' B]. cbv zeta.
  pose proof (reachable_Inv grp (evs ++ es)) as I'. split; [unfold s in *; lia|]. split; [exact L'|]. split.
  - intros NO PL. apply mu_zero_stable; auto. destruct (mu (state_after grp (evs ++ es))) eqn:M; auto.
    destruct (no_deadlock _ I' L' PL ltac:(lia)) as (e & X). exfalso. exact (NO e X).
  - intros PL M. apply no_deadlock; auto.
Qed.

Lemma mu_bound : forall s, (mu s <= 7 + length (consumers s) + length (shutting s))%nat.
Proof.
  intros s. unfold mu, shutting. destruct (gens s) as [|g r]; [destruct (rejoin_needed s); lia|].
  destruct (g_ph g) eqn:P; try lia. cbn [flat_map]. rewrite !app_length. unfold gen_list. rewrite P.
  unfold sh_pending_ids, pend. rewrite map_length. lia.
Qed.

(* ---------- prep_live is an invariant: a generator is never left waiting for a shutdown list that is already complete ---------- *)
Definition gsub (a : act) : Prop := forall s g, In g (gens (fst (a s))) -> In g (gens s).

Lemma gs_seq : forall a b, gsub a -> gsub b -> gsub (a ;; b).
Proof. intros a b Ha Hb s g H. rewrite seq_fst in H. apply Ha. apply Hb. exact H. Qed.
Lemma gs_same : forall (a : act), (forall s, gens (fst (a s)) = gens s) -> gsub a.
Proof. intros a H s g X. rewrite H in X. exact X. Qed.
Lemma gs_ogl : gsub on_group_leave.
Proof. apply gs_same. intros s. pose proof (ogl_fields s) as F. cbv zeta in F. intuition. Qed.
Lemma gs_gen_end : gsub gen_end. Proof. apply gs_same. intros s. ds s. reflexivity. Qed.
Lemma gs_emit : forall o, gsub (emit o). Proof. intros o. apply gs_same. reflexivity. Qed.
Lemma gs_emits : forall o, gsub (emits o). Proof. intros o. apply gs_same. reflexivity. Qed.
Lemma gs_finish_stop : forall st c, gsub (finish_stop st c).
Proof. intros st c. apply gs_same. intros s. unfold finish_stop. ds s. destruct grp; reflexivity. Qed.
Lemma gs_cancel_gen : forall gid, gsub (cancel_gen gid).
Proof.
  intros gid s g H. unfold cancel_gen in H. destruct (take_first _ (gens s)) as [[g0 rest]|] eqn:T; [|exact H].
  destruct (take_first_in _ _ _ _ _ T) as [_ R]. apply R.
  destruct (g_ph g0); unfold seq, emit, emits, gen_end, upd in H; cbn [fst] in H; ds s; exact H.
Qed.
Lemma gs_stop_tail : forall st, gsub (stop_tail st).
Proof.
  intros st s g H. unfold stop_tail in H.
  assert (X : forall g0, In g0 (gens (fst (match rejoin_d s with Some gid => cancel_gen gid (set_rejoin_d None s) | None => (s, []) end))) -> In g0 (gens s)).
  { intros g0 Y. destruct (rejoin_d s); [apply gs_cancel_gen in Y; ds s; exact Y|exact Y]. }
  destruct (match rejoin_d s with Some gid => cancel_gen gid (set_rejoin_d None s) | None => (s, []) end) as [s1 o1]. cbn [fst] in X.
  apply X. ds s1. unfold finish_stop in H. destruct sd; destruct grp; exact H.
Qed.
Lemma gs_coord_stop : forall st, gsub (coord_stop st).
Proof.
  intros st s g. ds s. destruct sd as [idx|]; [|unfold coord_stop; cbn [start_d]; apply gs_finish_stop].
  destruct stp; [unfold coord_stop; cbn [start_d stopping]; apply gs_finish_stop|].
  destruct dc0 as [|i|]; [| |unfold coord_stop; cbn [start_d stopping dc set_rejoin_needed set_stopping]; intros H; apply gs_finish_stop in H; exact H];
    destruct hbq as [rid|]; destruct hbr; destruct ck; destruct (mem =? 0) eqn:M;
    unfold coord_stop, hb_stop, remove_timer; prj; rewrite ?M; prj.
  all: try match goal with |- context [stop_tail ?st0 ?s0] =>
         let Y := fresh in pose proof (gs_stop_tail st0 s0 g) as Y; destruct (stop_tail st0 s0) as [s3 o4]; prj; exact Y end.
  all: auto.
Qed.
Lemma gs_do_stop : forall idx err, gsub (do_stop idx err).
Proof.
  intros idx err s g H. unfold do_stop in H. destruct (is_group s).
  - destruct (consumers (set_stop_requested true s)); [apply gs_coord_stop in H; ds s; exact H|]. unfold begin_shutdown in H. ds s. exact H.
  - apply gs_coord_stop in H. exact H.
Qed.
Lemma gs_fatal : forall k, gsub (fatal k). Proof. intros k. unfold fatal. apply gs_seq; [apply gs_ogl|apply gs_do_stop]. Qed.
Lemma gs_resched : forall d, gsub (resched d).
Proof.
  intros d. apply gs_same. intros s. unfold resched. destruct (stopping s); [reflexivity|].
  unfold schedule_rejoin, new_timer. ds s. destruct dc0; reflexivity.
Qed.
Lemma gs_upd_member : gsub (upd (set_member 0)). Proof. apply gs_same. intros s. ds s. reflexivity. Qed.
Lemma gs_rae : forall k, gsub (rejoin_after_error k).
Proof.
  intros k. destruct k; cbn [rejoin_after_error].
  - apply gs_resched.
  - apply gs_seq; [apply gs_emit|apply gs_resched].
  - apply gs_seq; [apply gs_emit|apply gs_resched].
  - apply gs_seq; [apply gs_ogl|apply gs_resched].
  - apply gs_seq; [apply gs_ogl|apply gs_seq; [apply gs_upd_member|apply gs_resched]].
  - apply gs_seq; [apply gs_ogl|apply gs_seq; [apply gs_upd_member|apply gs_resched]].
  - apply gs_resched.
  - apply gs_seq; [apply gs_ogl|apply gs_seq; [apply gs_emit|apply gs_resched]].
  - apply gs_resched.
  - intros s. destruct (stopping s); [auto|apply gs_fatal].
  - apply gs_fatal.
Qed.
Lemma gs_gen_fail : forall k, gsub (gen_fail k).
Proof. intros k. unfold gen_fail. apply gs_seq; [apply gs_gen_end|]. destruct (is_kafka k); [apply gs_rae|]. apply gs_same. intros s. ds s. reflexivity. Qed.
Lemma gs_coord_retry_end : forall d, gsub (coord_retry d ;; gen_end).
Proof. intros d. apply gs_same. intros s. rewrite seq_fst. ds s. reflexivity. Qed.

Lemma pl_sub : forall s s', (forall g, In g (gens s') -> In g (gens s)) -> prep_live s -> prep_live s'.
Proof. intros s s' H P g l Hin E. apply (P g l); auto. Qed.
Lemma pl_add : forall s g, prep_live s -> (forall l, g_ph g = GPrepare l -> sh_all_done l = false) -> prep_live (add_gen g s).
Proof.
  intros s g P H g' l Hin E. unfold add_gen in Hin. assert (X : gens (set_gens (g :: gens s) s) = g :: gens s) by (ds s; reflexivity).
  rewrite X in Hin. destruct Hin as [<-|Hin]; [apply H; exact E|apply (P g' l); auto].
Qed.
Lemma pl_rest : forall s g rest (p : gen -> bool), take_first p (gens s) = Some (g, rest) -> prep_live s -> prep_live (set_gens rest s).
Proof.
  intros s g rest p T P. apply (pl_sub s); auto. intros g0 H. destruct (take_first_in _ _ _ _ _ T) as [_ R]. apply R. ds s. exact H.
Qed.
Lemma pl_gsub : forall (a : act) s, gsub a -> prep_live s -> prep_live (fst (a s)).
Proof. intros a s G P. apply (pl_sub s); auto. Qed.
Lemma pl_frame : forall s s', gens s' = gens s -> prep_live s -> prep_live s'.
Proof. intros s s' E P. apply (pl_sub s); auto. intros g H. rewrite E in H. exact H. Qed.

Lemma pl_send_join : forall gid s, prep_live s -> prep_live (fst (send_join gid s)).
Proof.
  intros gid s P. change (fst (send_join gid s)) with (add_gen (mkGen gid (GJoin (next_rid s))) (set_next_rid (next_rid s + 1) s)).
  apply pl_add; [apply (pl_frame s); [ds s; reflexivity|exact P]|discriminate].
Qed.
Lemma pl_send_sync : forall gid ld s, prep_live s -> prep_live (fst (send_sync gid ld s)).
Proof.
  intros gid ld s P. change (fst (send_sync gid ld s)) with (add_gen (mkGen gid (GSync (next_rid s))) (set_next_rid (next_rid s + 1) s)).
  apply pl_add; [apply (pl_frame s); [ds s; reflexivity|exact P]|discriminate].
Qed.
Lemma fresh_not_done : forall (c : consumer) l, sh_all_done (map (fun c => mkSh c false) (c :: l)) = false.
Proof. reflexivity. Qed.
Lemma pl_prepare_and_join : forall gid s, prep_live s -> prep_live (fst (prepare_and_join gid s)).
Proof.
  intros gid s P. unfold prepare_and_join. destruct (is_group s); [|apply pl_send_join; auto].
  destruct (consumers s) as [|c l] eqn:C; [apply pl_send_join; auto|]. unfold begin_shutdown. cbn [fst].
  apply pl_add; [apply (pl_frame s); [ds s; reflexivity|exact P]|]. intros l0 E. cbn in E. inversion E. rewrite C. reflexivity.
Qed.
Lemma pl_after_prepare : forall gid s, prep_live s -> prep_live (fst (after_prepare gid s)).
Proof. intros gid s P. unfold after_prepare. destruct (stop_pend s); [apply pl_gsub; [apply gs_gen_end|auto]|apply pl_send_join; auto]. Qed.
Lemma pl_join_and_sync : forall s, prep_live s -> prep_live (fst (join_and_sync s)).
Proof.
  intros s P. unfold join_and_sync. destruct (is_group s && stop_requested s).
  - cbn [fst]. destruct (dc s); [apply (pl_frame s); [ds s; reflexivity|auto]|auto|apply (pl_frame s); [ds s; reflexivity|auto]].
  - destruct (negb (rejoin_needed (set_dc DcNone s))); [cbn [fst]; apply (pl_frame s); [ds s; reflexivity|auto]|].
    destruct (rejoin_d (set_dc DcNone s)); cbn [fst]; [apply (pl_frame s); [ds s; reflexivity|auto]|].
    match goal with |- prep_live (set_rejoin_d _ (add_gen ?g ?x)) => apply (pl_frame (add_gen g x)); [unfold add_gen; ds s; reflexivity|] end.
    apply pl_add; [apply (pl_frame s); [ds s; reflexivity|auto]|discriminate].
Qed.
Lemma pl_sync_ok : forall asg (a tl : act) s, (forall s0, gens (fst (a s0)) = gens s0) -> gsub tl -> prep_live s ->
  prep_live (fst ((upd (set_cur_assign asg) ;; reset_heartbeat_timer ;; upd (set_rejoin_needed false) ;; a ;; tl) s)).
Proof.
  intros asg a tl s Ha Htl P. rewrite !seq_fst. apply pl_gsub; auto. apply (pl_frame s); [|exact P].
  rewrite Ha. unfold upd. cbn [fst]. rewrite reset_hb_fst. ds s. reflexivity.
Qed.
Lemma gens_start_consumers : forall tps s, gens (fst (start_consumers tps s)) = gens s.
Proof.
  intros tps s. destruct (start_consumers_spec tps s) as [SC _]. unfold same_core in SC.
  destruct SC as (_&_&_&_&_&_&_&_&_&_&_&E&_). rewrite E. ds s. reflexivity.
Qed.
Lemma gens_join_complete : forall asg s, gens (fst (on_join_complete asg s)) = gens s.
Proof.
  intros asg s. unfold on_join_complete. destruct (is_group s); [|reflexivity]. destruct (stop_requested s); [reflexivity|apply gens_start_consumers].
Qed.

Lemma sh_fail_all_done : forall cid l, sh_all_done (sh_fail cid l) = sh_all_done l.
Proof. intros cid l. unfold sh_all_done, sh_fail. induction l as [|x l IH]; cbn; auto. rewrite IH. reflexivity. Qed.

Lemma step_prep_live : forall s e, prep_live s -> prep_live (fst (step s e)).
Proof.
  intros s e P. destruct e; cbn [step].
  - destruct (start_d s); [exact P|]. match goal with |- context [join_and_sync ?x] => pose proof (pl_join_and_sync x) as J; destruct (join_and_sync x) end.
    cbn [fst] in *. apply J. apply (pl_frame s); [ds s; reflexivity|exact P].
  - match goal with |- context [do_stop ?a ?b ?x] => pose proof (pl_gsub (do_stop a b) x (gs_do_stop a b)) as J; destruct (do_stop a b x) end.
    cbn [fst] in *. apply J. apply (pl_frame s); [ds s; reflexivity|exact P].
  - unfold on_lookup, with_gen. destruct (take_first _ (gens s)) as [[g rest]|] eqn:T; [|exact P]. pose proof (pl_rest _ _ _ _ T P) as P1.
    destruct r as [| |k].
    + unfold fresh_rid. cbn [fst]. apply pl_add; [apply (pl_frame (set_gens rest s)); [ds s; reflexivity|exact P1]|discriminate].
    + apply pl_gsub; [apply gs_coord_retry_end|exact P1].
    + destruct k; try (apply pl_gsub; [apply gs_coord_retry_end|exact P1]); (apply pl_gsub; [apply gs_gen_fail|exact P1]).
  - unfold on_meta, with_gen. destruct (take_first _ (gens s)) as [[g rest]|] eqn:T; [|exact P]. pose proof (pl_rest _ _ _ _ T P) as P1.
    destruct r as [|k]; [|apply pl_gsub; [apply gs_gen_fail|exact P1]].
    destruct (stop_pend _); [apply pl_gsub; [apply gs_gen_end|exact P1]|].
    apply pl_prepare_and_join. apply (pl_frame (set_gens rest s)); [ds s; reflexivity|exact P1].
  - unfold on_join, with_gen. destruct (take_first _ (gens s)) as [[g rest]|] eqn:T; [|exact P]. pose proof (pl_rest _ _ _ _ T P) as P1.
    destruct r as [gn mem role|k]; [|apply pl_gsub; [apply gs_seq; [apply gs_rae|apply gs_gen_end]|exact P1]].
    rewrite seq_fst. unfold upd. cbn [fst]. cbv beta.
    set (s1 := set_cur_assign [] (set_generation gn (set_member mem (set_gens rest s)))).
    assert (P2 : prep_live s1) by (apply (pl_frame (set_gens rest s)); [subst s1; destruct s; reflexivity|exact P1]). clearbody s1.
    destruct (stop_pend s1); [apply pl_gsub; [apply gs_gen_end|exact P2]|].
    destruct (role =? 0); [apply pl_send_sync; exact P2|]. destruct (role =? 1); [|apply pl_gsub; [apply gs_gen_fail|exact P2]].
    unfold fresh_rid. cbn [fst]. apply pl_add; [apply (pl_frame s1); [destruct s1; reflexivity|exact P2]|discriminate].
  - unfold on_parts, with_gen. destruct (take_first _ (gens s)) as [[g rest]|] eqn:T; [|exact P]. pose proof (pl_rest _ _ _ _ T P) as P1.
    destruct r as [| |k]; try (apply pl_gsub; [apply gs_gen_fail|exact P1]).
    destruct (stop_pend _); [apply pl_gsub; [apply gs_gen_end|exact P1]|apply pl_send_sync; exact P1].
  - unfold on_sync, with_gen. destruct (take_first _ (gens s)) as [[g rest]|] eqn:T; [|exact P]. pose proof (pl_rest _ _ _ _ T P) as P1.
    destruct r as [asg| | |k|asg n]; try (apply pl_gsub; [apply gs_seq; [apply gs_rae|apply gs_gen_end]|exact P1]).
    all: destruct (stop_pend _); [apply pl_gsub; [apply gs_gen_end|exact P1]|].
    + apply pl_sync_ok; [apply gens_join_complete|apply gs_gen_end|exact P1].
    + apply pl_gsub; [apply gs_gen_fail|exact P1].
    + apply pl_gsub; [apply gs_gen_fail|exact P1].
    + destruct (ctor_raises _ _ _); [apply pl_sync_ok; [apply gens_start_consumers|apply gs_gen_fail|exact P1]
                                    |apply pl_sync_ok; [apply gens_join_complete|apply gs_gen_end|exact P1]].
  - unfold on_tick. destruct (hb_running s); [|exact P]. destruct (_ || _); [exact P|]. cbn [fst]. apply (pl_frame s); [ds s; reflexivity|exact P].
  - unfold on_hb_reply. destruct (hb_req s); [|exact P]. destruct (_ =? _); [|exact P].
    assert (P1 : prep_live (set_hb_req None s)) by (apply (pl_frame s); [ds s; reflexivity|exact P]).
    destruct r; [exact P1|]. destruct (hb_running _); [|exact P1].
    apply pl_gsub; [apply gs_seq; [apply gs_same; intros s0; ds s0; reflexivity|apply gs_rae]|exact P1].
  - unfold on_fire. destruct (existsb _ _); [|exact P]. apply pl_join_and_sync. apply (pl_frame s); [|exact P].
    unfold remove_timer. ds s. destruct dc0 as [|i|]; cbn; try (destruct (i =? id)); reflexivity.
  - unfold on_leave. destruct (take_first _ _) as [[st rest]|]; [|exact P]. apply pl_gsub; [apply gs_stop_tail|].
    apply (pl_frame s); [destruct r; ds s; reflexivity|exact P].
  - unfold on_cfail. destruct (can_fail cid s); [|exact P].
    match goal with |- context [rejoin_after_error k ?x] => set (s1 := x) end.
    assert (P1 : prep_live s1).
    { subst s1. intros g l Hin E. assert (X : In g (map (gen_fail_c cid) (gens s))) by (ds s; exact Hin).
      apply in_map_iff in X. destruct X as (g0 & <- & Hg0). unfold gen_fail_c in E. destruct (g_ph g0) eqn:E0; cbn in E; try (rewrite E0 in E; discriminate).
      inversion E. rewrite sh_fail_all_done. apply (P g0 l0); auto. }
    clearbody s1. destruct k; try (apply pl_gsub; [apply gs_rae|exact P1]). destruct (consumers s1); [exact P1|apply pl_gsub; [apply gs_rae|exact P1]].
  - unfold on_cshut. destruct (take_first (fun g => sh_has cid (gen_list g)) (gens s)) as [[g rest]|] eqn:T.
    + pose proof (pl_rest _ _ _ _ T P) as P1. destruct ok.
      * destruct (sh_all_done (sh_mark_done cid (gen_list g))) eqn:AD; [apply pl_after_prepare; exact P1|]. cbn [fst].
        change (set_gens (mkGen (g_id g) (GPrepare (sh_mark_done cid (gen_list g))) :: rest) s)
          with (add_gen (mkGen (g_id g) (GPrepare (sh_mark_done cid (gen_list g)))) (set_gens rest s)).
        apply pl_add; [exact P1|]. intros l E. cbn in E. inversion E. subst. exact AD.
      * rewrite emits_fst. apply pl_after_prepare. exact P1.
    + destruct (take_first (fun st => sh_has cid (stop_list st)) (stops s)) as [[st rest]|]; [|exact P].
      assert (P1 : forall x, prep_live (set_stops x s)) by (intros x; apply (pl_frame s); [ds s; reflexivity|exact P]).
      destruct ok.
      * destruct (sh_all_done _); [apply pl_gsub; [apply gs_coord_stop|apply P1]|apply P1].
      * rewrite emits_fst. apply pl_gsub; [apply gs_coord_stop|apply P1].
Qed.

Lemma reachable_prep_live : forall grp evs, prep_live (state_after grp evs).
Proof.
  intros grp evs. unfold state_after.
  assert (G : forall s, prep_live s -> prep_live (fold_left (fun s e => fst (step s e)) evs s)).
  { induction evs as [|e evs IH]; intros s H; cbn [fold_left]; auto. apply IH. apply step_prep_live. exact H. }
  apply G. intros g l H. destruct grp; destruct H.
Qed.

(* ---------- the theorem ---------- *)
Theorem settles_bounded : forall grp es evs, let s := state_after grp evs in
  live s -> owed_all s es ->
  let s' := state_after grp (evs ++ es) in
  (length es <= mu s)%nat /\ (mu s <= 7 + length (consumers s) + length (shutting s))%nat /\ live s' /\
  ((0 < mu s')%nat -> exists e, owed s' e) /\
  (mu s' = 0%nat <-> (gens s' = [] /\ rejoin_needed s' = false)) /\
  (mu s' = 0%nat -> hb_running s' = true).
Proof.
  intros grp es evs s L O. destruct (settles grp es evs L O) as (A & B & C & D). cbv zeta.
  pose proof (reachable_prep_live grp (evs ++ es)) as PL. pose proof (reachable_Inv grp (evs ++ es)) as I'.
  split; [exact A|]. split; [apply mu_bound|]. split; [exact B|]. split; [exact (D PL)|]. split.
  - split.
    + intros M. destruct (mu_zero_stable _ I' B M) as (X & Y & _). auto.
    + intros [X Y]. unfold mu. rewrite X, Y. reflexivity.
  - intros M. destruct (mu_zero_stable _ I' B M) as (_ & _ & Z). exact Z.
Qed.
