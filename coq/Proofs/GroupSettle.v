(* C17, last clause, in event-order form: once faults cease a member that is not stopped rejoins and becomes stable after a
   bounded number of the events it is owed.  [owed s e]: e is the fault-free answer of an honest coordinator / reactor / consumer to
   what the member is waiting for in s (the armed join_and_sync call fires; lookup, metadata, JoinGroup, partition lookup, SyncGroup
   answered ok; a consumer that was asked to shut down completes).  [mu s]: how many owed events are still needed at most. *)
From Coq Require Import Lia.
From AV Require Import Base.Util Model.Group Model.GroupObs Proofs.GroupInv Proofs.GroupInvH Proofs.GroupEsc Proofs.GroupC17.

Definition pend (l : list shc) : nat := length (filter (fun x => negb (sh_done x)) l).

Definition mu (s : state) : nat :=
  match gens s with
  | [] => if rejoin_needed s then 7 + length (consumers s) else 0
  | g :: _ => match g_ph g with
              | GLookup _ => 6 + length (consumers s)
              | GMeta _ => 5 + length (consumers s)
              | GPrepare l => 4 + pend l
              | GJoin _ => 3 | GParts _ => 2 | GSync _ => 1
              end
  end%nat.

Definition owed (s : state) (e : event) : Prop :=
  match gens s with
  | [] => rejoin_needed s = true /\ exists id k, e = EFire id /\ In (id, k) (timers s)
  | [g] => match g_ph g with
           | GLookup rid => e = ELookup rid LBroker
           | GMeta rid => e = EMeta rid ROk
           | GPrepare l => exists cid, e = ECShut cid true /\ sh_has cid l = true
           | GJoin rid => exists gn mem role, e = EJoin rid (JOk gn mem role) /\ (role = 0 \/ role = 1)
           | GParts rid => e = EParts rid POk
           | GSync rid => exists asg, e = ESync rid (SOk asg)
           end
  | _ => False
  end.

(* started, neither stop() nor a fatal error, no non-Kafka escape *)
Definition live (s : state) : Prop :=
  start_d s <> None /\ stopping s = false /\ stop_requested s = false /\ escaped s = false.

Definition stable (s : state) : Prop :=
  gens s = [] /\ rejoin_needed s = false /\ hb_running s = true /\ (is_group s = true -> consumers s <> [] \/ cur_assign s = []).

Lemma pend_mark_le : forall cid l, (pend (sh_mark_done cid l) <= pend l)%nat.
Proof.
  intros cid l. unfold pend, sh_mark_done. induction l as [|y l IH]; cbn; [lia|].
  destruct (c_id (sh_c y) =? cid); cbn; destruct (sh_done y); cbn; lia.
Qed.
Lemma pend_mark : forall cid l, sh_has cid l = true -> (pend (sh_mark_done cid l) < pend l)%nat.
Proof.
  intros cid l. induction l as [|x l IH]; [discriminate|].
  unfold sh_has. cbn [existsb]. intros H. apply orb_prop in H.
  pose proof (pend_mark_le cid l) as LE. unfold pend, sh_mark_done in *. cbn [map filter].
  destruct (c_id (sh_c x) =? cid) eqn:E; cbn [andb] in H.
  - destruct (sh_done x) eqn:D; cbn in *.
    + destruct H as [H|H]; [discriminate|]. specialize (IH H). lia.
    + lia.
  - destruct H as [H|H]; [discriminate|]. specialize (IH H). destruct (sh_done x); cbn; lia.
Qed.

Lemma all_done_pend : forall l, sh_all_done l = false -> (1 <= pend l)%nat.
Proof. unfold sh_all_done, pend. induction l as [|x l IH]; cbn; [discriminate|]. destruct (sh_done x); cbn; [auto|lia]. Qed.

Lemma pend_fresh : forall (l : list consumer), pend (map (fun c => mkSh c false) l) = length l.
Proof. unfold pend. induction l; cbn; auto. Qed.
Lemma sh_has_pend : forall cid l, sh_has cid l = true -> (1 <= pend l)%nat.
Proof. intros cid l H. pose proof (pend_mark cid l H). lia. Qed.

Ltac live_split := unfold live; prj; repeat split; auto.

(* ---------- each phase's owed event leads to the next phase ---------- *)
Lemma step_fire : forall s id k, gens s = [] -> rejoin_d s = None -> rejoin_needed s = true -> live s -> In (id, k) (timers s) ->
  let s' := fst (step s (EFire id)) in live s' /\ (mu s' < mu s)%nat.
Proof.
  intros s id k G Rd Rn L Hin. pose proof (existsb_in_timer _ _ _ Hin) as Ex. destruct L as (L1 & L2 & L3 & L4).
  cbn [step]. unfold on_fire. rewrite Ex. unfold remove_timer, join_and_sync, add_gen, mu. ds s. cbn in G, Rd, Rn, L1, L2, L3, L4. subst.
  destruct grp; destruct dc0 as [|i|]; prj; try (assert (E : exists b, (i =? id) = b) by eauto; destruct E as [[|] E]; rewrite E); prj;
    (split; [live_split|cbn; lia]).
Qed.

Lemma step_lookup : forall s gid rid, gens s = [mkGen gid (GLookup rid)] -> live s ->
  let s' := fst (step s (ELookup rid LBroker)) in live s' /\ (mu s' < mu s)%nat.
Proof.
  intros s gid rid G L. destruct L as (L1 & L2 & L3 & L4). cbn [step]. unfold on_lookup, with_gen, mu. rewrite G.
  cbn [take_first awaits g_ph]. rewrite Z.eqb_refl. unfold fresh_rid, add_gen. ds s. cbn in *. subst. split; [live_split|lia].
Qed.

Lemma step_meta : forall s gid rid, gens s = [mkGen gid (GMeta rid)] -> live s ->
  let s' := fst (step s (EMeta rid ROk)) in live s' /\ (mu s' < mu s)%nat.
Proof.
  intros s gid rid G L. destruct L as (L1 & L2 & L3 & L4). cbn [step]. unfold on_meta, with_gen, mu. rewrite G.
  cbn [take_first awaits g_ph]. rewrite Z.eqb_refl. unfold stop_pend, prepare_and_join, begin_shutdown, send_join, fresh_rid, add_gen.
  ds s. cbn in G, L1, L2, L3, L4. subst. destruct grp; destruct cs as [|c cs']; prj; (split; [live_split|cbn [gens g_ph]; rewrite ?pend_fresh; cbn; lia]).
Qed.

Lemma step_cshut : forall s gid l cid, gens s = [mkGen gid (GPrepare l)] -> live s -> sh_has cid l = true ->
  let s' := fst (step s (ECShut cid true)) in live s' /\ (mu s' < mu s)%nat.
Proof.
  intros s gid l cid G L Hh. destruct L as (L1 & L2 & L3 & L4). cbn [step]. unfold on_cshut, mu. rewrite G.
  cbn [take_first gen_list g_ph]. rewrite Hh. cbn [gen_list g_ph g_id].
  pose proof (pend_mark cid l Hh) as PM. pose proof (sh_has_pend cid l Hh) as P1.
  destruct (sh_all_done (sh_mark_done cid l)).
  - unfold after_prepare, stop_pend, send_join, fresh_rid, add_gen. ds s. cbn in G, L1, L2, L3, L4. subst. prj. split; [live_split|cbn; lia].
  - ds s. cbn in G, L1, L2, L3, L4. subst. prj. split; [live_split|cbn; lia].
Qed.

Lemma step_join : forall s gid rid gn mem role, gens s = [mkGen gid (GJoin rid)] -> live s -> role = 0 \/ role = 1 ->
  let s' := fst (step s (EJoin rid (JOk gn mem role))) in live s' /\ (mu s' < mu s)%nat.
Proof.
  intros s gid rid gn' mem' role G L R. destruct L as (L1 & L2 & L3 & L4). cbn [step]. unfold on_join, with_gen, mu. rewrite G.
  cbn [take_first awaits g_ph]. rewrite Z.eqb_refl. unfold seq, upd, stop_pend, send_sync, fresh_rid, add_gen.
  ds s. cbn in G, L1, L2, L3, L4. subst. destruct R as [-> | ->]; prj; (split; [live_split|cbn; lia]).
Qed.

Lemma step_parts : forall s gid rid, gens s = [mkGen gid (GParts rid)] -> live s ->
  let s' := fst (step s (EParts rid POk)) in live s' /\ (mu s' < mu s)%nat.
Proof.
  intros s gid rid G L. destruct L as (L1 & L2 & L3 & L4). cbn [step]. unfold on_parts, with_gen, mu. rewrite G.
  cbn [take_first awaits g_ph]. rewrite Z.eqb_refl. unfold stop_pend, send_sync, fresh_rid, add_gen.
  ds s. cbn in G, L1, L2, L3, L4. subst. prj. split; [live_split|cbn; lia].
Qed.
