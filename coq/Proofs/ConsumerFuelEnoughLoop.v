(* Some fuel suffices, part 3: the message loop (_process_messages, _handle_fetch_response, the processor result), every
   event, every run.  Needs 0 <= auto_commit_every_n, which the constructor guarantees (consumer.py:208-209 raises
   ValueError otherwise): with a negative value the model's loop would hand over empty blocks for ever. *)
From Coq Require Import Lia.
From AV Require Import Base.Util Model.Consumer Proofs.ConsumerBase Proofs.ConsumerFrame Proofs.ConsumerStop Proofs.ConsumerShut
  Proofs.ConsumerShutFlags Proofs.ConsumerNotStarted Proofs.ConsumerFuelEnoughStop Proofs.ConsumerFuelEnough.
Open Scope Z_scope.

Definition cfg_ok (c : cfg) : bool := 0 <=? c_acn c.
Definition acn_ok (s : state) : Prop := 0 <= c_acn (s_cf s).

Lemma drop_le {A} : forall k (l : list A), (length (drop k l) <= length l)%nat.
Proof. induction k; destruct l; cbn [drop length]; try lia. specialize (IHk l). lia. Qed.
Lemma drop_cons_le {A} k (m : A) l : (1 <= k)%nat -> (length (drop k (m :: l)) <= length l)%nat.
Proof. destruct k; [lia|]. intros _. cbn. apply drop_le. Qed.
Lemma extract_le : forall offs foff, (length (fst (extract foff offs)) <= length offs)%nat.
Proof.
  induction offs as [|o r IH]; intro foff; cbn [extract]; [cbn; lia|].
  destruct (o <? foff); [specialize (IH foff); cbn [length]; lia|].
  specialize (IH (o + 1)). destruct (extract (o + 1) r) as [ms f']. cbn [fst length] in *. lia.
Qed.
Lemma block_size_pos c (msgs : list Z) (m : Z) : 0 <= c_acn c ->
  (1 <= (if Z.eqb (c_acn c) 0 then length (m :: msgs) else Z.to_nat (c_acn c)))%nat.
Proof. intro H. destruct (Z.eqb (c_acn c) 0) eqn:E; [cbn [length]; lia|]. apply Z.eqb_neq in E. lia. Qed.

Definition isL (k : kont) : Prop := match k with KProcLoop _ | KFetchResp _ _ | KFireProc _ => True | _ => False end.
Definition BL (k : kont) (s : state) : nat :=
  match k with
  | KProcLoop msgs => 4 * (length msgs + pm s) + cn s + 14
  | KFetchResp offs _ => match s_mblock s with Some _ => 1 | None => 4 * length offs + cn s + 15 end
  | KFireProc _ => match s_proc s with Some (_, rest, _) => 4 * (length rest + pm s) + cn s + 18 | None => 1 end
  | _ => 0
  end.
Definition GL (k : kont) (s s' : state) : Prop :=
  match k with
  | KProcLoop msgs => (cn s' <= cn s + 3 * (length msgs + pm s))%nat
  | KFetchResp offs _ => s_mblock s = None -> (cn s' <= cn s + 3 * length offs)%nat
  | _ => True
  end.
Definition PostL (k : kont) (s s' : state) (o : list output) : Prop :=
  PF s -> fuel_ok o = true /\ PF s' /\ s_cf s' = s_cf s /\ GL k s s'.

Ltac pf_here2 a := let P := fresh "P" in assert (P : PF a) by (unfold PF in *; psimpl; first [assumption | reflexivity]).
Ltac mb_norm := repeat match goal with
  | M : MB _ _ |- _ => destruct M as [M|M]
  | M : s_mblock ?b = s_mblock ?a |- _ => try rewrite M in *; clear M
  | M : s_mblock ?b = None |- _ => rewrite M in *
  | M : s_mblock ?b = Some _ |- _ => rewrite M in *
  end.
Ltac arith2 := unfold LG in *; unfold cn, pm in *; psimpl; mb_norm; psimpl; cbn beta iota in *;
  rewrite ?app_length in *; cbn [length] in *;
  repeat match goal with |- context [if ?b then _ else _] => destruct b end; lia.
Ltac acn_here a := let A := fresh "A" in assert (A : acn_ok a)
  by (unfold acn_ok in *; psimpl; repeat match goal with C : s_cf ?x = _ |- context [s_cf ?x] => rewrite C; psimpl end; assumption).
Ltac com_take := match goal with
  | E : run ?f KCommitAndStop ?a = _ |- _ =>
    pf_here2 a;
    let Bd := fresh "Bd" in assert (Bd : (BC KCommitAndStop a <= f)%nat) by (cbn [BC]; arith2);
    match goal with P : PF a |- _ =>
      let X := fresh "X" in pose proof (commit_side_enough _ _ _ _ _ _ E Logic.I Bd P) as X; cbn [GC] in X;
      let Fo := fresh "Fo" in let P1 := fresh "P" in let C := fresh "C" in let G := fresh "G" in let M := fresh "M" in
      destruct X as (Fo & P1 & C & G & M); clear E end
  end.
Ltac fin_l := split; [ solve [fo] | split; [ unfold PF in *; psimpl; solve [fo] | split; [ psimpl; congruence | ] ] ].

Section RecL.
Variable f : nat.
Hypothesis IH : forall k s r s' o, run f k s = (r, s', o) -> isL k -> acn_ok s -> (BL k s <= f)%nat -> PostL k s s' o.

Lemma l_api_stop s r s' o : api_stop (run f) s = (r, s', o) -> (cn s + 6 <= f)%nat -> PF s ->
  fuel_ok o = true /\ PF s' /\ s_cf s' = s_cf s /\ (cn s' <= cn s)%nat /\ MB s s'.
Proof.
  intros H Hb Hp. unfold api_stop in H. mi H; stop_take; fin_l; (split; [arith2 | mb_solve]).
Qed.
Lemma l_api_shutdown s r s' o : api_shutdown (run f) s = (r, s', o) -> (cn s + 9 <= f)%nat -> PF s ->
  fuel_ok o = true /\ PF s' /\ s_cf s' = s_cf s /\ (cn s' <= cn s + 1)%nat /\ MB s s'.
Proof.
  intros H Hb Hp. unfold api_shutdown in H. mi H; split_state_if; try com_take.
  all: fin_l; (split; [arith2 | mb_solve]).
Qed.

Ltac ihl_take := match goal with
  | E : run f ?k ?a = _ |- _ =>
    lazymatch k with KProcLoop _ => idtac | KFetchResp _ _ => idtac | KFireProc _ => idtac end;
    pf_here2 a; acn_here a;
    let Bd := fresh "Bd" in assert (Bd : (BL k a <= f)%nat) by (cbn [BL]; arith2);
    match goal with P : PF a, A : acn_ok a |- _ =>
      let X := fresh "X" in pose proof (IH _ _ _ _ _ E Logic.I A Bd P) as X; cbn [GL] in X;
      let Fo := fresh "Fo" in let P1 := fresh "P" in let C := fresh "C" in let G := fresh "G" in
      destruct X as (Fo & P1 & C & G); clear E end
  end.

Lemma l_finish_block s r s' o : finish_block (run f) s = (r, s', o) -> acn_ok s -> (4 * pm s + cn s + 11 <= f)%nat -> PF s ->
  fuel_ok o = true /\ PF s' /\ s_cf s' = s_cf s /\ (cn s' <= cn s + 3 * pm s)%nat.
Proof.
  intros H Ha Hb Hp. unfold finish_block in H. mi H; try ihl_take.
  all: try (specialize (G eq_refl)).
  all: fin_l; arith2.
Qed.

Ltac api_take := match goal with
  | E : api_stop _ ?a = _ |- _ =>
    pf_here2 a;
    let Bd := fresh "Bd" in assert (Bd : (cn a + 6 <= f)%nat) by arith2;
    match goal with P : PF a |- _ =>
      let X := fresh "X" in pose proof (l_api_stop _ _ _ _ E Bd P) as X;
      let Fo := fresh "Fo" in let P1 := fresh "P" in let C := fresh "C" in let G := fresh "G" in let M := fresh "M" in
      destruct X as (Fo & P1 & C & G & M); clear E end
  | E : api_shutdown _ ?a = _ |- _ =>
    pf_here2 a;
    let Bd := fresh "Bd" in assert (Bd : (cn a + 9 <= f)%nat) by arith2;
    match goal with P : PF a |- _ =>
      let X := fresh "X" in pose proof (l_api_shutdown _ _ _ _ E Bd P) as X;
      let Fo := fresh "Fo" in let P1 := fresh "P" in let C := fresh "C" in let G := fresh "G" in let M := fresh "M" in
      destruct X as (Fo & P1 & C & G & M); clear E end
  | E : finish_block _ ?a = _ |- _ =>
    pf_here2 a; acn_here a;
    let Bd := fresh "Bd" in assert (Bd : (4 * pm a + cn a + 11 <= f)%nat) by arith2;
    match goal with P : PF a, A : acn_ok a |- _ =>
      let X := fresh "X" in pose proof (l_finish_block _ _ _ _ E A Bd P) as X;
      let Fo := fresh "Fo" in let P1 := fresh "P" in let C := fresh "C" in let G := fresh "G" in
      destruct X as (Fo & P1 & C & G); clear E end
  end.
Ltac lwalk := repeat first [ progress leafs | api_take | ihl_take | com_take ].

Lemma l_KFetchResp offs ts s r s' o : body (run f) (KFetchResp offs ts) s = (r, s', o) -> acn_ok s ->
  (BL (KFetchResp offs ts) s <= S f)%nat -> PostL (KFetchResp offs ts) s s' o.
Proof.
  intros H Ha Hb Hp. cbn [body] in H. cbn [BL] in Hb. cbn [GL].
  pose proof (extract_le offs (s_foff s)) as Hex.
  mi H.
  all: rewrite ?D in *; psimpl.
  all: repeat match goal with D : extract _ _ = _ |- _ => rewrite D in Hex; clear D end; cbn [fst] in Hex.
  all: lwalk.
  all: fin_l; intros _; arith2.
Qed.

Lemma l_KFireProc fk s r s' o : body (run f) (KFireProc fk) s = (r, s', o) -> acn_ok s ->
  (BL (KFireProc fk) s <= S f)%nat -> PostL (KFireProc fk) s s' o.
Proof.
  intros H Ha Hb Hp. cbn [body] in H. cbn [BL] in Hb. cbn [GL].
  mi H.
  all: rewrite ?D in *; psimpl.
  all: lwalk.
  all: fin_l; exact Logic.I.
Qed.

Lemma l_KProcLoop msgs s r s' o : body (run f) (KProcLoop msgs) s = (r, s', o) -> acn_ok s ->
  (BL (KProcLoop msgs) s <= S f)%nat -> PostL (KProcLoop msgs) s s' o.
Proof.
  intros H Ha Hb Hp. cbn [body] in H. cbn [BL] in Hb. cbn [GL].
  mi H.
  all: try (pose proof (block_size_pos (s_cf s) l z Ha) as Hk;
            pose proof (drop_cons_le _ z l Hk) as Hd).
  all: lwalk.
  all: fin_l; arith2.
Qed.
End RecL.

Theorem loop_enough : forall fuel k s r s' o,
  run fuel k s = (r, s', o) -> isL k -> acn_ok s -> (BL k s <= fuel)%nat -> PostL k s s' o.
Proof.
  induction fuel as [|f IH]; intros k s r s' o H K Ha Hb.
  - exfalso. destruct k; cbn [isL] in K; try contradiction; cbn [BL] in Hb; try lia.
    + destruct (s_proc s) as [[[? ?] ?]|]; lia.
    + destruct (s_mblock s); lia.
  - cbn [run] in H. destruct k; cbn [isL] in K; try contradiction.
    + exact (l_KFireProc f IH _ _ _ _ _ H Ha Hb).
    + exact (l_KProcLoop f IH _ _ _ _ _ H Ha Hb).
    + exact (l_KFetchResp f IH _ _ _ _ _ _ H Ha Hb).
Qed.

(* ---------------- one event ---------------- *)
Definition BE (e : event) (s : state) : nat :=
  4 * (match e with EFetchOk offs _ => length offs | _ => 0 end + pm s
       + match s_proc s with Some (_, rest, _) => length rest | None => 0 end) + 2 * cn s + 20.

Ltac t_take fuel := match goal with
  | E : run fuel ?k ?a = _ |- _ =>
    lazymatch k with KProcLoop _ => idtac | KFetchResp _ _ => idtac | KFireProc _ => idtac end;
    pf_here2 a; acn_here a;
    let Bd := fresh "Bd" in assert (Bd : (BL k a <= fuel)%nat)
      by (cbn [BL]; repeat match goal with D : s_proc _ = Some _ |- _ => rewrite D end; arith2);
    match goal with P : PF a, A : acn_ok a |- _ =>
      let X := fresh "X" in pose proof (loop_enough _ _ _ _ _ _ E Logic.I A Bd P) as X;
      let Fo := fresh "Fo" in let P1 := fresh "P" in destruct X as (Fo & P1 & _); clear E end
  | E : run fuel (KDeliver ?cr) ?a = _ |- _ =>
    pf_here2 a;
    let Bd := fresh "Bd" in assert (Bd : (BC (KDeliver cr) a <= fuel)%nat) by (cbn [BC]; arith2);
    match goal with P : PF a |- _ =>
      let X := fresh "X" in pose proof (commit_side_enough _ _ _ _ _ _ E Logic.I Bd P) as X;
      let Fo := fresh "Fo" in let P1 := fresh "P" in destruct X as (Fo & P1 & _); clear E end
  | E : api_stop _ ?a = _ |- _ =>
    pf_here2 a;
    let Bd := fresh "Bd" in assert (Bd : (cn a + 6 <= fuel)%nat) by arith2;
    match goal with P : PF a |- _ =>
      let X := fresh "X" in pose proof (l_api_stop _ _ _ _ _ E Bd P) as X;
      let Fo := fresh "Fo" in let P1 := fresh "P" in destruct X as (Fo & P1 & _); clear E end
  | E : api_shutdown _ ?a = _ |- _ =>
    pf_here2 a;
    let Bd := fresh "Bd" in assert (Bd : (cn a + 9 <= fuel)%nat) by arith2;
    match goal with P : PF a |- _ =>
      let X := fresh "X" in pose proof (l_api_shutdown _ _ _ _ _ E Bd P) as X;
      let Fo := fresh "Fo" in let P1 := fresh "P" in destruct X as (Fo & P1 & _); clear E end
  end.
Ltac nf_take := repeat match goal with
  | E : handle_fetch_error _ ?a = _ |- _ => pf_here2 a; apply handle_fetch_error_nf in E
  | E : handle_offset_error _ ?a = _ |- _ => pf_here2 a; apply handle_offset_error_nf in E
  | E : handle_offset_response _ _ ?a = _ |- _ => pf_here2 a; apply handle_offset_response_nf in E
  | E : do_fetch ?a = _ |- _ => pf_here2 a; apply do_fetch_nf in E
  | E : send_commit_request _ _ ?a = _ |- _ => pf_here2 a; apply send_commit_request_nf in E
  | E : api_commit ?a = _ |- _ => pf_here2 a; apply api_commit_nf in E
  | E : auto_commit _ ?a = _ |- _ => pf_here2 a; apply auto_commit_nf in E
  | X : NF ?a _ _, P : PF ?a |- _ => let Fo := fresh "Fo" in let P1 := fresh "P" in destruct (X P) as (Fo & P1); clear X
  end.

Theorem step_enough fuel s e s' o : s_pend s = [] -> acn_ok s -> (BE e s <= fuel)%nat ->
  step fuel s e = (s', o) -> fuel_ok o = true.
Proof.
  intros Hpe Ha Hb H. apply step_inv in H. destruct H as (o1 & H & ->).
  assert (Hp : PF s) by (unfold PF; rewrite Hpe; reflexivity).
  apply fuel_ok_app2; [|reflexivity].
  unfold handle in H. cbn zeta in H. unfold BE in Hb. destruct e.
  all: unfold flush_pend, handle_commit_error in H; mi H.
  all: rewrite ?Hpe in *.
  all: repeat match goal with p : (Z * list Z * bool)%type |- _ => destruct p as [[? ?] ?] end.
  all: repeat match goal with D : s_proc _ = Some _ |- _ => rewrite D in Hb end.
  all: repeat first [ progress nf_take | t_take fuel ].
  all: solve [fo].
Qed.
