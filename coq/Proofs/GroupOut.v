(* Which event can make the group member issue which request (Model/Group.v): a classification of the outputs of every
   step, for every state.  "Quiet" outputs are everything except the requests of the join protocol, heartbeats and
   consumer creation. *)
From Coq Require Import Lia.
From AV Require Import Base.Util Model.Group Model.GroupObs Proofs.GroupInv Proofs.GroupInvH.

Definition quiet (o : output) : bool :=
  match o with
  | OLookup _ | OMeta _ | OJoin _ _ | OParts _ | OSync _ _ _ _ | OHeartbeat _ _ _ | OStartC _ _ _ _ _ => false
  | _ => true
  end.
Definition Q (l : list output) : Prop := Forall (fun o => quiet o = true) l.

Lemma Q_nil : Q []. Proof. constructor. Qed.
Lemma Q_app : forall a b, Q a -> Q b -> Q (a ++ b). Proof. intros. apply Forall_app. split; auto. Qed.
Lemma Q_cons : forall o l, quiet o = true -> Q l -> Q (o :: l). Proof. intros. constructor; auto. Qed.
Lemma Q_stopc : forall (l : list consumer), Q (map (fun c => OStopC (c_id c)) l).
Proof. intros l. apply Forall_forall. intros o H. apply in_map_iff in H. destruct H as (c & <- & _). reflexivity. Qed.
Lemma Q_shutc : forall (l : list consumer), Q (map (fun c => OShutC (c_id c)) l).
Proof. intros l. apply Forall_forall. intros o H. apply in_map_iff in H. destruct H as (c & <- & _). reflexivity. Qed.
Lemma Q_stop_pending : forall l, Q (stop_pending l).
Proof. intros l. unfold stop_pending. apply Forall_forall. intros o H. apply in_map_iff in H. destruct H as (c & <- & _). reflexivity. Qed.
Global Hint Resolve Q_nil Q_app Q_cons Q_stopc Q_shutc Q_stop_pending : qdb.
Ltac qq := repeat first [apply Q_nil | apply Q_stopc | apply Q_shutc | apply Q_stop_pending | apply Q_app | (apply Q_cons; [reflexivity|])]; auto with qdb.

Lemma q_ogl : forall s, Q (snd (on_group_leave s)).
Proof. intros s. unfold on_group_leave. destruct (is_group s); cbn [snd]; qq. Qed.

Lemma q_cancel_gen : forall gid s, Q (snd (cancel_gen gid s)).
Proof.
  intros gid s. unfold cancel_gen. destruct (take_first _ (gens s)) as [[g rest]|]; [|cbn; qq].
  destruct (g_ph g); unfold seq, emit, emits, gen_end, upd; cbn [snd]; qq.
Qed.

Lemma q_finish_stop : forall st c s, Q (snd (finish_stop st c s)).
Proof. intros. unfold finish_stop. cbn [snd]. destruct (0 <=? st_idx st); qq. Qed.

Lemma q_stop_tail : forall st s, Q (snd (stop_tail st s)).
Proof.
  intros st s. unfold stop_tail.
  assert (X : Q (snd (match rejoin_d s with Some gid => cancel_gen gid (set_rejoin_d None s) | None => (s, []) end))).
  { destruct (rejoin_d s); [apply q_cancel_gen|cbn; qq]. }
  destruct (match rejoin_d s with Some gid => cancel_gen gid (set_rejoin_d None s) | None => (s, []) end) as [s1 o1]. cbn [snd] in X.
  match goal with |- context [start_d ?x] => destruct (start_d x) as [idx|] end.
  - match goal with |- context [let (s3, o3) := ?F in _] => pose proof (q_finish_stop st 0 (set_tail_done true (set_start_d None
        (set_cur_assign [] (set_coord_known false (set_generation (-1) (set_member 0 s1))))))) as Y; destruct F as [s3 o3] end.
    cbn [snd] in *. qq.
  - match goal with |- context [let (s3, o3) := ?F in _] => pose proof (q_finish_stop st 2
        (set_cur_assign [] (set_coord_known false (set_generation (-1) (set_member 0 s1))))) as Y; destruct F as [s3 o3] end.
    cbn [snd] in *. qq.
Qed.

Lemma q_coord_stop : forall st s, Q (snd (coord_stop st s)).
Proof.
  intros st s. ds s. destruct sd as [idx|]; [|unfold coord_stop; cbn [start_d]; apply q_finish_stop].
  destruct stp; [unfold coord_stop; cbn [start_d stopping]; apply q_finish_stop|].
  destruct dc0 as [|i|]; [| |unfold coord_stop; cbn [start_d stopping dc set_rejoin_needed set_stopping]; apply q_finish_stop];
    destruct hbq as [rid|]; destruct hbr; destruct ck; destruct (mem =? 0) eqn:M;
    unfold coord_stop, hb_stop, remove_timer; prj; rewrite ?M; prj.
  all: try match goal with |- context [stop_tail ?st0 ?s0] =>
         let Y := fresh in pose proof (q_stop_tail st0 s0) as Y; destruct (stop_tail st0 s0) as [s3 o4]; prj end.
  all: qq.
Qed.

Lemma q_do_stop : forall idx err s, Q (snd (do_stop idx err s)).
Proof.
  intros idx err s. unfold do_stop. destruct (is_group s).
  - destruct (consumers (set_stop_requested true s)); [apply q_coord_stop|]. unfold begin_shutdown. cbn [snd]. qq.
  - apply q_coord_stop.
Qed.

Lemma q_seq : forall (a b : act), (forall s, Q (snd (a s))) -> (forall s, Q (snd (b s))) -> forall s, Q (snd ((a ;; b) s)).
Proof. intros a b Ha Hb s. unfold seq. specialize (Ha s). destruct (a s) as [s1 o1]. specialize (Hb s1). destruct (b s1) as [s2 o2]. cbn [snd] in *. qq. Qed.

Lemma q_fatal : forall k s, Q (snd (fatal k s)).
Proof. intros k. unfold fatal. apply q_seq; [apply q_ogl|apply q_do_stop]. Qed.

Lemma q_schedule_rejoin : forall d s, Q (snd (schedule_rejoin d s)).
Proof. intros d s. unfold schedule_rejoin, new_timer. destruct (dc (set_rejoin_needed true s)); cbn [snd]; qq. Qed.
Lemma q_resched : forall d s, Q (snd (resched d s)).
Proof. intros d s. unfold resched. destruct (stopping s); [cbn; qq|apply q_schedule_rejoin]. Qed.
Lemma q_emit : forall o, quiet o = true -> forall s, Q (snd (emit o s)). Proof. intros. cbn. qq. Qed.
Lemma q_upd : forall f s, Q (snd (upd f s)). Proof. intros. cbn. qq. Qed.
Lemma q_gen_end : forall s, Q (snd (gen_end s)). Proof. intros. cbn. qq. Qed.
Lemma q_emits : forall l, Q l -> forall s, Q (snd (emits l s)). Proof. intros. cbn. auto. Qed.

Lemma q_rae : forall k s, Q (snd (rejoin_after_error k s)).
Proof.
  intros k. destruct k; cbn [rejoin_after_error].
  - apply q_resched.
  - apply q_seq; [apply q_emit; reflexivity|apply q_resched].
  - apply q_seq; [apply q_emit; reflexivity|apply q_resched].
  - apply q_seq; [apply q_ogl|apply q_resched].
  - apply q_seq; [apply q_ogl|apply q_seq; [apply q_upd|apply q_resched]].
  - apply q_seq; [apply q_ogl|apply q_seq; [apply q_upd|apply q_resched]].
  - apply q_resched.
  - apply q_seq; [apply q_ogl|apply q_seq; [apply q_emit; reflexivity|apply q_resched]].
  - apply q_resched.
  - intros s. destruct (stopping s); [cbn; qq|apply q_fatal].
  - apply q_fatal.
Qed.

Lemma q_gen_fail : forall k s, Q (snd (gen_fail k s)).
Proof. intros k. unfold gen_fail. apply q_seq; [apply q_gen_end|]. destruct (is_kafka k); [apply q_rae|apply q_upd]. Qed.

Lemma q_coord_retry : forall d s, Q (snd (coord_retry d s)).
Proof. intros. cbn. qq. Qed.

(* ---------- what each non-quiet output tells about the step that produced it ---------- *)
Definition ok_out (s : state) (e : event) (o : output) : Prop :=
  match o with
  | OLookup _ => rejoin_needed s = true /\ (is_group s && stop_requested s) = false /\ (e = EStart \/ exists id, e = EFire id)
  | OMeta _ => exists rid, e = ELookup rid LBroker
  | OJoin _ m => stop_pend s = false /\ m = member s /\ ((exists rid, e = EMeta rid ROk) \/ (exists cid ok, e = ECShut cid ok))
  | OParts _ => stop_pend s = false /\ exists rid gn mem, e = EJoin rid (JOk gn mem 1)
  | OSync _ _ _ _ => stop_pend s = false /\ ((exists rid gn mem role, e = EJoin rid (JOk gn mem role)) \/ (exists rid, e = EParts rid POk))
  | OHeartbeat _ _ _ => e = ETick
  | OStartC _ t p g m => exists rid asg, (e = ESync rid (SOk asg) \/ exists n, e = ESync rid (SOkRaise asg n)) /\ stop_pend s = false /\
                                         is_group s = true /\ In (t, p) asg /\ g = generation s /\ m = member s
  | _ => True
  end.

Lemma quiet_ok : forall s e o, quiet o = true -> ok_out s e o.
Proof. intros s e o H. destruct o; try discriminate; exact I. Qed.
Lemma Q_ok : forall s e l o, Q l -> In o l -> ok_out s e o.
Proof. intros s e l o H Hin. apply quiet_ok. unfold Q in H. rewrite Forall_forall in H. auto. Qed.

Lemma stop_pend_set_gens : forall l s, stop_pend (set_gens l s) = stop_pend s.
Proof. intros l s. ds s. reflexivity. Qed.

Lemma with_gen_out : forall ph (k : gen -> act) s o, In o (snd (with_gen ph k s)) ->
  exists g rest, take_first (awaits ph) (gens s) = Some (g, rest) /\ In o (snd (k g (set_gens rest s))).
Proof.
  intros ph k s o H. unfold with_gen in H. destruct (take_first (awaits ph) (gens s)) as [[g rest]|]; [eauto|destruct H].
Qed.

Lemma seq_out : forall (a b : act) s o, In o (snd ((a ;; b) s)) -> In o (snd (a s)) \/ In o (snd (b (fst (a s)))).
Proof. intros a b s o H. unfold seq in H. destruct (a s) as [s1 o1]. cbn [fst snd]. destruct (b s1) as [s2 o2]. cbn [fst snd] in *. apply in_app_or in H. exact H. Qed.

Lemma send_join_out : forall gid s o, In o (snd (send_join gid s)) -> o = OJoin (next_rid s) (member s).
Proof. intros gid s o H. ds s. cbn in H. destruct H as [<-|[]]. reflexivity. Qed.
Lemma send_sync_out : forall gid ld s o, In o (snd (send_sync gid ld s)) -> o = OSync (next_rid s) (generation s) (member s) ld.
Proof. intros gid ld s o H. ds s. cbn in H. destruct H as [<-|[]]. reflexivity. Qed.

Lemma on_lookup_out : forall rid r s o, In o (snd (on_lookup rid r s)) -> ok_out s (ELookup rid r) o.
Proof.
  intros rid r s o H. unfold on_lookup in H. apply with_gen_out in H. destruct H as (g & rest & _ & H).
  destruct r as [| |k].
  - cbn in H. destruct H as [<-|[]]. cbn. eauto.
  - eapply Q_ok; [|exact H]. apply q_seq; [apply q_coord_retry|apply q_gen_end].
  - eapply Q_ok; [|exact H]. destruct k; try (apply q_seq; [apply q_coord_retry|apply q_gen_end]); apply q_gen_fail.
Qed.

Lemma prepare_and_join_out : forall gid s o, In o (snd (prepare_and_join gid s)) -> quiet o = true \/ o = OJoin (next_rid s) (member s).
Proof.
  intros gid s o H. unfold prepare_and_join in H. destruct (is_group s).
  - destruct (consumers s) eqn:C; [right; eapply send_join_out; eauto|].
    unfold begin_shutdown in H. cbn [snd] in H. left. pose proof (Q_shutc (consumers s)) as X. unfold Q in X. rewrite Forall_forall in X. auto.
  - right; eapply send_join_out; eauto.
Qed.

Lemma on_meta_out : forall rid r s o, In o (snd (on_meta rid r s)) -> ok_out s (EMeta rid r) o.
Proof.
  intros rid r s o H. unfold on_meta in H. apply with_gen_out in H. destruct H as (g & rest & _ & H).
  destruct r as [|k]; [|eapply Q_ok; [apply q_gen_fail|exact H]].
  destruct (stop_pend (set_gens rest s)) eqn:SP; [destruct H|]. rewrite stop_pend_set_gens in SP.
  apply prepare_and_join_out in H. destruct H as [H| ->]; [apply quiet_ok; auto|].
  cbn. split; [exact SP|]. split; [ds s; reflexivity|left; eauto].
Qed.

Lemma on_join_out : forall rid r s o, In o (snd (on_join rid r s)) -> ok_out s (EJoin rid r) o.
Proof.
  intros rid r s o H. unfold on_join in H. apply with_gen_out in H. destruct H as (g & rest & _ & H).
  destruct r as [gn' mem' role|k].
  - apply seq_out in H. destruct H as [[]|H]. unfold upd in H. cbn [fst] in H.
    set (s1 := set_cur_assign [] (set_generation gn' (set_member mem' (set_gens rest s)))) in *.
    assert (SP : stop_pend s1 = stop_pend s) by (subst s1; ds s; reflexivity).
    destruct (stop_pend s1) eqn:E; [destruct H|].
    destruct (role =? 0).
    + apply send_sync_out in H. subst o. cbn. split; [congruence|left; eauto].
    + destruct (role =? 1) eqn:R1.
      * cbn in H. destruct H as [<-|[]]. cbn. split; [congruence|]. apply Z.eqb_eq in R1. subst. eauto.
      * eapply Q_ok; [apply q_gen_fail|exact H].
  - eapply Q_ok; [|exact H]. apply q_seq; [apply q_rae|apply q_gen_end].
Qed.

Lemma on_parts_out : forall rid r s o, In o (snd (on_parts rid r s)) -> ok_out s (EParts rid r) o.
Proof.
  intros rid r s o H. unfold on_parts in H. apply with_gen_out in H. destruct H as (g & rest & _ & H).
  destruct r as [| |k]; try (eapply Q_ok; [apply q_gen_fail|exact H]).
  destruct (stop_pend (set_gens rest s)) eqn:SP; [destruct H|]. rewrite stop_pend_set_gens in SP.
  apply send_sync_out in H. subst o. cbn. split; [exact SP|right; eauto].
Qed.

(* ---------- consumers are created with the generation / member id of the sync they come from ---------- *)
Lemma start_consumers_out : forall tps s cid t p g m,
  In (OStartC cid t p g m) (snd (start_consumers tps s)) -> g = generation s /\ m = member s /\ In (t, p) tps.
Proof.
  induction tps as [|[t0 p0] tps IH]; intros s cid t p g m Hin; cbn [start_consumers] in Hin.
  - destruct Hin.
  - unfold seq in Hin.
    set (s1 := set_consumers (insert_by c_topic (mkC (next_cid s) t0 p0 (generation s) (member s) false) (consumers s)) (set_next_cid (next_cid s + 1) s)) in *.
    destruct (start_consumers tps s1) as [s2 o2] eqn:E. cbn [snd] in Hin. rewrite in_app_iff in Hin. destruct Hin as [[X|[]]|X].
    + inversion X. subst. cbn. repeat split; auto; try (left; reflexivity).
    + specialize (IH s1 cid t p g m). rewrite E in IH. destruct (IH X) as (A & B & C).
      subst s1. ds s. cbn in A, B. repeat split; auto. right; exact C.
Qed.

Lemma join_complete_out : forall asg s cid t p g m,
  In (OStartC cid t p g m) (snd (on_join_complete asg s)) ->
  is_group s = true /\ stop_requested s = false /\ g = generation s /\ m = member s /\ In (t, p) asg.
Proof.
  intros asg s cid t p g m Hin. unfold on_join_complete in Hin.
  destruct (is_group s); [|destruct Hin]. destruct (stop_requested s); [destruct Hin|].
  destruct (start_consumers_out _ _ _ _ _ _ _ Hin) as (A & B & C). repeat split; auto. apply group_by_topic_In. exact C.
Qed.

Lemma start_consumers_kind : forall tps s o, In o (snd (start_consumers tps s)) -> exists cid t p g m, o = OStartC cid t p g m.
Proof.
  induction tps as [|[t0 p0] tps IH]; intros s o Hin; cbn [start_consumers] in Hin; [destruct Hin|].
  apply seq_out in Hin. destruct Hin as [[<-|[]]|Hin]; [eauto 6|eapply IH; eauto].
Qed.
Lemma join_complete_kind : forall asg s o, In o (snd (on_join_complete asg s)) -> exists cid t p g m, o = OStartC cid t p g m.
Proof.
  intros asg s o Hin. unfold on_join_complete in Hin. destruct (is_group s); [|destruct Hin]. destruct (stop_requested s); [destruct Hin|].
  eapply start_consumers_kind; eauto.
Qed.

Lemma reset_hb_q : forall s, Q (snd (reset_heartbeat_timer s)).
Proof. intros s. unfold reset_heartbeat_timer. destruct (hb_running s); cbn [snd]; qq. Qed.

Lemma sync_ok_out : forall rid asg (a : act) (r : sync_res) s o,
  (r = SOk asg \/ exists n, r = SOkRaise asg n) -> stop_pend s = false ->
  (forall s0 o0, In o0 (snd (a s0)) -> exists cid t p g m, o0 = OStartC cid t p g m /\ g = generation s0 /\ m = member s0 /\ In (t, p) asg) ->
  (is_group s = true \/ (forall s0 o0, In o0 (snd (a s0)) -> is_group s0 = true)) ->
  forall (tl : act), (forall s0, Q (snd (tl s0))) ->
  In o (snd ((upd (set_cur_assign asg) ;; reset_heartbeat_timer ;; upd (set_rejoin_needed false) ;; a ;; tl) s)) ->
  ok_out s (ESync rid r) o.
Proof.
  intros rid asg a r s o Hr SP HA HG tl Htl H.
  apply seq_out in H. destruct H as [[]|H]. apply seq_out in H. destruct H as [H|H]; [eapply Q_ok; [apply reset_hb_q|exact H]|].
  apply seq_out in H. destruct H as [[]|H]. apply seq_out in H. destruct H as [H|H]; [|eapply Q_ok; [apply Htl|exact H]].
  destruct (HA _ _ H) as (cid & t & p & g0 & m & -> & C & D & E).
  assert (G : is_group s = true).
  { destruct HG as [X|X]; [exact X|]. specialize (X _ _ H). rewrite reset_hb_fst in X. unfold upd in X. cbn [fst] in X. ds s. exact X. }
  cbn. exists rid, asg. split; [destruct Hr as [->|[n ->]]; [left|right; exists n]; reflexivity|]. split; [exact SP|]. split; [exact G|].
  rewrite reset_hb_fst in *. unfold upd in *. cbn [fst] in *. ds s. cbn in *. auto.
Qed.

Lemma on_sync_out : forall rid r s o, In o (snd (on_sync rid r s)) -> ok_out s (ESync rid r) o.
Proof.
  intros rid r s o H. unfold on_sync in H. apply with_gen_out in H. destruct H as (g & rest & _ & H).
  assert (JC : forall asg s0 o0, In o0 (snd (on_join_complete asg s0)) ->
            exists cid t p g m, o0 = OStartC cid t p g m /\ g = generation s0 /\ m = member s0 /\ In (t, p) asg).
  { intros asg s0 o0 H0. destruct (join_complete_kind _ _ _ H0) as (cid & t & p & g0 & m & ->).
    apply join_complete_out in H0. destruct H0 as (A & B & C & D & E). exists cid, t, p, g0, m. auto. }
  assert (JG : forall asg s0 o0, In o0 (snd (on_join_complete asg s0)) -> is_group s0 = true).
  { intros asg s0 o0 H0. destruct (join_complete_kind _ _ _ H0) as (cid & t & p & g0 & m & ->).
    apply join_complete_out in H0. destruct H0 as (A & _). exact A. }
  assert (TR : forall r0, ok_out (set_gens rest s) (ESync rid r0) o -> stop_pend (set_gens rest s) = false -> ok_out s (ESync rid r0) o).
  { intros r0 X SP. rewrite stop_pend_set_gens in SP. destruct o; try exact I; cbn in X |- *; try exact X; try (ds s; exact X).
    all: try (destruct X as (r1 & a0 & X1 & X2 & X3 & X4 & X5 & X6); exists r1, a0; ds s; cbn in *; auto 10). }
  destruct r as [asg| | |k|asg n]; try (eapply Q_ok; [apply q_seq; [apply q_rae|apply q_gen_end]|exact H]).
  all: destruct (stop_pend (set_gens rest s)) eqn:SP; [destruct H|].
  2,3: eapply Q_ok; [apply q_gen_fail|exact H].
  - apply TR; [|reflexivity].
    eapply (sync_ok_out rid asg (on_join_complete asg)); [left; reflexivity|exact SP|apply JC|right; apply JG|apply q_gen_end|exact H].
  - apply TR; [|reflexivity]. destruct (ctor_raises asg n (set_gens rest s)) eqn:CR.
    + eapply (sync_ok_out rid asg (start_consumers (firstn (Z.to_nat n) (group_by_topic asg)))); [right; eauto|exact SP| | |apply q_gen_fail|exact H].
      * intros s0 o0 H0. destruct (start_consumers_kind _ _ _ H0) as (cid & t & p & g0 & m & ->).
        apply start_consumers_out in H0. destruct H0 as (A & B & C). exists cid, t, p, g0, m.
        split; [reflexivity|split; [exact A|split; [exact B|]]]. apply group_by_topic_In. eapply firstn_In; eauto.
      * left. unfold ctor_raises in CR. destruct (is_group (set_gens rest s)); [reflexivity|discriminate].
    + eapply (sync_ok_out rid asg (on_join_complete asg)); [right; eauto|exact SP|apply JC|right; apply JG|apply q_gen_end|exact H].
Qed.

Lemma on_tick_out : forall s o, In o (snd (on_tick s)) -> ok_out s ETick o.
Proof.
  intros s o H. unfold on_tick in H. destruct (hb_running s); [|destruct H].
  destruct (stopping s || rejoin_needed s || _); cbn in H.
  - destruct H as [<-|[]]. exact I.
  - destruct H as [<-|[<-|[]]]; cbn; auto.
Qed.

Lemma on_hb_reply_out : forall rid r s o, In o (snd (on_hb_reply rid r s)) -> ok_out s (EHbReply rid r) o.
Proof.
  intros rid r s o H. unfold on_hb_reply in H. destruct (hb_req s) as [rid'|]; [|destruct H].
  destruct (rid' =? rid); [|destruct H]. destruct r as [|k]; [destruct H|].
  destruct (hb_running (set_hb_req None s)); [|destruct H].
  eapply Q_ok; [|exact H]. apply q_seq; [intros; cbn; qq|apply q_rae].
Qed.

Lemma join_and_sync_out : forall s o, In o (snd (join_and_sync s)) ->
  exists rid, o = OLookup rid /\ rejoin_needed s = true /\ (is_group s && stop_requested s) = false.
Proof.
  intros s o H. unfold join_and_sync in H. destruct (is_group s && stop_requested s) eqn:G; [destruct H|].
  destruct (rejoin_needed (set_dc DcNone s)) eqn:R; [|destruct H]. cbn [negb] in H.
  destruct (rejoin_d (set_dc DcNone s)); [destruct H|]. cbn in H. destruct H as [<-|[]].
  eexists. split; [reflexivity|]. split; [ds s; exact R|reflexivity].
Qed.

Lemma on_fire_out : forall id s o, In o (snd (on_fire id s)) -> ok_out s (EFire id) o.
Proof.
  intros id s o H. unfold on_fire in H. destruct (existsb _ (timers s)); [|destruct H].
  apply join_and_sync_out in H. destruct H as (rid & -> & A & B). cbn.
  split; [|split; [|right; eauto]].
  - revert A. unfold remove_timer. ds s. destruct dc0 as [|i|]; cbn; try (destruct (i =? id)); cbn; auto.
  - revert B. unfold remove_timer. ds s. destruct dc0 as [|i|]; cbn; try (destruct (i =? id)); cbn; auto.
Qed.

Lemma on_leave_out : forall rid r s o, In o (snd (on_leave rid r s)) -> ok_out s (ELeave rid r) o.
Proof.
  intros rid r s o H. unfold on_leave in H. destruct (take_first _ (stops s)) as [[st rest]|]; [|destruct H].
  eapply Q_ok; [apply q_stop_tail|exact H].
Qed.

Lemma on_cfail_out : forall cid k s o, In o (snd (on_cfail cid k s)) -> ok_out s (ECFail cid k) o.
Proof.
  intros cid k s o H. unfold on_cfail in H. destruct (can_fail cid s); [|destruct H].
  match type of H with In _ (snd (match k with _ => _ end)) => idtac | _ => idtac end.
  destruct k; try (eapply Q_ok; [apply q_rae|exact H]).
  match type of H with context [consumers ?x] => destruct (consumers x) end; [destruct H|eapply Q_ok; [apply q_rae|exact H]].
Qed.

Lemma after_prepare_out : forall gid s o, In o (snd (after_prepare gid s)) -> stop_pend s = false /\ o = OJoin (next_rid s) (member s).
Proof.
  intros gid s o H. unfold after_prepare in H. destruct (stop_pend s); [destruct H|]. split; auto. eapply send_join_out; eauto.
Qed.

Lemma emits_out : forall l (a : act) s o, In o (snd ((emits l ;; a) s)) -> In o l \/ In o (snd (a s)).
Proof. intros l a s o H. apply seq_out in H. exact H. Qed.

Lemma on_cshut_out : forall cid ok s o, In o (snd (on_cshut cid ok s)) -> ok_out s (ECShut cid ok) o.
Proof.
  intros cid ok s o H. unfold on_cshut in H.
  destruct (take_first (fun g => sh_has cid (gen_list g)) (gens s)) as [[g rest]|].
  - assert (J : forall o', In o' (snd (after_prepare (g_id g) (set_gens rest s))) -> ok_out s (ECShut cid ok) o').
    { intros o' X. apply after_prepare_out in X. destruct X as [SP ->]. rewrite stop_pend_set_gens in SP.
      cbn. split; [exact SP|split; [ds s; reflexivity|right; eauto]]. }
    destruct ok.
    + destruct (sh_all_done _); [apply J; exact H|destruct H].
    + apply emits_out in H. destruct H as [H|H]; [eapply Q_ok; [apply Q_stop_pending|exact H]|apply J; exact H].
  - destruct (take_first (fun st => sh_has cid (stop_list st)) (stops s)) as [[st rest]|]; [|destruct H].
    destruct ok.
    + destruct (sh_all_done _); [eapply Q_ok; [apply q_coord_stop|exact H]|destruct H].
    + apply emits_out in H. destruct H as [H|H]; [eapply Q_ok; [apply Q_stop_pending|exact H]|eapply Q_ok; [apply q_coord_stop|exact H]].
Qed.

Theorem step_outputs : forall s e o, In o (snd (step s e)) -> ok_out s e o.
Proof.
  intros s e o H. destruct e; cbn [step] in H.
  - destruct (start_d s); [destruct H as [<-|[]]; exact I|].
    match type of H with context [join_and_sync ?x] => pose proof (join_and_sync_out x o) as J; destruct (join_and_sync x) as [s' o'] end.
    cbn [snd] in *. apply in_app_or in H. destruct H as [H|[<-|[]]]; [|exact I].
    destruct (J H) as (rid & -> & A & B). cbn. split; [ds s; exact A|split; [ds s; exact B|left; reflexivity]].
  - match type of H with context [do_stop ?a ?b ?x] => pose proof (q_do_stop a b x) as J; destruct (do_stop a b x) as [s' o'] end.
    cbn [snd] in *. apply quiet_ok. unfold Q in J. rewrite Forall_forall in J.
    apply in_app_or in H. destruct H as [H|H]; [apply filter_In in H; destruct H; auto|].
    apply in_app_or in H. destruct H as [[<-|[]]|H]; [reflexivity|apply filter_In in H; destruct H; auto].
  - apply on_lookup_out; auto.
  - apply on_meta_out; auto.
  - apply on_join_out; auto.
  - apply on_parts_out; auto.
  - apply on_sync_out; auto.
  - apply on_tick_out; auto.
  - apply on_hb_reply_out; auto.
  - apply on_fire_out; auto.
  - apply on_leave_out; auto.
  - apply on_cfail_out; auto.
  - apply on_cshut_out; auto.
Qed.
