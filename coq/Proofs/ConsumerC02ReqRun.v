(* REQ at the level of events and whole runs.  Uses b-consumer-a's frame theorem (Proofs/ConsumerFrame.v run_frame):
   handling a fetch reply that ends in an exception leaves no request outstanding and no reply parked. *)
From Coq Require Import Lia.
From AV Require Import Base.Util Model.Consumer Model.ConsumerLog Proofs.ConsumerC02Wp Proofs.ConsumerC02Req.
From AV Require Proofs.ConsumerFrame.

Lemma fetchresp_exc fuel offs ts s r s' o :
  run fuel (KFetchResp offs ts) s = (r, s', o) -> fuel_ok o = true ->
  (s_req s' = s_req s \/ s_req s' = None) /\ (forall x, r = Exc x -> parked s' = false).
Proof.
  intros E F. destruct (ConsumerFrame.run_frame _ _ _ _ _ _ E F) as [_ H]. cbn beta iota in H.
  destruct H as [Hreq _ Hp _ _ _]. split; [exact Hreq|].
  intros x ->. destruct (parked s') eqn:P; [|reflexivity]. destruct (Hp eq_refl) as [_ Hx]. discriminate Hx.
Qed.

Ltac q_evcalls fuel := idtac; first [ c8 | lazymatch goal with
  | |- wp _ (run fuel (KFetchResp _ _)) _ _ _ =>
    eapply q_eq; [ solve [qsolve] |
      eapply wp_call; [ eapply wp_strengthen; [ intros ? ? ? E F; exact (fetchresp_exc _ _ _ _ _ _ _ E F)
                                              | eapply (q_run fuel); solve [qsolve] ]
                      | let r := fresh "r" in let H := fresh "P" in
                        intros r ? ? H; unfold QI in H; destr_post H; destruct r; cbn beta iota ] ]
  | |- wp _ (run fuel _) _ _ _ => q_docall (q_run fuel)
  | |- wp _ (api_stop _) _ _ _ => q_docall (q_api_stop _ (q_run fuel))
  | |- wp _ api_commit _ _ _ => q_docall q_api_commit
  | |- wp _ (api_shutdown _) _ _ _ => q_docall (q_api_shutdown _ (q_run fuel))
  | |- wp _ (handle_commit_error _ _ _ _) _ _ _ => q_docall (q_handle_commit_error _ (q_run fuel)) end ].

Lemma q_handle fuel e s : kind_ok s = true -> wq (handle fuel e) QI (req_ev (req_abs s) e) s.
Proof.
  intro K. unfold handle. destruct e; cbn [req_ev].
  all: unfold handle_offset_response, flush_pend.
  all: repeat (first [ q_flush | q_stif | q_emit | wp_step ltac:(q_evcalls fuel) ]).
  all: q_done.
  - destruct P as [P | P]; unfold req_pending; rewrite P; reflexivity.
  - eapply P0; reflexivity.
Qed.

Lemma q_step fuel s e s' o : kind_ok s = true -> step fuel s e = (s', o) -> fuel_ok o = true ->
  gouts req_out (req_ev (req_abs s) e) o = Some (req_abs s') /\ kind_ok s' = true.
Proof.
  intros K E F. unfold step in E.
  destruct ((handle fuel e;;; s'0 <- get;; emit (OEnd (s_lp s'0) (s_lc s'0))) s) as [[r s1] o1] eqn:E1.
  inversion E; subst s1 o1; clear E.
  assert (W : wq (handle fuel e;;; s'0 <- get;; emit (OEnd (s_lp s'0) (s_lc s'0))) QI (req_ev (req_abs s) e) s).
  { apply wp_bind. eapply wp_call; [ apply q_handle; exact K |].
    intros r0 g' s0 [-> K0]. destruct r0; cbn beta iota; [| split; auto].
    q_walk idtac. all: q_done.
    unfold req_abs; cbn [q_lc]. destruct (s_lc s0); cbn [oz_eqb]; rewrite ?Z.eqb_refl; reflexivity. }
  destruct (W _ _ _ E1 F) as (g' & Hg & -> & K'). auto.
Qed.

Lemma kind_ok_init c m b : kind_ok (init c m b) = true.
Proof. reflexivity. Qed.

(* the monitor REQ accepts every run of the model that does not run out of fuel *)
Theorem req_monitor_accepts fuel c maxatt buf evs :
  run_fuel_ok fuel c maxatt buf evs = true ->
  mon_run req_ev req_out q0 (model_obs fuel c maxatt buf evs)
  = Some (req_abs (fst (run_events fuel (init c maxatt buf) evs))).
Proof.
  intro F. unfold model_obs, run_fuel_ok in *.
  change q0 with (req_abs (init c maxatt buf)).
  refine (proj1 (mon_run_abs greq req_out req_ev req_abs (fun s => kind_ok s = true) _ fuel evs _ (kind_ok_init _ _ _) F)).
  intros. eapply q_step; eauto.
Qed.
