(* Insertion-ordered dictionaries, sets and the defaultdict-of-defaultdict update of the assignment model. *)
From AV Require Import Base.Util Proofs.UtilFacts Model.Assign Proofs.AssignOrder.
From Coq Require Import Lia Sorting.Permutation.

Lemma str_mem_in x l : str_mem x l = true <-> In x l.
Proof.
  induction l as [|y l IH]; cbn [str_mem In]; [split; [discriminate | tauto]|].
  rewrite orb_true_iff, IH, str_eqb_eq. tauto.
Qed.
Lemma str_mem_false x l : str_mem x l = false <-> ~ In x l.
Proof. rewrite <- str_mem_in. destruct (str_mem x l); split; congruence. Qed.

Lemma dedup_in x l : In x (dedup l) <-> In x l.
Proof.
  induction l as [|y l IH]; cbn [dedup]; [tauto|].
  destruct (str_mem y l) eqn:E; cbn [In]; rewrite IH; [|tauto].
  apply str_mem_in in E. split; [tauto|]. intros [->|H]; assumption.
Qed.
Lemma dedup_nodup l : NoDup (dedup l).
Proof.
  induction l as [|y l IH]; cbn [dedup]; [constructor|].
  destruct (str_mem y l) eqn:E; [exact IH|]. constructor; [|exact IH].
  rewrite dedup_in. now apply str_mem_false.
Qed.

Lemma NoDup_snoc {A} (l : list A) k : NoDup l -> ~ In k l -> NoDup (l ++ [k]).
Proof.
  intros N H. eapply Permutation_NoDup; [apply Permutation_cons_append|]. constructor; assumption.
Qed.

Section Dict.
  Context {V : Type}.
  Implicit Types d : list (str * V).

  Lemma dict_get_upd d k f k' :
    dict_get (dict_upd d k f) k' = if str_eqb k k' then Some (f (dict_get d k)) else dict_get d k'.
  Proof.
    induction d as [|[k0 v] r IH]; cbn [dict_upd dict_get].
    - destruct (str_eqb k k'); reflexivity.
    - destruct (str_eqb k0 k) eqn:E0; cbn [dict_get].
      + apply str_eqb_eq in E0. subst k0. destruct (str_eqb k k'); reflexivity.
      + rewrite IH. destruct (str_eqb k k') eqn:E1; [|reflexivity].
        apply str_eqb_eq in E1. subst k'. rewrite E0. reflexivity.
  Qed.

  Lemma dict_upd_keys d k f :
    map fst (dict_upd d k f) = if str_mem k (map fst d) then map fst d else map fst d ++ [k].
  Proof.
    induction d as [|[k0 v] r IH]; cbn [dict_upd map fst str_mem app]; [reflexivity|].
    destruct (str_eqb k0 k) eqn:E0; cbn [map fst orb]; [reflexivity|].
    rewrite IH. destruct (str_mem k (map fst r)); reflexivity.
  Qed.

  Lemma dict_upd_keys_in d k f x : In x (map fst (dict_upd d k f)) <-> x = k \/ In x (map fst d).
  Proof.
    rewrite dict_upd_keys. destruct (str_mem k (map fst d)) eqn:E.
    - apply str_mem_in in E. split; [tauto|]. intros [->|H]; assumption.
    - rewrite in_app_iff. cbn [In]. intuition congruence.
  Qed.

  Lemma dict_upd_nodup d k f : NoDup (map fst d) -> NoDup (map fst (dict_upd d k f)).
  Proof.
    intro H. rewrite dict_upd_keys. destruct (str_mem k (map fst d)) eqn:E; [exact H|].
    apply str_mem_false in E. apply NoDup_snoc; assumption.
  Qed.

  Lemma dict_get_none d k : dict_get d k = None <-> ~ In k (map fst d).
  Proof.
    induction d as [|[k0 v] r IH]; cbn [dict_get map fst In]; [tauto|].
    destruct (str_eqb k0 k) eqn:E.
    - apply str_eqb_eq in E. split; [discriminate | tauto].
    - apply str_eqb_neq in E. rewrite IH. tauto.
  Qed.

  Lemma dict_get_in d k v : dict_get d k = Some v -> In (k, v) d.
  Proof.
    induction d as [|[k0 v0] r IH]; cbn [dict_get In]; [discriminate|].
    destruct (str_eqb k0 k) eqn:E; [|auto]. apply str_eqb_eq in E. intros [= ->]. subst. now left.
  Qed.

  Lemma dict_get_key d k v : dict_get d k = Some v -> In k (map fst d).
  Proof. intro H. apply dict_get_in in H. apply (in_map fst) in H. exact H. Qed.

  Lemma dict_in_get d k v : NoDup (map fst d) -> In (k, v) d -> dict_get d k = Some v.
  Proof.
    induction d as [|[k0 v0] r IH]; cbn [dict_get In map fst]; [tauto|].
    intros N [H|H]; inversion N; subst.
    - injection H as -> ->. rewrite str_eqb_refl. reflexivity.
    - destruct (str_eqb k0 k) eqn:E; [|auto]. apply str_eqb_eq in E. subst.
      exfalso. apply H2. apply (in_map fst) in H. exact H.
  Qed.

  Lemma dict_get_perm d d' k : NoDup (map fst d) -> Permutation d d' -> dict_get d k = dict_get d' k.
  Proof.
    intros N P. assert (N' : NoDup (map fst d')) by (eapply Permutation_NoDup; [apply Permutation_map; exact P | exact N]).
    destruct (dict_get d k) eqn:E1.
    - symmetry. apply dict_in_get; [exact N'|]. eapply Permutation_in; [exact P|]. now apply dict_get_in.
    - destruct (dict_get d' k) eqn:E2; [|reflexivity].
      apply dict_get_in in E2. apply Permutation_sym in P. eapply Permutation_in in E2; [|exact P].
      apply dict_in_get in E2; [|exact N]. congruence.
  Qed.
End Dict.

(* ---- build_md: the dict of the member list ---- *)
Lemma build_md_gen members acc :
  let d := fold_left (fun d (m : str * list str) => dict_set d (fst m) (snd m)) members acc in
  (NoDup (map fst acc) -> NoDup (map fst d)) /\
  (forall x, In x (map fst d) <-> In x (map fst acc) \/ In x (map fst members)).
Proof.
  revert acc. induction members as [|[m s] r IH]; intro acc; cbn [fold_left map fst In].
  - split; [auto | tauto].
  - destruct (IH (dict_set acc m s)) as [A B]. split.
    + intro N. apply A. apply dict_upd_nodup. exact N.
    + intro x. rewrite B. unfold dict_set. rewrite dict_upd_keys_in. intuition congruence.
Qed.

Lemma build_md_nodup members : NoDup (map fst (build_md members)).
Proof. apply (build_md_gen members []). constructor. Qed.
Lemma build_md_keys members x : In x (map fst (build_md members)) <-> In x (map fst members).
Proof. unfold build_md. rewrite (proj2 (build_md_gen members [])). cbn. tauto. Qed.

Lemma dict_set_fresh {V} (d : list (str * V)) k v : ~ In k (map fst d) -> dict_set d k v = d ++ [(k, v)].
Proof.
  unfold dict_set. induction d as [|[k0 v0] r IH]; cbn [dict_upd map fst In app]; intro H; [reflexivity|].
  destruct (str_eqb k0 k) eqn:E; [apply str_eqb_eq in E; tauto|]. rewrite IH; tauto.
Qed.

Lemma dict_fold_id {V} (d acc : list (str * V)) :
  NoDup (map fst acc ++ map fst d) ->
  fold_left (fun acc (e : str * V) => dict_set acc (fst e) (snd e)) d acc = acc ++ d.
Proof.
  revert acc. induction d as [|[m s] r IH]; intro acc; cbn [fold_left map fst]; intro N.
  - now rewrite app_nil_r.
  - rewrite dict_set_fresh.
    + rewrite IH; [now rewrite <- app_assoc|]. rewrite map_app, <- app_assoc. exact N.
    + apply NoDup_remove_2 in N. rewrite in_app_iff in N. tauto.
Qed.

Lemma build_md_id_gen members acc :
  NoDup (map fst acc ++ map fst members) ->
  fold_left (fun d (m : str * list str) => dict_set d (fst m) (snd m)) members acc = acc ++ members.
Proof. apply dict_fold_id. Qed.

(* distinct ids: the dict IS the member list *)
Lemma build_md_id members : NoDup (map fst members) -> build_md members = members.
Proof. intro N. unfold build_md. now rewrite build_md_id_gen. Qed.

(* ---- the assignment update ---- *)
Lemma asg_get_add a m t p m' :
  asg_get (asg_add a m t p) m' =
  if str_eqb m m'
  then dict_upd (asg_get a m) t (fun ol => (match ol with Some l => l | None => [] end) ++ [p])
  else asg_get a m'.
Proof. unfold asg_get, asg_add. rewrite dict_get_upd. destruct (str_eqb m m'); reflexivity. Qed.

Lemma parts_asg_add a m t p m' t' :
  parts_of (asg_get (asg_add a m t p) m') t' =
  parts_of (asg_get a m') t' ++ (if str_eqb m m' && str_eqb t t' then [p] else []).
Proof.
  rewrite asg_get_add. destruct (str_eqb m m') eqn:Em; cbn [andb]; [|now rewrite app_nil_r].
  apply str_eqb_eq in Em. subst m'. unfold parts_of. rewrite dict_get_upd.
  destruct (str_eqb t t') eqn:Et; [|now rewrite app_nil_r].
  apply str_eqb_eq in Et. subst t'. reflexivity.
Qed.

Lemma asg_size_cons (e : str * list Z) (d : adict) : asg_size (e :: d) = (length (snd e) + asg_size d)%nat.
Proof. reflexivity. Qed.

Lemma asg_size_upd (d : adict) t p :
  asg_size (dict_upd d t (fun ol => (match ol with Some l => l | None => [] end) ++ [p])) = S (asg_size d).
Proof.
  induction d as [|[t0 l0] r IH]; cbn [dict_upd]; [reflexivity|].
  destruct (str_eqb t0 t); rewrite !asg_size_cons; cbn [snd].
  - rewrite app_length. cbn [length]. lia.
  - rewrite IH. lia.
Qed.

Lemma asg_size_add a m t p m' :
  asg_size (asg_get (asg_add a m t p) m') = (asg_size (asg_get a m') + (if str_eqb m m' then 1 else 0))%nat.
Proof.
  rewrite asg_get_add. destruct (str_eqb m m') eqn:E; [|lia].
  apply str_eqb_eq in E. subst. rewrite asg_size_upd. lia.
Qed.

Lemma asg_add_keys a m t p x : In x (map fst (asg_add a m t p)) <-> x = m \/ In x (map fst a).
Proof. unfold asg_add. apply dict_upd_keys_in. Qed.

Lemma asg_add_topics a m t p m' x :
  In x (map fst (asg_get (asg_add a m t p) m')) <-> (m = m' /\ x = t) \/ In x (map fst (asg_get a m')).
Proof.
  rewrite asg_get_add. destruct (str_eqb m m') eqn:E.
  - apply str_eqb_eq in E. subst. rewrite dict_upd_keys_in. tauto.
  - apply str_eqb_neq in E. tauto.
Qed.

(* keys stay distinct at both levels *)
Definition asg_distinct (a : asg) : Prop :=
  NoDup (map fst a) /\ forall m, NoDup (map fst (asg_get a m)).

Lemma asg_distinct_nil : asg_distinct [].
Proof. split; [constructor|]. intro m. constructor. Qed.

Lemma asg_distinct_add a m t p : asg_distinct a -> asg_distinct (asg_add a m t p).
Proof.
  intros [A B]. split.
  - unfold asg_add. apply dict_upd_nodup. exact A.
  - intro m'. rewrite asg_get_add. destruct (str_eqb m m'); [apply dict_upd_nodup|]; apply B.
Qed.
