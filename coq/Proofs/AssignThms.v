(* _round_robin_assignment as a whole: when it is defined, exactly-one, only-subscribed, balance,
   independence of the listing order. *)
From AV Require Import Base.Util Proofs.UtilFacts Model.Assign Proofs.AssignOrder Proofs.AssignDict Proofs.AssignRR.
From Coq Require Import Lia Sorting.Permutation Arith.PeanoNat.

(* ---- who subscribes what ---- *)
Lemma some_subscriber_spec md t :
  some_subscriber md t = true <-> exists m, In m (map fst md) /\ subscribed md m t = true.
Proof. unfold some_subscriber. apply existsb_exists. Qed.

Lemma in_flat_map_snd (md : mdict) t : In t (flat_map snd md) <-> exists m s, In (m, s) md /\ In t s.
Proof.
  rewrite in_flat_map. split.
  - intros [[m s] [H1 H2]]. eauto.
  - intros (m & s & H1 & H2). exists (m, s). auto.
Qed.

Lemma all_topics_spec md t : NoDup (map fst md) -> (In t (all_topics md) <-> some_subscriber md t = true).
Proof.
  intro N. unfold all_topics. rewrite dedup_in, in_flat_map_snd, some_subscriber_spec. split.
  - intros (m & s & H1 & H2). exists m. split; [apply (in_map fst) in H1; exact H1|].
    unfold subscribed. rewrite (dict_in_get md m s N H1). now apply str_mem_in.
  - intros (m & _ & H). unfold subscribed in H. destruct (dict_get md m) as [s|] eqn:E; [|discriminate].
    exists m, s. split; [now apply dict_get_in | now apply str_mem_in].
Qed.

(* ---- the flattened (topic, partition) list ---- *)
Lemma expand_none tp ts : expand tp ts = None <-> exists t, In t ts /\ dict_get tp t = None.
Proof.
  induction ts as [|t r IH]; cbn [expand In].
  - split; [discriminate | intros (t & [] & _)].
  - destruct (dict_get tp t) as [ps|] eqn:E.
    + destruct (expand tp r) as [l|] eqn:Er.
      * split; [discriminate|]. intros (t' & [<-|H] & H'); [congruence|].
        destruct IH as [_ IH]. assert (X : Some l = None) by (apply IH; eauto). discriminate.
      * split; [|reflexivity]. intros _. destruct IH as [IH _]. destruct (IH eq_refl) as (t' & H1 & H2). eauto.
    + split; [|reflexivity]. intros _. exists t. auto.
Qed.

Lemma count_occ_map_pair t0 ps t p :
  count_occ tp_eq_dec (map (pair t0) ps) (t, p) = if str_eqb t0 t then count_occ Z.eq_dec ps p else 0%nat.
Proof.
  induction ps as [|q r IH]; cbn [map]; [cbn; now destruct (str_eqb t0 t)|].
  destruct (tp_eq_dec (t0, q) (t, p)) as [E|E].
  - rewrite count_occ_cons_eq by assumption. injection E as -> ->. rewrite str_eqb_refl in *.
    rewrite count_occ_cons_eq by reflexivity. now rewrite IH.
  - rewrite count_occ_cons_neq by assumption. rewrite IH. destruct (str_eqb t0 t) eqn:Et; [|reflexivity].
    apply str_eqb_eq in Et. subst. rewrite count_occ_cons_neq; [reflexivity | congruence].
Qed.

Lemma expand_count tp ts : forall l, NoDup ts -> expand tp ts = Some l ->
  forall t p, count_occ tp_eq_dec l (t, p) = if str_mem t ts then count_occ Z.eq_dec (parts_of tp t) p else 0%nat.
Proof.
  induction ts as [|t0 r IH]; intros l N; cbn [expand str_mem].
  - intros [= <-]. reflexivity.
  - destruct (dict_get tp t0) as [ps|] eqn:E; [|discriminate]. destruct (expand tp r) as [l'|] eqn:Er; [|discriminate].
    intros [= <-] t p. inversion N as [|? ? N1 N2]; subst.
    rewrite count_occ_app, count_occ_map_pair, (IH l' N2 eq_refl).
    destruct (str_eqb t0 t) eqn:Et; cbn [orb]; [|reflexivity].
    apply str_eqb_eq in Et. subst t0. replace (str_mem t r) with false by (symmetry; now apply str_mem_false).
    unfold parts_of. rewrite E. lia.
Qed.

Lemma expand_in tp ts : forall l t p, expand tp ts = Some l -> In (t, p) l -> In t ts /\ In p (parts_of tp t).
Proof.
  induction ts as [|t0 r IH]; intros l t p; cbn [expand].
  - intros [= <-] [].
  - destruct (dict_get tp t0) as [ps|] eqn:E; [|discriminate]. destruct (expand tp r) as [l'|] eqn:Er; [|discriminate].
    intros [= <-] H. apply in_app_or in H. destruct H as [H|H].
    + apply in_map_iff in H. destruct H as (q & [= <- <-] & Hq). split; [now left|]. unfold parts_of. now rewrite E.
    + destruct (IH _ _ _ eq_refl H). split; [now right | assumption].
Qed.

Lemma topic_len_map_pair t0 (ps : list Z) t :
  topic_len (map (pair t0) ps) t = if str_eqb t0 t then length ps else 0%nat.
Proof.
  unfold topic_len. induction ps as [|q r IH]; cbn [map filter fst]; [now destruct (str_eqb t0 t)|].
  destruct (str_eqb t0 t); cbn [length]; now rewrite IH.
Qed.

Lemma topic_len_app l1 l2 t : topic_len (l1 ++ l2) t = (topic_len l1 t + topic_len l2 t)%nat.
Proof. unfold topic_len. now rewrite filter_app, app_length. Qed.

Lemma topic_len_perm l l' t : Permutation l l' -> topic_len l t = topic_len l' t.
Proof.
  unfold topic_len. induction 1 as [|x l l' P IH|x y l|l l' l'' P1 IH1 P2 IH2]; cbn [filter]; try reflexivity.
  - destruct (str_eqb (fst x) t); cbn [length]; now rewrite IH.
  - destruct (str_eqb (fst x) t), (str_eqb (fst y) t); reflexivity.
  - congruence.
Qed.

Lemma expand_len tp ts : forall l, NoDup ts -> expand tp ts = Some l ->
  forall t, (topic_len l t <= length (parts_of tp t))%nat.
Proof.
  induction ts as [|t0 r IH]; intros l N; cbn [expand].
  - intros [= <-] t. cbn. lia.
  - destruct (dict_get tp t0) as [ps|] eqn:E; [|discriminate]. destruct (expand tp r) as [l'|] eqn:Er; [|discriminate].
    intros [= <-] t. inversion N as [|? ? N1 N2]; subst. rewrite topic_len_app, topic_len_map_pair.
    destruct (str_eqb t0 t) eqn:Et; [|apply (IH l' N2 eq_refl)].
    apply str_eqb_eq in Et. subst t0. unfold parts_of. rewrite E.
    assert (topic_len l' t = 0)%nat; [|lia].
    unfold topic_len. destruct (filter _ l') as [|[t' p'] f] eqn:F; [reflexivity|]. exfalso.
    assert (In (t', p') (filter (fun x => str_eqb (fst x) t) l')) by (rewrite F; now left).
    apply filter_In in H. destruct H as [H1 H2]. cbn in H2. apply str_eqb_eq in H2. subst.
    apply (expand_in _ _ _ _ _ Er) in H1. tauto.
Qed.

(* ---- unfolding round_robin ---- *)
Lemma round_robin_ok md tp a : round_robin md tp = Ok a ->
  all_topics md <> [] /\ exists l, expand tp (all_topics md) = Some l /\
    rr_loop md (str_sort (map fst md)) 0 (tp_sort l) [] = Ok a.
Proof.
  unfold round_robin. destruct (all_topics md) as [|t0 ts] eqn:E; [discriminate|].
  destruct (expand tp (t0 :: ts)) as [l|]; [|discriminate]. intro H. split; [discriminate|]. eauto.
Qed.

Lemma ms_keys_of (md : mdict) : forall m, In m (str_sort (map fst md)) -> dict_get md m <> None.
Proof. intros m H. apply str_sort_in1 in H. intro E. apply dict_get_none in E. apply E. exact H. Qed.

Lemma ms_nonempty (md : mdict) : all_topics md <> [] -> (0 < length (str_sort (map fst md)))%nat.
Proof.
  intro H. rewrite str_sort_length, map_length. destruct md; [|cbn; lia]. now destruct H.
Qed.

(* ---- C15_assign_defined: exactly which exception, and never the infinite loop ---- *)
Lemma round_robin_defined md tp : NoDup (map fst md) ->
  match round_robin md tp with
  | Ok _ => all_topics md <> [] /\ forall t, In t (all_topics md) -> dict_get tp t <> None
  | Err EAssert => all_topics md = []
  | Err (ENeed ts) => ts = str_sort (all_topics md) /\ exists t, In t ts /\ dict_get tp t = None
  | Err _ => False
  end.
Proof.
  intro N. unfold round_robin. destruct (all_topics md) as [|t0 ts] eqn:E; [reflexivity|].
  destruct (expand tp (t0 :: ts)) as [l|] eqn:Ex.
  - assert (Hne : all_topics md <> []) by (rewrite E; discriminate).
    destruct (rr_loop_defined md (str_sort (map fst md)) (ms_keys_of md) (tp_sort l) 0 []) as [a' Ha].
    + now apply ms_nonempty.
    + intros t p H. apply (Permutation_in _ (Permutation_sym (tp_sort_perm l))) in H.
      apply (expand_in _ _ _ _ _ Ex) in H. destruct H as [H _]. rewrite <- E in H.
      apply all_topics_spec in H; [|exact N]. apply some_subscriber_spec in H. destruct H as (m & H1 & H2).
      exists m. split; [now apply str_sort_in2 | assumption].
    + rewrite Ha. split; [discriminate|]. intros t Ht Hn.
      assert (X : expand tp (t0 :: ts) = None) by (apply expand_none; eauto). congruence.
  - split; [reflexivity|]. apply expand_none in Ex. destruct Ex as (t & H1 & H2). exists t.
    split; [now apply str_sort_in2 | assumption].
Qed.

(* ---- C15_exactly_one ---- *)
Lemma round_robin_exactly_one md tp a : NoDup (map fst md) -> round_robin md tp = Ok a ->
  (forall t p, assigned_count a (map fst md) t p =
               if some_subscriber md t then count_occ Z.eq_dec (parts_of tp t) p else 0%nat) /\
  (forall m, In m (map fst a) -> In m (map fst md)).
Proof.
  intros N H. apply round_robin_ok in H. destruct H as (Hne & l & Ex & Hl). split.
  - intros t p.
    rewrite (rr_loop_count md (str_sort (map fst md)) (map fst md) (tp_sort l) 0 [] a N
               (fun m Hm => proj1 (str_sort_in _ _) Hm) Hl t p).
    rewrite assigned_count_nil. cbn [Nat.add].
    rewrite <- (proj1 (Permutation_count_occ tp_eq_dec _ _) (tp_sort_perm l)).
    rewrite (expand_count tp (all_topics md) l (dedup_nodup _) Ex).
    destruct (str_mem t (all_topics md)) eqn:Em.
    + apply str_mem_in in Em. apply all_topics_spec in Em; [|exact N]. now rewrite Em.
    + destruct (some_subscriber md t) eqn:Es; [|reflexivity].
      apply all_topics_spec in Es; [|exact N]. apply str_mem_in in Es. congruence.
  - intros m Hm. apply str_sort_in1.
    refine (proj1 (rr_loop_sound md (str_sort (map fst md)) (tp_sort l) 0 [] a _ Hl) m Hm).
    split; [intros ? [] | intros ? ? []].
Qed.

(* ---- C15_only_subscribed ---- *)
Lemma round_robin_only_subscribed md tp a : round_robin md tp = Ok a ->
  forall m t, In t (map fst (asg_get a m)) -> In m (map fst md) /\ subscribed md m t = true.
Proof.
  intros H m t Ht. apply round_robin_ok in H. destruct H as (Hne & l & Ex & Hl).
  assert (S : asg_sound md (str_sort (map fst md)) a).
  { refine (rr_loop_sound md (str_sort (map fst md)) (tp_sort l) 0 [] a _ Hl). split; [intros ? [] | intros ? ? []]. }
  destruct (proj2 S m t Ht) as [H1 H2]. split; [now apply str_sort_in1 | assumption].
Qed.

Lemma parts_of_in_key (d : adict) t p : In p (parts_of d t) -> In t (map fst d).
Proof.
  unfold parts_of. destruct (dict_get d t) eqn:E; [|intros []]. intros _. eapply dict_get_key. eassumption.
Qed.

(* what a member holds was listed for that topic *)
Lemma round_robin_parts_listed md tp a : round_robin md tp = Ok a ->
  forall m t p, In p (parts_of (asg_get a m) t) -> In p (parts_of tp t).
Proof.
  intros H m t p Hp. apply round_robin_ok in H. destruct H as (Hne & l & Ex & Hl).
  destruct (rr_loop_parts md (str_sort (map fst md)) (tp_sort l) 0 [] a Hl m t p Hp) as [H|H]; [destruct H|].
  apply (Permutation_in _ (Permutation_sym (tp_sort_perm l))) in H. apply (expand_in _ _ _ _ _ Ex) in H. tauto.
Qed.

Lemma round_robin_distinct md tp a : round_robin md tp = Ok a -> asg_distinct a.
Proof.
  intro H. apply round_robin_ok in H. destruct H as (Hne & l & Ex & Hl).
  eapply rr_loop_distinct; [apply asg_distinct_nil | exact Hl].
Qed.

(* ---- C15_balanced ---- *)
Lemma round_robin_balanced md tp a : NoDup (map fst md) -> round_robin md tp = Ok a ->
  (forall m1 m2 t, In m1 (map fst md) -> In m2 (map fst md) -> subscribed md m1 t = subscribed md m2 t) ->
  forall m1 m2, In m1 (map fst md) -> In m2 (map fst md) ->
    (asg_size (asg_get a m1) <= asg_size (asg_get a m2) + 1)%nat.
Proof.
  intros N H Hsame m1 m2 H1 H2. apply round_robin_ok in H. destruct H as (Hne & l & Ex & Hl).
  set (ms := str_sort (map fst md)) in *.
  assert (Nms : NoDup ms) by (apply str_sort_nodup; exact N).
  destruct (rr_loop_balanced md ms Nms (tp_sort l) 0 [] a) as [pos' B]; try assumption.
  - now apply ms_nonempty.
  - intros t p m Hin Hm. apply (Permutation_in _ (Permutation_sym (tp_sort_perm l))) in Hin.
    apply (expand_in _ _ _ _ _ Ex) in Hin. destruct Hin as [Hin _].
    apply all_topics_spec in Hin; [|exact N]. apply some_subscriber_spec in Hin. destruct Hin as (m0 & Hm0 & Hs).
    rewrite (Hsame m m0 t); [assumption | now apply str_sort_in1 | assumption].
  - exists 0%nat. intros j m _. reflexivity.
  - eapply balanced_at_diff; [exact B | apply str_sort_in2; assumption ..].
Qed.

(* ---- C15_perm_invariant ---- *)
Lemma tp_equiv_parts tp tp' t : tp_equiv tp tp' -> Permutation (parts_of tp t) (parts_of tp' t).
Proof.
  intro H. specialize (H t). unfold parts_of. destruct (dict_get tp t), (dict_get tp' t); try contradiction; auto.
Qed.

Lemma tp_equiv_none tp tp' t : tp_equiv tp tp' -> (dict_get tp t = None <-> dict_get tp' t = None).
Proof.
  intro H. specialize (H t). destruct (dict_get tp t), (dict_get tp' t); try contradiction; split; congruence.
Qed.

Lemma dedup_perm l l' : Permutation l l' -> Permutation (dedup l) (dedup l').
Proof.
  intro P. apply NoDup_Permutation; try apply dedup_nodup.
  intro x. rewrite !dedup_in. split; apply Permutation_in; [|apply Permutation_sym]; exact P.
Qed.

Lemma round_robin_perm md md' tp tp' :
  NoDup (map fst md) -> Permutation md md' -> tp_equiv tp tp' ->
  round_robin md tp = round_robin md' tp'.
Proof.
  intros N P Q.
  assert (Pt : Permutation (all_topics md) (all_topics md')).
  { unfold all_topics. apply dedup_perm. apply Permutation_flat_map. exact P. }
  assert (Pk : str_sort (map fst md) = str_sort (map fst md')) by (apply str_sort_perm_eq, Permutation_map, P).
  unfold round_robin.
  destruct (all_topics md) as [|t0 ts] eqn:E.
  { apply Permutation_nil in Pt. now rewrite Pt. }
  destruct (all_topics md') as [|t0' ts'] eqn:E'.
  { apply Permutation_sym, Permutation_nil in Pt. discriminate. }
  destruct (expand tp (t0 :: ts)) as [l|] eqn:Ex; destruct (expand tp' (t0' :: ts')) as [l'|] eqn:Ex'.
  - assert (Nts : NoDup (t0 :: ts)) by (rewrite <- E; apply dedup_nodup).
    assert (Nts' : NoDup (t0' :: ts')) by (rewrite <- E'; apply dedup_nodup).
    assert (Pl : Permutation l l').
    { apply (Permutation_count_occ tp_eq_dec). intros [t p].
      rewrite (expand_count tp _ l Nts Ex), (expand_count tp' _ l' Nts' Ex').
      replace (str_mem t (t0' :: ts')) with (str_mem t (t0 :: ts)).
      - destruct (str_mem t (t0 :: ts)); [|reflexivity].
        apply (Permutation_count_occ Z.eq_dec). now apply tp_equiv_parts.
      - destruct (str_mem t (t0 :: ts)) eqn:A; symmetry.
        + apply str_mem_in. apply str_mem_in in A. eapply Permutation_in; eassumption.
        + apply str_mem_false. apply str_mem_false in A. intro B. apply A.
          eapply Permutation_in; [apply Permutation_sym|]; eassumption. }
    rewrite <- Pk, (tp_sort_perm_eq l l' Pl). apply rr_loop_ext. intro m. now apply dict_get_perm.
  - exfalso. apply expand_none in Ex'. destruct Ex' as (t & H1 & H2).
    assert (X : expand tp (t0 :: ts) = None); [|congruence]. apply expand_none. exists t. split.
    + eapply Permutation_in; [apply Permutation_sym|]; eassumption.
    + now apply (tp_equiv_none tp tp' t Q).
  - exfalso. apply expand_none in Ex. destruct Ex as (t & H1 & H2).
    assert (X : expand tp' (t0' :: ts') = None); [|congruence]. apply expand_none. exists t. split.
    + eapply Permutation_in; eassumption.
    + now apply (tp_equiv_none tp tp' t Q).
  - f_equal. f_equal. now apply str_sort_perm_eq.
Qed.
