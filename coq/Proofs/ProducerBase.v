(* Frame facts about the helpers of Model/Producer.v: which fields each one can change, and which outputs it
   can emit.  Used by every other ProducerXxx.v file. *)
From AV Require Import Base.Util Model.Producer.
From Coq Require Import Lia.

Ltac inv H := inversion H; subst; clear H.

(* destruct the scrutinee of the first let-pair / match / if found in hypothesis H *)
Ltac dlet_in H :=
  match type of H with
  | context [let '(_, _) := ?x in _] => let E := fresh "E" in destruct x eqn:E
  | context [match ?x with _ => _ end] => let E := fresh "E" in destruct x eqn:E
  end.
Ltac dlet_goal :=
  match goal with
  | |- context [let '(_, _) := ?x in _] => let E := fresh "E" in destruct x eqn:E
  | |- context [match ?x with _ => _ end] => let E := fresh "E" in destruct x eqn:E
  end.

(* ------------------------------------------------------------------ "same except" relations *)
(* everything but [outstanding] *)
Definition eq_xo (s s' : state) : Prop := s' = set_outstanding s (outstanding s').
(* everything but the lookup bookkeeping: attempts, didx, nload, ntimer *)
Definition eq_xl (s s' : state) : Prop :=
  s' = set_ids (set_retry s (attempts s') (didx s') (nsp s)) (nsend s) (nload s') (ntimer s').

Lemma eq_xo_refl : forall s, eq_xo s s.
Proof. intros []; reflexivity. Qed.
Lemma eq_xo_trans : forall a b c, eq_xo a b -> eq_xo b c -> eq_xo a c.
Proof. unfold eq_xo; intros a b c H1 H2. rewrite H2, H1. destruct a; reflexivity. Qed.
Lemma eq_xl_refl : forall s, eq_xl s s.
Proof. intros []; reflexivity. Qed.
Lemma eq_xl_trans : forall a b c, eq_xl a b -> eq_xl b c -> eq_xl a c.
Proof. unfold eq_xl; intros a b c H1 H2. rewrite H2, H1. destruct a; reflexivity. Qed.

(* the fields a "same except" relation keeps, as one record of equalities *)
Record keeps_q (s s' : state) : Prop := {
  kq_queue : queue s' = queue s; kq_wcnt : wcnt s' = wcnt s; kq_wbytes : wbytes s' = wbytes s;
  kq_stopping : stopping s' = stopping s; kq_looper : looper s' = looper s; kq_nsend : nsend s' = nsend s;
  kq_broken : broken s' = broken s }.

Lemma keeps_q_refl : forall s, keeps_q s s.
Proof. constructor; reflexivity. Qed.
Lemma keeps_q_trans : forall a b c, keeps_q a b -> keeps_q b c -> keeps_q a c.
Proof. intros a b c [] []; constructor; congruence. Qed.
Lemma eq_xo_keeps : forall s s', eq_xo s s' -> keeps_q s s'.
Proof. unfold eq_xo; intros s s' H; rewrite H; constructor; reflexivity. Qed.
Lemma eq_xl_keeps : forall s s', eq_xl s s' -> keeps_q s s'.
Proof. unfold eq_xl; intros s s' H; rewrite H; constructor; reflexivity. Qed.
#[export] Hint Resolve keeps_q_refl eq_xo_refl eq_xl_refl eq_xo_keeps eq_xl_keeps : prod.

Lemma eq_xo_ph : forall s s', eq_xo s s' -> ph s' = ph s.
Proof. unfold eq_xo; intros s s' H; rewrite H; reflexivity. Qed.
Lemma eq_xl_ph : forall s s', eq_xl s s' -> ph s' = ph s.
Proof. unfold eq_xl; intros s s' H; rewrite H; reflexivity. Qed.
Lemma eq_xl_outstanding : forall s s', eq_xl s s' -> outstanding s' = outstanding s.
Proof. unfold eq_xl; intros s s' H; rewrite H; reflexivity. Qed.

(* ------------------------------------------------------------------ kinds of outputs *)
Definition is_outcome (o : output) : bool := match o with OOutcome _ _ => true | _ => false end.
Definition is_ghost (o : output) : bool := match o with ODispatch _ | OBatchDone => true | _ => false end.
Definition no_ghost (l : list output) : Prop := Forall (fun o => is_ghost o = false) l.
Definition only_outcomes (l : list output) : Prop := Forall (fun o => is_outcome o = true) l.

Lemma only_outcomes_no_ghost : forall l, only_outcomes l -> no_ghost l.
Proof. unfold only_outcomes, no_ghost; intros l H; eapply Forall_impl; [|exact H]. intros [] ?; simpl in *; congruence. Qed.
Lemma no_ghost_app : forall a b, no_ghost a -> no_ghost b -> no_ghost (a ++ b).
Proof. unfold no_ghost; intros; apply Forall_app; auto. Qed.
Lemma only_outcomes_app : forall a b, only_outcomes a -> only_outcomes b -> only_outcomes (a ++ b).
Proof. unfold only_outcomes; intros; apply Forall_app; auto. Qed.
Lemma no_ghost_nil : no_ghost []. Proof. constructor. Qed.
Lemma only_outcomes_nil : only_outcomes []. Proof. constructor. Qed.
#[export] Hint Resolve no_ghost_app only_outcomes_app no_ghost_nil only_outcomes_nil only_outcomes_no_ghost : prod.

(* ------------------------------------------------------------------ deliver and friends *)
Lemma deliver_xo : forall l s o s' out, deliver s l o = (s', out) -> eq_xo s s' /\ only_outcomes out.
Proof.
  induction l as [|x r IH]; simpl; intros s o s' out H.
  - inv H. auto with prod.
  - destruct (zmem (s_id x) (outstanding s)).
    + destruct (deliver _ r o) as [s1 o1] eqn:E. inv H. apply IH in E as [E1 E2]. split.
      * eapply eq_xo_trans; [|exact E1]. unfold eq_xo. destruct s; reflexivity.
      * constructor; auto.
    + eapply IH; exact H.
Qed.

Lemma group_requests_xo : forall reqs res s pls s' out pls',
  group_requests s reqs res pls = (s', out, pls') -> eq_xo s s' /\ only_outcomes out.
Proof.
  induction reqs as [|x r IH]; cbn [group_requests]; intros res s pls s' out pls' H.
  - inv H; auto with prod.
  - destruct res as [|y res]; [inv H; auto with prod|].
    destruct (negb (zmem (s_id x) (outstanding s))); [eapply IH; exact H|].
    destruct y.
    + eapply IH; exact H.
    + destruct (deliver s [x] (OFail k 0)) as [s1 o1] eqn:E1.
      destruct (group_requests s1 r res pls) as [[s2 o2] pls2] eqn:E2. inv H.
      apply deliver_xo in E1 as [A1 A2]. apply IH in E2 as [B1 B2]. split; [eapply eq_xo_trans; eauto|auto with prod].
Qed.

Lemma process_resps_xo : forall rs s pls s' out fl,
  process_resps s pls rs = (s', out, fl) -> eq_xo s s' /\ only_outcomes out.
Proof.
  induction rs as [|[[x err] off] r IH]; simpl; intros s pls s' out fl H.
  - inv H; auto with prod.
  - destruct (err =? 0).
    + destruct (deliver s (sends_of pls x) _) as [s1 o1] eqn:E1.
      destruct (process_resps s1 pls r) as [[s2 o2] f2] eqn:E2. inv H.
      apply deliver_xo in E1 as [A1 A2]. apply IH in E2 as [B1 B2]. split; [eapply eq_xo_trans; eauto|auto with prod].
    + destruct (process_resps s pls r) as [[s2 o2] f2] eqn:E2. inv H. eapply IH; exact E2.
Qed.

Lemma deliver_failed_xo : forall fl s pls s' out,
  deliver_failed s pls fl = (s', out) -> eq_xo s s' /\ only_outcomes out.
Proof.
  induction fl as [|[[x k] b] r IH]; simpl; intros s pls s' out H.
  - inv H; auto with prod.
  - destruct (deliver s (sends_of pls x) _) as [s1 o1] eqn:E1.
    destruct (deliver_failed s1 pls r) as [s2 o2] eqn:E2. inv H.
    apply deliver_xo in E1 as [A1 A2]. apply IH in E2 as [B1 B2]. split; [eapply eq_xo_trans; eauto|auto with prod].
Qed.

(* ------------------------------------------------------------------ lookups *)
Definition lk_out (o : output) : bool :=
  match o with OLoadMeta _ _ | OSched _ _ 0 | OCancelTimer _ => true | _ => false end.
Definition lk_outs (l : list output) : Prop := Forall (fun o => lk_out o = true) l.
Lemma lk_outs_no_ghost : forall l, lk_outs l -> no_ghost l.
Proof. unfold lk_outs, no_ghost; intros l H; eapply Forall_impl; [|exact H]. intros [] ?; simpl in *; congruence. Qed.
Lemma lk_outs_app : forall a b, lk_outs a -> lk_outs b -> lk_outs (a ++ b).
Proof. unfold lk_outs; intros; apply Forall_app; auto. Qed.
#[export] Hint Resolve lk_outs_no_ghost lk_outs_app : prod.

Ltac xl_done := split; [unfold eq_xl; match goal with s : state |- _ => destruct s; reflexivity end | repeat constructor].

Lemma lookup_head_xl : forall c s x s' o l, lookup_head c s x = (s', o, l) -> eq_xl s s' /\ lk_outs o.
Proof.
  unfold lookup_head; intros c s x s' o l H. destruct (cache_get (cache s) (s_topic x)) as [err hp].
  destruct (err =? 0); [inv H; xl_done|].
  destruct (c_max c <=? attempts s); inv H; xl_done.
Qed.

Lemma lookup_loaded_xl : forall c s x s' o l, lookup_loaded c s x = (s', o, l) -> eq_xl s s' /\ lk_outs o.
Proof.
  unfold lookup_loaded; intros c s x s' o l H. destruct (stopping s); [inv H; xl_done|].
  destruct (cache_get (cache s) (s_topic x)) as [err hp].
  destruct (err =? 0); inv H; xl_done.
Qed.

Lemma map_lookups_xl : forall f,
  (forall st x l st' o l', f st x l = Some (st', o, l') -> eq_xl st st' /\ lk_outs o) ->
  forall reqs ls s s' o ls', map_lookups f s reqs ls = (s', o, ls') ->
  eq_xl s s' /\ lk_outs o /\ length ls' = length ls.
Proof.
  intros f Hf; induction reqs as [|x r IH]; simpl; intros ls s s' o ls' H.
  - inv H; repeat split; auto with prod; constructor.
  - destruct ls as [|l ls]; [inv H; repeat split; auto with prod; constructor|].
    destruct (f s x l) as [[[s1 o1] l1]|] eqn:E.
    + destruct (map_lookups f s1 r ls) as [[s2 o2] ls2] eqn:E2. inv H.
      apply Hf in E as [A1 A2]. apply IH in E2 as (B1 & B2 & B3).
      repeat split; [eapply eq_xl_trans; eauto|auto with prod|simpl; congruence].
    + destruct (map_lookups f s r ls) as [[s2 o2] ls2] eqn:E2. inv H.
      apply IH in E2 as (B1 & B2 & B3). repeat split; auto. simpl; congruence.
Qed.

(* ------------------------------------------------------------------ helpers that may end the batch *)
Record core_ok (s s1 : state) (o1 : list output) (done : bool) : Prop := {
  co_keeps : keeps_q s s1;
  co_ng : no_ghost o1;
  co_ph : done = false -> ph s1 <> Idle \/ s1 = s }.

Ltac kq := constructor; reflexivity.

Lemma send_requests_ok : forall s reqs res s1 o1 done,
  send_requests s reqs res = (s1, o1, done) -> core_ok s s1 o1 done.
Proof.
  unfold send_requests; intros s reqs res s1 o1 done H.
  destruct (stopping s); [inv H; constructor; auto with prod; discriminate|].
  destruct (api s =? 0).
  { inv H; constructor; [kq|repeat constructor|intros _; left; simpl; discriminate]. }
  destruct (group_requests s reqs res []) as [[s2 o2] pls] eqn:E. apply group_requests_xo in E as [E1 E2].
  destruct pls.
  - inv H; constructor; auto with prod; discriminate.
  - destruct (broken s2); [inv H; constructor; auto with prod; discriminate|].
    inv H; constructor.
    + eapply keeps_q_trans; [apply eq_xo_keeps; exact E1|kq].
    + apply no_ghost_app; auto with prod. repeat constructor.
    + intros _; left; simpl; discriminate.
Qed.

Lemma lookups_progress_ok : forall s reqs ls s1 o1 done,
  lookups_progress s reqs ls = (s1, o1, done) -> core_ok s s1 o1 done.
Proof.
  unfold lookups_progress; intros s reqs ls s1 o1 done H. destruct (all_done ls).
  - eapply send_requests_ok; eauto.
  - inv H; constructor; [kq|constructor|intros _; left; simpl; discriminate].
Qed.

Lemma version_failed_ok : forall s reqs k s1 o1 done,
  version_failed s reqs k = (s1, o1, done) -> core_ok s s1 o1 done.
Proof.
  unfold version_failed; intros s reqs k s1 o1 done H. destruct (deliver s reqs (OFail k 0)) as [s2 o2] eqn:E.
  apply deliver_xo in E as [E1 E2]. inv H; constructor; auto with prod; discriminate.
Qed.

Lemma check_retry_ok : forall c s pls fl s1 o1 done,
  check_retry c s pls fl = (s1, o1, done) -> core_ok s s1 o1 done.
Proof.
  unfold check_retry; intros c s pls fl s1 o1 done H.
  destruct ((c_max c <=? attempts s) || stopping s).
  - destruct (deliver_failed s pls fl) as [s2 o2] eqn:E. apply deliver_failed_xo in E as [E1 E2].
    inv H; constructor; auto with prod; discriminate.
  - inv H; constructor.
    + destruct (reset_topics fl); kq.
    + destruct (reset_topics fl); repeat constructor.
    + intros _; left; simpl; discriminate.
Qed.

Lemma core_ok_seq : forall s s1 o1 s2 o2 done,
  keeps_q s s1 -> no_ghost o1 -> core_ok s1 s2 o2 done -> (done = false -> ph s2 <> Idle) -> core_ok s s2 (o1 ++ o2) done.
Proof.
  intros s s1 o1 s2 o2 done K N [K2 N2 P2] P; constructor; [eapply keeps_q_trans; eauto|auto with prod|auto].
Qed.

Lemma check_retry_ph : forall c s pls fl s1 o1, check_retry c s pls fl = (s1, o1, false) -> ph s1 <> Idle.
Proof.
  unfold check_retry; intros c s pls fl s1 o1 H. destruct ((c_max c <=? attempts s) || stopping s).
  - destruct (deliver_failed s pls fl); inv H.
  - inv H; simpl; discriminate.
Qed.

Lemma handle_result_ok : forall c s pls cur v s1 o1 done,
  handle_result c s pls cur v = (s1, o1, done) -> core_ok s s1 o1 done /\ (done = false -> ph s1 <> Idle).
Proof.
  unfold handle_result; intros c s pls cur v s1 o1 done H. destruct v.
  - destruct (deliver s (all_sends pls) _) as [s2 o2] eqn:E. apply deliver_xo in E as [E1 E2].
    inv H; split; [constructor; auto with prod|]; discriminate.
  - destruct (process_resps s pls rs) as [[s2 o2] f2] eqn:E. apply process_resps_xo in E as [E1 E2].
    destruct f2.
    + inv H; split; [constructor; auto with prod|]; discriminate.
    + destruct (check_retry c s2 pls (p :: f2)) as [[s3 o3] d3] eqn:E3. inv H.
      pose proof (check_retry_ok _ _ _ _ _ _ _ E3) as K. split.
      * apply core_ok_seq with s2; auto with prod. intros ->; eapply check_retry_ph; eauto.
      * intros ->; eapply check_retry_ph; eauto.
  - destruct (if c_acks c =? 0 then _ else _) as [s0 o0] eqn:E0.
    assert (A0 : eq_xo s s0 /\ only_outcomes o0).
    { destruct (c_acks c =? 0); [eapply deliver_xo; eauto|inv E0; auto with prod]. }
    destruct A0 as [A1 A2].
    destruct (process_resps s0 pls rs) as [[s2 o2] f2] eqn:E. apply process_resps_xo in E as [E1 E2].
    destruct (check_retry c s2 pls _) as [[s3 o3] d3] eqn:E3. inv H.
    pose proof (check_retry_ok _ _ _ _ _ _ _ E3) as K. split.
    + apply core_ok_seq with s0; auto with prod.
      * apply core_ok_seq with s2; auto with prod. intros ->; eapply check_retry_ph; eauto.
      * intros ->; eapply check_retry_ph; eauto.
    + intros ->; eapply check_retry_ph; eauto.
  - pose proof (check_retry_ok _ _ _ _ _ _ _ H). split; auto. intros ->; eapply check_retry_ph; eauto.
  - destruct (deliver s (all_sends pls) _) as [s2 o2] eqn:E. apply deliver_xo in E as [E1 E2].
    inv H; split; [constructor; auto with prod|]; discriminate.
Qed.

(* ------------------------------------------------------------------ dispatch and the epilogue *)
Definition no_dispatch (l : list output) : Prop := Forall (fun o => match o with ODispatch _ => False | _ => True end) l.
Lemma no_ghost_no_dispatch : forall l, no_ghost l -> no_dispatch l.
Proof. unfold no_ghost, no_dispatch; intros l H; eapply Forall_impl; [|exact H]. intros [] ?; simpl in *; auto; discriminate. Qed.
Lemma no_dispatch_app : forall a b, no_dispatch a -> no_dispatch b -> no_dispatch (a ++ b).
Proof. unfold no_dispatch; intros; apply Forall_app; auto. Qed.
#[export] Hint Resolve no_ghost_no_dispatch no_dispatch_app : prod.

Lemma dispatch_spec : forall c s s' o, dispatch c s = (s', o) ->
  queue s' = [] /\ wcnt s' = 0 /\ wbytes s' = 0 /\ stopping s' = stopping s /\ looper s' = looper s /\ nsend s' = nsend s /\
  exists rest, o = ODispatch (map s_id (queue s)) :: rest /\ no_dispatch rest.
Proof.
  unfold dispatch; intros c s s' o H.
  destruct (map_lookups _ _ _ _) as [[s1 o1] ls] eqn:E1.
  apply map_lookups_xl in E1 as (A1 & A2 & A3);
    [|intros st x l st' o' l' Hf; inv Hf; eapply lookup_head_xl; eauto].
  apply eq_xl_keeps in A1. destruct A1 as [Q1 Q2 Q3 Q4 Q5 Q6 Q7b]. simpl in *.
  destruct (lookups_progress s1 (queue s) ls) as [[s2 o2] done] eqn:E2.
  apply lookups_progress_ok in E2 as [[R1 R2 R3 R4 R5 R6 R7b] N _].
  destruct done.
  - unfold finish0 in H. inv H. simpl. repeat split; try congruence.
    eexists; split; [reflexivity|]. repeat apply no_dispatch_app; auto with prod. repeat constructor.
  - inv H. repeat split; try congruence. eexists; split; [reflexivity|]. auto with prod.
Qed.

Definition ready (s : state) : bool := can_dispatch s.

Lemma try_send_batch_spec : forall c s s' o, try_send_batch c s = (s', o) ->
  (ready s = true /\ dispatch c s = (s', o)) \/ (ready s = false /\ s' = s /\ o = []).
Proof. unfold try_send_batch, ready; intros c s s' o H. destruct (can_dispatch s); [left|right; inv H]; auto. Qed.

Lemma check_send_batch_spec : forall c s s' o, check_send_batch c s = (s', o) ->
  (threshold c s = true /\ ready s = true /\ dispatch c s = (s', o)) \/
  ((threshold c s = false \/ ready s = false) /\ s' = s /\ o = []).
Proof.
  unfold check_send_batch; intros c s s' o H. destruct (threshold c s) eqn:T.
  - apply try_send_batch_spec in H as [[A B]|(A & B & C)]; [left|right]; auto.
  - right; inv H; auto.
Qed.

(* after _check_send_batch no due batch is left waiting *)
Lemma check_send_batch_post : forall c s s' o, check_send_batch c s = (s', o) ->
  ready s' = true -> threshold c s' = false.
Proof.
  intros c s s' o H R. apply check_send_batch_spec in H as [(T & Rd & D)|([T|Rd] & -> & _)]; auto; try congruence.
  apply dispatch_spec in D as (Q & _). unfold ready, can_dispatch in R. rewrite Q in R. discriminate.
Qed.

(* ------------------------------------------------------------------ cancellation *)
Lemma remove_send_spec : forall sid q x q', remove_send sid q = Some (x, q') ->
  exists a b, q = a ++ x :: b /\ q' = a ++ b /\ s_id x = sid /\ forall y, In y a -> s_id y <> sid.
Proof.
  induction q as [|y r IH]; simpl; intros x q' H; [discriminate|].
  destruct (s_id y =? sid) eqn:E.
  - inv H. exists [], q'. repeat split; auto; try (apply Z.eqb_eq; auto); try (intros ? []).
  - destruct (remove_send sid r) as [[z r']|] eqn:E2; [|discriminate]. inv H.
    destruct (IH _ _ eq_refl) as (a & b & -> & -> & A & B). exists (y :: a), b. repeat split; auto.
    intros w [<-|W]; auto. apply Z.eqb_neq; auto.
Qed.

Lemma remove_send_none : forall sid q, remove_send sid q = None -> ~ In sid (map s_id q).
Proof.
  induction q as [|y r IH]; simpl; intros H; [tauto|].
  destruct (s_id y =? sid) eqn:E; [discriminate|].
  destruct (remove_send sid r) as [[z r']|]; [discriminate|]. intros [A|A]; [apply Z.eqb_neq in E; auto|apply IH; auto].
Qed.

Lemma cancel_send_spec : forall s sid s1 o1, cancel_send s sid = (s1, o1) ->
  only_outcomes o1 /\ ph s1 = ph s /\ stopping s1 = stopping s /\ looper s1 = looper s /\ nsend s1 = nsend s /\
  attempts s1 = attempts s /\ didx s1 = didx s /\ nsp s1 = nsp s /\ api s1 = api s /\ cache s1 = cache s /\
  nload s1 = nload s /\ ntimer s1 = ntimer s /\
  ((s1 = s /\ o1 = [] /\ zmem sid (outstanding s) = false) \/
   (zmem sid (outstanding s) = true /\ outstanding s1 = zremove sid (outstanding s) /\
    ((queue s1 = queue s /\ wcnt s1 = wcnt s /\ wbytes s1 = wbytes s /\ remove_send sid (queue s) = None /\
      o1 = [OOutcome sid (OFail K_CANCEL (match ph s with Idle => 0 | _ => 1 end))]) \/
     (exists x, remove_send sid (queue s) = Some (x, queue s1) /\ wcnt s1 = wcnt s - s_cnt x /\
                wbytes s1 = wbytes s - s_bytes x /\ o1 = [OOutcome sid (OFail K_CANCEL 0)])))).
Proof.
  unfold cancel_send; intros s sid s1 o1 H. destruct (zmem sid (outstanding s)) eqn:M; simpl in H.
  - destruct (remove_send sid (queue s)) as [[x q]|] eqn:E; inv H; simpl;
      (split; [repeat constructor|]); repeat (split; [reflexivity|]); right; repeat (split; [reflexivity|]).
    + right. exists x; auto.
    + left; auto.
  - inv H. split; [constructor|]. repeat (split; [reflexivity|]). left; auto.
Qed.

Lemma cancel_all_spec : forall ids s s1 o1, cancel_all s ids = (s1, o1) ->
  only_outcomes o1 /\ ph s1 = ph s /\ stopping s1 = stopping s /\ looper s1 = looper s /\ nsend s1 = nsend s.
Proof.
  induction ids as [|i r IH]; simpl; intros s s1 o1 H.
  - inv H; repeat split; constructor.
  - destruct (cancel_send s i) as [s2 o2] eqn:E. destruct (cancel_all s2 r) as [s3 o3] eqn:E3. inv H.
    apply cancel_send_spec in E as (A1 & A2 & A3 & A4 & A5 & _). apply IH in E3 as (B1 & B2 & B3 & B4 & B5).
    repeat split; auto with prod; congruence.
Qed.

Lemma send_requests_ph : forall s reqs res s1 o1, send_requests s reqs res = (s1, o1, false) -> ph s1 <> Idle.
Proof.
  unfold send_requests; intros s reqs res s1 o1 H. destruct (stopping s); [discriminate|]. destruct (api s =? 0).
  - inv H; simpl; discriminate.
  - destruct (group_requests s reqs res []) as [[s2 ?] []]; [inv H|]. destruct (broken s2); inv H; simpl; discriminate.
Qed.
Lemma lookups_progress_ph : forall s reqs ls s1 o1, lookups_progress s reqs ls = (s1, o1, false) -> ph s1 <> Idle.
Proof.
  unfold lookups_progress; intros s reqs ls s1 o1 H. destruct (all_done ls).
  - eapply send_requests_ph; eauto.
  - inv H; simpl; discriminate.
Qed.

Lemma cancel_batch_ok : forall c s cv s1 o1 done,
  cancel_batch c s cv = (s1, o1, done) -> core_ok s s1 o1 done.
Proof.
  unfold cancel_batch; intros c s cv s1 o1 done H. destruct (ph s) eqn:P.
  - inv H; constructor; auto with prod.
  - destruct (map_lookups _ s reqs ls) as [[s2 o2] ls2] eqn:E.
    apply map_lookups_xl in E as (A1 & A2 & A3).
    2:{ intros st x l st' o' l' Hf. destruct l; [discriminate| |].
        - inv Hf. eapply lookup_loaded_xl; eauto.
        - inv Hf. xl_done. }
    destruct (lookups_progress s2 reqs ls2) as [[s3 o3] d3] eqn:E3. inv H.
    pose proof (lookups_progress_ok _ _ _ _ _ _ E3) as K.
    apply core_ok_seq with s2; auto with prod. intros ->. eapply lookups_progress_ph; eauto.
  - eapply version_failed_ok; eauto.
  - eapply (proj1 (handle_result_ok _ _ _ _ _ _ _ _ H)).
  - destruct (deliver s (all_sends pls) _) as [s2 o2] eqn:E. apply deliver_xo in E as [E1 E2]. inv H.
    constructor; [auto with prod|constructor; [reflexivity|apply only_outcomes_no_ghost; auto]|discriminate].
Qed.
