(* Audit C15 2.3 / 2.4: (a) reordering or repeating names inside a member's subscription list changes nothing;
   (b) the composition bytes -> decode_join_group_protocol_metadata -> assignment. *)
From AV Require Import Base.Util Proofs.UtilFacts Model.Assign Proofs.AssignOrder Proofs.AssignDict
  Proofs.AssignRR Proofs.AssignThms Proofs.AssignCodec.
From Coq Require Import Lia Sorting.Permutation.

(* ---- (a) ---- *)
Definition srel (s s' : list str) : Prop := forall t, In t s <-> In t s'.
Definition erel (m m' : str * list str) : Prop := fst m = fst m' /\ srel (snd m) (snd m').
Definition orel (o o' : option (list str)) : Prop :=
  match o, o' with Some s, Some s' => srel s s' | None, None => True | _, _ => False end.

Lemma srel_mem s s' t : srel s s' -> str_mem t s = str_mem t s'.
Proof.
  intro H. destruct (str_mem t s) eqn:A; symmetry.
  - apply str_mem_in. apply H. now apply str_mem_in.
  - apply str_mem_false. intro B. apply (proj1 (str_mem_false t s) A). now apply H.
Qed.

Lemma dict_set_rel d d' k s s' : Forall2 erel d d' -> srel s s' -> Forall2 erel (dict_set d k s) (dict_set d' k s').
Proof.
  unfold dict_set. induction 1 as [|[k0 v0] [k0' v0'] r r' [E1 E2] F IH]; intro S; cbn [dict_upd].
  - constructor; [split; [reflexivity | exact S] | constructor].
  - cbn [fst snd] in E1, E2. subst k0'. destruct (str_eqb k0 k).
    + constructor; [split; [reflexivity | exact S] | exact F].
    + constructor; [split; [reflexivity | exact E2] | now apply IH].
Qed.

Lemma build_md_rel members members' : subs_equiv members members' -> Forall2 erel (build_md members) (build_md members').
Proof.
  unfold build_md. intro H. assert (G : Forall2 erel (@nil (str * list str)) []) by constructor. revert G.
  generalize (@nil (str * list str)) at 1 3. generalize (@nil (str * list str)).
  induction H as [|[m s] [m' s'] r r' [E1 E2] F IH]; intros acc' acc G; cbn [fold_left]; [exact G|].
  cbn [fst snd] in *. subst m'. apply IH. now apply dict_set_rel.
Qed.

Lemma rel_keys d d' : Forall2 erel d d' -> map fst d = map fst d'.
Proof. induction 1 as [|x y r r' [E _] F IH]; cbn [map]; [reflexivity | now rewrite E, IH]. Qed.

Lemma rel_get d d' m : Forall2 erel d d' -> orel (dict_get d m) (dict_get d' m).
Proof.
  induction 1 as [|[k v] [k' v'] r r' [E1 E2] F IH]; cbn [dict_get]; [exact I|].
  cbn [fst snd] in *. subst k'. destruct (str_eqb k m); [exact E2 | exact IH].
Qed.

Lemma rel_flat d d' t : Forall2 erel d d' -> In t (flat_map snd d) <-> In t (flat_map snd d').
Proof.
  induction 1 as [|x y r r' [_ E] F IH]; cbn [flat_map]; [tauto|]. rewrite !in_app_iff, IH, (E t). tauto.
Qed.

Lemma pick_rel md md' ms : (forall m, orel (dict_get md m) (dict_get md' m)) ->
  forall fuel pos t, pick fuel md ms pos t = pick fuel md' ms pos t.
Proof.
  intros H fuel. induction fuel as [|f IH]; intros pos t; cbn [pick]; [reflexivity|].
  destruct (nth_error ms pos) as [m|]; [|reflexivity]. specialize (H m). unfold orel in H.
  destruct (dict_get md m) as [s|], (dict_get md' m) as [s'|]; try contradiction; [|reflexivity].
  rewrite (srel_mem s s' t H). destruct (str_mem t s'); [reflexivity | apply IH].
Qed.

Lemma rr_loop_rel md md' ms : (forall m, orel (dict_get md m) (dict_get md' m)) ->
  forall l pos a, rr_loop md ms pos l a = rr_loop md' ms pos l a.
Proof.
  intros H l. induction l as [|[t p] r IH]; intros pos a; cbn [rr_loop]; [reflexivity|].
  rewrite (pick_rel md md' ms H). destruct (pick (length ms) md' ms pos t) as [[m pos']|e]; [apply IH | reflexivity].
Qed.

Lemma round_robin_rel md md' tp : Forall2 erel md md' -> round_robin md tp = round_robin md' tp.
Proof.
  intro F.
  assert (Pt : Permutation (all_topics md) (all_topics md')).
  { unfold all_topics. apply NoDup_Permutation; try apply dedup_nodup. intro x. rewrite !dedup_in. now apply rel_flat. }
  assert (Pk : map fst md = map fst md') by now apply rel_keys.
  unfold round_robin.
  destruct (all_topics md) as [|t0 ts] eqn:E.
  { apply Permutation_nil in Pt. now rewrite Pt. }
  destruct (all_topics md') as [|t0' ts'] eqn:E'.
  { apply Permutation_sym, Permutation_nil in Pt. discriminate. }
  destruct (expand tp (t0 :: ts)) as [l|] eqn:Ex; destruct (expand tp (t0' :: ts')) as [l'|] eqn:Ex'.
  - assert (Nts : NoDup (t0 :: ts)) by (rewrite <- E; apply dedup_nodup).
    assert (Nts' : NoDup (t0' :: ts')) by (rewrite <- E'; apply dedup_nodup).
    assert (Pl : Permutation l l').
    { apply (Permutation_count_occ tp_eq_dec). intros [t p].
      rewrite (expand_count tp _ l Nts Ex), (expand_count tp _ l' Nts' Ex').
      replace (str_mem t (t0' :: ts')) with (str_mem t (t0 :: ts)); [reflexivity|].
      destruct (str_mem t (t0 :: ts)) eqn:A; symmetry.
      + apply str_mem_in. apply str_mem_in in A. eapply Permutation_in; eassumption.
      + apply str_mem_false. apply str_mem_false in A. intro B. apply A.
        eapply Permutation_in; [apply Permutation_sym|]; eassumption. }
    rewrite <- Pk, (tp_sort_perm_eq l l' Pl). apply rr_loop_rel. intro m. now apply rel_get.
  - exfalso. apply expand_none in Ex'. destruct Ex' as (t & H1 & H2).
    assert (X : expand tp (t0 :: ts) = None); [|congruence]. apply expand_none. exists t. split; [|exact H2].
    eapply Permutation_in; [apply Permutation_sym|]; eassumption.
  - exfalso. apply expand_none in Ex. destruct Ex as (t & H1 & H2).
    assert (X : expand tp (t0' :: ts') = None); [|congruence]. apply expand_none. exists t. split; [|exact H2].
    eapply Permutation_in; eassumption.
  - f_equal. f_equal. now apply str_sort_perm_eq.
Qed.

Lemma subs_equiv_keys members members' : subs_equiv members members' -> map fst members = map fst members'.
Proof. induction 1 as [|x y r r' [E _] F IH]; cbn [map]; [reflexivity | now rewrite E, IH]. Qed.

Lemma c15_subs_equiv members members' tp : subs_equiv members members' ->
  leader_assign members tp = leader_assign members' tp /\
  generate_assignments members tp = generate_assignments members' tp.
Proof.
  intro H. assert (E : leader_assign members tp = leader_assign members' tp).
  { unfold leader_assign. apply round_robin_rel. now apply build_md_rel. }
  split; [exact E|]. unfold generate_assignments. now rewrite E, (subs_equiv_keys _ _ H).
Qed.

(* ---- (b) ---- *)
Lemma decode_members_encoded members raw : encoded_members members raw -> decode_members raw = Ok members.
Proof.
  induction 1 as [|[m s] [m' b] r r' [E1 (v & ud & E2)] F IH]; cbn [decode_members]; [reflexivity|].
  cbn [fst snd] in *. subst m'. pose proof (enc_dec_metadata v s ud b E2 []) as R. rewrite app_nil_r in R.
  rewrite R, IH. reflexivity.
Qed.

Lemma c15_bytes_to_assignment members raw tp : encoded_members members raw ->
  generate_assignments_raw raw tp = generate_assignments members tp.
Proof. intro H. unfold generate_assignments_raw. now rewrite (decode_members_encoded _ _ H). Qed.
