(* C13: whenever the consumer is not started nothing of its fetch side is left: no processor result awaited, no block in
   progress, no auto-commit timer (with ConsumerInv.j6: no request outstanding or parked, no retry timer).  Holds after
   every nested execution - in particular after a stop() made from inside the processor and everything that runs after
   it in the same event - and hence in every reachable state between two events. *)
From Coq Require Import Lia.
From AV Require Import Base.Util Model.Consumer Proofs.ConsumerBase Proofs.ConsumerFrame Proofs.ConsumerStop Proofs.ConsumerInv
  Proofs.ConsumerRun.
Open Scope Z_scope.

Definition Np (s : state) : Prop := s_startd s = None -> s_proc s = None /\ s_looper s <> Some true.
Definition Nm (s : state) : Prop := s_startd s = None -> s_mblock s = None.
Definition N (s : state) : Prop := Np s /\ Nm s.

(* what the methods that never recurse may do *)
Definition KP (s s' : state) : Prop :=
  (s_startd s' = None <-> s_startd s = None) /\ s_looper s' = s_looper s /\ s_mblock s' = s_mblock s /\
  (s_proc s' = s_proc s \/ s_proc s' = None).
Lemma KP_refl s : KP s s. Proof. unfold KP. tauto. Qed.
Lemma KP_trans a b c : KP a b -> KP b c -> KP a c.
Proof. unfold KP. intros (a1 & a2 & a3 & a4) (b1 & b2 & b3 & b4). repeat split; try tauto; try congruence. destruct a4, b4; [left|right|right|right]; congruence. Qed.

Ltac kp_explicit := solve [ unfold KP; psimpl; repeat split; auto; try (intros; congruence); try (intros; discriminate);
  repeat match goal with D : s_startd _ = _ |- _ => rewrite D in * end; try (intros; congruence); try (intros; discriminate) ].
Ltac kp_chain :=
  lazymatch goal with
  | |- KP ?s ?s' =>
    first [ match goal with
            | H : KP ?a ?b |- _ =>
              lazymatch s' with context [b] => idtac end;
              apply (KP_trans s b s'); [ apply (KP_trans s a b); [ clear H; kp_chain | exact H ] | kp_explicit ]
            end
          | kp_explicit ]
  end.
Ltac use L := repeat match goal with E : _ = (_, _, _) |- _ => apply L in E end.

Lemma startd_errback_kp fk s r s' o : startd_errback fk s = (r, s', o) -> KP s s'.
Proof. intro H. unfold startd_errback in H. mi H; kp_chain. Qed.
Lemma handle_auto_commit_error_kp fk s r s' o : handle_auto_commit_error fk s = (r, s', o) -> KP s s'.
Proof. intro H. unfold handle_auto_commit_error in H. mi H; use startd_errback_kp; kp_chain. Qed.
Lemma handle_processor_error_kp fk s r s' o : handle_processor_error fk s = (r, s', o) -> KP s s'.
Proof. intro H. unfold handle_processor_error in H. mi H; use startd_errback_kp; kp_chain. Qed.
Lemma send_commit_request_kp i a s r s' o : send_commit_request i a s = (r, s', o) -> KP s s'.
Proof. intro H. unfold send_commit_request in H. mi H; kp_chain. Qed.
Lemma commit_kp w s r s' o : commit w s = (r, s', o) -> KP s s'.
Proof. intro H. unfold commit in H. mi H; use send_commit_request_kp; kp_chain. Qed.
Lemma auto_commit_kp bc s r s' o : auto_commit bc s = (r, s', o) -> KP s s'.
Proof. intro H. unfold auto_commit in H. mi H; use commit_kp; use handle_auto_commit_error_kp; kp_chain. Qed.
Lemma proc_chain_kp last fk s r s' o : proc_chain last fk s = (r, s', o) -> KP s s' /\ s_proc s' = None.
Proof.
  intro H. unfold proc_chain in H. mi H; use auto_commit_kp; use handle_processor_error_kp.
  all: split; [kp_chain|].
  all: repeat match goal with K : KP ?a ?b |- _ => destruct K as (_ & _ & _ & [K|K]); psimpl end; congruence.
Qed.
Lemma pop_plan_kp s r s' o : pop_plan s = (r, s', o) -> KP s s'.
Proof. intro H. unfold pop_plan in H. mi H; kp_chain. Qed.
Lemma emit_shutd_kp x s r s' o : emit_shutd x s = (r, s', o) -> KP s s'.
Proof. intro H. unfold emit_shutd in H. mi H; kp_chain. Qed.
Lemma interrupted_kp s r s' o : interrupted s = (r, s', o) -> KP s s'.
Proof. intro H. unfold interrupted in H. mi H; use emit_shutd_kp; kp_chain. Qed.
Lemma api_commit_kp s r s' o : api_commit s = (r, s', o) -> KP s s'.
Proof. intro H. unfold api_commit in H. mi H; use commit_kp; kp_chain. Qed.
Lemma retry_fetch_kp z s r s' o : retry_fetch z s = (r, s', o) -> KP s s'.
Proof. intro H. unfold retry_fetch in H. mi H; kp_chain. Qed.
Lemma handle_fetch_error_kp fk s r s' o : handle_fetch_error fk s = (r, s', o) -> KP s s'.
Proof. intro H. unfold handle_fetch_error in H. mi H; use startd_errback_kp; use retry_fetch_kp; kp_chain. Qed.
Lemma handle_offset_error_kp fk s r s' o : handle_offset_error fk s = (r, s', o) -> KP s s'.
Proof. intro H. unfold handle_offset_error in H. mi H; use startd_errback_kp; use retry_fetch_kp; kp_chain. Qed.
Lemma do_fetch_kp s r s' o : do_fetch s = (r, s', o) -> KP s s'.
Proof. intro H. unfold do_fetch in H. mi H; use startd_errback_kp; kp_chain. Qed.
Lemma handle_offset_response_kp kd v s r s' o : handle_offset_response kd v s = (r, s', o) -> KP s s'.
Proof. intro H. unfold handle_offset_response in H. mi H; use do_fetch_kp; kp_chain. Qed.

(* ---------------- the re-entrant part ---------------- *)
Definition PreN (k : kont) (s : state) : Prop :=
  match k with
  | KProcLoop _ => Np s            (* a block is in progress: it is cleared on every way out *)
  | _ => N s
  end.

Ltac nsolve := first [ assumption | solve [
  bsimp; unfold is_some in *;
  repeat match goal with D : match s_startd ?x with Some _ => true | None => false end = true |- _ =>
           let b := fresh "b" in let Eb := fresh "Eb" in destruct (s_startd x) as [b|] eqn:Eb; [clear D | discriminate D] end;
  repeat match goal with K : KP _ _ |- _ => destruct K as (? & ? & ? & ?) end;
  repeat match goal with K : N _ |- _ => destruct K end;
  unfold N, Np, Nm in *; psimpl;
  intuition (try congruence; try discriminate) ] ].
Ltac nfwd := repeat match goal with
  | P : True -> _ |- _ => specialize (P Logic.I)
  | P : N ?a -> _ |- _ => let Q := fresh "Q" in assert (Q : N a) by nsolve; specialize (P Q); clear Q
  | P : Np ?a -> _ |- _ => let Q := fresh "Q" in assert (Q : Np a) by nsolve; specialize (P Q); clear Q
  end.

Section RecN.
Variable f : nat.
Hypothesis IH : forall k s r s' o, run f k s = (r, s', o) -> fuel_ok o = true -> PreN k s -> N s'.

Ltac use_ih := repeat match goal with
  | E : run f ?k ?s1 = (?r, ?s2, ?o1), Hf : fuel_ok ?o1 = true |- _ =>
    let P := fresh "P" in pose proof (IH _ _ _ _ _ E Hf) as P; cbn [PreN] in P; clear E
  end.
Ltac specs :=
  use startd_errback_kp; use handle_auto_commit_error_kp; use handle_processor_error_kp; use send_commit_request_kp;
  use commit_kp; use auto_commit_kp; use pop_plan_kp; use emit_shutd_kp; use interrupted_kp; use api_commit_kp;
  use retry_fetch_kp;
  repeat match goal with E : proc_chain _ _ _ = _ |- _ => apply proc_chain_kp in E; destruct E end.

Lemma api_stop_n s r s' o : api_stop (run f) s = (r, s', o) -> fuel_ok o = true -> N s -> N s'.
Proof. intros H Hf HN. unfold api_stop in H. mi H; fuel_split; use_ih; nfwd; nsolve. Qed.
Lemma api_shutdown_n s r s' o : api_shutdown (run f) s = (r, s', o) -> fuel_ok o = true -> N s -> N s'.
Proof. intros H Hf HN. unfold api_shutdown in H. mi H; split_state_if; fuel_split; use_ih; nfwd; nsolve. Qed.
Lemma handle_commit_error_n fk i a s r s' o :
  handle_commit_error (run f) fk i a s = (r, s', o) -> fuel_ok o = true -> N s -> N s'.
Proof. intros H Hf HN. unfold handle_commit_error in H. mi H; fuel_split; use_ih; nfwd; nsolve. Qed.
Lemma fire_all_n cr : forall ds s r s' o, fire_all (run f) ds cr s = (r, s', o) -> fuel_ok o = true -> N s -> N s'.
Proof.
  induction ds as [|d ds IHds]; intros s r s' o H Hf HN; cbn [fire_all] in H.
  - mi H. exact HN.
  - mi H; fuel_split; use_ih; nfwd.
    all: match goal with E : fire_all _ _ _ _ = _ |- _ => apply IHds in E; assumption end.
Qed.
Lemma finish_block_n s r s' o : finish_block (run f) s = (r, s', o) -> fuel_ok o = true -> Np s -> N s'.
Proof. intros H Hf HN. unfold finish_block in H. mi H; fuel_split; use_ih; nfwd; nsolve. Qed.

Ltac specs2 :=
  specs;
  repeat match goal with
  | E : api_stop _ _ = _, Hf : fuel_ok _ = true |- _ => let X := fresh "X" in pose proof (api_stop_n _ _ _ _ E Hf) as X; clear E
  | E : api_shutdown _ _ = _, Hf : fuel_ok _ = true |- _ => let X := fresh "X" in pose proof (api_shutdown_n _ _ _ _ E Hf) as X; clear E
  | E : handle_commit_error _ _ _ _ _ = _, Hf : fuel_ok _ = true |- _ => let X := fresh "X" in pose proof (handle_commit_error_n _ _ _ _ _ _ _ E Hf) as X; clear E
  | E : fire_all _ _ _ _ = _, Hf : fuel_ok _ = true |- _ => let X := fresh "X" in pose proof (fire_all_n _ _ _ _ _ _ E Hf) as X; clear E
  | E : finish_block _ _ = _, Hf : fuel_ok _ = true |- _ => let X := fresh "X" in pose proof (finish_block_n _ _ _ _ E Hf) as X; clear E
  end.
Ltac go H := cbn [body] in H; mi H; fuel_split; use_ih; specs2; nfwd; nsolve.

Lemma body_KStopCds_n s r s' o : body (run f) KStopCds s = (r, s', o) -> fuel_ok o = true -> N s -> N s'.
Proof. intros H Hf HN. go H. Qed.
Lemma body_KFireProc_n fk s r s' o : body (run f) (KFireProc fk) s = (r, s', o) -> fuel_ok o = true -> N s -> N s'.
Proof. intros H Hf HN. go H. Qed.
Lemma body_KCommitAndStop_n s r s' o : body (run f) KCommitAndStop s = (r, s', o) -> fuel_ok o = true -> N s -> N s'.
Proof. intros H Hf HN. go H. Qed.
Lemma body_KShutFinish_n fk s r s' o : body (run f) (KShutFinish fk) s = (r, s', o) -> fuel_ok o = true -> N s -> N s'.
Proof. intros H Hf HN. go H. Qed.
Lemma body_KFireCd_n d cr s r s' o : body (run f) (KFireCd d cr) s = (r, s', o) -> fuel_ok o = true -> N s -> N s'.
Proof. intros H Hf HN. go H. Qed.
Lemma body_KDeliver_n cr s r s' o : body (run f) (KDeliver cr) s = (r, s', o) -> fuel_ok o = true -> N s -> N s'.
Proof. intros H Hf HN. go H. Qed.
Lemma body_KProcLoop_n msgs s r s' o : body (run f) (KProcLoop msgs) s = (r, s', o) -> fuel_ok o = true -> Np s -> N s'.
Proof. intros H Hf HN. go H. Qed.
Lemma body_KFetchResp_n offs ts s r s' o : body (run f) (KFetchResp offs ts) s = (r, s', o) -> fuel_ok o = true -> N s -> N s'.
Proof. intros H Hf HN. go H. Qed.

(* stop() itself: what it clears stays cleared through everything that runs inside it *)
Lemma stop_looper_n s r s' o : stop_looper s = (r, s', o) -> s_looper s' <> Some true.
Proof. intro H. unfold stop_looper in H. mi H; psimpl; congruence. Qed.
Lemma stop_susp_looper s r s' o : stop_susp s = (r, s', o) -> s_looper s' = s_looper s.
Proof. intro H. unfold stop_susp in H. mi H; reflexivity. Qed.

Ltac fwn := repeat match goal with
  | E : run ?f ?k ?a = (?r, ?b, ?o1), Hf : fuel_ok ?o1 = true |- _ =>
    let S := fresh "S" in assert (S : s_stopping a = true) by (psimpl; congruence);
    let I3 := fresh "I3" in pose proof (run_stop _ _ _ _ _ _ E Hf) as I3; cbn beta iota in I3; specialize (I3 S);
    let A := fresh "A" in destruct I3 as (I3 & _ & A); cbn [achieves] in A; pose proof (i_stopping _ _ I3); clear E
  | E : stop_req ?a = (_, ?b, _) |- _ =>
    apply stop_req_in in E; [|psimpl; congruence]; destruct E as (E & _ & _); pose proof (i_stopping _ _ E)
  | E : stop_mblock ?a = (_, ?b, _) |- _ =>
    let Mb := fresh "Mb" in apply stop_mblock_in in E; destruct E as (E & _ & Mb); pose proof (i_stopping _ _ E)
  | E : stop_rcall ?a = (_, ?b, _) |- _ => apply stop_rcall_in in E; destruct E as (E & _ & _); pose proof (i_stopping _ _ E)
  | E : stop_ccall ?a = (_, ?b, _) |- _ => apply stop_ccall_in in E; destruct E as (E & _ & _); pose proof (i_stopping _ _ E)
  | E : stop_looper ?a = (_, ?b, _) |- _ =>
    let Lp := fresh "Lp" in pose proof (stop_looper_n _ _ _ _ E) as Lp;
    apply stop_looper_in in E; destruct E as (E & _ & _); pose proof (i_stopping _ _ E)
  | E : stop_susp ?a = (_, ?b, _) |- _ =>
    let Ls := fresh "Ls" in pose proof (stop_susp_looper _ _ _ _ E) as Ls;
    apply stop_susp_in in E; destruct E as (E & _ & _); pose proof (i_stopping _ _ E)
  end.

Lemma body_KStop_n s r s' o : body (run f) KStop s = (r, s', o) -> fuel_ok o = true -> N s -> N s'.
Proof.
  intros H Hf HN. cbn [body] in H. unfold stop_startd, stop_proc, stop_creq, handle_commit_error in H.
  change (is_cancel FK_CANCELLED) with true in H.
  mi H; fuel_split; fwn.
  all: try exact HN.
  (* stop() aborted half-way: still started *)
  all: try (solve [ match goal with |- N ?y =>
         lazymatch y with set_startd None _ => fail | _ => idtac end;
         let I := fresh "I" in assert (I : In3 (set_stopping true s) y) by in3_chain;
         let Hs := fresh "Hs" in pose proof (i_startd _ _ I) as Hs; psimpl; rewrite D in Hs;
         unfold N, Np, Nm; split; intro Hn; rewrite Hn in Hs; discriminate Hs end ]).
  (* stop() ran to its end *)
  all: match goal with |- N (set_startd None (set_stopping false ?x)) =>
         assert (Hm : s_mblock x = None)
           by (match goal with Mb : s_mblock ?b = None |- _ => apply (i_mblock b x); [in3_chain | exact Mb] end);
         assert (Hp : s_proc x = None)
           by (match goal with A : s_proc ?b = None |- _ => apply (i_proc b x); [in3_chain | exact A] end);
         assert (Hl : s_looper x <> Some true) by congruence;
         unfold N, Np, Nm; psimpl; auto
       end.
Qed.
End RecN.

Theorem run_n fuel k s r s' o : run fuel k s = (r, s', o) -> fuel_ok o = true -> PreN k s -> N s'.
Proof.
  intro H. refine (run_ind (fun _ _ => True) (fun k s _ s' o => fuel_ok o = true -> PreN k s -> N s') _ _ fuel k s r s' o I H); clear.
  - intros k s _ Hf. discriminate Hf.
  - intros f IH k s r s' o _ H Hf HP.
    assert (IH' : forall k s r s' o, run f k s = (r, s', o) -> fuel_ok o = true -> PreN k s -> N s') by (intros; eapply IH; eauto).
    destruct k; cbn [PreN] in HP.
    + exact (body_KStop_n f _ _ _ _ H Hf HP).
    + exact (body_KStopCds_n f IH' _ _ _ _ H Hf HP).
    + exact (body_KFireProc_n f IH' _ _ _ _ _ H Hf HP).
    + exact (body_KProcLoop_n f IH' _ _ _ _ _ H Hf HP).
    + exact (body_KFetchResp_n f IH' _ _ _ _ _ _ H Hf HP).
    + exact (body_KCommitAndStop_n f IH' _ _ _ _ H Hf HP).
    + exact (body_KShutFinish_n f IH' _ _ _ _ _ H Hf HP).
    + exact (body_KFireCd_n f IH' _ _ _ _ _ _ H Hf HP).
    + exact (body_KDeliver_n f IH' _ _ _ _ _ H Hf HP).
Qed.

(* ---------------- between two events ---------------- *)
Ltac top_ih := fuel_split; repeat match goal with
  | E : run _ ?k ?s1 = (?r, ?s2, ?o1), Hf : fuel_ok ?o1 = true |- _ =>
    let P := fresh "P" in pose proof (run_n _ _ _ _ _ _ E Hf) as P; cbn [PreN] in P; clear E
  end.
Ltac specs_top :=
  use startd_errback_kp; use handle_auto_commit_error_kp; use handle_processor_error_kp; use send_commit_request_kp;
  use commit_kp; use auto_commit_kp; use pop_plan_kp; use emit_shutd_kp; use interrupted_kp; use api_commit_kp;
  use retry_fetch_kp; use handle_fetch_error_kp; use handle_offset_error_kp; use do_fetch_kp; use handle_offset_response_kp.

Lemma handle_n fuel e s s' o : handle fuel e s = (Ok tt, s', o) -> fuel_ok o = true -> N s -> N s'.
Proof.
  intros H Hf HN. unfold handle in H. cbn zeta in H. destruct e.
  - unfold flush_pend in H. mi H; specs_top; nfwd; nsolve.
  - unfold api_stop in H. mi H; top_ih; nfwd; nsolve.
  - unfold api_shutdown in H. mi H; split_state_if; top_ih; nfwd; nsolve.
  - mi H; specs_top; nfwd; nsolve.
  - mi H; specs_top; nfwd; nsolve.
  - mi H; top_ih; specs_top; nfwd; nsolve.
  - mi H; specs_top; nfwd; nsolve.
  - mi H; nsolve.
  - mi H; top_ih; nfwd; nsolve.
  - mi H; top_ih; nfwd; nsolve.
  - unfold handle_commit_error in H. mi H; top_ih; nfwd; nsolve.
  - mi H; specs_top; nfwd; nsolve.
  - mi H; specs_top; nfwd; nsolve.
  - mi H; specs_top; nfwd; nsolve.
Qed.

(* ---------------- over whole runs ---------------- *)
Definition not_started_idle (s : state) : bool :=
  implb (is_none (s_startd s))
        (is_none (s_req s) && is_none (s_proc s) && is_none (s_mblock s) && negb (rcall_active s) && negb (looper_armed s)).

Lemma N_init c n0 buf : N (init c n0 buf).
Proof. split; intros _; cbn; [split; [reflexivity | discriminate] | reflexivity]. Qed.

Lemma n_step fuel s e s' o : N s -> step fuel s e = (s', o) -> fuel_ok o = true -> N s'.
Proof.
  intros HN H Hf. apply step_inv in H. destruct H as (o1 & H & ->). apply fuel_ok_app_inv in Hf. destruct Hf as (Hf & _).
  exact (handle_n _ _ _ _ _ H Hf HN).
Qed.

Lemma idle_of n0 s : Reach n0 s -> N s -> not_started_idle s = true.
Proof.
  intros ((HJ & _) & _) (Hp & Hm). unfold not_started_idle, is_none, looper_armed.
  destruct (s_startd s) eqn:Esd; [reflexivity|]. cbn [implb].
  destruct (j6 _ _ HJ Esd) as (Hreq & Hra). destruct (Hp Esd) as (Hpr & Hl). rewrite Hreq, Hpr, (Hm Esd), Hra.
  destruct (s_looper s) as [[|]|]; try reflexivity. exfalso. apply Hl. reflexivity.
Qed.

Theorem not_started_run n0 fuel : forall evs s, Reach n0 s -> N s -> all_fuel_ok (run_steps fuel s evs) = true ->
  forallb (fun t => not_started_idle (t_post t)) (run_steps fuel s evs) = true.
Proof.
  induction evs as [|e evs IH]; intros s HR HN Hf; cbn [run_steps] in *; [reflexivity|].
  destruct (step fuel s e) as [s1 o] eqn:E. cbn [all_fuel_ok forallb t_out] in Hf. apply andb_prop in Hf. destruct Hf as (Hf1 & Hf2).
  pose proof (reach_step _ _ _ _ _ _ HR E Hf1) as HR1. pose proof (n_step _ _ _ _ _ HN E Hf1) as HN1.
  cbn [forallb t_post]. rewrite (idle_of _ _ HR1 HN1). cbn [andb]. apply IH; assumption.
Qed.
