(* Translator tie of C04, value-returning part: the committed terms for create_message, create_gzip_message,
   create_snappy_message and create_message_set (Model/EncAst.v) compute the frozen models of Model/MsgSet.v. *)
From Coq Require Import String Lia.
From AV Require Import Base.Util Model.Prim Model.Crc Model.MsgSet Model.Requests Model.EncDSL Model.EncDSLV Model.EncAst
     Proofs.EncDSLSound.
Open Scope string_scope.
Open Scope list_scope.

Ltac vsimp := cbn [vrun veval eval eval_cond nth_error app bind fst snd message_rec as_str as_ts].

(* ------------------------------------------------------------------ create_message *)
Theorem create_message_sound orc clock k payload key magic :
  vrun ast_create_message [VStr payload; VStr key; VInt magic] orc clock k
  = Ok (msg_val (create_message (clock k) payload key magic), if (magic =? 1)%Z then S k else k).
Proof.
  unfold ast_create_message, create_message. vsimp. destruct (magic =? 1)%Z eqn:M; vsimp.
  - apply Z.eqb_eq in M. subst magic. reflexivity.
  - reflexivity.
Qed.

(* ------------------------------------------------------------------ create_gzip_message / create_snappy_message *)
Lemma wrapper_sound kind orc clock k msgs magic :
  (kind = 1 \/ kind = 2)%Z ->
  vrun (VLetMsgSet (EVar 0)
         (VLetCodec kind (EVar 2)
           (VCond (CEq (EVar 1) 1)
             (VLetNow (VRet (XMessage (EVar 1) (EConst kind) ENone (EVar 3) (EVar 4))))
             (VRet (XMessage (EVar 1) (EConst kind) ENone (EVar 3) ENone)))))
       [VList (map msg_val msgs); VInt magic] orc clock k
  = do w <- create_compressed_message (codec_call orc kind) kind clock k msgs magic;
    Ok (msg_val w, (k + clock_uses msgs + (if (magic =? 1)%Z then 1 else 0))%nat).
Proof.
  intros K. unfold create_compressed_message. vsimp. rewrite msgs_of_msg_vals.
  destruct (encode_message_set clock k msgs None 0) as [e|]; cbn [bind]; [|reflexivity]. vsimp.
  destruct (codec_call orc kind e) as [z|]; cbn [bind]; [|reflexivity]. vsimp.
  destruct (magic =? 1)%Z eqn:M; vsimp.
  - rewrite Nat.add_1_r. reflexivity.
  - rewrite Nat.add_0_r. reflexivity.
Qed.

Theorem create_gzip_message_sound orc clock k msgs magic :
  vrun ast_create_gzip_message [VList (map msg_val msgs); VInt magic] orc clock k
  = do w <- create_gzip_message orc clock k msgs magic;
    Ok (msg_val w, (k + clock_uses msgs + (if (magic =? 1)%Z then 1 else 0))%nat).
Proof. unfold ast_create_gzip_message. rewrite (wrapper_sound 1) by auto. reflexivity. Qed.

Theorem create_snappy_message_sound orc clock k msgs magic :
  vrun ast_create_snappy_message [VList (map msg_val msgs); VInt magic] orc clock k
  = do w <- create_snappy_message orc clock k msgs magic;
    Ok (msg_val w, (k + clock_uses msgs + (if (magic =? 1)%Z then 1 else 0))%nat).
Proof. unfold ast_create_snappy_message. rewrite (wrapper_sound 2) by auto. reflexivity. Qed.

(* ------------------------------------------------------------------ create_message_set *)
Definition req_val (r : send_request) : val := VRec [("key", VStr (fst r)); ("messages", VList (map VStr (snd r)))].

(* the messages create_messages makes from position j on *)
Definition created_from (clock : nat -> Z) (mg : Z) (j : nat) (flat : list (option (list Z) * option (list Z))) : list message :=
  map (fun ikp => create_message (clock (fst ikp)) (snd (snd ikp)) (fst (snd ikp)) mg)
      (combine (seq j (length flat)) flat).

Lemma created_from_app clock mg j a b :
  created_from clock mg j (a ++ b) = created_from clock mg j a ++ created_from clock mg (j + length a) b.
Proof.
  unfold created_from. revert j. induction a as [|x r IH]; intros j; cbn [app length seq combine map].
  - now rewrite Nat.add_0_r.
  - rewrite IH. replace (S j + length r)%nat with (j + S (length r))%nat by lia. reflexivity.
Qed.

Lemma created_from_indep clock mg j j' flat : (mg =? 1)%Z = false ->
  created_from clock mg j flat = created_from clock mg j' flat.
Proof.
  intros M. unfold created_from. revert j j'. induction flat as [|x r IH]; intros j j'; cbn [length seq combine map]; [reflexivity|].
  rewrite (IH (S j) (S j')). unfold create_message. cbn [fst snd]. rewrite M. reflexivity.
Qed.

Lemma created_from_cons clock mg j x r :
  created_from clock mg j (x :: r) = create_message (clock j) (snd x) (fst x) mg :: created_from clock mg (S j) r.
Proof. reflexivity. Qed.

Section Build.
  Variables (clock : nat -> Z) (reqsv codecv magicv : val).

  (* one comprehension: (a suffix of) the payloads of one request *)
  Lemma comp_sound key mg allps : forall ps k,
    comp_create [reqsv; codecv; magicv; VRec [("key", VStr key); ("messages", allps)]]
                (EVar 4) (EField (EVar 3) "key") (EConst mg) clock (map VStr ps) k
    = Ok (map msg_val (created_from clock mg k (map (fun p => (key, p)) ps)),
          if (mg =? 1)%Z then (k + length ps)%nat else k).
  Proof.
    induction ps as [|p r IH]; intros k; cbn [map comp_create length].
    - unfold created_from. cbn. destruct (mg =? 1)%Z; [now rewrite Nat.add_0_r|reflexivity].
    - cbn [app eval nth_error vfield assoc String.eqb Ascii.eqb Bool.eqb as_str].
      rewrite IH. cbn [bind fst snd]. rewrite created_from_cons. cbn [fst snd map].
      destruct (mg =? 1)%Z eqn:M.
      + replace (S k + length r)%nat with (k + S (length r))%nat by lia. reflexivity.
      + rewrite (created_from_indep clock mg (S k) k _ M). reflexivity.
  Qed.
End Build.

Definition build_items : list bitem :=
  [BCond (CEq (EVar 2) 1)
     [BExtendCreate (EField (EVar 3) "messages") (EVar 4) (EField (EVar 3) "key") (EConst 1)]
     [BExtendCreate (EField (EVar 3) "messages") (EVar 4) (EField (EVar 3) "key") (EConst 0)]].

Definition inner_magic (magic : Z) : Z := if (magic =? 1)%Z then 1 else 0.

Lemma inner_magic_eqb magic : (inner_magic magic =? 1)%Z = (magic =? 1)%Z.
Proof. unfold inner_magic. destruct (magic =? 1)%Z; reflexivity. Qed.

Lemma build_one clock reqsv codecv magic r k :
  brun build_items ([reqsv; codecv; VInt magic] ++ [req_val r]) clock k
  = Ok (map msg_val (created_from clock (inner_magic magic) k (map (fun p => (fst r, p)) (snd r))),
        if (magic =? 1)%Z then (k + length (snd r))%nat else k).
Proof.
  unfold build_items, req_val, inner_magic. cbn [brun app]. rewrite brun_item_cond. cbn [eval_cond eval nth_error].
  destruct (magic =? 1)%Z; cbn [brun brun_item eval nth_error vfield assoc String.eqb Ascii.eqb Bool.eqb];
    rewrite comp_sound; cbn [bind fst snd Z.eqb Pos.eqb]; rewrite !app_nil_r; reflexivity.
Qed.

Lemma build_loop clock reqsv codecv magic : forall reqs k,
  bloop build_items [reqsv; codecv; VInt magic] clock (map req_val reqs) k
  = Ok (map msg_val (created_from clock (inner_magic magic) k (flatten_requests reqs)),
        if (magic =? 1)%Z then (k + length (flatten_requests reqs))%nat else k).
Proof.
  induction reqs as [|r rs IH]; intros k; cbn [map bloop].
  - unfold flatten_requests, created_from. cbn. destruct (magic =? 1)%Z; [now rewrite Nat.add_0_r|reflexivity].
  - rewrite build_one. cbn [bind fst snd]. rewrite IH. cbn [bind fst snd].
    unfold flatten_requests. cbn [flat_map]. fold (flatten_requests rs).
    rewrite created_from_app, map_app, map_length, app_length, map_length.
    destruct (magic =? 1)%Z eqn:M.
    + rewrite Nat.add_assoc. reflexivity.
    + rewrite (created_from_indep clock (inner_magic magic) (k + length (snd r)) k); [reflexivity|].
      now rewrite inner_magic_eqb.
Qed.

Lemma create_messages_created clock reqs magic :
  create_messages clock reqs magic = created_from clock (inner_magic magic) O (flatten_requests reqs).
Proof. reflexivity. Qed.

Lemma created_from_length clock mg j flat : length (created_from clock mg j flat) = length flat.
Proof. unfold created_from. rewrite map_length, combine_length, seq_length. lia. Qed.

Lemma created_no_clock clock mg j flat : clock_uses (created_from clock mg j flat) = O.
Proof.
  unfold created_from. generalize (seq j (length flat)). intros s. revert s.
  induction flat as [|x r IH]; intros [|i s]; try reflexivity. cbn [combine map]. unfold clock_uses in *. cbn [filter].
  unfold create_message at 1, uses_clock at 1. destruct (mg =? 1)%Z eqn:M; cbn [m_magic m_ts].
  - rewrite andb_false_r. apply IH.
  - rewrite M. apply IH.
Qed.

Lemma msgs_of_msg_vals' ms : msgs_of_vals (map msg_val ms) = Some ms.
Proof. exact (msgs_of_msg_vals ms). Qed.

Theorem create_message_set_sound orc clock reqs codec magic :
  match create_message_set orc clock reqs codec magic with
  | Ok ms => exists kf, vrun ast_create_message_set [VList (map req_val reqs); VInt codec; VInt magic] orc clock O
                        = Ok (VList (map msg_val ms), kf)
  | Err e => vrun ast_create_message_set [VList (map req_val reqs); VInt codec; VInt magic] orc clock O = Err e
  end.
Proof.
  unfold ast_create_message_set, create_message_set. fold build_items. rewrite create_messages_created.
  cbn [vrun eval nth_error]. rewrite build_loop. cbn [bind fst snd app eval_cond eval nth_error].
  rewrite created_from_length. unfold CODEC_NONE, CODEC_GZIP, CODEC_SNAPPY.
  set (msglist := created_from clock (inner_magic magic) O (flatten_requests reqs)).
  set (k := if (magic =? 1)%Z then (0 + length (flatten_requests reqs))%nat else O).
  replace (if (magic =? 1)%Z then length (flatten_requests reqs) else O) with k by (subst k; destruct (magic =? 1)%Z; reflexivity).
  destruct (codec =? 0)%Z; [eexists; reflexivity|]. cbn [vrun eval_cond eval nth_error].
  destruct (codec =? 1)%Z.
  - cbn [vrun eval nth_error]. rewrite msgs_of_msg_vals'. cbn [Z.eqb Pos.eqb].
    destruct (create_gzip_message orc clock k msglist magic) as [w|]; cbn [bind]; [|reflexivity].
    eexists. cbn [vrun veval eval nth_error app]. reflexivity.
  - cbn [vrun eval_cond eval nth_error]. destruct (codec =? 2)%Z; [|reflexivity].
    cbn [vrun eval nth_error]. rewrite msgs_of_msg_vals'. cbn [Z.eqb Pos.eqb].
    destruct (create_snappy_message orc clock k msglist magic) as [w|]; cbn [bind]; [|reflexivity].
    eexists. cbn [vrun veval eval nth_error app]. reflexivity.
Qed.
