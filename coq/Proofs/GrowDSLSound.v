(* Soundness of the committed terms of the consumer-arithmetic tie (Model/GrowAst.v):
     * the growth tree computes Model.FetchGrow.grow (= Model.Consumer.grow_buffer, Props/C12bridge.v) for every buffer
       size and every max_buffer_size (None or a number);
     * the delay update is d -> min(d * F, max) with the F written in the source, and 1 < F;
     * the reset sites are the three known ones. *)
From Coq Require Import Lia String QArith Qminmax.
From AV Require Import Base.Util Model.FetchGrow Model.GrowDSL Model.GrowAst.
Local Open Scope Z_scope.

Definition grow_result (r : option Z) : gres := match r with Some b => RGrow b | None => RFail end.

Theorem growth_sound buf mx : grun_tree ast_growth buf mx = grow_result (grow buf mx).
Proof.
  unfold ast_growth, grow. cbn [grun_tree geval Z.eqb].
  replace (0 <? -1048576 + 1 * buf) with (negb (buf <=? 1048576))
    by (destruct (Z.leb_spec buf 1048576), (Z.ltb_spec 0 (-1048576 + 1 * buf)); try reflexivity; lia).
  destruct (buf <=? 1048576); cbn [negb]; destruct mx as [m|]; cbn [grow_result];
    try (f_equal; lia).
  all: replace (0 <? 0 + -1 * buf + 1 * m) with (buf <? m)
         by (destruct (Z.ltb_spec buf m), (Z.ltb_spec 0 (0 + -1 * buf + 1 * m)); try reflexivity; lia).
  all: destruct (buf <? m); cbn [grow_result]; [|reflexivity].
  all: f_equal; rewrite Z.min_comm; f_equal; lia.
Qed.

(* REQUEST_RETRY_FACTOR as written in the source: 1.20205 *)
Definition source_factor : Q := 24041 # 20000.

Theorem delay_sound (d m : Q) :
  (drun ast_delay d m == Qmin (d * source_factor) m)%Q /\ (1 < source_factor)%Q.
Proof.
  split; [|reflexivity].
  unfold ast_delay, source_factor. cbn [drun deval].
  assert (A : ((24041 # 20000) * d + (0 # 1) * m == d * (24041 # 20000))%Q) by ring.
  assert (B : ((0 # 1) * d + (1 # 1) * m == m)%Q) by ring.
  rewrite A, B. apply Q.min_comm.
Qed.

Theorem resets_sound :
  ast_resets = [("__init__", RFloatInitArg); ("_handle_fetch_response", RInitDelay); ("_handle_offset_response", RInitDelay)]%string.
Proof. reflexivity. Qed.
