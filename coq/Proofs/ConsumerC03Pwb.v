(* The monitor PWB of Model/ConsumerLogC03.v (PW plus the failure discipline: after a processor invocation FAILED - it
   raised, its Deferred failed or was cancelled - no block is handed to the processor until the next accepted start())
   never rejects a run of the consumer model.  Adapted from Proofs/ConsumerC02Pw.v (monitor PW): the ghost state is
   [pwb_abs (w, b)] of the model state, where w is the call window as there and b the monitor's failure bit, and the
   invariant adds  b = true -> dead s  (stopping, stopped, or the start Deferred has fired). *)
From Coq Require Import Lia.
From AV Require Import Base.Util Model.Consumer Model.ConsumerLog Model.ConsumerLogFifo Model.ConsumerLogC03 Proofs.ConsumerC02Wp.

Notation ww := (wp pwb_out).
Definition wpar := (option (Z * Z) * bool)%type.
Definition pwb_abs (w : wpar) (s : state) : gpwb := mkPB (pw_abs (fst w) s) (snd w).

(* a: the state is known to be dead (stopping / stopped / start Deferred fired); b: moreover no processor result is
   awaited ("drained").  Both persist through every method.  w: the window (inside it no processor result is awaited
   and, while alive, a block is in progress).  Invariants 13 and 6 of the model: while alive a pending
   processor result implies a block in progress; a stopped consumer awaits no processor result. *)
Definition pw_neutral (o : output) : bool := match o with OStartD _ _ | OShutD _ _ _ => true | _ => false end.
Definition inv13b (s : state) : bool := dead s || implb (is_some (s_proc s)) (is_some (s_mblock s)).
Definition inv6b (s : state) : bool := implb (negb (is_some (s_startd s))) (negb (is_some (s_proc s))).
Definition PInv (d : bool * bool) (w : wpar) (s : state) : Prop :=
  (0 <=? c_acn (s_cf s)) && inv13b s && inv6b s && forallb pw_neutral (s_pend s)
  && implb (fst d) (dead s) && implb (snd d) (negb (is_some (s_proc s))) && implb (snd d) (fst d)
  && implb (is_some (fst w)) (negb (is_some (s_proc s)) && (dead s || is_some (s_mblock s)))
  && implb (snd w) (dead s) = true.
Definition PInvF (d : bool * bool) (b : bool) (s : state) : Prop :=      (* the part of PInv that does not speak of the processor *)
  (0 <=? c_acn (s_cf s)) && forallb pw_neutral (s_pend s) && implb (fst d) (dead s) && implb b (dead s) = true.
Lemma PInvF_of d w s : PInv d w s -> PInvF d (snd w) s.
Proof.
  unfold PInv, PInvF. intro K. repeat (apply andb_prop in K; destruct K as [K ?]).
  repeat (apply andb_true_intro; split); auto.
Qed.
Definition PQ (d : bool * bool) (w : wpar) {A} : res A -> gpwb -> state -> Prop :=
  fun _ g s => g = pwb_abs w s /\ PInv d w s.

(* the frame most methods have: processor, block, plan and stopping flag untouched *)
Definition Fp (s s' : state) : Prop :=
  s_proc s' = s_proc s /\ s_mblock s' = s_mblock s /\ s_plan s' = s_plan s /\ s_stopping s' = s_stopping s.
Definition PF (d : bool * bool) (w : wpar) (s : state) {A} : res A -> gpwb -> state -> Prop :=
  fun _ g' s' => (g' = pwb_abs w s' /\ PInv d w s') /\ Fp s s' /\ s_lp s' = s_lp s.

Lemma oz_eqb_refl x : oz_eqb x x = true.
Proof. destruct x; cbn; [apply Z.eqb_refl | reflexivity]. Qed.

Ltac rw_eqs := repeat match goal with H : ?x = _ |- context [?x] => progress (rewrite H) end.
Ltac rw_hyps :=
  repeat match goal with
  | p : (_ * _)%type |- _ => destruct p
  end;
  repeat match goal with
  | H : ?x = _ |- _ =>
    lazymatch x with
    | s_req _ => idtac | s_rcall _ => idtac | s_creq _ => idtac | s_ccall _ => idtac | s_startd _ => idtac
    | s_mblock _ => idtac | s_proc _ => idtac | s_looper _ => idtac | s_cds _ => idtac | s_plan _ => idtac
    | s_stopping _ => idtac | s_lp _ => idtac | s_cf _ => idtac
    end; progress (rewrite H in * )
  end.
Ltac bool_hyps :=
  repeat match goal with
  | H : _ && _ = true |- _ => apply andb_prop in H; destruct H
  | H : negb _ = true |- _ => apply negb_true_iff in H
  | H : negb _ = false |- _ => apply negb_false_iff in H
  | H : _ || _ = false |- _ => apply orb_false_elim in H; destruct H
  | H : true = false |- _ => discriminate H
  | H : false = true |- _ => discriminate H
  end.
Ltac bcomp := rewrite ?forallb_app in *; cbn [negb andb orb implb is_some w_st w_plan w_lp b_pw b_bad forallb pw_neutral] in *.
Ltac case1 :=
  match goal with
  | |- context [match s_proc ?s with _ => _ end] => destruct (s_proc s) as [[[? ?] ?]|] eqn:?
  | |- context [match s_startd ?s with _ => _ end] => destruct (s_startd s) as [[]|] eqn:?
  | |- context [match s_mblock ?s with _ => _ end] => destruct (s_mblock s) as [[[? ?]|]|] eqn:?
  | H : context [match s_proc ?s with _ => _ end] |- _ => destruct (s_proc s) as [[[? ?] ?]|] eqn:?
  | H : context [match s_startd ?s with _ => _ end] |- _ => destruct (s_startd s) as [[]|] eqn:?
  | H : context [match s_mblock ?s with _ => _ end] |- _ => destruct (s_mblock s) as [[[? ?]|]|] eqn:?
  | |- context [is_some (s_proc ?s)] => destruct (s_proc s) as [[[? ?] ?]|] eqn:?
  | H : context [is_some (s_proc ?s)] |- _ => destruct (s_proc s) as [[[? ?] ?]|] eqn:?
  | |- s_proc ?s = None => destruct (s_proc s) as [[[? ?] ?]|] eqn:?
  | |- context [is_some (s_mblock ?s)] => destruct (s_mblock s) as [[[? ?]|]|] eqn:?
  | H : context [is_some (s_mblock ?s)] |- _ => destruct (s_mblock s) as [[[? ?]|]|] eqn:?
  | H : context [s_stopping ?s] |- _ => destruct (s_stopping s) eqn:?
  | |- context [s_stopping ?s] => destruct (s_stopping s) eqn:?
  end.
Ltac unf := unfold PQ, PF, Fp, PInv, PInvF, inv13b, inv6b, pwb_abs, pw_abs, dead, startd_unfired in *.
Ltac pfin :=
  psimpl; bcomp; bool_hyps; rw_eqs; bcomp;
  first [ reflexivity | assumption | congruence | discriminate ].
Ltac psearch n :=
  first [ solve [pfin]
        | lazymatch n with O => fail | S ?m => case1; psearch m end ].
Ltac dw :=
  repeat match goal with
  | d : (bool * bool)%type |- _ => destruct d as [[] []]; cbn [fst snd] in *
  | d : bool |- _ => lazymatch goal with H : context [implb d _] |- _ => destruct d end
  | w : wpar |- _ => destruct w as [? ?]; cbn [fst snd] in *
  | w : option (Z * Z) |- _ => lazymatch goal with H : context [is_some w] |- _ => destruct w as [[? ?]|] end
  end.
Ltac pquick :=
  first [ reflexivity | assumption | congruence
        | solve [ unfold PInv, inv13b, inv6b, dead, startd_unfired in *; psimpl; first [ assumption | congruence ] ]
        | solve [ unfold pwb_abs, pw_abs; psimpl; f_equal; first [ reflexivity | congruence ] ]
        | solve [ unfold pwb_abs, pw_abs; psimpl; rw_hyps; reflexivity ] ].
Lemma dcons d w s : PInv d w s -> implb (snd d) (fst d) = true.
Proof. unfold PInv. intro H. repeat (apply andb_prop in H; destruct H as [H ?]). assumption. Qed.
(* only the most recent invariant hypothesis (about the current state) matters (and the consistency of the mode) *)
Ltac keep_last :=
  try match goal with
  | K : PInv _ _ ?s |- _ =>
    repeat match goal with
    | K' : PInv _ _ ?s2 |- _ => tryif constr_eq s s2 then fail else (apply dcons in K')
    end
  end.
Ltac pheavy :=
  keep_last; unf; psimpl; dw; rw_hyps; rw_eqs; cbn beta iota in *; bcomp;
  try reflexivity; try assumption; try (f_equal; try reflexivity);
  psearch 5%nat.
Ltac psolve := unfold PQ, PF, Fp in *; repeat split; first [ solve [pquick] | pheavy ].

(* a state that is dead by hypothesis but alive by the branch taken: prune *)
Ltac prune :=
  match goal with
  | K : PInv (true, _) _ ?s, D : s_startd ?s = Some false, D' : s_stopping ?s = false |- _ =>
    solve [ exfalso; unf; rewrite D, D' in K; cbn in K; rewrite ?andb_false_r in K; cbn in K; discriminate ]
  end.

Ltac p_emit :=
  lazymatch goal with
  | |- wp _ (emit _) _ _ _ =>
    apply wp_emit; eexists; split;
    [ unfold pwb_abs, pw_abs; psimpl; cbn [pwb_out pw_out bad_after b_pw b_bad w_st w_plan w_lp]; rw_eqs; cbn beta iota; rewrite ?oz_eqb_refl;
      cbn [pwb_out pw_out bad_after b_pw b_bad w_st w_plan w_lp]; try reflexivity
    | cbn beta iota ]
  end.

Lemma p_eq {A} (m : M A) Q w g s : g = pwb_abs w s -> ww m Q (pwb_abs w s) s -> ww m Q g s.
Proof. intros ->. auto. Qed.

Ltac destr_post H :=
  lazymatch type of H with
  | _ /\ _ => let H1 := fresh "P" in let H2 := fresh "P" in destruct H as [H1 H2]; destr_post H1; destr_post H2
  | ?g = pwb_abs _ _ => subst g
  | _ => idtac
  end.
Ltac cur_w :=
  match goal with
  | K : PInv _ ?w0 _ |- _ => w0
  | K : PInvF _ ?b0 _ |- _ => constr:((@None (Z * Z), b0))
  end.
Ltac after_call :=
  let r := fresh "r" in let H := fresh "P" in
  intros r ? ? H; unfold PQ, PF, Fp in H; destr_post H; destruct r; cbn beta iota.
Ltac p_docall lem :=
  let w0 := cur_w in
  eapply p_eq with (w := w0); [ solve [psolve] |
    eapply wp_call; [ eapply lem;
                      try (match goal with K : PInv ?d0 _ _ |- PInv ?e _ _ => is_evar e; unify e d0 end);
                      try solve [psolve]
                    | after_call ] ].
Ltac p_docall_d lem dd :=
  let w0 := cur_w in
  eapply p_eq with (w := w0); [ solve [psolve] |
    eapply wp_call; [ eapply lem with (d := dd); try solve [psolve] | after_call ] ].
Ltac p_stif :=
  lazymatch goal with
  | |- wp _ _ _ _ ?st => match st with context [if ?b then _ else _] => let D := fresh "D" in destruct b eqn:D end
  end.
Ltac p_walk call := repeat (first [ prune | p_stif | p_emit | wp_step call ]).
Ltac p_done := try solve [psolve].

(* ---------- methods without re-entrancy ---------- *)
Lemma p_startd_errback fk d w s : PInv d w s ->
  ww (startd_errback fk) (fun r g' s' => (g' = pwb_abs w s' /\ PInv d w s') /\ Fp s s' /\ s_lp s' = s_lp s) (pwb_abs w s) s.
Proof. intro K. unfold startd_errback, Fp. p_walk idtac. all: p_done. Qed.
Ltac c1 := idtac; lazymatch goal with
  | |- wp _ (startd_errback _) _ _ _ => p_docall p_startd_errback end.
Lemma p_do_fetch d w s : PInv d w s -> ww do_fetch (PF d w s) (pwb_abs w s) s.
Proof. intro K. unfold do_fetch, PF, Fp. p_walk c1. all: p_done. Qed.
Lemma p_retry_fetch z d w s : PInv d w s -> ww (retry_fetch z) (PF d w s) (pwb_abs w s) s.
Proof. intro K. unfold retry_fetch, PF, Fp. p_walk c1. all: p_done. Qed.
Ltac c3 := idtac; first [ c1 | lazymatch goal with
  | |- wp _ do_fetch _ _ _ => p_docall p_do_fetch
  | |- wp _ (retry_fetch _) _ _ _ => p_docall p_retry_fetch end ].
Lemma p_handle_offset_error fk d w s : PInv d w s -> ww (handle_offset_error fk) (PF d w s) (pwb_abs w s) s.
Proof. intro K. unfold handle_offset_error, PF, Fp. p_walk c3. all: p_done. Qed.
Lemma p_handle_fetch_error fk d w s : PInv d w s -> ww (handle_fetch_error fk) (PF d w s) (pwb_abs w s) s.
Proof. intro K. unfold handle_fetch_error, PF, Fp. p_walk c3. all: p_done. Qed.
Lemma p_handle_auto_commit_error fk d w s : PInv d w s -> ww (handle_auto_commit_error fk) (PF d w s) (pwb_abs w s) s.
Proof. intro K. unfold handle_auto_commit_error, PF, Fp. p_walk c3. all: p_done. Qed.
Lemma p_handle_processor_error fk d w s : PInv d w s -> ww (handle_processor_error fk) (PF d w s) (pwb_abs w s) s.
Proof. intro K. unfold handle_processor_error, PF, Fp. p_walk c3. all: p_done. Qed.
Lemma p_send_commit_request i a d w s : PInv d w s -> ww (send_commit_request i a) (PF d w s) (pwb_abs w s) s.
Proof. intro K. unfold send_commit_request, PF, Fp. p_walk c3. all: p_done. Qed.
Ltac c4 := idtac; first [ c3 | lazymatch goal with
  | |- wp _ (handle_offset_error _) _ _ _ => p_docall p_handle_offset_error
  | |- wp _ (handle_fetch_error _) _ _ _ => p_docall p_handle_fetch_error
  | |- wp _ (handle_auto_commit_error _) _ _ _ => p_docall p_handle_auto_commit_error
  | |- wp _ (handle_processor_error _) _ _ _ => p_docall p_handle_processor_error
  | |- wp _ (send_commit_request _ _) _ _ _ => p_docall p_send_commit_request end ].
Lemma p_commit x d w s : PInv d w s -> ww (commit x) (PF d w s) (pwb_abs w s) s.
Proof. intro K. unfold commit, PF, Fp. p_walk c4. all: p_done. Qed.
Ltac c5 := idtac; first [ c4 | lazymatch goal with
  | |- wp _ (commit _) _ _ _ => p_docall p_commit end ].
Lemma p_auto_commit bc d w s : PInv d w s -> ww (auto_commit bc) (PF d w s) (pwb_abs w s) s.
Proof. intro K. unfold auto_commit, PF, Fp. p_walk c5. all: p_done. Qed.
Ltac c6 := idtac; first [ c5 | lazymatch goal with
  | |- wp _ (auto_commit _) _ _ _ => p_docall p_auto_commit end ].

(* the callbacks on the processor's Deferred: entered with the monitor already told the outcome (ORet of the call /
   EProcFire / OCancelProc), the model still holding the Deferred (or not yet: synchronous result) *)
Definition fired (s : state) (last : Z) (fk : option Z) (b : bool) : gpwb :=
  mkPB (mkPW PIdle (s_plan s) (match fk with None => Some last | Some _ => s_lp s end)) (b || is_some fk).
(* the failure handler, entered with the monitor already told of the failure: afterwards the consumer is dead *)
Lemma p_handle_processor_error_bad fk d w s : PInv d (w, false) s ->
  ww (handle_processor_error fk) (PF d (w, true) s) (pwb_abs (w, true) s) s.
Proof. intro K. unfold handle_processor_error, startd_errback, PF, Fp. p_walk idtac. all: p_done. Qed.
Lemma p_proc_chain last fk d b s : PInvF d (match fk with None => b | Some _ => false end) s ->
  ww (proc_chain last fk)
     (fun r g' s' => (g' = pwb_abs (None, b || is_some fk) s' /\ PInv (fst d, fst d) (None, b || is_some fk) s') /\ s_proc s' = None /\ s_mblock s' = s_mblock s
                     /\ s_plan s' = s_plan s /\ s_stopping s' = s_stopping s)
     (fired s last fk b) s.
Proof.
  intro K. unfold proc_chain, fired.
  destruct fk as [k|]; cbn [is_some]; rewrite ?orb_true_r, ?orb_false_r.
  - p_walk ltac:(idtac; lazymatch goal with
    | |- wp _ (handle_processor_error _) _ _ _ =>
      eapply p_eq with (w := (@None (Z * Z), true)); [ solve [psolve] |
        eapply wp_call; [ eapply p_handle_processor_error_bad with (d := (fst d, false)); solve [psolve] | after_call ] ] end).
    all: p_done.
  - p_walk ltac:(idtac; lazymatch goal with
    | |- wp _ (handle_processor_error _) _ _ _ => p_docall_d p_handle_processor_error (fst d, false)
    | |- wp _ (auto_commit _) _ _ _ => p_docall_d p_auto_commit (fst d, false) end). all: p_done.
Qed.
Lemma p_emit_shutd ok v lc d w s : PInv d w s -> ww (emit_shutd (OShutD ok v lc)) (PF d w s) (pwb_abs w s) s.
Proof. intro K. unfold emit_shutd, PF, Fp. p_walk c6. all: p_done. Qed.
Ltac c7 := idtac; first [ c6 | lazymatch goal with
  | |- wp _ (emit_shutd (OShutD _ _ _)) _ _ _ => p_docall p_emit_shutd
  | |- wp _ (emit_shutd (match ?x with _ => _ end)) _ _ _ => destruct x end ].
Lemma p_interrupted d w s : PInv d w s -> ww interrupted (PF d w s) (pwb_abs w s) s.
Proof. intro K. unfold interrupted, PF, Fp. p_walk c7. all: p_done. Qed.
Ltac c8 := idtac; first [ c7 | lazymatch goal with
  | |- wp _ interrupted _ _ _ => p_docall p_interrupted end ].

(* outcomes held back until an API call returns do not move the monitor *)
Lemma neutral_pw g l : forallb pw_neutral l = true -> gouts pwb_out g l = Some g.
Proof.
  induction l as [|x l IH]; cbn [forallb gouts]; [reflexivity|]. intro H. apply andb_prop in H. destruct H as [H1 H2].
  destruct x; try discriminate H1; destruct g as [g b]; cbn [pwb_out pw_out bad_after b_pw b_bad]; auto.
Qed.

