(* C04, part 3: every request encoder of Model.Requests except Produce, against the spec parser.
   Shape of each theorem:  encode_<api> args = Ok w  (the encoder did not raise: every integer fits its wire field,
   every string is encodable and at most 32767 bytes)  ->  the strings the grammar does not allow to be null are
   present  ->  parse_request w = Some (key, version, correlation id, client id, canon args). *)
From AV Require Import Base.Util Model.Prim Model.Partitioner Model.MsgSet Model.KafkaSpecReq Model.Requests
     Proofs.PrimFacts Proofs.ReqParsePrim Proofs.ReqParseGroup.
From Coq Require Import Lia.

(* ---- canon: how supplied values appear in the parsed request ---- *)
Definition abytes (t : text) : list Z := match t with Some cps => cps | None => [] end.        (* ASCII text *)
Definition ubytes (t : text) : list Z := match utf8_bytes t with Some b => b | None => [] end.  (* UTF-8 text *)
Definition obytes_val (b : obytes) : list Z := match b with Some x => x | None => [] end.

Definition present (t : text) : bool := match t with Some _ => true | None => false end.
Definition topics_present {Pl} (topic : Pl -> text) (ps : list Pl) : bool := forallb (fun p => present (topic p)) ps.

Definition canon_topics {Pl B} (f : Z * Pl -> B) (g : list (text * list (Z * Pl))) : list (list Z * list B) :=
  map (fun tp => (abytes (fst tp), map f (snd tp))) g.

Lemma present_not_none t : present t = true -> t <> None.
Proof. destruct t; [congruence|discriminate]. Qed.

(* invert a chain  do a <- e1; do b <- e2; ... Ok (...) = Ok w *)
Ltac inv_do H :=
  cbv beta in H;
  lazymatch type of H with
  | bind ?e _ = Ok _ =>
      let x := fresh "w" in let E := fresh "E" in
      destruct e as [x|] eqn:E; cbn [bind] in H; [|discriminate H];
      inv_do E; inv_do H
  | Ok _ = Ok _ => first [injection H as <- | injection H as H]
  | _ => idtac
  end.

Ltac norm_app := repeat (rewrite <- app_assoc || rewrite app_nil_r || rewrite app_nil_l).

(* ---- strings, given the writer succeeded ---- *)
Lemma STRING_ascii' t w rest :
  write_short_ascii t = Ok w -> present t = true -> STRING (w ++ rest) = Some (abytes t, rest).
Proof.
  intros H Pt. destruct (STRING_ascii t w rest H (present_not_none _ Pt)) as (b & A & S).
  destruct t as [cps|]; [|discriminate]. cbn [ascii_bytes abytes] in *.
  destruct (ascii_cps cps); [|discriminate]. injection A as <-. exact S.
Qed.

Lemma STRING_text' t w rest :
  write_short_text t = Ok w -> present t = true -> STRING (w ++ rest) = Some (ubytes t, rest).
Proof.
  intros H Pt. destruct (STRING_text t w rest H (present_not_none _ Pt)) as (b & A & S).
  unfold ubytes. now rewrite A.
Qed.

Lemma NULLABLE_STRING_len b d rest :
  pack Fh (len b) = Ok d -> NULLABLE_STRING (d ++ b ++ rest) = Some (Some b, rest).
Proof.
  intros E. unfold NULLABLE_STRING, pbind.
  rewrite (INT16_pack _ _ _ E), write_i32_len_not_m1, sp_sized_app. reflexivity.
Qed.

(* read the next field(s) of the goal's parser with the matching writer hypothesis *)
Ltac rd1 :=
  match goal with
  | E : pack Fh ?v = Ok ?a |- context [INT16 (?a ++ ?r)] => rewrite (INT16_pack v a r E)
  | E : pack Fi ?v = Ok ?a |- context [INT32 (?a ++ ?r)] => rewrite (INT32_pack v a r E)
  | E : pack Fq ?v = Ok ?a |- context [INT64 (?a ++ ?r)] => rewrite (INT64_pack v a r E)
  | E : pack FB ?v = Ok ?a |- context [UINT8 (?a ++ ?r)] => rewrite (UINT8_pack v a r E)
  | E : write_short_ascii ?t = Ok ?a, Pt : present ?t = true |- context [STRING (?a ++ ?r)] =>
      rewrite (STRING_ascii' t a r E Pt)
  | E : write_short_text ?t = Ok ?a, Pt : present ?t = true |- context [STRING (?a ++ ?r)] =>
      rewrite (STRING_text' t a r E Pt)
  | E : write_short_bytes ?t = Ok ?a |- context [NULLABLE_STRING (?a ++ ?r)] =>
      rewrite (NULLABLE_STRING_write t a r E)
  | E : write_int_string ?t = Ok ?a |- context [NULLABLE_BYTES (?a ++ ?r)] =>
      rewrite (NULLABLE_BYTES_write t a r E)
  | E : write_int_string (Some ?t) = Ok ?a |- context [BYTES (?a ++ ?r)] =>
      rewrite (BYTES_write t a r E)
  end.
Ltac rd := unfold pbind; repeat (rd1; cbv beta iota).

(* ---- header ---- *)
Lemma header_parse cid corr key ver h rest :
  encode_message_header cid corr key ver = Ok h ->
  p_header (h ++ rest) = Some ((key, ver, corr, Some cid), rest).
Proof.
  unfold encode_message_header. intros H. cbn [pack_list] in H. inv_do H. norm_app.
  unfold p_header. rd.
  match goal with E : pack Fh (len cid) = Ok ?a |- _ => rewrite (NULLABLE_STRING_len _ _ _ E) end.
  reflexivity.
Qed.

Lemma parse_request_intro orc cid corr key ver h body pb b :
  encode_message_header cid corr key ver = Ok h ->
  body_parser orc key ver = Some pb ->
  pb body = Some (b, []) ->
  parse_request orc (h ++ body) = Some (mkSreq key ver corr (Some cid) b).
Proof.
  intros H B Pb. unfold parse_request. rewrite (header_parse _ _ _ _ _ _ H), B, Pb. reflexivity.
Qed.

(* ---- "grouped payloads" bodies ---- *)
Lemma topics_of_encode {Pl B} (enc_part : Z * Pl -> res (list Z)) (part : P B) (f : Z * Pl -> B) g c w rest :
  (forall tp pp wa r, In tp g -> In pp (snd tp) -> enc_part pp = Ok wa ->
                      part (wa ++ r) = Some (f pp, r) /\ wa <> []) ->
  (forall tp, In tp g -> present (fst tp) = true) ->
  pack Fi (llen g) = Ok c ->
  encode_topics enc_part g = Ok w ->
  topics_of part (c ++ w ++ rest) = Some (canon_topics f g, rest).
Proof.
  intros HP HT Hc Hw. unfold topics_of, encode_topics, canon_topics in *.
  eapply ARRAY_enc_all; [|exact Hc|exact Hw].
  intros tp wa r I E. pose proof (HT tp I) as Pt. inv_do E. norm_app. split.
  - rd.
    match goal with Ec : pack Fi (llen (snd tp)) = Ok ?c0, Ee : enc_all enc_part (snd tp) = Ok ?w0 |- _ =>
      erewrite (ARRAY_enc_all enc_part part f (snd tp) c0 w0); [reflexivity| |exact Ec|exact Ee] end.
    intros pp wp r' I' E'. eapply HP; eauto.
  - apply app_nonempty_l. eapply write_short_ascii_nonempty; eauto.
Qed.

Lemma grouped_topics_present {Pl} (topic : Pl -> text) (part : Pl -> Z) ps :
  topics_present topic ps = true ->
  forall tp, In tp (group_by_topic_and_partition topic part ps) -> present (fst tp) = true.
Proof.
  intros H tp I. assert (X : In (fst tp) (map topic ps)).
  { apply (group_topic_in topic part). apply in_map. exact I. }
  apply in_map_iff in X. destruct X as (p & <- & Ip).
  unfold topics_present in H. rewrite forallb_forall in H. now apply H.
Qed.

Lemma header_version_cases v : 0 <= v ->
  (if 2 <=? v then 2 else v) = 0 \/ (if 2 <=? v then 2 else v) = 1 \/ (if 2 <=? v then 2 else v) = 2.
Proof. intros H. destruct (2 <=? v) eqn:E; [auto|]. apply Z.leb_gt in E. lia. Qed.

(* ------------------------------------------------------------------ Fetch v0 / v1 / v2 *)
Definition canon_fetch (payloads : list fetch_payload) :=
  canon_topics (fun pp : Z * fetch_payload => (fst pp, fe_offset (snd pp), fe_max_bytes (snd pp)))
               (group_by_topic_and_partition fe_topic fe_partition payloads).

Ltac first_nonempty :=
  apply app_nonempty_l;
  first [eapply pack_nonempty; eassumption | eapply write_short_ascii_nonempty; eassumption
        | eapply write_short_text_nonempty; eassumption | eapply write_short_bytes_nonempty; eassumption].

(* the grouped body of the goal against the matching encode_topics hypothesis; leaves the per-partition goal *)
Ltac grouped T :=
  match goal with
  | Ec : pack Fi (llen ?g) = Ok ?c0, Ee : encode_topics ?enc ?g = Ok ?w0 |- context [topics_of ?part (?c0 ++ ?w0)] =>
      rewrite <- (app_nil_r w0);
      erewrite (topics_of_encode enc part _ g c0 w0 []);
      [reflexivity| |apply grouped_topics_present; exact T|exact Ec|exact Ee]
  end.

Theorem fetch_parses orc cid corr payloads max_wait min_bytes v w :
  encode_fetch_request cid corr payloads max_wait min_bytes v = Ok w ->
  topics_present fe_topic payloads = true -> 0 <= v ->
  parse_request orc w = Some (mkSreq 1 (fetch_header_version v) corr (Some cid)
                                     (SFetch (-1) max_wait min_bytes (canon_fetch payloads))).
Proof.
  unfold encode_fetch_request. intros H T V. cbn [pack_list] in H. inv_do H.
  eapply parse_request_intro; [eassumption| |].
  - unfold fetch_header_version, FETCH_KEY. destruct (header_version_cases v V) as [-> | [-> | ->]]; reflexivity.
  - norm_app. unfold p_fetch. rd. grouped T.
    intros tp pp wa r _ _ Ep. cbn [pack_list] in Ep. inv_do Ep. norm_app. split; [rd; reflexivity|first_nonempty].
Qed.
