(* C04, part 3: every request encoder of Model.Requests except Produce, against the spec parser.
   Shape of each theorem:  encode_<api> args = Ok w  (the encoder did not raise: every integer fits its wire field,
   every string is encodable and at most 32767 bytes)  ->  the strings the grammar does not allow to be null are
   present  ->  parse_request w = Some (key, version, correlation id, client id, canon args). *)
From AV Require Import Base.Util Model.Prim Model.Partitioner Model.MsgSet Model.KafkaSpecReq Model.Requests
     Proofs.PrimFacts Proofs.ReqParsePrim Proofs.ReqParseGroup.
From Coq Require Import Lia.

(* ---- canon: how supplied values appear in the parsed request ---- *)
Definition abytes (t : text) : list Z := match t with Some cps => cps | None => [] end.        (* ASCII text *)
Definition ubytes (t : text) : list Z := match utf8_bytes t with Some b => b | None => [] end.  (* UTF-8 text *)
Definition obytes_val (b : obytes) : list Z := match b with Some x => x | None => [] end.

Definition present (t : text) : bool := match t with Some _ => true | None => false end.
Definition topics_present {Pl} (topic : Pl -> text) (ps : list Pl) : bool := forallb (fun p => present (topic p)) ps.

Definition canon_topics {Pl B} (f : Z * Pl -> B) (g : list (text * list (Z * Pl))) : list (list Z * list B) :=
  map (fun tp => (abytes (fst tp), map f (snd tp))) g.

Lemma present_not_none t : present t = true -> t <> None.
Proof. destruct t; [congruence|discriminate]. Qed.

(* invert a chain  do a <- e1; do b <- e2; ... Ok (...) = Ok w *)
Ltac inv_do H :=
  cbv beta in H;
  lazymatch type of H with
  | bind ?e _ = Ok _ =>
      let x := fresh "w" in let E := fresh "E" in
      destruct e as [x|] eqn:E; cbn [bind] in H; [|discriminate H];
      inv_do E; inv_do H
  | Ok _ = Ok _ => first [injection H as <- | injection H as H]
  | _ => idtac
  end.

Ltac norm_app := repeat (rewrite <- app_assoc || rewrite app_nil_r || rewrite app_nil_l).

(* ---- strings, given the writer succeeded ---- *)
Lemma STRING_ascii' t w rest :
  write_short_ascii t = Ok w -> present t = true -> STRING (w ++ rest) = Some (abytes t, rest).
Proof.
  intros H Pt. destruct (STRING_ascii t w rest H (present_not_none _ Pt)) as (b & A & S).
  destruct t as [cps|]; [|discriminate]. cbn [ascii_bytes abytes] in *.
  destruct (ascii_cps cps); [|discriminate]. injection A as <-. exact S.
Qed.

Lemma STRING_text' t w rest :
  write_short_text t = Ok w -> present t = true -> STRING (w ++ rest) = Some (ubytes t, rest).
Proof.
  intros H Pt. destruct (STRING_text t w rest H (present_not_none _ Pt)) as (b & A & S).
  unfold ubytes. now rewrite A.
Qed.

Lemma NULLABLE_STRING_len b d rest :
  pack Fh (len b) = Ok d -> NULLABLE_STRING (d ++ b ++ rest) = Some (Some b, rest).
Proof.
  intros E. unfold NULLABLE_STRING, pbind.
  rewrite (INT16_pack _ _ _ E), write_i32_len_not_m1, sp_sized_app. reflexivity.
Qed.

(* read the next field(s) of the goal's parser with the matching writer hypothesis *)
Ltac rd1 :=
  match goal with
  | E : pack Fh ?v = Ok ?a |- context [INT16 (?a ++ ?r)] => rewrite (INT16_pack v a r E)
  | E : pack Fi ?v = Ok ?a |- context [INT32 (?a ++ ?r)] => rewrite (INT32_pack v a r E)
  | E : pack Fq ?v = Ok ?a |- context [INT64 (?a ++ ?r)] => rewrite (INT64_pack v a r E)
  | E : pack FB ?v = Ok ?a |- context [UINT8 (?a ++ ?r)] => rewrite (UINT8_pack v a r E)
  | E : write_short_ascii ?t = Ok ?a, Pt : present ?t = true |- context [STRING (?a ++ ?r)] =>
      rewrite (STRING_ascii' t a r E Pt)
  | E : write_short_text ?t = Ok ?a, Pt : present ?t = true |- context [STRING (?a ++ ?r)] =>
      rewrite (STRING_text' t a r E Pt)
  | E : write_short_bytes ?t = Ok ?a |- context [NULLABLE_STRING (?a ++ ?r)] =>
      rewrite (NULLABLE_STRING_write t a r E)
  | E : write_int_string ?t = Ok ?a |- context [NULLABLE_BYTES (?a ++ ?r)] =>
      rewrite (NULLABLE_BYTES_write t a r E)
  | E : write_int_string (Some ?t) = Ok ?a |- context [BYTES (?a ++ ?r)] =>
      rewrite (BYTES_write t a r E)
  end.
Ltac rd := unfold pbind; repeat (rd1; cbv beta iota).

(* ---- header ---- *)
Lemma header_parse cid corr key ver h rest :
  encode_message_header cid corr key ver = Ok h ->
  p_header (h ++ rest) = Some ((key, ver, corr, Some cid), rest).
Proof.
  unfold encode_message_header. intros H. cbn [pack_list] in H. inv_do H. norm_app.
  unfold p_header. rd.
  match goal with E : pack Fh (len cid) = Ok ?a |- _ => rewrite (NULLABLE_STRING_len _ _ _ E) end.
  reflexivity.
Qed.

Lemma parse_request_intro orc cid corr key ver h body pb b :
  encode_message_header cid corr key ver = Ok h ->
  body_parser orc key ver = Some pb ->
  pb body = Some (b, []) ->
  parse_request orc (h ++ body) = Some (mkSreq key ver corr (Some cid) b).
Proof.
  intros H B Pb. unfold parse_request. rewrite (header_parse _ _ _ _ _ _ H), B, Pb. reflexivity.
Qed.

(* ---- "grouped payloads" bodies ---- *)
Lemma topics_of_encode {Pl B} (enc_part : Z * Pl -> res (list Z)) (part : P B) (f : Z * Pl -> B) g c w rest :
  (forall tp pp wa r, In tp g -> In pp (snd tp) -> enc_part pp = Ok wa ->
                      part (wa ++ r) = Some (f pp, r) /\ wa <> []) ->
  (forall tp, In tp g -> present (fst tp) = true) ->
  pack Fi (llen g) = Ok c ->
  encode_topics enc_part g = Ok w ->
  topics_of part (c ++ w ++ rest) = Some (canon_topics f g, rest).
Proof.
  intros HP HT Hc Hw. unfold topics_of, encode_topics, canon_topics in *.
  eapply ARRAY_enc_all; [|exact Hc|exact Hw].
  intros tp wa r I E. pose proof (HT tp I) as Pt. inv_do E. norm_app. split.
  - rd.
    match goal with Ec : pack Fi (llen (snd tp)) = Ok ?c0, Ee : enc_all enc_part (snd tp) = Ok ?w0 |- _ =>
      erewrite (ARRAY_enc_all enc_part part f (snd tp) c0 w0); [reflexivity| |exact Ec|exact Ee] end.
    intros pp wp r' I' E'. eapply HP; eauto.
  - apply app_nonempty_l. eapply write_short_ascii_nonempty; eauto.
Qed.

Lemma grouped_topics_present {Pl} (topic : Pl -> text) (part : Pl -> Z) ps :
  topics_present topic ps = true ->
  forall tp, In tp (group_by_topic_and_partition topic part ps) -> present (fst tp) = true.
Proof.
  intros H tp I. assert (X : In (fst tp) (map topic ps)).
  { apply (group_topic_in topic part). apply in_map. exact I. }
  apply in_map_iff in X. destruct X as (p & <- & Ip).
  unfold topics_present in H. rewrite forallb_forall in H. now apply H.
Qed.

Lemma header_version_cases v : 0 <= v ->
  (if 2 <=? v then 2 else v) = 0 \/ (if 2 <=? v then 2 else v) = 1 \/ (if 2 <=? v then 2 else v) = 2.
Proof. intros H. destruct (2 <=? v) eqn:E; [auto|]. apply Z.leb_gt in E. lia. Qed.

(* ------------------------------------------------------------------ Fetch v0 / v1 / v2 *)
Definition canon_fetch (payloads : list fetch_payload) :=
  canon_topics (fun pp : Z * fetch_payload => (fst pp, fe_offset (snd pp), fe_max_bytes (snd pp)))
               (group_by_topic_and_partition fe_topic fe_partition payloads).

Ltac first_nonempty :=
  apply app_nonempty_l;
  first [eapply pack_nonempty; eassumption | eapply write_short_ascii_nonempty; eassumption
        | eapply write_short_text_nonempty; eassumption | eapply write_short_bytes_nonempty; eassumption].

(* the grouped body of the goal against the matching encode_topics hypothesis; leaves the per-partition goal *)
Ltac grouped T :=
  match goal with
  | Ec : pack Fi (llen ?g) = Ok ?c0, Ee : encode_topics ?enc ?g = Ok ?w0 |- context [topics_of ?part (?c0 ++ ?w0)] =>
      rewrite <- (app_nil_r w0);
      erewrite (topics_of_encode enc part _ g c0 w0 []);
      [reflexivity| |apply grouped_topics_present; exact T|exact Ec|exact Ee]
  end.

Theorem fetch_parses orc cid corr payloads max_wait min_bytes v w :
  encode_fetch_request cid corr payloads max_wait min_bytes v = Ok w ->
  topics_present fe_topic payloads = true -> 0 <= v ->
  parse_request orc w = Some (mkSreq 1 (fetch_header_version v) corr (Some cid)
                                     (SFetch (-1) max_wait min_bytes (canon_fetch payloads))).
Proof.
  unfold encode_fetch_request. intros H T V. cbn [pack_list] in H. inv_do H.
  eapply parse_request_intro; [eassumption| |].
  - unfold fetch_header_version, FETCH_KEY. destruct (header_version_cases v V) as [-> | [-> | ->]]; reflexivity.
  - norm_app. unfold p_fetch. rd. grouped T.
    intros tp pp wa r _ _ Ep. cbn [pack_list] in Ep. inv_do Ep. norm_app. split; [rd; reflexivity|first_nonempty].
Qed.

(* ------------------------------------------------------------------ ListOffsets v0 *)
Definition canon_offsets (payloads : list offset_payload) :=
  canon_topics (fun pp : Z * offset_payload => (fst pp, of_time (snd pp), of_max_offsets (snd pp)))
               (group_by_topic_and_partition of_topic of_partition payloads).

Theorem offsets_parses orc cid corr payloads w :
  encode_offset_request cid corr payloads = Ok w ->
  topics_present of_topic payloads = true ->
  parse_request orc w = Some (mkSreq 2 0 corr (Some cid) (SListOffsets (-1) (canon_offsets payloads))).
Proof.
  unfold encode_offset_request. intros H T. cbn [pack_list] in H. inv_do H.
  eapply parse_request_intro; [eassumption|reflexivity|].
  norm_app. unfold p_list_offsets. rd. grouped T.
  intros tp pp wa r _ _ Ep. cbn [pack_list] in Ep. inv_do Ep. norm_app. split; [rd; reflexivity|first_nonempty].
Qed.

(* ------------------------------------------------------------------ Metadata v0 *)
Theorem metadata_parses orc cid corr topics w :
  encode_metadata_request cid corr topics = Ok w ->
  forallb present topics = true ->
  parse_request orc w = Some (mkSreq 3 0 corr (Some cid) (SMetadata (map abytes topics))).
Proof.
  unfold encode_metadata_request. intros H T. inv_do H.
  eapply parse_request_intro; [eassumption|reflexivity|].
  unfold p_metadata, pbind.
  match goal with Ec : pack Fi (llen topics) = Ok ?c0, Ee : enc_all write_short_ascii topics = Ok ?w0 |- _ =>
    rewrite <- (app_nil_r w0);
    erewrite (ARRAY_enc_all write_short_ascii STRING abytes topics c0 w0 []); [reflexivity| |exact Ec|exact Ee] end.
  intros a wa r Ia Ea. rewrite forallb_forall in T. split.
  - apply STRING_ascii'; auto.
  - eapply write_short_ascii_nonempty; eauto.
Qed.

(* ------------------------------------------------------------------ FindCoordinator (GroupCoordinator) v0 *)
Theorem find_coordinator_parses orc cid corr group w :
  encode_consumermetadata_request cid corr group = Ok w ->
  present group = true ->
  parse_request orc w = Some (mkSreq 10 0 corr (Some cid) (SFindCoordinator (abytes group))).
Proof.
  unfold encode_consumermetadata_request. intros H G. inv_do H.
  eapply parse_request_intro; [eassumption|reflexivity|].
  unfold p_find_coordinator.
  match goal with E : write_short_ascii group = Ok ?a |- _ => rewrite <- (app_nil_r a) end. rd. reflexivity.
Qed.

(* ------------------------------------------------------------------ OffsetCommit v1 *)
Definition canon_commit (payloads : list commit_payload) :=
  canon_topics (fun pp : Z * commit_payload =>
                  (fst pp, co_offset (snd pp), co_timestamp (snd pp), co_metadata (snd pp)))
               (group_by_topic_and_partition co_topic co_partition payloads).

Theorem offset_commit_parses orc cid corr group gen consumer payloads w :
  encode_offset_commit_request cid corr group gen consumer payloads = Ok w ->
  present group = true -> present consumer = true -> topics_present co_topic payloads = true ->
  parse_request orc w = Some (mkSreq 8 1 corr (Some cid)
                                     (SOffsetCommit (abytes group) gen (abytes consumer) (canon_commit payloads))).
Proof.
  unfold encode_offset_commit_request. intros H G C T. inv_do H.
  eapply parse_request_intro; [eassumption|reflexivity|].
  norm_app. unfold p_offset_commit. rd. grouped T.
  intros tp pp wa r _ _ Ep. cbn [pack_list] in Ep. inv_do Ep. norm_app. split; [rd; reflexivity|first_nonempty].
Qed.

(* ------------------------------------------------------------------ OffsetFetch v1 *)
Definition canon_ofetch (payloads : list ofetch_payload) :=
  canon_topics (fun pp : Z * ofetch_payload => fst pp)
               (group_by_topic_and_partition og_topic og_partition payloads).

Theorem offset_fetch_parses orc cid corr group payloads w :
  encode_offset_fetch_request cid corr group payloads = Ok w ->
  present group = true -> topics_present og_topic payloads = true ->
  parse_request orc w = Some (mkSreq 9 1 corr (Some cid) (SOffsetFetch (abytes group) (canon_ofetch payloads))).
Proof.
  unfold encode_offset_fetch_request. intros H G T. inv_do H.
  eapply parse_request_intro; [eassumption|reflexivity|].
  norm_app. unfold p_offset_fetch. rd. grouped T.
  intros tp pp wa r _ _ Ep. split; [rd; reflexivity|eapply pack_nonempty; eauto].
Qed.

(* ------------------------------------------------------------------ Heartbeat v0, LeaveGroup v0 *)
Theorem heartbeat_parses orc cid corr group gen member w :
  encode_heartbeat_request cid corr group gen member = Ok w ->
  present group = true -> present member = true ->
  parse_request orc w = Some (mkSreq 12 0 corr (Some cid) (SHeartbeat (ubytes group) gen (ubytes member))).
Proof.
  unfold encode_heartbeat_request. intros H G M. inv_do H.
  eapply parse_request_intro; [eassumption|reflexivity|].
  unfold p_heartbeat.
  norm_app.
  match goal with E : write_short_text member = Ok ?a |- _ => rewrite <- (app_nil_r a) end.
  rd. reflexivity.
Qed.

Theorem leave_group_parses orc cid corr group member w :
  encode_leave_group_request cid corr group member = Ok w ->
  present group = true -> present member = true ->
  parse_request orc w = Some (mkSreq 13 0 corr (Some cid) (SLeaveGroup (ubytes group) (ubytes member))).
Proof.
  unfold encode_leave_group_request. intros H G M. inv_do H.
  eapply parse_request_intro; [eassumption|reflexivity|].
  unfold p_leave_group.
  norm_app.
  match goal with E : write_short_text member = Ok ?a |- _ => rewrite <- (app_nil_r a) end.
  rd. reflexivity.
Qed.

(* ------------------------------------------------------------------ JoinGroup v0 *)
Definition protocols_present (ps : list (text * obytes)) : bool :=
  forallb (fun gp => present (fst gp) && present (snd gp)) ps.

Theorem join_group_parses orc cid corr p w :
  encode_join_group_request cid corr p = Ok w ->
  present (jg_group p) = true -> present (jg_member_id p) = true -> present (jg_protocol_type p) = true ->
  protocols_present (jg_protocols p) = true ->
  parse_request orc w = Some (mkSreq 11 0 corr (Some cid)
    (SJoinGroup (ubytes (jg_group p)) (jg_session_timeout p) (ubytes (jg_member_id p)) (ubytes (jg_protocol_type p))
                (map (fun gp => (abytes (fst gp), obytes_val (snd gp))) (jg_protocols p)))).
Proof.
  unfold encode_join_group_request. intros H G M T PP. inv_do H.
  eapply parse_request_intro; [eassumption|reflexivity|].
  norm_app. unfold p_join_group. rd.
  match goal with Ec : pack Fi (llen (jg_protocols p)) = Ok ?c0, Ee : enc_all ?enc (jg_protocols p) = Ok ?w0 |- _ =>
    rewrite <- (app_nil_r w0);
    erewrite (ARRAY_enc_all enc _ (fun gp => (abytes (fst gp), obytes_val (snd gp))) (jg_protocols p) c0 w0 []);
    [reflexivity| |exact Ec|exact Ee] end.
  intros gp wa r Ig Eg. unfold protocols_present in PP. rewrite forallb_forall in PP.
  pose proof (PP gp Ig) as Pg. apply andb_prop in Pg. destruct Pg as [Pn Pm].
  inv_do Eg. norm_app. split; [|first_nonempty].
  destruct gp as [n [md|]]; [|discriminate Pm]. cbn [fst snd obytes_val] in *. rd. reflexivity.
Qed.

(* ------------------------------------------------------------------ SyncGroup v0 *)
Theorem sync_group_parses orc cid corr p w :
  encode_sync_group_request cid corr p = Ok w ->
  present (sg_group p) = true -> present (sg_member_id p) = true ->
  protocols_present (sg_assignment p) = true ->
  parse_request orc w = Some (mkSreq 14 0 corr (Some cid)
    (SSyncGroup (ubytes (sg_group p)) (sg_generation_id p) (ubytes (sg_member_id p))
                (map (fun ma => (ubytes (fst ma), obytes_val (snd ma))) (sg_assignment p)))).
Proof.
  unfold encode_sync_group_request. intros H G M PP. inv_do H.
  eapply parse_request_intro; [eassumption|reflexivity|].
  norm_app. unfold p_sync_group. rd.
  match goal with Ec : pack Fi (llen (sg_assignment p)) = Ok ?c0, Ee : enc_all ?enc (sg_assignment p) = Ok ?w0 |- _ =>
    rewrite <- (app_nil_r w0);
    erewrite (ARRAY_enc_all enc _ (fun ma => (ubytes (fst ma), obytes_val (snd ma))) (sg_assignment p) c0 w0 []);
    [reflexivity| |exact Ec|exact Ee] end.
  intros gp wa r Ig Eg. unfold protocols_present in PP. rewrite forallb_forall in PP.
  pose proof (PP gp Ig) as Pg. apply andb_prop in Pg. destruct Pg as [Pn Pm].
  inv_do Eg. norm_app. split; [|first_nonempty].
  destruct gp as [n [md|]]; [|discriminate Pm]. cbn [fst snd obytes_val] in *. rd. reflexivity.
Qed.

(* ------------------------------------------------------------------ ApiVersions v0: header only *)
Theorem api_versions_parses orc cid corr w :
  encode_api_versions_request cid corr API_VERSIONS_KEY 0 = Ok w ->
  parse_request orc w = Some (mkSreq 18 0 corr (Some cid) SApiVersions).
Proof.
  unfold encode_api_versions_request. intros H. rewrite <- (app_nil_r w).
  eapply parse_request_intro; [exact H|reflexivity|reflexivity].
Qed.

(* the header of an ApiVersions request carries exactly the key and version of the ApiVersionRequest given
   (fix 3e08fad), and nothing follows it *)
Theorem api_versions_header cid corr key ver w :
  encode_api_versions_request cid corr key ver = Ok w ->
  p_header w = Some ((key, ver, corr, Some cid), []).
Proof. unfold encode_api_versions_request. intros H. rewrite <- (app_nil_r w). now apply header_parse. Qed.

(* ------------------------------------------------------------------ consumer protocol structures carried as BYTES *)
Theorem subscription_parses version subs ud w :
  encode_join_group_protocol_metadata version subs ud = Ok w ->
  forallb present subs = true ->
  parse_subscription w = Some (version, map ubytes subs, ud).
Proof.
  unfold encode_join_group_protocol_metadata. intros H T. cbn [pack_list] in H. inv_do H. norm_app.
  unfold parse_subscription, pbind. rd.
  match goal with Ec : pack Fi (llen subs) = Ok ?c0, Ee : enc_all write_short_text subs = Ok ?w0 |- _ =>
    erewrite (ARRAY_enc_all write_short_text STRING ubytes subs c0 w0); [| |exact Ec|exact Ee] end.
  - match goal with Eu : write_int_string ud = Ok ?u |- _ => rewrite <- (app_nil_r u) end. rd. reflexivity.
  - intros a wa r Ia Ea. rewrite forallb_forall in T. split.
    + apply STRING_text'; auto.
    + eapply write_short_text_nonempty; eauto.
Qed.

Lemma pack_ints_parse ps : forall w rest,
  pack_list (map (fun x => (Fi, x)) ps) = Ok w ->
  sp_repeat INT32 (length ps) (w ++ rest) = Some (ps, rest) /\ (length ps <= length w)%nat.
Proof.
  induction ps as [|x r IH]; intros w rest H; cbn [map pack_list length sp_repeat] in *.
  - injection H as <-. split; [reflexivity|lia].
  - destruct (pack Fi x) as [a|] eqn:Ea; cbn [bind] in H; [|discriminate].
    destruct (pack_list (map (fun x0 => (Fi, x0)) r)) as [b|] eqn:Eb; cbn [bind] in H; [|discriminate].
    injection H as <-. destruct (IH b rest eq_refl) as [I1 I2]. split.
    + unfold pbind. rewrite <- app_assoc, (INT32_pack _ _ _ Ea), I1. reflexivity.
    + assert (a <> []) by (eapply pack_nonempty; eauto). rewrite app_length. destruct a; [congruence|cbn [length]; lia].
Qed.

Theorem assignment_parses version asg ud w :
  encode_sync_group_member_assignment version asg ud = Ok w ->
  forallb (fun tp => present (fst tp)) asg = true ->
  parse_assignment w = Some (version, map (fun tp : text * list Z => (abytes (fst tp), snd tp)) asg, ud).
Proof.
  unfold encode_sync_group_member_assignment. intros H T. inv_do H. norm_app.
  unfold parse_assignment, topics_of, pbind. rd.
  match goal with Ec : pack Fi (llen asg) = Ok ?c0, Ee : enc_all ?enc asg = Ok ?w0 |- _ =>
    erewrite (ARRAY_enc_all enc _ (fun tp : text * list Z => (abytes (fst tp), snd tp)) asg c0 w0); [| |exact Ec|exact Ee] end.
  - match goal with Eu : write_int_string ud = Ok ?u |- _ => rewrite <- (app_nil_r u) end. rd. reflexivity.
  - intros tp wa r Ia Ea. rewrite forallb_forall in T. pose proof (T tp Ia) as Pt.
    cbv beta in Ea.
    destruct (write_short_ascii (fst tp)) as [n|] eqn:En; cbn [bind] in Ea; [|discriminate].
    cbn [pack_list] in Ea.
    destruct (pack Fi (len (snd tp))) as [c|] eqn:Ec; cbn [bind] in Ea; [|discriminate].
    destruct (pack_list (map (fun x => (Fi, x)) (snd tp))) as [b|] eqn:Eb; cbn [bind] in Ea; [|discriminate].
    injection Ea as <-. destruct (pack_ints_parse (snd tp) b r Eb) as [I1 I2]. split.
    + rewrite <- !app_assoc. rewrite (STRING_ascii' _ _ _ En Pt). unfold ARRAY.
      rewrite (INT32_pack _ _ _ Ec). unfold len. pose proof (Zle_0_nat (length (snd tp))).
      destruct (Z.of_nat (length (snd tp)) <? 0) eqn:C1; [apply Z.ltb_lt in C1; lia|].
      destruct (Z.of_nat (length (b ++ r)) <? Z.of_nat (length (snd tp))) eqn:C2.
      { apply Z.ltb_lt in C2. rewrite app_length in C2. lia. }
      cbn [orb]. rewrite Nat2Z.id, I1. reflexivity.
    + apply app_nonempty_l. eapply write_short_ascii_nonempty; eauto.
Qed.
