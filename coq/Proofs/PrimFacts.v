(* Small sanity lemmas about Model.Prim shared by the codec properties (C04, C05, C12):
   big-endian encode/decode round trips, pack/unpack and string writer/reader round trips. *)
From AV Require Import Base.Util Model.Prim.
From Coq Require Import Lia.

Lemma take_app_exact {A} (a b : list A) : take (length a) (a ++ b) = a.
Proof. induction a as [|x a IH]; cbn; [now destruct b|now rewrite IH]. Qed.

Lemma drop_app_exact {A} (a b : list A) : drop (length a) (a ++ b) = b.
Proof. induction a as [|x a IH]; cbn; auto. Qed.

Lemma enc_be_length n v : length (enc_be n v) = n.
Proof. induction n as [|k IH]; cbn [enc_be length]; auto. Qed.

Lemma pow256_pos k : 0 < 256 ^ Z.of_nat k.
Proof. apply Z.pow_pos_nonneg; lia. Qed.

Lemma enc_be_bytes n v : Forall (fun b => 0 <= b < 256) (enc_be n v).
Proof.
  induction n as [|k IH]; cbn [enc_be]; constructor; auto.
  apply Z.mod_pos_bound; lia.
Qed.

Lemma pow256_S k : 256 ^ Z.of_nat (S k) = 256 ^ Z.of_nat k * 256.
Proof. rewrite Nat2Z.inj_succ, Z.pow_succ_r by lia. lia. Qed.

(* decoding the n low-order digits gives v modulo 256^n *)
Lemma dec_enc_unsigned n v : dec_be_unsigned (enc_be n v) = v mod 256 ^ Z.of_nat n.
Proof.
  induction n as [|k IH].
  - cbn. now rewrite Z.mod_1_r.
  - cbn [enc_be dec_be_unsigned]. rewrite enc_be_length, IH, pow256_S.
    pose proof (pow256_pos k).
    rewrite (Z.rem_mul_r v (256 ^ Z.of_nat k) 256) by lia. lia.
Qed.

Lemma dec_enc_unsigned_small n v : 0 <= v < 256 ^ Z.of_nat n -> dec_be_unsigned (enc_be n v) = v.
Proof. intros H. rewrite dec_enc_unsigned. now apply Z.mod_small. Qed.

(* two's complement: every v in [-M/2, M/2) comes back *)
Lemma dec_enc_signed n v :
  - 256 ^ Z.of_nat n <= 2 * v < 256 ^ Z.of_nat n -> dec_be_signed (enc_be n v) = v.
Proof.
  intros H. unfold dec_be_signed. rewrite enc_be_length, dec_enc_unsigned.
  set (M := 256 ^ Z.of_nat n) in *.
  assert (0 < M) by apply pow256_pos.
  destruct (Z_lt_le_dec v 0) as [Hn|Hp].
  - assert (E : v mod M = v + M).
    { symmetry. apply (Z.mod_unique_pos v M (-1) (v + M)); lia. }
    rewrite E. destruct (2 * (v + M) <? M) eqn:C; lia.
  - rewrite Z.mod_small by lia. destruct (2 * v <? M) eqn:C; lia.
Qed.

Lemma pow_sizes :
  256 ^ Z.of_nat 1 = 256 /\ 256 ^ Z.of_nat 2 = 65536 /\ 256 ^ Z.of_nat 4 = 4294967296
  /\ 256 ^ Z.of_nat 8 = 18446744073709551616.
Proof. repeat split; vm_compute; reflexivity. Qed.

(* struct.unpack inverts struct.pack, whatever follows *)
Lemma unpack_pack f v w rest : pack f v = Ok w -> unpack f (w ++ rest) = Ok (v, rest).
Proof.
  unfold pack. destruct (fmt_in f v) eqn:R; [|discriminate]. intros E; injection E as <-.
  unfold unpack. rewrite app_length, enc_be_length.
  replace (Nat.ltb (fmt_size f + length rest) (fmt_size f)) with false
    by (symmetry; apply Nat.ltb_ge; lia).
  pose proof (take_app_exact (enc_be (fmt_size f) v) rest) as T.
  pose proof (drop_app_exact (enc_be (fmt_size f) v) rest) as D.
  rewrite enc_be_length in T, D. rewrite T, D. f_equal. f_equal.
  destruct pow_sizes as (P1 & P2 & P4 & P8).
  destruct f; cbn [fmt_signed fmt_size fmt_in] in *;
    unfold in_i8, in_u8, in_i16, in_u16, in_i32, in_u32, in_i64 in R;
    apply andb_prop in R; destruct R as [R1 R2]; apply Z.leb_le in R1, R2;
    first [apply dec_enc_signed | apply dec_enc_unsigned_small];
    rewrite ?P1, ?P2, ?P4, ?P8; lia.
Qed.

Lemma len_nonneg b : 0 <= len b.
Proof. unfold len. lia. Qed.

(* the common reader inverts "length prefix ++ bytes" *)
Lemma read_string_prefixed f b h rest :
  pack f (len b) = Ok h -> read_string f (h ++ b ++ rest) = Ok (Some b, rest).
Proof.
  intros P. unfold read_string. rewrite (unpack_pack f (len b) h (b ++ rest) P). cbn [bind].
  pose proof (len_nonneg b).
  destruct (len b =? -1) eqn:E1; [apply Z.eqb_eq in E1; lia|].
  destruct (len b <? -1) eqn:E2; [apply Z.ltb_lt in E2; lia|].
  destruct (len (b ++ rest) <? len b) eqn:E3.
  { apply Z.ltb_lt in E3. unfold len in E3. rewrite app_length in E3. lia. }
  unfold len. rewrite Nat2Z.id, take_app_exact, drop_app_exact. reflexivity.
Qed.

Lemma read_string_null f h rest : pack f (-1) = Ok h -> read_string f (h ++ rest) = Ok (None, rest).
Proof. intros P. unfold read_string. rewrite (unpack_pack f (-1) h rest P). reflexivity. Qed.

Theorem read_write_int_string s w rest :
  write_int_string s = Ok w -> read_int_string (w ++ rest) = Ok (s, rest).
Proof.
  destruct s as [b|]; cbn [write_int_string].
  - destruct (write_i32 (len b)) as [h|] eqn:P; cbn [bind]; [|discriminate].
    intros E; injection E as <-. rewrite <- app_assoc. now apply read_string_prefixed.
  - apply read_string_null.
Qed.

Theorem read_write_short_bytes s w rest :
  write_short_bytes s = Ok w -> read_short_bytes (w ++ rest) = Ok (s, rest).
Proof.
  destruct s as [b|]; cbn [write_short_bytes].
  - destruct (32767 <? len b); [discriminate|].
    destruct (write_i16 (len b)) as [h|] eqn:P; cbn [bind]; [|discriminate].
    intros E; injection E as <-. rewrite <- app_assoc. now apply read_string_prefixed.
  - intros E; injection E as <-. apply (read_string_null Fh). reflexivity.
Qed.

(* writers fail exactly outside their range *)
Lemma pack_ok_iff f v : (exists w, pack f v = Ok w) <-> fmt_in f v = true.
Proof.
  unfold pack. destruct (fmt_in f v); split; intros H.
  - reflexivity.
  - eexists; reflexivity.
  - destruct H as [w H]; discriminate.
  - discriminate.
Qed.

Lemma write_short_bytes_ok_iff b : (exists w, write_short_bytes (Some b) = Ok w) <-> len b <= 32767.
Proof.
  cbn [write_short_bytes]. destruct (32767 <? len b) eqn:E.
  - apply Z.ltb_lt in E. split; [intros [w H]; discriminate|lia].
  - apply Z.ltb_ge in E. split; [lia|intros _].
    assert (R : fmt_in Fh (len b) = true).
    { pose proof (len_nonneg b). cbn [fmt_in]. unfold in_i16.
      apply andb_true_intro. split; apply Z.leb_le; lia. }
    unfold write_i16, pack. rewrite R. cbn [bind]. eexists. reflexivity.
Qed.
