(* _normalize_hosts (client.py:1397-1445) returns sorted(set(...)): facts about the model
   [normalize_hosts] of Model/ClientRoute.v.  The result is strictly increasing for the order on
   (host, port) pairs (so sorted and duplicate free), has exactly the normalised items as members, does not
   depend on the order or multiplicity of the input, and is a fixpoint of the function.
   Generic part over the host type, then the two instances (strings, integers). *)
From AV Require Import Base.Util Model.ClientMeta Model.ClientRoute.
From Coq Require Import Lia Permutation Sorted.
Open Scope Z_scope.

Section Hosts.
  Context {HT : Type} (hleb heqb : HT -> HT -> bool) (strip : HT -> HT).
  Hypothesis heqb_eq : forall a b, heqb a b = true <-> a = b.
  Hypothesis hleb_total : forall a b, hleb a b = true \/ hleb b a = true.
  Hypothesis hleb_trans : forall a b c, hleb a b = true -> hleb b c = true -> hleb a c = true.
  Hypothesis hleb_antisym : forall a b, hleb a b = true -> hleb b a = true -> a = b.

  (* the strict order on (host, port) pairs *)
  Definition hp_ltb (a b : HT * Z) : bool := hp_leb hleb heqb a b && negb (hp_eqb heqb a b).
  Definition hp_lt (a b : HT * Z) : Prop := hp_ltb a b = true.

  Lemma heqb_refl : forall a, heqb a a = true.
  Proof. intros a. apply heqb_eq. reflexivity. Qed.

  Lemma heqb_false : forall a b, heqb a b = false <-> a <> b.
  Proof.
    intros a b. split.
    - intros E Hab. apply heqb_eq in Hab. rewrite Hab in E. discriminate.
    - intros N. destruct (heqb a b) eqn:E; [|reflexivity]. apply heqb_eq in E. contradiction.
  Qed.

  Lemma hp_eqb_eq : forall a b, hp_eqb heqb a b = true <-> a = b.
  Proof.
    intros [h p] [h' p']. unfold hp_eqb. cbn [fst snd]. rewrite andb_true_iff, heqb_eq, Z.eqb_eq. split.
    - intros [-> ->]. reflexivity.
    - intros E. inversion E. split; reflexivity.
  Qed.

  Lemma hp_eqb_refl : forall a, hp_eqb heqb a a = true.
  Proof. intros a. apply hp_eqb_eq. reflexivity. Qed.

  Lemma hp_leb_refl : forall a, hp_leb hleb heqb a a = true.
  Proof. intros a. unfold hp_leb. rewrite heqb_refl. apply Z.leb_refl. Qed.

  Lemma hp_leb_total : forall a b, hp_leb hleb heqb a b = true \/ hp_leb hleb heqb b a = true.
  Proof.
    intros [h p] [h' p']. unfold hp_leb. cbn [fst snd].
    destruct (heqb h h') eqn:E.
    - apply heqb_eq in E. subst h'. rewrite heqb_refl.
      destruct (Z.leb_spec p p'); [left; reflexivity|right; apply Z.leb_le; lia].
    - assert (E' : heqb h' h = false).
      { apply heqb_false. apply heqb_false in E. intros Q. apply E. symmetry. exact Q. }
      rewrite E'. apply hleb_total.
  Qed.

  Lemma hp_leb_antisym : forall a b,
    hp_leb hleb heqb a b = true -> hp_leb hleb heqb b a = true -> a = b.
  Proof.
    intros [h p] [h' p']. unfold hp_leb. cbn [fst snd].
    destruct (heqb h h') eqn:E.
    - apply heqb_eq in E. subst h'. rewrite heqb_refl. intros A B.
      apply Z.leb_le in A. apply Z.leb_le in B. f_equal. lia.
    - intros A B.
      assert (E' : heqb h' h = false).
      { apply heqb_false. apply heqb_false in E. intros Q. apply E. symmetry. exact Q. }
      rewrite E' in B. apply heqb_false in E. exfalso. apply E. apply hleb_antisym; assumption.
  Qed.

  Lemma hp_leb_trans : forall a b c,
    hp_leb hleb heqb a b = true -> hp_leb hleb heqb b c = true -> hp_leb hleb heqb a c = true.
  Proof.
    intros [h1 p1] [h2 p2] [h3 p3]. unfold hp_leb. cbn [fst snd].
    destruct (heqb h1 h2) eqn:E12; destruct (heqb h2 h3) eqn:E23.
    - apply heqb_eq in E12. apply heqb_eq in E23. subst h2 h3. rewrite heqb_refl.
      intros A B. apply Z.leb_le in A. apply Z.leb_le in B. apply Z.leb_le. lia.
    - apply heqb_eq in E12. subst h2. rewrite E23. intros _ B. exact B.
    - apply heqb_eq in E23. subst h3. rewrite E12. intros A _. exact A.
    - intros A B. destruct (heqb h1 h3) eqn:E13.
      + apply heqb_eq in E13. subst h3. exfalso.
        apply heqb_false in E12. apply E12. apply hleb_antisym; assumption.
      + apply hleb_trans with h2; assumption.
  Qed.

  Lemma hp_lt_irrefl : forall a, ~ hp_lt a a.
  Proof.
    intros a. unfold hp_lt, hp_ltb. rewrite hp_eqb_refl. cbn [negb]. rewrite andb_false_r. discriminate.
  Qed.

  Lemma hp_lt_spec : forall a b, hp_lt a b <-> hp_leb hleb heqb a b = true /\ a <> b.
  Proof.
    intros a b. unfold hp_lt, hp_ltb. rewrite andb_true_iff, negb_true_iff. split.
    - intros [L N]. split; [exact L|]. intros Q. apply hp_eqb_eq in Q. rewrite Q in N. discriminate.
    - intros [L N]. split; [exact L|]. destruct (hp_eqb heqb a b) eqn:E; [|reflexivity].
      apply hp_eqb_eq in E. contradiction.
  Qed.

  Lemma hp_lt_trans : forall a b c, hp_lt a b -> hp_lt b c -> hp_lt a c.
  Proof.
    intros a b c A B. apply hp_lt_spec in A. apply hp_lt_spec in B. apply hp_lt_spec.
    destruct A as [A NA]. destruct B as [B NB]. split.
    - apply hp_leb_trans with b; assumption.
    - intros Q. subst c. apply NA. apply hp_leb_antisym; assumption.
  Qed.

  Lemma hp_lt_of_not_leb : forall a b, hp_leb hleb heqb a b = false -> hp_lt b a.
  Proof.
    intros a b N. apply hp_lt_spec. split.
    - destruct (hp_leb_total a b) as [L|L]; [rewrite L in N; discriminate|exact L].
    - intros Q. subst b. rewrite hp_leb_refl in N. discriminate.
  Qed.

  Lemma hp_lt_eqb_false : forall a b, hp_lt a b -> hp_eqb heqb a b = false.
  Proof.
    intros a b L. unfold hp_lt, hp_ltb in L. apply andb_true_iff in L. destruct L as [_ L].
    apply negb_true_iff in L. exact L.
  Qed.

  Lemma hp_lt_leb_true : forall a b, hp_lt a b -> hp_leb hleb heqb a b = true.
  Proof.
    intros a b L. unfold hp_lt, hp_ltb in L. apply andb_true_iff in L. destruct L as [L _]. exact L.
  Qed.

  (* ---- hinsert ---- *)
  Lemma hinsert_in : forall x z l, In z (hinsert hleb heqb x l) <-> z = x \/ In z l.
  Proof.
    intros x z l. induction l as [|y r IH]; cbn [hinsert].
    - cbn [In]. split; intros [A|A]; auto.
    - destruct (hp_eqb heqb x y) eqn:E.
      + apply hp_eqb_eq in E. subst y. cbn [In]. split.
        * intros A. right. exact A.
        * intros [A|A]; [left; symmetry; exact A|exact A].
      + destruct (hp_leb hleb heqb x y) eqn:L.
        * cbn [In]. split.
          -- intros [A|A]; [left; symmetry; exact A|right; exact A].
          -- intros [A|A]; [left; symmetry; exact A|right; exact A].
        * cbn [In]. rewrite IH. split.
          -- intros [A|[A|A]]; auto.
          -- intros [A|[A|A]]; auto.
  Qed.

  Lemma hinsert_sorted : forall x l,
    StronglySorted hp_lt l -> StronglySorted hp_lt (hinsert hleb heqb x l).
  Proof.
    intros x l S. induction S as [|y r S IH F]; cbn [hinsert].
    - constructor; constructor.
    - destruct (hp_eqb heqb x y) eqn:E.
      + constructor; assumption.
      + destruct (hp_leb hleb heqb x y) eqn:L.
        * assert (XY : hp_lt x y).
          { apply hp_lt_spec. split; [exact L|]. intros Q. apply hp_eqb_eq in Q. rewrite Q in E. discriminate. }
          constructor.
          -- constructor; assumption.
          -- constructor; [exact XY|].
             rewrite Forall_forall in F |- *. intros z Hz. apply hp_lt_trans with y; [exact XY|].
             apply F. exact Hz.
        * constructor; [exact IH|].
          rewrite Forall_forall in F |- *. intros z Hz. apply hinsert_in in Hz. destruct Hz as [Hz|Hz].
          -- subst z. apply hp_lt_of_not_leb. exact L.
          -- apply F. exact Hz.
  Qed.

  Lemma hinsert_lt_head : forall x l, Forall (hp_lt x) l -> hinsert hleb heqb x l = x :: l.
  Proof.
    intros x l F. destruct l as [|y r]; [reflexivity|].
    cbn [hinsert]. inversion F as [|y' r' XY F']. subst.
    rewrite (hp_lt_eqb_false _ _ XY), (hp_lt_leb_true _ _ XY). reflexivity.
  Qed.

  (* ---- sorted_set ---- *)
  Lemma sorted_set_sorted : forall l,
    StronglySorted (fun a b => hp_ltb a b = true) (sorted_set hleb heqb l).
  Proof.
    intros l. change (StronglySorted hp_lt (sorted_set hleb heqb l)).
    induction l as [|x l IH]; [constructor|].
    unfold sorted_set. cbn [fold_right]. apply hinsert_sorted. exact IH.
  Qed.

  Lemma sorted_set_in : forall x l, In x (sorted_set hleb heqb l) <-> In x l.
  Proof.
    intros x l. induction l as [|y l IH]; [reflexivity|].
    unfold sorted_set. cbn [fold_right]. fold (sorted_set hleb heqb l).
    rewrite hinsert_in, IH. cbn [In]. split; intros [A|A]; auto.
  Qed.

  Lemma strictly_sorted_nodup : forall l, StronglySorted hp_lt l -> NoDup l.
  Proof.
    intros l S. induction S as [|y r S IH F]; constructor.
    - intros Hin. rewrite Forall_forall in F. apply (hp_lt_irrefl y). apply F. exact Hin.
    - exact IH.
  Qed.

  Lemma sorted_set_nodup : forall l, NoDup (sorted_set hleb heqb l).
  Proof. intros l. apply strictly_sorted_nodup. apply sorted_set_sorted. Qed.

  Lemma sorted_set_fixpoint : forall l,
    StronglySorted (fun a b => hp_ltb a b = true) l -> sorted_set hleb heqb l = l.
  Proof.
    intros l S. change (StronglySorted hp_lt l) in S.
    induction S as [|y r S IH F]; [reflexivity|].
    unfold sorted_set. cbn [fold_right]. fold (sorted_set hleb heqb r).
    rewrite IH. apply hinsert_lt_head. exact F.
  Qed.

  Lemma sorted_set_idem : forall l,
    sorted_set hleb heqb (sorted_set hleb heqb l) = sorted_set hleb heqb l.
  Proof. intros l. apply sorted_set_fixpoint. apply sorted_set_sorted. Qed.

  (* two strictly increasing lists with the same members are equal *)
  Lemma strictly_sorted_ext : forall l1 l2,
    StronglySorted hp_lt l1 -> StronglySorted hp_lt l2 ->
    (forall x, In x l1 <-> In x l2) -> l1 = l2.
  Proof.
    intros l1 l2 S1. revert l2. induction S1 as [|a r1 S1 IH F1]; intros l2 S2 M.
    - destruct l2 as [|b r2]; [reflexivity|]. exfalso. apply (proj2 (M b)). left. reflexivity.
    - destruct l2 as [|b r2].
      + exfalso. apply (proj1 (M a)). left. reflexivity.
      + inversion S2 as [|b' r2' S2' F2]. subst.
        rewrite Forall_forall in F1, F2.
        assert (AB : a = b).
        { destruct (proj1 (M a) (or_introl eq_refl)) as [A|A]; [symmetry; exact A|].
          destruct (proj2 (M b) (or_introl eq_refl)) as [B|B]; [exact B|].
          exfalso. apply (hp_lt_irrefl a). apply hp_lt_trans with b; [apply F1; exact B|apply F2; exact A]. }
        subst b. f_equal. apply IH; [exact S2'|].
        intros x. split; intros Hx.
        * destruct (proj1 (M x) (or_intror Hx)) as [A|A]; [|exact A].
          subst x. exfalso. apply (hp_lt_irrefl a). apply F1. exact Hx.
        * destruct (proj2 (M x) (or_intror Hx)) as [A|A]; [|exact A].
          subst x. exfalso. apply (hp_lt_irrefl a). apply F2. exact Hx.
  Qed.

  Lemma sorted_set_ext : forall l l',
    (forall x, In x l <-> In x l') -> sorted_set hleb heqb l = sorted_set hleb heqb l'.
  Proof.
    intros l l' M. apply strictly_sorted_ext.
    - apply sorted_set_sorted.
    - apply sorted_set_sorted.
    - intros x. rewrite !sorted_set_in. apply M.
  Qed.

  Lemma sorted_set_perm_invariant : forall l l',
    Permutation l l' -> sorted_set hleb heqb l = sorted_set hleb heqb l'.
  Proof.
    intros l l' P. apply sorted_set_ext. intros x. split.
    - apply Permutation_in. exact P.
    - apply Permutation_in. apply Permutation_sym. exact P.
  Qed.

  (* ---- normalize_hosts ---- *)
  Lemma norm_item_tuples : forall l : list (HT * Z),
    map (norm_item strip) (map (fun hp => HTuple (fst hp) (snd hp)) l) = l.
  Proof.
    intros l. induction l as [|[h p] l IH]; [reflexivity|].
    cbn [map norm_item fst snd]. rewrite IH. reflexivity.
  Qed.

  Lemma normalize_hosts_sorted : forall items,
    StronglySorted (fun a b => hp_ltb a b = true) (normalize_hosts hleb heqb strip items).
  Proof. intros items. unfold normalize_hosts. apply sorted_set_sorted. Qed.

  Lemma normalize_hosts_nodup : forall items, NoDup (normalize_hosts hleb heqb strip items).
  Proof. intros items. unfold normalize_hosts. apply sorted_set_nodup. Qed.

  Lemma normalize_hosts_idem : forall items,
    normalize_hosts hleb heqb strip
      (map (fun hp => HTuple (fst hp) (snd hp)) (normalize_hosts hleb heqb strip items))
    = normalize_hosts hleb heqb strip items.
  Proof.
    intros items. unfold normalize_hosts. rewrite norm_item_tuples. apply sorted_set_idem.
  Qed.

  Lemma normalize_hosts_in : forall x items,
    In x (normalize_hosts hleb heqb strip items) <-> In x (map (norm_item strip) items).
  Proof. intros x items. unfold normalize_hosts. apply sorted_set_in. Qed.

  Lemma normalize_hosts_ext : forall items items',
    (forall x, In x (map (norm_item strip) items) <-> In x (map (norm_item strip) items')) ->
    normalize_hosts hleb heqb strip items = normalize_hosts hleb heqb strip items'.
  Proof. intros items items' M. unfold normalize_hosts. apply sorted_set_ext. exact M. Qed.

  Lemma normalize_hosts_perm_invariant : forall items items',
    Permutation items items' ->
    normalize_hosts hleb heqb strip items = normalize_hosts hleb heqb strip items'.
  Proof.
    intros items items' P. unfold normalize_hosts. apply sorted_set_perm_invariant.
    apply Permutation_map. exact P.
  Qed.
End Hosts.

(* ---- instance: integers ------------------------------------------------------------------------- *)
Lemma zeqb_eq : forall a b : Z, (a =? b) = true <-> a = b.
Proof. intros a b. apply Z.eqb_eq. Qed.

Lemma zleb_total : forall a b : Z, (a <=? b) = true \/ (b <=? a) = true.
Proof. intros a b. rewrite !Z.leb_le. lia. Qed.

Lemma zleb_trans : forall a b c : Z, (a <=? b) = true -> (b <=? c) = true -> (a <=? c) = true.
Proof. intros a b c. rewrite !Z.leb_le. lia. Qed.

Lemma zleb_antisym : forall a b : Z, (a <=? b) = true -> (b <=? a) = true -> a = b.
Proof. intros a b. rewrite !Z.leb_le. lia. Qed.

(* ---- instance: strings (lists of code points) ---------------------------------------------------- *)
Lemma zlist_eqb_eq : forall a b, zlist_eqb a b = true <-> a = b.
Proof.
  unfold zlist_eqb. intros a. induction a as [|x a IH]; intros [|y b]; cbn [list_eqb].
  - split; reflexivity.
  - split; discriminate.
  - split; discriminate.
  - rewrite andb_true_iff, Z.eqb_eq, IH. split.
    + intros [-> ->]. reflexivity.
    + intros E. inversion E. split; reflexivity.
Qed.

Lemma str_leb_total : forall a b, str_leb a b = true \/ str_leb b a = true.
Proof.
  intros a. induction a as [|x a IH]; intros [|y b]; cbn [str_leb].
  - left. reflexivity.
  - left. reflexivity.
  - right. reflexivity.
  - rewrite (Z.eqb_sym y x). destruct (Z.eqb_spec x y) as [E|E].
    + apply IH.
    + rewrite !Z.ltb_lt. lia.
Qed.

Lemma str_leb_trans : forall a b c, str_leb a b = true -> str_leb b c = true -> str_leb a c = true.
Proof.
  intros a. induction a as [|x a IH]; intros [|y b] [|z c]; cbn [str_leb]; try (intros; reflexivity);
    try discriminate.
  destruct (Z.eqb_spec x y) as [E1|E1]; destruct (Z.eqb_spec y z) as [E2|E2];
    destruct (Z.eqb_spec x z) as [E3|E3]; rewrite ?Z.ltb_lt; intros A B; try lia.
  apply IH with b; assumption.
Qed.

Lemma str_leb_antisym : forall a b, str_leb a b = true -> str_leb b a = true -> a = b.
Proof.
  intros a. induction a as [|x a IH]; intros [|y b]; cbn [str_leb]; try reflexivity; try discriminate.
  rewrite (Z.eqb_sym y x). destruct (Z.eqb_spec x y) as [E|E].
  - intros A B. subst y. f_equal. apply IH; assumption.
  - rewrite !Z.ltb_lt. lia.
Qed.

Ltac hosts_side :=
  first [ exact zlist_eqb_eq | exact str_leb_total | exact str_leb_trans | exact str_leb_antisym
        | exact zeqb_eq | exact zleb_total | exact zleb_trans | exact zleb_antisym ].

(* ---- _normalize_hosts on strings ------------------------------------------------------------------ *)
Theorem hosts_str_sorted : forall items,
  StronglySorted (fun a b => hp_leb str_leb zlist_eqb a b && negb (hp_eqb zlist_eqb a b) = true)
                 (normalize_hosts_str items).
Proof.
  intros items. unfold normalize_hosts_str.
  apply (normalize_hosts_sorted str_leb zlist_eqb str_strip); hosts_side.
Qed.

Theorem hosts_str_nodup : forall items, NoDup (normalize_hosts_str items).
Proof. intros items. unfold normalize_hosts_str. apply normalize_hosts_nodup; hosts_side. Qed.

Theorem hosts_str_in : forall x items,
  In x (normalize_hosts_str items) <-> In x (map (norm_item str_strip) items).
Proof. intros x items. unfold normalize_hosts_str. apply normalize_hosts_in; hosts_side. Qed.

Theorem hosts_str_idem : forall items,
  normalize_hosts_str (map (fun hp => HTuple (fst hp) (snd hp)) (normalize_hosts_str items))
  = normalize_hosts_str items.
Proof. intros items. unfold normalize_hosts_str. apply normalize_hosts_idem; hosts_side. Qed.

Theorem hosts_str_order_irrelevant : forall items items',
  Permutation items items' -> normalize_hosts_str items = normalize_hosts_str items'.
Proof.
  intros items items' P. unfold normalize_hosts_str. apply normalize_hosts_perm_invariant; try hosts_side.
  exact P.
Qed.

Theorem hosts_str_members_determine : forall items items',
  (forall x, In x (map (norm_item str_strip) items) <-> In x (map (norm_item str_strip) items')) ->
  normalize_hosts_str items = normalize_hosts_str items'.
Proof.
  intros items items' M. unfold normalize_hosts_str. apply normalize_hosts_ext; try hosts_side.
  exact M.
Qed.

(* ---- _normalize_hosts on integer host names (the histories of ClientRun) --------------------------- *)
Theorem hosts_z_sorted : forall items,
  StronglySorted (fun a b => hp_leb Z.leb Z.eqb a b && negb (hp_eqb Z.eqb a b) = true)
                 (normalize_hosts_z items).
Proof.
  intros items. unfold normalize_hosts_z.
  apply (normalize_hosts_sorted Z.leb Z.eqb (fun h : Z => h)); hosts_side.
Qed.

Theorem hosts_z_nodup : forall items, NoDup (normalize_hosts_z items).
Proof. intros items. unfold normalize_hosts_z. apply normalize_hosts_nodup; hosts_side. Qed.

Theorem hosts_z_in : forall x items,
  In x (normalize_hosts_z items) <-> In x (map (norm_item (fun h : Z => h)) items).
Proof. intros x items. unfold normalize_hosts_z. apply normalize_hosts_in; hosts_side. Qed.

Theorem hosts_z_idem : forall items,
  normalize_hosts_z (map (fun hp => HTuple (fst hp) (snd hp)) (normalize_hosts_z items))
  = normalize_hosts_z items.
Proof. intros items. unfold normalize_hosts_z. apply normalize_hosts_idem; hosts_side. Qed.

Theorem hosts_z_order_irrelevant : forall items items',
  Permutation items items' -> normalize_hosts_z items = normalize_hosts_z items'.
Proof.
  intros items items' P. unfold normalize_hosts_z. apply normalize_hosts_perm_invariant; try hosts_side.
  exact P.
Qed.

Theorem hosts_z_members_determine : forall items items',
  (forall x, In x (map (norm_item (fun h : Z => h)) items) <-> In x (map (norm_item (fun h : Z => h)) items')) ->
  normalize_hosts_z items = normalize_hosts_z items'.
Proof.
  intros items items' M. unfold normalize_hosts_z. apply normalize_hosts_ext; try hosts_side.
  exact M.
Qed.
