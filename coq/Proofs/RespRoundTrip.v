(* C05, part 2: every response decoder of afkak (Model.Responses) inverts the independent grammar encoder
   (Model.KafkaSpecResp) on every well-formed abstract response (Model.RespView: the wf_ and view_ functions).

   Every lemma is stated in the general form  decode (spec_encode r ++ rest) = view r  (bytes after the response are
   ignored by afkak); the theorems in Props/C05.v are the instances rest = [].
   No bound on the number of topics / partitions / members / brokers (other than afkak's MAX_BROKERS and the
   INT32 count field itself), on string lengths (other than the INT16 / INT32 length fields), or on values. *)
From Coq Require Import Lia.
From AV Require Import Base.Util Model.Prim Model.Crc Model.MsgSet Model.KafkaSpecResp Model.Responses Model.RespView
     Proofs.PrimFacts Proofs.RespPrim.

Ltac norm := rewrite <- ?app_assoc.
Ltac rd :=
  first [ rewrite rd_i32 by assumption | rewrite rd_i16 by assumption | rewrite rd_i64 by assumption
        | rewrite rd_short_ascii by assumption | rewrite rd_short_text by assumption
        | rewrite rd_bytes by assumption | rewrite rd_nullable_bytes by assumption
        | rewrite rd_short_bytes_nullable by assumption ];
  cbn [bind].

(* ================================================================== Heartbeat / LeaveGroup / SyncGroup *)
Lemma errcode_rt r rest : wf_errcode r = true -> decode_error_only (enc_errcode r ++ rest) = Ok (se_error r).
Proof.
  unfold wf_errcode, i32, i16. intros H. split_andb. unfold decode_error_only, enc_errcode. norm.
  rd. rd. reflexivity.
Qed.

Lemma sync_rt r rest :
  wf_sync r = true -> decode_sync_group_response (enc_sync r ++ rest) = Ok (ss_error r, Some (ss_assignment r)).
Proof.
  unfold wf_sync, i32, i16. intros H. split_andb. unfold decode_sync_group_response, enc_sync. norm.
  rd. rd. rd. reflexivity.
Qed.

(* ================================================================== FindCoordinator *)
Lemma coordinator_rt r rest :
  wf_coordinator r = true -> decode_consumermetadata_response (enc_coordinator r ++ rest) = Ok (view_coordinator r).
Proof.
  unfold wf_coordinator, i32, i16. intros H. split_andb. unfold decode_consumermetadata_response, enc_coordinator. norm.
  rd. rd. rd. rd. rd. reflexivity.
Qed.

(* ================================================================== get_response_correlation_id *)
Lemma correlation_rt corr rest : i32 corr = true -> get_response_correlation_id (INT32 corr ++ rest) = Ok corr.
Proof. unfold i32. intros H. unfold get_response_correlation_id. rd. reflexivity. Qed.

(* ================================================================== ApiVersions *)
Lemma enc_apikey_length k : length (enc_apikey k) = 6%nat.
Proof. reflexivity. Qed.

Lemma apikeys_length ks : length (flat_map enc_apikey ks) = (6 * length ks)%nat.
Proof.
  induction ks as [|k ks IH]; [reflexivity|]. cbn [flat_map]. rewrite app_length, enc_apikey_length, IH. cbn [length]. lia.
Qed.

Lemma read_api_version_ok k rest :
  wf_apikey k = true ->
  read_api_version (enc_apikey k ++ rest) = Ok (mk_api_version (sa_key k) (sa_min k) (sa_max k), rest).
Proof.
  unfold wf_apikey, i16. intros H. split_andb. unfold read_api_version, enc_apikey. norm. rd. rd. rd. reflexivity.
Qed.

Lemma iter_unpack_ok ks : forall fuel,
  forallb wf_apikey ks = true -> (length ks <= fuel)%nat ->
  iter_unpack read_api_version fuel (flat_map enc_apikey ks)
  = Ok (map (fun k => mk_api_version (sa_key k) (sa_min k) (sa_max k)) ks).
Proof.
  induction ks as [|k ks IH]; intros fuel H Hf; [destruct fuel; reflexivity|].
  cbn [forallb] in H. split_andb. cbn [flat_map].
  destruct fuel as [|f]; [cbn in Hf; lia|].
  assert (E : exists b t, enc_apikey k ++ flat_map enc_apikey ks = b :: t) by (eexists; eexists; reflexivity).
  destruct E as (b & t & E). cbn [iter_unpack]. rewrite E. rewrite <- E.
  rewrite read_api_version_ok by assumption. cbn [bind].
  rewrite IH by (try assumption; cbn in Hf; lia). reflexivity.
Qed.

Lemma apiversions_rt r :
  wf_apiversions r = true -> decode_api_versions_response (enc_apiversions r) = Ok (view_apiversions r).
Proof.
  unfold wf_apiversions, array_ok, i32, i16. intros H. split_andb.
  unfold decode_api_versions_response, enc_apiversions, ARRAY. norm.
  rd. rd. rewrite rd_i32 by now apply blen_i32. cbn [bind].
  unfold len. rewrite apikeys_length.
  replace (Z.of_nat (6 * length (sv_keys r)) mod 6 =? 0) with true.
  2:{ symmetry. apply Z.eqb_eq. rewrite Nat2Z.inj_mul, Z.mul_comm. apply Z.mod_mul. lia. }
  cbn [negb]. rewrite iter_unpack_ok by (try assumption; lia). reflexivity.
Qed.

(* ================================================================== the five topic/partition generators *)
Lemma ARRAY_length_pos {A} (enc : A -> list Z) xs : (1 <= length (ARRAY enc xs))%nat.
Proof. unfold ARRAY. rewrite app_length, INT32_length. lia. Qed.

Section Topics.
  Context {T A B : Type}.
  Variable part : list Z -> list Z -> gen B.
  Variable enc_topic : T -> list Z.
  Variable name : T -> list Z.
  Variable parts : T -> list A.
  Variable enc : A -> list Z.
  Variable item : list Z -> A -> B.
  Variable p : A -> bool.
  Variable wf_topic : T -> bool.
  Hypothesis enc_topic_eq : forall t, enc_topic t = STRING (name t) ++ ARRAY enc (parts t).
  Hypothesis wf_topic_eq : forall t, wf_topic t = ascii_string (name t) && array_ok p (parts t).
  Hypothesis part_ok : forall nm x rest, p x = true -> part nm (enc x ++ rest) = ([item nm x], Ok rest).
  Hypothesis enc_pos : forall x, p x = true -> (1 <= length (enc x))%nat.

  Definition items_of (topics : list T) : list B := flat_map (fun t => map (item (name t)) (parts t)) topics.

  Lemma topics_loop_ok topics rest :
    forallb wf_topic topics = true ->
    loop (by_topic part) (blen topics) (flat_map enc_topic topics ++ rest) = (items_of topics, Ok rest).
  Proof.
    intros H.
    apply (loop_ok (by_topic part) enc_topic (fun t => map (item (name t)) (parts t)) (fun t => wf_topic t = true)).
    - intros t r Ht. rewrite wf_topic_eq in Ht. split_andb. rewrite enc_topic_eq. norm.
      apply (by_topic_ok part enc item p); auto.
    - intros t _. rewrite enc_topic_eq, app_length. pose proof (STRING_length_pos (name t)). lia.
    - now apply Forall_forallb.
  Qed.

  Lemma topics_after_header_ok corr topics rest :
    i32 corr = true -> array_ok wf_topic topics = true ->
    topics_after_header part (INT32 corr ++ ARRAY enc_topic topics ++ rest) = (items_of topics, Ok rest).
  Proof.
    unfold i32, array_ok. intros Hc H. split_andb. unfold topics_after_header, ARRAY. norm.
    rd. rewrite rd_i32 by now apply blen_i32. cbn [bind]. now apply topics_loop_ok.
  Qed.
End Topics.

(* ------------------------------------------------------------------ Produce v0 / v2 *)
Lemma produce_part_v0_ok nm x rest :
  wf_produce_part x = true ->
  produce_part_v0 nm (enc_produce_part 0 x ++ rest)
  = ([mk_produce_item nm (spp_index x) (spp_error x) (spp_base_offset x)], Ok rest).
Proof.
  unfold wf_produce_part, i32, i16, i64. intros H. split_andb. unfold produce_part_v0, enc_produce_part.
  change (2 <=? 0) with false. cbv iota. rewrite app_nil_r. norm. rd. rd. rd. reflexivity.
Qed.
Lemma produce_part_v2_ok nm x rest :
  wf_produce_part x = true ->
  produce_part_v2 nm (enc_produce_part 2 x ++ rest)
  = ([mk_produce_item nm (spp_index x) (spp_error x) (spp_base_offset x)], Ok rest).
Proof.
  unfold wf_produce_part, i32, i16, i64. intros H. split_andb. unfold produce_part_v2, enc_produce_part.
  change (2 <=? 2) with true. cbv iota. norm. rd. rd. rd. rd. reflexivity.
Qed.

Lemma produce_v0_rt r rest :
  wf_produce r = true ->
  decode_produce_response 0 (enc_produce 0 r ++ rest) = Some (view_produce r, Ok rest).
Proof.
  unfold wf_produce. intros H. split_andb. unfold decode_produce_response, decode_produce_v0, enc_produce.
  change (0 =? 0) with true. change (1 <=? 0) with false. cbv iota. rewrite app_nil_r. norm. f_equal.
  apply (topics_after_header_ok produce_part_v0 (enc_produce_topic 0) spt_name spt_parts (enc_produce_part 0)
           (fun nm x => mk_produce_item nm (spp_index x) (spp_error x) (spp_base_offset x)) wf_produce_part wf_produce_topic);
    try assumption; try reflexivity.
  - intros. now apply produce_part_v0_ok.
  - intros x _. unfold enc_produce_part. rewrite app_length, INT32_length. lia.
Qed.

Lemma produce_v2_rt ver r rest :
  2 <= ver -> wf_produce r = true ->
  decode_produce_response ver (enc_produce 2 r ++ rest) = Some (view_produce r, Ok rest).
Proof.
  unfold wf_produce, i32. intros Hv H. split_andb. unfold decode_produce_response, decode_produce_v2, enc_produce.
  replace (ver =? 0) with false by (symmetry; apply Z.eqb_neq; lia).
  replace (1 <=? ver) with true by (symmetry; apply Z.leb_le; lia).
  change (1 <=? 2) with true. cbv iota. norm. f_equal.
  rewrite (topics_after_header_ok produce_part_v2 (enc_produce_topic 2) spt_name spt_parts (enc_produce_part 2)
           (fun nm x => mk_produce_item nm (spp_index x) (spp_error x) (spp_base_offset x)) wf_produce_part wf_produce_topic);
    try assumption; [|reflexivity|reflexivity| |].
  - cbv iota beta. rd. reflexivity.
  - intros. now apply produce_part_v2_ok.
  - intros x _. unfold enc_produce_part. rewrite app_length, INT32_length. lia.
Qed.

(* ------------------------------------------------------------------ ListOffsets v0 *)
Ltac rdcount := rewrite rd_i32 by (apply blen_i32; assumption); cbn [bind].

Lemma read_i64s_ok xs rest :
  forallb in_i64 xs = true -> read_n read_i64 (blen xs) (flat_map INT64 xs ++ rest) = Ok (xs, rest).
Proof.
  intros H. rewrite (read_n_ok read_i64 INT64 (fun x => x) (fun x => in_i64 x = true)).
  - now rewrite map_id_ext.
  - intros x r Hx. now apply rd_i64.
  - intros x _. rewrite INT64_length. lia.
  - now apply Forall_forallb.
Qed.

Lemma offset_part_ok nm x rest :
  wf_offsets_part x = true ->
  offset_part nm (enc_offsets_part x ++ rest) = ([mk_offset_item nm (sop_index x) (sop_error x) (sop_offsets x)], Ok rest).
Proof.
  unfold wf_offsets_part, array_ok, i32, i16, i64. intros H. split_andb.
  unfold offset_part, enc_offsets_part, ARRAY. norm. rd. rd. rdcount.
  rewrite read_i64s_ok by assumption. reflexivity.
Qed.

Lemma offsets_rt r rest :
  wf_offsets r = true -> decode_offset_response (enc_offsets r ++ rest) = (view_offsets r, Ok rest).
Proof.
  unfold wf_offsets. intros H. split_andb. unfold decode_offset_response, enc_offsets. norm.
  apply (topics_after_header_ok offset_part enc_offsets_topic sot_name sot_parts enc_offsets_part
           (fun nm x => mk_offset_item nm (sop_index x) (sop_error x) (sop_offsets x)) wf_offsets_part wf_offsets_topic);
    try assumption; try reflexivity.
  - intros. now apply offset_part_ok.
  - intros x _. unfold enc_offsets_part. rewrite app_length, INT32_length. lia.
Qed.

(* ------------------------------------------------------------------ OffsetCommit *)
Lemma commit_part_ok nm x rest :
  wf_commit_part x = true ->
  commit_part nm (enc_commit_part x ++ rest) = ([mk_commit_item nm (scp_index x) (scp_error x)], Ok rest).
Proof.
  unfold wf_commit_part, i32, i16. intros H. split_andb. unfold commit_part, enc_commit_part. norm. rd. rd. reflexivity.
Qed.

Lemma commit_rt r rest :
  wf_commit r = true -> decode_offset_commit_response (enc_commit r ++ rest) = (view_commit r, Ok rest).
Proof.
  unfold wf_commit. intros H. split_andb. unfold decode_offset_commit_response, enc_commit. norm.
  apply (topics_after_header_ok commit_part enc_commit_topic sct_name sct_parts enc_commit_part
           (fun nm x => mk_commit_item nm (scp_index x) (scp_error x)) wf_commit_part wf_commit_topic);
    try assumption; try reflexivity.
  - intros. now apply commit_part_ok.
  - intros x _. unfold enc_commit_part. rewrite app_length, INT32_length. lia.
Qed.

(* ------------------------------------------------------------------ OffsetFetch *)
Lemma ofetch_part_ok nm x rest :
  wf_ofetch_part x = true ->
  ofetch_part nm (enc_ofetch_part x ++ rest)
  = ([mk_ofetch_item nm (sgp_index x) (sgp_offset x) (sgp_metadata x) (sgp_error x)], Ok rest).
Proof.
  unfold wf_ofetch_part, i32, i16, i64. intros H. split_andb. unfold ofetch_part, enc_ofetch_part. norm.
  rd. rd. rd. rd. reflexivity.
Qed.

Lemma ofetch_rt r rest :
  wf_ofetch r = true -> decode_offset_fetch_response (enc_ofetch r ++ rest) = (view_ofetch r, Ok rest).
Proof.
  unfold wf_ofetch. intros H. split_andb. unfold decode_offset_fetch_response, enc_ofetch. norm.
  apply (topics_after_header_ok ofetch_part enc_ofetch_topic sgt_name sgt_parts enc_ofetch_part
           (fun nm x => mk_ofetch_item nm (sgp_index x) (sgp_offset x) (sgp_metadata x) (sgp_error x))
           wf_ofetch_part wf_ofetch_topic);
    try assumption; try reflexivity.
  - intros. now apply ofetch_part_ok.
  - intros x _. unfold enc_ofetch_part. rewrite app_length, INT32_length. lia.
Qed.

(* ------------------------------------------------------------------ Fetch v0 / v2 (the record sets are handed to
   the message-set decoder as they are; null = empty): Proofs/RespMsgSet.v says what that decoder yields *)
Lemma fetch_part_ok depth orc nm x rest :
  wf_fetch_part x = true ->
  fetch_part depth orc nm (enc_fetch_part x ++ rest)
  = ([mk_fetch_item nm (sfp_index x) (sfp_error x) (sfp_hwm x) (dec_set depth orc (records_bytes x))], Ok rest).
Proof.
  unfold wf_fetch_part, i32, i16, i64. intros H. split_andb. unfold fetch_part, enc_fetch_part. norm.
  rd. rd. rd. rd. reflexivity.
Qed.

Lemma fetch_v0_rt depth orc r rest :
  wf_fetch r = true ->
  decode_fetch_response 0 depth orc (enc_fetch 0 r ++ rest) = (view_fetch depth orc r, Ok rest).
Proof.
  unfold wf_fetch. intros H. split_andb. unfold decode_fetch_response, enc_fetch.
  change (0 =? 0) with true. change (1 <=? 0) with false. cbv iota. rewrite app_nil_l. norm.
  apply (topics_after_header_ok (fetch_part depth orc) enc_fetch_topic sft_name sft_parts enc_fetch_part
           (fun nm x => mk_fetch_item nm (sfp_index x) (sfp_error x) (sfp_hwm x) (dec_set depth orc (records_bytes x)))
           wf_fetch_part wf_fetch_topic);
    try assumption; try reflexivity.
  - intros. now apply fetch_part_ok.
  - intros x _. unfold enc_fetch_part. rewrite app_length, INT32_length. lia.
Qed.

Lemma fetch_v2_rt ver depth orc r rest :
  2 <= ver -> wf_fetch r = true ->
  decode_fetch_response ver depth orc (enc_fetch 2 r ++ rest) = (view_fetch depth orc r, Ok rest).
Proof.
  unfold wf_fetch, array_ok, i32. intros Hv H. split_andb. unfold decode_fetch_response, enc_fetch, ARRAY.
  replace (ver =? 0) with false by (symmetry; apply Z.eqb_neq; lia).
  replace (2 <=? ver) with true by (symmetry; apply Z.leb_le; lia).
  change (1 <=? 2) with true. cbv iota. norm. rd. rd. rdcount.
  apply (topics_loop_ok (fetch_part depth orc) enc_fetch_topic sft_name sft_parts enc_fetch_part
           (fun nm x => mk_fetch_item nm (sfp_index x) (sfp_error x) (sfp_hwm x) (dec_set depth orc (records_bytes x)))
           wf_fetch_part wf_fetch_topic);
    try assumption; try reflexivity.
  - intros. now apply fetch_part_ok.
  - intros x _. unfold enc_fetch_part. rewrite app_length, INT32_length. lia.
Qed.

(* ================================================================== Metadata v0 *)
Lemma read_broker_ok b rest : wf_broker b = true -> read_broker (enc_broker b ++ rest) = Ok (view_broker b, rest).
Proof.
  unfold wf_broker, i32. intros H. split_andb. unfold read_broker, enc_broker. norm. rd. rd. rd. reflexivity.
Qed.

Lemma read_partition_metadata_ok nm x rest :
  wf_meta_part x = true ->
  read_partition_metadata nm (enc_meta_part x ++ rest) = Ok (view_meta_part nm x, rest).
Proof.
  unfold wf_meta_part, array_ok, i32, i16. intros H. split_andb.
  unfold read_partition_metadata, enc_meta_part, ARRAY. norm. rd. rd. rd. rdcount.
  rewrite read_ints_ok by assumption. cbn [bind]. rdcount.
  rewrite read_ints_ok by assumption. reflexivity.
Qed.

Lemma read_topic_metadata_ok t rest :
  wf_meta_topic t = true -> read_topic_metadata (enc_meta_topic t ++ rest) = Ok (view_meta_topic t, rest).
Proof.
  unfold wf_meta_topic, array_ok, i16. intros H. split_andb.
  unfold read_topic_metadata, enc_meta_topic, ARRAY. norm. rd. rd. rdcount.
  rewrite (read_n_ok (read_partition_metadata (smt_name t)) enc_meta_part (view_meta_part (smt_name t))
             (fun x => wf_meta_part x = true)).
  - cbn [bind]. unfold view_meta_topic. now rewrite !map_map.
  - intros. now apply read_partition_metadata_ok.
  - intros x _. unfold enc_meta_part. rewrite app_length, INT16_length. lia.
  - now apply Forall_forallb.
Qed.

Lemma metadata_rt r rest :
  wf_metadata r = true -> decode_metadata_response (enc_metadata r ++ rest) = Ok (view_metadata r).
Proof.
  unfold wf_metadata, array_ok, i32. intros H. split_andb.
  unfold decode_metadata_response, enc_metadata, ARRAY. norm. rd.
  match goal with Hb : (blen (sm_brokers r) <=? MAX_BROKERS) = true |- _ => pose proof Hb as Hb'; apply Z.leb_le in Hb' end.
  unfold MAX_BROKERS in *. pose proof (blen_nonneg (sm_brokers r)).
  rewrite rd_i32 by (apply i32_range; lia). cbn [bind].
  replace (1024 <? blen (sm_brokers r)) with false by (symmetry; apply Z.ltb_ge; lia).
  rewrite (read_n_ok read_broker enc_broker view_broker (fun x => wf_broker x = true)).
  - cbn [bind]. rdcount.
    rewrite <- (app_nil_r (flat_map enc_meta_topic (sm_topics r) ++ rest)). norm.
    rewrite (read_n_ok read_topic_metadata enc_meta_topic view_meta_topic (fun x => wf_meta_topic x = true)).
    + cbn [bind]. unfold view_metadata. now rewrite !map_map.
    + intros. now apply read_topic_metadata_ok.
    + intros x _. unfold enc_meta_topic. rewrite app_length, INT16_length. lia.
    + now apply Forall_forallb.
  - intros. now apply read_broker_ok.
  - intros x _. unfold enc_broker. rewrite app_length, INT32_length. lia.
  - now apply Forall_forallb.
Qed.

(* ================================================================== JoinGroup v0 *)
Lemma read_join_member_ok m rest :
  wf_member m = true ->
  read_join_member (enc_member m ++ rest) = Ok (mk_join_member (smb_id m) (Some (smb_metadata m)), rest).
Proof.
  unfold wf_member. intros H. split_andb. unfold read_join_member, enc_member. norm. rd. rd. reflexivity.
Qed.

Lemma join_rt r rest : wf_join r = true -> decode_join_group_response (enc_join r ++ rest) = Ok (view_join r).
Proof.
  unfold wf_join, array_ok, i32, i16. intros H. split_andb. unfold decode_join_group_response, enc_join, ARRAY. norm.
  rd. rd. rd. rd. rd. rd. rdcount.
  rewrite (read_n_ok read_join_member enc_member (fun m => mk_join_member (smb_id m) (Some (smb_metadata m)))
             (fun x => wf_member x = true)).
  - reflexivity.
  - intros. now apply read_join_member_ok.
  - intros x _. unfold enc_member. rewrite app_length. pose proof (STRING_length_pos (smb_id x)). lia.
  - now apply Forall_forallb.
Qed.

(* ================================================================== the consumer protocol's embedded structures *)
Lemma subscription_rt r rest :
  wf_subscription r = true ->
  decode_join_group_protocol_metadata (enc_subscription r ++ rest) = Ok (view_subscription r).
Proof.
  unfold wf_subscription, array_ok, i16. intros H. split_andb.
  unfold decode_join_group_protocol_metadata, enc_subscription, ARRAY. norm. rd. rdcount.
  rewrite (read_n_ok read_short_text STRING (fun s => s) (fun s => text_string s = true)).
  - cbn [bind]. rd. unfold view_subscription. now rewrite map_id_ext.
  - intros. now apply rd_short_text.
  - intros x _. apply STRING_length_pos.
  - now apply Forall_forallb.
Qed.

Lemma read_assigned_ok a rest :
  wf_assigned a = true -> read_assigned (enc_assigned a ++ rest) = Ok ((sas_topic a, sas_partitions a), rest).
Proof.
  unfold wf_assigned, array_ok, i32. intros H. split_andb. unfold read_assigned, enc_assigned, ARRAY. norm.
  rd. rdcount. rewrite read_ints_ok by assumption. reflexivity.
Qed.

Lemma assignment_rt r rest :
  wf_assignment r = true ->
  decode_sync_group_member_assignment (enc_assignment r ++ rest) = Ok (view_assignment r).
Proof.
  unfold wf_assignment, array_ok. intros H. split_andb.
  match goal with Hv : (asg_version r =? 0) = true |- _ => pose proof Hv as Hv'; apply Z.eqb_eq in Hv' end.
  unfold decode_sync_group_member_assignment, enc_assignment, ARRAY. norm.
  rewrite rd_i16 by (rewrite Hv'; reflexivity). cbn [bind]. rdcount.
  replace (asg_version r =? 0) with true. cbn [negb].
  rewrite (read_n_ok read_assigned enc_assigned (fun a => (sas_topic a, sas_partitions a)) (fun x => wf_assigned x = true)).
  - cbn [bind]. rd. reflexivity.
  - intros. now apply read_assigned_ok.
  - intros x _. unfold enc_assigned. rewrite app_length. pose proof (STRING_length_pos (sas_topic x)). lia.
  - now apply Forall_forallb.
Qed.
