(* The statements of Props/C15.v, at the level of the member list the leader receives. *)
From AV Require Import Base.Util Proofs.UtilFacts Model.Assign Proofs.AssignOrder Proofs.AssignDict
  Proofs.AssignRR Proofs.AssignThms Proofs.AssignCodec Proofs.AssignLeader.
From Coq Require Import Lia Sorting.Permutation.

Lemma c15_assign_defined members tp :
  let md := build_md members in
  match leader_assign members tp with
  | Ok _ => all_topics md <> [] /\ forall t, In t (all_topics md) -> dict_get tp t <> None
  | Err EAssert => all_topics md = []
  | Err (ENeed ts) => ts = str_sort (all_topics md) /\ exists t, In t ts /\ dict_get tp t = None
  | Err _ => False
  end.
Proof. apply round_robin_defined. apply build_md_nodup. Qed.

Lemma c15_all_topics members t :
  In t (all_topics (build_md members)) <-> some_subscriber (build_md members) t = true.
Proof. apply all_topics_spec. apply build_md_nodup. Qed.

Lemma c15_exactly_one members tp a : leader_assign members tp = Ok a ->
  let md := build_md members in
  NoDup (map fst md) /\
  (forall m, In m (map fst md) <-> In m (map fst members)) /\
  (forall t p, assigned_count a (map fst md) t p =
               if some_subscriber md t then count_occ Z.eq_dec (parts_of tp t) p else 0%nat) /\
  (forall t p, some_subscriber md t = true -> NoDup (parts_of tp t) -> In p (parts_of tp t) ->
               assigned_count a (map fst md) t p = 1%nat) /\
  (forall m, In m (map fst a) -> In m (map fst members)) /\
  NoDup (map fst a) /\ (forall m, NoDup (map fst (asg_get a m))).
Proof.
  intros H md. pose proof (build_md_nodup members) as N. fold md in N.
  destruct (round_robin_exactly_one md tp a N H) as [C K].
  split; [exact N|]. split; [intro m; apply build_md_keys|]. split; [exact C|]. split; [|split].
  - intros t p Hs Nd Hin. rewrite C, Hs. now apply NoDup_count_occ'.
  - intros m Hm. apply build_md_keys. now apply K.
  - exact (round_robin_distinct md tp a H).
Qed.

Lemma c15_only_subscribed members tp a : leader_assign members tp = Ok a ->
  forall m t, In t (map fst (asg_get a m)) ->
    In m (map fst members) /\ subscribed (build_md members) m t = true.
Proof.
  intros H m t Ht. destruct (round_robin_only_subscribed _ _ _ H m t Ht) as [H1 H2].
  split; [now apply build_md_keys | assumption].
Qed.

Lemma c15_only_listed members tp a : leader_assign members tp = Ok a ->
  forall m t p, In p (parts_of (asg_get a m) t) ->
    subscribed (build_md members) m t = true /\ In p (parts_of tp t).
Proof.
  intros H m t p Hp. split.
  - apply (c15_only_subscribed members tp a H m t). eapply parts_of_in_key. eassumption.
  - eapply round_robin_parts_listed; eassumption.
Qed.

Lemma c15_balanced members tp a : leader_assign members tp = Ok a ->
  let md := build_md members in
  (forall m1 m2 t, In m1 (map fst members) -> In m2 (map fst members) -> subscribed md m1 t = subscribed md m2 t) ->
  forall m1 m2, In m1 (map fst members) -> In m2 (map fst members) ->
    (asg_size (asg_get a m1) <= asg_size (asg_get a m2) + 1)%nat.
Proof.
  intros H md Hs m1 m2 H1 H2. apply (round_robin_balanced md tp a (build_md_nodup members) H).
  - intros x y t Hx Hy. apply Hs; now apply build_md_keys.
  - now apply build_md_keys.
  - now apply build_md_keys.
Qed.

Lemma encode_all_perm a ids ids' : Permutation ids ids' -> forall out, encode_all a ids = Ok out ->
  exists out', encode_all a ids' = Ok out' /\ Permutation out out'.
Proof.
  induction 1 as [|x l l' P IH|x y l|l l' l'' P1 IH1 P2 IH2]; intros out; cbn [encode_all].
  - intros [= <-]. eauto.
  - intro H. apply bind_ok in H. destruct H as (b & Hb & H). apply bind_ok in H. destruct H as (o & Ho & H).
    injection H as <-. destruct (IH o Ho) as (o' & E & Po). rewrite Hb, E. cbn [bind]. eauto.
  - intro H. apply bind_ok in H. destruct H as (by_ & Hy & H). apply bind_ok in H. destruct H as (o1 & H1 & H).
    injection H as <-. apply bind_ok in H1. destruct H1 as (bx & Hx & H1). apply bind_ok in H1. destruct H1 as (o & Ho & H1).
    injection H1 as <-. rewrite Hx, Hy, Ho. cbn [bind]. eexists. split; [reflexivity | apply perm_swap].
  - intro H. destruct (IH1 out H) as (o' & E' & P'). destruct (IH2 o' E') as (o'' & E'' & P'').
    exists o''. split; [assumption | eapply Permutation_trans; eassumption].
Qed.

Lemma c15_perm_invariant members members' tp tp' :
  NoDup (map fst members) -> Permutation members members' -> tp_equiv tp tp' ->
  leader_assign members tp = leader_assign members' tp' /\
  (forall out, generate_assignments members tp = Ok out ->
     exists out', generate_assignments members' tp' = Ok out' /\ Permutation out out').
Proof.
  intros N P Q.
  assert (N' : NoDup (map fst members')) by (eapply Permutation_NoDup; [apply Permutation_map; exact P | exact N]).
  assert (E : leader_assign members tp = leader_assign members' tp').
  { unfold leader_assign. rewrite (build_md_id members N), (build_md_id members' N'). now apply round_robin_perm. }
  split; [exact E|]. unfold generate_assignments. rewrite <- E. intros out H.
  apply bind_ok in H. destruct H as (a & Ha & H). rewrite Ha. cbn [bind].
  eapply encode_all_perm; [|exact H]. apply Permutation_map. exact P.
Qed.

(* with a repeated member id the later metadata wins, so the listing order can matter *)
Lemma c15_perm_distinct_ids_needed :
  exists members members' tp, Permutation members members' /\
    leader_assign members tp <> leader_assign members' tp.
Proof.
  exists [([97], [[116]]); ([97], [[117]])], [([97], [[117]]); ([97], [[116]])], [([116], [0]); ([117], [1])].
  split; [apply perm_swap|]. vm_compute. discriminate.
Qed.
