(* Interpreting the translated source of KafkaCodec._decode_message / _decode_message_set_iter (Model.DecAst, message-set
   language Model.MsgDSL) IS Model.MsgSet.dec_message / dec_loop / dec_set, for every input, oracle and nesting budget. *)
From Coq Require Import Lia.
From AV Require Import Base.Util Model.Prim Model.Crc Model.MsgSet Model.MsgDSL Model.DecDSL Model.ReadDSL Model.DecAst.

Arguments mexec rec orc helper data !p !s /.
Arguments sexec decode_message !p !s /.

(* ------------------------------------------------------------------ absolute *)
Lemma sound_absolute off inner :
  arun (mp_absolute ast_msg__decode_message) off inner = wrap_v1 off inner.
Proof.
  destruct inner as [ms [e|]]; [reflexivity|].
  unfold arun, wrap_v1, absolute, last_offset. cbn [mp_absolute ast_msg__decode_message aexec mget mset].
  destruct ms as [|m0 ms]; [reflexivity|].
  destruct (rev (m0 :: ms)) as [|[lo mm] r] eqn:R.
  { apply (f_equal (@length omsg)) in R. rewrite rev_length in R. discriminate. }
  cbn [aexec mget mset app]. reflexivity.
Qed.

(* ------------------------------------------------------------------ _decode_message *)
Ltac mdsl := cbn [mexec mthen mlift munpack_seq bind mset_all mset mget geti geto ms_env ms_rest fst snd app repeat yield_from
                  mp_body mp_nvars mp_offset_slot mp_absolute].

Lemma sound_decode_message rec rec' orc data off :
  (forall x, rec x = rec' x) ->
  mrun ast_msg__decode_message rec orc data off = dec_message rec' orc data off.
Proof.
  intros Hrec. unfold mrun, dec_message.
  change (mp_absolute ast_msg__decode_message) with (mp_absolute ast_msg__decode_message).
  set (helper := mp_absolute ast_msg__decode_message).
  unfold ast_msg__decode_message at 1 2 3. unfold read_u32, read_u8, read_i64. mdsl.
  destruct data as [d|]; [|reflexivity]. mdsl.
  destruct (unpack FI d) as [[crc r1]|e]; mdsl; [|reflexivity].
  destruct (unpack FB r1) as [[magic r2]|e]; mdsl; [|reflexivity].
  destruct (unpack FB r2) as [[att r3]|e]; mdsl; [|reflexivity].
  destruct (negb (crc =? crc32 (drop 4 d))); mdsl; [reflexivity|].
  unfold dec_payload, ATTRIBUTE_CODEC_MASK, CODEC_NONE, CODEC_GZIP, CODEC_SNAPPY.
  destruct (magic =? 0) eqn:M0.
  - mdsl. destruct (read_int_string r3) as [[key r4]|e]; mdsl; [|reflexivity].
    destruct (read_int_string r4) as [[value r5]|e]; mdsl; [|reflexivity].
    destruct (Z.land att 3 =? 0); mdsl; [reflexivity|].
    destruct (Z.land att 3 =? 1); mdsl.
    { unfold CODEC_GZIP. change (1 =? 1) with true. cbv iota. destruct (gzip_decode orc value) as [gz|e]; mdsl; [|reflexivity].
      rewrite Hrec. unfold wrap_v0. destruct (rec' gz) as [ys [e|]]; mdsl; now rewrite ?app_nil_r. }
    destruct (Z.land att 3 =? 2); mdsl; [|reflexivity].
    unfold CODEC_GZIP. change (2 =? 1) with false. cbv iota. destruct (snappy_decode orc value) as [sn|e]; mdsl; [|reflexivity].
    rewrite Hrec. unfold wrap_v0. destruct (rec' sn) as [ys [e|]]; mdsl; now rewrite ?app_nil_r.
  - mdsl. destruct (magic =? 1) eqn:M1; mdsl; [|reflexivity].
    destruct (unpack Fq r3) as [[ts r4]|e]; mdsl; [|reflexivity].
    destruct (read_int_string r4) as [[key r5]|e]; mdsl; [|reflexivity].
    destruct (read_int_string r5) as [[value r6]|e]; mdsl; [|reflexivity].
    destruct (Z.land att 3 =? 0); mdsl; [reflexivity|].
    destruct (Z.land att 3 =? 1); mdsl.
    { unfold CODEC_GZIP. change (1 =? 1) with true. cbv iota. destruct (gzip_decode orc value) as [gz|e]; mdsl; [|reflexivity].
      unfold helper. rewrite sound_absolute, Hrec. destruct (wrap_v1 off (rec' gz)) as [ys [e|]]; mdsl; now rewrite ?app_nil_r. }
    destruct (Z.land att 3 =? 2); mdsl; [|reflexivity].
    unfold CODEC_GZIP. change (2 =? 1) with false. cbv iota. destruct (snappy_decode orc value) as [sn|e]; mdsl; [|reflexivity].
    unfold helper. rewrite sound_absolute, Hrec. destruct (wrap_v1 off (rec' sn)) as [ys [e|]]; mdsl; now rewrite ?app_nil_r.
Qed.

(* ------------------------------------------------------------------ _decode_message_set_iter *)
Definition finish (o : sout) : dres :=
  match o with
  | (ys, SNext _) => (ys, None)
  | (ys, SRet) => (ys, None)
  | (ys, SRaised e _) => (ys, Some e)
  end.

Ltac sdsl := cbn [sexec sthen slift munpack_seq bind mset_all mset mget sgeti ss_env ss_rest fst snd app repeat finish
                  sp_body sp_nvars].

Lemma unpack_err f d e : unpack f d = Err e -> e = Underflow.
Proof. unfold unpack. destruct (Nat.ltb (length d) (fmt_size f)); now intros [= <-]. Qed.

Section SetIter.
  Variable rec : list Z -> dres.
  Variable orc : oracle.
  Variable dm : option (list Z) -> Z -> dres.
  Hypothesis dm_ok : forall m o, dm m o = dec_message rec orc m o.

  Definition loop_body : sstmt :=
    SsTry (SsSeq (SsUnpack [Fq] [1%nat]) (SsSeq (SsReadIntString 2) (SsSeq (SsCallMessage 3 2 1) (SsForYield 3 0))))
          (SsIfFlagFalse 0 (SsRaise FetchTooSmall) SsReturn).

  Lemma sound_loop : forall n data read t1 t2 t3 t4,
    finish (swhile (sexec dm loop_body) n (mk_sstate [MB read; t1; t2; t3; t4] data)) = dec_loop rec orc n data read.
  Proof.
    induction n as [|n IH]; intros data read t1 t2 t3 t4.
    - destruct data; reflexivity.
    - destruct data as [|b0 data]; [reflexivity|].
      cbn [swhile ss_rest dec_loop]. set (d := b0 :: data). unfold loop_body at 1. unfold read_i64. sdsl.
      destruct (unpack Fq d) as [[off r1]|e] eqn:U; sdsl.
      2:{ apply unpack_err in U. subst e. destruct read; sdsl; reflexivity. }
      destruct (read_int_string r1) as [[msg r2]|e]; sdsl.
      2:{ destruct e; destruct read; sdsl; reflexivity. }
      rewrite dm_ok. destruct (dec_message rec orc msg off) as [ys out]. sdsl.
      destruct out as [e|].
      + destruct ys as [|y ys]; sdsl.
        * destruct e; destruct read; sdsl; rewrite ?app_nil_r; reflexivity.
        * rewrite orb_true_r. destruct e; sdsl; rewrite ?app_nil_r; reflexivity.
      + destruct ys as [|y ys]; sdsl.
        * rewrite orb_false_r. specialize (IH r2 read (MI off) (MO msg) (MG ([], None)) t4).
          fold loop_body. destruct (swhile (sexec dm loop_body) n {| ss_env := [MB read; MI off; MO msg; MG ([], None); t4]; ss_rest := r2 |}) as [zs [s'| |e s']];
            cbn [finish] in IH; rewrite <- IH; reflexivity.
        * rewrite orb_true_r. specialize (IH r2 true (MI off) (MO msg) (MG (y :: ys, None)) t4).
          fold loop_body. destruct (swhile (sexec dm loop_body) n {| ss_env := [MB true; MI off; MO msg; MG (y :: ys, None); t4]; ss_rest := r2 |}) as [zs [s'| |e s']];
            cbn [finish] in IH; rewrite <- IH; reflexivity.
  Qed.

  Lemma sound_set_iter data :
    srun dm ast_msg__decode_message_set_iter data = dec_loop rec orc (length data) data false.
  Proof.
    rewrite <- (sound_loop (length data) data false MU MU MU MU).
    unfold srun, ast_msg__decode_message_set_iter. sdsl. fold loop_body.
    destruct (swhile (sexec dm loop_body) (length data) {| ss_env := [MB false; MU; MU; MU; MU]; ss_rest := data |}) as [zs [s'| |e s']]; reflexivity.
  Qed.
End SetIter.

(* the two translated functions calling each other = Model.MsgSet.dec_set *)
Theorem sound_dec_set orc : forall depth data,
  dsl_dec_set ast_msg__decode_message ast_msg__decode_message_set_iter depth orc data = dec_set depth orc data.
Proof.
  induction depth as [|d IH]; intros data; [reflexivity|].
  cbn [dsl_dec_set dec_set].
  apply (sound_set_iter (dec_set d orc) orc). intros m o. now apply sound_decode_message.
Qed.

(* closed forms for Props/C05gen.v *)
Lemma sound_decode_message_closed rec orc data off :
  mrun ast_msg__decode_message rec orc data off = dec_message rec orc data off.
Proof. apply sound_decode_message. reflexivity. Qed.

Lemma sound_set_iter_closed rec orc data :
  srun (dec_message rec orc) ast_msg__decode_message_set_iter data = dec_loop rec orc (length data) data false.
Proof. apply sound_set_iter. reflexivity. Qed.
