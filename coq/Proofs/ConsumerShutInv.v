(* C13, shutdown bookkeeping, part 2: every reachable state has consistent shutdown bookkeeping - _shuttingdown is set exactly
   while the shutdown Deferred is pending, and then the continuation that completes the shutdown is registered: on the pending
   processor result or among the commit waiters.  Consequence: a stop() that returns always clears the bookkeeping. *)
From Coq Require Import Lia.
From AV Require Import Base.Util Model.Consumer Proofs.ConsumerBase Proofs.ConsumerFrame Proofs.ConsumerStop Proofs.ConsumerShutFlags
  Proofs.ConsumerShutInvRC.
Open Scope Z_scope.

Definition pcont (p : option (Z * list Z * bool)) : bool := match p with Some (_, _, c) => c | None => false end.
Definition shutw (s : state) : bool := existsb is_shut_cd (s_cds s).
Definition Fe (s : state) : Prop := s_shutting s = s_shutd s.
Definition Hc (s : state) : Prop := s_shutd s = true -> pcont (s_proc s) = true \/ shutw s = true.
Definition I13 (s : state) : Prop := s_mblock s = None -> s_proc s = None.
Definition Rr (s : state) : Prop := rcall_stale s = true -> s_startd s = None \/ s_stopping s = true.
Definition Base (s : state) : Prop := I13 s /\ Rr s.
Definition MBs (s s' : state) : Prop := s_mblock s' = s_mblock s \/ s_startd s' = None.

Lemma has_cont_pc s : has_cont s = pcont (s_proc s) || shutw s.
Proof. reflexivity. Qed.

(* a stop() that returned: what it leaves *)
Ltac fws := repeat match goal with
  | E : run ?f ?k ?a = (?r, ?b, ?o1), Hf : fuel_ok ?o1 = true |- _ =>
    let S := fresh "S" in assert (S : s_stopping a = true) by (psimpl; congruence);
    let I3 := fresh "I3" in pose proof (run_stop _ _ _ _ _ _ E Hf) as I3; cbn beta iota in I3; specialize (I3 S);
    let A := fresh "A" in destruct I3 as (I3 & _ & A); cbn [achieves] in A; pose proof (i_stopping _ _ I3); clear E
  | E : stop_req ?a = (_, ?b, _) |- _ =>
    apply stop_req_in in E; [|psimpl; congruence]; destruct E as (E & _ & _); pose proof (i_stopping _ _ E)
  | E : stop_mblock ?a = (_, ?b, _) |- _ =>
    let Mb := fresh "Mb" in apply stop_mblock_in in E; destruct E as (E & _ & Mb); pose proof (i_stopping _ _ E)
  | E : stop_rcall ?a = (_, ?b, _) |- _ => apply stop_rcall_in in E; destruct E as (E & _ & _); pose proof (i_stopping _ _ E)
  | E : stop_ccall ?a = (_, ?b, _) |- _ => apply stop_ccall_in in E; destruct E as (E & _ & _); pose proof (i_stopping _ _ E)
  | E : stop_looper ?a = (_, ?b, _) |- _ => apply stop_looper_in in E; destruct E as (E & _ & _); pose proof (i_stopping _ _ E)
  | E : stop_susp ?a = (_, ?b, _) |- _ => apply stop_susp_in in E; destruct E as (E & _ & _); pose proof (i_stopping _ _ E)
  end.

Lemma stop_ok_state fuel s s' o : run fuel KStop s = (Ok tt, s', o) -> fuel_ok o = true ->
  s_startd s' = None /\ s_mblock s' = None /\ s_proc s' = None /\ s_stopping s' = false /\ (s_shutd s = false -> s_shutd s' = false).
Proof.
  intros H Hf. destruct fuel as [|f]; [cbn [run] in H; mi H|].
  cbn [run] in H. cbn [body] in H. unfold stop_startd, stop_proc, stop_creq, handle_commit_error in H.
  change (is_cancel FK_CANCELLED) with true in H.
  mi H; fuel_split; res_inv; fws.
  all: try (match goal with Hr : Ok _ = Exc _ |- _ => discriminate Hr end).
  all: match goal with |- s_startd (set_startd None (set_stopping false ?x)) = None /\ _ =>
         assert (Hm : s_mblock x = None)
           by (match goal with Mb : s_mblock ?b = None |- _ => apply (i_mblock b x); [in3_chain | exact Mb] end);
         assert (Hp : s_proc x = None)
           by (match goal with A : s_proc ?b = None |- _ => apply (i_proc b x); [in3_chain | exact A] end);
         assert (Hi : In3 (set_stopping true s) x) by in3_chain;
         psimpl; repeat split; auto; intro Hsd; apply (proj2 (i_shut _ _ Hi)); psimpl; exact Hsd
       end.
Qed.

Lemma stop_restop fuel s r s' o : run fuel KStop s = (r, s', o) -> fuel_ok o = true -> s_startd s = None -> s' = s.
Proof.
  intros H Hf Hs. destruct fuel as [|f]; [cbn [run] in H; mi H; discriminate Hf|].
  cbn [run] in H. cbn [body] in H. mi H. reflexivity.
Qed.

(* stop() entered with _stopping clear, in a state with sound base facts *)
Theorem stop_sb fuel s r s' o : run fuel KStop s = (r, s', o) -> fuel_ok o = true -> Base s -> s_stopping s = false ->
  Base s' /\ MBs s s' /\ (s_proc s = None -> s_proc s' = None) /\ s_stopping s' = false /\
  (Fe s -> Hc s -> Fe s' /\ Hc s') /\ (s_shutd s = false -> s_shutd s' = false) /\ (s_startd s <> None -> r = Ok tt).
Proof.
  intros H Hf (Hi & Hr) Hst. destruct (s_startd s) eqn:Esd.
  - assert (Hns : rcall_stale s = false).
    { destruct (rcall_stale s) eqn:Es; [|reflexivity]. destruct (Hr Es) as [Hx|Hx]; congruence. }
    assert (Er : r = Ok tt) by (apply (stop_returns_ok _ _ _ _ _ H Hf); [rewrite Esd; discriminate | exact Hns]).
    subst r. destruct (stop_ok_state _ _ _ _ H Hf) as (S1 & S2 & S3 & S4 & S5).
    split; [split; [intros _; exact S3 | intros _; left; exact S1]|].
    split; [right; exact S1|]. split; [intros _; exact S3|]. split; [exact S4|]. split; [|split; [exact S5 | reflexivity]].
    intros HF HC. assert (Hsc : SC s').
    { apply (stop_clears _ _ _ _ H Hf Hst).
      - intro Hd. rewrite has_cont_pc. apply orb_true_iff. unfold Hc, shutw in HC. exact (HC Hd).
      - intro Hg. unfold Fe in HF. congruence. }
    destruct Hsc as (X1 & X2). split; [unfold Fe; congruence | intro Hd; congruence].
  - pose proof (stop_restop _ _ _ _ _ H Hf Esd) as ->.
    split; [split; assumption|]. split; [left; reflexivity|]. repeat split; auto. intro Hx. exfalso. apply Hx. reflexivity.
Qed.
