(* C05, part 3: message sets.  afkak's message-set decoder (Model.MsgSet.dec_set = _decode_message_set_iter with
   _decode_message) inverts the grammar's message-set encoder (Model.KafkaSpecResp.enc_kforest) on trees of plain
   messages and compressed wrappers of ANY nesting depth, both message formats, null / empty / arbitrary keys and
   values, any timestamps and offsets, and reports the messages inside a wrapper at the offsets the protocol
   defines (Model.KafkaSpecResp.log_of: format 0 as stored, format 1 relocated to end at the wrapper's offset).

   The compression codec is a Section oracle: [gz] is the function the encoder compressed with, [orc] the oracle the
   decoder decompresses with; the only thing assumed is the round-trip law  gz_dec orc (gz x) = Ok x. *)
From Coq Require Import Lia.
From AV Require Import Base.Util Model.Prim Model.Crc Model.MsgSet Model.KafkaSpecResp Model.Responses Model.RespView
     Proofs.PrimFacts Proofs.CrcBurst Proofs.DecodeTotal Proofs.RespPrim Proofs.RespRoundTrip.

(* ------------------------------------------------------------------ one message *)
Lemma rd_nullable_bytes_end b : opt_long_bytes b = true -> read_int_string (NULLABLE_BYTES b) = Ok (b, []).
Proof. intros H. rewrite <- (app_nil_r (NULLABLE_BYTES b)). now apply rd_nullable_bytes. Qed.

Lemma opt_bytes_long o : opt_bytes_ok o = true -> opt_long_bytes o = true.
Proof. destruct o as [b|]; cbn; [|reflexivity]. intros H. now split_andb. Qed.

Lemma NULLABLE_BYTES_bytes o : opt_bytes_ok o = true -> bytes_ok (NULLABLE_BYTES o) = true.
Proof.
  destruct o as [b|]; cbn [opt_bytes_ok NULLABLE_BYTES]; intros H.
  - split_andb. unfold BYTES. now rewrite bytes_ok_app, INT32_bytes.
  - apply INT32_bytes.
Qed.

Lemma kmsg_body_bytes m :
  opt_bytes_ok (k_key m) = true -> opt_bytes_ok (k_value m) = true -> bytes_ok (enc_kmsg_body m) = true.
Proof.
  intros Hk Hv. unfold enc_kmsg_body.
  rewrite !bytes_ok_app, !INT8_bytes, !NULLABLE_BYTES_bytes by assumption.
  destruct (k_magic m =? 1); [rewrite INT64_bytes|]; reflexivity.
Qed.

(* _decode_message on a message of the grammar: checksum accepted, every field read back, then the codec switch *)
Lemma dec_message_spec rec orc m off :
  wf_kmsg_common m = true ->
  dec_message rec orc (Some (enc_kmsg m)) off
  = dec_payload rec orc (k_magic m) (k_attr m) off (k_key m) (k_value m)
                (if (k_magic m =? 1) then Some (k_ts m) else None).
Proof.
  unfold wf_kmsg_common, i64. intros H. split_andb.
  pose proof (kmsg_body_bytes m ltac:(assumption) ltac:(assumption)) as Hb.
  pose proof (crc32_range _ Hb) as Hc.
  assert (Hm : in_u8 (k_magic m) = true).
  { match goal with Hx : (_ || _) = true |- _ => pose proof Hx as Hor end.
    apply orb_prop in Hor. destruct Hor as [Hx|Hx]; apply Z.eqb_eq in Hx; rewrite Hx; reflexivity. }
  unfold dec_message, enc_kmsg.
  rewrite rd_u32 by (apply u32_range; lia). cbn [bind].
  change (drop 4 (INT32 (crc32 (enc_kmsg_body m)) ++ enc_kmsg_body m)) with (enc_kmsg_body m).
  unfold enc_kmsg_body at 1 2.
  rewrite rd_u8 by assumption. cbn [bind]. rewrite rd_u8 by assumption. cbn [bind]. cbv iota beta.
  rewrite Z.eqb_refl. cbn [negb].
  destruct (k_magic m =? 0) eqn:M0.
  - apply Z.eqb_eq in M0. rewrite M0. change (0 =? 1) with false. cbv iota. rewrite app_nil_l.
    rewrite rd_nullable_bytes by now apply opt_bytes_long. cbn [bind].
    rewrite rd_nullable_bytes_end by now apply opt_bytes_long. cbn [bind]. reflexivity.
  - destruct (k_magic m =? 1) eqn:M1.
    + norm. rewrite rd_i64 by assumption. cbn [bind].
      rewrite rd_nullable_bytes by now apply opt_bytes_long. cbn [bind].
      rewrite rd_nullable_bytes_end by now apply opt_bytes_long. cbn [bind]. reflexivity.
    + match goal with Hx : (_ || _) = true |- _ => discriminate Hx end.
Qed.

(* ------------------------------------------------------------------ one entry of a message set *)
Lemma enc_entry_cons off msg rest : exists b t, enc_entry off msg ++ rest = b :: t.
Proof. eexists. eexists. reflexivity. Qed.

Lemma dec_loop_entry rec orc n off msg rest read :
  i64 off = true -> long_bytes msg = true ->
  dec_loop rec orc (S n) (enc_entry off msg ++ rest) read
  = let (ys, out) := dec_message rec orc (Some msg) off in
    let read' := read || nonempty ys in
    match out with
    | None => let (ys2, out2) := dec_loop rec orc n rest read' in (ys ++ ys2, out2)
    | Some e => (ys, on_error read' e)
    end.
Proof.
  unfold i64. intros Ho Hl. rewrite dec_loop_unfold.
  destruct (enc_entry_cons off msg rest) as (b & t & E). rewrite E. rewrite <- E.
  unfold header, enc_entry. norm. rewrite rd_i64 by assumption. cbn [bind].
  change (INT32 (blen msg) ++ msg ++ rest) with (BYTES msg ++ rest).
  rewrite rd_bytes by assumption. cbn [bind]. reflexivity.
Qed.

(* ------------------------------------------------------------------ offsets inside a wrapper *)
Lemma last_offset_view l : last_offset (view_log l) = last_off l.
Proof.
  unfold last_offset, last_off, view_log. rewrite <- map_rev. destruct (rev l) as [|[o m] r]; reflexivity.
Qed.

Lemma absolute_view off l : absolute off (view_log l) = view_log (relocate off l).
Proof.
  unfold absolute, relocate. rewrite last_offset_view. destruct (last_off l) as [lo|]; [|reflexivity].
  unfold view_log. rewrite !map_map. apply map_ext. intros [o m]. cbn [fst snd]. f_equal. lia.
Qed.

Lemma view_log_app a b : view_log (a ++ b) = view_log a ++ view_log b.
Proof. apply map_app. Qed.

(* afkak's two-bit codec mask agrees with the protocol's three-bit field on the codecs 0..3 *)
Lemma land7_land3 a c : Z.land a 7 = c -> Z.land a 3 = Z.land c 3.
Proof. intros <-. rewrite <- Z.land_assoc. reflexivity. Qed.

(* ------------------------------------------------------------------ trees *)
Lemma kdepth_forest_cons t ts : kdepth_forest (t :: ts) = Nat.max (kdepth t) (kdepth_forest ts).
Proof. reflexivity. Qed.

Lemma enc_ktree_length_pos gz t : (1 <= length (enc_ktree gz t))%nat.
Proof. destruct t; cbn [enc_ktree]; unfold enc_entry; rewrite app_length, INT64_length; lia. Qed.

Lemma enc_kforest_length gz ts : (length ts <= length (enc_kforest gz ts))%nat.
Proof.
  unfold enc_kforest. apply (flat_map_length_ge (enc_ktree gz) (fun _ => True)).
  - intros t _. apply enc_ktree_length_pos.
  - apply Forall_forall. trivial.
Qed.

(* decompression as _decode_message selects it from the codec bits *)
Definition decompress (orc : oracle) (c : Z) (v : option (list Z)) : res (list Z) :=
  if (c =? CODEC_GZIP) then gzip_decode orc v else snappy_decode orc v.

Section MsgSet.
  Variable gz : list Z -> list Z.        (* the compression function the encoder used *)
  Variable orc : oracle.                 (* the codec the decoder calls *)
  Variable codec : Z.                    (* the codec number the wrappers announce *)
  Hypothesis codec_known : codec = CODEC_GZIP \/ codec = CODEC_SNAPPY.
  Hypothesis codec_roundtrip : forall x, decompress orc codec (Some (gz x)) = Ok x.

  Definition decodes (d : nat) (ts : list ktree) : Prop :=
    dec_set d orc (enc_kforest gz ts) = (view_log (log_of_forest ts), None).

  (* the loop over one level, given that the level below decodes ([d] = depth budget of the nested calls) *)
  Lemma forest_loop d :
    (forall kids, (kdepth_forest kids < d)%nat -> forallb (wf_ktree_c codec gz) kids = true -> decodes d kids) ->
    forall ts n read,
      (kdepth_forest ts < S d)%nat -> forallb (wf_ktree_c codec gz) ts = true -> (length ts <= n)%nat ->
      dec_loop (dec_set d orc) orc n (enc_kforest gz ts) read = (view_log (log_of_forest ts), None).
  Proof.
    intros IHd. induction ts as [|t ts IH]; intros n read Hd Hwf Hn.
    - destruct n; reflexivity.
    - destruct n as [|n]; [cbn in Hn; lia|].
      rewrite kdepth_forest_cons in Hd. cbn [forallb] in Hwf. split_andb.
      pose proof (fun r => IH n r ltac:(unfold kdepth_forest in *; lia) ltac:(assumption) ltac:(cbn in Hn; lia)) as IHts.
      change (enc_kforest gz (t :: ts)) with (enc_ktree gz t ++ enc_kforest gz ts).
      change (log_of_forest (t :: ts)) with (log_of t ++ log_of_forest ts). rewrite view_log_app.
      destruct t as [off m | off magic attr tsv key kids].
      + (* a plain message *)
        cbn [wf_ktree_c] in *. split_andb. unfold wf_kmsg in *. split_andb.
        assert (Hlen : long_bytes (enc_kmsg m) = true).
        { match goal with Hc : wf_kmsg_common m = true |- _ => unfold wf_kmsg_common in Hc; split_andb end.
          unfold long_bytes. assumption. }
        cbn [enc_ktree log_of]. rewrite dec_loop_entry by assumption.
        rewrite dec_message_spec by assumption. unfold dec_payload.
        match goal with Hc : (Z.land (k_attr m) 7 =? 0) = true |- _ => apply Z.eqb_eq in Hc; apply land7_land3 in Hc; cbn [Z.land] in Hc; unfold ATTRIBUTE_CODEC_MASK; rewrite Hc end.
        change (0 =? CODEC_NONE) with true. cbv iota beta. rewrite IHts. reflexivity.
      + (* a compressed wrapper *)
        cbn [wf_ktree_c kdepth] in *. split_andb. unfold wf_kwrap_c in *. split_andb.
        set (inner := flat_map (enc_ktree gz) kids) in *.
        set (w := mk_kmsg magic attr tsv key (Some (gz inner))) in *.
        assert (Hlen : long_bytes (enc_kmsg w) = true).
        { match goal with Hc : wf_kmsg_common w = true |- _ => unfold wf_kmsg_common in Hc; split_andb end.
          unfold long_bytes. assumption. }
        assert (Hmag : magic = 0 \/ magic = 1).
        { match goal with Hc : wf_kmsg_common w = true |- _ => unfold wf_kmsg_common in Hc; split_andb end.
          match goal with Hx : (_ || _) = true |- _ => apply orb_prop in Hx; destruct Hx as [Hx|Hx]; apply Z.eqb_eq in Hx; cbn in Hx; auto end. }
        cbn [enc_ktree log_of]. fold inner. fold w. rewrite dec_loop_entry by assumption.
        rewrite dec_message_spec by assumption. unfold dec_payload. cbn [k_magic k_attr k_key k_value k_ts w].
        match goal with Hc : (Z.land (k_attr w) 7 =? codec) = true |- _ => apply Z.eqb_eq in Hc; cbn [k_attr w] in Hc; apply land7_land3 in Hc; unfold ATTRIBUTE_CODEC_MASK; rewrite Hc end.
        assert (Hc3 : Z.land codec 3 = codec) by (destruct codec_known as [-> | ->]; reflexivity). rewrite Hc3.
        assert (Hk : dec_set d orc inner = (view_log (log_of_forest kids), None)).
        { apply IHd; [unfold kdepth_forest in *; lia|assumption]. }
        pose proof (codec_roundtrip inner) as Hrt. unfold decompress in Hrt.
        cbv zeta.
        assert (Hfin : (let (ys, out) := (if magic =? 0 then wrap_v0 else wrap_v1 off) (view_log (log_of_forest kids), None) in
                        match out with
                        | Some e => (ys, on_error (read || nonempty ys) e)
                        | None => let (ys2, out2) := dec_loop (dec_set d orc) orc n (enc_kforest gz ts) (read || nonempty ys) in
                                  (ys ++ ys2, out2)
                        end)
                       = (view_log (if magic =? 0 then flat_map log_of kids else relocate off (flat_map log_of kids))
                          ++ view_log (log_of_forest ts), None)).
        { destruct Hmag as [-> | ->].
          - change (0 =? 0) with true. cbv iota beta. unfold wrap_v0. rewrite IHts. reflexivity.
          - change (1 =? 0) with false. cbv iota beta. unfold wrap_v1. rewrite absolute_view, IHts. reflexivity. }
        destruct codec_known as [Ec | Ec]; rewrite Ec in Hrt |- *.
        * change (CODEC_GZIP =? CODEC_NONE) with false. change (CODEC_GZIP =? CODEC_GZIP) with true in *.
          cbv iota in Hrt |- *. rewrite Hrt, Hk. exact Hfin.
        * change (CODEC_SNAPPY =? CODEC_NONE) with false. change (CODEC_SNAPPY =? CODEC_GZIP) with false in *.
          change (CODEC_SNAPPY =? CODEC_SNAPPY) with true. cbv iota in Hrt |- *. rewrite Hrt, Hk. exact Hfin.
  Qed.

  (* message trees of any nesting depth *)
  Theorem msgset_rt_c : forall d ts,
    (kdepth_forest ts < d)%nat -> forallb (wf_ktree_c codec gz) ts = true -> decodes d ts.
  Proof.
    induction d as [|d IHd]; intros ts Hd Hwf; [lia|].
    unfold decodes. cbn [dec_set]. apply forest_loop; try assumption. apply enc_kforest_length.
  Qed.
End MsgSet.

(* gzip *)
Theorem msgset_rt gz orc :
  (forall x, gz_dec orc (gz x) = Ok x) ->
  forall d ts, (kdepth_forest ts < d)%nat -> forallb (wf_ktree gz) ts = true -> decodes gz orc d ts.
Proof.
  intros H. apply (msgset_rt_c gz orc CODEC_GZIP); [now left|]. intros x. exact (H x).
Qed.

(* snappy, where the library is installed *)
Theorem msgset_rt_snappy sn orc :
  sn_avail orc = true -> (forall x, sn_dec orc (sn x) = Ok x) ->
  forall d ts, (kdepth_forest ts < d)%nat -> forallb (wf_ktree_c CODEC_SNAPPY sn) ts = true -> decodes sn orc d ts.
Proof.
  intros Ha H. apply (msgset_rt_c sn orc CODEC_SNAPPY); [now right|]. intros x.
  unfold decompress, snappy_decode. change (CODEC_SNAPPY =? CODEC_GZIP) with false. cbv iota. rewrite Ha. exact (H x).
Qed.

(* ------------------------------------------------------------------ a single wrapper: the offset law *)
Section Wrapper.
  Variable gz : list Z -> list Z.
  Variable orc : oracle.
  Hypothesis gz_roundtrip : forall x, gz_dec orc (gz x) = Ok x.

  Lemma tree_rt d t :
    (kdepth t < d)%nat -> wf_ktree gz t = true ->
    dec_set d orc (enc_ktree gz t) = (view_log (log_of t), None).
  Proof.
    intros Hd Hwf. pose proof (msgset_rt gz orc gz_roundtrip d [t]) as H. unfold decodes in H.
    cbn [enc_kforest flat_map log_of_forest] in H. rewrite !app_nil_r in H. apply H.
    - unfold kdepth_forest. cbn [map fold_right]. lia.
    - cbn [forallb]. now rewrite Hwf.
  Qed.

  (* format 0: the inner messages are reported with the offsets they carry *)
  Lemma wrapper_v0 d off attr ts key kids :
    (kdepth (KWrap off 0 attr ts key kids) < d)%nat -> wf_ktree gz (KWrap off 0 attr ts key kids) = true ->
    dec_set d orc (enc_ktree gz (KWrap off 0 attr ts key kids)) = (view_log (log_of_forest kids), None).
  Proof. intros Hd Hwf. now rewrite tree_rt. Qed.

  (* format 1: relocated so that the last inner message sits at the wrapper's offset *)
  Lemma wrapper_v1 d off attr ts key kids :
    (kdepth (KWrap off 1 attr ts key kids) < d)%nat -> wf_ktree gz (KWrap off 1 attr ts key kids) = true ->
    dec_set d orc (enc_ktree gz (KWrap off 1 attr ts key kids)) = (view_log (relocate off (log_of_forest kids)), None).
  Proof. intros Hd Hwf. now rewrite tree_rt. Qed.
End Wrapper.

(* relocate, spelled out: wrapper_offset - last_inner + inner, messages untouched, the last one at wrapper_offset *)
Lemma relocate_spec {A} W (l : list (Z * A)) o m :
  relocate W (l ++ [(o, m)]) = map (fun om => (W - o + fst om, snd om)) (l ++ [(o, m)]).
Proof. unfold relocate, last_off. rewrite rev_app_distr. reflexivity. Qed.

Lemma relocate_last {A} W (l : list (Z * A)) o m :
  relocate W (l ++ [(o, m)]) = relocate W (l ++ [(o, m)]) /\
  exists l', relocate W (l ++ [(o, m)]) = l' ++ [(W, m)] /\ map snd l' = map snd l.
Proof.
  split; [reflexivity|]. rewrite relocate_spec, map_app. eexists. split.
  - cbn [map fst snd]. replace (W - o + o) with W by lia. reflexivity.
  - rewrite map_map. reflexivity.
Qed.

Lemma relocate_nil {A} W : relocate W (@nil (Z * A)) = [].
Proof. reflexivity. Qed.

(* a broker numbers the inner messages 0..n-1: the wrapper at W holds W-n+1 .. W *)
Lemma relocate_broker {A} W (l : list (Z * A)) :
  map fst l = map Z.of_nat (seq 0 (length l)) ->
  map fst (relocate W l) = map (fun i => W - Z.of_nat (length l) + 1 + Z.of_nat i) (seq 0 (length l)).
Proof.
  intros H. destruct (rev l) as [|[o m] r] eqn:R.
  - apply (f_equal (@rev (Z * A))) in R. rewrite rev_involutive in R. subst l. reflexivity.
  - apply (f_equal (@rev (Z * A))) in R. rewrite rev_involutive in R. cbn [rev] in R. subst l.
    set (l' := rev r) in *. rewrite app_length in *. cbn [length] in *. rewrite Nat.add_1_r in *.
    rewrite seq_S, !map_app in H. cbn [map fst Nat.add] in H. apply app_inj_tail in H. destruct H as [H Ho].
    rewrite relocate_spec, map_map. cbn [fst].
    rewrite <- (map_map fst (fun o' => W - o + o')), map_app, H. cbn [map fst].
    rewrite seq_S, !map_app. cbn [map Nat.add]. rewrite ?map_map. f_equal.
    + apply map_ext. intros i. lia.
    + f_equal. lia.
Qed.

(* ------------------------------------------------------------------ Fetch responses carrying message sets *)
Section FetchSets.
  Variable gz : list Z -> list Z.
  Variable orc : oracle.
  Hypothesis gz_roundtrip : forall x, gz_dec orc (gz x) = Ok x.

  Lemma forest_ok_decodes depth ts :
    forest_ok gz depth ts = true -> dec_set depth orc (enc_kforest gz ts) = (view_log (log_of_forest ts), None).
  Proof.
    unfold forest_ok. intros H. split_andb. apply (msgset_rt gz orc gz_roundtrip); [|assumption].
    now apply Nat.ltb_lt.
  Qed.

  Lemma records_of_trees depth p :
    forest_ok gz depth (trees_of p) = true ->
    dec_set depth orc (records_bytes (spec_fetch_part gz p)) = (view_log (log_of_forest (trees_of p)), None).
  Proof.
    intros H. unfold records_bytes, spec_fetch_part, trees_of in *. cbn [sfp_records].
    destruct (tfp_trees p) as [ts|]; [now apply forest_ok_decodes|].
    change (@nil Z) with (enc_kforest gz []) at 1. now apply forest_ok_decodes.
  Qed.

  Lemma view_fetch_trees depth r :
    forallb (fun t => forallb (fun p => forest_ok gz depth (trees_of p)) (tft_parts t)) (tf_topics r) = true ->
    view_fetch depth orc (spec_fetch gz r) = view_t_fetch r.
  Proof.
    intros H. unfold view_fetch, view_t_fetch, spec_fetch. cbn [sf_topics].
    induction (tf_topics r) as [|t ts IH]; [reflexivity|].
    cbn [forallb] in H. split_andb. cbn [map flat_map]. rewrite IH by assumption. f_equal.
    unfold spec_fetch_topic at 1 2. cbn [sft_name sft_parts]. rewrite map_map.
    match goal with Hp : forallb _ (tft_parts t) = true |- _ => revert Hp end.
    induction (tft_parts t) as [|p ps IHp]; intros Hp; [reflexivity|].
    cbn [forallb] in Hp. split_andb. cbn [map]. rewrite IHp by assumption. f_equal.
    rewrite (records_of_trees depth p) by assumption. reflexivity.
  Qed.

  Theorem fetch_sets_v0 depth r :
    wf_t_fetch gz depth r = true ->
    decode_fetch_response 0 depth orc (enc_fetch 0 (spec_fetch gz r)) = (view_t_fetch r, Ok []).
  Proof.
    unfold wf_t_fetch. intros H. split_andb.
    rewrite <- (app_nil_r (enc_fetch 0 (spec_fetch gz r))), fetch_v0_rt by assumption.
    now rewrite view_fetch_trees.
  Qed.

  Theorem fetch_sets_v2 ver depth r :
    2 <= ver -> wf_t_fetch gz depth r = true ->
    decode_fetch_response ver depth orc (enc_fetch 2 (spec_fetch gz r)) = (view_t_fetch r, Ok []).
  Proof.
    unfold wf_t_fetch. intros Hv H. split_andb.
    rewrite <- (app_nil_r (enc_fetch 2 (spec_fetch gz r))), fetch_v2_rt by assumption.
    now rewrite view_fetch_trees.
  Qed.
End FetchSets.

(* ------------------------------------------------------------------ KIP-31 derived, not assumed.
   [relocate] / the decoder's [absolute] characterised without their formula: a uniform shift (so every difference
   between inner offsets is kept), messages untouched, the last one exactly at the wrapper's offset.  These three
   facts determine the result uniquely. *)
Lemma last_off_map_shift {A} c (l : list (Z * A)) :
  last_off (map (fun om => (fst om + c, snd om)) l) = match last_off l with Some o => Some (o + c) | None => None end.
Proof. unfold last_off. rewrite <- map_rev. destruct (rev l) as [|[o m] r]; reflexivity. Qed.

Lemma relocate_characterised {A} W (l : list (Z * A)) :
  l <> [] ->
  exists c, relocate W l = map (fun om => (fst om + c, snd om)) l /\ last_off (relocate W l) = Some W.
Proof.
  intros Hne. unfold relocate. destruct (last_off l) as [lo|] eqn:L.
  - exists (W - lo). assert (E : map (fun om : Z * A => (W - lo + fst om, snd om)) l = map (fun om => (fst om + (W - lo), snd om)) l).
    { apply map_ext. intros [o m]. cbn [fst snd]. f_equal. lia. }
    rewrite E. split; [reflexivity|]. rewrite last_off_map_shift, L. f_equal. lia.
  - exfalso. unfold last_off in L. destruct (rev l) as [|[o m] r] eqn:R; [|discriminate].
    apply (f_equal (@rev (Z * A))) in R. rewrite rev_involutive in R. now subst.
Qed.

(* what the broker stored ([broker_batch_v1]: relative offsets a_i - base for ANY base, wrapper at the last absolute
   offset) comes back at the absolute offsets a_i, for ANY offsets a (dense, with gaps after compaction, first
   survivor not at the base, ...) *)
Lemma relocate_broker_batch {A} base (abs : list (Z * A)) :
  relocate (match last_off abs with Some a => a | None => 0 end) (map (fun am => (fst am - base, snd am)) abs) = abs.
Proof.
  unfold relocate. 
  assert (L : last_off (map (fun am : Z * A => (fst am - base, snd am)) abs)
              = match last_off abs with Some o => Some (o - base) | None => None end).
  { unfold last_off. rewrite <- map_rev. destruct (rev abs) as [|[o m] r]; reflexivity. }
  rewrite L. destruct (last_off abs) as [a|] eqn:La.
  - rewrite map_map. cbn [fst snd]. rewrite <- (map_id abs) at 2. apply map_ext. intros [o m]. cbn [fst snd]. f_equal. lia.
  - unfold last_off in La. destruct (rev abs) as [|[o m] r] eqn:R; [|discriminate].
    apply (f_equal (@rev (Z * A))) in R. rewrite rev_involutive in R. now subst.
Qed.

Lemma log_of_leaves (l : list (Z * kmsg)) : flat_map log_of (map (fun om => KLeaf (fst om) (snd om)) l) = l.
Proof. induction l as [|[o m] l IH]; [reflexivity|]. cbn [map flat_map log_of fst snd app]. now rewrite IH. Qed.

Section Kip31.
  Variable gz : list Z -> list Z.
  Variable orc : oracle.
  Hypothesis gz_roundtrip : forall x, gz_dec orc (gz x) = Ok x.

  Theorem broker_batch_v1_recovered d base attr ts key abs :
    (1 < d)%nat -> wf_ktree gz (broker_batch_v1 base attr ts key abs) = true ->
    dec_set d orc (enc_ktree gz (broker_batch_v1 base attr ts key abs)) = (view_log abs, None).
  Proof.
    intros Hd Hwf. rewrite (tree_rt gz orc gz_roundtrip d _); [|unfold broker_batch_v1; cbn [kdepth]|exact Hwf].
    - unfold broker_batch_v1. cbn [log_of]. change (1 =? 0) with false. cbv iota.
      rewrite <- (map_map (fun am => (fst am - base, snd am)) (fun om => KLeaf (fst om) (snd om))), log_of_leaves.
      now rewrite relocate_broker_batch.
    - assert (E : fold_right Nat.max 0%nat (map kdepth (map (fun am : Z * kmsg => KLeaf (fst am - base) (snd am)) abs)) = 0%nat).
      { clear Hwf. induction abs as [|x l IH]; [reflexivity|]. cbn [map fold_right kdepth]. now rewrite IH. }
      rewrite E. lia.
  Qed.

  Theorem broker_batch_v0_recovered d attr ts key abs :
    (1 < d)%nat -> wf_ktree gz (broker_batch_v0 attr ts key abs) = true ->
    dec_set d orc (enc_ktree gz (broker_batch_v0 attr ts key abs)) = (view_log abs, None).
  Proof.
    intros Hd Hwf. rewrite (tree_rt gz orc gz_roundtrip d _); [|unfold broker_batch_v0; cbn [kdepth]|exact Hwf].
    - unfold broker_batch_v0. cbn [log_of]. change (0 =? 0) with true. cbv iota. now rewrite log_of_leaves.
    - assert (E : fold_right Nat.max 0%nat (map kdepth (map (fun am : Z * kmsg => KLeaf (fst am) (snd am)) abs)) = 0%nat).
      { clear Hwf. induction abs as [|x l IH]; [reflexivity|]. cbn [map fold_right kdepth]. now rewrite IH. }
      rewrite E. lia.
  Qed.
End Kip31.
