(* Model/BrokerClientHook.v: the invariant and the trace scanner survive ANY calls user code makes from inside the two
   loops of _KafkaBrokerClient that fire Deferreds ((F) _sendQueued as it is now, (C) close()). *)
From AV Require Import Base.Util Proofs.UtilFacts Model.Framing Model.BrokerClient Model.BrokerClientHook
  Proofs.FramingFacts Proofs.BrokerClientTbl Proofs.BrokerClientInv Proofs.BrokerClientC06.
From Coq Require Import Lia Sorting.Sorted.

(* ------------------------------------------------------------------ table-level guarantee, the log of ids may grow *)
Definition ext_ok (t t' : tbl) (o : list output) : Prop :=
  TInv t' /\ (exists x, t_dlog t' = t_dlog t ++ x) /\ scan (t_dlog t') (t_fired t) o = Some (t_fired t').

Lemma ext_refl t : TInv t -> ext_ok t t [].
Proof. intro T. split; [exact T | split; [exists []; rewrite app_nil_r; reflexivity | reflexivity]]. Qed.

Lemma ext_trans t t1 t2 o1 o2 : ext_ok t t1 o1 -> ext_ok t1 t2 o2 -> ext_ok t t2 (o1 ++ o2).
Proof.
  intros (A1 & (x1 & D1) & S1) (A2 & (x2 & D2) & S2). split; [exact A2 | split].
  - exists (x1 ++ x2). rewrite D2, D1, app_assoc. reflexivity.
  - rewrite scan_app. rewrite D2. rewrite (scan_dlog_app _ x2 _ _ _ S1). rewrite <- D2. exact S2.
Qed.

Lemma op_ext t t' o : op_ok t t' o -> ext_ok t t' o.
Proof. intros (A & D & S). split; [exact A | split; [exists []; rewrite app_nil_r; exact D | rewrite D; exact S]]. Qed.

Lemma ext_neutral t o : TInv t ->
  (forall x, In x o -> x = OLose \/ x = OCancelAttempt \/ x = OCancelTimer \/ x = OCloseFired \/ x = ORaised 2 \/ x = ORaised 1) ->
  ext_ok t t o.
Proof.
  intros T H. split; [exact T | split; [exists []; rewrite app_nil_r; reflexivity|]].
  induction o as [|x o IH]; [reflexivity|].
  destruct (H x (or_introl eq_refl)) as [-> | [-> | [-> | [-> | [-> | ->]]]]]; cbn [scan Z.eqb]; apply IH;
    intros y Hy; apply H; right; exact Hy.
Qed.

(* new entries, if any, have been written and expect a reply; the others keep handle and flags *)
Definition grow_flags (t t' : tbl) : Prop :=
  forall x', In x' (t_reqs t') ->
    (exists x, In x (t_reqs t) /\ r_sent x' = r_sent x /\ r_expect x' = r_expect x /\ r_h x' = r_h x)
    \/ (r_sent x' = true /\ r_expect x' = true).

Lemma sub_grow t t' : sub_flags t t' -> grow_flags t t'.
Proof. intros S x' Hx'. left. exact (S x' Hx'). Qed.

Lemma grow_trans t1 t2 t3 : grow_flags t1 t2 -> grow_flags t2 t3 -> grow_flags t1 t3.
Proof.
  intros A B x3 H3. destruct (B x3 H3) as [(x2 & H2 & E1 & E2 & E3)|Y]; [|right; exact Y].
  destruct (A x2 H2) as [(x1 & H1 & F1 & F2 & F3)|[Y1 Y2]].
  - left. exists x1. repeat split; congruence.
  - right. split; congruence.
Qed.

(* ------------------------------------------------------------------ the two contexts *)
(* K: the client is closing (inside close()'s loop, or after a close() made from inside the flush) *)
Record KInv (s : state) : Prop := {
  ki_t : TInv (s_t s);
  ki_down : s_down s <> DNone;
  ki_conn : s_connector s = CNone \/ s_connector s = CStale;
  ki_pc : s_proto s = true -> s_connector s = CNone;
  ki_dp : s_down s = DPending -> s_proto s = true;
  ki_df : s_down s = DFired -> s_proto s = false
}.

(* L: inside the flush of _sendQueued: connected, no connector; open, or closed by a callback (table empty) *)
Record LInv (s : state) : Prop := {
  li_t : TInv (s_t s);
  li_proto : s_proto s = true;
  li_conn : s_connector s = CNone;
  li_down : s_down s = DNone \/ (s_down s = DPending /\ t_reqs (s_t s) = [])
}.

Definition same_conn (s s' : state) : Prop :=
  s_proto s' = s_proto s /\ s_connector s' = s_connector s /\ s_down s' = s_down s.

Lemma same_conn_refl s : same_conn s s. Proof. repeat split. Qed.
Lemma same_conn_trans a b c : same_conn a b -> same_conn b c -> same_conn a c.
Proof. intros (A1 & A2 & A3) (B1 & B2 & B3). repeat split; congruence. Qed.

Lemma KInv_same s s' : KInv s -> same_conn s s' -> TInv (s_t s') -> KInv s'.
Proof.
  intros [T D C PC DP DF] (E1 & E2 & E3) T'. constructor; auto; rewrite ?E1, ?E2, ?E3; auto.
Qed.

Lemma LInv_K s : LInv s -> s_down s <> DNone -> KInv s.
Proof.
  intros [T P C D] N. destruct D as [D|[D E]]; [contradiction|].
  constructor; auto; rewrite ?D; try discriminate; auto.
Qed.

(* ---- one call while the client is closing ---- *)
Lemma call0_K s c s' o : KInv s -> call0_step s c = (s', o) ->
  KInv s' /\ same_conn s s' /\ ext_ok (s_t s) (s_t s') o /\ sub_flags (s_t s) (s_t s').
Proof.
  intros K H. pose proof (ki_t s K) as T. destruct c as [h|rid ex| |]; cbn [call0_step step] in H.
  - (* cancel *)
    unfold lift in H. injection H as <- <-.
    pose proof (cancel_ok (s_t s) h _ _ T (surjective_pairing _)) as OK.
    pose proof (cancel_sub (s_t s) h) as S.
    assert (SC : same_conn s (with_t s (fst (cancel (s_t s) h)))) by (destruct s as [t0 p0 rx0 c0 d0 f0 a0]; repeat split).
    assert (E : s_t (with_t s (fst (cancel (s_t s) h))) = fst (cancel (s_t s) h)) by (destruct s as [t0 p0 rx0 c0 d0 f0 a0]; reflexivity).
    rewrite E. split; [|split; [exact SC | split; [apply op_ext; exact OK | exact S]]].
    eapply KInv_same; eauto. rewrite E. apply OK.
  - (* makeRequest: the client is closing *)
    unfold make_request in H. destruct (lookup rid (t_reqs (s_t s))) eqn:L.
    + injection H as <- <-. split; [exact K | split; [apply same_conn_refl | split; [|apply sub_flags_refl]]].
      apply ext_neutral; [exact T|]. intros x Hx. cbn in Hx. intuition (subst; auto 10).
    + pose proof (ki_down s K) as N.
      set (h := length (t_dlog (s_t s))) in *.
      assert (Hh : ~ In h (t_fired (s_t s))). { intro F. apply (ti_fired_lt _ T) in F. unfold h in F. lia. }
      assert (X : lift s (fire (mkT (t_reqs (s_t s)) (t_dlog (s_t s) ++ [rid]) (t_fired (s_t s))) h FailClosed) = (s', o)).
      { destruct (s_down s); [contradiction | exact H | exact H]. }
      clear H. rewrite fire_unfired in X by exact Hh. unfold lift in X. cbn [fst snd] in X. injection X as <- <-.
      assert (E : s_t (with_t s (mkT (t_reqs (s_t s)) (t_dlog (s_t s) ++ [rid]) (h :: t_fired (s_t s))))
                  = mkT (t_reqs (s_t s)) (t_dlog (s_t s) ++ [rid]) (h :: t_fired (s_t s)))
        by (destruct s as [t0 p0 rx0 c0 d0 f0 a0]; reflexivity).
      assert (T' : TInv (mkT (t_reqs (s_t s)) (t_dlog (s_t s) ++ [rid]) (h :: t_fired (s_t s)))) by (apply TInv_add_closed; exact T).
      rewrite E. split; [|split; [destruct s as [t0 p0 rx0 c0 d0 f0 a0]; repeat split | split]].
      * eapply KInv_same; [exact K | destruct s as [t0 p0 rx0 c0 d0 f0 a0]; repeat split | rewrite E; exact T'].
      * split; [exact T' | split; [exists [rid]; reflexivity|]].
        cbn [t_dlog t_fired scan outcome_ok]. unfold memb. rewrite (proj2 (memb_nIn _ _) Hh). reflexivity.
      * intros x Hx. cbn [t_reqs] in Hx. exists x. auto.
  - (* disconnect *)
    destruct (s_proto s); injection H as <- <-;
      (split; [exact K | split; [apply same_conn_refl | split; [|apply sub_flags_refl]]]);
      apply ext_neutral; auto; intros x Hx; cbn in Hx; intuition (subst; auto 10).
  - (* close(): AssertionError *)
    pose proof (ki_down s K) as N. destruct (s_down s) eqn:D; [contradiction| |]; injection H as <- <-;
      (split; [exact K | split; [apply same_conn_refl | split; [|apply sub_flags_refl]]]);
      apply ext_neutral; auto; intros x Hx; cbn in Hx; intuition (subst; auto 10).
Qed.

Lemma run_calls0_K : forall cs s s' o, KInv s -> run_calls0 s cs = (s', o) ->
  KInv s' /\ same_conn s s' /\ ext_ok (s_t s) (s_t s') o /\ sub_flags (s_t s) (s_t s').
Proof.
  induction cs as [|c cs IH]; intros s s' o K H; cbn [run_calls0] in H.
  - injection H as <- <-. split; [exact K | split; [apply same_conn_refl | split; [apply ext_refl; apply K | apply sub_flags_refl]]].
  - destruct (call0_step s c) as [s1 o1] eqn:E1. destruct (run_calls0 s1 cs) as [s2 o2] eqn:E2. injection H as <- <-.
    destruct (call0_K _ _ _ _ K E1) as (K1 & C1 & X1 & S1). destruct (IH _ _ _ K1 E2) as (K2 & C2 & X2 & S2).
    split; [exact K2 | split; [eapply same_conn_trans; eauto | split; [eapply ext_trans; eauto | eapply sub_flags_trans; eauto]]].
Qed.

Lemma live_entry_some s r r' : live_entry s r = Some r' -> In r' (t_reqs (s_t s)) /\ r_h r' = r_h r.
Proof.
  unfold live_entry. intro H. apply find_some in H. destruct H as [A B]. apply Nat.eqb_eq in B. auto.
Qed.
Lemma live_entry_none s r : live_entry s r = None -> forall x, In x (t_reqs (s_t s)) -> r_h x <> r_h r.
Proof.
  unfold live_entry. intros H x Hx E. apply (find_none _ _ H) in Hx. apply Nat.eqb_neq in Hx. auto.
Qed.

Lemma with_t_t s t : s_t (with_t s t) = t.
Proof. destruct s; reflexivity. Qed.
Lemma with_t_conn s t : same_conn s (with_t s t).
Proof. destruct s; repeat split. Qed.

(* ---- (C) the loop of close() ---- *)
Lemma close_loop_ok inter : forall snap s s' o, KInv s ->
  (forall x, In x (t_reqs (s_t s)) -> In (r_h x) (map r_h snap)) ->
  close_loop inter s snap = (s', o) ->
  KInv s' /\ same_conn s s' /\ ext_ok (s_t s) (s_t s') o /\ t_reqs (s_t s') = [].
Proof.
  induction snap as [|r0 rest IH]; intros s s' o K Hh H; cbn [close_loop] in H.
  - injection H as <- <-. split; [exact K | split; [apply same_conn_refl | split; [apply ext_refl; apply K|]]].
    destruct (t_reqs (s_t s)) as [|x l]; [reflexivity|]. destruct (Hh x (or_introl eq_refl)).
  - pose proof (ki_t s K) as T.
    destruct (live_entry s r0) as [r'|] eqn:LE.
    + destruct (live_entry_some _ _ _ LE) as [Hr' Eh].
      set (t1 := t_with_reqs (s_t s) (del (r_id r') (t_reqs (s_t s)))) in *.
      assert (Hrest : forall t2, t_reqs t2 = t_reqs t1 -> forall x, In x (t_reqs t2) -> In (r_h x) (map r_h rest)).
      { intros t2 E2 x Hx. rewrite E2 in Hx. unfold t1 in Hx. cbn [t_with_reqs t_reqs] in Hx. apply in_del in Hx.
        destruct Hx as [Hx Hne]. specialize (Hh x Hx). cbn [map] in Hh. destruct Hh as [E|Y]; [|exact Y].
        exfalso. apply Hne. f_equal. eapply TInv_h_inj; eauto. congruence. }
      destruct (r_cancelled r') eqn:Cc.
      * (* a tombstone: popped, not fired *)
        assert (T1 : TInv t1) by exact (TInv_remove_tomb (s_t s) r' T Hr' Cc).
        assert (K1 : KInv (with_t s t1)) by (eapply KInv_same; [exact K | apply with_t_conn | rewrite with_t_t; exact T1]).
        destruct (IH (with_t s t1) s' o K1) as (K2 & C2 & X2 & E2); [rewrite with_t_t; apply Hrest; reflexivity | exact H |].
        rewrite with_t_t in X2. split; [exact K2 | split; [eapply same_conn_trans; [apply with_t_conn | exact C2] | split; [|exact E2]]].
        rewrite <- (app_nil_l o). eapply ext_trans; [|exact X2].
        split; [exact T1 | split; [exists []; rewrite app_nil_r; reflexivity | reflexivity]].
      * destruct (TInv_entry _ r' T Hr') as (_ & _ & E3 & _). specialize (E3 Cc).
        rewrite fire_unfired in H by (cbn; exact E3).
        set (t2 := mkT (t_reqs t1) (t_dlog t1) (r_h r' :: t_fired t1)) in *.
        assert (T2 : TInv t2) by exact (TInv_remove_fire (s_t s) r' T Hr' Cc).
        assert (X0 : ext_ok (s_t s) t2 [ODef (r_h r') FailClosed]).
        { split; [exact T2 | split; [exists []; rewrite app_nil_r; reflexivity|]].
          cbn [t2 t1 t_with_reqs t_dlog t_fired scan outcome_ok]. unfold memb. rewrite (proj2 (memb_nIn _ _) E3). reflexivity. }
        assert (K1 : KInv (with_t s t2)) by (eapply KInv_same; [exact K | apply with_t_conn | rewrite with_t_t; exact T2]).
        destruct (run_calls0 (with_t s t2) (assoc inter (r_h r'))) as [s3 o2] eqn:E2.
        destruct (close_loop inter s3 rest) as [s4 o3] eqn:E4. injection H as <- <-.
        destruct (run_calls0_K _ _ _ _ K1 E2) as (K3 & C3 & X3 & S3). rewrite with_t_t in X3, S3.
        destruct (IH s3 s4 o3 K3) as (K4 & C4 & X4 & E5); [|exact E4|].
        { intros x Hx. destruct (S3 x Hx) as (y & Hy & _ & _ & Ehh). rewrite Ehh. apply (Hrest t2 eq_refl y Hy). }
        split; [exact K4 | split; [|split; [|exact E5]]].
        -- eapply same_conn_trans; [apply with_t_conn|]. eapply same_conn_trans; eauto.
        -- change (ext_ok (s_t s) (s_t s4) ([ODef (r_h r') FailClosed] ++ (o2 ++ o3))).
           eapply ext_trans; [exact X0|]. eapply ext_trans; eauto.
    + apply (IH s s' o K); [|exact H].
      intros x Hx. specialize (Hh x Hx). cbn [map] in Hh. destruct Hh as [E|Y]; [|exact Y].
      exfalso. exact (live_entry_none _ _ LE x Hx (eq_sym E)).
Qed.

(* ---- close() with user code in its loop ---- *)
Lemma close_i_ok inter s s' o : TInv (s_t s) -> s_down s = DNone ->
  (s_proto s = true -> s_connector s = CNone) -> s_connector s <> CStale ->
  close_i inter s = (s', o) ->
  KInv s' /\ ext_ok (s_t s) (s_t s') o /\ t_reqs (s_t s') = []
  /\ (s_proto s = true -> s_proto s' = true /\ s_connector s' = CNone /\ s_down s' = DPending).
Proof.
  intros T D PC NS H. unfold close_i in H. rewrite D in H.
  destruct s as [t p rx c d f a]. cbn [s_t s_proto s_rxbuf s_connector s_down s_failures s_addr] in *. subst d.
  unfold with_down in H. cbn [s_t s_proto s_rxbuf s_connector s_down s_failures s_addr] in H.
  assert (Hh : forall x, In x (t_reqs t) -> In (r_h x) (map r_h (rev (t_reqs t)))).
  { intros x Hx. apply in_map. apply in_rev. rewrite rev_involutive. exact Hx. }
  assert (Go : forall s1 o1, s_t s1 = t -> KInv s1 ->
            (forall x, In x o1 -> x = OLose \/ x = OCancelAttempt \/ x = OCancelTimer \/ x = OCloseFired \/ x = ORaised 2 \/ x = ORaised 1) ->
            (let (s2, o2) := close_loop inter s1 (rev (t_reqs (s_t s1))) in (s2, o1 ++ o2)) = (s', o) ->
            KInv s' /\ ext_ok t (s_t s') o /\ t_reqs (s_t s') = [] /\ same_conn s1 s').
  { intros s1 o1 E1 K1 N1 H1. rewrite E1 in H1.
    destruct (close_loop inter s1 (rev (t_reqs t))) as [s2 o2] eqn:EL. injection H1 as <- <-.
    destruct (close_loop_ok inter _ _ _ _ K1 ltac:(rewrite E1; exact Hh) EL) as (K2 & C2 & X2 & E2).
    rewrite E1 in X2. split; [exact K2 | split; [|split; [exact E2 | exact C2]]].
    eapply ext_trans; [apply ext_neutral; [exact T | exact N1] | exact X2]. }
  destruct p.
  - (* connected *)
    specialize (PC eq_refl). subst c. cbn [s_t s_proto s_rxbuf s_connector s_down s_failures s_addr] in H.
    destruct (Go (mkS t true rx CNone DPending f a) [OLose] eq_refl ltac:(constructor; cbn; auto; discriminate) ltac:(intros x Hx; cbn in Hx; intuition (subst; auto 10)) H)
      as (K2 & X2 & E2 & (C1 & C2 & C3)).
    cbn in C1, C2, C3. split; [exact K2 | split; [exact X2 | split; [exact E2 | intros _; auto]]].
  - destruct c; cbn [s_t s_proto s_rxbuf s_connector s_down s_failures s_addr fire_down with_down with_connector] in H.
    + destruct (Go (mkS t false rx CNone DFired f a) [OCloseFired] eq_refl ltac:(constructor; cbn; auto; discriminate) ltac:(intros x Hx; cbn in Hx; intuition (subst; auto 10)) H)
        as (K2 & X2 & E2 & _). split; [exact K2 | split; [exact X2 | split; [exact E2 | intros; discriminate]]].
    + destruct (Go (mkS t false rx CStale DFired f a) [OCancelAttempt; OCloseFired] eq_refl ltac:(constructor; cbn; auto; discriminate) ltac:(intros x Hx; cbn in Hx; intuition (subst; auto 10)) H)
        as (K2 & X2 & E2 & _). split; [exact K2 | split; [exact X2 | split; [exact E2 | intros; discriminate]]].
    + destruct (Go (mkS t false rx CStale DFired f a) [OCancelTimer; OCloseFired] eq_refl ltac:(constructor; cbn; auto; discriminate) ltac:(intros x Hx; cbn in Hx; intuition (subst; auto 10)) H)
        as (K2 & X2 & E2 & _). split; [exact K2 | split; [exact X2 | split; [exact E2 | intros; discriminate]]].
    + exfalso. apply NS. reflexivity.
Qed.

(* top level: from any reachable state *)
Lemma close_i_step_ok inter s s' o : CInv s -> close_i inter s = (s', o) -> step_ok s s' o.
Proof.
  intros C H. destruct (s_down s) eqn:D.
  - destruct (close_i_ok inter s s' o (ci_t s C) D (ci_conn s C) (ci_open s C D) H) as (K & (T' & Dl & Sc) & E & _).
    destruct K as [_ KD KC KP KDP KDF].
    split; [|split; [exact Dl | exact Sc]].
    destruct s' as [t' p' rx' c' d' f' a']. cbn [s_t s_proto s_rxbuf s_connector s_down s_failures s_addr] in *.
    apply CInv_mk; auto.
    + intros _. rewrite E. constructor.
    + intros _. rewrite E. constructor.
    + intros Hd. contradiction.
  - unfold close_i in H. rewrite D in H. injection H as <- <-.
    split; [exact C | split; [exists []; rewrite app_nil_r; reflexivity | reflexivity]].
  - unfold close_i in H. rewrite D in H. injection H as <- <-.
    split; [exact C | split; [exists []; rewrite app_nil_r; reflexivity | reflexivity]].
Qed.

(* ---- one call from inside the flush ---- *)
Lemma LInv_closing_step s s' : LInv s -> s_down s <> DNone -> KInv s' -> same_conn s s' -> sub_flags (s_t s) (s_t s') -> LInv s'.
Proof.
  intros [T P C D] N K (E1 & E2 & E3) S. destruct D as [D|[D E]]; [contradiction|].
  constructor; [apply K | congruence | congruence | right; split; [congruence | eapply sub_flags_nil; eauto]].
Qed.

Lemma LInv_with_t s t : LInv s -> TInv t -> s_down s = DNone -> LInv (with_t s t).
Proof.
  intros [T P C D] T' Dn. destruct s as [t0 p0 rx0 c0 d0 f0 a0]. constructor; cbn in *; auto.
Qed.

Lemma call0_L s c s' o : LInv s -> call0_step s c = (s', o) ->
  LInv s' /\ ext_ok (s_t s) (s_t s') o /\ grow_flags (s_t s) (s_t s').
Proof.
  intros L H. destruct (s_down s) eqn:D.
  2,3: (assert (N : s_down s <> DNone) by (rewrite D; discriminate);
        destruct (call0_K _ _ _ _ (LInv_K s L N) H) as (K' & SC & X & S);
        split; [eapply LInv_closing_step; eauto | split; [exact X | apply sub_grow; exact S]]).
  pose proof L as [T P C _].
  destruct c as [h|rid ex| |]; cbn [call0_step step] in H.
  - (* cancel *)
    unfold lift in H. injection H as <- <-.
    pose proof (cancel_ok (s_t s) h _ _ T (surjective_pairing _)) as OK.
    pose proof (cancel_sub (s_t s) h) as S.
    rewrite with_t_t. split; [|split; [apply op_ext; exact OK | apply sub_grow; exact S]].
    apply LInv_with_t; [exact L | apply OK | exact D].
  - (* makeRequest on the live connection: written at once *)
    unfold make_request in H. destruct (lookup rid (t_reqs (s_t s))) eqn:Lk.
    + injection H as <- <-. split; [exact L | split; [|apply sub_grow; apply sub_flags_refl]].
      apply ext_neutral; [exact T|]. intros x Hx. cbn in Hx. intuition (subst; auto 10).
    + rewrite D, P in H.
      set (hh := length (t_dlog (s_t s))) in *.
      assert (Hh : ~ In hh (t_fired (s_t s))). { intro F. apply (ti_fired_lt _ T) in F. unfold hh in F. lia. }
      set (r := mkReq rid hh ex false false) in *.
      set (t1 := mkT (t_reqs (s_t s) ++ [r]) (t_dlog (s_t s) ++ [rid]) (t_fired (s_t s))) in *.
      assert (T1 : TInv t1) by (apply TInv_add; auto).
      pose proof (send_request_new t1 (t_reqs (s_t s)) r eq_refl (ti_ids _ T1) eq_refl Hh) as SR.
      pose proof (send_request_ok t1 r _ _ T1 ltac:(cbn; apply in_app_iff; right; left; reflexivity) eq_refl SR) as (T2 & D2 & S2).
      unfold lift in H. rewrite SR in H. cbn [fst snd] in H. injection H as <- <-. rewrite with_t_t.
      split; [|split].
      * apply LInv_with_t; [exact L | exact T2 | exact D].
      * split; [exact T2 | split; [exists [rid]; reflexivity | exact S2]].
      * intros x' Hx'. cbn [t_reqs] in Hx'. apply in_app_iff in Hx'. destruct Hx' as [Hx'|Hx'].
        -- left. exists x'. auto.
        -- right. unfold sq_reqs in Hx'. cbn [filter r_expect r] in Hx'. destruct ex; cbn in Hx'; [|contradiction].
           destruct Hx' as [<-|[]]. cbn. auto.
  - (* disconnect *)
    rewrite P in H. injection H as <- <-. split; [exact L | split; [|apply sub_grow; apply sub_flags_refl]].
    apply ext_neutral; [exact T|]. intros x Hx. cbn in Hx. intuition (subst; auto 10).
  - (* close() with nothing happening in its loop *)
    rewrite D in H. destruct s as [t p rx c d f a]. cbn [s_t s_proto s_rxbuf s_connector s_down s_failures s_addr] in *. subst p c d.
    unfold with_down in H. cbn [s_t s_proto s_rxbuf s_connector s_down s_failures s_addr] in H.
    destruct (close_table_ok t T) as (FA & (T' & D' & Sc) & _).
    rewrite FA in H. unfold with_t in H. cbn [s_t s_proto s_rxbuf s_connector s_down s_failures s_addr] in H.
    injection H as <- <-. cbn [s_t]. split; [|split].
    + constructor; cbn [s_t s_proto s_connector s_down t_reqs]; auto.
    + split; [exact T' | split; [exists []; rewrite app_nil_r; exact D' | rewrite D'; cbn [app scan]; exact Sc]].
    + intros x Hx. cbn [t_reqs] in Hx. contradiction.
Qed.

Lemma call1_L s c s' o : LInv s -> call1_step s c = (s', o) ->
  LInv s' /\ ext_ok (s_t s) (s_t s') o /\ grow_flags (s_t s) (s_t s').
Proof.
  intros L H. destruct c as [c0|i]; cbn [call1_step] in H; [eapply call0_L; eauto|].
  pose proof L as [T P C Dn].
  destruct (s_down s) eqn:D.
  - destruct (close_i_ok i s s' o T D ltac:(intros _; exact C) ltac:(rewrite C; discriminate) H) as (K & X & E & F).
    destruct (F P) as (F1 & F2 & F3).
    split; [constructor; [apply K | exact F1 | exact F2 | right; split; assumption] | split; [exact X|]].
    intros x Hx. rewrite E in Hx. contradiction.
  - unfold close_i in H. rewrite D in H. injection H as <- <-.
    split; [exact L | split; [|apply sub_grow; apply sub_flags_refl]].
    apply ext_neutral; [exact T|]. intros x Hx. cbn in Hx. intuition (subst; auto 10).
  - unfold close_i in H. rewrite D in H. injection H as <- <-.
    split; [exact L | split; [|apply sub_grow; apply sub_flags_refl]].
    apply ext_neutral; [exact T|]. intros x Hx. cbn in Hx. intuition (subst; auto 10).
Qed.

Lemma run_calls1_L : forall cs s s' o, LInv s -> run_calls1 s cs = (s', o) ->
  LInv s' /\ ext_ok (s_t s) (s_t s') o /\ grow_flags (s_t s) (s_t s').
Proof.
  induction cs as [|c cs IH]; intros s s' o L H; cbn [run_calls1] in H.
  - injection H as <- <-. split; [exact L | split; [apply ext_refl; apply L | apply sub_grow; apply sub_flags_refl]].
  - destruct (call1_step s c) as [s1 o1] eqn:E1. destruct (run_calls1 s1 cs) as [s2 o2] eqn:E2. injection H as <- <-.
    destruct (call1_L _ _ _ _ L E1) as (L1 & X1 & G1). destruct (IH _ _ _ L1 E2) as (L2 & X2 & G2).
    split; [exact L2 | split; [eapply ext_trans; eauto | eapply grow_trans; eauto]].
Qed.

(* ------------------------------------------------------------------ (F) the loop of _sendQueued, as it is now *)
(* every table entry has been written on this connection and awaits a reply, or is still to be visited *)
Definition Q (s : state) (rest : list req) : Prop :=
  forall x, In x (t_reqs (s_t s)) ->
    (r_sent x = true /\ r_expect x = true) \/ (r_sent x = false /\ In (r_h x) (map r_h rest)).

Lemma Q_grow s s' rest : grow_flags (s_t s) (s_t s') -> Q s rest -> Q s' rest.
Proof.
  intros G HQ x' Hx'. destruct (G x' Hx') as [(x & Hx & E1 & E2 & E3)|Y]; [|left; exact Y].
  rewrite E1, E2, E3. exact (HQ x Hx).
Qed.

Lemma send_request_rel t r : TInv t -> In r (t_reqs t) ->
  forall x', In x' (t_reqs (fst (send_request t r))) ->
    (In x' (t_reqs t) /\ r_h x' <> r_h r) \/ (x' = set_sent true r /\ r_expect r = true).
Proof.
  intros T Hr x' Hx'. unfold send_request in Hx'.
  assert (U : forall y, In y (upd (r_id r) (set_sent true) (t_reqs t)) ->
              (In y (t_reqs t) /\ r_id y <> r_id r /\ r_h y <> r_h r) \/ y = set_sent true r).
  { intros y Hy. apply in_upd in Hy. destruct Hy as (x & Hx & ->).
    destruct (r_id x =? r_id r) eqn:E.
    - apply Z.eqb_eq in E. right. f_equal. eapply TInv_id_inj; eauto.
    - apply Z.eqb_neq in E. left. repeat split; auto. intro Eh. apply E. f_equal. eapply TInv_h_inj; eauto. }
  destruct (r_expect r) eqn:Ex.
  - cbn [fst t_with_reqs t_reqs] in Hx'. destruct (U x' Hx') as [(A & _ & B)|A]; [left; auto | right; auto].
  - destruct (fire _ _ _) as [t2 o2] eqn:EF. cbn [fst] in Hx'.
    assert (t_reqs t2 = del (r_id r) (upd (r_id r) (set_sent true) (t_reqs t))) as E2.
    { pose proof (fire_reqs (t_with_reqs (t_with_reqs t (upd (r_id r) (set_sent true) (t_reqs t)))
                   (del (r_id r) (t_reqs (t_with_reqs t (upd (r_id r) (set_sent true) (t_reqs t)))))) (r_h r) SuccNone) as X.
      rewrite EF in X. cbn [fst t_with_reqs t_reqs] in X. exact X. }
    rewrite E2 in Hx'. apply in_del in Hx'. destruct Hx' as [Hy Hne].
    destruct (U x' Hy) as [(A & _ & B)|A]; [left; auto|]. subst x'. exfalso. apply Hne. reflexivity.
Qed.

Lemma send_one_ok inter s r rest s' o : LInv s -> In r (t_reqs (s_t s)) -> r_sent r = false ->
  (forall x, In x (t_reqs (s_t s)) ->
     (r_sent x = true /\ r_expect x = true) \/ (r_sent x = false /\ (r_h x = r_h r \/ In (r_h x) (map r_h rest)))) ->
  send_one inter s r = (s', o) ->
  LInv s' /\ ext_ok (s_t s) (s_t s') o /\ Q s' rest.
Proof.
  intros L Hr Hs HQ H. pose proof L as [T P K Dn].
  assert (Hc : r_cancelled r = false).
  { destruct (TInv_entry _ r T Hr) as (_ & E2 & _). destruct (r_cancelled r); auto. rewrite Hs in E2. symmetry. auto. }
  assert (Dn0 : s_down s = DNone).
  { destruct Dn as [Dn|[_ E]]; [exact Dn|]. rewrite E in Hr. contradiction. }
  unfold send_one in H.
  pose proof (send_request_ok (s_t s) r _ _ T Hr Hc (surjective_pairing _)) as OK.
  pose proof (send_request_rel (s_t s) r T Hr) as R1.
  destruct (send_request (s_t s) r) as [t1 o1]. cbn [fst snd] in *.
  assert (L1 : LInv (with_t s t1)) by (apply LInv_with_t; [exact L | apply OK | exact Dn0]).
  assert (X1 : ext_ok (s_t s) (s_t (with_t s t1)) o1) by (rewrite with_t_t; apply op_ext; exact OK).
  assert (Q1 : Q (with_t s t1) rest).
  { intros x' Hx'. rewrite with_t_t in Hx'.
    destruct (R1 x' Hx') as [[A B]|[-> B]].
    - destruct (HQ x' A) as [Y|[Y1 [Y2|Y2]]]; [left; exact Y | contradiction | right; auto].
    - left. cbn. auto. }
  destruct (r_expect r).
  - injection H as <- <-. split; [exact L1 | split; assumption].
  - destruct (run_calls1 (with_t s t1) (assoc inter (r_h r))) as [s2 o2] eqn:EA. injection H as <- <-.
    destruct (run_calls1_L _ _ _ _ L1 EA) as (L2 & X2 & G2).
    split; [exact L2 | split; [eapply ext_trans; eauto | eapply Q_grow; eauto]].
Qed.

Lemma flush_loop_ok inter : forall snap s s' o, LInv s -> Q s snap ->
  flush_loop true inter s snap = (s', o) -> LInv s' /\ ext_ok (s_t s) (s_t s') o /\ Q s' [].
Proof.
  induction snap as [|r0 rest IH]; intros s s' o L HQ H; cbn [flush_loop] in H.
  - injection H as <- <-. split; [exact L | split; [apply ext_refl; apply L | exact HQ]].
  - unfold pick in H. destruct (live_entry s r0) as [r'|] eqn:LE.
    + destruct (live_entry_some _ _ _ LE) as [Hr' Eh].
      destruct (r_sent r') eqn:Es.
      * apply (IH s s' o L); [|exact H].
        intros x Hx. destruct (HQ x Hx) as [Y|[Y1 Y2]]; [left; exact Y|]. right. split; [exact Y1|].
        cbn [map] in Y2. destruct Y2 as [Y2|Y2]; [|exact Y2]. exfalso.
        assert (x = r') by (eapply TInv_h_inj; eauto using li_t; congruence). subst x. congruence.
      * destruct (send_one inter s r') as [s1 o1] eqn:E1. destruct (flush_loop true inter s1 rest) as [s2 o2] eqn:E2.
        injection H as <- <-.
        destruct (send_one_ok inter s r' rest s1 o1 L Hr' Es) as (L1 & X1 & Q1); [ | exact E1 | ].
        { intros x Hx. destruct (HQ x Hx) as [Y|[Y1 Y2]]; [left; exact Y|]. right. split; [exact Y1|].
          cbn [map] in Y2. destruct Y2 as [Y2|Y2]; [left; congruence | right; exact Y2]. }
        destruct (IH s1 s2 o2 L1 Q1 E2) as (L2 & X2 & Q2). split; [exact L2 | split; [eapply ext_trans; eauto | exact Q2]].
    + apply (IH s s' o L); [|exact H].
      intros x Hx. destruct (HQ x Hx) as [Y|[Y1 Y2]]; [left; exact Y|]. right. split; [exact Y1|].
      cbn [map] in Y2. destruct Y2 as [Y2|Y2]; [|exact Y2]. exfalso.
      exact (live_entry_none _ _ LE x Hx (eq_sym Y2)).
Qed.

(* ------------------------------------------------------------------ steps and runs of the extended machine *)
Lemma step_ok_trans s s1 s2 o1 o2 : step_ok s s1 o1 -> step_ok s1 s2 o2 -> step_ok s s2 (o1 ++ o2).
Proof.
  intros (C1 & (x1 & D1) & S1) (C2 & (x2 & D2) & S2). split; [exact C2 | split].
  - exists (x1 ++ x2). rewrite D2, D1, app_assoc. reflexivity.
  - rewrite scan_app. rewrite D2. rewrite (scan_dlog_app _ x2 _ _ _ S1). rewrite <- D2. exact S2.
Qed.

Lemma connok_i_ok inter s s' o : CInv s -> connok_i true inter s = (s', o) -> step_ok s s' o.
Proof.
  intros C H. unfold connok_i in H. destruct s as [t p rx c d f a].
  cbn [s_t s_proto s_rxbuf s_connector s_down s_failures s_addr] in H.
  destruct c; try (injection H as <- <-; apply step_ok_same; exact C).
  break C.
  assert (d = DNone) as -> by (destruct d; auto; destruct Ccl as [_ [X|X]]; discriminate).
  assert (p = false) as -> by (destruct p; auto; discriminate Cc; reflexivity).
  unfold with_rxbuf, with_proto, with_connector, with_failures in H.
  cbn [s_t s_proto s_rxbuf s_connector s_down s_failures s_addr] in H.
  set (s1 := mkS t true [] CNone DNone 0 a) in *.
  assert (L1 : LInv s1) by (constructor; cbn; auto).
  assert (Q1 : Q s1 (t_reqs t)).
  { intros x Hx. cbn [s1 s_t] in Hx. right. split.
    - pose proof (Cu eq_refl) as U. rewrite Forall_forall in U. exact (U x Hx).
    - apply in_map. exact Hx. }
  destruct (flush_loop_ok inter _ _ _ _ L1 Q1 H) as (L2 & (T2 & D2 & S2) & Q2).
  destruct L2 as [_ P2 K2 Dn2]. destruct s' as [t2 p2 rx2 c2 d2 f2 a2].
  cbn [s_t s_proto s_rxbuf s_connector s_down s_failures s_addr s1] in *. subst p2 c2.
  split; [|split; [exact D2 | exact S2]].
  apply CInv_mk; [> exact T2 | triv | | triv | | | | | triv].
  - intros _. rewrite Forall_forall. intros x Hx. destruct (Q2 x Hx) as [Y|[_ []]]. exact Y.
  - intros Hd. destruct Dn2 as [Y|[Y1 Y2]]; [contradiction|]. auto.
  - intros _. discriminate.
  - triv.
  - intros Hd. destruct Dn2 as [Y|[Y1 Y2]]; congruence.
Qed.

Theorem istep_ok s e s' o : CInv s -> istep true s e = (s', o) -> step_ok s s' o.
Proof.
  intros C H. destruct e as [e0|i|i]; cbn [istep] in H.
  - eapply step_inv; eauto.
  - eapply connok_i_ok; eauto.
  - eapply close_i_step_ok; eauto.
Qed.

Theorem irun_inv : forall evs s s' o, CInv s -> irun true s evs = (s', o) -> step_ok s s' o.
Proof.
  induction evs as [|e evs IH]; intros s s' o C H; cbn [irun] in H.
  - injection H as <- <-. apply step_ok_same. exact C.
  - destruct (istep true s e) as [s1 o1] eqn:E1. destruct (irun true s1 evs) as [s2 o2] eqn:E2.
    injection H as <- <-. pose proof (istep_ok _ _ _ _ C E1) as S1.
    eapply step_ok_trans; [exact S1|]. apply (IH s1); [apply S1 | exact E2].
Qed.

Lemma irun_init_scan evs s outs : irun true init evs = (s, outs) ->
  CInv s /\ scan (t_dlog (s_t s)) [] outs = Some (t_fired (s_t s)).
Proof. intro H. destruct (irun_inv evs init s outs CInv_init H) as (C & _ & S). split; [exact C | exact S]. Qed.

(* C06_exactly_once for histories with ANY user code inside the two loops *)
Theorem exactly_once_i evs s outs : irun true init evs = (s, outs) ->
  NoDup (def_handles outs)
  /\ (forall o, In o outs -> ~ anomaly o)
  /\ (forall h, In h (def_handles outs) <-> (h < length (t_dlog (s_t s)))%nat /\ ~ in_table s h).
Proof.
  intro H. destruct (irun_init_scan _ _ _ H) as (C & S).
  pose proof (scan_fired _ _ _ _ S) as F. rewrite app_nil_r in F.
  pose proof (ci_t s C) as T.
  assert (Hin : forall h, In h (def_handles outs) <-> In h (t_fired (s_t s))).
  { intro h. rewrite F. rewrite <- in_rev. tauto. }
  split; [|split].
  - pose proof (ti_fired_nodup _ T) as ND. rewrite F in ND. apply NoDup_rev in ND. rewrite rev_involutive in ND. exact ND.
  - intros o Ho [(k & h & ->) | ->].
    + destruct (scan_no_anomaly _ _ _ _ S _ Ho) as [A _]. eapply A. reflexivity.
    + destruct (scan_no_anomaly _ _ _ _ S _ Ho) as [_ A]. apply A. reflexivity.
  - intro h. rewrite Hin. split.
    + intro Hf. split; [apply (ti_fired_lt _ T); exact Hf|].
      intros (r & Hr & Eh & Ec). destruct (TInv_entry _ r T Hr) as (_ & _ & E3 & _). apply (E3 Ec). rewrite Eh. exact Hf.
    + intros [Hl Hn]. destruct (in_dec Nat.eq_dec h (t_fired (s_t s))) as [Y|N]; [exact Y|]. exfalso. apply Hn.
      destruct (ti_complete _ T h Hl N) as (r & Hr & Eh). exists r. repeat split; auto.
      destruct (TInv_entry _ r T Hr) as (_ & _ & _ & E4). destruct (r_cancelled r); auto. exfalso. apply N. rewrite <- Eh. auto.
Qed.

Theorem after_fired_i evs s outs a h oc b : irun true init evs = (s, outs) -> outs = a ++ ODef h oc :: b ->
  forall o, In o b -> (forall oc', o <> ODef h oc') /\ (forall rid, o <> OWrite h rid).
Proof.
  intros H E. destruct (irun_init_scan _ _ _ H) as (C & S). rewrite E in S. rewrite scan_app in S.
  destruct (scan (t_dlog (s_t s)) [] a) as [f1|] eqn:S1; [|discriminate].
  cbn [scan] in S. destruct (memb h f1); [discriminate|]. destruct (outcome_ok _ h oc); [|discriminate].
  intros o Ho. eapply scan_fired_silent; eauto. left. reflexivity.
Qed.

Theorem never_resent_i evs s outs a h oc b : irun true init evs = (s, outs) -> outs = a ++ ODef h oc :: b ->
  forall rid, ~ In (OWrite h rid) b.
Proof.
  intros H E rid Hin. destruct (after_fired_i evs s outs a h oc b H E _ Hin) as [_ X]. exact (X rid eq_refl).
Qed.

Theorem reachable_inv_i evs : CInv (fst (irun true init evs)).
Proof. destruct (irun true init evs) as [s o] eqn:E. exact (proj1 (irun_init_scan _ _ _ E)). Qed.

(* close() leaves nothing pending whatever user code does in its loop *)
Theorem close_i_all_fired inter s s' o : CInv s -> s_down s = DNone -> close_i inter s = (s', o) ->
  t_reqs (s_t s') = [] /\ s_down s' <> DNone
  /\ forall h, (h < length (t_dlog (s_t s')))%nat -> In h (t_fired (s_t s')).
Proof.
  intros C D H.
  destruct (close_i_ok inter s s' o (ci_t s C) D (ci_conn s C) (ci_open s C D) H) as (K & (T' & _ & _) & E & _).
  split; [exact E | split; [apply K|]]. intros h Hl.
  destruct (in_dec Nat.eq_dec h (t_fired (s_t s'))) as [Y|N]; [exact Y|].
  destruct (ti_complete _ T' h Hl N) as (r & Hr & _). rewrite E in Hr. contradiction.
Qed.

(* the loop of _sendQueued as it was before commit 7c12cf4 (guard = false) *)
Theorem unguarded_flush_refuted : exists evs s outs a h oc b rid,
  irun false init evs = (s, outs) /\ outs = a ++ ODef h oc :: b /\ In (OWrite h rid) b.
Proof.
  exists [IEv (EMake 1 false); IEv (EMake 2 true); IConnOk [(0%nat, [C0 CClose0])]].
  do 2 eexists. exists [OConnect 0; OWrite 0 1; ODef 0 SuccNone; OLose], 1%nat, FailClosed, [OWrite 1 2], 2.
  split; [vm_compute; reflexivity|]. split; [reflexivity | left; reflexivity].
Qed.

(* ------------------------------------------------------------------ conservative extension: no user code in the loops *)
Lemma find_app_mid {A} (p : A -> bool) pre x rest :
  (forall y, In y pre -> p y = false) -> p x = true -> find p (pre ++ x :: rest) = Some x.
Proof.
  induction pre as [|a pre IH]; intros Hp Hx; cbn [app find].
  - rewrite Hx. reflexivity.
  - rewrite (Hp a (or_introl eq_refl)). apply IH; auto. intros y Hy. apply Hp. right. exact Hy.
Qed.

Lemma send_request_reqs t pre r rest : t_reqs t = pre ++ r :: rest -> NoDup (map r_id (pre ++ r :: rest)) ->
  t_reqs (fst (send_request t r)) = pre ++ (if r_expect r then [set_sent true r] else []) ++ rest.
Proof.
  intros E ND. unfold send_request. rewrite E. rewrite (upd_unique pre r rest _ ND).
  destruct (r_expect r).
  - reflexivity.
  - destruct (fire _ _ _) as [t2 o2] eqn:EF. cbn [fst].
    pose proof (fire_reqs (t_with_reqs (t_with_reqs t (pre ++ set_sent true r :: rest))
                 (del (r_id r) (t_reqs (t_with_reqs t (pre ++ set_sent true r :: rest))))) (r_h r) SuccNone) as X.
    rewrite EF in X. cbn [fst t_with_reqs t_reqs] in X. rewrite X.
    apply (del_unique pre r (set_sent true r) rest ND). reflexivity.
Qed.

Lemma flush_loop_nil : forall snap pre s,
  t_reqs (s_t s) = pre ++ snap -> NoDup (map r_id (pre ++ snap)) -> NoDup (map r_h (pre ++ snap)) ->
  Forall (fun r => r_sent r = false) snap ->
  flush_loop true [] s snap = (with_t s (fst (send_each (s_t s) snap)), snd (send_each (s_t s) snap)).
Proof.
  induction snap as [|r rest IH]; intros pre s E NDi NDh U; cbn [flush_loop send_each].
  - cbn [fst snd]. destruct s; reflexivity.
  - inversion U as [|? ? Ur Urest]; subst. rewrite Ur.
    assert (LE : live_entry s r = Some r).
    { unfold live_entry. rewrite E. apply find_app_mid; [|apply Nat.eqb_refl].
      intros y Hy. apply Nat.eqb_neq. intro Eh. rewrite map_app in NDh. cbn [map] in NDh.
      apply NoDup_remove_2 in NDh. apply NDh. apply in_app_iff. left. rewrite <- Eh. apply in_map. exact Hy. }
    unfold pick. rewrite LE, Ur. unfold send_one. cbn [assoc run_calls1].
    pose proof (send_request_reqs (s_t s) pre r rest E NDi) as R.
    destruct (send_request (s_t s) r) as [t1 o1] eqn:ES. cbn [fst] in R.
    assert (S1 : (if r_expect r then (with_t s t1, o1) else (with_t s t1, o1 ++ [])) = (with_t s t1, o1))
      by (destruct (r_expect r); rewrite ?app_nil_r; reflexivity).
    rewrite S1.
    rewrite (IH (pre ++ (if r_expect r then [set_sent true r] else [])) (with_t s t1)).
    + rewrite with_t_t. destruct s as [t0 p0 rx0 c0 d0 f0 a0]. cbn [with_t]. destruct (send_each t1 rest) as [t2 o2]. reflexivity.
    + rewrite with_t_t. rewrite R, app_assoc. reflexivity.
    + rewrite <- app_assoc. rewrite !map_app in *. cbn [map] in NDi.
      destruct (r_expect r); cbn [map app]; [exact NDi|]. apply NoDup_remove_1 in NDi. exact NDi.
    + rewrite <- app_assoc. rewrite !map_app in *. cbn [map] in NDh.
      destruct (r_expect r); cbn [map app]; [exact NDh|]. apply NoDup_remove_1 in NDh. exact NDh.
    + exact Urest.
Qed.

Lemma connok_i_nil s : CInv s -> connok_i true [] s = step s EConnOk.
Proof.
  intro C. unfold connok_i. cbn [step]. destruct (s_connector s) eqn:K; try reflexivity.
  assert (P : s_proto s = false).
  { destruct (s_proto s) eqn:P; auto. pose proof (ci_conn s C P). congruence. }
  set (s1 := with_rxbuf (with_proto (with_connector (with_failures s 0) CNone) true) []).
  destruct (s_down s1) eqn:D; try reflexivity.
  assert (E1 : s_t s1 = s_t s) by (destruct s; reflexivity).
  unfold lift, send_queued.
  rewrite (flush_loop_nil (t_reqs (s_t s1)) [] s1); try reflexivity.
  - rewrite E1. apply (ti_ids _ (ci_t s C)).
  - rewrite E1. apply TInv_handles_nodup. apply (ci_t s C).
  - rewrite E1. exact (ci_unsent s C P).
Qed.

Lemma NoDup_app_last' {A} (l : list A) x : NoDup l -> ~ In x l -> NoDup (l ++ [x]).
Proof.
  induction l as [|a l IH]; intros ND Hx; cbn.
  - constructor; [intros []|constructor].
  - inversion ND as [|? ? Ha ND']; subst. constructor.
    + intro Hin. apply in_app_iff in Hin. destruct Hin as [Hin|[E|[]]]; [contradiction|]. apply Hx. left. auto.
    + apply IH; auto. intro. apply Hx. right. assumption.
Qed.

(* the loop of close() with nothing happening inside = failing the reversed snapshot on the cleared table *)
Lemma close_loop_nil : forall snap s, t_reqs (s_t s) = rev snap -> NoDup (map r_h snap) -> NoDup (map r_id snap) ->
  close_loop [] s snap
  = (with_t s (fst (fail_all (mkT [] (t_dlog (s_t s)) (t_fired (s_t s))) snap)),
     snd (fail_all (mkT [] (t_dlog (s_t s)) (t_fired (s_t s))) snap)).
Proof.
  induction snap as [|r rest IH]; intros s E NDh NDi; cbn [close_loop fail_all].
  - cbn [fst snd]. cbn [rev] in E. destruct s as [t0 p0 rx0 c0 d0 f0 a0]. cbn in *. destruct t0; cbn in *. subst. reflexivity.
  - cbn [rev] in E. cbn [map] in NDh, NDi. inversion NDh as [|? ? Nh NDh']; inversion NDi as [|? ? Ni NDi']; subst.
    assert (LE : live_entry s r = Some r).
    { unfold live_entry. rewrite E. apply find_app_mid; [|apply Nat.eqb_refl].
      intros y Hy. apply Nat.eqb_neq. intro Eh. apply Nh. rewrite <- Eh. apply in_map. apply in_rev. exact Hy. }
    rewrite LE.
    assert (Dl : del (r_id r) (t_reqs (s_t s)) = rev rest).
    { rewrite E. pose proof (del_unique (rev rest) r r [] ) as X. rewrite app_nil_r in X. apply X; [|reflexivity].
      rewrite map_app. cbn [map]. apply NoDup_app_last'.
      - rewrite map_rev. apply NoDup_rev. exact NDi'.
      - rewrite map_rev. rewrite <- in_rev. exact Ni. }
    rewrite Dl.
    destruct (r_cancelled r).
    + rewrite (IH (with_t s (t_with_reqs (s_t s) (rev rest)))); [|rewrite with_t_t; reflexivity | exact NDh' | exact NDi'].
      rewrite with_t_t. cbn [t_with_reqs t_dlog t_fired]. destruct s as [t0 p0 rx0 c0 d0 f0 a0]. reflexivity.
    + unfold fire, is_fired. cbn [t_with_reqs t_fired t_reqs t_dlog].
      destruct (existsb (Nat.eqb (r_h r)) (t_fired (s_t s))) eqn:Ef; cbn [assoc run_calls0 app].
      * rewrite (IH (with_t s (t_with_reqs (s_t s) (rev rest)))); [|rewrite with_t_t; reflexivity | exact NDh' | exact NDi'].
        rewrite with_t_t. cbn [t_with_reqs t_dlog t_fired]. destruct s as [t0 p0 rx0 c0 d0 f0 a0]. cbn [with_t s_t].
        destruct (fail_all _ rest). reflexivity.
      * rewrite (IH (with_t s (mkT (rev rest) (t_dlog (s_t s)) (r_h r :: t_fired (s_t s))))); [|rewrite with_t_t; reflexivity | exact NDh' | exact NDi'].
        rewrite with_t_t. cbn [t_dlog t_fired]. destruct s as [t0 p0 rx0 c0 d0 f0 a0]. cbn [with_t s_t].
        destruct (fail_all _ rest). reflexivity.
Qed.

Lemma close_i_nil s : CInv s -> close_i [] s = step s EClose.
Proof.
  intro C. unfold close_i. cbn [step]. destruct (s_down s) eqn:D; try reflexivity.
  set (s0 := with_down s DPending).
  assert (G : forall s1 o1, s_t s1 = s_t s ->
            (let (s2, o2) := close_loop [] s1 (rev (t_reqs (s_t s1))) in (s2, o1 ++ o2))
            = (let (t2, o2) := fail_all (t_with_reqs (s_t s1) []) (rev (t_reqs (s_t s1))) in (with_t s1 t2, o1 ++ o2))).
  { intros s1 o1 E1. rewrite (close_loop_nil (rev (t_reqs (s_t s1))) s1).
    - cbn [t_with_reqs]. destruct (fail_all _ _); reflexivity.
    - rewrite rev_involutive. reflexivity.
    - rewrite E1, map_rev. apply NoDup_rev. apply TInv_handles_nodup. apply (ci_t s C).
    - rewrite E1, map_rev. apply NoDup_rev. apply (ti_ids _ (ci_t s C)). }
  assert (E0 : s_t s0 = s_t s) by (destruct s; reflexivity).
  destruct (s_proto s0) eqn:P.
  - exact (G s0 [OLose] E0).
  - destruct (s_connector s0) eqn:K.
    + destruct (fire_down s0) as [s' o'] eqn:F. apply G.
      pose proof (fire_down_t s0) as X. rewrite F in X. cbn [fst] in X. congruence.
    + destruct (fire_down (with_connector s0 CStale)) as [s' o'] eqn:F. apply G.
      pose proof (fire_down_t (with_connector s0 CStale)) as X. rewrite F in X. cbn [fst] in X. rewrite X. destruct s; reflexivity.
    + destruct (fire_down (with_connector s0 CStale)) as [s' o'] eqn:F. apply G.
      pose proof (fire_down_t (with_connector s0 CStale)) as X. rewrite F in X. cbn [fst] in X. rewrite X. destruct s; reflexivity.
    + exact (G s0 [] E0).
Qed.

Definition plain (e : event) : ievent :=
  match e with EConnOk => IConnOk [] | EClose => IClose [] | _ => IEv e end.

Theorem irun_conservative : forall evs s, CInv s -> irun true s (map plain evs) = run s evs.
Proof.
  induction evs as [|e evs IH]; intros s C; cbn [map irun run]; [reflexivity|].
  assert (E : istep true s (plain e) = step s e).
  { destruct e; try reflexivity; cbn [plain istep]; [apply connok_i_nil | apply close_i_nil]; exact C. }
  rewrite E. destruct (step s e) as [s1 o1] eqn:E1.
  pose proof (step_inv _ _ _ _ C E1) as (C1 & _). rewrite (IH s1 C1). reflexivity.
Qed.

(* and the plain events themselves keep their meaning *)
Theorem irun_conservative_ev : forall evs s, irun true s (map IEv evs) = run s evs.
Proof.
  induction evs as [|e evs IH]; intros s; cbn [map irun run istep]; [reflexivity|].
  destruct (step s e) as [s1 o1]. rewrite IH. reflexivity.
Qed.
