(* Model/BrokerClientHook.v: the invariant and the trace scanner survive user callbacks that call close() / cancel()
   from inside _sendQueued (callback of a no-reply request), for the loop as it is now (guard = true). *)
From AV Require Import Base.Util Proofs.UtilFacts Model.Framing Model.BrokerClient Model.BrokerClientHook
  Proofs.FramingFacts Proofs.BrokerClientTbl Proofs.BrokerClientInv Proofs.BrokerClientC06.
From Coq Require Import Lia Sorting.Sorted.

(* the state while the queue is being flushed: connected, no connector; open, or closed by a callback (table empty) *)
Record LInv (s : state) : Prop := {
  li_t : TInv (s_t s);
  li_proto : s_proto s = true;
  li_conn : s_connector s = CNone;
  li_down : s_down s = DNone \/ (s_down s = DPending /\ t_reqs (s_t s) = [])
}.

(* every table entry has been written on this connection and awaits a reply, or is still to be visited *)
Definition Q (s : state) (rest : list req) : Prop :=
  forall x, In x (t_reqs (s_t s)) ->
    (r_sent x = true /\ r_expect x = true) \/ (r_sent x = false /\ In (r_h x) (map r_h rest)).

(* what one piece of the flush guarantees *)
Definition piece_ok (s s' : state) (o : list output) : Prop :=
  LInv s' /\ t_dlog (s_t s') = t_dlog (s_t s)
  /\ scan (t_dlog (s_t s)) (t_fired (s_t s)) o = Some (t_fired (s_t s')).

Lemma piece_trans s s1 s2 o1 o2 : piece_ok s s1 o1 -> piece_ok s1 s2 o2 -> piece_ok s s2 (o1 ++ o2).
Proof.
  intros (A1 & A2 & A3) (B1 & B2 & B3). split; [exact B1 | split; [congruence|]].
  rewrite scan_app, A3. rewrite <- A2. exact B3.
Qed.

Lemma Q_sub s s' rest : sub_flags (s_t s) (s_t s') -> Q s rest -> Q s' rest.
Proof.
  intros S HQ x' Hx'. destruct (S x' Hx') as (x & Hx & E1 & E2 & E3). rewrite E1, E2, E3. exact (HQ x Hx).
Qed.

(* ---- the callback ---- *)
Lemma do_action_ok s a s' o : LInv s -> do_action s a = (s', o) ->
  piece_ok s s' o /\ sub_flags (s_t s) (s_t s').
Proof.
  intros L H. destruct L as [T P K Dn]. destruct a as [|h]; cbn [do_action step] in H.
  - (* close() *)
    destruct (s_down s) eqn:Ed.
    + (* open *)
      destruct s as [t p rx c d f ad]. cbn [s_t s_proto s_rxbuf s_connector s_down s_failures s_addr] in *. subst p c d.
      unfold with_down in H. cbn [s_t s_proto s_rxbuf s_connector s_down s_failures s_addr] in H.
      destruct (close_table_ok t T) as (FA & (T' & D' & Sc) & _).
      cbn [s_t s_proto s_rxbuf s_connector s_down s_failures s_addr] in H.
      rewrite FA in H. unfold with_t in H. cbn [s_t s_proto s_rxbuf s_connector s_down s_failures s_addr] in H.
      injection H as <- <-. split.
      * split; [|split].
        -- constructor; cbn [s_t s_proto s_connector s_down t_reqs]; auto.
        -- cbn [s_t t_dlog]. reflexivity.
        -- cbn [s_t t_dlog t_fired app scan]. exact Sc.
      * intros x Hx. cbn [s_t t_reqs] in Hx. contradiction.
    + injection H as <- <-. split; [|apply sub_flags_refl].
      split; [constructor; auto; rewrite Ed; exact Dn | split; reflexivity].
    + injection H as <- <-. split; [|apply sub_flags_refl].
      split; [constructor; auto; rewrite Ed; exact Dn | split; reflexivity].
  - (* .cancel() of Deferred h *)
    unfold lift in H. injection H as <- <-.
    pose proof (cancel_ok (s_t s) h _ _ T (surjective_pairing _)) as (T' & D' & Sc).
    pose proof (cancel_sub (s_t s) h) as S.
    split; [|destruct s as [t0 p0 rx0 c0 d0 f0 ad0]; exact S].
    split; [|split].
    + constructor; destruct s as [t0 p0 rx0 c0 d0 f0 ad0]; cbn [with_t s_t s_proto s_connector s_down] in *; auto.
      destruct Dn as [Dn|[Dn E]]; [left; exact Dn | right; split; [exact Dn | eapply sub_flags_nil; eauto]].
    + destruct s as [t0 p0 rx0 c0 d0 f0 ad0]; exact D'.
    + destruct s as [t0 p0 rx0 c0 d0 f0 ad0]; exact Sc.
Qed.

(* ---- _sendRequest of a queued entry ---- *)
Lemma send_request_rel t r : TInv t -> In r (t_reqs t) ->
  forall x', In x' (t_reqs (fst (send_request t r))) ->
    (In x' (t_reqs t) /\ r_h x' <> r_h r) \/ (x' = set_sent true r /\ r_expect r = true).
Proof.
  intros T Hr x' Hx'. unfold send_request in Hx'.
  assert (U : forall y, In y (upd (r_id r) (set_sent true) (t_reqs t)) ->
              (In y (t_reqs t) /\ r_id y <> r_id r /\ r_h y <> r_h r) \/ y = set_sent true r).
  { intros y Hy. apply in_upd in Hy. destruct Hy as (x & Hx & ->).
    destruct (r_id x =? r_id r) eqn:E.
    - apply Z.eqb_eq in E. right. f_equal. eapply TInv_id_inj; eauto.
    - apply Z.eqb_neq in E. left. repeat split; auto. intro Eh. apply E. f_equal. eapply TInv_h_inj; eauto. }
  destruct (r_expect r) eqn:Ex.
  - cbn [fst t_with_reqs t_reqs] in Hx'. destruct (U x' Hx') as [(A & _ & B)|A]; [left; auto | right; auto].
  - destruct (fire _ _ _) as [t2 o2] eqn:EF. cbn [fst] in Hx'.
    assert (t_reqs t2 = del (r_id r) (upd (r_id r) (set_sent true) (t_reqs t))) as E2.
    { pose proof (fire_reqs (t_with_reqs (t_with_reqs t (upd (r_id r) (set_sent true) (t_reqs t)))
                   (del (r_id r) (t_reqs (t_with_reqs t (upd (r_id r) (set_sent true) (t_reqs t)))))) (r_h r) SuccNone) as X.
      rewrite EF in X. cbn [fst t_with_reqs t_reqs] in X. exact X. }
    rewrite E2 in Hx'. apply in_del in Hx'. destruct Hx' as [Hy Hne].
    destruct (U x' Hy) as [(A & _ & B)|A]; [left; auto|]. subst x'. exfalso. apply Hne. reflexivity.
Qed.

Lemma send_one_ok hk s r rest s' o : LInv s -> In r (t_reqs (s_t s)) -> r_sent r = false ->
  (forall x, In x (t_reqs (s_t s)) ->
     (r_sent x = true /\ r_expect x = true) \/ (r_sent x = false /\ (r_h x = r_h r \/ In (r_h x) (map r_h rest)))) ->
  send_one hk s r = (s', o) ->
  piece_ok s s' o /\ Q s' rest.
Proof.
  intros L Hr Hs HQ H. pose proof L as [T P K Dn].
  assert (Hc : r_cancelled r = false).
  { destruct (TInv_entry _ r T Hr) as (_ & E2 & _). destruct (r_cancelled r); auto. rewrite Hs in E2. symmetry. auto. }
  assert (Dn0 : s_down s = DNone).
  { destruct Dn as [Dn|[_ E]]; [exact Dn|]. rewrite E in Hr. contradiction. }
  unfold send_one in H.
  pose proof (send_request_ok (s_t s) r _ _ T Hr Hc (surjective_pairing _)) as (T1 & D1 & S1).
  pose proof (send_request_rel (s_t s) r T Hr) as R1.
  destruct (send_request (s_t s) r) as [t1 o1]. cbn [fst snd] in *.
  assert (L1 : LInv (with_t s t1)).
  { constructor; destruct s as [t0 p0 rx0 c0 d0 f0 ad0]; cbn [with_t s_t s_proto s_connector s_down] in *; auto. }
  assert (P1 : piece_ok s (with_t s t1) o1).
  { split; [exact L1|]. destruct s as [t0 p0 rx0 c0 d0 f0 ad0]; cbn [with_t s_t] in *. split; assumption. }
  assert (Q1 : Q (with_t s t1) rest).
  { intros x' Hx'. assert (Hx'' : In x' (t_reqs t1)) by (destruct s as [t0 p0 rx0 c0 d0 f0 ad0]; exact Hx').
    destruct (R1 x' Hx'') as [[A B]|[-> B]].
    - destruct (HQ x' A) as [Y|[Y1 [Y2|Y2]]]; [left; exact Y | contradiction | right; auto].
    - left. cbn. auto. }
  destruct (r_expect r).
  - injection H as <- <-. split; assumption.
  - destruct (hook_of hk (r_h r)) as [a|].
    + destruct (do_action (with_t s t1) a) as [s2 o2] eqn:EA. injection H as <- <-.
      destruct (do_action_ok _ _ _ _ L1 EA) as [P2 Sb].
      split; [eapply piece_trans; eauto | eapply Q_sub; eauto].
    + injection H as <- <-. split; assumption.
Qed.

Lemma live_entry_some s r r' : live_entry s r = Some r' -> In r' (t_reqs (s_t s)) /\ r_h r' = r_h r.
Proof.
  unfold live_entry. intro H. apply find_some in H. destruct H as [A B]. apply Nat.eqb_eq in B. auto.
Qed.
Lemma live_entry_none s r : live_entry s r = None -> forall x, In x (t_reqs (s_t s)) -> r_h x <> r_h r.
Proof.
  unfold live_entry. intros H x Hx E. apply (find_none _ _ H) in Hx. apply Nat.eqb_neq in Hx. auto.
Qed.

(* ---- the loop of _sendQueued, as it is now ---- *)
Lemma send_each_h_ok hk : forall snap s s' o, LInv s -> Q s snap ->
  send_each_h true hk s snap = (s', o) -> piece_ok s s' o /\ Q s' [].
Proof.
  induction snap as [|r0 rest IH]; intros s s' o L HQ H; cbn [send_each_h] in H.
  - injection H as <- <-. split; [|exact HQ]. split; [exact L | split; reflexivity].
  - unfold pick in H. destruct (live_entry s r0) as [r'|] eqn:LE.
    + destruct (live_entry_some _ _ _ LE) as [Hr' Eh].
      destruct (r_sent r') eqn:Es.
      * (* already written *)
        apply (IH s s' o L); [|exact H].
        intros x Hx. destruct (HQ x Hx) as [Y|[Y1 Y2]]; [left; exact Y|]. right. split; [exact Y1|].
        cbn [map] in Y2. destruct Y2 as [Y2|Y2]; [|exact Y2]. exfalso.
        assert (x = r') by (eapply TInv_h_inj; eauto using li_t; congruence). subst x. congruence.
      * destruct (send_one hk s r') as [s1 o1] eqn:E1. destruct (send_each_h true hk s1 rest) as [s2 o2] eqn:E2.
        injection H as <- <-.
        destruct (send_one_ok hk s r' rest s1 o1 L Hr' Es) as [P1 Q1]; [ | exact E1 | ].
        { intros x Hx. destruct (HQ x Hx) as [Y|[Y1 Y2]]; [left; exact Y|]. right. split; [exact Y1|].
          cbn [map] in Y2. destruct Y2 as [Y2|Y2]; [left; congruence | right; exact Y2]. }
        destruct (IH s1 s2 o2 (proj1 P1) Q1 E2) as [P2 Q2]. split; [eapply piece_trans; eauto | exact Q2].
    + (* the entry left the table meanwhile: skipped *)
      apply (IH s s' o L); [|exact H].
      intros x Hx. destruct (HQ x Hx) as [Y|[Y1 Y2]]; [left; exact Y|]. right. split; [exact Y1|].
      cbn [map] in Y2. destruct Y2 as [Y2|Y2]; [|exact Y2]. exfalso.
      exact (live_entry_none _ _ LE x Hx (eq_sym Y2)).
Qed.

(* ------------------------------------------------------------------ steps and runs of the extended machine *)
Lemma step_ok_trans s s1 s2 o1 o2 : step_ok s s1 o1 -> step_ok s1 s2 o2 -> step_ok s s2 (o1 ++ o2).
Proof.
  intros (C1 & (x1 & D1) & S1) (C2 & (x2 & D2) & S2). split; [exact C2 | split].
  - exists (x1 ++ x2). rewrite D2, D1, app_assoc. reflexivity.
  - rewrite scan_app. rewrite D2. rewrite (scan_dlog_app _ x2 _ _ _ S1). rewrite <- D2. exact S2.
Qed.

Lemma do_action_step_ok s a s' o : CInv s -> do_action s a = (s', o) -> step_ok s s' o.
Proof. intros C H. destruct a; cbn [do_action] in H; eapply step_inv; eauto. Qed.

Lemma hconnok_ok hk s s' o : CInv s -> hstep true (s, hk) (HEv EConnOk) = ((s', hk), o) -> step_ok s s' o.
Proof.
  intros C H. cbn [hstep] in H. destruct s as [t p rx c d f a].
  cbn [s_t s_proto s_rxbuf s_connector s_down s_failures s_addr] in H.
  destruct c; try (injection H as <- <-; apply step_ok_same; exact C).
  break C.
  assert (d = DNone) as -> by (destruct d; auto; destruct Ccl as [_ [X|X]]; discriminate).
  assert (p = false) as -> by (destruct p; auto; discriminate Cc; reflexivity).
  unfold with_rxbuf, with_proto, with_connector, with_failures in H.
  cbn [s_t s_proto s_rxbuf s_connector s_down s_failures s_addr] in H.
  set (s1 := mkS t true [] CNone DNone 0 a) in *.
  assert (L1 : LInv s1) by (constructor; cbn; auto).
  assert (Q1 : Q s1 (t_reqs t)).
  { intros x Hx. cbn [s1 s_t] in Hx. right. split.
    - pose proof (Cu eq_refl) as U. rewrite Forall_forall in U. exact (U x Hx).
    - apply in_map. exact Hx. }
  destruct (send_each_h true hk s1 (t_reqs t)) as [s2 o2] eqn:E. injection H as <- <-.
  destruct (send_each_h_ok hk _ _ _ _ L1 Q1 E) as [(L2 & D2 & S2) Q2].
  destruct L2 as [T2 P2 K2 Dn2]. destruct s2 as [t2 p2 rx2 c2 d2 f2 a2].
  cbn [s_t s_proto s_rxbuf s_connector s_down s_failures s_addr s1] in *. subst p2 c2.
  split; [|split].
  - apply CInv_mk; [> exact T2 | triv | | triv | | | | | triv].
    + intros _. rewrite Forall_forall. intros x Hx. destruct (Q2 x Hx) as [Y|[_ []]]. exact Y.
    + intros Hd. destruct Dn2 as [Y|[Y1 Y2]]; [contradiction|]. auto.
    + intros _. discriminate.
    + triv.
    + intros Hd. destruct Dn2 as [Y|[Y1 Y2]]; congruence.
  - cbn [s_t]. exists []. rewrite app_nil_r. exact D2.
  - cbn [s_t]. rewrite D2. exact S2.
Qed.

Theorem hstep_ok hk s e hk' s' o : CInv s -> hstep true (s, hk) e = ((s', hk'), o) -> step_ok s s' o.
Proof.
  intros C H. destruct e as [e0|rid a].
  - destruct e0; try (cbn [hstep] in H; match type of H with context [step s ?ev] =>
        destruct (step s ev) as [s1 o1] eqn:E; injection H as <- _ <-; eapply step_inv; eauto end).
    assert (hk' = hk) as ->.
    { cbn [hstep] in H. destruct (s_connector s); try (injection H as _ <- _; reflexivity).
      destruct (s_down _); [destruct (send_each_h _ _ _ _); injection H as _ <- _; reflexivity | |];
        injection H as _ <- _; reflexivity. }
    eapply hconnok_ok; eauto.
  - cbn [hstep] in H. destruct (step s (EMake rid false)) as [s1 o1] eqn:E1.
    pose proof (step_inv _ _ _ _ C E1) as S1.
    destruct (Nat.eqb _ _); [|injection H as <- _ <-; exact S1].
    destruct (is_fired _ _); [|injection H as <- _ <-; exact S1].
    destruct (existsb _ o1); [|injection H as <- _ <-; exact S1].
    destruct (do_action s1 a) as [s2 o2] eqn:E2. injection H as <- _ <-.
    eapply step_ok_trans; [exact S1|]. eapply do_action_step_ok; eauto. apply S1.
Qed.

Theorem hrun_inv : forall evs hs hs' o, CInv (fst hs) -> hrun true hs evs = (hs', o) -> step_ok (fst hs) (fst hs') o.
Proof.
  induction evs as [|e evs IH]; intros hs hs' o C H; cbn [hrun] in H.
  - injection H as <- <-. apply step_ok_same. exact C.
  - destruct (hstep true hs e) as [hs1 o1] eqn:E1. destruct (hrun true hs1 evs) as [hs2 o2] eqn:E2.
    injection H as <- <-. destruct hs as [s hk]. destruct hs1 as [s1 hk1]. cbn [fst] in *.
    pose proof (hstep_ok _ _ _ _ _ _ C E1) as S1.
    eapply step_ok_trans; [exact S1|]. apply (IH (s1, hk1)); [apply S1 | exact E2].
Qed.

Lemma hrun_init_scan evs s hk outs : hrun true hinit evs = ((s, hk), outs) ->
  CInv s /\ scan (t_dlog (s_t s)) [] outs = Some (t_fired (s_t s)).
Proof.
  intro H. destruct (hrun_inv evs hinit (s, hk) outs CInv_init H) as (C & _ & S). cbn [fst] in *. split; [exact C | exact S].
Qed.

(* C06_exactly_once for histories with re-entrant close()/cancel() from no-reply callbacks *)
Theorem exactly_once_h evs s hk outs : hrun true hinit evs = ((s, hk), outs) ->
  NoDup (def_handles outs)
  /\ (forall o, In o outs -> ~ anomaly o)
  /\ (forall h, In h (def_handles outs) <-> (h < length (t_dlog (s_t s)))%nat /\ ~ in_table s h).
Proof.
  intro H. destruct (hrun_init_scan _ _ _ _ H) as (C & S).
  pose proof (scan_fired _ _ _ _ S) as F. rewrite app_nil_r in F.
  pose proof (ci_t s C) as T.
  assert (Hin : forall h, In h (def_handles outs) <-> In h (t_fired (s_t s))).
  { intro h. rewrite F. rewrite <- in_rev. tauto. }
  split; [|split].
  - pose proof (ti_fired_nodup _ T) as ND. rewrite F in ND. apply NoDup_rev in ND. rewrite rev_involutive in ND. exact ND.
  - intros o Ho [(k & h & ->) | ->].
    + destruct (scan_no_anomaly _ _ _ _ S _ Ho) as [A _]. eapply A. reflexivity.
    + destruct (scan_no_anomaly _ _ _ _ S _ Ho) as [_ A]. apply A. reflexivity.
  - intro h. rewrite Hin. split.
    + intro Hf. split; [apply (ti_fired_lt _ T); exact Hf|].
      intros (r & Hr & Eh & Ec). destruct (TInv_entry _ r T Hr) as (_ & _ & E3 & _). apply (E3 Ec). rewrite Eh. exact Hf.
    + intros [Hl Hn]. destruct (in_dec Nat.eq_dec h (t_fired (s_t s))) as [Y|N]; [exact Y|]. exfalso. apply Hn.
      destruct (ti_complete _ T h Hl N) as (r & Hr & Eh). exists r. repeat split; auto.
      destruct (TInv_entry _ r T Hr) as (_ & _ & _ & E4). destruct (r_cancelled r); auto. exfalso. apply N. rewrite <- Eh. auto.
Qed.

(* after a Deferred fired - answered, cancelled, failed by close(), also by a close()/cancel() made from a callback in
   the middle of the queue flush - it never fires again and its request is never written *)
Theorem after_fired_h evs s hk outs a h oc b : hrun true hinit evs = ((s, hk), outs) -> outs = a ++ ODef h oc :: b ->
  forall o, In o b -> (forall oc', o <> ODef h oc') /\ (forall rid, o <> OWrite h rid).
Proof.
  intros H E. destruct (hrun_init_scan _ _ _ _ H) as (C & S). rewrite E in S. rewrite scan_app in S.
  destruct (scan (t_dlog (s_t s)) [] a) as [f1|] eqn:S1; [|discriminate].
  cbn [scan] in S. destruct (memb h f1); [discriminate|]. destruct (outcome_ok _ h oc); [|discriminate].
  intros o Ho. eapply scan_fired_silent; eauto. left. reflexivity.
Qed.

Theorem never_resent_h evs s hk outs a h oc b : hrun true hinit evs = ((s, hk), outs) -> outs = a ++ ODef h oc :: b ->
  forall rid, ~ In (OWrite h rid) b.
Proof.
  intros H E rid Hin. destruct (after_fired_h evs s hk outs a h oc b H E _ Hin) as [_ X]. exact (X rid eq_refl).
Qed.

Theorem reachable_inv_h evs : CInv (fst (fst (hrun true hinit evs))).
Proof.
  destruct (hrun true hinit evs) as [[s hk] o] eqn:E. exact (proj1 (hrun_init_scan _ _ _ _ E)).
Qed.

(* the loop as it was before commit 7c12cf4 (guard = false): close() from the callback of a no-reply request, and the
   request queued behind it is written after close() failed its Deferred *)
Theorem unguarded_flush_refuted : exists evs s hk outs a h oc b rid,
  hrun false hinit evs = ((s, hk), outs) /\ outs = a ++ ODef h oc :: b /\ In (OWrite h rid) b.
Proof.
  exists [HMakeThen 1 HClose; HEv (EMake 2 true); HEv EConnOk].
  do 3 eexists. exists [OConnect 0; OWrite 0 1; ODef 0 SuccNone; OLose], 1%nat, FailClosed, [OWrite 1 2], 2.
  split; [vm_compute; reflexivity|]. split; [reflexivity | left; reflexivity].
Qed.

(* ------------------------------------------------------------------ conservative extension: without hooks nothing changes *)
Lemma find_app_mid {A} (p : A -> bool) pre x rest :
  (forall y, In y pre -> p y = false) -> p x = true -> find p (pre ++ x :: rest) = Some x.
Proof.
  induction pre as [|a pre IH]; intros Hp Hx; cbn [app find].
  - rewrite Hx. reflexivity.
  - rewrite (Hp a (or_introl eq_refl)). apply IH; auto. intros y Hy. apply Hp. right. exact Hy.
Qed.

Lemma send_request_reqs t pre r rest : t_reqs t = pre ++ r :: rest -> NoDup (map r_id (pre ++ r :: rest)) ->
  t_reqs (fst (send_request t r)) = pre ++ (if r_expect r then [set_sent true r] else []) ++ rest.
Proof.
  intros E ND. unfold send_request. rewrite E. rewrite (upd_unique pre r rest _ ND).
  destruct (r_expect r).
  - reflexivity.
  - destruct (fire _ _ _) as [t2 o2] eqn:EF. cbn [fst].
    pose proof (fire_reqs (t_with_reqs (t_with_reqs t (pre ++ set_sent true r :: rest))
                 (del (r_id r) (t_reqs (t_with_reqs t (pre ++ set_sent true r :: rest))))) (r_h r) SuccNone) as X.
    rewrite EF in X. cbn [fst t_with_reqs t_reqs] in X. rewrite X.
    apply (del_unique pre r (set_sent true r) rest ND). reflexivity.
Qed.

Lemma send_each_h_nohook : forall snap pre s,
  t_reqs (s_t s) = pre ++ snap -> NoDup (map r_id (pre ++ snap)) -> NoDup (map r_h (pre ++ snap)) ->
  Forall (fun r => r_sent r = false) snap ->
  send_each_h true [] s snap = (with_t s (fst (send_each (s_t s) snap)), snd (send_each (s_t s) snap)).
Proof.
  induction snap as [|r rest IH]; intros pre s E NDi NDh U; cbn [send_each_h send_each].
  - cbn [fst snd]. destruct s; reflexivity.
  - inversion U as [|? ? Ur Urest]; subst. rewrite Ur.
    assert (LE : live_entry s r = Some r).
    { unfold live_entry. rewrite E. apply find_app_mid; [|apply Nat.eqb_refl].
      intros y Hy. apply Nat.eqb_neq. intro Eh. rewrite map_app in NDh. cbn [map] in NDh.
      apply NoDup_remove_2 in NDh. apply NDh. apply in_app_iff. left. rewrite <- Eh. apply in_map. exact Hy. }
    unfold pick. rewrite LE, Ur. unfold send_one. cbn [hook_of].
    pose proof (send_request_reqs (s_t s) pre r rest E NDi) as R.
    destruct (send_request (s_t s) r) as [t1 o1] eqn:ES. cbn [fst] in R.
    assert (S1 : (if r_expect r then (with_t s t1, o1) else (with_t s t1, o1)) = (with_t s t1, o1))
      by (destruct (r_expect r); reflexivity).
    rewrite S1.
    rewrite (IH (pre ++ (if r_expect r then [set_sent true r] else [])) (with_t s t1)).
    + destruct s as [t0 p0 rx0 c0 d0 f0 a0]. cbn [with_t s_t]. destruct (send_each t1 rest) as [t2 o2]. reflexivity.
    + destruct s as [t0 p0 rx0 c0 d0 f0 a0]. cbn [with_t s_t]. rewrite R, app_assoc. reflexivity.
    + rewrite <- app_assoc. rewrite !map_app in *. cbn [map] in NDi.
      destruct (r_expect r); cbn [map app]; [exact NDi|]. apply NoDup_remove_1 in NDi. exact NDi.
    + rewrite <- app_assoc. rewrite !map_app in *. cbn [map] in NDh.
      destruct (r_expect r); cbn [map app]; [exact NDh|]. apply NoDup_remove_1 in NDh. exact NDh.
    + exact Urest.
Qed.

Lemma hstep_conservative s e : CInv s -> hstep true (s, []) (HEv e) = ((fst (step s e), []), snd (step s e)).
Proof.
  intro C. destruct e; try (cbn [hstep]; destruct (step s _); reflexivity).
  cbn [hstep step]. destruct (s_connector s) eqn:K; try reflexivity.
  assert (P : s_proto s = false).
  { destruct (s_proto s) eqn:P; auto. pose proof (ci_conn s C P). congruence. }
  set (s1 := with_rxbuf (with_proto (with_connector (with_failures s 0) CNone) true) []).
  destruct (s_down s1) eqn:D; try reflexivity.
  assert (E1 : s_t s1 = s_t s) by (destruct s; reflexivity).
  unfold lift, send_queued.
  rewrite (send_each_h_nohook (t_reqs (s_t s1)) [] s1); try reflexivity.
  - rewrite E1. apply (ti_ids _ (ci_t s C)).
  - rewrite E1. apply TInv_handles_nodup. apply (ci_t s C).
  - rewrite E1. exact (ci_unsent s C P).
Qed.

Theorem hrun_conservative : forall evs s, CInv s ->
  hrun true (s, []) (map HEv evs) = ((fst (run s evs), []), snd (run s evs)).
Proof.
  induction evs as [|e evs IH]; intros s C; cbn [map hrun run].
  - reflexivity.
  - rewrite (hstep_conservative s e C). destruct (step s e) as [s1 o1] eqn:E. cbn [fst snd].
    pose proof (step_inv _ _ _ _ C E) as (C1 & _). rewrite (IH s1 C1).
    destruct (run s1 evs) as [s2 o2]. reflexivity.
Qed.
