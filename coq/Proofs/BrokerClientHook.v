(* Model/BrokerClientHook.v: the invariant and the trace scanner survive ANY calls user code makes from inside the two
   loops of _KafkaBrokerClient that fire Deferreds ((F) _sendQueued as it is now, (C) close()). *)
From AV Require Import Base.Util Proofs.UtilFacts Model.Framing Model.BrokerClient Model.BrokerClientHook
  Proofs.FramingFacts Proofs.BrokerClientTbl Proofs.BrokerClientInv Proofs.BrokerClientC06.
From Coq Require Import Lia Sorting.Sorted.

(* ------------------------------------------------------------------ table-level guarantee, the log of ids may grow *)
Definition ext_ok (t t' : tbl) (o : list output) : Prop :=
  TInv t' /\ (exists x, t_dlog t' = t_dlog t ++ x) /\ scan (t_dlog t') (t_fired t) o = Some (t_fired t').

Lemma ext_refl t : TInv t -> ext_ok t t [].
Proof. intro T. split; [exact T | split; [exists []; rewrite app_nil_r; reflexivity | reflexivity]]. Qed.

Lemma ext_trans t t1 t2 o1 o2 : ext_ok t t1 o1 -> ext_ok t1 t2 o2 -> ext_ok t t2 (o1 ++ o2).
Proof.
  intros (A1 & (x1 & D1) & S1) (A2 & (x2 & D2) & S2). split; [exact A2 | split].
  - exists (x1 ++ x2). rewrite D2, D1, app_assoc. reflexivity.
  - rewrite scan_app. rewrite D2. rewrite (scan_dlog_app _ x2 _ _ _ S1). rewrite <- D2. exact S2.
Qed.

Lemma op_ext t t' o : op_ok t t' o -> ext_ok t t' o.
Proof. intros (A & D & S). split; [exact A | split; [exists []; rewrite app_nil_r; exact D | rewrite D; exact S]]. Qed.

Lemma ext_neutral t o : TInv t ->
  (forall x, In x o -> x = OLose \/ x = OCancelAttempt \/ x = OCancelTimer \/ x = OCloseFired \/ x = ORaised 2 \/ x = ORaised 1) ->
  ext_ok t t o.
Proof.
  intros T H. split; [exact T | split; [exists []; rewrite app_nil_r; reflexivity|]].
  induction o as [|x o IH]; [reflexivity|].
  destruct (H x (or_introl eq_refl)) as [-> | [-> | [-> | [-> | [-> | ->]]]]]; cbn [scan Z.eqb]; apply IH;
    intros y Hy; apply H; right; exact Hy.
Qed.

(* new entries, if any, have been written and expect a reply; the others keep handle and flags *)
Definition grow_flags (t t' : tbl) : Prop :=
  forall x', In x' (t_reqs t') ->
    (exists x, In x (t_reqs t) /\ r_sent x' = r_sent x /\ r_expect x' = r_expect x /\ r_h x' = r_h x)
    \/ (r_sent x' = true /\ r_expect x' = true).

Lemma sub_grow t t' : sub_flags t t' -> grow_flags t t'.
Proof. intros S x' Hx'. left. exact (S x' Hx'). Qed.

Lemma grow_trans t1 t2 t3 : grow_flags t1 t2 -> grow_flags t2 t3 -> grow_flags t1 t3.
Proof.
  intros A B x3 H3. destruct (B x3 H3) as [(x2 & H2 & E1 & E2 & E3)|Y]; [|right; exact Y].
  destruct (A x2 H2) as [(x1 & H1 & F1 & F2 & F3)|[Y1 Y2]].
  - left. exists x1. repeat split; congruence.
  - right. split; congruence.
Qed.

(* ------------------------------------------------------------------ the two contexts *)
(* K: the client is closing (inside close()'s loop, or after a close() made from inside the flush) *)
Record KInv (s : state) : Prop := {
  ki_t : TInv (s_t s);
  ki_down : s_down s <> DNone;
  ki_conn : s_connector s = CNone \/ s_connector s = CStale;
  ki_pc : s_proto s = true -> s_connector s = CNone;
  ki_dp : s_down s = DPending -> s_proto s = true;
  ki_df : s_down s = DFired -> s_proto s = false
}.

(* L: inside the flush of _sendQueued: connected, no connector; open, or closed by a callback (table empty) *)
Record LInv (s : state) : Prop := {
  li_t : TInv (s_t s);
  li_proto : s_proto s = true;
  li_conn : s_connector s = CNone;
  li_down : s_down s = DNone \/ (s_down s = DPending /\ t_reqs (s_t s) = [])
}.

Definition same_conn (s s' : state) : Prop :=
  s_proto s' = s_proto s /\ s_connector s' = s_connector s /\ s_down s' = s_down s.

Lemma same_conn_refl s : same_conn s s. Proof. repeat split. Qed.
Lemma same_conn_trans a b c : same_conn a b -> same_conn b c -> same_conn a c.
Proof. intros (A1 & A2 & A3) (B1 & B2 & B3). repeat split; congruence. Qed.

Lemma KInv_same s s' : KInv s -> same_conn s s' -> TInv (s_t s') -> KInv s'.
Proof.
  intros [T D C PC DP DF] (E1 & E2 & E3) T'. constructor; auto; rewrite ?E1, ?E2, ?E3; auto.
Qed.

Lemma LInv_K s : LInv s -> s_down s <> DNone -> KInv s.
Proof.
  intros [T P C D] N. destruct D as [D|[D E]]; [contradiction|].
  constructor; auto; rewrite ?D; try discriminate; auto.
Qed.

(* ---- one call while the client is closing ---- *)
Lemma call0_K s c s' o : KInv s -> call0_step s c = (s', o) ->
  KInv s' /\ same_conn s s' /\ ext_ok (s_t s) (s_t s') o /\ sub_flags (s_t s) (s_t s').
Proof.
  intros K H. pose proof (ki_t s K) as T. destruct c as [h|rid ex| |]; cbn [call0_step step] in H.
  - (* cancel *)
    unfold lift in H. injection H as <- <-.
    pose proof (cancel_ok (s_t s) h _ _ T (surjective_pairing _)) as OK.
    pose proof (cancel_sub (s_t s) h) as S.
    assert (SC : same_conn s (with_t s (fst (cancel (s_t s) h)))) by (destruct s as [t0 p0 rx0 c0 d0 f0 a0]; repeat split).
    assert (E : s_t (with_t s (fst (cancel (s_t s) h))) = fst (cancel (s_t s) h)) by (destruct s as [t0 p0 rx0 c0 d0 f0 a0]; reflexivity).
    rewrite E. split; [|split; [exact SC | split; [apply op_ext; exact OK | exact S]]].
    eapply KInv_same; eauto. rewrite E. apply OK.
  - (* makeRequest: the client is closing *)
    unfold make_request in H. destruct (lookup rid (t_reqs (s_t s))) eqn:L.
    + injection H as <- <-. split; [exact K | split; [apply same_conn_refl | split; [|apply sub_flags_refl]]].
      apply ext_neutral; [exact T|]. intros x Hx. cbn in Hx. intuition (subst; auto 10).
    + pose proof (ki_down s K) as N.
      set (h := length (t_dlog (s_t s))) in *.
      assert (Hh : ~ In h (t_fired (s_t s))). { intro F. apply (ti_fired_lt _ T) in F. unfold h in F. lia. }
      assert (X : lift s (fire (mkT (t_reqs (s_t s)) (t_dlog (s_t s) ++ [rid]) (t_fired (s_t s))) h FailClosed) = (s', o)).
      { destruct (s_down s); [contradiction | exact H | exact H]. }
      clear H. rewrite fire_unfired in X by exact Hh. unfold lift in X. cbn [fst snd] in X. injection X as <- <-.
      assert (E : s_t (with_t s (mkT (t_reqs (s_t s)) (t_dlog (s_t s) ++ [rid]) (h :: t_fired (s_t s))))
                  = mkT (t_reqs (s_t s)) (t_dlog (s_t s) ++ [rid]) (h :: t_fired (s_t s)))
        by (destruct s as [t0 p0 rx0 c0 d0 f0 a0]; reflexivity).
      assert (T' : TInv (mkT (t_reqs (s_t s)) (t_dlog (s_t s) ++ [rid]) (h :: t_fired (s_t s)))) by (apply TInv_add_closed; exact T).
      rewrite E. split; [|split; [destruct s as [t0 p0 rx0 c0 d0 f0 a0]; repeat split | split]].
      * eapply KInv_same; [exact K | destruct s as [t0 p0 rx0 c0 d0 f0 a0]; repeat split | rewrite E; exact T'].
      * split; [exact T' | split; [exists [rid]; reflexivity|]].
        cbn [t_dlog t_fired scan outcome_ok]. unfold memb. rewrite (proj2 (memb_nIn _ _) Hh). reflexivity.
      * intros x Hx. cbn [t_reqs] in Hx. exists x. auto.
  - (* disconnect *)
    destruct (s_proto s); injection H as <- <-;
      (split; [exact K | split; [apply same_conn_refl | split; [|apply sub_flags_refl]]]);
      apply ext_neutral; auto; intros x Hx; cbn in Hx; intuition (subst; auto 10).
  - (* close(): AssertionError *)
    pose proof (ki_down s K) as N. destruct (s_down s) eqn:D; [contradiction| |]; injection H as <- <-;
      (split; [exact K | split; [apply same_conn_refl | split; [|apply sub_flags_refl]]]);
      apply ext_neutral; auto; intros x Hx; cbn in Hx; intuition (subst; auto 10).
Qed.

Lemma run_calls0_K : forall cs s s' o, KInv s -> run_calls0 s cs = (s', o) ->
  KInv s' /\ same_conn s s' /\ ext_ok (s_t s) (s_t s') o /\ sub_flags (s_t s) (s_t s').
Proof.
  induction cs as [|c cs IH]; intros s s' o K H; cbn [run_calls0] in H.
  - injection H as <- <-. split; [exact K | split; [apply same_conn_refl | split; [apply ext_refl; apply K | apply sub_flags_refl]]].
  - destruct (call0_step s c) as [s1 o1] eqn:E1. destruct (run_calls0 s1 cs) as [s2 o2] eqn:E2. injection H as <- <-.
    destruct (call0_K _ _ _ _ K E1) as (K1 & C1 & X1 & S1). destruct (IH _ _ _ K1 E2) as (K2 & C2 & X2 & S2).
    split; [exact K2 | split; [eapply same_conn_trans; eauto | split; [eapply ext_trans; eauto | eapply sub_flags_trans; eauto]]].
Qed.

Lemma live_entry_some s r r' : live_entry s r = Some r' -> In r' (t_reqs (s_t s)) /\ r_h r' = r_h r.
Proof.
  unfold live_entry. intro H. apply find_some in H. destruct H as [A B]. apply Nat.eqb_eq in B. auto.
Qed.
Lemma live_entry_none s r : live_entry s r = None -> forall x, In x (t_reqs (s_t s)) -> r_h x <> r_h r.
Proof.
  unfold live_entry. intros H x Hx E. apply (find_none _ _ H) in Hx. apply Nat.eqb_neq in Hx. auto.
Qed.

Lemma with_t_t s t : s_t (with_t s t) = t.
Proof. destruct s; reflexivity. Qed.
Lemma with_t_conn s t : same_conn s (with_t s t).
Proof. destruct s; repeat split. Qed.

(* ---- (C) the loop of close() ---- *)
Lemma close_loop_ok inter : forall snap s s' o, KInv s ->
  (forall x, In x (t_reqs (s_t s)) -> In (r_h x) (map r_h snap)) ->
  close_loop inter s snap = (s', o) ->
  KInv s' /\ same_conn s s' /\ ext_ok (s_t s) (s_t s') o /\ t_reqs (s_t s') = [].
Proof.
  induction snap as [|r0 rest IH]; intros s s' o K Hh H; cbn [close_loop] in H.
  - injection H as <- <-. split; [exact K | split; [apply same_conn_refl | split; [apply ext_refl; apply K|]]].
    destruct (t_reqs (s_t s)) as [|x l]; [reflexivity|]. destruct (Hh x (or_introl eq_refl)).
  - pose proof (ki_t s K) as T.
    destruct (live_entry s r0) as [r'|] eqn:LE.
    + destruct (live_entry_some _ _ _ LE) as [Hr' Eh].
      set (t1 := t_with_reqs (s_t s) (del (r_id r') (t_reqs (s_t s)))) in *.
      assert (Hrest : forall t2, t_reqs t2 = t_reqs t1 -> forall x, In x (t_reqs t2) -> In (r_h x) (map r_h rest)).
      { intros t2 E2 x Hx. rewrite E2 in Hx. unfold t1 in Hx. cbn [t_with_reqs t_reqs] in Hx. apply in_del in Hx.
        destruct Hx as [Hx Hne]. specialize (Hh x Hx). cbn [map] in Hh. destruct Hh as [E|Y]; [|exact Y].
        exfalso. apply Hne. f_equal. eapply TInv_h_inj; eauto. congruence. }
      destruct (r_cancelled r') eqn:Cc.
      * (* a tombstone: popped, not fired *)
        assert (T1 : TInv t1) by exact (TInv_remove_tomb (s_t s) r' T Hr' Cc).
        assert (K1 : KInv (with_t s t1)) by (eapply KInv_same; [exact K | apply with_t_conn | rewrite with_t_t; exact T1]).
        destruct (IH (with_t s t1) s' o K1) as (K2 & C2 & X2 & E2); [rewrite with_t_t; apply Hrest; reflexivity | exact H |].
        rewrite with_t_t in X2. split; [exact K2 | split; [eapply same_conn_trans; [apply with_t_conn | exact C2] | split; [|exact E2]]].
        rewrite <- (app_nil_l o). eapply ext_trans; [|exact X2].
        split; [exact T1 | split; [exists []; rewrite app_nil_r; reflexivity | reflexivity]].
      * destruct (TInv_entry _ r' T Hr') as (_ & _ & E3 & _). specialize (E3 Cc).
        rewrite fire_unfired in H by (cbn; exact E3).
        set (t2 := mkT (t_reqs t1) (t_dlog t1) (r_h r' :: t_fired t1)) in *.
        assert (T2 : TInv t2) by exact (TInv_remove_fire (s_t s) r' T Hr' Cc).
        assert (X0 : ext_ok (s_t s) t2 [ODef (r_h r') FailClosed]).
        { split; [exact T2 | split; [exists []; rewrite app_nil_r; reflexivity|]].
          cbn [t2 t1 t_with_reqs t_dlog t_fired scan outcome_ok]. unfold memb. rewrite (proj2 (memb_nIn _ _) E3). reflexivity. }
        assert (K1 : KInv (with_t s t2)) by (eapply KInv_same; [exact K | apply with_t_conn | rewrite with_t_t; exact T2]).
        destruct (run_calls0 (with_t s t2) (assoc inter (r_h r'))) as [s3 o2] eqn:E2.
        destruct (close_loop inter s3 rest) as [s4 o3] eqn:E4. injection H as <- <-.
        destruct (run_calls0_K _ _ _ _ K1 E2) as (K3 & C3 & X3 & S3). rewrite with_t_t in X3, S3.
        destruct (IH s3 s4 o3 K3) as (K4 & C4 & X4 & E5); [|exact E4|].
        { intros x Hx. destruct (S3 x Hx) as (y & Hy & _ & _ & Ehh). rewrite Ehh. apply (Hrest t2 eq_refl y Hy). }
        split; [exact K4 | split; [|split; [|exact E5]]].
        -- eapply same_conn_trans; [apply with_t_conn|]. eapply same_conn_trans; eauto.
        -- change (ext_ok (s_t s) (s_t s4) ([ODef (r_h r') FailClosed] ++ (o2 ++ o3))).
           eapply ext_trans; [exact X0|]. eapply ext_trans; eauto.
    + apply (IH s s' o K); [|exact H].
      intros x Hx. specialize (Hh x Hx). cbn [map] in Hh. destruct Hh as [E|Y]; [|exact Y].
      exfalso. exact (live_entry_none _ _ LE x Hx (eq_sym E)).
Qed.

(* ---- close() with user code in its loop ---- *)
Lemma close_i_ok inter s s' o : TInv (s_t s) -> s_down s = DNone ->
  (s_proto s = true -> s_connector s = CNone) -> s_connector s <> CStale ->
  close_i inter s = (s', o) ->
  KInv s' /\ ext_ok (s_t s) (s_t s') o /\ t_reqs (s_t s') = []
  /\ (s_proto s = true -> s_proto s' = true /\ s_connector s' = CNone /\ s_down s' = DPending).
Proof.
  intros T D PC NS H. unfold close_i in H. rewrite D in H.
  destruct s as [t p rx c d f a]. cbn [s_t s_proto s_rxbuf s_connector s_down s_failures s_addr] in *. subst d.
  unfold with_down in H. cbn [s_t s_proto s_rxbuf s_connector s_down s_failures s_addr] in H.
  assert (Hh : forall x, In x (t_reqs t) -> In (r_h x) (map r_h (rev (t_reqs t)))).
  { intros x Hx. apply in_map. apply in_rev. rewrite rev_involutive. exact Hx. }
  assert (Go : forall s1 o1, s_t s1 = t -> KInv s1 ->
            (forall x, In x o1 -> x = OLose \/ x = OCancelAttempt \/ x = OCancelTimer \/ x = OCloseFired \/ x = ORaised 2 \/ x = ORaised 1) ->
            (let (s2, o2) := close_loop inter s1 (rev (t_reqs (s_t s1))) in (s2, o1 ++ o2)) = (s', o) ->
            KInv s' /\ ext_ok t (s_t s') o /\ t_reqs (s_t s') = [] /\ same_conn s1 s').
  { intros s1 o1 E1 K1 N1 H1. rewrite E1 in H1.
    destruct (close_loop inter s1 (rev (t_reqs t))) as [s2 o2] eqn:EL. injection H1 as <- <-.
    destruct (close_loop_ok inter _ _ _ _ K1 ltac:(rewrite E1; exact Hh) EL) as (K2 & C2 & X2 & E2).
    rewrite E1 in X2. split; [exact K2 | split; [|split; [exact E2 | exact C2]]].
    eapply ext_trans; [apply ext_neutral; [exact T | exact N1] | exact X2]. }
  destruct p.
  - (* connected *)
    specialize (PC eq_refl). subst c. cbn [s_t s_proto s_rxbuf s_connector s_down s_failures s_addr] in H.
    destruct (Go (mkS t true rx CNone DPending f a) [OLose] eq_refl ltac:(constructor; cbn; auto; discriminate) ltac:(intros x Hx; cbn in Hx; intuition (subst; auto 10)) H)
      as (K2 & X2 & E2 & (C1 & C2 & C3)).
    cbn in C1, C2, C3. split; [exact K2 | split; [exact X2 | split; [exact E2 | intros _; auto]]].
  - destruct c; cbn [s_t s_proto s_rxbuf s_connector s_down s_failures s_addr fire_down with_down with_connector] in H.
    + destruct (Go (mkS t false rx CNone DFired f a) [OCloseFired] eq_refl ltac:(constructor; cbn; auto; discriminate) ltac:(intros x Hx; cbn in Hx; intuition (subst; auto 10)) H)
        as (K2 & X2 & E2 & _). split; [exact K2 | split; [exact X2 | split; [exact E2 | intros; discriminate]]].
    + destruct (Go (mkS t false rx CStale DFired f a) [OCancelAttempt; OCloseFired] eq_refl ltac:(constructor; cbn; auto; discriminate) ltac:(intros x Hx; cbn in Hx; intuition (subst; auto 10)) H)
        as (K2 & X2 & E2 & _). split; [exact K2 | split; [exact X2 | split; [exact E2 | intros; discriminate]]].
    + destruct (Go (mkS t false rx CStale DFired f a) [OCancelTimer; OCloseFired] eq_refl ltac:(constructor; cbn; auto; discriminate) ltac:(intros x Hx; cbn in Hx; intuition (subst; auto 10)) H)
        as (K2 & X2 & E2 & _). split; [exact K2 | split; [exact X2 | split; [exact E2 | intros; discriminate]]].
    + exfalso. apply NS. reflexivity.
Qed.

(* top level: from any reachable state *)
Lemma close_i_step_ok inter s s' o : CInv s -> close_i inter s = (s', o) -> step_ok s s' o.
Proof.
  intros C H. destruct (s_down s) eqn:D.
  - destruct (close_i_ok inter s s' o (ci_t s C) D (ci_conn s C) (ci_open s C D) H) as (K & (T' & Dl & Sc) & E & _).
    destruct K as [_ KD KC KP KDP KDF].
    split; [|split; [exact Dl | exact Sc]].
    destruct s' as [t' p' rx' c' d' f' a']. cbn [s_t s_proto s_rxbuf s_connector s_down s_failures s_addr] in *.
    apply CInv_mk; auto.
    + intros _. rewrite E. constructor.
    + intros _. rewrite E. constructor.
    + intros Hd. contradiction.
  - unfold close_i in H. rewrite D in H. injection H as <- <-.
    split; [exact C | split; [exists []; rewrite app_nil_r; reflexivity | reflexivity]].
  - unfold close_i in H. rewrite D in H. injection H as <- <-.
    split; [exact C | split; [exists []; rewrite app_nil_r; reflexivity | reflexivity]].
Qed.
