(* C13: stop() never makes the start Deferred FAIL: the cancellations it causes are not failures of the consumer
   (F-C13-4 was exactly that).  Every nested execution that stop() starts runs with _stopping set, no block in progress
   and only cancellation failures / successes delivered; none of them reaches an errback of the start Deferred. *)
From Coq Require Import Lia.
From AV Require Import Base.Util Model.Consumer Proofs.ConsumerBase Proofs.ConsumerFrame Proofs.ConsumerStop.
Open Scope Z_scope.

Definition nf1 (x : output) : bool := match x with OStartD false _ => false | _ => true end.
Definition nofail (o : list output) : Prop := forallb nf1 o = true.
Lemma nofail_app a b : nofail a -> nofail b -> nofail (a ++ b).
Proof. unfold nofail. rewrite forallb_app. intros -> ->. reflexivity. Qed.
Ltac nofail_solve := repeat (first [ assumption | reflexivity | apply nofail_app ]).

(* what stop() hands to the nested executions it starts *)
Definition cancel_or_ok (cr : cres) : Prop := cr = CFail FK_CANCELLED \/ exists v, cr = CSucc v.
Definition Pre4 (k : kont) (s : state) : Prop :=
  s_stopping s = true /\ s_mblock s = None /\
  match k with
  | KStop => False
  | KFetchResp _ _ => False
  | KFireProc fk => fk = Some FK_CANCELLED
  | KFireCd _ cr => cancel_or_ok cr
  | KDeliver cr => cancel_or_ok cr
  | _ => True
  end.

(* leaf methods *)
Lemma handle_processor_error_nf s r s' o : handle_processor_error FK_CANCELLED s = (r, s', o) -> s_stopping s = true -> nofail o.
Proof. intros H Hst. unfold handle_processor_error in H. change (is_cancel FK_CANCELLED) with true in H. mi H; reflexivity. Qed.
Lemma handle_auto_commit_error_nf s r s' o : handle_auto_commit_error FK_CANCELLED s = (r, s', o) -> s_stopping s = true -> nofail o.
Proof. intros H Hst. unfold handle_auto_commit_error in H. change (is_cancel FK_CANCELLED) with true in H. mi H; reflexivity. Qed.
Lemma auto_commit_nf bc s r s' o : auto_commit bc s = (r, s', o) -> s_stopping s = true -> nofail o.
Proof. intros H Hst. unfold auto_commit in H. mi H; reflexivity. Qed.
Lemma proc_chain_nf last s r s' o : proc_chain last (Some FK_CANCELLED) s = (r, s', o) -> s_stopping s = true -> nofail o.
Proof.
  intros H Hst. unfold proc_chain in H. mi H.
  all: repeat match goal with E : handle_processor_error _ _ = _ |- _ => apply handle_processor_error_nf in E; [|psimpl; exact Hst] end.
  all: nofail_solve.
Qed.
Lemma interrupted_nf s r s' o : interrupted s = (r, s', o) -> nofail o.
Proof. intro H. unfold interrupted, emit_shutd in H. mi H; reflexivity. Qed.

Section Rec4.
Variable f : nat.
Hypothesis IH : forall k s r s' o, run f k s = (r, s', o) -> fuel_ok o = true -> Pre4 k s -> nofail o.

Ltac back4 :=
  psimpl;
  first [ assumption | reflexivity
        | match goal with I : In3 ?a ?b |- s_mblock ?b = None => apply (i_mblock _ _ I); back4 end ].
Ltac argok := first [ exact Logic.I | reflexivity | assumption | left; reflexivity | right; eexists; reflexivity ].
(* every nested call on the path, in path order: it is made under Pre4, so it is inert (run_stop) and reports no failure (IH) *)
Ltac fwd4 := repeat match goal with
  | E : run f ?k ?a = (?r, ?b, ?o1), Hf : fuel_ok ?o1 = true |- _ =>
    let S := fresh "S" in assert (S : s_stopping a = true) by (psimpl; congruence);
    let M := fresh "M" in assert (M : s_mblock a = None) by back4;
    let N := fresh "N" in assert (N : nofail o1) by (apply (IH _ _ _ _ _ E Hf); split; [exact S | split; [exact M | argok]]);
    let I3 := fresh "I3" in pose proof (run_stop _ _ _ _ _ _ E Hf) as I3; cbn beta iota in I3; specialize (I3 S);
    destruct I3 as (I3 & _ & _); pose proof (i_stopping _ _ I3); clear E
  end.
Ltac leafs Hst := repeat match goal with
  | E : proc_chain _ (Some FK_CANCELLED) ?a = (_, ?b, _) |- _ =>
    let E' := fresh "E" in pose proof E as E'; apply proc_chain_nf in E'; [|psimpl; congruence];
    apply proc_chain_in in E; destruct E as (E & _ & _); pose proof (i_stopping _ _ E)
  | E : interrupted ?a = (_, ?b, _) |- _ =>
    let E' := fresh "E" in pose proof E as E'; apply interrupted_nf in E';
    apply interrupted_in in E; destruct E as (E & _); pose proof (i_stopping _ _ E)
  | E : auto_commit _ ?a = (_, ?b, _) |- _ =>
    let E' := fresh "E" in pose proof E as E'; apply auto_commit_nf in E'; [|psimpl; congruence];
    apply auto_commit_in in E; [destruct E as (E & _); pose proof (i_stopping _ _ E) | psimpl; congruence]
  | E : handle_auto_commit_error FK_CANCELLED ?a = (_, ?b, _) |- _ =>
    let E' := fresh "E" in pose proof E as E'; apply handle_auto_commit_error_nf in E'; [|psimpl; congruence];
    apply handle_auto_commit_error_in in E; destruct E as (E & _); pose proof (i_stopping _ _ E)
  end.

Lemma finish_block_nf s r s' o : finish_block (run f) s = (r, s', o) -> s_mblock s = None -> nofail o /\ s' = s.
Proof. intros H Hm. unfold finish_block in H. mi H. split; reflexivity. Qed.

Lemma fire_all_nf cr : cancel_or_ok cr -> forall ds s r s' o,
  fire_all (run f) ds cr s = (r, s', o) -> fuel_ok o = true -> s_stopping s = true -> s_mblock s = None ->
  nofail o /\ s_stopping s' = true /\ s_mblock s' = None.
Proof.
  intro Hcr. induction ds as [|d ds IHds]; intros s r s' o H Hf Hst Hm; cbn [fire_all] in H.
  - mi H. repeat split; auto.
  - mi H; fuel_split; fwd4.
    all: match goal with E : fire_all _ _ _ ?a = _ |- _ =>
           apply IHds in E; [destruct E as (? & ? & ?) | assumption | psimpl; congruence | back4] end.
    all: repeat split; [nofail_solve | assumption | assumption].
Qed.

Lemma body_nf k s r s' o : body (run f) k s = (r, s', o) -> fuel_ok o = true -> Pre4 k s -> nofail o.
Proof.
  intros H Hf (Hst & Hm & Hk). destruct k; try contradiction; cbn [body] in H.
  - (* KStopCds *) mi H; fuel_split; fwd4; nofail_solve.
  - (* KFireProc *) subst fk. mi H; fuel_split; leafs Hst; fwd4; nofail_solve.
  - (* KProcLoop: under _stopping it only closes the block, and no block is in progress *)
    mi H.
    all: repeat match goal with E : finish_block _ _ = _ |- _ => apply finish_block_nf in E; [destruct E as (E & _)|assumption] end.
    all: nofail_solve.
  - (* KCommitAndStop *) mi H; leafs Hst; nofail_solve.
  - (* KShutFinish *) mi H; leafs Hst; nofail_solve.
  - (* KFireCd *) destruct Hk as [->|(v & ->)]; mi H; fuel_split; leafs Hst; fwd4; nofail_solve.
  - (* KDeliver *) mi H; fuel_split.
    all: match goal with E : fire_all _ _ _ ?a = _ |- _ =>
           apply (fire_all_nf _ Hk) in E; [destruct E as (E & _) | assumption | psimpl; congruence | psimpl; assumption] end.
    all: nofail_solve.
Qed.
End Rec4.

Theorem run_nofail fuel k s r s' o : run fuel k s = (r, s', o) -> fuel_ok o = true -> Pre4 k s -> nofail o.
Proof.
  intro H. refine (run_ind (fun _ _ => True) (fun k s _ _ o => fuel_ok o = true -> Pre4 k s -> nofail o) _ _ fuel k s r s' o I H); clear.
  - intros k s _ Hf. discriminate Hf.
  - intros f IH k s r s' o _ H Hf HP. eapply body_nf; eauto.
Qed.


(* ---------------- stop() itself ---------------- *)
Lemma stop_req_nf s r s' o : stop_req s = (r, s', o) -> s_stopping s = true -> nofail o.
Proof.
  intros H Hst. unfold stop_req, handle_fetch_error, handle_offset_error in H.
  change (is_oor FK_CANCELLED) with false in H. change (is_cancel FK_CANCELLED) with true in H.
  mi H; psimpl; rewrite ?Hst in *; cbn [andb] in *; try discriminate; reflexivity.
Qed.

Ltac back4 :=
  psimpl;
  first [ assumption | reflexivity
        | match goal with I : In3 ?a ?b |- s_mblock ?b = None => apply (i_mblock _ _ I); back4 end ].

Lemma stop_mblock_nf s r s' o : stop_mblock s = (r, s', o) -> nofail o.
Proof. intro H. unfold stop_mblock in H. mi H; reflexivity. Qed.
Lemma stop_rcall_nf s r s' o : stop_rcall s = (r, s', o) -> nofail o.
Proof. intro H. unfold stop_rcall in H. mi H; reflexivity. Qed.
Lemma stop_ccall_nf s r s' o : stop_ccall s = (r, s', o) -> nofail o.
Proof. intro H. unfold stop_ccall in H. mi H; reflexivity. Qed.
Lemma stop_looper_nf s r s' o : stop_looper s = (r, s', o) -> nofail o.
Proof. intro H. unfold stop_looper in H. mi H; reflexivity. Qed.
Lemma stop_susp_nf s r s' o : stop_susp s = (r, s', o) -> nofail o.
Proof. intro H. unfold stop_susp in H. mi H; reflexivity. Qed.

Ltac argok := first [ exact Logic.I | reflexivity | assumption | left; reflexivity | right; eexists; reflexivity ].
Ltac fw := repeat match goal with
  | E : run ?f ?k ?a = (?r, ?b, ?o1), Hf : fuel_ok ?o1 = true |- _ =>
    let S := fresh "S" in assert (S : s_stopping a = true) by (psimpl; congruence);
    let M := fresh "M" in assert (M : s_mblock a = None) by back4;
    let N := fresh "N" in assert (N : nofail o1) by (apply (run_nofail _ _ _ _ _ _ E Hf); split; [exact S | split; [exact M | argok]]);
    let I3 := fresh "I3" in pose proof (run_stop _ _ _ _ _ _ E Hf) as I3; cbn beta iota in I3; specialize (I3 S);
    destruct I3 as (I3 & _ & _); pose proof (i_stopping _ _ I3); clear E
  | E : stop_req ?a = (_, ?b, _) |- _ =>
    let N := fresh "N" in pose proof (stop_req_nf _ _ _ _ E ltac:(psimpl; congruence)) as N;
    apply stop_req_in in E; [|psimpl; congruence]; destruct E as (E & _ & _); pose proof (i_stopping _ _ E)
  | E : stop_mblock ?a = (_, ?b, _) |- _ =>
    let N := fresh "N" in pose proof (stop_mblock_nf _ _ _ _ E) as N;
    apply stop_mblock_in in E; destruct E as (E & _ & ?); pose proof (i_stopping _ _ E)
  | E : stop_rcall ?a = (_, ?b, _) |- _ =>
    let N := fresh "N" in pose proof (stop_rcall_nf _ _ _ _ E) as N; apply stop_rcall_in in E; destruct E as (E & _ & _); pose proof (i_stopping _ _ E)
  | E : stop_ccall ?a = (_, ?b, _) |- _ =>
    let N := fresh "N" in pose proof (stop_ccall_nf _ _ _ _ E) as N; apply stop_ccall_in in E; destruct E as (E & _ & _); pose proof (i_stopping _ _ E)
  | E : stop_looper ?a = (_, ?b, _) |- _ =>
    let N := fresh "N" in pose proof (stop_looper_nf _ _ _ _ E) as N; apply stop_looper_in in E; destruct E as (E & _ & _); pose proof (i_stopping _ _ E)
  | E : stop_susp ?a = (_, ?b, _) |- _ =>
    let N := fresh "N" in pose proof (stop_susp_nf _ _ _ _ E) as N; apply stop_susp_in in E; destruct E as (E & _ & _); pose proof (i_stopping _ _ E)
  end.

Theorem stop_nofail fuel s r s' o : run fuel KStop s = (r, s', o) -> fuel_ok o = true -> s_stopping s = false -> nofail o.
Proof.
  intros H Hf Hst. destruct fuel as [|f]; [cbn in H; inversion H; subst; discriminate Hf|].
  cbn [run] in H. cbn [body] in H. unfold stop_startd, stop_proc, stop_creq, handle_commit_error in H.
  change (is_cancel FK_CANCELLED) with true in H.
  mi H; fuel_split.
  all: try reflexivity.
  all: fw.
  all: nofail_solve.
Qed.

Lemma nofail_In o : nofail o -> forall k, ~ In (OStartD false k) o.
Proof.
  unfold nofail. intros H k Hin. rewrite forallb_forall in H. specialize (H _ Hin). discriminate H.
Qed.

(* the application's stop(), from every state with _stopping clear *)
Theorem stop_step_nofail fuel s s' o : s_stopping s = false -> step fuel s EStop = (s', o) -> fuel_ok o = true ->
  forall k, ~ In (OStartD false k) o.
Proof.
  intros Hst H Hf. apply step_inv in H. destruct H as (o1 & H & ->).
  unfold handle in H. cbn zeta in H. unfold api_stop in H. mi H; fuel_split.
  all: match goal with E : run _ KStop _ = _, Hf : fuel_ok _ = true |- _ => pose proof (stop_nofail _ _ _ _ _ E Hf Hst) as N end.
  all: apply nofail_In; repeat apply nofail_app; try assumption; reflexivity.
Qed.
