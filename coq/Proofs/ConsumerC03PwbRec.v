(* PWB, second part: the re-entrant methods (see Proofs/ConsumerC03Pwb.v). *)
From Coq Require Import Lia.
From AV Require Import Base.Util Model.Consumer Model.ConsumerLog Model.ConsumerLogFifo Model.ConsumerLogC03 Proofs.ConsumerC02Wp
  Proofs.ConsumerC03Pwb.

(* after a re-entrant call the monitor's failure bit may have changed *)
Definition PQx (d : bool * bool) (w : wpar) {A} : res A -> gpwb -> state -> Prop :=
  fun _ g s => exists b', g = pwb_abs (fst w, b') s /\ PInv d (fst w, b') s.
Ltac destr_postx H :=
  lazymatch type of H with
  | ex _ => let b' := fresh "b" in destruct H as [b' H]; destr_postx H
  | _ /\ _ => let H1 := fresh "P" in let H2 := fresh "P" in destruct H as [H1 H2]; destr_postx H1; destr_postx H2
  | ?g = pwb_abs _ _ => subst g
  | _ => idtac
  end.
Ltac after_callx :=
  let r := fresh "r" in let H := fresh "P" in
  intros r ? ? H; unfold PQx, PQ, PF, Fp in H; cbn [fst snd] in H; destr_postx H; destruct r; cbn beta iota.
Ltac p_donex := try solve [psolve]; try solve [unfold PQx; cbn [fst snd]; eexists; psolve].

Definition loop_ok (s : state) : Prop := dead s || (negb (is_some (s_proc s)) && is_some (s_mblock s)) = true.
Definition PreD (k : kont) (d : bool * bool) (w : wpar) (g : gpwb) (s : state) : Prop :=
  match k with
  | KStop => g = pwb_abs w s /\ PInv d w s
  | KFireProc fk =>
    match s_proc s with
    | Some (l, _, _) => fst w = None /\ g = fired s l fk (snd w) /\ PInv d w s
    | None => g = pwb_abs w s /\ PInv d w s /\ (is_some (fst w) = true -> snd d = true)
    end
  | KProcLoop _ => g = pwb_abs w s /\ PInv d w s /\ (is_some (fst w) = true -> snd d = true) /\ loop_ok s
  | KFetchResp _ _ => g = pwb_abs w s /\ PInv d w s /\ (is_some (fst w) = true -> snd d = true)
  | _ => g = pwb_abs w s /\ PInv d w s        (* these never reach the processor: allowed inside the window even alive *)
  end.
Definition dmode (k : kont) (d : bool * bool) : bool * bool :=
  match k with KStop => (true, true) | KFireProc _ => (fst d, fst d) | _ => d end.
Definition PostD (k : kont) (d : bool * bool) (w : wpar) (s : state) : res unit -> gpwb -> state -> Prop :=
  fun r g' s' => exists b', g' = pwb_abs (fst w, b') s' /\
    (PInv (dmode k d) (fst w, b') s' \/ (k = KStop /\ s_startd s = None /\ PInv d (fst w, b') s')).   (* stop() on a stopped consumer raises *)

Section Rec.
Variable rec : kont -> M unit.
Hypothesis Hrec : forall k d w g s, PreD k d w g s -> ww (rec k) (PostD k d w s) g s.

Lemma Hrec_plain k d w s : PInv d w s ->
  match k with KStop | KFireProc _ | KProcLoop _ | KFetchResp _ _ => False | _ => True end ->
  ww (rec k) (PQx d w) (pwb_abs w s) s.
Proof.
  intros K Hk. eapply wp_conseq; [apply (Hrec k d w) |].
  - destruct k; try contradiction; cbn; auto.
  - intros r g' s' (b' & -> & [H | (E & _)]); [| subst k; contradiction]. exists b'. destruct k; try contradiction; split; auto.
Qed.
Lemma Hrec_fetch offs ts d w s : PInv d w s -> (is_some (fst w) = true -> snd d = true) ->
  ww (rec (KFetchResp offs ts)) (PQx d w) (pwb_abs w s) s.
Proof.
  intros K W. eapply wp_conseq; [apply (Hrec (KFetchResp offs ts) d w) |].
  - cbn; auto.
  - intros r g' s' (b' & -> & [H | (E & _)]); [| discriminate E]. exists b'. split; auto.
Qed.
Lemma Hrec_stop d w s : PInv d w s -> is_some (s_startd s) = true ->
  ww (rec KStop) (PQx (true, true) w) (pwb_abs w s) s.
Proof.
  intros K SD. eapply wp_conseq; [apply (Hrec KStop d w) |].
  - cbn. repeat split; auto.
  - intros r g' s' (b' & -> & [H | (_ & E & _)]); [exists b'; split; auto | rewrite E in SD; discriminate SD].
Qed.
Lemma Hrec_loop msgs d w s : PInv d w s -> (is_some (fst w) = true -> snd d = true) -> loop_ok s ->
  ww (rec (KProcLoop msgs)) (PQx d w) (pwb_abs w s) s.
Proof.
  intros K W N. eapply wp_conseq; [apply (Hrec (KProcLoop msgs) d w) |].
  - cbn. auto.
  - intros r g' s' (b' & -> & [H | (E & _)]); [exists b'; split; auto | discriminate E].
Qed.

Ltac lsolve := unfold loop_ok in *; psolve.
Ltac wcond := first [ assumption | solve [intro; discriminate] | solve [cbn; intros; congruence] | solve [psolve]
  | solve [ let H := fresh "Hw" in intro H;
            repeat match goal with W : is_some _ = true -> _ |- _ => specialize (W H) end; psolve ] ].
Ltac pinv_arg := try (match goal with K : PInv ?d0 _ _ |- PInv ?e _ _ => is_evar e; unify e d0 end); solve [psolve].
Ltac c9 := idtac; first [ c8 | lazymatch goal with
  | |- wp _ (rec KStop) _ _ _ =>
    let w0 := cur_w in eapply p_eq with (w := w0); [ solve [psolve] |
      eapply wp_call; [ eapply Hrec_stop; [ pinv_arg | solve [psolve] ] | after_callx ] ]
  | |- wp _ (rec (KProcLoop _)) _ _ _ =>
    let w0 := cur_w in eapply p_eq with (w := w0); [ solve [psolve] |
      eapply wp_call; [ eapply Hrec_loop; [ pinv_arg | wcond | solve [lsolve] ] | after_callx ] ]
  | |- wp _ (rec (KFireProc _)) _ _ _ => fail
  | |- wp _ (rec (KFetchResp _ _)) _ _ _ =>
    let w0 := cur_w in eapply p_eq with (w := w0); [ solve [psolve] |
      eapply wp_call; [ eapply Hrec_fetch; [ pinv_arg | wcond ] | after_callx ] ]
  | |- wp _ (rec _) _ _ _ =>
    let w0 := cur_w in eapply p_eq with (w := w0); [ solve [psolve] |
      eapply wp_call; [ eapply Hrec_plain; [ pinv_arg | exact I ] | after_callx ] ]
  end ].

Lemma p_handle_commit_error fk i a d w s : PInv d w s ->
  ww (handle_commit_error rec fk i a) (PQx d w) (pwb_abs w s) s.
Proof. intros K. unfold handle_commit_error. p_walk c9. all: p_donex. Qed.
Lemma p_fire_all ds r d w s : PInv d w s ->
  ww (fire_all rec ds r) (PQx d w) (pwb_abs w s) s.
Proof.
  revert w s. induction ds as [|x ds IH]; intros w s K; cbn [fire_all].
  - p_walk c9. all: p_donex.
  - p_walk c9. all: try (apply (IH (fst w, _)); solve [psolve]). all: p_donex.
Qed.
(* the end of a block: the parked reply, if any, is handled next *)
Lemma p_finish_block d w s : PInv d w s -> (is_some (fst w) = true -> snd d = true) -> dead s || negb (is_some (s_proc s)) = true ->
  ww (finish_block rec) (PQx d w) (pwb_abs w s) s.
Proof.
  intros K W N. assert (W' : implb (is_some (fst w)) (snd d) = true) by (destruct w as [[?|] ?]; cbn; auto).
  unfold finish_block. p_walk c9. all: p_donex.
Qed.
Ltac c10 := idtac; first [ c9 | lazymatch goal with
  | |- wp _ (handle_commit_error _ _ _ _) _ _ _ =>
    let w0 := cur_w in eapply p_eq with (w := w0); [ solve [psolve] |
      eapply wp_call; [ eapply p_handle_commit_error; pinv_arg | after_callx ] ]
  | |- wp _ (fire_all _ _ _) _ _ _ =>
    let w0 := cur_w in eapply p_eq with (w := w0); [ solve [psolve] |
      eapply wp_call; [ eapply p_fire_all; pinv_arg | after_callx ] ]
  | |- wp _ (finish_block _) _ _ _ =>
    let w0 := cur_w in eapply p_eq with (w := w0); [ solve [psolve] |
      eapply wp_call; [ eapply p_finish_block; [ pinv_arg | wcond | solve [lsolve] ] | after_callx ] ]
  end ].

(* stop()'s cancellation of the processor's Deferred: afterwards the state is drained *)
Lemma p_stop_proc (d : bool * bool) w s : PInv (true, false) w s ->
  ww (stop_proc rec) (PQx (true, true) w) (pwb_abs w s) s.
Proof.
  intros K. unfold stop_proc. apply wp_bind, wp_get. cbn beta iota. destruct w as [w b].
  destruct (s_proc s) as [[[l rest] c]|] eqn:D.
  - destruct w as [[wl wr]|]; [exfalso; clear - K D; unfold PInv in K; cbn [fst snd] in K; rewrite D in K; cbn in K; rewrite !andb_false_r in K; discriminate K|].
    apply wp_bind. apply wp_emit. eexists. split.
    { unfold pwb_abs, pw_abs. cbn [fst snd pwb_out pw_out bad_after b_pw b_bad w_st]. rewrite D. reflexivity. }
    cbn beta iota. apply wp_swallow.
    eapply wp_conseq; [apply (Hrec (KFireProc (Some FK_CANCELLED)) (true, false) (None, b)) |].
    + cbn [PreD]. rewrite D. cbn [fst snd]. repeat split; auto.
      unfold fired. cbn [is_some w_plan w_lp]. rewrite orb_true_r. reflexivity.
    + intros r g' s' (b' & -> & [H | (E & _)]); [exists b'; split; auto | discriminate E].
  - apply wp_ret. exists b. split; [reflexivity|]. psolve.
Qed.
Lemma p_stop_req d w s : PInv d w s ->
  ww stop_req (fun r g' s' => PF d w s r g' s' /\ r = Ok tt) (pwb_abs w s) s.
Proof. intro K. unfold stop_req, PF, Fp. p_walk c10. all: p_done. Qed.
Lemma p_stop_rcall d w s : PInv d w s -> ww stop_rcall (PF d w s) (pwb_abs w s) s.
Proof. intro K. unfold stop_rcall, PF, Fp. p_walk c10. all: p_done. Qed.
Lemma p_stop_creq d w s : PInv d w s -> ww (stop_creq rec) (PQx d w) (pwb_abs w s) s.
Proof. intros K. unfold stop_creq. p_walk c10. all: p_donex. Qed.
Lemma p_stop_ccall d w s : PInv d w s -> ww stop_ccall (PF d w s) (pwb_abs w s) s.
Proof. intro K. unfold stop_ccall, PF, Fp. p_walk c10. all: p_done. Qed.
Lemma p_stop_looper d w s : PInv d w s -> ww stop_looper (PF d w s) (pwb_abs w s) s.
Proof. intro K. unfold stop_looper, PF, Fp. p_walk c10. all: p_done. Qed.
Lemma p_stop_susp d w s : PInv d w s -> ww stop_susp (PF d w s) (pwb_abs w s) s.
Proof. intro K. unfold stop_susp, PF, Fp. p_walk c10. all: p_done. Qed.
Ltac c11 := idtac; first [ c10 | lazymatch goal with
  | |- wp _ stop_rcall _ _ _ => p_docall p_stop_rcall
  | |- wp _ stop_ccall _ _ _ => p_docall p_stop_ccall
  | |- wp _ stop_looper _ _ _ => p_docall p_stop_looper
  | |- wp _ stop_susp _ _ _ => p_docall p_stop_susp
  | |- wp _ (stop_creq _) _ _ _ =>
    let w0 := cur_w in eapply p_eq with (w := w0); [ solve [psolve] |
      eapply wp_call; [ eapply p_stop_creq; pinv_arg | after_callx ] ]
  end ].

Ltac fin_k := try solve [ split; [ solve [psolve] | left; solve [psolve] ] ]; try solve [ cbn [fst snd]; eexists; split; [ solve [psolve] | left; solve [psolve] ] ].
(* stop() after the cancellation of the processor's Deferred *)
Definition stop_tail : M unit :=
  stop_rcall ;;; rec KStopCds ;;; stop_creq rec ;;; stop_ccall ;;; stop_looper ;;; stop_susp ;;; upd (set_stopping false) ;;; stop_startd.
Lemma p_stop_tail w s : PInv (true, true) w s -> ww stop_tail (PQx (true, true) w) (pwb_abs w s) s.
Proof. intros K. unfold stop_tail, stop_startd. p_walk c11. all: p_donex. Qed.

Lemma p_body_KStop d w s : PInv d w s ->
  ww (body rec KStop) (PostD KStop d w s) (pwb_abs w s) s.
Proof.
  intros K. cbn [body]. unfold PostD, dmode. destruct w as [w b]. cbn [fst snd].
  apply wp_bind, wp_get. cbn beta iota. destruct (s_startd s) as [b0|] eqn:SD.
  2:{ apply wp_raise. exists b. split; auto. }
  apply wp_bind, wp_upd. cbn beta iota.
  (* stopping: the state is dead from here on *)
  assert (K1 : PInv (true, false) (w, b) (set_stopping true s)) by psolve. clear K.
  apply wp_bind. p_docall_d p_stop_req (true, false). all: try discriminate. all: fin_k.
  (* the parked reply is dropped *)
  unfold stop_mblock. apply wp_bind, wp_bind, wp_get. cbn beta iota.
  match goal with |- wp _ (match ?x with _ => _ end) _ _ _ => destruct x eqn:MB end; wp_prim; cbn beta iota.
  all: apply wp_bind; eapply p_eq with (w := (w, b)); [reflexivity|];
    (eapply wp_call; [ apply (p_stop_proc (true, false) (w, b)); psolve |]);
    after_callx; fin_k;
    (eapply wp_conseq; [ eapply p_stop_tail; eassumption |]);
    intros ? ? ? (b9 & -> & K9); cbn [fst] in K9 |- *; exists b9; (split; [reflexivity | left; exact K9]).
Qed.

Lemma p_body_KStopCds d w s : PInv d w s ->
  ww (body rec KStopCds) (PostD KStopCds d w s) (pwb_abs w s) s.
Proof. intros K. cbn [body]. unfold PostD, dmode. p_walk c11. all: fin_k. Qed.
Lemma p_body_KFetchResp offs ts d w s : PInv d w s -> (is_some (fst w) = true -> snd d = true) ->
  ww (body rec (KFetchResp offs ts)) (PostD (KFetchResp offs ts) d w s) (pwb_abs w s) s.
Proof. intros K W. cbn [body]. unfold PostD, dmode. p_walk c11. all: fin_k. Qed.
Lemma p_body_KCommitAndStop d w s : PInv d w s ->
  ww (body rec KCommitAndStop) (PostD KCommitAndStop d w s) (pwb_abs w s) s.
Proof. intros K. cbn [body]. unfold PostD, dmode. p_walk c11. all: fin_k. Qed.
Lemma p_body_KShutFinish fk d w s : PInv d w s ->
  ww (body rec (KShutFinish fk)) (PostD (KShutFinish fk) d w s) (pwb_abs w s) s.
Proof. intros K. cbn [body]. unfold PostD, dmode. p_walk c11. all: fin_k. Qed.
Lemma p_body_KFireCd x r d w s : PInv d w s ->
  ww (body rec (KFireCd x r)) (PostD (KFireCd x r) d w s) (pwb_abs w s) s.
Proof. intros K. cbn [body]. unfold PostD, dmode. p_walk c11. all: fin_k. Qed.
Lemma p_body_KDeliver r d w s : PInv d w s ->
  ww (body rec (KDeliver r)) (PostD (KDeliver r) d w s) (pwb_abs w s) s.
Proof. intros K. cbn [body]. unfold PostD, dmode. p_walk c11. all: fin_k. Qed.

End Rec.
