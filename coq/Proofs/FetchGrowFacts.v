(* Facts about Model/FetchGrow.v (the consumer's reaction to ConsumerFetchSizeTooSmall) for property C12. *)
From Coq Require Import Lia.
From AV Require Import Base.Util Model.FetchGrow.

(* ------------------------------------------------------------------ the pure growth rule *)
Lemma grow_strict buf mb b : 0 < buf -> grow buf mb = Some b -> buf < b.
Proof.
  unfold grow. intros Hp. destruct (buf <=? 1048576) eqn:E; destruct mb as [m|];
    try destruct (buf <? m) eqn:F; intro H; inversion H; subst; clear H; lia.
Qed.

Lemma grow_le_max buf m b : grow buf (Some m) = Some b -> b <= m.
Proof. unfold grow. destruct (buf <? m); intro H; inversion H. lia. Qed.

Lemma grow_none_iff buf mb : grow buf mb = None <-> exists m, mb = Some m /\ m <= buf.
Proof.
  unfold grow. destruct mb as [m|].
  - destruct (buf <? m) eqn:F; split; intro H; try discriminate.
    + destruct H as (m' & Hm & Hle). inversion Hm; subst. lia.
    + exists m. split; [reflexivity | lia].
    + reflexivity.
  - split; [discriminate | intros (m & H & _); discriminate].
Qed.

Lemma grow_unbounded_double buf b : 0 < buf -> grow buf None = Some b -> 2 * buf <= b.
Proof. unfold grow. intros Hp H. destruct (buf <=? 1048576); inversion H; lia. Qed.

Lemma grow_bounded_double buf m b : 0 < buf -> grow buf (Some m) = Some b -> Z.min (2 * buf) m <= b.
Proof. unfold grow. intros Hp H. destruct (buf <? m); [|discriminate]. destruct (buf <=? 1048576); inversion H; lia. Qed.

(* ------------------------------------------------------------------ one TooSmall answer *)
Theorem toosmall_step mb s s' outs :
  g_failed s = false -> 0 < g_buf s -> gstep mb s TooSmall = (s', outs) ->
  (exists b, outs = [Fetch (g_off s) b] /\ g_buf s < b /\ (forall m, mb = Some m -> b <= m)
             /\ s' = mkG (g_off s) b false)
  \/ (outs = [StartFailed] /\ (exists m, mb = Some m /\ m <= g_buf s) /\ s' = mkG (g_off s) (g_buf s) true).
Proof.
  intros Hf Hp. unfold gstep. rewrite Hf. destruct (grow (g_buf s) mb) as [b|] eqn:G; intro H; inversion H; subst.
  - left. exists b. repeat split; auto.
    + eapply grow_strict; eauto.
    + intros m ->. eapply grow_le_max; eauto.
  - right. repeat split; auto. apply grow_none_iff. assumption.
Qed.

(* ------------------------------------------------------------------ whole runs: nothing is skipped *)
(* the Deliver outputs of a trace chain: each starts where the previous ended, from offset [o] up to [o'] *)
Fixpoint chain (o : Z) (outs : list gout) : option Z :=
  match outs with
  | [] => Some o
  | Deliver f l :: r => if (f =? o) && (f <=? l) then chain (l + 1) r else None
  | _ :: r => chain o r
  end.

Lemma chain_app o a : forall b o1, chain o a = Some o1 -> chain o (a ++ b) = chain o1 b.
Proof.
  revert o. induction a as [|x a IH]; intros o b o1 H; simpl in *.
  - inversion H; reflexivity.
  - destruct x; auto. destruct ((first =? o) && (first <=? last)); [auto | discriminate].
Qed.

Lemma gstep_chain mb s e s' outs : gstep mb s e = (s', outs) -> chain (g_off s) outs = Some (g_off s').
Proof.
  unfold gstep. destruct (g_failed s).
  - intro H; inversion H; reflexivity.
  - destruct e as [|k].
    + destruct (grow (g_buf s) mb); intro H; inversion H; reflexivity.
    + destruct (k <=? 0) eqn:K; intro H; inversion H; subst; simpl; auto.
      rewrite Z.eqb_refl. replace (g_off s <=? g_off s + k - 1) with true by (symmetry; apply Z.leb_le; lia).
      simpl. f_equal. lia.
Qed.

Theorem run_chain mb : forall evs s s' outs, grun mb s evs = (s', outs) -> chain (g_off s) outs = Some (g_off s').
Proof.
  induction evs as [|e r IH]; intros s s' outs; simpl.
  - intro H; inversion H; reflexivity.
  - destruct (gstep mb s e) as [s1 o1] eqn:E1. destruct (grun mb s1 r) as [s2 o2] eqn:E2.
    intro H; inversion H; subst. erewrite chain_app by (eapply gstep_chain; eauto). eapply IH; eauto.
Qed.

(* every request of a run asks for the offset right after the last delivered message (or the start offset) *)
Fixpoint fetches_follow (o : Z) (outs : list gout) : bool :=
  match outs with
  | [] => true
  | Fetch a _ :: r => (a =? o) && fetches_follow o r
  | Deliver _ l :: r => fetches_follow (l + 1) r
  | StartFailed :: r => fetches_follow o r
  end.

Lemma fetches_follow_app a : forall o b o1, fetches_follow o a = true -> chain o a = Some o1 ->
  fetches_follow o (a ++ b) = fetches_follow o1 b.
Proof.
  induction a as [|x a IH]; intros o b o1 Hf Hc; simpl in *.
  - inversion Hc; reflexivity.
  - destruct x.
    + apply andb_prop in Hf as [-> Hf]. simpl. eauto.
    + destruct ((first =? o) && (first <=? last)); [eauto | discriminate].
    + eauto.
Qed.

Lemma gstep_follow mb s e s' outs : gstep mb s e = (s', outs) -> fetches_follow (g_off s) outs = true.
Proof.
  unfold gstep. destruct (g_failed s).
  - intro H; inversion H; reflexivity.
  - destruct e as [|k].
    + destruct (grow (g_buf s) mb); intro H; inversion H; simpl; rewrite ?Z.eqb_refl; reflexivity.
    + destruct (k <=? 0); intro H; inversion H; subst; simpl; rewrite ?Z.eqb_refl; auto.
      replace (g_off s + k - 1 + 1) with (g_off s + k) by lia. rewrite Z.eqb_refl. reflexivity.
Qed.

Theorem run_follow mb : forall evs s s' outs, grun mb s evs = (s', outs) -> fetches_follow (g_off s) outs = true.
Proof.
  induction evs as [|e r IH]; intros s s' outs; simpl.
  - intro H; inversion H; reflexivity.
  - destruct (gstep mb s e) as [s1 o1] eqn:E1. destruct (grun mb s1 r) as [s2 o2] eqn:E2.
    intro H; inversion H; subst.
    erewrite fetches_follow_app; [eapply IH; eauto | eapply gstep_follow; eauto | eapply gstep_chain; eauto].
Qed.

(* ------------------------------------------------------------------ the buffer gets there *)
Lemma gstep_buf_pos mb s e s' outs : 0 < g_buf s -> gstep mb s e = (s', outs) -> 0 < g_buf s'.
Proof.
  unfold gstep. intro Hp. destruct (g_failed s).
  - intro H; inversion H; subst; auto.
  - destruct e as [|k].
    + destruct (grow (g_buf s) mb) as [b|] eqn:G; intro H; inversion H; subst; simpl; auto.
      apply grow_strict in G; lia.
    + destruct (k <=? 0); intro H; inversion H; subst; simpl; auto.
Qed.

(* n consecutive TooSmall answers, no limit configured: never a failure, the offset stays, the buffer at least
   doubles each time - so it exceeds any message size after finitely many answers *)
Theorem toosmall_unbounded : forall n s s' outs,
  g_failed s = false -> 0 < g_buf s -> grun None s (repeat TooSmall n) = (s', outs) ->
  g_failed s' = false /\ g_off s' = g_off s /\ 2 ^ Z.of_nat n * g_buf s <= g_buf s' /\ length outs = n.
Proof.
  induction n as [|n IH]; intros s s' outs Hf Hp; cbn [grun repeat].
  - intro H; inversion H; subst. repeat split; auto. simpl Z.of_nat. rewrite Z.pow_0_r. lia.
  - destruct (gstep None s TooSmall) as [s1 o1] eqn:E1. destruct (grun None s1 (repeat TooSmall n)) as [s2 o2] eqn:E2.
    intro H; inversion H; subst; clear H.
    destruct (toosmall_step _ _ _ _ Hf Hp E1) as [(b & -> & Hlt & _ & ->) | (_ & (m & Hm & _) & _)]; [|discriminate].
    assert (G : grow (g_buf s) None = Some b).
    { unfold gstep in E1. rewrite Hf in E1. destruct (grow (g_buf s) None); inversion E1; reflexivity. }
    apply grow_unbounded_double in G; auto.
    assert (Hb : 0 < g_buf (mkG (g_off s) b false)) by (simpl; lia).
    destruct (IH (mkG (g_off s) b false) _ _ eq_refl Hb E2) as (F & O & B & L). cbn [g_off g_buf g_failed length app] in *.
    repeat split; auto.
    + rewrite Nat2Z.inj_succ, Z.pow_succ_r by lia.
      assert (0 < 2 ^ Z.of_nat n) by (apply Z.pow_pos_nonneg; lia). nia.
Qed.

(* with a limit m: as long as no failure was reported the buffer is at least min(2^n * buf, m) and never above m;
   a failure is reported exactly by the first answer that finds the buffer at the limit *)
Theorem toosmall_bounded m : forall n s s' outs,
  g_failed s = false -> 0 < g_buf s -> g_buf s <= m -> grun (Some m) s (repeat TooSmall n) = (s', outs) ->
  g_off s' = g_off s /\ g_buf s' <= m /\
  (g_failed s' = false -> Z.min (2 ^ Z.of_nat n * g_buf s) m <= g_buf s') /\
  (g_failed s' = true -> g_buf s' = m /\ In StartFailed outs).
Proof.
  induction n as [|n IH]; intros s s' outs Hf Hp Hle; cbn [grun repeat].
  - intro H; inversion H; subst. simpl Z.of_nat. rewrite Z.pow_0_r.
    split; [reflexivity|]. split; [assumption|]. split; [intros _; lia|].
    intro X; rewrite Hf in X; discriminate.
  - destruct (gstep (Some m) s TooSmall) as [s1 o1] eqn:E1.
    destruct (grun (Some m) s1 (repeat TooSmall n)) as [s2 o2] eqn:E2.
    intro H; inversion H; subst; clear H.
    destruct (toosmall_step _ _ _ _ Hf Hp E1) as [(b & -> & Hlt & Hmax & ->) | (-> & (m' & Hm & Hge) & ->)].
    + assert (G : grow (g_buf s) (Some m) = Some b).
      { unfold gstep in E1. rewrite Hf in E1. destruct (grow (g_buf s) (Some m)); inversion E1; reflexivity. }
      apply grow_bounded_double in G; auto. specialize (Hmax m eq_refl).
      assert (Hb : 0 < g_buf (mkG (g_off s) b false)) by (simpl; lia).
      assert (Hb2 : g_buf (mkG (g_off s) b false) <= m) by (simpl; lia).
      destruct (IH (mkG (g_off s) b false) _ _ eq_refl Hb Hb2 E2) as (O & B & F & X). cbn [g_off g_buf g_failed length app] in *.
      repeat split; auto.
      * intro Hn. specialize (F Hn). rewrite Nat2Z.inj_succ, Z.pow_succ_r by lia.
        assert (0 < 2 ^ Z.of_nat n) by (apply Z.pow_pos_nonneg; lia). nia.
      * apply X; auto.
      * right. apply X; auto.
    + inversion Hm; subst m'. (* failed now: the rest of the run does nothing *)
      assert (R : forall k st, g_failed st = true -> grun (Some m) st (repeat TooSmall k) = (st, [])).
      { induction k as [|k IHk]; intros st Hst; simpl; auto. unfold gstep. rewrite Hst. rewrite IHk; auto. }
      rewrite R in E2 by reflexivity. inversion E2; subst. simpl.
      split; [reflexivity|]. split; [lia|]. split; [discriminate|].
      intros _. split; [lia | left; reflexivity].
Qed.
