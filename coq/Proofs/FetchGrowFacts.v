(* Facts about Model/FetchGrow.v (the consumer's reaction to what the set decoder does with a fetch answer) for C12. *)
From Coq Require Import Lia Sorted.
From AV Require Import Base.Util Model.FetchGrow.

(* ------------------------------------------------------------------ the pure growth rule *)
Lemma grow_strict buf mb b : 0 < buf -> grow buf mb = Some b -> buf < b.
Proof.
  unfold grow. intros Hp. destruct (buf <=? 1048576) eqn:E; destruct mb as [m|];
    try destruct (buf <? m) eqn:F; intro H; inversion H; subst; clear H; lia.
Qed.

Lemma grow_le_max buf m b : grow buf (Some m) = Some b -> b <= m.
Proof. unfold grow. destruct (buf <? m); intro H; inversion H. lia. Qed.

Lemma grow_none_iff buf mb : grow buf mb = None <-> exists m, mb = Some m /\ m <= buf.
Proof.
  unfold grow. destruct mb as [m|].
  - destruct (buf <? m) eqn:F; split; intro H; try discriminate.
    + destruct H as (m' & Hm & Hle). inversion Hm; subst. lia.
    + exists m. split; [reflexivity | lia].
    + reflexivity.
  - split; [discriminate | intros (m & H & _); discriminate].
Qed.

Lemma grow_unbounded_double buf b : 0 < buf -> grow buf None = Some b -> 2 * buf <= b.
Proof. unfold grow. intros Hp H. destruct (buf <=? 1048576); inversion H; lia. Qed.

Lemma grow_bounded_double buf m b : 0 < buf -> grow buf (Some m) = Some b -> Z.min (2 * buf) m <= b.
Proof. unfold grow. intros Hp H. destruct (buf <? m); [|discriminate]. destruct (buf <=? 1048576); inversion H; lia. Qed.

(* ------------------------------------------------------------------ accept: what the loop over resp.messages keeps *)
Lemma accept_spec : forall offs fo dl fo',
  accept fo offs = (dl, fo') ->
  fo <= fo' /\ Forall (fun o => fo <= o < fo') dl /\ StronglySorted Z.lt dl /\
  (dl = [] -> fo' = fo) /\ (forall d, last dl d = d -> dl = [] \/ True) /\
  (dl <> [] -> fo' = last dl 0 + 1).
Proof.
  induction offs as [|o r IH]; intros fo dl fo'; cbn [accept].
  - intros [= <- <-]. repeat split; auto; try lia; try constructor. intros H; contradiction.
  - destruct (o <? fo) eqn:L.
    + apply IH.
    + apply Z.ltb_ge in L. destruct (accept (o + 1) r) as [d f] eqn:A. intros [= <- <-].
      destruct (IH _ _ _ A) as (H1 & H2 & H3 & H4 & _ & H6).
      split; [lia|]. split.
      { constructor; [lia|]. eapply Forall_impl; [|exact H2]. cbn. intros; lia. }
      split.
      { constructor; auto. eapply Forall_impl; [|exact H2]. cbn. intros; lia. }
      split; [discriminate|]. split; [auto|]. intros _.
      destruct d as [|x d']; [rewrite (H4 eq_refl); reflexivity|].
      rewrite H6 by discriminate. reflexivity.
Qed.

Lemma accept_below fo offs : Forall (fun o => o < fo) offs -> accept fo offs = ([], fo).
Proof.
  induction 1 as [|o r Ho Hr IH]; cbn [accept]; auto.
  destruct (o <? fo) eqn:L; [exact IH|apply Z.ltb_ge in L; lia].
Qed.

Lemma accept_app_below fo pre run : Forall (fun o => o < fo) pre -> accept fo (pre ++ run) = accept fo run.
Proof.
  induction 1 as [|o r Ho Hr IH]; cbn [accept app]; auto.
  destruct (o <? fo) eqn:L; [exact IH|apply Z.ltb_ge in L; lia].
Qed.

(* a strictly increasing run that starts at or after the fetch offset is kept entirely *)
Lemma accept_sorted : forall run fo, StronglySorted Z.lt run -> Forall (fun o => fo <= o) run ->
  accept fo run = (run, match run with [] => fo | _ => last run 0 + 1 end).
Proof.
  induction run as [|o r IH]; intros fo Hs Hf; cbn [accept]; auto.
  inversion Hs as [|? ? Hs' Hlt]; subst. inversion Hf as [|? ? Ho Hr]; subst.
  destruct (o <? fo) eqn:L; [apply Z.ltb_lt in L; lia|].
  rewrite (IH (o + 1) Hs').
  - destruct r; reflexivity.
  - eapply Forall_impl; [|exact Hlt]. cbn. intros; lia.
Qed.

(* ------------------------------------------------------------------ one answer that ends in ConsumerFetchSizeTooSmall *)
Theorem toosmall_step mb s offs s' outs :
  g_failed s = false -> 0 < g_buf s -> gstep mb s (Reply offs TooSmallTail) = (s', outs) ->
  let dl := fst (accept (g_off s) offs) in let fo := snd (accept (g_off s) offs) in
  (dl = [] -> fo = g_off s) /\
  ((exists b, outs = deliver dl ++ [Fetch fo b] /\ g_buf s < b /\ (forall m, mb = Some m -> b <= m)
              /\ s' = mkG fo b false)
   \/ (outs = [StartFailed] /\ (exists m, mb = Some m /\ m <= g_buf s) /\ s' = mkG (g_off s) (g_buf s) true)).
Proof.
  intros Hf Hp. unfold gstep. rewrite Hf. destruct (accept (g_off s) offs) as [dl fo] eqn:A. cbn [fst snd].
  destruct (accept_spec _ _ _ _ A) as (_ & _ & _ & H4 & _).
  destruct (grow (g_buf s) mb) as [b|] eqn:G; intro H; inversion H; subst; (split; [exact H4|]).
  - left. exists b. repeat split; auto.
    + eapply grow_strict; eauto.
    + intros m ->. eapply grow_le_max; eauto.
  - right. repeat split; auto. apply grow_none_iff. assumption.
Qed.

(* ------------------------------------------------------------------ whole runs *)
Definition delivered (outs : list gout) : list Z :=
  flat_map (fun o => match o with Deliver dl => dl | _ => [] end) outs.

Lemma delivered_app a b : delivered (a ++ b) = delivered a ++ delivered b.
Proof. unfold delivered. apply flat_map_app. Qed.

Lemma delivered_deliver dl : delivered (deliver dl) = dl.
Proof. destruct dl; cbn; auto. rewrite app_nil_r. reflexivity. Qed.

Lemma gstep_delivered mb s e s' outs : gstep mb s e = (s', outs) ->
  (delivered outs = [] /\ g_off s' = g_off s) \/
  (g_failed s = false /\ match e with Reply offs _ => accept (g_off s) offs = (delivered outs, g_off s') end).
Proof.
  unfold gstep. destruct (g_failed s) eqn:F.
  - intros [= <- <-]. left; auto.
  - intro H. destruct e as [offs tail]. destruct (accept (g_off s) offs) as [dl fo] eqn:A.
    assert (Y : forall b, delivered (deliver dl ++ [Fetch fo b]) = dl).
    { intro b. rewrite delivered_app, delivered_deliver. cbn. apply app_nil_r. }
    destruct tail; try destruct (grow (g_buf s) mb); inversion H; subst; cbn [g_off];
      try (right; split; [reflexivity|]; rewrite ?Y; reflexivity).
    left. split; reflexivity.
Qed.

Lemma sorted_app_lt (a b : list Z) x :
  StronglySorted Z.lt a -> StronglySorted Z.lt b -> Forall (fun o => o < x) a -> Forall (fun o => x <= o) b ->
  StronglySorted Z.lt (a ++ b).
Proof.
  induction a as [|y a IH]; intros Ha Hb Fa Fb; cbn [app]; auto.
  inversion Ha as [|? ? Ha' Hy]; subst. inversion Fa as [|? ? Hyx Fa']; subst.
  constructor; [apply IH; auto|]. apply Forall_app. split; auto.
  eapply Forall_impl; [|exact Fb]. cbn. intros; lia.
Qed.

(* no offset is handed to the processor twice, none out of order - over any sequence of answers whatsoever, including
   answers that deliver a prefix and then end in ConsumerFetchSizeTooSmall or in a decoding error, and across every refetch *)
Theorem run_no_repeat mb : forall evs s s' outs, grun mb s evs = (s', outs) ->
  g_off s <= g_off s' /\ StronglySorted Z.lt (delivered outs) /\
  Forall (fun o => g_off s <= o < g_off s') (delivered outs).
Proof.
  induction evs as [|e r IH]; intros s s' outs; cbn [grun].
  - intros [= <- <-]. cbn. repeat split; try lia; constructor.
  - destruct (gstep mb s e) as [s1 o1] eqn:E1. destruct (grun mb s1 r) as [s2 o2] eqn:E2.
    intros [= <- <-]. destruct (IH _ _ _ E2) as (L2 & S2 & F2). rewrite delivered_app.
    destruct (gstep_delivered _ _ _ _ _ E1) as [(Hd & Ho) | (Hf & Ha)].
    + rewrite Hd, <- Ho. cbn [app]. auto.
    + destruct e as [offs tail]. destruct (accept_spec _ _ _ _ Ha) as (L1 & F1 & S1 & _).
      split; [lia|]. split.
      * apply (sorted_app_lt _ _ (g_off s1)); auto.
        -- eapply Forall_impl; [|exact F1]. cbn. intros; lia.
        -- eapply Forall_impl; [|exact F2]. cbn. intros; lia.
      * apply Forall_app. split; (eapply Forall_impl; [|eassumption]); cbn; intros; lia.
Qed.

(* ------------------------------------------------------------------ nothing is skipped: against an honest log
   The partition holds the messages at the offsets L (strictly increasing; gaps allowed).  An answer to a request for
   offset fo is HONEST when what the decoder yields is: some messages below fo (the head of a wrapper that contains fo),
   then a run of the log's messages from fo on - as many as fitted - and then any of the three endings. *)
Definition from (fo : Z) (L : list Z) : list Z := filter (fun x => fo <=? x) L.

Definition honest (L : list Z) (fo : Z) (e : gev) : Prop :=
  match e with Reply offs _ => exists pre run rest, offs = pre ++ run /\ Forall (fun o => o < fo) pre /\ from fo L = run ++ rest end.

Fixpoint honest_run (L : list Z) (mb : option Z) (s : gstate) (evs : list gev) : Prop :=
  match evs with
  | [] => True
  | e :: r => (g_failed s = false -> honest L (g_off s) e) /\ honest_run L mb (fst (gstep mb s e)) r
  end.

Lemma from_sorted L fo : StronglySorted Z.lt L -> StronglySorted Z.lt (from fo L).
Proof.
  induction 1 as [|x l Hs IH Hx]; cbn [from filter]; [constructor|].
  destruct (fo <=? x); auto. constructor; auto.
  apply Forall_forall. intros y Hy. apply filter_In in Hy. destruct Hy as [Hy _].
  rewrite Forall_forall in Hx. auto.
Qed.

Lemma from_ge L fo : Forall (fun o => fo <= o) (from fo L).
Proof. apply Forall_forall. intros y Hy. apply filter_In in Hy. destruct Hy as [_ Hy]. apply Z.leb_le in Hy. exact Hy. Qed.

Lemma from_from L a b : a <= b -> from b (from a L) = from b L.
Proof.
  intros Hab. unfold from. induction L as [|x l IH]; cbn [filter]; auto.
  destruct (a <=? x) eqn:A; destruct (b <=? x) eqn:B; cbn [filter]; rewrite ?B, ?IH; auto.
  apply Z.leb_gt in A. apply Z.leb_le in B. lia.
Qed.

Lemma from_all l fo : Forall (fun o => fo <= o) l -> from fo l = l.
Proof.
  induction 1 as [|x l Hx Hl IH]; cbn [from filter]; auto.
  replace (fo <=? x) with true by (symmetry; apply Z.leb_le; exact Hx). f_equal. exact IH.
Qed.

Lemma from_none l fo : Forall (fun o => o < fo) l -> from fo l = [].
Proof.
  induction 1 as [|x l Hx Hl IH]; cbn [from filter]; auto.
  replace (fo <=? x) with false by (symmetry; apply Z.leb_gt; exact Hx). exact IH.
Qed.

Lemma sorted_app_inv (a b : list Z) : StronglySorted Z.lt (a ++ b) ->
  StronglySorted Z.lt a /\ StronglySorted Z.lt b /\ (forall x y, In x a -> In y b -> x < y).
Proof.
  induction a as [|x a IH]; cbn [app]; intros H.
  - repeat split; auto; [constructor | intros ? ? []].
  - inversion H as [|? ? Hs Hx]; subst. destruct (IH Hs) as (Sa & Sb & Hab).
    apply Forall_app in Hx. destruct Hx as [Hxa Hxb]. rewrite Forall_forall in Hxb.
    repeat split; auto; [constructor; auto|].
    intros u v [<-|Hu] Hv; auto.
Qed.

Lemma last_in (l : list Z) d : l <> [] -> In (last l d) l.
Proof.
  induction l as [|x l IH]; [contradiction|]. intros _. destruct l as [|y l'].
  - left; reflexivity.
  - right. apply IH. discriminate.
Qed.

(* after keeping [run], the rest of the log from the new fetch offset on is exactly what was not yet returned *)
Lemma from_after_run L fo run rest : StronglySorted Z.lt L -> from fo L = run ++ rest ->
  from (match run with [] => fo | _ => last run 0 + 1 end) L = rest.
Proof.
  intros HL E. pose proof (from_sorted L fo HL) as S. rewrite E in S.
  destruct (sorted_app_inv _ _ S) as (Sa & Sb & Hab).
  pose proof (from_ge L fo) as G. rewrite E in G. apply Forall_app in G. destruct G as [Ga Gb].
  destruct run as [|x run'].
  - cbn [app] in E. exact E.
  - set (run := x :: run') in *. set (l := last run 0).
    assert (Hl : In l run) by (apply last_in; discriminate).
    assert (Hfo : fo <= l + 1). { rewrite Forall_forall in Ga. specialize (Ga l Hl). lia. }
    rewrite <- (from_from L fo (l + 1) Hfo), E.
    unfold from at 1. rewrite filter_app. fold (from (l + 1) run). fold (from (l + 1) rest).
    rewrite from_none, from_all; auto.
    + apply Forall_forall. intros y Hy. specialize (Hab l y Hl Hy). lia.
    + (* every element of run is <= its last *)
      clear -Sa. subst l. induction run as [|a r IH]; [constructor|].
      inversion Sa as [|? ? Sr Ha]; subst. destruct r as [|b r'].
      * constructor; [cbn; lia|constructor].
      * specialize (IH Sr). constructor.
        -- change (last (a :: b :: r') 0) with (last (b :: r') 0).
           inversion IH as [|? ? Hb _]; subst. inversion Ha; subst. lia.
        -- exact IH.
Qed.

Theorem run_no_skip L mb : StronglySorted Z.lt L -> forall evs s s' outs,
  honest_run L mb s evs -> grun mb s evs = (s', outs) ->
  from (g_off s) L = delivered outs ++ from (g_off s') L.
Proof.
  intros HL. induction evs as [|e r IH]; intros s s' outs; cbn [grun honest_run].
  - intros _ [= <- <-]. reflexivity.
  - intros [Hh Hr]. destruct (gstep mb s e) as [s1 o1] eqn:E1. cbn [fst] in Hr.
    destruct (grun mb s1 r) as [s2 o2] eqn:E2. intros [= <- <-]. rewrite delivered_app.
    specialize (IH _ _ _ Hr E2).
    destruct (gstep_delivered _ _ _ _ _ E1) as [(Hd & Ho) | (Hf & Ha)].
    + rewrite Hd, <- Ho. cbn [app]. exact IH.
    + destruct e as [offs tail]. destruct (Hh Hf) as (pre & run & rest & -> & Hpre & Hfrom).
      rewrite accept_app_below in Ha by exact Hpre.
      pose proof (from_sorted L (g_off s) HL) as S. rewrite Hfrom in S.
      destruct (sorted_app_inv _ _ S) as (Srun & _ & _).
      pose proof (from_ge L (g_off s)) as G. rewrite Hfrom in G. apply Forall_app in G. destruct G as [Grun _].
      rewrite (accept_sorted run (g_off s) Srun Grun) in Ha. injection Ha as Hd Ho.
      rewrite <- Hd, <- app_assoc, <- IH, Hfrom. f_equal. rewrite <- Ho. symmetry.
      apply (from_after_run L (g_off s) run rest HL Hfrom).
Qed.

(* ------------------------------------------------------------------ the buffer gets there *)
(* n consecutive cut-in-the-first-entry answers, no limit configured: never a failure, the offset stays, the buffer at
   least doubles each time - so it exceeds any message size after finitely many answers *)
Theorem toosmall_unbounded : forall n s s' outs,
  g_failed s = false -> 0 < g_buf s -> grun None s (repeat TooSmall n) = (s', outs) ->
  g_failed s' = false /\ g_off s' = g_off s /\ 2 ^ Z.of_nat n * g_buf s <= g_buf s' /\ length outs = n.
Proof.
  induction n as [|n IH]; intros s s' outs Hf Hp; cbn [grun repeat].
  - intro H; inversion H; subst. repeat split; auto. simpl Z.of_nat. rewrite Z.pow_0_r. lia.
  - destruct (gstep None s TooSmall) as [s1 o1] eqn:E1. destruct (grun None s1 (repeat TooSmall n)) as [s2 o2] eqn:E2.
    intro H; inversion H; subst; clear H.
    destruct (toosmall_step _ _ _ _ _ Hf Hp E1) as (_ & [(b & -> & Hlt & _ & ->) | (_ & (m & Hm & _) & _)]); [|discriminate].
    cbn [accept fst snd deliver app] in *.
    assert (G : grow (g_buf s) None = Some b).
    { unfold gstep, TooSmall in E1. rewrite Hf in E1. cbn [accept] in E1. destruct (grow (g_buf s) None); inversion E1; reflexivity. }
    apply grow_unbounded_double in G; auto.
    assert (Hb : 0 < g_buf (mkG (g_off s) b false)) by (simpl; lia).
    destruct (IH (mkG (g_off s) b false) _ _ eq_refl Hb E2) as (F & O & B & L). cbn [g_off g_buf g_failed length app] in *.
    repeat split; auto.
    + rewrite Nat2Z.inj_succ, Z.pow_succ_r by lia.
      assert (0 < 2 ^ Z.of_nat n) by (apply Z.pow_pos_nonneg; lia). nia.
Qed.

(* with a limit m: as long as no failure was reported the buffer is at least min(2^n * buf, m) and never above m;
   a failure is reported exactly by the first answer that finds the buffer at the limit *)
Theorem toosmall_bounded m : forall n s s' outs,
  g_failed s = false -> 0 < g_buf s -> g_buf s <= m -> grun (Some m) s (repeat TooSmall n) = (s', outs) ->
  g_off s' = g_off s /\ g_buf s' <= m /\
  (g_failed s' = false -> Z.min (2 ^ Z.of_nat n * g_buf s) m <= g_buf s') /\
  (g_failed s' = true -> g_buf s' = m /\ In StartFailed outs).
Proof.
  induction n as [|n IH]; intros s s' outs Hf Hp Hle; cbn [grun repeat].
  - intro H; inversion H; subst. simpl Z.of_nat. rewrite Z.pow_0_r.
    split; [reflexivity|]. split; [assumption|]. split; [intros _; lia|].
    intro X; rewrite Hf in X; discriminate.
  - destruct (gstep (Some m) s TooSmall) as [s1 o1] eqn:E1.
    destruct (grun (Some m) s1 (repeat TooSmall n)) as [s2 o2] eqn:E2.
    intro H; inversion H; subst; clear H.
    destruct (toosmall_step _ _ _ _ _ Hf Hp E1) as (_ & [(b & -> & Hlt & Hmax & ->) | (-> & (m' & Hm & Hge) & ->)]);
      cbn [accept fst snd deliver app] in *.
    + assert (G : grow (g_buf s) (Some m) = Some b).
      { unfold gstep, TooSmall in E1. rewrite Hf in E1. cbn [accept] in E1. destruct (grow (g_buf s) (Some m)); inversion E1; reflexivity. }
      apply grow_bounded_double in G; auto. specialize (Hmax m eq_refl).
      assert (Hb : 0 < g_buf (mkG (g_off s) b false)) by (simpl; lia).
      assert (Hb2 : g_buf (mkG (g_off s) b false) <= m) by (simpl; lia).
      destruct (IH (mkG (g_off s) b false) _ _ eq_refl Hb Hb2 E2) as (O & B & F & X). cbn [g_off g_buf g_failed length app] in *.
      repeat split; auto.
      * intro Hn. specialize (F Hn). rewrite Nat2Z.inj_succ, Z.pow_succ_r by lia.
        assert (0 < 2 ^ Z.of_nat n) by (apply Z.pow_pos_nonneg; lia). nia.
      * apply X; auto.
      * right. apply X; auto.
    + inversion Hm; subst m'. (* failed now: the rest of the run does nothing *)
      assert (R : forall k st, g_failed st = true -> grun (Some m) st (repeat TooSmall k) = (st, [])).
      { induction k as [|k IHk]; intros st Hst; simpl; auto. unfold gstep. rewrite Hst. rewrite IHk; auto. }
      rewrite R in E2 by reflexivity. inversion E2; subst. cbn [g_off g_buf g_failed].
      split; [reflexivity|]. split; [lia|]. split; [discriminate|].
      intros _. split; [lia | left; reflexivity].
Qed.
