From AV Require Import Base.Util.
From Coq Require Import Lia.

Lemma zlist_eqb_eq a b : zlist_eqb a b = true <-> a = b.
Proof.
  unfold zlist_eqb. revert b. induction a as [|x a IH]; intros [|y b]; cbn [list_eqb]; split; intro H;
    try reflexivity; try discriminate.
  - apply andb_prop in H. destruct H as [H1 H2]. apply Z.eqb_eq in H1. apply IH in H2. congruence.
  - injection H as -> ->. rewrite Z.eqb_refl. apply IH. reflexivity.
Qed.

Lemma zlist_eqb_refl a : zlist_eqb a a = true.
Proof. apply zlist_eqb_eq. reflexivity. Qed.

Lemma zlist_eqb_neq a b : zlist_eqb a b = false <-> a <> b.
Proof. split; intro H.
  - intro E. apply zlist_eqb_eq in E. congruence.
  - destruct (zlist_eqb a b) eqn:E; [apply zlist_eqb_eq in E; contradiction | reflexivity].
Qed.

Lemma take_firstn {A} n (l : list A) : take n l = firstn n l.
Proof. revert l; induction n as [|n IH]; intros [|x l]; cbn; try reflexivity. now rewrite IH. Qed.
Lemma drop_skipn {A} n (l : list A) : drop n l = skipn n l.
Proof. revert l; induction n as [|n IH]; intros [|x l]; cbn; try reflexivity. now rewrite IH. Qed.
