(* The monitor PW of Model/ConsumerLog.v (processor-call window: no invocation while the previous one has not returned
   or its result is pending; every commit request carries the last successfully processed offset; the public
   last_processed_offset is that offset) never rejects a run of the consumer model.
   Outside a processor call what PW tracks is the function [pw_abs None] of the model state; inside the window between
   a processor invocation and the return of the API call it makes, [pw_abs (Some (l, r))]. *)
From Coq Require Import Lia.
From AV Require Import Base.Util Model.Consumer Model.ConsumerLog Proofs.ConsumerC02Wp.

Notation ww := (wp pw_out).

(* a: the state is known to be dead (stopping / stopped / start Deferred fired); b: moreover no processor result is
   awaited ("drained").  Both persist through every method.  w: the window.  Invariants 13 and 6 of the model: while alive a pending
   processor result implies a block in progress; a stopped consumer awaits no processor result. *)
Definition inv13b (s : state) : bool := dead s || implb (is_some (s_proc s)) (is_some (s_mblock s)).
Definition inv6b (s : state) : bool := implb (negb (is_some (s_startd s))) (negb (is_some (s_proc s))).
Definition PInv (d : bool * bool) (w : option (Z * Z)) (s : state) : Prop :=
  (0 <=? c_acn (s_cf s)) && inv13b s && inv6b s && implb (fst d) (dead s) && implb (snd d) (negb (is_some (s_proc s)))
  && implb (snd d) (fst d) = true.
Definition PQ (d : bool * bool) (w : option (Z * Z)) {A} : res A -> gpw -> state -> Prop :=
  fun _ g s => g = pw_abs w s /\ PInv d w s.

(* the frame most methods have: processor, block, plan and stopping flag untouched *)
Definition Fp (s s' : state) : Prop :=
  s_proc s' = s_proc s /\ s_mblock s' = s_mblock s /\ s_plan s' = s_plan s /\ s_stopping s' = s_stopping s.
Definition PF (d : bool * bool) (w : option (Z * Z)) (s : state) {A} : res A -> gpw -> state -> Prop :=
  fun _ g' s' => (g' = pw_abs w s' /\ PInv d w s') /\ Fp s s' /\ s_lp s' = s_lp s.

Lemma oz_eqb_refl x : oz_eqb x x = true.
Proof. destruct x; cbn; [apply Z.eqb_refl | reflexivity]. Qed.

Ltac rw_eqs := repeat match goal with H : ?x = _ |- context [?x] => progress (rewrite H) end.
Ltac rw_hyps :=
  repeat match goal with
  | p : (_ * _)%type |- _ => destruct p
  end;
  repeat match goal with
  | H : ?x = _ |- _ =>
    lazymatch x with
    | s_req _ => idtac | s_rcall _ => idtac | s_creq _ => idtac | s_ccall _ => idtac | s_startd _ => idtac
    | s_mblock _ => idtac | s_proc _ => idtac | s_looper _ => idtac | s_cds _ => idtac | s_plan _ => idtac
    | s_stopping _ => idtac | s_lp _ => idtac | s_cf _ => idtac
    end; progress (rewrite H in * )
  end.
Ltac bool_hyps :=
  repeat match goal with
  | H : _ && _ = true |- _ => apply andb_prop in H; destruct H
  | H : negb _ = true |- _ => apply negb_true_iff in H
  | H : negb _ = false |- _ => apply negb_false_iff in H
  | H : _ || _ = false |- _ => apply orb_false_elim in H; destruct H
  | H : true = false |- _ => discriminate H
  | H : false = true |- _ => discriminate H
  end.
Ltac bcomp := cbn [negb andb orb implb is_some w_st w_plan w_lp] in *.
Ltac case1 :=
  match goal with
  | |- context [match s_proc ?s with _ => _ end] => destruct (s_proc s) as [[[? ?] ?]|] eqn:?
  | |- context [match s_startd ?s with _ => _ end] => destruct (s_startd s) as [[]|] eqn:?
  | |- context [match s_mblock ?s with _ => _ end] => destruct (s_mblock s) as [[[? ?]|]|] eqn:?
  | H : context [match s_proc ?s with _ => _ end] |- _ => destruct (s_proc s) as [[[? ?] ?]|] eqn:?
  | H : context [match s_startd ?s with _ => _ end] |- _ => destruct (s_startd s) as [[]|] eqn:?
  | H : context [match s_mblock ?s with _ => _ end] |- _ => destruct (s_mblock s) as [[[? ?]|]|] eqn:?
  | |- context [is_some (s_proc ?s)] => destruct (s_proc s) as [[[? ?] ?]|] eqn:?
  | H : context [is_some (s_proc ?s)] |- _ => destruct (s_proc s) as [[[? ?] ?]|] eqn:?
  | |- s_proc ?s = None => destruct (s_proc s) as [[[? ?] ?]|] eqn:?
  | |- context [is_some (s_mblock ?s)] => destruct (s_mblock s) as [[[? ?]|]|] eqn:?
  | H : context [is_some (s_mblock ?s)] |- _ => destruct (s_mblock s) as [[[? ?]|]|] eqn:?
  | H : context [s_stopping ?s] |- _ => destruct (s_stopping s) eqn:?
  | |- context [s_stopping ?s] => destruct (s_stopping s) eqn:?
  end.
Ltac unf := unfold PQ, PF, Fp, PInv, inv13b, inv6b, pw_abs, dead, startd_unfired in *.
Ltac pfin :=
  psimpl; bcomp; bool_hyps; rw_eqs; bcomp;
  first [ reflexivity | assumption | congruence | discriminate ].
Ltac psearch n :=
  first [ solve [pfin]
        | lazymatch n with O => fail | S ?m => case1; psearch m end ].
Ltac dw :=
  repeat match goal with
  | d : (bool * bool)%type |- _ => destruct d as [[] []]; cbn [fst snd] in *
  | d : bool |- _ => lazymatch goal with H : context [implb d _] |- _ => destruct d end
  | w : option (Z * Z) |- _ => lazymatch goal with H : context [is_some w] |- _ => destruct w as [[? ?]|] end
  end.
Ltac pquick :=
  first [ reflexivity | assumption | congruence
        | solve [ unfold PInv, inv13b, inv6b, dead, startd_unfired in *; psimpl; first [ assumption | congruence ] ]
        | solve [ unfold pw_abs; psimpl; f_equal; first [ reflexivity | congruence ] ]
        | solve [ unfold pw_abs; psimpl; rw_hyps; reflexivity ] ].
Lemma dcons d w s : PInv d w s -> implb (snd d) (fst d) = true.
Proof. unfold PInv. intro H. apply andb_prop in H. tauto. Qed.
(* only the most recent invariant hypothesis (about the current state) matters (and the consistency of the mode) *)
Ltac keep_last :=
  try match goal with
  | K : PInv _ _ ?s |- _ =>
    repeat match goal with
    | K' : PInv _ _ ?s2 |- _ => tryif constr_eq s s2 then fail else (apply dcons in K')
    end
  end.
Ltac pheavy :=
  keep_last; unf; psimpl; dw; rw_hyps; rw_eqs; cbn beta iota in *; bcomp;
  try reflexivity; try assumption; try (f_equal; try reflexivity);
  psearch 5%nat.
Ltac psolve := unfold PQ, PF, Fp in *; repeat split; first [ solve [pquick] | pheavy ].

(* a state that is dead by hypothesis but alive by the branch taken: prune *)
Ltac prune :=
  match goal with
  | K : PInv (true, _) _ ?s, D : s_startd ?s = Some false, D' : s_stopping ?s = false |- _ =>
    solve [ exfalso; unf; rewrite D, D' in K; cbn in K; rewrite ?andb_false_r in K; cbn in K; discriminate ]
  end.

Ltac p_emit :=
  lazymatch goal with
  | |- wp _ (emit _) _ _ _ =>
    apply wp_emit; eexists; split;
    [ unfold pw_abs; psimpl; cbn [pw_out w_st w_plan w_lp]; rw_eqs; cbn beta iota; rewrite ?oz_eqb_refl;
      cbn [pw_out w_st w_plan w_lp]; try reflexivity
    | cbn beta iota ]
  end.

Lemma p_eq {A} (m : M A) Q w g s : g = pw_abs w s -> ww m Q (pw_abs w s) s -> ww m Q g s.
Proof. intros ->. auto. Qed.

Ltac destr_post H :=
  lazymatch type of H with
  | _ /\ _ => let H1 := fresh "P" in let H2 := fresh "P" in destruct H as [H1 H2]; destr_post H1; destr_post H2
  | ?g = pw_abs _ _ => subst g
  | _ => idtac
  end.
Ltac cur_w :=
  match goal with
  | K : PInv _ ?w0 _ |- _ => w0
  end.
Ltac after_call :=
  let r := fresh "r" in let H := fresh "P" in
  intros r ? ? H; unfold PQ, PF, Fp in H; destr_post H; destruct r; cbn beta iota.
Ltac p_docall lem :=
  let w0 := cur_w in
  eapply p_eq with (w := w0); [ solve [psolve] |
    eapply wp_call; [ eapply lem;
                      try (match goal with K : PInv ?d0 _ _ |- PInv ?e _ _ => is_evar e; unify e d0 end);
                      try solve [psolve]
                    | after_call ] ].
Ltac p_docall_d lem dd :=
  let w0 := cur_w in
  eapply p_eq with (w := w0); [ solve [psolve] |
    eapply wp_call; [ eapply lem with (d := dd); try solve [psolve] | after_call ] ].
Ltac p_stif :=
  lazymatch goal with
  | |- wp _ _ _ _ ?st => match st with context [if ?b then _ else _] => let D := fresh "D" in destruct b eqn:D end
  end.
Ltac p_walk call := repeat (first [ prune | p_stif | p_emit | wp_step call ]).
Ltac p_done := try solve [psolve].

(* ---------- methods without re-entrancy ---------- *)
Lemma p_startd_errback fk d w s : PInv d w s ->
  ww (startd_errback fk) (fun r g' s' => (g' = pw_abs w s' /\ PInv d w s') /\ Fp s s' /\ s_lp s' = s_lp s) (pw_abs w s) s.
Proof. intro K. unfold startd_errback, Fp. p_walk idtac. all: p_done. Qed.
Ltac c1 := idtac; lazymatch goal with
  | |- wp _ (startd_errback _) _ _ _ => p_docall p_startd_errback end.
Lemma p_do_fetch d w s : PInv d w s -> ww do_fetch (PF d w s) (pw_abs w s) s.
Proof. intro K. unfold do_fetch, PF, Fp. p_walk c1. all: p_done. Qed.
Lemma p_retry_fetch z d w s : PInv d w s -> ww (retry_fetch z) (PF d w s) (pw_abs w s) s.
Proof. intro K. unfold retry_fetch, PF, Fp. p_walk c1. all: p_done. Qed.
Ltac c3 := idtac; first [ c1 | lazymatch goal with
  | |- wp _ do_fetch _ _ _ => p_docall p_do_fetch
  | |- wp _ (retry_fetch _) _ _ _ => p_docall p_retry_fetch end ].
Lemma p_handle_offset_error fk d w s : PInv d w s -> ww (handle_offset_error fk) (PF d w s) (pw_abs w s) s.
Proof. intro K. unfold handle_offset_error, PF, Fp. p_walk c3. all: p_done. Qed.
Lemma p_handle_fetch_error fk d w s : PInv d w s -> ww (handle_fetch_error fk) (PF d w s) (pw_abs w s) s.
Proof. intro K. unfold handle_fetch_error, PF, Fp. p_walk c3. all: p_done. Qed.
Lemma p_handle_auto_commit_error fk d w s : PInv d w s -> ww (handle_auto_commit_error fk) (PF d w s) (pw_abs w s) s.
Proof. intro K. unfold handle_auto_commit_error, PF, Fp. p_walk c3. all: p_done. Qed.
Lemma p_handle_processor_error fk d w s : PInv d w s -> ww (handle_processor_error fk) (PF d w s) (pw_abs w s) s.
Proof. intro K. unfold handle_processor_error, PF, Fp. p_walk c3. all: p_done. Qed.
Lemma p_send_commit_request i a d w s : PInv d w s -> ww (send_commit_request i a) (PF d w s) (pw_abs w s) s.
Proof. intro K. unfold send_commit_request, PF, Fp. p_walk c3. all: p_done. Qed.
Ltac c4 := idtac; first [ c3 | lazymatch goal with
  | |- wp _ (handle_offset_error _) _ _ _ => p_docall p_handle_offset_error
  | |- wp _ (handle_fetch_error _) _ _ _ => p_docall p_handle_fetch_error
  | |- wp _ (handle_auto_commit_error _) _ _ _ => p_docall p_handle_auto_commit_error
  | |- wp _ (handle_processor_error _) _ _ _ => p_docall p_handle_processor_error
  | |- wp _ (send_commit_request _ _) _ _ _ => p_docall p_send_commit_request end ].
Lemma p_commit x d w s : PInv d w s -> ww (commit x) (PF d w s) (pw_abs w s) s.
Proof. intro K. unfold commit, PF, Fp. p_walk c4. all: p_done. Qed.
Ltac c5 := idtac; first [ c4 | lazymatch goal with
  | |- wp _ (commit _) _ _ _ => p_docall p_commit end ].
Lemma p_auto_commit bc d w s : PInv d w s -> ww (auto_commit bc) (PF d w s) (pw_abs w s) s.
Proof. intro K. unfold auto_commit, PF, Fp. p_walk c5. all: p_done. Qed.
Ltac c6 := idtac; first [ c5 | lazymatch goal with
  | |- wp _ (auto_commit _) _ _ _ => p_docall p_auto_commit end ].

(* the callbacks on the processor's Deferred: entered with the monitor already told the outcome (ORet of the call /
   EProcFire / OCancelProc), the model still holding the Deferred (or not yet: synchronous result) *)
Definition fired (s : state) (last : Z) (fk : option Z) : gpw :=
  mkPW PIdle (s_plan s) (match fk with None => Some last | Some _ => s_lp s end).
Lemma p_proc_chain last fk d s : PInv d None s ->
  ww (proc_chain last fk)
     (fun r g' s' => (g' = pw_abs None s' /\ PInv (fst d, fst d) None s') /\ s_proc s' = None /\ s_mblock s' = s_mblock s
                     /\ s_plan s' = s_plan s /\ s_stopping s' = s_stopping s)
     (fired s last fk) s.
Proof.
  intro K. unfold proc_chain, fired.
  destruct fk as [k|].
  - p_walk ltac:(idtac; lazymatch goal with
    | |- wp _ (handle_processor_error _) _ _ _ => p_docall_d p_handle_processor_error (fst d, false)
    | |- wp _ (auto_commit _) _ _ _ => p_docall_d p_auto_commit (fst d, false) end). all: p_done.
  - p_walk ltac:(idtac; lazymatch goal with
    | |- wp _ (handle_processor_error _) _ _ _ => p_docall_d p_handle_processor_error (fst d, false)
    | |- wp _ (auto_commit _) _ _ _ => p_docall_d p_auto_commit (fst d, false) end). all: p_done.
Qed.
Lemma p_emit_shutd ok v lc d w s : PInv d w s -> ww (emit_shutd (OShutD ok v lc)) (PF d w s) (pw_abs w s) s.
Proof. intro K. unfold emit_shutd, PF, Fp. p_walk c6. all: p_done. Qed.
Ltac c7 := idtac; first [ c6 | lazymatch goal with
  | |- wp _ (emit_shutd (OShutD _ _ _)) _ _ _ => p_docall p_emit_shutd
  | |- wp _ (emit_shutd (match ?x with _ => _ end)) _ _ _ => destruct x end ].
Lemma p_interrupted d w s : PInv d w s -> ww interrupted (PF d w s) (pw_abs w s) s.
Proof. intro K. unfold interrupted, PF, Fp. p_walk c7. all: p_done. Qed.
Ltac c8 := idtac; first [ c7 | lazymatch goal with
  | |- wp _ interrupted _ _ _ => p_docall p_interrupted end ].

(* ---------- the re-entrant methods ---------- *)
(* what a continuation needs on entry: the invariant; inside the window a dead and drained state (except stop()
   itself, which makes it so); a block is handed on only with no processor result pending and a block in progress *)
Definition loop_ok (s : state) : Prop := dead s || (negb (is_some (s_proc s)) && is_some (s_mblock s)) = true.
Definition PreD (k : kont) (d : bool * bool) (w : option (Z * Z)) (g : gpw) (s : state) : Prop :=
  match k with
  | KStop => g = pw_abs w s /\ PInv d w s /\ (is_some w = true -> s_proc s = None)
  | KFireProc fk =>
    match s_proc s with
    | Some (l, _, _) => w = None /\ g = fired s l fk /\ PInv d None s
    | None => g = pw_abs w s /\ PInv d w s /\ (is_some w = true -> snd d = true)
    end
  | KProcLoop _ => g = pw_abs w s /\ PInv d w s /\ (is_some w = true -> snd d = true) /\ loop_ok s
  | _ => g = pw_abs w s /\ PInv d w s /\ (is_some w = true -> snd d = true)
  end.
Definition dmode (k : kont) (d : bool * bool) : bool * bool :=
  match k with KStop => (true, true) | KFireProc _ => (fst d, fst d) | _ => d end.
Definition PostD (k : kont) (d : bool * bool) (w : option (Z * Z)) (s : state) : res unit -> gpw -> state -> Prop :=
  fun r g' s' => g' = pw_abs w s' /\
    (PInv (dmode k d) w s' \/ (k = KStop /\ s_startd s = None /\ PInv d w s')).   (* stop() on a stopped consumer raises *)

Section Rec.
Variable rec : kont -> M unit.
Hypothesis Hrec : forall k d w g s, PreD k d w g s -> ww (rec k) (PostD k d w s) g s.

Lemma Hrec_plain k d w s : PInv d w s -> (is_some w = true -> snd d = true) ->
  match k with KStop | KFireProc _ | KProcLoop _ => False | _ => True end ->
  ww (rec k) (PQ d w) (pw_abs w s) s.
Proof.
  intros K W Hk. eapply wp_conseq; [apply (Hrec k d w) |].
  - destruct k; try contradiction; cbn; auto.
  - intros r g' s' [-> [H | (E & _)]]; [| subst k; contradiction]. destruct k; try contradiction; split; auto.
Qed.
Lemma Hrec_stop d w s : PInv d w s -> (is_some w = true -> s_proc s = None) -> is_some (s_startd s) = true ->
  ww (rec KStop) (PQ (true, true) w) (pw_abs w s) s.
Proof.
  intros K W SD. eapply wp_conseq; [apply (Hrec KStop d w) |].
  - cbn. repeat split; auto.
  - intros r g' s' [-> [H | (_ & E & _)]]; [split; auto | rewrite E in SD; discriminate SD].
Qed.
Lemma Hrec_loop msgs d w s : PInv d w s -> (is_some w = true -> snd d = true) -> loop_ok s ->
  ww (rec (KProcLoop msgs)) (PQ d w) (pw_abs w s) s.
Proof.
  intros K W N. eapply wp_conseq; [apply (Hrec (KProcLoop msgs) d w) |].
  - cbn. auto.
  - intros r g' s' [-> [H | (E & _)]]; [split; auto | discriminate E].
Qed.

Ltac lsolve := unfold loop_ok in *; psolve.
Ltac wcond := first [ assumption | solve [intro; discriminate] | solve [cbn; intros; congruence] | solve [psolve]
  | solve [ let H := fresh "Hw" in intro H;
            repeat match goal with W : is_some _ = true -> _ |- _ => specialize (W H) end; psolve ] ].
Ltac pinv_arg := try (match goal with K : PInv ?d0 _ _ |- PInv ?e _ _ => is_evar e; unify e d0 end); solve [psolve].
Ltac c9 := idtac; first [ c8 | lazymatch goal with
  | |- wp _ (rec KStop) _ _ _ =>
    let w0 := cur_w in eapply p_eq with (w := w0); [ solve [psolve] |
      eapply wp_call; [ eapply Hrec_stop; [ pinv_arg | wcond | solve [psolve] ] | after_call ] ]
  | |- wp _ (rec (KProcLoop _)) _ _ _ =>
    let w0 := cur_w in eapply p_eq with (w := w0); [ solve [psolve] |
      eapply wp_call; [ eapply Hrec_loop; [ pinv_arg | wcond | solve [lsolve] ] | after_call ] ]
  | |- wp _ (rec (KFireProc _)) _ _ _ => fail
  | |- wp _ (rec _) _ _ _ =>
    let w0 := cur_w in eapply p_eq with (w := w0); [ solve [psolve] |
      eapply wp_call; [ eapply Hrec_plain; [ pinv_arg | wcond | exact I ] | after_call ] ]
  end ].

Lemma p_handle_commit_error fk i a d w s : PInv d w s -> (is_some w = true -> snd d = true) ->
  ww (handle_commit_error rec fk i a) (PQ d w) (pw_abs w s) s.
Proof. intros K W. unfold handle_commit_error. p_walk c9. all: p_done. Qed.
Lemma p_fire_all ds r d w s : PInv d w s -> (is_some w = true -> snd d = true) ->
  ww (fire_all rec ds r) (PQ d w) (pw_abs w s) s.
Proof.
  revert s. induction ds as [|x ds IH]; intros s K W; cbn [fire_all].
  - p_walk c9. all: p_done.
  - p_walk c9. all: try (apply IH; [solve [psolve] | wcond]). all: p_done.
Qed.
(* the end of a block: the parked reply, if any, is handled next *)
Lemma p_finish_block d w s : PInv d w s -> (is_some w = true -> snd d = true) -> dead s || negb (is_some (s_proc s)) = true ->
  ww (finish_block rec) (PQ d w) (pw_abs w s) s.
Proof. intros K W N. unfold finish_block. p_walk c9. all: p_done. Qed.
