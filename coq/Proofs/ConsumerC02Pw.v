(* The monitor PW of Model/ConsumerLog.v (processor-call window: no invocation while the previous one has not returned
   or its result is pending; every commit request carries the last successfully processed offset; the public
   last_processed_offset is that offset) never rejects a run of the consumer model.
   Outside a processor call what PW tracks is the function [pw_abs None] of the model state; inside the window between
   a processor invocation and the return of the API call it makes, [pw_abs (Some (l, r))]. *)
From Coq Require Import Lia.
From AV Require Import Base.Util Model.Consumer Model.ConsumerLog Proofs.ConsumerC02Wp.

Notation ww := (wp pw_out).

(* d: "drained and dead" (stopping/stopped/start Deferred fired, and no processor result awaited): such a state stays
   so through every method.  w: the window.  Invariant 13' of the model: while alive, a pending processor result implies
   a block in progress. *)
Definition PInv (d : bool) (w : option (Z * Z)) (s : state) : Prop :=
  0 <= c_acn (s_cf s)
  /\ (dead s = false -> is_some (s_proc s) = true -> is_some (s_mblock s) = true)
  /\ (d = true -> dead s = true /\ s_proc s = None)
  /\ (is_some w = true -> d = true).
Definition PQ (d : bool) (w : option (Z * Z)) {A} : res A -> gpw -> state -> Prop :=
  fun _ g s => g = pw_abs w s /\ PInv d w s.

Lemma oz_eqb_refl x : oz_eqb x x = true.
Proof. destruct x; cbn; [apply Z.eqb_refl | reflexivity]. Qed.

Ltac rw_eqs := repeat match goal with H : ?x = _ |- context [?x] => progress (rewrite H) end.
Ltac rw_hyps :=
  repeat match goal with
  | p : (_ * _)%type |- _ => destruct p
  end;
  repeat match goal with
  | H : ?x = _ |- _ =>
    lazymatch x with
    | s_req _ => idtac | s_rcall _ => idtac | s_creq _ => idtac | s_ccall _ => idtac | s_startd _ => idtac
    | s_mblock _ => idtac | s_proc _ => idtac | s_looper _ => idtac | s_cds _ => idtac | s_plan _ => idtac
    | s_stopping _ => idtac | s_lp _ => idtac | s_cf _ => idtac
    end; progress (rewrite H in * )
  end.
Ltac bool_hyps :=
  repeat match goal with
  | H : _ && _ = true |- _ => apply andb_prop in H; destruct H
  | H : negb _ = true |- _ => apply negb_true_iff in H
  | H : negb _ = false |- _ => apply negb_false_iff in H
  | H : _ || _ = false |- _ => apply orb_false_elim in H; destruct H
  | H : true = false |- _ => discriminate H
  | H : false = true |- _ => discriminate H
  end.
Ltac bcomp := cbn [negb andb orb implb is_some w_st w_plan w_lp] in *.
Ltac case1 :=
  match goal with
  | |- context [match s_proc ?s with _ => _ end] => destruct (s_proc s) as [[[? ?] ?]|] eqn:?
  | |- context [match s_startd ?s with _ => _ end] => destruct (s_startd s) as [[]|] eqn:?
  | |- context [match s_mblock ?s with _ => _ end] => destruct (s_mblock s) as [[[? ?]|]|] eqn:?
  | H : context [match s_proc ?s with _ => _ end] |- _ => destruct (s_proc s) as [[[? ?] ?]|] eqn:?
  | H : context [match s_startd ?s with _ => _ end] |- _ => destruct (s_startd s) as [[]|] eqn:?
  | H : context [match s_mblock ?s with _ => _ end] |- _ => destruct (s_mblock s) as [[[? ?]|]|] eqn:?
  | H : context [s_stopping ?s] |- _ => destruct (s_stopping s) eqn:?
  | |- context [s_stopping ?s] => destruct (s_stopping s) eqn:?
  end.
Ltac unf :=
  repeat match goal with
  | H : PInv _ _ _ |- _ => let a := fresh "I" in let b := fresh "I" in let c := fresh "I" in let e := fresh "I" in
                           destruct H as (a & b & c & e)
  | H : dead _ = _ |- _ => unfold dead, startd_unfired in H
  end;
  unfold PQ, PInv, pw_abs, dead, startd_unfired.
Ltac pfin :=
  psimpl; bcomp; bool_hyps; rw_eqs; bcomp;
  first [ reflexivity | assumption | congruence | discriminate | lia
        | match goal with H : ?a = true -> _ |- _ => apply H; first [ reflexivity | assumption | congruence ] end ].
Ltac psearch n :=
  first [ solve [pfin]
        | lazymatch n with O => fail | S ?m => case1; psearch m end ].
Ltac spec_hyps :=
  repeat match goal with
  | H : true = true -> _ |- _ => specialize (H eq_refl)
  | H : ?d = true -> _, E : ?d = true |- _ => specialize (H E)
  | H : _ /\ _ |- _ => destruct H
  end.
Ltac psolve :=
  unfold PQ; repeat split; unf; intros; spec_hyps; unf; psimpl; rw_hyps; rw_eqs; cbn beta iota in *;
  try reflexivity; try assumption; try (f_equal; try reflexivity);
  psearch 4%nat.

(* a state that is dead by hypothesis but alive by the branch taken: prune *)
Ltac prune :=
  match goal with
  | I : ?d = true -> dead ?s = true /\ _ |- _ =>
    solve [ exfalso; unf; spec_hyps; unf; rw_hyps; cbn beta iota in *; bcomp; bool_hyps; try congruence; try discriminate ]
  end.

Ltac p_emit :=
  lazymatch goal with
  | |- wp _ (emit _) _ _ _ =>
    apply wp_emit; eexists; split;
    [ unfold pw_abs; psimpl; cbn [pw_out w_st w_plan w_lp]; rw_eqs; cbn beta iota; rewrite ?oz_eqb_refl;
      cbn [pw_out w_st w_plan w_lp]; try reflexivity
    | cbn beta iota ]
  end.

Lemma p_eq {A} (m : M A) Q w g s : g = pw_abs w s -> ww m Q (pw_abs w s) s -> ww m Q g s.
Proof. intros ->. auto. Qed.

Ltac destr_post H :=
  lazymatch type of H with
  | _ /\ _ => let H1 := fresh "P" in let H2 := fresh "P" in destruct H as [H1 H2]; destr_post H1; destr_post H2
  | ?g = pw_abs _ _ => subst g
  | _ => idtac
  end.
Ltac p_docall lem :=
  eapply p_eq; [ solve [psolve] |
    eapply wp_call; [ eapply lem; try solve [psolve]
                    | let r := fresh "r" in let H := fresh "P" in
                      intros r ? ? H; unfold PQ in H; destr_post H; destruct r; cbn beta iota ] ].
Ltac p_stif :=
  lazymatch goal with
  | |- wp _ _ _ _ ?st => match st with context [if ?b then _ else _] => let D := fresh "D" in destruct b eqn:D end
  end.
Ltac p_walk call := repeat (first [ prune | p_stif | p_emit | wp_step call ]).
Ltac p_done := try solve [psolve].

(* ---------- methods without re-entrancy ---------- *)
(* the frame every such method has: processor, block, plan and stopping flag untouched *)
Definition Fp (s s' : state) : Prop :=
  s_proc s' = s_proc s /\ s_mblock s' = s_mblock s /\ s_plan s' = s_plan s /\ s_stopping s' = s_stopping s.

Lemma p_startd_errback fk d w s : PInv d w s ->
  ww (startd_errback fk) (fun r g' s' => (g' = pw_abs w s' /\ PInv d w s') /\ Fp s s' /\ s_lp s' = s_lp s) (pw_abs w s) s.
Proof. intro K. unfold startd_errback, Fp. p_walk idtac. all: p_done. Qed.
