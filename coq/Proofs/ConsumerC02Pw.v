(* The monitor PW of Model/ConsumerLog.v (processor-call window: no invocation while the previous one has not returned
   or its result is pending; every commit request carries the last successfully processed offset; the public
   last_processed_offset is that offset) never rejects a run of the consumer model.
   Outside a processor call what PW tracks is the function [pw_abs None] of the model state; inside the window between
   a processor invocation and the return of the API call it makes, [pw_abs (Some (l, r))]. *)
From Coq Require Import Lia.
From AV Require Import Base.Util Model.Consumer Model.ConsumerLog Proofs.ConsumerC02Wp.

Notation ww := (wp pw_out).

(* a: the state is known to be dead (stopping / stopped / start Deferred fired); b: moreover no processor result is
   awaited ("drained").  Both persist through every method.  w: the window (inside it no processor result is awaited
   and, while alive, a block is in progress).  Invariants 13 and 6 of the model: while alive a pending
   processor result implies a block in progress; a stopped consumer awaits no processor result. *)
Definition pw_neutral (o : output) : bool := match o with OStartD _ _ | OShutD _ _ _ => true | _ => false end.
Definition inv13b (s : state) : bool := dead s || implb (is_some (s_proc s)) (is_some (s_mblock s)).
Definition inv6b (s : state) : bool := implb (negb (is_some (s_startd s))) (negb (is_some (s_proc s))).
Definition PInv (d : bool * bool) (w : option (Z * Z)) (s : state) : Prop :=
  (0 <=? c_acn (s_cf s)) && inv13b s && inv6b s && forallb pw_neutral (s_pend s)
  && implb (fst d) (dead s) && implb (snd d) (negb (is_some (s_proc s))) && implb (snd d) (fst d)
  && implb (is_some w) (negb (is_some (s_proc s)) && (dead s || is_some (s_mblock s))) = true.
Definition PInvF (d : bool * bool) (s : state) : Prop :=      (* the part of PInv that does not speak of the processor *)
  (0 <=? c_acn (s_cf s)) && forallb pw_neutral (s_pend s) && implb (fst d) (dead s) = true.
Lemma PInvF_of d w s : PInv d w s -> PInvF d s.
Proof.
  unfold PInv, PInvF. intro K. repeat (apply andb_prop in K; destruct K as [K ?]).
  repeat (apply andb_true_intro; split); auto.
Qed.
Definition PQ (d : bool * bool) (w : option (Z * Z)) {A} : res A -> gpw -> state -> Prop :=
  fun _ g s => g = pw_abs w s /\ PInv d w s.

(* the frame most methods have: processor, block, plan and stopping flag untouched *)
Definition Fp (s s' : state) : Prop :=
  s_proc s' = s_proc s /\ s_mblock s' = s_mblock s /\ s_plan s' = s_plan s /\ s_stopping s' = s_stopping s.
Definition PF (d : bool * bool) (w : option (Z * Z)) (s : state) {A} : res A -> gpw -> state -> Prop :=
  fun _ g' s' => (g' = pw_abs w s' /\ PInv d w s') /\ Fp s s' /\ s_lp s' = s_lp s.

Lemma oz_eqb_refl x : oz_eqb x x = true.
Proof. destruct x; cbn; [apply Z.eqb_refl | reflexivity]. Qed.

Ltac rw_eqs := repeat match goal with H : ?x = _ |- context [?x] => progress (rewrite H) end.
Ltac rw_hyps :=
  repeat match goal with
  | p : (_ * _)%type |- _ => destruct p
  end;
  repeat match goal with
  | H : ?x = _ |- _ =>
    lazymatch x with
    | s_req _ => idtac | s_rcall _ => idtac | s_creq _ => idtac | s_ccall _ => idtac | s_startd _ => idtac
    | s_mblock _ => idtac | s_proc _ => idtac | s_looper _ => idtac | s_cds _ => idtac | s_plan _ => idtac
    | s_stopping _ => idtac | s_lp _ => idtac | s_cf _ => idtac
    end; progress (rewrite H in * )
  end.
Ltac bool_hyps :=
  repeat match goal with
  | H : _ && _ = true |- _ => apply andb_prop in H; destruct H
  | H : negb _ = true |- _ => apply negb_true_iff in H
  | H : negb _ = false |- _ => apply negb_false_iff in H
  | H : _ || _ = false |- _ => apply orb_false_elim in H; destruct H
  | H : true = false |- _ => discriminate H
  | H : false = true |- _ => discriminate H
  end.
Ltac bcomp := rewrite ?forallb_app in *; cbn [negb andb orb implb is_some w_st w_plan w_lp forallb pw_neutral] in *.
Ltac case1 :=
  match goal with
  | |- context [match s_proc ?s with _ => _ end] => destruct (s_proc s) as [[[? ?] ?]|] eqn:?
  | |- context [match s_startd ?s with _ => _ end] => destruct (s_startd s) as [[]|] eqn:?
  | |- context [match s_mblock ?s with _ => _ end] => destruct (s_mblock s) as [[[? ?]|]|] eqn:?
  | H : context [match s_proc ?s with _ => _ end] |- _ => destruct (s_proc s) as [[[? ?] ?]|] eqn:?
  | H : context [match s_startd ?s with _ => _ end] |- _ => destruct (s_startd s) as [[]|] eqn:?
  | H : context [match s_mblock ?s with _ => _ end] |- _ => destruct (s_mblock s) as [[[? ?]|]|] eqn:?
  | |- context [is_some (s_proc ?s)] => destruct (s_proc s) as [[[? ?] ?]|] eqn:?
  | H : context [is_some (s_proc ?s)] |- _ => destruct (s_proc s) as [[[? ?] ?]|] eqn:?
  | |- s_proc ?s = None => destruct (s_proc s) as [[[? ?] ?]|] eqn:?
  | |- context [is_some (s_mblock ?s)] => destruct (s_mblock s) as [[[? ?]|]|] eqn:?
  | H : context [is_some (s_mblock ?s)] |- _ => destruct (s_mblock s) as [[[? ?]|]|] eqn:?
  | H : context [s_stopping ?s] |- _ => destruct (s_stopping s) eqn:?
  | |- context [s_stopping ?s] => destruct (s_stopping s) eqn:?
  end.
Ltac unf := unfold PQ, PF, Fp, PInv, PInvF, inv13b, inv6b, pw_abs, dead, startd_unfired in *.
Ltac pfin :=
  psimpl; bcomp; bool_hyps; rw_eqs; bcomp;
  first [ reflexivity | assumption | congruence | discriminate ].
Ltac psearch n :=
  first [ solve [pfin]
        | lazymatch n with O => fail | S ?m => case1; psearch m end ].
Ltac dw :=
  repeat match goal with
  | d : (bool * bool)%type |- _ => destruct d as [[] []]; cbn [fst snd] in *
  | d : bool |- _ => lazymatch goal with H : context [implb d _] |- _ => destruct d end
  | w : option (Z * Z) |- _ => lazymatch goal with H : context [is_some w] |- _ => destruct w as [[? ?]|] end
  end.
Ltac pquick :=
  first [ reflexivity | assumption | congruence
        | solve [ unfold PInv, inv13b, inv6b, dead, startd_unfired in *; psimpl; first [ assumption | congruence ] ]
        | solve [ unfold pw_abs; psimpl; f_equal; first [ reflexivity | congruence ] ]
        | solve [ unfold pw_abs; psimpl; rw_hyps; reflexivity ] ].
Lemma dcons d w s : PInv d w s -> implb (snd d) (fst d) = true.
Proof. unfold PInv. intro H. repeat (apply andb_prop in H; destruct H as [H ?]). assumption. Qed.
(* only the most recent invariant hypothesis (about the current state) matters (and the consistency of the mode) *)
Ltac keep_last :=
  try match goal with
  | K : PInv _ _ ?s |- _ =>
    repeat match goal with
    | K' : PInv _ _ ?s2 |- _ => tryif constr_eq s s2 then fail else (apply dcons in K')
    end
  end.
Ltac pheavy :=
  keep_last; unf; psimpl; dw; rw_hyps; rw_eqs; cbn beta iota in *; bcomp;
  try reflexivity; try assumption; try (f_equal; try reflexivity);
  psearch 5%nat.
Ltac psolve := unfold PQ, PF, Fp in *; repeat split; first [ solve [pquick] | pheavy ].

(* a state that is dead by hypothesis but alive by the branch taken: prune *)
Ltac prune :=
  match goal with
  | K : PInv (true, _) _ ?s, D : s_startd ?s = Some false, D' : s_stopping ?s = false |- _ =>
    solve [ exfalso; unf; rewrite D, D' in K; cbn in K; rewrite ?andb_false_r in K; cbn in K; discriminate ]
  end.

Ltac p_emit :=
  lazymatch goal with
  | |- wp _ (emit _) _ _ _ =>
    apply wp_emit; eexists; split;
    [ unfold pw_abs; psimpl; cbn [pw_out w_st w_plan w_lp]; rw_eqs; cbn beta iota; rewrite ?oz_eqb_refl;
      cbn [pw_out w_st w_plan w_lp]; try reflexivity
    | cbn beta iota ]
  end.

Lemma p_eq {A} (m : M A) Q w g s : g = pw_abs w s -> ww m Q (pw_abs w s) s -> ww m Q g s.
Proof. intros ->. auto. Qed.

Ltac destr_post H :=
  lazymatch type of H with
  | _ /\ _ => let H1 := fresh "P" in let H2 := fresh "P" in destruct H as [H1 H2]; destr_post H1; destr_post H2
  | ?g = pw_abs _ _ => subst g
  | _ => idtac
  end.
Ltac cur_w :=
  match goal with
  | K : PInv _ ?w0 _ |- _ => w0
  | K : PInvF _ _ |- _ => constr:(@None (Z * Z))
  end.
Ltac after_call :=
  let r := fresh "r" in let H := fresh "P" in
  intros r ? ? H; unfold PQ, PF, Fp in H; destr_post H; destruct r; cbn beta iota.
Ltac p_docall lem :=
  let w0 := cur_w in
  eapply p_eq with (w := w0); [ solve [psolve] |
    eapply wp_call; [ eapply lem;
                      try (match goal with K : PInv ?d0 _ _ |- PInv ?e _ _ => is_evar e; unify e d0 end);
                      try solve [psolve]
                    | after_call ] ].
Ltac p_docall_d lem dd :=
  let w0 := cur_w in
  eapply p_eq with (w := w0); [ solve [psolve] |
    eapply wp_call; [ eapply lem with (d := dd); try solve [psolve] | after_call ] ].
Ltac p_stif :=
  lazymatch goal with
  | |- wp _ _ _ _ ?st => match st with context [if ?b then _ else _] => let D := fresh "D" in destruct b eqn:D end
  end.
Ltac p_walk call := repeat (first [ prune | p_stif | p_emit | wp_step call ]).
Ltac p_done := try solve [psolve].

(* ---------- methods without re-entrancy ---------- *)
Lemma p_startd_errback fk d w s : PInv d w s ->
  ww (startd_errback fk) (fun r g' s' => (g' = pw_abs w s' /\ PInv d w s') /\ Fp s s' /\ s_lp s' = s_lp s) (pw_abs w s) s.
Proof. intro K. unfold startd_errback, Fp. p_walk idtac. all: p_done. Qed.
Ltac c1 := idtac; lazymatch goal with
  | |- wp _ (startd_errback _) _ _ _ => p_docall p_startd_errback end.
Lemma p_do_fetch d w s : PInv d w s -> ww do_fetch (PF d w s) (pw_abs w s) s.
Proof. intro K. unfold do_fetch, PF, Fp. p_walk c1. all: p_done. Qed.
Lemma p_retry_fetch z d w s : PInv d w s -> ww (retry_fetch z) (PF d w s) (pw_abs w s) s.
Proof. intro K. unfold retry_fetch, PF, Fp. p_walk c1. all: p_done. Qed.
Ltac c3 := idtac; first [ c1 | lazymatch goal with
  | |- wp _ do_fetch _ _ _ => p_docall p_do_fetch
  | |- wp _ (retry_fetch _) _ _ _ => p_docall p_retry_fetch end ].
Lemma p_handle_offset_error fk d w s : PInv d w s -> ww (handle_offset_error fk) (PF d w s) (pw_abs w s) s.
Proof. intro K. unfold handle_offset_error, PF, Fp. p_walk c3. all: p_done. Qed.
Lemma p_handle_fetch_error fk d w s : PInv d w s -> ww (handle_fetch_error fk) (PF d w s) (pw_abs w s) s.
Proof. intro K. unfold handle_fetch_error, PF, Fp. p_walk c3. all: p_done. Qed.
Lemma p_handle_auto_commit_error fk d w s : PInv d w s -> ww (handle_auto_commit_error fk) (PF d w s) (pw_abs w s) s.
Proof. intro K. unfold handle_auto_commit_error, PF, Fp. p_walk c3. all: p_done. Qed.
Lemma p_handle_processor_error fk d w s : PInv d w s -> ww (handle_processor_error fk) (PF d w s) (pw_abs w s) s.
Proof. intro K. unfold handle_processor_error, PF, Fp. p_walk c3. all: p_done. Qed.
Lemma p_send_commit_request i a d w s : PInv d w s -> ww (send_commit_request i a) (PF d w s) (pw_abs w s) s.
Proof. intro K. unfold send_commit_request, PF, Fp. p_walk c3. all: p_done. Qed.
Ltac c4 := idtac; first [ c3 | lazymatch goal with
  | |- wp _ (handle_offset_error _) _ _ _ => p_docall p_handle_offset_error
  | |- wp _ (handle_fetch_error _) _ _ _ => p_docall p_handle_fetch_error
  | |- wp _ (handle_auto_commit_error _) _ _ _ => p_docall p_handle_auto_commit_error
  | |- wp _ (handle_processor_error _) _ _ _ => p_docall p_handle_processor_error
  | |- wp _ (send_commit_request _ _) _ _ _ => p_docall p_send_commit_request end ].
Lemma p_commit x d w s : PInv d w s -> ww (commit x) (PF d w s) (pw_abs w s) s.
Proof. intro K. unfold commit, PF, Fp. p_walk c4. all: p_done. Qed.
Ltac c5 := idtac; first [ c4 | lazymatch goal with
  | |- wp _ (commit _) _ _ _ => p_docall p_commit end ].
Lemma p_auto_commit bc d w s : PInv d w s -> ww (auto_commit bc) (PF d w s) (pw_abs w s) s.
Proof. intro K. unfold auto_commit, PF, Fp. p_walk c5. all: p_done. Qed.
Ltac c6 := idtac; first [ c5 | lazymatch goal with
  | |- wp _ (auto_commit _) _ _ _ => p_docall p_auto_commit end ].

(* the callbacks on the processor's Deferred: entered with the monitor already told the outcome (ORet of the call /
   EProcFire / OCancelProc), the model still holding the Deferred (or not yet: synchronous result) *)
Definition fired (s : state) (last : Z) (fk : option Z) : gpw :=
  mkPW PIdle (s_plan s) (match fk with None => Some last | Some _ => s_lp s end).
Lemma p_proc_chain last fk d s : PInvF d s ->
  ww (proc_chain last fk)
     (fun r g' s' => (g' = pw_abs None s' /\ PInv (fst d, fst d) None s') /\ s_proc s' = None /\ s_mblock s' = s_mblock s
                     /\ s_plan s' = s_plan s /\ s_stopping s' = s_stopping s)
     (fired s last fk) s.
Proof.
  intro K. unfold proc_chain, fired.
  destruct fk as [k|].
  - p_walk ltac:(idtac; lazymatch goal with
    | |- wp _ (handle_processor_error _) _ _ _ => p_docall_d p_handle_processor_error (fst d, false)
    | |- wp _ (auto_commit _) _ _ _ => p_docall_d p_auto_commit (fst d, false) end). all: p_done.
  - p_walk ltac:(idtac; lazymatch goal with
    | |- wp _ (handle_processor_error _) _ _ _ => p_docall_d p_handle_processor_error (fst d, false)
    | |- wp _ (auto_commit _) _ _ _ => p_docall_d p_auto_commit (fst d, false) end). all: p_done.
Qed.
Lemma p_emit_shutd ok v lc d w s : PInv d w s -> ww (emit_shutd (OShutD ok v lc)) (PF d w s) (pw_abs w s) s.
Proof. intro K. unfold emit_shutd, PF, Fp. p_walk c6. all: p_done. Qed.
Ltac c7 := idtac; first [ c6 | lazymatch goal with
  | |- wp _ (emit_shutd (OShutD _ _ _)) _ _ _ => p_docall p_emit_shutd
  | |- wp _ (emit_shutd (match ?x with _ => _ end)) _ _ _ => destruct x end ].
Lemma p_interrupted d w s : PInv d w s -> ww interrupted (PF d w s) (pw_abs w s) s.
Proof. intro K. unfold interrupted, PF, Fp. p_walk c7. all: p_done. Qed.
Ltac c8 := idtac; first [ c7 | lazymatch goal with
  | |- wp _ interrupted _ _ _ => p_docall p_interrupted end ].

(* outcomes held back until an API call returns do not move the monitor *)
Lemma neutral_pw g l : forallb pw_neutral l = true -> gouts pw_out g l = Some g.
Proof.
  induction l as [|x l IH]; cbn [forallb gouts]; [reflexivity|]. intro H. apply andb_prop in H. destruct H as [H1 H2].
  destruct x; try discriminate H1; cbn [pw_out]; auto.
Qed.

(* ---------- the re-entrant methods ---------- *)
(* what a continuation needs on entry: the invariant; inside the window a dead and drained state (except stop()
   itself, which makes it so); a block is handed on only with no processor result pending and a block in progress *)
Definition loop_ok (s : state) : Prop := dead s || (negb (is_some (s_proc s)) && is_some (s_mblock s)) = true.
Definition PreD (k : kont) (d : bool * bool) (w : option (Z * Z)) (g : gpw) (s : state) : Prop :=
  match k with
  | KStop => g = pw_abs w s /\ PInv d w s
  | KFireProc fk =>
    match s_proc s with
    | Some (l, _, _) => w = None /\ g = fired s l fk /\ PInv d None s
    | None => g = pw_abs w s /\ PInv d w s /\ (is_some w = true -> snd d = true)
    end
  | KProcLoop _ => g = pw_abs w s /\ PInv d w s /\ (is_some w = true -> snd d = true) /\ loop_ok s
  | KFetchResp _ _ => g = pw_abs w s /\ PInv d w s /\ (is_some w = true -> snd d = true)
  | _ => g = pw_abs w s /\ PInv d w s        (* these never reach the processor: allowed inside the window even alive *)
  end.
Definition dmode (k : kont) (d : bool * bool) : bool * bool :=
  match k with KStop => (true, true) | KFireProc _ => (fst d, fst d) | _ => d end.
Definition PostD (k : kont) (d : bool * bool) (w : option (Z * Z)) (s : state) : res unit -> gpw -> state -> Prop :=
  fun r g' s' => g' = pw_abs w s' /\
    (PInv (dmode k d) w s' \/ (k = KStop /\ s_startd s = None /\ PInv d w s')).   (* stop() on a stopped consumer raises *)

Section Rec.
Variable rec : kont -> M unit.
Hypothesis Hrec : forall k d w g s, PreD k d w g s -> ww (rec k) (PostD k d w s) g s.

Lemma Hrec_plain k d w s : PInv d w s ->
  match k with KStop | KFireProc _ | KProcLoop _ | KFetchResp _ _ => False | _ => True end ->
  ww (rec k) (PQ d w) (pw_abs w s) s.
Proof.
  intros K Hk. eapply wp_conseq; [apply (Hrec k d w) |].
  - destruct k; try contradiction; cbn; auto.
  - intros r g' s' [-> [H | (E & _)]]; [| subst k; contradiction]. destruct k; try contradiction; split; auto.
Qed.
Lemma Hrec_fetch offs ts d w s : PInv d w s -> (is_some w = true -> snd d = true) ->
  ww (rec (KFetchResp offs ts)) (PQ d w) (pw_abs w s) s.
Proof.
  intros K W. eapply wp_conseq; [apply (Hrec (KFetchResp offs ts) d w) |].
  - cbn; auto.
  - intros r g' s' [-> [H | (E & _)]]; [| discriminate E]. split; auto.
Qed.
Lemma Hrec_stop d w s : PInv d w s -> is_some (s_startd s) = true ->
  ww (rec KStop) (PQ (true, true) w) (pw_abs w s) s.
Proof.
  intros K SD. eapply wp_conseq; [apply (Hrec KStop d w) |].
  - cbn. repeat split; auto.
  - intros r g' s' [-> [H | (_ & E & _)]]; [split; auto | rewrite E in SD; discriminate SD].
Qed.
Lemma Hrec_loop msgs d w s : PInv d w s -> (is_some w = true -> snd d = true) -> loop_ok s ->
  ww (rec (KProcLoop msgs)) (PQ d w) (pw_abs w s) s.
Proof.
  intros K W N. eapply wp_conseq; [apply (Hrec (KProcLoop msgs) d w) |].
  - cbn. auto.
  - intros r g' s' [-> [H | (E & _)]]; [split; auto | discriminate E].
Qed.

Ltac lsolve := unfold loop_ok in *; psolve.
Ltac wcond := first [ assumption | solve [intro; discriminate] | solve [cbn; intros; congruence] | solve [psolve]
  | solve [ let H := fresh "Hw" in intro H;
            repeat match goal with W : is_some _ = true -> _ |- _ => specialize (W H) end; psolve ] ].
Ltac pinv_arg := try (match goal with K : PInv ?d0 _ _ |- PInv ?e _ _ => is_evar e; unify e d0 end); solve [psolve].
Ltac c9 := idtac; first [ c8 | lazymatch goal with
  | |- wp _ (rec KStop) _ _ _ =>
    let w0 := cur_w in eapply p_eq with (w := w0); [ solve [psolve] |
      eapply wp_call; [ eapply Hrec_stop; [ pinv_arg | solve [psolve] ] | after_call ] ]
  | |- wp _ (rec (KProcLoop _)) _ _ _ =>
    let w0 := cur_w in eapply p_eq with (w := w0); [ solve [psolve] |
      eapply wp_call; [ eapply Hrec_loop; [ pinv_arg | wcond | solve [lsolve] ] | after_call ] ]
  | |- wp _ (rec (KFireProc _)) _ _ _ => fail
  | |- wp _ (rec (KFetchResp _ _)) _ _ _ =>
    let w0 := cur_w in eapply p_eq with (w := w0); [ solve [psolve] |
      eapply wp_call; [ eapply Hrec_fetch; [ pinv_arg | wcond ] | after_call ] ]
  | |- wp _ (rec _) _ _ _ =>
    let w0 := cur_w in eapply p_eq with (w := w0); [ solve [psolve] |
      eapply wp_call; [ eapply Hrec_plain; [ pinv_arg | exact I ] | after_call ] ]
  end ].

Lemma p_handle_commit_error fk i a d w s : PInv d w s ->
  ww (handle_commit_error rec fk i a) (PQ d w) (pw_abs w s) s.
Proof. intros K. unfold handle_commit_error. p_walk c9. all: p_done. Qed.
Lemma p_fire_all ds r d w s : PInv d w s ->
  ww (fire_all rec ds r) (PQ d w) (pw_abs w s) s.
Proof.
  revert s. induction ds as [|x ds IH]; intros s K; cbn [fire_all].
  - p_walk c9. all: p_done.
  - p_walk c9. all: try (apply IH; solve [psolve]). all: p_done.
Qed.
(* the end of a block: the parked reply, if any, is handled next *)
Lemma p_finish_block d w s : PInv d w s -> (is_some w = true -> snd d = true) -> dead s || negb (is_some (s_proc s)) = true ->
  ww (finish_block rec) (PQ d w) (pw_abs w s) s.
Proof.
  intros K W N. assert (W' : implb (is_some w) (snd d) = true) by (destruct w; cbn; auto).
  unfold finish_block. p_walk c9. all: p_done.
Qed.
Ltac c10 := idtac; first [ c9 | lazymatch goal with
  | |- wp _ (handle_commit_error _ _ _ _) _ _ _ =>
    let w0 := cur_w in eapply p_eq with (w := w0); [ solve [psolve] |
      eapply wp_call; [ eapply p_handle_commit_error; pinv_arg | after_call ] ]
  | |- wp _ (fire_all _ _ _) _ _ _ =>
    let w0 := cur_w in eapply p_eq with (w := w0); [ solve [psolve] |
      eapply wp_call; [ eapply p_fire_all; pinv_arg | after_call ] ]
  | |- wp _ (finish_block _) _ _ _ =>
    let w0 := cur_w in eapply p_eq with (w := w0); [ solve [psolve] |
      eapply wp_call; [ eapply p_finish_block; [ pinv_arg | wcond | solve [lsolve] ] | after_call ] ]
  end ].

(* stop()'s cancellation of the processor's Deferred: afterwards the state is drained *)
Lemma p_stop_proc (d : bool * bool) w s : PInv (true, false) w s ->
  ww (stop_proc rec) (PQ (true, true) w) (pw_abs w s) s.
Proof.
  intros K. unfold stop_proc. apply wp_bind, wp_get. cbn beta iota.
  destruct (s_proc s) as [[[l rest] c]|] eqn:D.
  - destruct w as [[wl wr]|]; [exfalso; clear - K D; unfold PInv in K; rewrite D in K; cbn in K; rewrite !andb_false_r in K; discriminate K|].
    apply wp_bind. apply wp_emit. eexists. split.
    { unfold pw_abs. cbn [pw_out w_st]. rewrite D. reflexivity. }
    cbn beta iota. apply wp_swallow.
    eapply wp_conseq; [apply (Hrec (KFireProc (Some FK_CANCELLED)) (true, false) None) |].
    + cbn [PreD]. rewrite D. repeat split; auto.
    + intros r g' s' [-> [H | (E & _)]]; [split; auto | discriminate E].
  - apply wp_ret. split; [reflexivity|]. psolve.
Qed.
Lemma p_stop_req d w s : PInv d w s ->
  ww stop_req (fun r g' s' => PF d w s r g' s' /\ r = Ok tt) (pw_abs w s) s.
Proof. intro K. unfold stop_req, PF, Fp. p_walk c10. all: p_done. Qed.
Lemma p_stop_rcall d w s : PInv d w s -> ww stop_rcall (PF d w s) (pw_abs w s) s.
Proof. intro K. unfold stop_rcall, PF, Fp. p_walk c10. all: p_done. Qed.
Lemma p_stop_creq d w s : PInv d w s -> ww (stop_creq rec) (PQ d w) (pw_abs w s) s.
Proof. intros K. unfold stop_creq. p_walk c10. all: p_done. Qed.
Lemma p_stop_ccall d w s : PInv d w s -> ww stop_ccall (PF d w s) (pw_abs w s) s.
Proof. intro K. unfold stop_ccall, PF, Fp. p_walk c10. all: p_done. Qed.
Lemma p_stop_looper d w s : PInv d w s -> ww stop_looper (PF d w s) (pw_abs w s) s.
Proof. intro K. unfold stop_looper, PF, Fp. p_walk c10. all: p_done. Qed.
Lemma p_stop_susp d w s : PInv d w s -> ww stop_susp (PF d w s) (pw_abs w s) s.
Proof. intro K. unfold stop_susp, PF, Fp. p_walk c10. all: p_done. Qed.
Ltac c11 := idtac; first [ c10 | lazymatch goal with
  | |- wp _ stop_rcall _ _ _ => p_docall p_stop_rcall
  | |- wp _ stop_ccall _ _ _ => p_docall p_stop_ccall
  | |- wp _ stop_looper _ _ _ => p_docall p_stop_looper
  | |- wp _ stop_susp _ _ _ => p_docall p_stop_susp
  | |- wp _ (stop_creq _) _ _ _ =>
    let w0 := cur_w in eapply p_eq with (w := w0); [ solve [psolve] |
      eapply wp_call; [ eapply p_stop_creq; pinv_arg | after_call ] ]
  end ].

Ltac fin_k := try solve [ split; [ solve [psolve] | left; solve [psolve] ] ].
Lemma p_body_KStop d w s : PInv d w s ->
  ww (body rec KStop) (PostD KStop d w s) (pw_abs w s) s.
Proof.
  intros K. cbn [body]. unfold PostD, dmode.
  apply wp_bind, wp_get. cbn beta iota. destruct (s_startd s) as [b|] eqn:SD.
  2:{ apply wp_raise. split; auto. }
  apply wp_bind, wp_upd. cbn beta iota.
  (* stopping: the state is dead from here on *)
  assert (K1 : PInv (true, false) w (set_stopping true s)) by psolve. clear K.
  apply wp_bind. p_docall_d p_stop_req (true, false). all: try discriminate. all: fin_k.
  (* the parked reply is dropped *)
  unfold stop_mblock. apply wp_bind, wp_bind, wp_get. cbn beta iota.
  match goal with |- wp _ (match ?x with _ => _ end) _ _ _ => destruct x eqn:MB end; wp_prim; cbn beta iota.
  all: apply wp_bind; eapply p_eq with (w := w); [reflexivity|];
    (eapply wp_call; [ apply (p_stop_proc (true, false) w); psolve |]);
    after_call; fin_k;
    unfold stop_startd; p_walk c11; fin_k.
Qed.

Lemma p_body_KStopCds d w s : PInv d w s ->
  ww (body rec KStopCds) (PostD KStopCds d w s) (pw_abs w s) s.
Proof. intros K. cbn [body]. unfold PostD, dmode. p_walk c11. all: fin_k. Qed.
Lemma p_body_KFetchResp offs ts d w s : PInv d w s -> (is_some w = true -> snd d = true) ->
  ww (body rec (KFetchResp offs ts)) (PostD (KFetchResp offs ts) d w s) (pw_abs w s) s.
Proof. intros K W. cbn [body]. unfold PostD, dmode. p_walk c11. all: fin_k. Qed.
Lemma p_body_KCommitAndStop d w s : PInv d w s ->
  ww (body rec KCommitAndStop) (PostD KCommitAndStop d w s) (pw_abs w s) s.
Proof. intros K. cbn [body]. unfold PostD, dmode. p_walk c11. all: fin_k. Qed.
Lemma p_body_KShutFinish fk d w s : PInv d w s ->
  ww (body rec (KShutFinish fk)) (PostD (KShutFinish fk) d w s) (pw_abs w s) s.
Proof. intros K. cbn [body]. unfold PostD, dmode. p_walk c11. all: fin_k. Qed.
Lemma p_body_KFireCd x r d w s : PInv d w s ->
  ww (body rec (KFireCd x r)) (PostD (KFireCd x r) d w s) (pw_abs w s) s.
Proof. intros K. cbn [body]. unfold PostD, dmode. p_walk c11. all: fin_k. Qed.
Lemma p_body_KDeliver r d w s : PInv d w s ->
  ww (body rec (KDeliver r)) (PostD (KDeliver r) d w s) (pw_abs w s) s.
Proof. intros K. cbn [body]. unfold PostD, dmode. p_walk c11. all: fin_k. Qed.

Lemma PInv_drained d s : PInv d None s -> s_proc s = None -> PInv (fst d, fst d) None s.
Proof. intros K N. psolve. Qed.

Lemma PInv_dead a b w s : PInv (a, b) w s -> a = true -> dead s = true.
Proof. intros K ->. unfold PInv in K. cbn [fst snd implb] in K. repeat (apply andb_prop in K; destruct K as [K ?]). assumption. Qed.
Lemma PInv_13 d w s : PInv d w s -> dead s = false -> is_some (s_proc s) = true -> is_some (s_mblock s) = true.
Proof.
  intros K D P. unfold PInv, inv13b in K. repeat (apply andb_prop in K; destruct K as [K ?]).
  rewrite D, P in *. cbn in *. assumption.
Qed.

Lemma p_body_KFireProc fk d w g s : PreD (KFireProc fk) d w g s ->
  ww (body rec (KFireProc fk)) (PostD (KFireProc fk) d w s) g s.
Proof.
  intro Pre. cbn [body PreD] in *. unfold PostD, dmode.
  apply wp_bind, wp_get. cbn beta iota.
  destruct (s_proc s) as [[[last rest] cont]|] eqn:SP.
  2:{ destruct Pre as (-> & K & W). apply wp_ret. split; [reflexivity|]. left. psolve. }
  destruct Pre as (-> & -> & K).
  (* alive before => a block is in progress (invariant 13); the mode remembers whether the state was dead *)
  assert (K0 : PInv (dead s || fst d, false) None s) by psolve.
  apply wp_bind. eapply wp_call; [ apply (p_proc_chain last fk _ s (PInvF_of _ _ _ K0)) |].
  intros r g' s' ((-> & K') & N & MB & PL & ST). cbn [fst] in K'. destruct r as [r|x]; cbn beta iota.
  2:{ split; [reflexivity|]. left. psolve. }
  assert (K2 : PInv (fst d, fst d) None s') by psolve.
  assert (L2 : loop_ok s').
  { unfold loop_ok. destruct (dead s') eqn:DS'; [reflexivity|]. rewrite N, MB. cbn.
    destruct (dead s) eqn:DS; [ rewrite (PInv_dead _ _ _ _ K' eq_refl) in DS'; discriminate DS' |].
    apply (PInv_13 _ _ _ K DS). rewrite SP. reflexivity. }
  apply wp_bind.
  assert (Hloop : forall Q : res unit -> gpw -> state -> Prop,
            (forall g2 s2, g2 = pw_abs None s2 -> PInv (fst d, fst d) None s2 -> Q (Ok tt) g2 s2) ->
            ww (match r with None => swallow (rec (KProcLoop rest)) | Some _ => ret tt end) Q (pw_abs None s') s').
  { intros Q HQ. destruct r.
    - apply wp_ret. apply HQ; auto.
    - apply wp_swallow. eapply wp_conseq; [ apply (Hrec_loop rest (fst d, fst d) None s' K2); [intro; discriminate | exact L2] |].
      intros r0 g2 s2 [-> H2]. apply HQ; auto. }
  apply Hloop. intros g2 s2 -> K3. cbn beta iota.
  destruct cont.
  - apply wp_swallow. eapply wp_conseq; [ apply (Hrec_plain KCommitAndStop (fst d, fst d) None s2 K3); exact I |].
    intros r0 g3 s3 [-> H3]. split; [reflexivity | left; exact H3].
  - apply wp_ret. split; [reflexivity | left; exact K3].
Qed.

Lemma blk_nonempty acn (m0 : Z) l : 0 <= acn ->
  exists tl, take (if acn =? 0 then length (m0 :: l) else Z.to_nat acn) (m0 :: l) = m0 :: tl.
Proof.
  intro H. destruct (acn =? 0) eqn:E.
  - cbn. eauto.
  - apply Z.eqb_neq in E. destruct (Z.to_nat acn) eqn:N; [lia|]. cbn. eauto.
Qed.
Lemma PInv_acn d w s : PInv d w s -> 0 <= c_acn (s_cf s).
Proof. intro K. unfold PInv in K. repeat (apply andb_prop in K; destruct K as [K ?]). apply Z.leb_le. assumption. Qed.
Lemma loop_ok_alive s : loop_ok s -> dead s = false -> s_proc s = None /\ is_some (s_mblock s) = true.
Proof.
  unfold loop_ok. intros L D. rewrite D in L. cbn in L. apply andb_prop in L. destruct L as [L1 L2].
  split; auto. destruct (s_proc s); [discriminate L1 | reflexivity].
Qed.
Lemma loop_ok_fin s : loop_ok s -> dead s || negb (is_some (s_proc s)) = true.
Proof. unfold loop_ok. destruct (dead s); cbn; auto. intro L. apply andb_prop in L. tauto. Qed.


(* after the processor call returned with result code r (the monitor has been told): record the pending Deferred or
   run its callbacks, then go on with the rest of the block *)
Definition tail_of (last : Z) (rest : list Z) (r : Z) : M unit :=
  if r =? 2
  then upd (set_proc (Some (last, rest, false)));;;
       s0 <- get;;
       (if s_stopping s0 || negb (is_some (s_startd s0))
        then emit OCancelProc;;; _ <- proc_chain last (Some FK_CANCELLED);; finish_block rec
        else ret tt)
  else r0 <- proc_chain last (if r =? 0 then None else Some FK_PROC);;
       s0 <- get;;
       (if s_stopping s0 || negb (is_some (s_startd s0))
        then finish_block rec
        else match r0 with
             | Some k => raise k
             | None => rec (KProcLoop rest)
             end).
Lemma p_tail last rest r st :
  PInv (false, false) None st -> s_proc st = None -> dead st || is_some (s_mblock st) = true ->
  ww (tail_of last rest r) (PQ (false, false) None) (pw_finish (mkPW PIdle (s_plan st) (s_lp st)) last r) st.
Proof.
  intros K SP MB. unfold tail_of, pw_finish. cbn [w_plan w_lp]. destruct (r =? 2) eqn:R2.
  - apply wp_bind, wp_upd. cbn beta iota. apply wp_bind, wp_get. cbn beta iota. psimpl.
    destruct (s_stopping st || negb (is_some (s_startd st))) eqn:DD.
    + apply wp_bind, wp_emit. eexists. split; [reflexivity|]. cbn beta iota.
      assert (KF : PInvF (false, false) (set_proc (Some (last, rest, false)) st)) by psolve.
      apply wp_bind. eapply wp_call; [ apply (p_proc_chain last (Some FK_CANCELLED) _ _ KF) |].
      intros r1 g1 s1 ((-> & K1) & N1 & MB1 & _). cbn [fst] in K1. destruct r1; cbn beta iota; [| split; auto].
      eapply wp_conseq; [ apply (p_finish_block (false, false) None s1 K1); [intro; discriminate | rewrite N1; apply orb_true_r] |].
      intros ? ? ? H; exact H.
    + apply wp_ret. split; [reflexivity | psolve].
  - assert (KF : PInvF (dead st, false) st) by psolve.
    assert (G : (if r =? 0 then mkPW PIdle (s_plan st) (Some last) else mkPW PIdle (s_plan st) (s_lp st))
                = fired st last (if r =? 0 then None else Some FK_PROC)) by (unfold fired; destruct (r =? 0); reflexivity).
    rewrite G. apply wp_bind. eapply wp_call; [ apply (p_proc_chain last _ _ _ KF) |].
    intros r1 g1 s1 ((-> & K1) & N1 & MB1 & _). cbn [fst] in K1. destruct r1 as [r1|]; cbn beta iota; [| split; [reflexivity | psolve]].
    apply wp_bind, wp_get. cbn beta iota.
    assert (K1' : PInv (false, false) None s1) by psolve.
    destruct (s_stopping s1 || negb (is_some (s_startd s1))) eqn:DD.
    + eapply wp_conseq; [ apply (p_finish_block (false, false) None s1 K1'); [intro; discriminate | rewrite N1; apply orb_true_r] |].
      intros ? ? ? H; exact H.
    + destruct r1 as [k|]; [ apply wp_raise; split; auto |].
      eapply wp_conseq; [ apply (Hrec_loop rest (false, false) None s1 K1'); [intro; discriminate |] |].
      * unfold loop_ok. rewrite N1, MB1. cbn. destruct (dead s1) eqn:D1; [reflexivity|]. cbn.
        destruct (dead st) eqn:D0; [ rewrite (PInv_dead _ _ _ _ K1 eq_refl) in D1; discriminate D1 | exact MB ].
      * intros ? ? ? H; exact H.
Qed.

Lemma p_body_KProcLoop msgs d w s : PInv d w s -> (is_some w = true -> snd d = true) -> loop_ok s ->
  ww (body rec (KProcLoop msgs)) (PostD (KProcLoop msgs) d w s) (pw_abs w s) s.
Proof.
  intros K W L. cbn [body]. unfold PostD, dmode.
  pose proof (loop_ok_fin _ L) as LF.
  apply wp_bind, wp_get; cbn beta iota.
  destruct msgs as [|m0 ms]; [ p_walk c11; fin_k |].
  destruct (s_shutting s) eqn:SH; [ p_walk c11; fin_k |].
  destruct (s_stopping s) eqn:ST; [ p_walk c11; fin_k |].
  destruct (s_startd s) as [[]|] eqn:SD; [ p_walk c11; fin_k | | p_walk c11; fin_k ].
  (* the consumer is alive: the block goes to the processor *)
  assert (DS : dead s = false) by (unfold dead, startd_unfired; rewrite ST, SD; reflexivity).
  destruct (loop_ok_alive _ L DS) as [SP MB].
  assert (d = (false, false)) as ->.
  { destruct d as [[] b]; [ rewrite (PInv_dead _ _ _ _ K eq_refl) in DS; discriminate DS |].
    destruct b; [| reflexivity]. apply dcons in K. discriminate K. }
  assert (w = None) as -> by (destruct w; [ specialize (W eq_refl); discriminate W | reflexivity ]).
  destruct (blk_nonempty _ m0 ms (PInv_acn _ _ _ K)) as [tl Hblk].
  set (n := if c_acn (s_cf s) =? 0 then length (m0 :: ms) else Z.to_nat (c_acn (s_cf s))) in *.
  rewrite Hblk. set (rest := drop n (m0 :: ms)). set (last := List.last (m0 :: tl) m0).
  assert (MB' : dead s || is_some (s_mblock s) = true) by (rewrite MB; apply orb_true_r).
  assert (FIN : forall r g st, g = pw_finish (mkPW PIdle (s_plan st) (s_lp st)) last r ->
                 PInv (false, false) None st -> s_proc st = None -> dead st || is_some (s_mblock st) = true ->
                 ww (tail_of last rest r)
                    (fun (_ : res unit) (g' : gpw) (s' : state) =>
                       g' = pw_abs None s' /\
                       (PInv (false, false) None s' \/
                        KProcLoop (m0 :: ms) = KStop /\ Some false = None /\ PInv (false, false) None s')) g st).
  { intros r g st -> K1 SP1 MB1. eapply wp_conseq; [ apply (p_tail last rest r st K1 SP1 MB1) |].
    intros ? ? ? [-> H]. split; [reflexivity | left; exact H]. }
  apply wp_bind.
  destruct (s_plan s) as [|[i r] pl] eqn:PL.
  - (* no plan left: the processor returns a pending Deferred *)
    apply wp_emit. eexists. split. { unfold pw_abs. cbn [pw_out w_st w_plan w_lp]. rewrite SP, PL. reflexivity. }
    cbn beta iota. unfold pop_plan. apply wp_bind, wp_bind, wp_get. cbn beta iota. rewrite PL. apply wp_ret. cbn beta iota.
    cbn [fst snd]. change (0 =? 1) with false. change (0 =? 2) with false. change (0 =? 3) with false. cbn beta iota.
    apply wp_bind, wp_ret. cbn beta iota.
    apply (FIN 2 _ s); auto. unfold pw_finish. cbn. rewrite PL. reflexivity.
  - assert (K1 : PInv (false, false) None (set_plan pl s)) by psolve.
    assert (POP : forall (Q : res (Z * Z) -> gpw -> state -> Prop) g,
              (Q (Ok (i, r)) g (set_plan pl s)) -> ww pop_plan Q g s).
    { intros Q g HQ. unfold pop_plan. apply wp_bind, wp_get. cbn beta iota. rewrite PL. apply wp_bind, wp_upd. cbn beta iota.
      apply wp_ret. exact HQ. }
    destruct (i =? 1) eqn:I1; [| destruct (i =? 2) eqn:I2; [| destruct (i =? 3) eqn:I3]].
    + (* the processor calls consumer.stop() before returning *)
      apply wp_emit. eexists. split.
      { unfold pw_abs. cbn [pw_out w_st w_plan w_lp]. rewrite SP, PL. cbn [fst snd]. rewrite I1. reflexivity. }
      cbn beta iota. apply wp_bind, POP. cbn beta iota. cbn [fst snd]. rewrite I1.
      apply wp_bind. unfold api_stop. apply wp_bind, wp_try.
      change {| w_st := PApi (List.last (m0 :: tl) m0) r; w_plan := pl; w_lp := s_lp s |}
        with (pw_abs (Some (last, r)) (set_plan pl s)).
      assert (K1w : PInv (false, false) (Some (last, r)) (set_plan pl s)) by (clear - K SP MB; psolve).
      eapply wp_conseq; [ apply (Hrec_stop (false, false) (Some (last, r)) (set_plan pl s) K1w);
                          psimpl; rewrite SD; reflexivity |].
      intros r1 g1 s1 [-> K2]. cbn beta iota. apply wp_bind, wp_get. cbn beta iota.
      assert (FIN1 : ww (tail_of last rest r)
                   (fun (_ : res unit) (g' : gpw) (s' : state) =>
                    g' = pw_abs None s' /\
                    (PInv (false, false) None s' \/
                     KProcLoop (m0 :: ms) = KStop /\ Some false = None /\ PInv (false, false) None s'))
                   (pw_finish (mkPW PIdle (s_plan s1) (s_lp s1)) last r) s1).
      { apply (FIN r _ s1 eq_refl); [ psolve | | ].
        - pose proof (PInv_dead _ _ _ _ K2 eq_refl). clear - K2. psolve.
        - rewrite (PInv_dead _ _ _ _ K2 eq_refl). reflexivity. }
      destruct r1; apply wp_emit; eexists; (split; [reflexivity|]); cbn beta iota; exact FIN1.
    + (* the processor calls consumer.commit() before returning *)
      apply wp_emit. eexists. split.
      { unfold pw_abs. cbn [pw_out w_st w_plan w_lp]. rewrite SP, PL. cbn [fst snd]. rewrite I1, I2. reflexivity. }
      cbn beta iota. apply wp_bind, POP. cbn beta iota. cbn [fst snd]. rewrite I1, I2.
      apply wp_bind. unfold api_commit. apply wp_bind, wp_get. cbn beta iota. apply wp_bind, wp_upd. cbn beta iota.
      apply wp_bind, wp_try.
      change {| w_st := PApi (List.last (m0 :: tl) m0) r; w_plan := pl; w_lp := s_lp s |}
        with (pw_abs (Some (last, r)) (set_ncommit (s_ncommit (set_plan pl s) + 1) (set_plan pl s))).
      assert (K2 : PInv (false, false) (Some (last, r)) (set_ncommit (s_ncommit (set_plan pl s) + 1) (set_plan pl s))) by (clear - K SP MB; psolve).
      eapply wp_conseq; [ apply (p_commit _ _ _ _ K2) |].
      intros r1 g1 s1 ((-> & K3) & (F1 & F2 & F3 & F4) & F5). cbn beta iota. psimpl.
      assert (FIN1 : ww (tail_of last rest r)
                   (fun (_ : res unit) (g' : gpw) (s' : state) =>
                    g' = pw_abs None s' /\
                    (PInv (false, false) None s' \/
                     KProcLoop (m0 :: ms) = KStop /\ Some false = None /\ PInv (false, false) None s'))
                   (pw_finish (mkPW PIdle (s_plan s1) (s_lp s1)) last r) s1).
      { apply (FIN r _ s1 eq_refl); [ clear - K3; psolve | congruence | ].
        rewrite F2. apply orb_true_iff. right. exact MB. }
      destruct r1 as [[cr|]|k]; cbn beta iota.
      * apply wp_bind, wp_emit. eexists. split; [reflexivity|]. cbn beta iota.
        apply wp_emit. eexists. split; [reflexivity|]. cbn beta iota. exact FIN1.
      * apply wp_emit. eexists. split; [reflexivity|]. cbn beta iota. exact FIN1.
      * apply wp_emit. eexists. split; [reflexivity|]. cbn beta iota. exact FIN1.
    + (* the processor calls consumer.shutdown() before returning *)
      apply wp_emit. eexists. split.
      { unfold pw_abs. cbn [pw_out w_st w_plan w_lp]. rewrite SP, PL. cbn [fst snd]. rewrite I1, I2, I3. reflexivity. }
      cbn beta iota. apply wp_bind, POP. cbn beta iota. cbn [fst snd]. rewrite I1, I2, I3.
      apply wp_bind. unfold api_shutdown. apply wp_bind, wp_get. cbn beta iota. psimpl.
      change {| w_st := PApi (List.last (m0 :: tl) m0) r; w_plan := pl; w_lp := s_lp s |}
        with (pw_abs (Some (last, r)) (set_plan pl s)).
      assert (K1w : PInv (false, false) (Some (last, r)) (set_plan pl s)) by (clear - K SP MB; psolve).
      (* whatever shutdown() did, its return closes the window in a state from which the tail goes on *)
      assert (CLOSE : forall s4, PInv (false, false) (Some (last, r)) s4 ->
                ww (tail_of last rest r)
                   (fun (_ : res unit) (g' : gpw) (s' : state) =>
                    g' = pw_abs None s' /\
                    (PInv (false, false) None s' \/
                     KProcLoop (m0 :: ms) = KStop /\ Some false = None /\ PInv (false, false) None s'))
                   (pw_finish (mkPW PIdle (s_plan s4) (s_lp s4)) last r) s4).
      { intros s4 K4. apply (FIN r _ s4 eq_refl); clear - K4; psolve. }
      destruct (negb (is_some (s_startd s)) || s_shutd s) eqn:SH0.
      * apply wp_bind, wp_emit. eexists. split; [reflexivity|]. cbn beta iota.
        apply wp_emit. eexists. split; [reflexivity|]. cbn beta iota. apply CLOSE. exact K1w.
      * apply wp_bind, wp_upd. cbn beta iota. rewrite SP. apply wp_bind, wp_try.
        match goal with |- wp _ _ _ _ ?st => set (s2 := st) end.
        assert (K2 : PInv (false, false) (Some (last, r)) s2)
          by (subst s2; clear - K SP MB; psimpl; destruct (s_maxatt s =? 0); psolve).
        assert (G2 : pw_abs (Some (last, r)) (set_plan pl s) = pw_abs (Some (last, r)) s2)
          by (subst s2; psimpl; destruct (s_maxatt s =? 0); reflexivity).
        rewrite G2. clearbody s2.
        eapply wp_conseq; [ apply (Hrec_plain KCommitAndStop (false, false) (Some (last, r)) s2 K2); exact I |].
        intros r1 g3 s3 [-> K3]. cbn beta iota. apply wp_bind, wp_get. cbn beta iota. apply wp_bind, wp_upd. cbn beta iota.
        set (s4 := set_pend (s_pend s) (set_inapi (s_inapi s) s3)).
        assert (NPs : forallb pw_neutral (s_pend s) = true)
          by (clear - K; unfold PInv in K; repeat (apply andb_prop in K; destruct K as [K ?]); assumption).
        assert (K4 : PInv (false, false) (Some (last, r)) s4) by (subst s4; clear - NPs K3; psolve).
        assert (G4 : pw_abs (Some (last, r)) s3 = pw_abs (Some (last, r)) s4) by reflexivity.
        rewrite G4.
        assert (NP3 : forallb pw_neutral (s_pend s3) = true)
          by (clear - K3; unfold PInv in K3; repeat (apply andb_prop in K3; destruct K3 as [K3 ?]); assumption).
        clearbody s4. destruct r1.
        -- apply wp_bind. apply wp_emits. exists (pw_abs (Some (last, r)) s4). split; [apply neutral_pw; exact NP3|]. cbn beta iota.
           apply wp_emit. eexists. split; [reflexivity|]. cbn beta iota. apply CLOSE. exact K4.
        -- apply wp_emit. eexists. split; [reflexivity|]. cbn beta iota. apply CLOSE. exact K4.
    + (* it returns / raises / returns a Deferred without calling back *)
      apply wp_emit. eexists. split.
      { unfold pw_abs. cbn [pw_out w_st w_plan w_lp]. rewrite SP, PL. cbn [fst snd]. rewrite I1, I2, I3. reflexivity. }
      cbn beta iota. apply wp_bind, POP. cbn beta iota. cbn [fst snd]. rewrite I1, I2, I3.
      apply wp_bind, wp_ret. cbn beta iota.
      apply (FIN r _ (set_plan pl s) eq_refl); [ exact K1 | psimpl; exact SP | psimpl; exact MB' ].
Qed.

Lemma p_body k d w g s : PreD k d w g s -> ww (body rec k) (PostD k d w s) g s.
Proof.
  intro Pre. destruct k.
  - destruct Pre as (-> & K). apply p_body_KStop; auto.
  - destruct Pre as (-> & K). apply p_body_KStopCds; auto.
  - apply p_body_KFireProc; auto.
  - destruct Pre as (-> & K & W & L). apply p_body_KProcLoop; auto.
  - destruct Pre as (-> & K & W). apply p_body_KFetchResp; auto.
  - destruct Pre as (-> & K). apply p_body_KCommitAndStop; auto.
  - destruct Pre as (-> & K). apply p_body_KShutFinish; auto.
  - destruct Pre as (-> & K). apply p_body_KFireCd; auto.
  - destruct Pre as (-> & K). apply p_body_KDeliver; auto.
Qed.
End Rec.

Lemma p_run fuel : forall k d w g s, PreD k d w g s -> ww (run fuel k) (PostD k d w s) g s.
Proof.
  induction fuel as [|f IH]; intros k d w g s Pre.
  - intros r s' o E F. cbn in E. unfold bind, emit, raise in E. inversion E; subst. discriminate F.
  - cbn [run]. apply p_body; auto.
Qed.
