(* The producer's retry delays over Q: _retry_interval starts at init and is multiplied by RETRY_INTERVAL_FACTOR after
   every callLater (producer.py:327-328, 611-612), reset to init when the batch ends (432).  The model carries the
   index k; this file says what delay the index stands for, with the factor F a parameter. *)
From Coq Require Import QArith Qpower Lia.

Fixpoint delay (init F : Q) (k : nat) : Q :=
  match k with O => init | S k' => delay init F k' * F end.

Theorem delay_closed_form : forall init F k, delay init F k == init * F ^ (Z.of_nat k).
Proof.
  intros init F k. induction k as [|k IH].
  - simpl. ring.
  - cbn [delay]. rewrite IH. rewrite Nat2Z.inj_succ. unfold Z.succ.
    rewrite Qpower_plus'; [rewrite Qpower_1_r; ring|lia].
Qed.

Theorem delay_pos : forall init F k, 0 < init -> 1 < F -> 0 < delay init F k.
Proof.
  intros init F k Hi HF. induction k as [|k IH]; simpl; auto.
  apply Qmult_lt_0_compat; auto. apply Qlt_trans with 1; auto. reflexivity.
Qed.

Theorem delay_grows : forall init F k, 0 < init -> 1 < F -> delay init F k < delay init F (S k).
Proof.
  intros init F k Hi HF. cbn [delay]. pose proof (delay_pos init F k Hi HF) as P.
  setoid_replace (delay init F k) with (delay init F k * 1) at 1 by ring.
  apply Qmult_lt_l; auto.
Qed.
