(* Model/BrokerClientSync.v: a connection attempt whose outcome is delivered INSIDE the connect call behaves exactly as
   the asynchronous attempt whose outcome is the very next event. *)
From AV Require Import Base.Util Proofs.UtilFacts Model.Framing Model.BrokerClient Model.BrokerClientSync
  Proofs.FramingFacts Proofs.BrokerClientTbl Proofs.BrokerClientInv Proofs.BrokerClientC06 Proofs.BrokerClientC10
  Proofs.BrokerClientGaps.
From Coq Require Import Lia.

Definition noc (o : list output) : Prop := existsb is_connect o = false.

Lemma noc_connects o : connects o = [] -> noc o.
Proof.
  unfold noc, connects. induction o as [|x o IH]; [reflexivity|]. destruct x; cbn; try exact IH. discriminate.
Qed.

Lemma fire_noc t h oc : noc (snd (fire t h oc)).
Proof. unfold fire. destruct (is_fired t h); reflexivity. Qed.

Lemma send_request_noc t r : noc (snd (send_request t r)).
Proof.
  unfold send_request. destruct (r_expect r); [reflexivity|].
  destruct (fire _ _ _) as [t2 o2] eqn:F. cbn [snd app]. unfold noc. cbn [existsb is_connect orb].
  pose proof (fire_noc (t_with_reqs (t_with_reqs t (upd (r_id r) (set_sent true) (t_reqs t)))
                (del (r_id r) (t_reqs (t_with_reqs t (upd (r_id r) (set_sent true) (t_reqs t)))))) (r_h r) SuccNone) as X.
  rewrite F in X. exact X.
Qed.

Lemma fire_down_noc s : noc (snd (fire_down s)).
Proof. unfold fire_down. destruct (s_down s); reflexivity. Qed.

(* tryConnect with a synchronous outcome = the asynchronous attempt followed at once by its outcome *)
Lemma try_connect_sim b s : s_down s = DNone ->
  try_connect_m (Some b) s
  = (fst (step (fst (try_connect s)) (outcome_ev b)), snd (try_connect s) ++ snd (step (fst (try_connect s)) (outcome_ev b))).
Proof.
  intro D. destruct s as [t p rx c d f a]. cbn in D. subst d. destruct b; cbn; [|reflexivity].
  unfold cb_connect. cbn. destruct (send_queued t). reflexivity.
Qed.

Definition then_outcome (m : option bool) (x : state * list output) : state * list output :=
  match m with
  | Some b => if existsb is_connect (snd x)
              then (fst (step (fst x) (outcome_ev b)), snd x ++ snd (step (fst x) (outcome_ev b)))
              else x
  | None => x
  end.

Lemma then_outcome_noc m x : noc (snd x) -> then_outcome m x = x.
Proof. intro N. unfold then_outcome. destruct m; [rewrite N|]; reflexivity. Qed.

Lemma connect_sim m s : s_down s = DNone -> connect_m m s = then_outcome m (connect s).
Proof.
  intro D. unfold connect_m, connect. destruct m as [b|]; [|reflexivity].
  rewrite try_connect_sim by (destruct s; exact D). unfold then_outcome, try_connect. cbn [snd existsb is_connect orb fst]. reflexivity.
Qed.

(* THE SIMULATION: in every reachable state, for every event and every connect mode *)
Theorem sstep_sim s e m : CInv s -> sstep s e m = then_outcome m (step s e).
Proof.
  intro C. destruct e; cbn [sstep].
  - (* makeRequest *)
    cbn [step]. unfold make_request_m, make_request.
    destruct (lookup rid (t_reqs (s_t s))); [symmetry; apply then_outcome_noc; reflexivity|].
    destruct (s_down s) eqn:D.
    + destruct (s_proto s).
      * symmetry. apply then_outcome_noc. unfold lift. cbn [snd]. apply send_request_noc.
      * destruct (s_connector s); try (symmetry; apply then_outcome_noc; reflexivity).
        apply connect_sim. destruct s; exact D.
    + symmetry. apply then_outcome_noc. unfold lift. cbn [snd]. apply fire_noc.
    + symmetry. apply then_outcome_noc. unfold lift. cbn [snd]. apply fire_noc.
  - symmetry. apply then_outcome_noc. cbn [step]. unfold lift. cbn [snd]. apply noc_connects.
    apply (tbl_out_quiet _ (cancel_tbl_out (s_t s) h)).
  - symmetry. apply then_outcome_noc. apply noc_connects.
    destruct (s_connector s) eqn:K; try (cbn [step]; rewrite K; reflexivity).
    destruct (resend s C K) as (s' & E & _). rewrite E. cbn [snd]. apply connects_sq.
  - symmetry. apply then_outcome_noc. cbn [step]. destruct (s_connector s); try reflexivity.
    destruct (s_down s); [reflexivity | apply fire_down_noc | apply fire_down_noc].
  - (* connectionLost *)
    cbn [step]. destruct (s_proto s); [|symmetry; apply then_outcome_noc; reflexivity].
    set (rs := map (set_sent false) (filter (fun r => negb (r_cancelled r)) (t_reqs (s_t s)))).
    set (s1 := with_t (with_rxbuf (with_proto s false) []) (t_with_reqs (s_t s) rs)).
    destruct (s_down s1) eqn:D.
    + destruct rs; [symmetry; apply then_outcome_noc; reflexivity|]. apply connect_sim. exact D.
    + symmetry. apply then_outcome_noc. apply fire_down_noc.
    + symmetry. apply then_outcome_noc. apply fire_down_noc.
  - symmetry. apply then_outcome_noc. apply noc_connects. cbn [step]. destruct (s_proto s); [apply data_in_quiet | reflexivity].
  - symmetry. apply then_outcome_noc. apply noc_connects. cbn [step]. destruct (s_proto s); [apply data_in_quiet | reflexivity].
  - (* the back-off timer fires *)
    cbn [step]. destruct (s_connector s) eqn:K; try (symmetry; apply then_outcome_noc; reflexivity).
    destruct (CInv_attempt_open s C (or_intror K)) as [D _].
    destruct m as [b|]; [|reflexivity]. rewrite try_connect_sim by exact D.
    unfold then_outcome, try_connect. cbn [snd existsb is_connect orb fst]. reflexivity.
  - symmetry. apply then_outcome_noc. apply noc_connects. apply (close_quiet s).
  - symmetry. apply then_outcome_noc. cbn [step]. destruct (s_proto s); reflexivity.
  - symmetry. apply then_outcome_noc. cbn [step]. destruct same; reflexivity.
Qed.

Lemma then_outcome_run m s e : then_outcome m (step s e)
  = match m with
    | Some b => if existsb is_connect (snd (step s e))
                then run s [e; outcome_ev b] else run s [e]
    | None => run s [e]
    end.
Proof.
  unfold then_outcome. cbn [run]. destruct (step s e) as [s1 o1]. cbn [fst snd].
  destruct m as [b|]; [|rewrite app_nil_r; reflexivity].
  destruct (existsb is_connect o1); [|rewrite app_nil_r; reflexivity].
  destruct (step s1 (outcome_ev b)) as [s2 o2]. cbn [fst snd]. rewrite app_nil_r. reflexivity.
Qed.

(* whole histories: every history with synchronous connect outcomes IS an asynchronous history of Model/BrokerClient.v *)
Theorem srun_expand : forall evs s, CInv s -> srun s evs = run s (expand s evs).
Proof.
  induction evs as [|[e m] evs IH]; intros s C; cbn [srun expand]; [reflexivity|].
  rewrite (sstep_sim s e m C). unfold then_outcome.
  destruct (step s e) as [s1 o1] eqn:E1. cbn [fst snd].
  pose proof (proj1 (step_inv _ _ _ _ C E1)) as C1.
  destruct m as [b|].
  - destruct (existsb is_connect o1).
    + destruct (step s1 (outcome_ev b)) as [s2 o2] eqn:E2. cbn [fst snd].
      pose proof (proj1 (step_inv _ _ _ _ C1 E2)) as C2.
      rewrite (IH s2 C2). cbn [run]. rewrite E1, E2. destruct (run s2 (expand s2 evs)). rewrite app_assoc. reflexivity.
    + rewrite (IH s1 C1). cbn [run]. rewrite E1. destruct (run s1 (expand s1 evs)). reflexivity.
  - rewrite (IH s1 C1). cbn [run]. rewrite E1. destruct (run s1 (expand s1 evs)). reflexivity.
Qed.

(* ... so every theorem about runs holds for histories with synchronous outcomes *)
Theorem reachable_inv_sync evs : CInv (fst (srun init evs)).
Proof. rewrite (srun_expand evs init CInv_init). apply reachable_inv. Qed.

Theorem exactly_once_sync evs s outs : srun init evs = (s, outs) ->
  NoDup (def_handles outs)
  /\ (forall o, In o outs -> ~ anomaly o)
  /\ (forall h, In h (def_handles outs) <-> (h < length (t_dlog (s_t s)))%nat /\ ~ in_table s h).
Proof. rewrite (srun_expand evs init CInv_init). apply exactly_once. Qed.

Theorem never_resent_sync evs s outs a h oc b : srun init evs = (s, outs) -> outs = a ++ ODef h oc :: b ->
  forall rid, ~ In (OWrite h rid) b.
Proof.
  rewrite (srun_expand evs init CInv_init). intros H E rid Hin.
  destruct (after_fired _ s outs a h oc b H E _ Hin) as [_ X]. exact (X rid eq_refl).
Qed.

(* closing: for EVERY continuation with synchronous or asynchronous connect outcomes, never a write, an attempt or a timer
   again (the C10-m8 class: close() during the back-off that followed a synchronous failure) *)
Theorem closed_forever_sync evs s s' o : CInv s -> s_down s <> DNone -> srun s evs = (s', o) ->
  s_down s' <> DNone /\ writes o = [] /\ connects o = [] /\ scheds o = []
  /\ (forall h oc, In (ODef h oc) o -> oc = FailClosed).
Proof. intros C D. rewrite (srun_expand evs s C). apply closed_forever; assumption. Qed.

(* the back-off count: after a synchronous failure the client is backing off exactly as after an asynchronous one *)
Theorem sync_failure_backs_off s rid ex : CInv s -> s_proto s = false -> s_connector s = CNone -> s_down s = DNone ->
  lookup rid (t_reqs (s_t s)) = None ->
  exists s', sstep s (EMake rid ex) (Some false) = (s', [OConnect (s_addr s); OSched 1])
    /\ s_connector s' = CTimer /\ s_failures s' = 1%nat
    /\ step s' EClose = (fst (step s' EClose), OCancelTimer :: OCloseFired :: snd (fail_all (mkT [] (t_dlog (s_t s')) (t_fired (s_t s'))) (rev (t_reqs (s_t s'))))).
Proof.
  intros C P K D L. cbn [sstep]. unfold make_request_m. rewrite L, D, P, K.
  unfold connect_m, try_connect_m, eb_connect. eexists. split; [destruct s; reflexivity|].
  destruct s as [t p rx c d f a]. cbn in *. subst. split; [reflexivity | split; [reflexivity|]].
  cbn. destruct (fail_all _ _). reflexivity.
Qed.
