(* C13: an interrupting stop() ends a shutdown in progress: the continuation that shutdown() left behind (on the pending
   processor result, or among the commit waiters) runs inside stop() and clears _shuttingdown and the shutdown Deferred
   (F-C13-5 was: flags stuck, the restarted consumer delivered nothing). *)
From Coq Require Import Lia.
From AV Require Import Base.Util Model.Consumer Proofs.ConsumerBase Proofs.ConsumerFrame Proofs.ConsumerStop.
Open Scope Z_scope.

Definition SC (s : state) : Prop := s_shutting s = false /\ s_shutd s = false.

Definition clears (k : kont) (s s' : state) : Prop :=
  match k with
  | KStopCds => (existsb is_shut_cd (s_cds s) = true \/ SC s) -> SC s'
  | KFireProc _ => s_cds s' = s_cds s /\ (proc_cont s = true -> SC s')
  | KProcLoop _ | KFetchResp _ _ => s_cds s' = s_cds s
  | KCommitAndStop | KShutFinish _ => SC s' /\ s_cds s' = s_cds s
  | KFireCd d _ => s_cds s' = s_cds s /\ (is_shut_cd d = true -> SC s')
  | _ => True
  end.

(* leaf methods *)
Lemma interrupted_sc s r s' o : interrupted s = (r, s', o) -> SC s' /\ s_cds s' = s_cds s.
Proof. intro H. unfold interrupted, emit_shutd in H. unfold SC. mi H; psimpl; auto. Qed.
Lemma handle_auto_commit_error_cds fk s r s' o : handle_auto_commit_error fk s = (r, s', o) -> s_cds s' = s_cds s.
Proof. intro H. unfold handle_auto_commit_error, startd_errback in H. mi H; reflexivity. Qed.
Lemma auto_commit_stopping bc s r s' o : auto_commit bc s = (r, s', o) -> s_stopping s = true -> s' = s.
Proof. intros H Hst. unfold auto_commit in H. mi H; reflexivity. Qed.

Lemma proc_chain_st last fk s r s' o : proc_chain last fk s = (r, s', o) -> s_stopping s' = s_stopping s.
Proof.
  intro H. unfold proc_chain, auto_commit, commit, send_commit_request, handle_auto_commit_error, handle_processor_error, startd_errback in H.
  mi H; reflexivity.
Qed.
Lemma proc_chain_ok last fk s r s' o : proc_chain last fk s = (r, s', o) -> exists v, r = Ok v.
Proof. intro H. unfold proc_chain in H. mi H; eauto. Qed.
Lemma proc_chain_cds last fk s r s' o : proc_chain last fk s = (r, s', o) -> s_stopping s = true -> s_cds s' = s_cds s.
Proof.
  intros H Hst. unfold proc_chain, auto_commit, handle_processor_error, startd_errback in H.
  mi H; reflexivity.
Qed.
Lemma startd_errback_cds fk s r s' o : startd_errback fk s = (r, s', o) -> s_cds s' = s_cds s /\ s_stopping s' = s_stopping s.
Proof. intro H. unfold startd_errback in H. mi H; split; reflexivity. Qed.
Lemma retry_fetch_stopping z s r s' o : retry_fetch z s = (r, s', o) -> s_stopping s = true -> s' = s.
Proof. intros H Hst. unfold retry_fetch in H. mi H; reflexivity. Qed.
Lemma SC_In3 a b : In3 a b -> SC a -> SC b.
Proof. intros I (H1 & H2). destruct (i_shut _ _ I) as (x & y). split; auto. Qed.

Lemma existsb_rev_cons {A} (p : A -> bool) l d r : rev l = d :: r -> existsb p l = p d || existsb p (rev r).
Proof.
  intro H. assert (Hl : l = rev r ++ [d]) by (rewrite <- (rev_involutive l), H; reflexivity).
  rewrite Hl, existsb_app. cbn. rewrite orb_false_r. apply orb_comm.
Qed.

Section RecC.
Variable f : nat.
Hypothesis IH : forall k s r s' o, run f k s = (r, s', o) -> fuel_ok o = true -> s_stopping s = true -> clears k s s'.

Lemma body_clears k s r s' o : body (run f) k s = (r, s', o) -> fuel_ok o = true -> s_stopping s = true -> k <> KStop -> clears k s s'.
Proof.
  intros H Hf Hst Hk. destruct k; try (exact Logic.I); try (exfalso; apply Hk; reflexivity); cbn [body] in H; cbn [clears].
  - (* KStopCds *) mi H; fuel_split.
    + intros [Hx|Hx]; [|exact Hx]. destruct (s_cds s); [discriminate Hx | cbn in D; destruct (rev l); discriminate].
    + match goal with
      | E1 : run f (KFireCd ?c _) ?a = (_, ?b, ?o1), E0 : run f KStopCds ?b = _, H1 : fuel_ok ?o1 = true |- _ =>
        pose proof (IH _ _ _ _ _ E1 H1 ltac:(psimpl; exact Hst)) as (C1 & C2); psimpl;
        pose proof (run_stop _ _ _ _ _ _ E1 H1) as P; cbn beta iota in P; destruct (P ltac:(psimpl; exact Hst)) as (I & _ & _);
        assert (St : s_stopping b = true) by (rewrite (i_stopping _ _ I); psimpl; exact Hst);
        pose proof (IH _ _ _ _ _ E0 ltac:(assumption) St) as C3; cbn [clears] in C3;
        intros Hx; apply C3; rewrite C1; rewrite (existsb_rev_cons _ _ _ _ D) in Hx;
        destruct (is_shut_cd c) eqn:Ec;
        [ right; apply C2; reflexivity
        | cbn [orb] in Hx; destruct Hx as [Hx|Hx]; [left; exact Hx|];
          right; apply (SC_In3 _ _ I); destruct Hx; split; psimpl; assumption ]
      end.
  - (* KFireProc *) mi H; fuel_split.
    all: try (split; [reflexivity | intro Hc; unfold proc_cont in Hc; rewrite ?D in Hc; discriminate Hc]).
    all: try (match goal with E : proc_chain _ _ _ = (Exc _, _, _) |- _ => apply proc_chain_ok in E; destruct E as (? & E); discriminate E end).
    all: repeat match goal with E : proc_chain _ _ ?a = _ |- _ =>
           let E' := fresh "E" in pose proof E as E'; apply proc_chain_st in E; apply proc_chain_cds in E'; [|psimpl; exact Hst] end.
    all: repeat match goal with
         | E : run f (KProcLoop _) ?a = (_, ?b, ?o1), H1 : fuel_ok ?o1 = true |- _ =>
           let P := fresh "P" in pose proof (run_stop _ _ _ _ _ _ E H1) as P; cbn beta iota in P;
           destruct (P ltac:(psimpl; congruence)) as (I & _ & _); pose proof (i_stopping _ _ I);
           let C := fresh "C" in pose proof (IH _ _ _ _ _ E H1 ltac:(psimpl; congruence)) as C; cbn [clears] in C; clear E
         end.
    all: repeat match goal with E : run f KCommitAndStop ?a = (_, ?b, ?o1), H1 : fuel_ok ?o1 = true |- _ =>
           let C := fresh "C" in pose proof (IH _ _ _ _ _ E H1 ltac:(psimpl; congruence)) as (C & ?); clear E end.
    all: split; [psimpl; congruence | intro Hc; unfold proc_cont in Hc; rewrite ?D in Hc; try discriminate Hc; try assumption].
  - (* KProcLoop: under _stopping it only closes the block *)
    unfold finish_block in H. mi H; fuel_split; try reflexivity.
    all: match goal with E : run f (KFetchResp _ _) ?a = (_, ?b, ?o1), H1 : fuel_ok ?o1 = true |- _ =>
           pose proof (IH _ _ _ _ _ E H1 ltac:(psimpl; exact Hst)) as C; cbn [clears] in C; psimpl; exact C end.
  - (* KFetchResp *) unfold retry_fetch in H. mi H; fuel_split; try reflexivity.
    all: repeat match goal with E : startd_errback _ ?a = _ |- _ => apply startd_errback_cds in E; destruct E end.
    all: repeat match goal with
         | E : run f (KProcLoop _) ?a = (_, ?b, ?o1), H1 : fuel_ok ?o1 = true |- _ =>
           let C := fresh "C" in pose proof (IH _ _ _ _ _ E H1 ltac:(psimpl; congruence)) as C; cbn [clears] in C;
           let P := fresh "P" in pose proof (run_stop _ _ _ _ _ _ E H1) as P; cbn beta iota in P;
           destruct (P ltac:(psimpl; congruence)) as (I & _ & _); pose proof (i_stopping _ _ I); clear E
         end.
    all: psimpl; try congruence.
  - (* KCommitAndStop *) mi H; try (exfalso; bprop; discriminate).
    all: match goal with E : interrupted _ = _ |- _ => apply interrupted_sc in E; exact E end.
  - (* KShutFinish *) mi H; try (exfalso; bprop; discriminate).
    all: match goal with E : interrupted _ = _ |- _ => apply interrupted_sc in E; exact E end.
  - (* KFireCd *) mi H; fuel_split; psimpl.
    all: try (split; [reflexivity | intro Hx; discriminate Hx]).
    + apply handle_auto_commit_error_cds in H. split; [exact H | intro Hx; discriminate Hx].
    + apply auto_commit_stopping in H; [|exact Hst]. subst. split; [reflexivity | intro Hx; discriminate Hx].
    + destruct (IH _ _ _ _ _ H Hf Hst) as (C1 & C2). split; [exact C2 | intros _; exact C1].
    + destruct (IH _ _ _ _ _ H Hf Hst) as (C1 & C2). split; [exact C2 | intros _; exact C1].
    + destruct (IH _ _ _ _ _ H Hf Hst) as (C1 & C2). split; [exact C2 | intros _; exact C1].
Qed.
End RecC.

Theorem run_clears fuel k s r s' o : run fuel k s = (r, s', o) -> fuel_ok o = true -> s_stopping s = true -> clears k s s'.
Proof.
  intro H. refine (run_ind (fun _ _ => True) (fun k s _ s' o => fuel_ok o = true -> s_stopping s = true -> clears k s s') _ _ fuel k s r s' o I H); clear.
  - intros k s _ Hf. discriminate Hf.
  - intros f IH k s r s' o _ H Hf Hst. destruct k; try (eapply body_clears; eauto; discriminate).
    exact Logic.I.
Qed.

(* ---------------- stop() itself ---------------- *)
Lemma stop_req_keep s r s' o : stop_req s = (r, s', o) -> s_proc s' = s_proc s /\ s_cds s' = s_cds s.
Proof.
  intro H. unfold stop_req, handle_fetch_error, handle_offset_error, retry_fetch, startd_errback in H. mi H; split; reflexivity.
Qed.
Lemma stop_mblock_keep s r s' o : stop_mblock s = (r, s', o) -> s_proc s' = s_proc s /\ s_cds s' = s_cds s.
Proof. intro H. unfold stop_mblock in H. mi H; split; reflexivity. Qed.
Lemma stop_rcall_keep s r s' o : stop_rcall s = (r, s', o) -> s_cds s' = s_cds s.
Proof. intro H. unfold stop_rcall in H. mi H; reflexivity. Qed.

Ltac fwc := repeat match goal with
  | E : run ?f ?k ?a = (?r, ?b, ?o1), Hf : fuel_ok ?o1 = true |- _ =>
    let S := fresh "S" in assert (S : s_stopping a = true) by (psimpl; congruence);
    let C := fresh "C" in pose proof (run_clears _ _ _ _ _ _ E Hf S) as C; cbn [clears] in C;
    let I3 := fresh "I3" in pose proof (run_stop _ _ _ _ _ _ E Hf) as I3; cbn beta iota in I3; specialize (I3 S);
    destruct I3 as (I3 & _ & _); pose proof (i_stopping _ _ I3); clear E
  | E : stop_req ?a = (_, ?b, _) |- _ =>
    let K := fresh "K" in pose proof (stop_req_keep _ _ _ _ E) as (K & ?);
    apply stop_req_in in E; [|psimpl; congruence]; destruct E as (E & _ & _); pose proof (i_stopping _ _ E)
  | E : stop_mblock ?a = (_, ?b, _) |- _ =>
    let K := fresh "K" in pose proof (stop_mblock_keep _ _ _ _ E) as (K & ?);
    apply stop_mblock_in in E; destruct E as (E & _ & _); pose proof (i_stopping _ _ E)
  | E : stop_rcall ?a = (_, ?b, _) |- _ =>
    let K := fresh "K" in pose proof (stop_rcall_keep _ _ _ _ E) as K; apply stop_rcall_in in E; destruct E as (E & _ & _); pose proof (i_stopping _ _ E)
  | E : stop_ccall ?a = (_, ?b, _) |- _ => apply stop_ccall_in in E; destruct E as (E & _ & _); pose proof (i_stopping _ _ E)
  | E : stop_looper ?a = (_, ?b, _) |- _ => apply stop_looper_in in E; destruct E as (E & _ & _); pose proof (i_stopping _ _ E)
  | E : stop_susp ?a = (_, ?b, _) |- _ => apply stop_susp_in in E; destruct E as (E & _ & _); pose proof (i_stopping _ _ E)
  end.

Theorem stop_clears fuel s s' o : run fuel KStop s = (Ok tt, s', o) -> fuel_ok o = true -> s_stopping s = false ->
  (s_shutd s = true -> has_cont s = true) -> (s_shutting s = true -> s_shutd s = true) -> SC s'.
Proof.
  intros H Hf Hst Hc He. destruct fuel as [|f]; [cbn in H; inversion H|].
  cbn [run] in H. cbn [body] in H. unfold stop_startd, stop_proc, stop_creq, handle_commit_error in H.
  change (is_cancel FK_CANCELLED) with true in H.
  mi H; fuel_split; res_inv; fwc.
  all: try (match goal with Hr : Ok _ = Exc _ |- _ => discriminate Hr end).
  all: match goal with
       | |- SC (set_startd None (set_stopping false ?x)) => cut (SC x); [intros (? & ?); split; psimpl; assumption|]
       | |- _ => idtac
       end.
  all: destruct (s_shutd s) eqn:Esd.
  (* no shutdown in progress: the flags stay clear *)
  all: try (solve [ match goal with |- SC ?x =>
         apply (SC_In3 (set_stopping true s) x); [in3_chain|];
         split; psimpl; [destruct (s_shutting s); [specialize (He eq_refl); discriminate He | reflexivity] | exact Esd] end ]).
  (* a shutdown in progress: its continuation is cancelled by stop() and clears the flags *)
  all: specialize (Hc eq_refl); unfold has_cont in Hc; apply orb_prop in Hc; destruct Hc as [Hc|Hc].
  all: psimpl; repeat match goal with C : _ /\ (proc_cont _ = true -> _) |- _ => destruct C end.
  (* ... on the pending processor result *)
  all: try (solve [ match goal with C : proc_cont ?x = true -> SC ?y |- SC ?z =>
         apply (SC_In3 y z); [in3_chain | apply C; unfold proc_cont in *;
           assert (Hp : s_proc x = s_proc s) by congruence; rewrite Hp; exact Hc] end ]).
  all: try (solve [ exfalso; unfold proc_cont in Hc;
         match goal with D0 : s_proc ?x = None |- _ => assert (Hp : s_proc s = s_proc x) by congruence; rewrite Hp, D0 in Hc; discriminate Hc end ]).
  (* ... among the commit waiters *)
  all: try (solve [ match goal with C0 : existsb is_shut_cd (s_cds ?x) = true \/ SC ?x -> SC ?y |- SC ?z =>
         apply (SC_In3 y z); [in3_chain | apply C0; left; replace (s_cds x) with (s_cds s) by congruence; exact Hc] end ]).
Qed.
