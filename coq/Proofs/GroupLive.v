(* [live_cids] (Model/GroupObs.v: the consumers the model has on its books - registered, or in a shutdown list of a join's prepare
   / of a ConsumerGroup.stop()) read off the TRACE: a consumer leaves the books only in a step that outputs StopConsumer for it or
   whose event is the completion of its shutdown; and a StartConsumer output puts it on the books.  Hence [live_cids s = []]
   (the C16_no_consumer_running theorems) says: every consumer ever started has since been stopped or has completed its shutdown. *)
From Coq Require Import Lia.
From AV Require Import Base.Util Model.Group Model.GroupObs Proofs.GroupInv Proofs.GroupInvH Proofs.GroupOut.

Definition L (s : state) : list Z := live_cids s.

Lemma in_L : forall s x, In x (L s) <->
  (exists c, In c (consumers s) /\ c_id c = x) \/
  (exists g, In g (gens s) /\ In x (sh_pending_ids (gen_list g))) \/
  (exists st, In st (stops s) /\ In x (sh_pending_ids (stop_list st))).
Proof.
  intros s x. unfold L, live_cids, shutting. rewrite !in_app_iff, in_map_iff, !in_flat_map. split.
  - intros [(c & A & B)|[(g & A & B)|(st & A & B)]]; eauto 6.
  - intros [(c & A & B)|[(g & A & B)|(st & A & B)]]; eauto 6.
Qed.

Definition keepsL (a : act) : Prop := forall s x, In x (L s) -> In x (L (fst (a s))) \/ In (OStopC x) (snd (a s)).

Lemma kl_seq : forall a b, keepsL a -> keepsL b -> keepsL (a ;; b).
Proof.
  intros a b Ha Hb s x H. unfold seq. specialize (Ha s x H). destruct (a s) as [s1 o1]. cbn [fst snd] in Ha.
  destruct Ha as [Ha|Ha]; [|destruct (b s1); cbn; right; apply in_or_app; auto].
  specialize (Hb s1 x Ha). destruct (b s1) as [s2 o2]. cbn [fst snd] in *. destruct Hb; [left; auto|right; apply in_or_app; auto].
Qed.

(* state transformers that leave the three lists alone *)
Lemma L_frame : forall s s', consumers s' = consumers s -> gens s' = gens s -> stops s' = stops s -> L s' = L s.
Proof. intros s s' A B C. unfold L, live_cids, shutting. rewrite A, B, C. reflexivity. Qed.
Lemma kl_same : forall (a : act), (forall s, consumers (fst (a s)) = consumers s /\ gens (fst (a s)) = gens s /\ stops (fst (a s)) = stops s) -> keepsL a.
Proof. intros a H s x Hx. left. destruct (H s) as (A & B & C). rewrite (L_frame s _ A B C). exact Hx. Qed.

Lemma kl_ogl : keepsL on_group_leave.
Proof.
  intros s x H. unfold on_group_leave. destruct (is_group s); [|left; exact H]. cbn [fst snd].
  apply in_L in H. destruct H as [(c & A & B)|H].
  - right. apply in_map_iff. exists c. subst. auto.
  - left. apply in_L. right. ds s. exact H.
Qed.
Lemma kl_gen_end : keepsL gen_end. Proof. apply kl_same. intros s. ds s. auto. Qed.
Lemma kl_emit : forall o, keepsL (emit o). Proof. intros o. apply kl_same. intros s. auto. Qed.
Lemma kl_upd_member : keepsL (upd (set_member 0)). Proof. apply kl_same. intros s. ds s. auto. Qed.
Lemma kl_finish_stop : forall st c, keepsL (finish_stop st c).
Proof. intros st c. apply kl_same. intros s. unfold finish_stop. ds s. destruct grp; auto. Qed.
Lemma kl_resched : forall d, keepsL (resched d).
Proof.
  intros d. apply kl_same. intros s. unfold resched. destruct (stopping s); [auto|]. unfold schedule_rejoin, new_timer. ds s. destruct dc0; auto.
Qed.

Lemma stop_pending_in : forall l x, In x (sh_pending_ids l) -> In (OStopC x) (stop_pending l).
Proof. intros l x H. unfold stop_pending. apply in_map. exact H. Qed.

Lemma kl_cancel_gen : forall gid, keepsL (cancel_gen gid).
Proof.
  intros gid s x H. unfold cancel_gen. destruct (take_first _ (gens s)) as [[g rest]|] eqn:T; [|left; exact H].
  destruct (take_first_in _ _ _ _ _ T) as [Hg Hr].
  assert (K : In x (L (set_gens rest s)) \/ In x (sh_pending_ids (gen_list g))).
  { apply in_L in H. destruct H as [H|[(g0 & A & B)|H]].
    - left. apply in_L. left. ds s. exact H.
    - (* g0 is g or in rest *)
      assert (X : g0 = g \/ In g0 rest).
      { clear - T A. revert g rest T A. induction (gens s) as [|y l IH]; intros g rest T A; [destruct A|]. cbn [take_first] in T.
        destruct ((fun g1 => g_id g1 =? gid) y) eqn:E.
        - inversion T; subst. destruct A; auto.
        - destruct (take_first _ l) as [[z r']|] eqn:T'; [|discriminate]. inversion T; subst. destruct A as [->|A]; [right; left; auto|].
          destruct (IH _ _ eq_refl A); auto. right; right; auto. }
      destruct X as [->|X]; [right; exact B|]. left. apply in_L. right. left. exists g0. split; [ds s; exact X|exact B].
    - left. apply in_L. right. right. ds s. exact H. }
  destruct (g_ph g) eqn:P; unfold seq, emit, emits, gen_end, upd; cbn [fst snd].
  all: destruct K as [K|K]; [left; rewrite (L_frame (set_gens rest s)); [exact K|ds s; reflexivity|ds s; reflexivity|ds s; reflexivity]|].
  all: unfold gen_list in K; rewrite P in K; try (destruct K; fail).
  right. rewrite app_nil_r. apply stop_pending_in. exact K.
Qed.

Lemma take_first_split : forall A (p : A -> bool) l x r y, take_first p l = Some (x, r) -> In y l -> y = x \/ In y r.
Proof.
  induction l as [|z l IH]; cbn [take_first]; intros x r y T H; [destruct H|]. destruct (p z).
  - inversion T; subst. destruct H; auto.
  - destruct (take_first p l) as [[w r']|] eqn:T'; [|discriminate]. inversion T; subst. destruct H as [->|H]; [right; left; auto|].
    destruct (IH _ _ _ eq_refl H); auto. right; right; auto.
Qed.

Lemma kl_stop_tail : forall st, keepsL (stop_tail st).
Proof.
  intros st s x H. unfold stop_tail.
  assert (X : In x (L (fst (match rejoin_d s with Some gid => cancel_gen gid (set_rejoin_d None s) | None => (s, []) end))) \/
              In (OStopC x) (snd (match rejoin_d s with Some gid => cancel_gen gid (set_rejoin_d None s) | None => (s, []) end))).
  { destruct (rejoin_d s); [|left; exact H]. apply kl_cancel_gen. rewrite (L_frame s); [exact H|ds s; reflexivity..]. }
  destruct (match rejoin_d s with Some gid => cancel_gen gid (set_rejoin_d None s) | None => (s, []) end) as [s1 o1]. cbn [fst snd] in X.
  assert (Y : forall s2 c, L (fst (finish_stop st c s2)) = L s2).
  { intros s2 c. apply L_frame; unfold finish_stop; ds s2; destruct grp; reflexivity. }
  destruct (start_d _) as [idx|].
  - match goal with |- context [finish_stop st ?c ?s2] => pose proof (Y s2 c) as Z; destruct (finish_stop st c s2) as [s3 o3] end.
    cbn [fst snd] in *. destruct X as [X|X]; [left; rewrite Z; rewrite (L_frame s1); [exact X|ds s1; reflexivity..]|right; apply in_or_app; auto].
  - match goal with |- context [finish_stop st ?c ?s2] => pose proof (Y s2 c) as Z; destruct (finish_stop st c s2) as [s3 o3] end.
    cbn [fst snd] in *. destruct X as [X|X]; [left; rewrite Z; rewrite (L_frame s1); [exact X|ds s1; reflexivity..]|right; apply in_or_app; auto].
Qed.

Lemma kl_coord_stop : forall st, keepsL (coord_stop st).
Proof.
  intros st s x. ds s. destruct sd as [idx|]; [|unfold coord_stop; cbn [start_d]; apply kl_finish_stop].
  destruct stp; [unfold coord_stop; cbn [start_d stopping]; apply kl_finish_stop|].
  destruct dc0 as [|i|]; [| |unfold coord_stop; cbn [start_d stopping dc set_rejoin_needed set_stopping]; intros H; apply kl_finish_stop; exact H];
    destruct hbq as [rid|]; destruct hbr; destruct ck; destruct (mem =? 0) eqn:M;
    unfold coord_stop, hb_stop, remove_timer; prj; rewrite ?M; prj.
  all: try match goal with |- context [stop_tail ?st0 ?s0] =>
         let Y := fresh "Y" in pose proof (kl_stop_tail st0 s0 x) as Y; destruct (stop_tail st0 s0) as [s3 o4]; cbn [fst snd] in Y; prj;
         intros Hx; change (In x (L s0)) in Hx; destruct (Y Hx) as [Z|Z]; [left; exact Z|right; rewrite ?in_app_iff; cbn [In]; auto 10] end.
  all: intros H; left; unfold L, live_cids, shutting in *; cbn [flat_map stop_list st_ph sh_pending_ids filter map app stops gens consumers] in *; exact H.
Qed.

Lemma pending_fresh_ids : forall (l : list consumer), sh_pending_ids (map (fun c => mkSh c false) l) = map c_id l.
Proof. unfold sh_pending_ids. induction l; cbn; auto. rewrite IHl. reflexivity. Qed.

(* moving the registered consumers into a shutdown list keeps them on the books *)
Lemma L_begin_shutdown_stop : forall s idx err x, In x (L s) ->
  In x (L (set_stops (mkStop idx err (S1 (map (fun c => mkSh c false) (consumers s))) :: stops (set_consumers [] s)) (set_consumers [] s))).
Proof.
  intros s idx err x H. apply in_L in H. apply in_L. destruct H as [(c & A & B)|[H|(st & A & B)]].
  - right. right. eexists. split; [ds s; left; reflexivity|]. cbn [stop_list st_ph]. rewrite pending_fresh_ids. apply in_map_iff. eauto.
  - right. left. ds s. exact H.
  - right. right. exists st. split; [ds s; right; exact A|exact B].
Qed.

Lemma kl_do_stop : forall idx err, keepsL (do_stop idx err).
Proof.
  intros idx err s x H. unfold do_stop. destruct (is_group s).
  - destruct (consumers (set_stop_requested true s)) eqn:C.
    + apply kl_coord_stop. rewrite (L_frame s); [exact H|ds s; reflexivity..].
    + unfold begin_shutdown. cbn [fst snd]. left.
      pose proof (L_begin_shutdown_stop (set_stop_requested true s) idx err x) as X. apply X.
      rewrite (L_frame s); [exact H|ds s; reflexivity..].
  - apply kl_coord_stop. exact H.
Qed.
Lemma kl_fatal : forall k, keepsL (fatal k). Proof. intros k. unfold fatal. apply kl_seq; [apply kl_ogl|apply kl_do_stop]. Qed.
Lemma kl_rae : forall k, keepsL (rejoin_after_error k).
Proof.
  intros k. destruct k; cbn [rejoin_after_error].
  - apply kl_resched.
  - apply kl_seq; [apply kl_emit|apply kl_resched].
  - apply kl_seq; [apply kl_emit|apply kl_resched].
  - apply kl_seq; [apply kl_ogl|apply kl_resched].
  - apply kl_seq; [apply kl_ogl|apply kl_seq; [apply kl_upd_member|apply kl_resched]].
  - apply kl_seq; [apply kl_ogl|apply kl_seq; [apply kl_upd_member|apply kl_resched]].
  - apply kl_resched.
  - apply kl_seq; [apply kl_ogl|apply kl_seq; [apply kl_emit|apply kl_resched]].
  - apply kl_resched.
  - intros s. destruct (stopping s); [left; auto|apply kl_fatal].
  - apply kl_fatal.
Qed.
Lemma kl_gen_fail : forall k, keepsL (gen_fail k).
Proof. intros k. unfold gen_fail. apply kl_seq; [apply kl_gen_end|]. destruct (is_kafka k); [apply kl_rae|]. apply kl_same. intros s. ds s. auto. Qed.
Lemma kl_coord_retry_end : forall d, keepsL (coord_retry d ;; gen_end).
Proof. intros d. apply kl_same. intros s. rewrite seq_fst. ds s. auto. Qed.

(* taking a generator that waits for a reply (not for consumers) out of the list, and putting any generator in *)
Lemma L_take_gen : forall s (p : gen -> bool) g rest x, take_first p (gens s) = Some (g, rest) -> gen_list g = [] ->
  In x (L s) -> In x (L (set_gens rest s)).
Proof.
  intros s p g rest x T E H. apply in_L in H. apply in_L. destruct H as [H|[(g0 & A & B)|H]].
  - left. ds s. exact H.
  - destruct (take_first_split _ _ _ _ _ _ T A) as [->|X]; [rewrite E in B; destruct B|]. right. left. exists g0. split; [ds s; exact X|exact B].
  - right. right. ds s. exact H.
Qed.
Lemma L_add_gen : forall s g x, In x (L s) -> In x (L (add_gen g s)).
Proof.
  intros s g x H. apply in_L in H. apply in_L. unfold add_gen. destruct H as [H|[(g0 & A & B)|H]].
  - left. ds s. exact H.
  - right. left. exists g0. split; [ds s; right; exact A|exact B].
  - right. right. ds s. exact H.
Qed.
Lemma awaits_no_list : forall ph g, awaits ph g = true -> gen_list g = [].
Proof. intros ph [i p]. unfold awaits, gen_list. cbn. destruct ph, p; auto; discriminate. Qed.

Lemma kl_with_gen : forall ph (k : gen -> act), (forall g, keepsL (k g)) -> keepsL (with_gen ph k).
Proof.
  intros ph k Hk s x H. unfold with_gen. destruct (take_first (awaits ph) (gens s)) as [[g rest]|] eqn:T; [|left; exact H].
  apply Hk. destruct (take_first_cnt _ (awaits ph) adv _ _ _ T) as (P & _). eapply L_take_gen; eauto. eapply awaits_no_list; eauto.
Qed.

Lemma kl_send_join : forall gid, keepsL (send_join gid).
Proof.
  intros gid s x H. left. change (fst (send_join gid s)) with (add_gen (mkGen gid (GJoin (next_rid s))) (set_next_rid (next_rid s + 1) s)).
  apply L_add_gen. rewrite (L_frame s); [exact H|ds s; reflexivity..].
Qed.
Lemma kl_send_sync : forall gid ld, keepsL (send_sync gid ld).
Proof.
  intros gid ld s x H. left. change (fst (send_sync gid ld s)) with (add_gen (mkGen gid (GSync (next_rid s))) (set_next_rid (next_rid s + 1) s)).
  apply L_add_gen. rewrite (L_frame s); [exact H|ds s; reflexivity..].
Qed.
Lemma kl_after_prepare : forall gid, keepsL (after_prepare gid).
Proof. intros gid s x H. unfold after_prepare. destruct (stop_pend s); [apply kl_gen_end|apply kl_send_join]; exact H. Qed.

Lemma kl_prepare_and_join : forall gid, keepsL (prepare_and_join gid).
Proof.
  intros gid s x H. unfold prepare_and_join. destruct (is_group s); [|apply kl_send_join; exact H].
  destruct (consumers s) as [|c l] eqn:C; [apply kl_send_join; exact H|]. unfold begin_shutdown. cbn [fst snd]. left.
  apply in_L in H. apply in_L. unfold add_gen. destruct H as [(c0 & A & B)|[(g0 & A & B)|H]].
  - right. left. eexists. split; [ds s; left; reflexivity|]. cbn [gen_list g_ph]. rewrite pending_fresh_ids. apply in_map_iff. exists c0. auto.
  - right. left. exists g0. split; [ds s; right; exact A|exact B].
  - right. right. ds s. exact H.
Qed.

Lemma kl_join_and_sync : keepsL join_and_sync.
Proof.
  intros s x H. left. unfold join_and_sync. destruct (is_group s && stop_requested s).
  - cbn [fst]. destruct (dc s); [rewrite (L_frame s); [exact H|ds s; reflexivity..]|exact H|rewrite (L_frame s); [exact H|ds s; reflexivity..]].
  - destruct (negb (rejoin_needed (set_dc DcNone s))); [cbn [fst]; rewrite (L_frame s); [exact H|ds s; reflexivity..]|].
    destruct (rejoin_d (set_dc DcNone s)); cbn [fst]; [rewrite (L_frame s); [exact H|ds s; reflexivity..]|].
    apply in_L in H. apply in_L. unfold add_gen. destruct H as [H|[(g0 & A & B)|H]].
    + left. ds s. exact H.
    + right. left. exists g0. split; [ds s; right; exact A|exact B].
    + right. right. ds s. exact H.
Qed.

(* consumers started by on_join_complete only add to the books *)
Lemma insert_by_in : forall A (key : A -> Z) x y l, In y l \/ y = x -> In y (insert_by key x l).
Proof.
  intros A key x y l. induction l as [|z l IH]; cbn [insert_by].
  - intros [[]|E]. subst. left. reflexivity.
  - destruct ((key z =? key x) && negb (existsb (fun w => key w =? key x) l)).
    + intros [[E|H]|E]; subst; [left; reflexivity|right; right; exact H|right; left; reflexivity].
    + intros [[E|H]|E]; subst; [left; reflexivity|right; apply IH; left; exact H|right; apply IH; right; reflexivity].
Qed.
Lemma L_start_consumers : forall tps s x, In x (L s) -> In x (L (fst (start_consumers tps s))).
Proof.
  induction tps as [|[t p] tps IH]; intros s x H; cbn [start_consumers]; [exact H|]. rewrite seq_fst. apply IH. cbn [fst].
  apply in_L in H. apply in_L. destruct H as [(c & A & B)|[H|H]].
  - left. exists c. split; [|exact B]. ds s. cbn. apply insert_by_in. auto.
  - right. left. ds s. exact H.
  - right. right. ds s. exact H.
Qed.
Lemma kl_start_consumers : forall tps, keepsL (start_consumers tps).
Proof. intros tps s x H. left. apply L_start_consumers. exact H. Qed.
Lemma kl_join_complete : forall asg, keepsL (on_join_complete asg).
Proof. intros asg s x H. unfold on_join_complete. destruct (is_group s); [|left; exact H]. destruct (stop_requested s); [left; exact H|apply kl_start_consumers; exact H]. Qed.
Lemma kl_upd_frame : forall f, (forall s, consumers (f s) = consumers s /\ gens (f s) = gens s /\ stops (f s) = stops s) -> keepsL (upd f).
Proof. intros f H. apply kl_same. intros s. apply H. Qed.
Lemma kl_reset_hb : keepsL reset_heartbeat_timer.
Proof. apply kl_same. intros s. rewrite reset_hb_fst. ds s. auto. Qed.

Lemma sh_fail_pending : forall cid l, sh_pending_ids (sh_fail cid l) = sh_pending_ids l.
Proof.
  intros cid l. unfold sh_pending_ids, sh_fail. induction l as [|y l IH]; cbn; auto.
  destruct (sh_done y); cbn; [exact IH|]. rewrite IH. unfold c_fail. destruct (c_id (sh_c y) =? cid); reflexivity.
Qed.
Lemma mark_done_pending : forall cid l x, In x (sh_pending_ids l) -> x <> cid -> In x (sh_pending_ids (sh_mark_done cid l)).
Proof.
  intros cid l x. unfold sh_pending_ids, sh_mark_done. induction l as [|y l IH]; cbn; auto.
  destruct (sh_done y) eqn:D; cbn.
  - intros H N. destruct (c_id (sh_c y) =? cid); cbn; [|rewrite D; cbn]; auto.
  - intros [E|H] N.
    + destruct (c_id (sh_c y) =? cid) eqn:Q; [apply Z.eqb_eq in Q; congruence|]. cbn. rewrite D. cbn. left. exact E.
    + destruct (c_id (sh_c y) =? cid); cbn; [|rewrite D; cbn; right]; auto.
Qed.

(* ---------- the step-level statement: nobody leaves the books silently ---------- *)
Theorem live_persist : forall s e x, In x (L s) ->
  In x (L (fst (step s e))) \/ In (OStopC x) (snd (step s e)) \/ (exists b, e = ECShut x b).
Proof.
  intros s e x H.
  assert (W : forall (a : act), keepsL a -> In x (L (fst (a s))) \/ In (OStopC x) (snd (a s)) \/ (exists b, e = ECShut x b)).
  { intros a K. destruct (K s x H); auto. }
  destruct e; cbn [step].
  - destruct (start_d s); [left; exact H|].
    match goal with |- context [join_and_sync ?s0] => pose proof (kl_join_and_sync s0 x) as J; destruct (join_and_sync s0) as [s1 o1] end.
    cbn [fst snd] in *. destruct J as [J|J]; [rewrite (L_frame s); [exact H|ds s; reflexivity..]|left; exact J|right; left; apply in_or_app; auto].
  - match goal with |- context [do_stop ?a ?b ?s0] => pose proof (kl_do_stop a b s0 x) as J; destruct (do_stop a b s0) as [s1 o1] end.
    cbn [fst snd] in *. destruct J as [J|J]; [rewrite (L_frame s); [exact H|ds s; reflexivity..]|left; exact J|].
    right. left. destruct (is_stopd (n_stop s) (OStopC x)) eqn:Q; [discriminate|].
    apply in_or_app. left. apply filter_In. split; [exact J|]. rewrite Q. reflexivity.
  - apply W. unfold on_lookup. apply kl_with_gen. intros g. destruct r as [| |k].
    + intros s0 y Hy. left. unfold fresh_rid. cbn [fst]. apply L_add_gen. rewrite (L_frame s0); [exact Hy|ds s0; reflexivity..].
    + apply kl_coord_retry_end.
    + destruct k; try apply kl_coord_retry_end; apply kl_gen_fail.
  - apply W. unfold on_meta. apply kl_with_gen. intros g. destruct r as [|k]; [|apply kl_gen_fail].
    intros s0 y Hy. destruct (stop_pend s0); [apply kl_gen_end; exact Hy|]. apply kl_prepare_and_join. rewrite (L_frame s0); [exact Hy|ds s0; reflexivity..].
  - apply W. unfold on_join. apply kl_with_gen. intros g. destruct r as [gn' mem' role|k]; [|apply kl_seq; [apply kl_rae|apply kl_gen_end]].
    apply kl_seq; [apply kl_upd_frame; intros s0; destruct s0; auto|].
    intros s0 y Hy. destruct (stop_pend s0); [apply kl_gen_end; exact Hy|]. destruct (role =? 0); [apply kl_send_sync; exact Hy|].
    destruct (role =? 1); [|apply kl_gen_fail; exact Hy]. left. unfold fresh_rid. cbn [fst]. apply L_add_gen. rewrite (L_frame s0); [exact Hy|ds s0; reflexivity..].
  - apply W. unfold on_parts. apply kl_with_gen. intros g. destruct r as [| |k]; try apply kl_gen_fail.
    intros s0 y Hy. destruct (stop_pend s0); [apply kl_gen_end|apply kl_send_sync]; exact Hy.
  - apply W. unfold on_sync. apply kl_with_gen. intros g. destruct r as [asg| | |k|asg n]; try (apply kl_seq; [apply kl_rae|apply kl_gen_end]).
    all: intros s0 y Hy; destruct (stop_pend s0); [apply kl_gen_end; exact Hy|].
    + revert s0 y Hy. repeat apply kl_seq; try apply kl_reset_hb; try apply kl_join_complete; try apply kl_gen_end; apply kl_upd_frame; intros s0; ds s0; auto.
    + apply kl_gen_fail; exact Hy.
    + apply kl_gen_fail; exact Hy.
    + destruct (ctor_raises asg n s0); revert s0 y Hy; repeat apply kl_seq; try apply kl_reset_hb; try apply kl_join_complete; try apply kl_start_consumers;
        try apply kl_gen_end; try apply kl_gen_fail; apply kl_upd_frame; intros s0; ds s0; auto.
  - left. unfold on_tick. destruct (hb_running s); [|exact H]. destruct (_ || _); [exact H|]. cbn [fst]. rewrite (L_frame s); [exact H|ds s; reflexivity..].
  - unfold on_hb_reply. destruct (hb_req s); [|left; exact H]. destruct (_ =? _); [|left; exact H].
    assert (H1 : In x (L (set_hb_req None s))) by (rewrite (L_frame s); [exact H|ds s; reflexivity..]).
    destruct r; [left; exact H1|]. destruct (hb_running _); [|left; exact H1].
    assert (K : keepsL (hb_stop ;; rejoin_after_error k)) by (apply kl_seq; [apply kl_same; intros s0; ds s0; auto|apply kl_rae]).
    destruct (K _ x H1); auto.
  - unfold on_fire. destruct (existsb _ _); [|left; exact H].
    match goal with |- context [join_and_sync ?s0] => destruct (kl_join_and_sync s0 x) as [J|J]; [|left; exact J|right; left; exact J] end.
    rewrite (L_frame s); [exact H| | |]; unfold remove_timer; ds s; destruct dc0 as [|i|]; cbn; try (destruct (i =? id)); reflexivity.
  - unfold on_leave. destruct (take_first _ _) as [[st rest]|] eqn:T; [|left; exact H].
    assert (S2 : stop_list st = []). { destruct (take_first_cnt _ (is_s2 rid) has_s2 _ _ _ T) as (P & _). destruct st as [i e0 ph]. unfold is_s2 in P. destruct ph; [discriminate|reflexivity]. }
    match goal with |- context [stop_tail st ?s0] => destruct (kl_stop_tail st s0 x) as [J|J]; [|left; exact J|right; left; exact J] end.
    apply in_L in H. apply in_L. destruct H as [H|[H|(st0 & A & B)]].
    + left. destruct r; ds s; exact H.
    + right. left. destruct r; ds s; exact H.
    + destruct (take_first_split _ _ _ _ _ _ T A) as [->|X]; [rewrite S2 in B; destruct B|]. right. right. exists st0. split; [destruct r; ds s; exact X|exact B].
  - unfold on_cfail. destruct (can_fail cid s); [|left; exact H].
    match goal with |- context [rejoin_after_error k ?s0] => set (s1 := s0) end.
    assert (H1 : In x (L s1)).
    { subst s1. apply in_L in H. apply in_L. destruct H as [(c & A & B)|[(g & A & B)|(st & A & B)]].
      - left. exists (c_fail cid c). split; [ds s; cbn; apply in_map; exact A|]. unfold c_fail. destruct (c_id c =? cid); exact B.
      - right. left. exists (gen_fail_c cid g). split; [ds s; cbn; apply in_map; exact A|]. destruct g as [i ph]. destruct ph; try exact B. cbn [gen_list gen_fail_c g_ph g_id] in *. rewrite sh_fail_pending. exact B.
      - right. right. exists (stop_fail_c cid st). split; [ds s; cbn; apply in_map; exact A|]. destruct st as [i e0 ph]. destruct ph; try exact B. cbn [stop_list stop_fail_c st_ph st_idx st_err] in *. rewrite sh_fail_pending. exact B. }
    clearbody s1. destruct k; cbv beta iota;
      try (match goal with |- context [rejoin_after_error ?kk s1] => destruct (kl_rae kk s1 x H1) as [J|J]; [left; exact J|right; left; exact J] end; fail).
    destruct (consumers s1); [left; exact H1|destruct (kl_rae KCancelled s1 x H1) as [J|J]; [left; exact J|right; left; exact J]].
  - destruct (Z.eq_dec x cid) as [->|N]; [right; right; eauto|].
    unfold on_cshut. destruct (take_first (fun g => sh_has cid (gen_list g)) (gens s)) as [[g rest]|] eqn:T.
    + (* a join's prepare: the list of g loses cid only (or is abandoned with StopConsumer for the rest) *)
      assert (K : In x (L (set_gens rest s)) \/ In x (sh_pending_ids (gen_list g))).
      { apply in_L in H. destruct H as [H|[(g0 & A & B)|H]].
        - left. apply in_L. left. ds s. exact H.
        - destruct (take_first_split _ _ _ _ _ _ T A) as [->|X]; [right; exact B|]. left. apply in_L. right. left. exists g0. split; [ds s; exact X|exact B].
        - left. apply in_L. right. right. ds s. exact H. }
      destruct ok.
      * destruct (sh_all_done (sh_mark_done cid (gen_list g))) eqn:AD.
        -- destruct K as [K|K]; [destruct (kl_after_prepare (g_id g) _ x K); auto|].
           exfalso. pose proof (mark_done_pending cid _ x K N) as Q. clear - AD Q. unfold sh_all_done, sh_pending_ids in *.
           induction (sh_mark_done cid (gen_list g)) as [|y l IH]; [destruct Q|]. cbn in *. destruct (sh_done y); cbn in *; [auto|discriminate].
        -- left. cbn [fst]. apply in_L. destruct K as [K|K].
           ++ apply in_L in K. destruct K as [K|[(g0 & A & B)|K]]; [left; ds s; exact K| |right; right; ds s; exact K].
              right. left. exists g0. split; [ds s; right; exact A|exact B].
           ++ right. left. eexists. split; [ds s; left; reflexivity|]. cbn [gen_list g_ph]. apply mark_done_pending; auto.
      * rewrite emits_fst. destruct K as [K|K].
        -- destruct (kl_after_prepare (g_id g) _ x K) as [J|J]; [left; exact J|]. right. left. unfold seq, emits.
           destruct (after_prepare (g_id g) (set_gens rest s)). cbn [snd] in *. apply in_or_app. auto.
        -- right. left. unfold seq, emits. destruct (after_prepare (g_id g) (set_gens rest s)). cbn [snd]. apply in_or_app. left.
           apply stop_pending_in. apply mark_done_pending; auto.
    + destruct (take_first (fun st => sh_has cid (stop_list st)) (stops s)) as [[st rest]|] eqn:T2; [|left; exact H].
      assert (K : In x (L (set_stops rest s)) \/ In x (sh_pending_ids (stop_list st))).
      { apply in_L in H. destruct H as [H|[H|(st0 & A & B)]].
        - left. apply in_L. left. ds s. exact H.
        - left. apply in_L. right. left. ds s. exact H.
        - destruct (take_first_split _ _ _ _ _ _ T2 A) as [->|X]; [right; exact B|]. left. apply in_L. right. right. exists st0. split; [ds s; exact X|exact B]. }
      destruct ok.
      * destruct (sh_all_done (sh_mark_done cid (stop_list st))) eqn:AD.
        -- destruct K as [K|K]; [destruct (kl_coord_stop st _ x K); auto|].
           exfalso. pose proof (mark_done_pending cid _ x K N) as Q. clear - AD Q. unfold sh_all_done, sh_pending_ids in *.
           induction (sh_mark_done cid (stop_list st)) as [|y l IH]; [destruct Q|]. cbn in *. destruct (sh_done y); cbn in *; [auto|discriminate].
        -- left. cbn [fst]. apply in_L. destruct K as [K|K].
           ++ apply in_L in K. destruct K as [K|[K|(st0 & A & B)]]; [left; ds s; exact K|right; left; ds s; exact K|].
              right. right. exists st0. split; [ds s; right; exact A|exact B].
           ++ right. right. eexists. split; [ds s; left; reflexivity|]. cbn [stop_list st_ph]. apply mark_done_pending; auto.
      * rewrite emits_fst. destruct K as [K|K].
        -- destruct (kl_coord_stop st _ x K) as [J|J]; [left; exact J|]. right. left. unfold seq, emits.
           destruct (coord_stop st (set_stops rest s)). cbn [snd] in *. apply in_or_app. auto.
        -- right. left. unfold seq, emits. destruct (coord_stop st (set_stops rest s)). cbn [snd]. apply in_or_app. left.
           apply stop_pending_in. apply mark_done_pending; auto.
Qed.

(* ---------- a StartConsumer output puts the consumer on the books ---------- *)
Lemma start_consumers_registers : forall tps s cid t p g m,
  In (OStartC cid t p g m) (snd (start_consumers tps s)) -> In cid (L (fst (start_consumers tps s))).
Proof.
  induction tps as [|[t0 p0] tps IH]; intros s cid t p g m H; cbn [start_consumers] in *; [destruct H|].
  apply seq_out in H. rewrite seq_fst. cbn [fst snd] in *. destruct H as [[E|[]]|H]; [|eapply IH; exact H].
  inversion E. subst. apply L_start_consumers. apply in_L. left. ds s. eexists. split; [cbn; apply insert_by_in; right; reflexivity|reflexivity].
Qed.

Lemma sync_tail_registers : forall asg (a tl : act) s cid t p g m,
  (forall s0, In (OStartC cid t p g m) (snd (a s0)) -> In cid (L (fst (a s0)))) ->
  (forall s0, L (fst (tl s0)) = L s0) -> (forall s0, Q (snd (tl s0))) ->
  In (OStartC cid t p g m) (snd ((upd (set_cur_assign asg) ;; reset_heartbeat_timer ;; upd (set_rejoin_needed false) ;; a ;; tl) s)) ->
  In cid (L (fst ((upd (set_cur_assign asg) ;; reset_heartbeat_timer ;; upd (set_rejoin_needed false) ;; a ;; tl) s))).
Proof.
  intros asg a tl s cid t p g m Ha Htl Qtl H. rewrite !seq_fst. rewrite Htl.
  apply seq_out in H. destruct H as [[]|H]. apply seq_out in H. destruct H as [H|H].
  { exfalso. pose proof (reset_hb_q (fst (upd (set_cur_assign asg) s))) as X. unfold Q in X. rewrite Forall_forall in X. specialize (X _ H). discriminate. }
  apply seq_out in H. destruct H as [[]|H]. apply seq_out in H. destruct H as [H|H]; [apply Ha; exact H|].
  exfalso. match type of H with In _ (snd (tl ?s0)) => pose proof (Qtl s0) as X end. unfold Q in X. rewrite Forall_forall in X. specialize (X _ H). discriminate.
Qed.

Theorem start_registers : forall s e cid t p g m, In (OStartC cid t p g m) (snd (step s e)) -> In cid (L (fst (step s e))).
Proof.
  intros s e cid t p g m H. pose proof (step_outputs s e _ H) as X. cbn in X. destruct X as (rid & asg & E & _).
  assert (JC : forall s0, In (OStartC cid t p g m) (snd (on_join_complete asg s0)) -> In cid (L (fst (on_join_complete asg s0)))).
  { intros s0 H0. unfold on_join_complete in *. destruct (is_group s0); [|destruct H0]. destruct (stop_requested s0); [destruct H0|].
    eapply start_consumers_registers; eauto. }
  assert (GE : forall s0, L (fst (gen_end s0)) = L s0) by (intros s0; apply L_frame; ds s0; reflexivity).
  assert (GF : forall s0, L (fst (gen_fail KNonKafka s0)) = L s0).
  { intros s0. unfold gen_fail. rewrite seq_fst. cbn [is_kafka]. unfold upd, gen_end. cbn [fst]. apply L_frame; ds s0; reflexivity. }
  destruct E as [->|[n ->]]; cbn [step] in *; unfold on_sync, with_gen in *;
    (destruct (take_first _ (gens s)) as [[g0 rest]|]; [|destruct H]); (destruct (stop_pend (set_gens rest s)); [destruct H|]).
  - eapply sync_tail_registers; eauto. apply q_gen_end.
  - destruct (ctor_raises asg n (set_gens rest s)).
    + eapply sync_tail_registers; eauto; [|apply q_gen_fail]. intros s0 H0. eapply start_consumers_registers; eauto.
    + eapply sync_tail_registers; eauto. apply q_gen_end.
Qed.

(* ---------- along a run: who was started and has neither been stopped nor completed its shutdown is on the books ---------- *)
Fixpoint untouched (s : state) (evs : list event) (x : Z) : Prop :=
  match evs with
  | [] => True
  | e :: r => ~ In (OStopC x) (snd (step s e)) /\ (forall b, e <> ECShut x b) /\ untouched (fst (step s e)) r x
  end.
Fixpoint started_alive (s : state) (evs : list event) (x : Z) : Prop :=
  match evs with
  | [] => False
  | e :: r =>
      let s1 := fst (step s e) in
      ((exists t p g m, In (OStartC x t p g m) (snd (step s e))) /\ untouched s1 r x) \/ started_alive s1 r x
  end.

Lemma untouched_live : forall evs s x, In x (L s) -> untouched s evs x -> In x (L (fold_left (fun s e => fst (step s e)) evs s)).
Proof.
  induction evs as [|e r IH]; intros s x H U; cbn [fold_left]; [exact H|]. destruct U as (U1 & U2 & U3).
  apply IH; auto. destruct (live_persist s e x H) as [J|[J|(b & J)]]; [exact J|contradiction|exfalso; exact (U2 b J)].
Qed.

Theorem live_from_trace : forall evs s x, started_alive s evs x -> In x (L (fold_left (fun s e => fst (step s e)) evs s)).
Proof.
  induction evs as [|e r IH]; intros s x H; [destruct H|]. cbn [fold_left]. destruct H as [((t & p & g & m & H) & U)|H].
  - apply untouched_live; auto. eapply start_registers; eauto.
  - apply IH. exact H.
Qed.

(* the reading of "live_cids = []": every consumer that was started has since received StopConsumer or completed its shutdown *)
Theorem nobody_running_means_all_stopped : forall grp evs x,
  live_cids (state_after grp evs) = [] -> ~ started_alive (init grp) evs x.
Proof. intros grp evs x E H. pose proof (live_from_trace evs (init grp) x H) as X. unfold L, state_after in *. rewrite E in X. destruct X. Qed.
