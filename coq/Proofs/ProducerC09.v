(* C09: per-partition order, one payload per message per attempt, serial batches, retry discipline, attempt bound,
   back-off index - lemmas about Model/Producer.v. *)
From AV Require Import Base.Util Model.Producer Proofs.ProducerBase Proofs.ProducerInv Proofs.ProducerC19.
From Coq Require Import Lia Permutation Sorted.

(* ------------------------------------------------------------------ topic-partitions *)
Lemma tp_eqb_eq : forall a b : tp, tp_eqb a b = true <-> a = b.
Proof.
  intros [a1 a2] [b1 b2]; unfold tp_eqb; simpl. rewrite andb_true_iff, !Z.eqb_eq. split; [intros [-> ->]; auto|intros H; inv H; auto].
Qed.
Lemma tp_eqb_refl : forall a, tp_eqb a a = true.
Proof. intros; apply tp_eqb_eq; reflexivity. Qed.
Lemma tp_eqb_sym : forall a b, tp_eqb a b = tp_eqb b a.
Proof. intros [a1 a2] [b1 b2]; unfold tp_eqb; simpl. rewrite (Z.eqb_sym a1), (Z.eqb_sym a2). reflexivity. Qed.
Lemma tpmem_In : forall x l, tpmem x l = true <-> In x l.
Proof.
  unfold tpmem; intros x l. rewrite existsb_exists. split.
  - intros (y & H & E). apply tp_eqb_eq in E; subst; auto.
  - intros H; exists x; split; auto. apply tp_eqb_refl.
Qed.
Lemma nodup_tp_NoDup : forall l, nodup_tp l = true -> NoDup l.
Proof.
  induction l as [|x r IH]; simpl; intros H; [constructor|]. apply andb_true_iff in H as [A B].
  constructor; auto. intros X. apply tpmem_In in X. rewrite X in A. discriminate.
Qed.
Lemma subset_tp_incl : forall a b, subset_tp a b = true -> incl a b.
Proof. unfold subset_tp; intros a b H x Hx. rewrite forallb_forall in H. apply tpmem_In; auto. Qed.

(* ------------------------------------------------------------------ well-formed payload lists *)
Definition pls_wf (pls : list payload) : Prop :=
  NoDup (map p_tp pls) /\ Forall (fun p => sorted_lt (ids (p_sends p))) pls.

Lemma add_to_payload_tps : forall pls x r,
  map p_tp (add_to_payload pls x r) = if tpmem x (map p_tp pls) then map p_tp pls else map p_tp pls ++ [x].
Proof.
  induction pls as [|p rest IH]; simpl; intros x r; [reflexivity|].
  unfold tpmem in *. simpl. rewrite (tp_eqb_sym x (p_tp p)). destruct (tp_eqb (p_tp p) x) eqn:E; simpl.
  - apply tp_eqb_eq in E. subst. reflexivity.
  - rewrite IH. destruct (existsb (tp_eqb x) (map p_tp rest)); reflexivity.
Qed.

Lemma add_to_payload_wf : forall pls x r, pls_wf pls -> Forall (fun i => i < s_id r) (ids (all_sends pls)) ->
  pls_wf (add_to_payload pls x r).
Proof.
  intros pls x r [N F] B. split.
  - rewrite add_to_payload_tps. destruct (tpmem x (map p_tp pls)) eqn:M; auto.
    apply Permutation_NoDup with (x :: map p_tp pls); [apply Permutation_cons_append|].
    constructor; auto. intros X. apply tpmem_In in X. congruence.
  - clear N. induction pls as [|p rest IH]; simpl.
    + repeat constructor.
    + inversion F; subst. unfold all_sends, ids in B. simpl in B. rewrite map_app in B. apply Forall_app in B as [B1 B2].
      destruct (tp_eqb (p_tp p) x).
      * constructor; auto. simpl. unfold ids. rewrite map_app. simpl. apply sorted_lt_app1; auto.
      * constructor; auto.
Qed.

Lemma group_requests_wf : forall reqs res s pls s' out pls',
  sorted_lt (ids reqs) -> pls_wf pls ->
  (forall i j, In i (ids (all_sends pls)) -> In j (ids reqs) -> i < j) ->
  group_requests s reqs res pls = (s', out, pls') -> pls_wf pls'.
Proof.
  induction reqs as [|x r IH]; cbn [group_requests]; intros res s pls s' out pls' S W B H.
  - inv H; auto.
  - destruct res as [|y res]; [inv H; auto|].
    inversion S as [|? ? S1 S2]; subst.
    assert (B' : forall i j, In i (ids (all_sends pls)) -> In j (ids r) -> i < j) by (intros; apply B; auto; right; auto).
    destruct (negb (zmem (s_id x) (outstanding s))); [eapply IH; eauto|].
    destruct y.
    + eapply IH; [exact S1| |  |exact H].
      * apply add_to_payload_wf; auto. apply Forall_forall. intros i Hi. apply B; auto. left; reflexivity.
      * intros i j Hi Hj. unfold ids in Hi. rewrite (Permutation_map s_id (add_to_payload_perm pls (s_topic x, p) x)) in Hi.
        destruct Hi as [<-|Hi]; [rewrite Forall_forall in S2; apply S2; auto|apply B'; auto].
    + destruct (deliver s [x] (OFail k 0)) as [s1 o1]. destruct (group_requests s1 r res pls) as [[s2 o2] pls2] eqn:E2. inv H.
      eapply IH; eauto.
Qed.

(* ------------------------------------------------------------------ the trace automaton:
   serial batches, consecutive back-off indices, consecutive and bounded produce attempts *)
Record mon := { m_fl : bool; m_k : Z; m_a : Z }.

Definition mon_step (c : cfg) (m : mon) (o : output) : option mon :=
  match o with
  | ODispatch _ => if m_fl m then None else Some {| m_fl := true; m_k := 0; m_a := 0 |}
  | OBatchDone => if m_fl m then Some {| m_fl := false; m_k := 0; m_a := 0 |} else None
  | OSched _ k _ => if m_fl m && (k =? m_k m) then Some {| m_fl := true; m_k := m_k m + 1; m_a := m_a m |} else None
  | OSendProduce a _ _ =>
      if m_fl m && (a =? m_a m + 1) && (a <=? Z.max 1 (c_max c)) then Some {| m_fl := true; m_k := m_k m; m_a := a |} else None
  | OLoadMeta _ _ | OGetVersion | OResetMeta _ | OCancelTimer _ => if m_fl m then Some m else None
  | OOutcome _ _ => Some m
  end.

Fixpoint mon_run (c : cfg) (m : mon) (outs : list output) : option mon :=
  match outs with
  | [] => Some m
  | o :: r => match mon_step c m o with Some m1 => mon_run c m1 r | None => None end
  end.

Lemma mon_run_app : forall c a b m, mon_run c m (a ++ b) = match mon_run c m a with Some m1 => mon_run c m1 b | None => None end.
Proof. induction a as [|o r IH]; simpl; intros b m; auto. destruct (mon_step c m o); auto. Qed.

Lemma mon_run_app_some : forall c a b m m1 m2, mon_run c m a = Some m1 -> mon_run c m1 b = Some m2 -> mon_run c m (a ++ b) = Some m2.
Proof. intros. rewrite mon_run_app, H. auto. Qed.

Lemma mon_outcomes : forall c o m, only_outcomes o -> mon_run c m o = Some m.
Proof.
  induction o as [|x r IH]; simpl; intros m H; auto. inversion H; subst. destruct x; try discriminate. simpl. auto.
Qed.

(* the automaton state that corresponds to a producer state with a batch in flight *)
Definition mfl (s : state) : mon := {| m_fl := true; m_k := didx s; m_a := nsp s |}.
Definition mon_of (s : state) : mon :=
  match ph s with Idle => {| m_fl := false; m_k := 0; m_a := 0 |} | _ => mfl s end.

Lemma mon_xo : forall c s s' o, eq_xo s s' -> only_outcomes o -> mon_run c (mfl s) o = Some (mfl s').
Proof.
  intros c s s' o X O. rewrite mon_outcomes; auto. apply eq_xo_fields in X as (_ & _ & _ & _ & _ & D & N & _).
  unfold mfl. rewrite D, N. reflexivity.
Qed.

Lemma lookup_head_mon : forall c s x s' o l, lookup_head c s x = (s', o, l) -> mon_run c (mfl s) o = Some (mfl s').
Proof.
  unfold lookup_head; intros c s x s' o l H. destruct (cache_get (cache s) (s_topic x)) as [err hp].
  destruct (err =? 0); [inv H; reflexivity|]. destruct (c_max c <=? attempts s); inv H; reflexivity.
Qed.

Lemma lookup_loaded_mon : forall c s x s' o l, lookup_loaded c s x = (s', o, l) -> mon_run c (mfl s) o = Some (mfl s').
Proof.
  unfold lookup_loaded; intros c s x s' o l H. destruct (stopping s); [inv H; reflexivity|].
  destruct (cache_get (cache s) (s_topic x)) as [err hp].
  destruct (err =? 0); inv H; [reflexivity|]. simpl. rewrite Z.eqb_refl. reflexivity.
Qed.

Lemma map_lookups_mon : forall c f,
  (forall st x l st' o l', f st x l = Some (st', o, l') -> mon_run c (mfl st) o = Some (mfl st')) ->
  forall reqs ls s s' o ls', map_lookups f s reqs ls = (s', o, ls') -> mon_run c (mfl s) o = Some (mfl s').
Proof.
  intros c f Hf; induction reqs as [|x r IH]; simpl; intros ls s s' o ls' H.
  - inv H; reflexivity.
  - destruct ls as [|l ls]; [inv H; reflexivity|].
    destruct (f s x l) as [[[s1 o1] l1]|] eqn:E.
    + destruct (map_lookups f s1 r ls) as [[s2 o2] ls2] eqn:E2. inv H.
      eapply mon_run_app_some; eauto.
    + destruct (map_lookups f s r ls) as [[s2 o2] ls2] eqn:E2. inv H. eauto.
Qed.

(* ------------------------------------------------------------------ the C09 invariant *)
Definition PInv (c : cfg) (s : state) : Prop :=
  0 <= attempts s /\
  match ph s with
  | Idle => True
  | Looking reqs _ | VerWait reqs _ => nsp s = 0 /\ sorted_lt (ids reqs)
  | Sending pls cur =>
      pls_wf pls /\ NoDup cur /\ incl cur (map p_tp pls) /\ 1 <= nsp s <= attempts s /\ (nsp s = 1 \/ attempts s <= c_max c) /\
      (nsp s = 1 -> cur = map p_tp pls)          (* the first attempt carries every payload *)
  | RetryWait pls cur _ =>
      pls_wf pls /\ NoDup cur /\ incl cur (map p_tp pls) /\ 1 <= nsp s <= attempts s /\ attempts s < c_max c
  end.

Record rstep (c : cfg) (s s1 : state) (o1 : list output) (done : bool) : Prop := {
  rs_mon : mon_run c (mfl s) o1 = Some (mfl s1);
  rs_pinv : done = false -> PInv c s1 }.

Definition tps_of_fl (fl : list (tp * Z * bool)) : list tp := map (fun e => fst (fst e)) fl.

Lemma send_requests_rstep : forall c s reqs res s1 o1 done, 0 <= attempts s -> nsp s = 0 -> sorted_lt (ids reqs) ->
  send_requests s reqs res = (s1, o1, done) -> rstep c s s1 o1 done.
Proof.
  unfold send_requests; intros c s reqs res s1 o1 done A N S H.
  destruct (stopping s); [inv H; constructor; [reflexivity|discriminate]|].
  destruct (api s =? 0).
  { inv H; constructor; [reflexivity|]. intros _; split; simpl; auto. }
  destruct (group_requests s reqs res []) as [[s2 o2] pls] eqn:E.
  pose proof (group_requests_xo _ _ _ _ _ _ _ E) as [X1 X2].
  apply group_requests_wf in E; auto; [|split; constructor|intros ? ? []].
  pose proof (eq_xo_fields _ _ X1) as (_ & _ & _ & _ & F5 & F6 & F7 & _).
  destruct pls as [|p pls].
  - inv H; constructor; [apply mon_xo; auto|discriminate].
  - destruct (broken s2); [inv H; constructor; [apply mon_xo; auto|discriminate]|].
    inv H; constructor.
    + eapply mon_run_app_some; [apply mon_xo; eauto|]. simpl. rewrite F7, N. simpl.
      replace (1 <=? Z.max 1 (c_max c)) with true by (symmetry; apply Z.leb_le; lia). reflexivity.
    + intros _; split; simpl; [lia|]. destruct E as [E1 E2]. repeat split; auto; try lia. apply incl_refl.
Qed.

Lemma lookups_progress_rstep : forall c s reqs ls s1 o1 done, 0 <= attempts s -> nsp s = 0 -> sorted_lt (ids reqs) ->
  lookups_progress s reqs ls = (s1, o1, done) -> rstep c s s1 o1 done.
Proof.
  unfold lookups_progress; intros c s reqs ls s1 o1 done A N S H. destruct (all_done ls).
  - eapply send_requests_rstep; eauto.
  - inv H; constructor; [reflexivity|]. intros _; split; simpl; auto.
Qed.

Lemma version_failed_rstep : forall c s reqs k s1 o1 done, version_failed s reqs k = (s1, o1, done) -> rstep c s s1 o1 done.
Proof.
  unfold version_failed; intros c s reqs k s1 o1 done H. destruct (deliver s reqs (OFail k 0)) as [s2 o2] eqn:E.
  apply deliver_xo in E as [E1 E2]. inv H; constructor; [apply mon_xo; auto|discriminate].
Qed.

Lemma check_retry_rstep : forall c s pls fl s1 o1 done,
  pls_wf pls -> NoDup (tps_of_fl fl) -> incl (tps_of_fl fl) (map p_tp pls) -> 1 <= nsp s <= attempts s ->
  check_retry c s pls fl = (s1, o1, done) -> rstep c s s1 o1 done.
Proof.
  unfold check_retry; intros c s pls fl s1 o1 done W N I A H.
  destruct ((c_max c <=? attempts s) || stopping s) eqn:G.
  - destruct (deliver_failed s pls fl) as [s2 o2] eqn:E. apply deliver_failed_xo in E as [E1 E2].
    inv H; constructor; [apply mon_xo; auto|discriminate].
  - apply orb_false_iff in G as [G _]. apply Z.leb_gt in G. inv H; constructor.
    + simpl. rewrite Z.eqb_refl. simpl. destruct (reset_topics fl); reflexivity.
    + intros _. unfold PInv. destruct W as [W1 W2]. destruct (reset_topics fl); simpl; (split; [lia|]); repeat split; auto; try lia.
Qed.

Lemma process_resps_fl : forall rs s pls s' out fl, process_resps s pls rs = (s', out, fl) ->
  incl (tps_of_fl fl) (map (fun e => fst (fst e)) rs) /\
  (NoDup (map (fun e : tp * Z * Z => fst (fst e)) rs) -> NoDup (tps_of_fl fl)).
Proof.
  induction rs as [|[[x err] off] r IH]; simpl; intros s pls s' out fl H.
  - inv H. split; [intros ? []|constructor].
  - destruct (err =? 0).
    + destruct (deliver s (sends_of pls x) _) as [s1 o1]. destruct (process_resps s1 pls r) as [[s2 o2] f2] eqn:E2. inv H.
      apply IH in E2 as [A B]. split; [apply incl_tl; auto|intros D; inversion D; auto].
    + destruct (process_resps s pls r) as [[s2 o2] f2] eqn:E2. inv H. apply IH in E2 as [A B]. simpl. split.
      * intros z [<-|Hz]; [left; reflexivity|right; auto].
      * intros D; inversion D; subst. constructor; auto.
Qed.

Lemma nodup_app_swap_sub : forall (r f r' : list tp), NoDup (r ++ f) -> NoDup r' -> incl r' r -> NoDup (f ++ r').
Proof.
  intros r f r' D N I. apply Permutation_NoDup with (r' ++ f); [apply Permutation_app_comm|].
  induction r' as [|x t IH]; simpl.
  - clear - D. induction r; simpl in *; auto. inversion D; auto.
  - inversion N; subst. constructor; [|apply IH; auto; intros z Hz; apply I; right; auto].
    intros X. apply in_app_or in X as [X|X]; auto.
    assert (In x r) by (apply I; left; reflexivity).
    clear - D H X. induction r; simpl in *; [tauto|]. inversion D; subst. destruct H as [->|H]; auto.
    apply H2. apply in_or_app; auto.
Qed.

(* the answered and failed payloads of a result are distinct payloads of the request (in or out of the contract) *)
Definition resp_in (cur : list tp) (v : value) : bool :=
  match v with
  | VResp rs => let r := map (fun e => fst (fst e)) rs in nodup_tp r && subset_tp r cur
  | VFailed rs fs => let r := map (fun e => fst (fst e)) rs in nodup_tp (r ++ map fst fs) && subset_tp (r ++ map fst fs) cur
  | _ => true
  end.
Lemma result_ok_in : forall c cur v, result_ok c cur v = true -> resp_in cur v = true.
Proof.
  intros c cur v H. destruct v; simpl in *; auto.
  - apply andb_true_iff in H as [H _]. apply andb_true_iff in H as [H S1]. apply andb_true_iff in H as [_ ND]. rewrite ND, S1; auto.
  - apply andb_true_iff in H as [H _]. apply andb_true_iff in H as [H S1]. apply andb_true_iff in H as [_ ND]. rewrite ND, S1; auto.
Qed.
Lemma omit_ok_in : forall c cur v, omit_ok c cur v = true -> resp_in cur v = true.
Proof.
  intros c cur v H. destruct v; simpl in *; try discriminate.
  - apply andb_true_iff in H as [H _]. apply andb_true_iff in H as [H S1]. apply andb_true_iff in H as [_ ND]. rewrite ND, S1; auto.
  - apply andb_true_iff in H as [H _]. apply andb_true_iff in H as [H S1]. apply andb_true_iff in H as [_ ND]. rewrite ND, S1; auto.
Qed.

Lemma handle_result_rstep : forall c s pls cur v s1 o1 done,
  pls_wf pls -> NoDup cur -> incl cur (map p_tp pls) -> 1 <= nsp s <= attempts s ->
  resp_in cur v = true ->
  handle_result c s pls cur v = (s1, o1, done) -> rstep c s s1 o1 done.
Proof.
  unfold handle_result; intros c s pls cur v s1 o1 done W N I A OK H. destruct v.
  - destruct (deliver s (all_sends pls) _) as [s2 o2] eqn:E. apply deliver_xo in E as [E1 E2].
    inv H; constructor; [apply mon_xo; auto|discriminate].
  - simpl in OK. apply andb_true_iff in OK as [ND S1].
    apply nodup_tp_NoDup in ND. apply subset_tp_incl in S1.
    destruct (process_resps s pls rs) as [[s2 o2] f2] eqn:E. pose proof (process_resps_xo _ _ _ _ _ _ E) as [E1 E2].
    apply process_resps_fl in E as [F1 F2].
    pose proof (eq_xo_fields _ _ E1) as (_ & _ & _ & _ & F5 & F6 & F7 & _).
    destruct f2 as [|p0 f2].
    + inv H; constructor; [apply mon_xo; auto|discriminate].
    + destruct (check_retry c s2 pls (p0 :: f2)) as [[s3 o3] d3] eqn:E3. inv H.
      apply check_retry_rstep in E3; auto; try lia.
      * destruct E3 as [M P]. constructor; auto. eapply mon_run_app_some; [apply mon_xo; eauto|exact M].
      * eapply incl_tran; [exact F1|]. eapply incl_tran; [exact S1|exact I].
  - simpl in OK. apply andb_true_iff in OK as [ND S1].
    apply nodup_tp_NoDup in ND. apply subset_tp_incl in S1.
    destruct (if c_acks c =? 0 then _ else _) as [s0 o0] eqn:E0.
    assert (A0 : eq_xo s s0 /\ only_outcomes o0).
    { destruct (c_acks c =? 0); [eapply deliver_xo; eauto|inv E0; auto with prod]. }
    destruct A0 as [A1 A2].
    destruct (process_resps s0 pls rs) as [[s2 o2] f2] eqn:E. pose proof (process_resps_xo _ _ _ _ _ _ E) as [E1 E2].
    apply process_resps_fl in E as [F1 F2].
    pose proof (eq_xo_fields _ _ A1) as (_ & _ & _ & _ & G5 & G6 & G7 & _).
    pose proof (eq_xo_fields _ _ E1) as (_ & _ & _ & _ & F5 & F6 & F7 & _).
    destruct (check_retry c s2 pls _) as [[s3 o3] d3] eqn:E3. inv H.
    apply check_retry_rstep in E3; auto; try lia.
    + destruct E3 as [M P]. constructor; auto.
      eapply mon_run_app_some; [apply mon_xo; eauto|]. eapply mon_run_app_some; [apply mon_xo; eauto|exact M].
    + unfold tps_of_fl. rewrite map_app, map_map. simpl. fold (tps_of_fl f2).
      apply nodup_app_swap_sub with (r := map (fun e : tp * Z * Z => fst (fst e)) rs); auto.
      * apply F2. clear - ND.
        induction rs; simpl in *; [constructor|]. inversion ND; subst. constructor; auto.
        intros X; apply H1; apply in_or_app; auto.
    + unfold tps_of_fl. rewrite map_app, map_map. simpl. fold (tps_of_fl f2).
      apply incl_app; (eapply incl_tran; [|exact I]); (eapply incl_tran; [|exact S1]).
      * apply incl_appr, incl_refl.
      * eapply incl_tran; [exact F1|apply incl_appl, incl_refl].
  - eapply check_retry_rstep; eauto; unfold tps_of_fl; rewrite map_map; simpl; rewrite map_id; auto.
  - destruct (deliver s (all_sends pls) _) as [s2 o2] eqn:E. apply deliver_xo in E as [E1 E2].
    inv H; constructor; [apply mon_xo; auto|discriminate].
Qed.

(* ------------------------------------------------------------------ events on the batch in flight *)
Lemma lookup_head_att : forall c s x s' o l, lookup_head c s x = (s', o, l) -> attempts s <= attempts s' /\ nsp s' = nsp s.
Proof.
  unfold lookup_head; intros c s x s' o l H. destruct (cache_get (cache s) (s_topic x)) as [err hp].
  destruct (err =? 0); [inv H; simpl; lia|]. destruct (c_max c <=? attempts s); inv H; simpl; lia.
Qed.
Lemma lookup_loaded_att : forall c s x s' o l, lookup_loaded c s x = (s', o, l) -> attempts s <= attempts s' /\ nsp s' = nsp s.
Proof.
  unfold lookup_loaded; intros c s x s' o l H. destruct (stopping s); [inv H; simpl; lia|].
  destruct (cache_get (cache s) (s_topic x)) as [err hp]. destruct (err =? 0); inv H; simpl; lia.
Qed.
Lemma map_lookups_att : forall f,
  (forall st x l st' o l', f st x l = Some (st', o, l') -> attempts st <= attempts st' /\ nsp st' = nsp st) ->
  forall reqs ls s s' o ls', map_lookups f s reqs ls = (s', o, ls') -> attempts s <= attempts s' /\ nsp s' = nsp s.
Proof.
  intros f Hf; induction reqs as [|x r IH]; simpl; intros ls s s' o ls' H.
  - inv H; lia.
  - destruct ls as [|l ls]; [inv H; lia|].
    destruct (f s x l) as [[[s1 o1] l1]|] eqn:E.
    + destruct (map_lookups f s1 r ls) as [[s2 o2] ls2] eqn:E2. inv H. apply Hf in E. apply IH in E2. lia.
    + destruct (map_lookups f s r ls) as [[s2 o2] ls2] eqn:E2. inv H. eauto.
Qed.

Lemma rstep_seq : forall c s s1 o1 s2 o2 done, mon_run c (mfl s) o1 = Some (mfl s1) -> rstep c s1 s2 o2 done -> rstep c s s2 (o1 ++ o2) done.
Proof. intros c s s1 o1 s2 o2 done M [M2 P2]; constructor; auto. eapply mon_run_app_some; eauto. Qed.

Lemma core_batch_rstep : forall c s e s1 o1 ep, PInv c s -> batch_event e = true -> core c s e = (s1, o1, ep) ->
  (s1 = s /\ o1 = [] /\ ep = NoEpi) \/
  (ph s <> Idle /\ exists done, rstep c s s1 o1 done /\ ep = (if done then Fin else NoEpi)).
Proof.
  intros c s e s1 o1 ep [A P] BE H. destruct e; try discriminate; cbn [core] in H.
  - (* ELoadDone *)
    destruct (ph s) eqn:Ph; try (inv H; left; auto; fail). destruct P as [N S].
    destruct (map_lookups _ s reqs ls) as [[s2 o2] ls2] eqn:E.
    pose proof E as E'. apply map_lookups_att in E' as [T1 T2].
    2:{ intros st x l st' o' l' Hf. destruct l; try discriminate. destruct (lid0 =? lid); [|discriminate].
        inv Hf. destruct ok; [eapply lookup_loaded_att; eauto|inv H1; lia]. }
    apply map_lookups_mon with (c := c) in E.
    2:{ intros st x l st' o' l' Hf. destruct l; try discriminate. destruct (lid0 =? lid); [|discriminate].
        inv Hf. destruct ok; [eapply lookup_loaded_mon; eauto|inv H1; reflexivity]. }
    destruct (lookups_progress s2 reqs ls2) as [[s3 o3] d3] eqn:E3. unfold fin_if in H. inv H.
    right; split; [discriminate|]. exists d3; split; auto.
    eapply rstep_seq; [exact E|]. eapply lookups_progress_rstep; [| | |exact E3]; auto; lia.
  - (* ETimer *)
    destruct (ph s) eqn:Ph; try (inv H; left; auto; fail).
    + destruct P as [N S].
      destruct (map_lookups _ s reqs ls) as [[s2 o2] ls2] eqn:E.
      pose proof E as E'. apply map_lookups_att in E' as [T1 T2].
      2:{ intros st x l st' o' l' Hf. destruct l; try discriminate. destruct (tid0 =? tid); [|discriminate].
          inv Hf. eapply lookup_head_att; eauto. }
      apply map_lookups_mon with (c := c) in E.
      2:{ intros st x l st' o' l' Hf. destruct l; try discriminate. destruct (tid0 =? tid); [|discriminate].
          inv Hf. eapply lookup_head_mon; eauto. }
      destruct (lookups_progress s2 reqs ls2) as [[s3 o3] d3] eqn:E3. unfold fin_if in H. inv H.
      right; split; [discriminate|]. exists d3; split; auto.
      eapply rstep_seq; [exact E|]. eapply lookups_progress_rstep; [| | |exact E3]; auto; lia.
    + destruct (tid0 =? tid); [|inv H; left; auto]. destruct P as (W & N & I & B & C).
      destruct (broken s).
      { inv H. right; split; [discriminate|]. exists true; split; auto. constructor; [reflexivity|discriminate]. }
      inv H.
      right; split; [discriminate|]. exists false; split; auto. constructor.
      * simpl. rewrite Z.eqb_refl. simpl.
        replace (nsp s + 1 <=? Z.max 1 (c_max c)) with true by (symmetry; apply Z.leb_le; lia). reflexivity.
      * intros _. split; simpl; [lia|]. destruct W as [W1 W2]. repeat split; auto; try lia.
  - (* EVersion *)
    destruct (ph s) eqn:Ph; try (inv H; left; auto; fail). destruct P as [N S].
    destruct (r =? 0); [|destruct (r =? 1)].
    + destruct (send_requests _ reqs res) as [[s2 o2] d2] eqn:E. unfold fin_if in H. inv H.
      right; split; [discriminate|]. exists d2; split; auto.
      apply send_requests_rstep with (c := c) in E; auto. destruct E as [M Pp]; constructor; auto.
    + destruct (send_requests _ reqs res) as [[s2 o2] d2] eqn:E. unfold fin_if in H. inv H.
      right; split; [discriminate|]. exists d2; split; auto.
      apply send_requests_rstep with (c := c) in E; auto. destruct E as [M Pp]; constructor; auto.
    + destruct (version_failed s reqs r) as [[s2 o2] d2] eqn:E. unfold fin_if in H. inv H.
      right; split; [discriminate|]. exists d2; split; auto. eapply version_failed_rstep; eauto.
  - (* EResult *)
    destruct (ph s) eqn:Ph; try (inv H; left; auto; fail). destruct P as (W & N & I & B & C).
    destruct (result_ok c cur v) eqn:OK; [|inv H; left; auto].
    destruct (handle_result c s pls cur v) as [[s2 o2] d2] eqn:E. unfold fin_if in H. inv H.
    right; split; [discriminate|]. exists d2; split; auto.
    eapply handle_result_rstep; [exact W|exact N|exact I|exact B|eapply result_ok_in; exact OK|exact E].
  - (* EResultOmit *)
    destruct (ph s) eqn:Ph; try (inv H; left; auto; fail). destruct P as (W & N & I & B & C).
    destruct (omit_ok c cur v) eqn:OK; [|inv H; left; auto].
    destruct (handle_result c s pls cur v) as [[s2 o2] d2] eqn:E. unfold fin_if in H. inv H.
    right; split; [discriminate|]. exists d2; split; auto.
    eapply handle_result_rstep; [exact W|exact N|exact I|exact B|eapply omit_ok_in; exact OK|exact E].
Qed.

Lemma cancel_batch_mon : forall c s cv s1 o1 done, PInv c s -> ph s <> Idle ->
  cancel_batch c s cv = (s1, o1, done) -> mon_run c (mfl s) o1 = Some (mfl s1).
Proof.
  unfold cancel_batch; intros c s cv s1 o1 done [A P] NI H. destruct (ph s) eqn:Ph; [congruence| | | |].
  - destruct P as [N S].
    destruct (map_lookups _ s reqs ls) as [[s2 o2] ls2] eqn:E.
    pose proof E as E'. apply map_lookups_att in E' as [T1 T2].
    2:{ intros st x l st' o' l' Hf. destruct l; [discriminate| |].
        - inv Hf. eapply lookup_loaded_att; eauto.
        - inv Hf. lia. }
    apply map_lookups_mon with (c := c) in E.
    2:{ intros st x l st' o' l' Hf. destruct l; [discriminate| |].
        - inv Hf. eapply lookup_loaded_mon; eauto.
        - inv Hf. reflexivity. }
    destruct (lookups_progress s2 reqs ls2) as [[s3 o3] d3] eqn:E3. inv H.
    eapply mon_run_app_some; [exact E|]. eapply lookups_progress_rstep with (c := c) in E3; auto; try lia. apply E3.
  - apply version_failed_rstep with (c := c) in H. apply H.
  - destruct P as (W & N & I & B & C). eapply handle_result_rstep with (c := c) in H; eauto; [apply H|].
    destruct cv as [v|]; [destruct (result_ok c cur v) eqn:OK; [eapply result_ok_in; eauto|reflexivity]|reflexivity].
  - destruct (deliver s (all_sends pls) _) as [s2 o2] eqn:E. apply deliver_xo in E as [E1 E2]. inv H.
    simpl. apply mon_xo; auto.
Qed.

(* ------------------------------------------------------------------ dispatch and the end of a batch *)
Definition m0 : mon := {| m_fl := false; m_k := 0; m_a := 0 |}.

Lemma dispatch_c09 : forall c s s' o, ph s = Idle -> attempts s = 0 -> didx s = 0 -> nsp s = 0 -> sorted_lt (ids (queue s)) ->
  dispatch c s = (s', o) -> mon_run c m0 o = Some (mon_of s') /\ PInv c s'.
Proof.
  unfold dispatch; intros c s s' o P A D N S H.
  set (s0 := set_queue s [] 0 0) in *.
  destruct (map_lookups _ s0 (queue s) _) as [[s1 o1] ls] eqn:E1.
  pose proof E1 as E'. apply map_lookups_att in E' as [T1 T2];
    [|intros st x l st' o' l' Hf; inv Hf; eapply lookup_head_att; eauto].
  apply map_lookups_mon with (c := c) in E1;
    [|intros st x l st' o' l' Hf; inv Hf; eapply lookup_head_mon; eauto].
  destruct (lookups_progress s1 (queue s) ls) as [[s2 o2] done] eqn:E2.
  pose proof E2 as E2'. apply lookups_progress_rstep with (c := c) in E2; auto; [|simpl in *; lia|simpl in *; lia].
  destruct E2 as [M2 P2].
  assert (M : mon_run c m0 (ODispatch (map s_id (queue s)) :: o1 ++ o2) = Some (mfl s2)).
  { simpl. replace {| m_fl := true; m_k := 0; m_a := 0 |} with (mfl s0) by (unfold mfl; simpl; rewrite D, N; reflexivity).
    eapply mon_run_app_some; eauto. }
  destruct done.
  - unfold finish0 in H. inv H. split.
    + replace (ODispatch (map s_id (queue s)) :: o1 ++ o2 ++ [OBatchDone]) with ((ODispatch (map s_id (queue s)) :: o1 ++ o2) ++ [OBatchDone])
        by (simpl; rewrite <- app_assoc; reflexivity).
      eapply mon_run_app_some; [exact M|]. reflexivity.
    + split; simpl; auto. lia.
  - inv H. split; [|auto]. rewrite M. unfold mon_of. apply lookups_progress_ph in E2'. destruct (ph s'); auto; congruence.
Qed.

Lemma try_c09 : forall c s s' o, ph s = Idle -> attempts s = 0 -> didx s = 0 -> nsp s = 0 -> sorted_lt (ids (queue s)) ->
  try_send_batch c s = (s', o) -> mon_run c m0 o = Some (mon_of s') /\ PInv c s'.
Proof.
  intros c s s' o P A D N S H. apply try_send_batch_spec in H as [[_ Dp]|(_ & -> & ->)].
  - eapply dispatch_c09; eauto.
  - split; [unfold mon_of; rewrite P; reflexivity|]. split; [lia|rewrite P; auto].
Qed.

Lemma check_c09 : forall c s s' o, ph s = Idle -> attempts s = 0 -> didx s = 0 -> nsp s = 0 -> sorted_lt (ids (queue s)) ->
  check_send_batch c s = (s', o) -> mon_run c m0 o = Some (mon_of s') /\ PInv c s'.
Proof.
  unfold check_send_batch; intros c s s' o P A D N S H. destruct (threshold c s); [eapply try_c09; eauto|].
  inv H. split; [unfold mon_of; rewrite P; reflexivity|]. split; [lia|rewrite P; auto].
Qed.

Lemma finish_c09 : forall c s1 s' o, sorted_lt (ids (queue s1)) -> finish c s1 = (s', o) ->
  mon_run c (mfl s1) o = Some (mon_of s') /\ PInv c s'.
Proof.
  unfold finish, finish0; intros c s1 s' o S H.
  destruct (check_send_batch c _) as [s2 o2] eqn:E. inv H.
  apply check_c09 in E; auto; try (simpl; exact E).
Qed.

Lemma PInv_same : forall c s s', ph s' = ph s -> attempts s' = attempts s -> nsp s' = nsp s -> PInv c s -> PInv c s'.
Proof. unfold PInv; intros c s s' E1 E2 E3 H. rewrite E1, E2, E3. exact H. Qed.
Lemma mon_of_same : forall s s', ph s' = ph s -> didx s' = didx s -> nsp s' = nsp s -> mon_of s' = mon_of s.
Proof. unfold mon_of, mfl; intros s s' E1 E2 E3. rewrite E1, E2, E3. reflexivity. Qed.

Lemma epi_c09 : forall c s1 ep s2 o2, WInv s1 -> PInv c s1 -> ep = Check \/ ep = Try ->
  apply_epi c s1 ep = (s2, o2) -> mon_run c (mon_of s1) o2 = Some (mon_of s2) /\ PInv c s2.
Proof.
  intros c s1 ep s2 o2 W P E A.
  destruct (phase_eq_idle (ph s1)) as [Pi|Pi].
  - destruct (i_idle _ W Pi) as (I1 & I2 & I3). pose proof (i_qsorted _ _ (i_b _ W)) as S.
    replace (mon_of s1) with m0 by (unfold mon_of; rewrite Pi; reflexivity).
    destruct E as [-> | ->]; simpl in A; [eapply check_c09|eapply try_c09]; eauto.
  - destruct (not_idle_no_dispatch c s1 Pi) as [T C].
    assert (X : (s2, o2) = (s1, [])) by (destruct E as [-> | ->]; simpl in A; congruence).
    inv X. split; auto.
Qed.

(* ------------------------------------------------------------------ every step keeps PInv and is accepted by the automaton *)
Ltac mon_same := simpl; first [reflexivity | f_equal; symmetry; apply mon_of_same; reflexivity].

Theorem step_c09 : forall c s e s' out, Inv s -> PInv c s -> step c s e = (s', out) ->
  PInv c s' /\ mon_run c (mon_of s) out = Some (mon_of s').
Proof.
  intros c s e s' out I P H. pose proof I as [W L]. pose proof W as [IB PW ID ST].
  assert (NS : (forall cv, e <> EStop cv) -> exists s1 o1 ep o2, core c s e = (s1, o1, ep) /\ apply_epi c s1 ep = (s', o2) /\ out = o1 ++ o2)
    by (intros; eapply step_nonstop; eauto).
  assert (BE : batch_event e = true -> PInv c s' /\ mon_run c (mon_of s) out = Some (mon_of s')).
  { intros B. destruct (NS ltac:(intros ? ->; discriminate)) as (s1 & o1 & ep & o2 & C & A & ->).
    pose proof C as C'. apply core_batch_rstep with (c := c) in C' as [(-> & -> & ->)|(NI & done & RS & ->)]; auto.
    - simpl in A. inv A. split; auto.
    - apply core_batch in C as [(-> & -> & X)|(_ & done' & BS & X)]; auto;
        try apply (i_onodup _ _ IB); try apply (i_bnodup _ _ IB).
      + destruct RS as [M Pp]. simpl in M. destruct done; [discriminate|]. simpl in A. inv A. split; auto.
      + assert (done' = done) by (destruct done, done'; auto; discriminate). subst done'.
        pose proof (bs_keeps _ _ _ _ _ BS) as [K1 _ _ _ _ _ _].
        replace (mon_of s) with (mfl s) by (unfold mon_of; destruct (ph s); auto; congruence).
        destruct RS as [M Pp]. destruct done; simpl in A.
        * apply finish_c09 in A; [|rewrite K1; apply (i_qsorted _ _ IB)]. destruct A as [A1 A2]. split; auto.
          eapply mon_run_app_some; eauto.
        * inv A. rewrite app_nil_r. split; auto. rewrite M.
          destruct (bs_ph _ _ _ _ _ BS eq_refl) as (P1 & _). unfold mon_of. destruct (ph s'); auto; congruence. }
  destruct e; try (apply BE; reflexivity).
  - (* ESend *)
    destruct (NS ltac:(intros ? X; discriminate X)) as (s1 & o1 & ep & o2 & C & A & ->). cbn [core] in C.
    destruct ((cnt <? 1) || (bytes <? 0)) eqn:G; [|destruct (stopping_dec s) as [SG|SG]; rewrite SG in C].
    + inv C. simpl in A. inv A. split; [eapply PInv_same; eauto; reflexivity|].
      mon_same.
    + inv C. simpl in A. inv A. split; [eapply PInv_same; eauto; reflexivity|].
      mon_same.
    + apply orb_false_iff in G as [G1 G2]. apply Z.ltb_ge in G1, G2. inv C.
      match type of A with apply_epi _ ?st _ = _ =>
        assert (W1 : WInv st) by (apply inv_send; auto);
        assert (P1 : PInv c st) by (eapply PInv_same; eauto; reflexivity);
        assert (M1 : mon_of st = mon_of s) by (apply mon_of_same; reflexivity) end.
      apply epi_c09 in A; auto. simpl. rewrite <- M1. destruct A; auto.
  - (* EBadSend *)
    destruct (NS ltac:(intros ? X; discriminate X)) as (s1 & o1 & ep & o2 & C & A & ->). cbn [core] in C.
    inv C. simpl in A. inv A. split; [eapply PInv_same; eauto; reflexivity|].
    mon_same.
  - (* ECancel *)
    destruct (NS ltac:(intros ? X; discriminate X)) as (s1 & o1 & ep & o2 & C & A & ->). cbn [core] in C.
    destruct (cancel_send s sid) as [s2 o3] eqn:Ec. inv C. simpl in A. inv A. rewrite app_nil_r.
    apply cancel_send_spec in Ec as (OO & Ph & _ & _ & _ & At & Di & Np & _).
    split; [eapply PInv_same; eauto|]. rewrite mon_outcomes; auto. f_equal. symmetry. apply mon_of_same; auto.
  - (* ETick *)
    destruct (NS ltac:(intros ? X; discriminate X)) as (s1 & o1 & ep & o2 & C & A & ->). cbn [core] in C.
    inv C. destruct (looper s1).
    + apply epi_c09 in A; auto. destruct A; auto.
    + simpl in A. inv A. auto.
  - (* EMetaSet *)
    destruct (NS ltac:(intros ? X; discriminate X)) as (s1 & o1 & ep & o2 & C & A & ->). cbn [core] in C.
    inv C. simpl in A. inv A. split; [eapply PInv_same; eauto; reflexivity|].
    mon_same.
  - (* EMetaClearAll *)
    destruct (NS ltac:(intros ? X; discriminate X)) as (s1 & o1 & ep & o2 & C & A & ->). cbn [core] in C.
    inv C. simpl in A. inv A. split; [eapply PInv_same; eauto; reflexivity|].
    mon_same.
  - (* EBroken *)
    destruct (NS ltac:(intros ? X; discriminate X)) as (s1 & o1 & ep & o2 & C & A & ->). cbn [core] in C.
    inv C. simpl in A. inv A. split; [eapply PInv_same; eauto; reflexivity|].
    mon_same.
  - (* EStop *)
    unfold step in H. set (s0 := set_flags s true (looper s)) in *.
    assert (P0 : PInv c s0) by (eapply PInv_same; eauto; reflexivity).
    assert (M0 : mon_of s0 = mon_of s) by (apply mon_of_same; reflexivity).
    destruct (cancel_batch c s0 cv) as [[s1 o1] done] eqn:E.
    assert (X : exists s2 o2, apply_epi c s1 (if done then Fin else NoEpi) = (s2, o2) /\
                  PInv c s2 /\ mon_run c (mon_of s) (o1 ++ o2) = Some (mon_of s2)).
    { destruct (phase_eq_idle (ph s)) as [Pi|Pi].
      - unfold cancel_batch in E. replace (ph s0) with Idle in E by (symmetry; exact Pi). inv E.
        exists s0, []. simpl. rewrite M0. auto.
      - pose proof (cancel_batch_done c s0 cv _ _ _ (eq_refl : stopping s0 = true) PW Pi E) as ->.
        pose proof (cancel_batch_mon _ _ _ _ _ _ P0 Pi E) as M.
        apply cancel_batch_ok in E. destruct E as [[K1 _ _ _ _ _ _] _ _].
        destruct (apply_epi c s1 Fin) as [s2 o2] eqn:A. exists s2, o2. split; auto. simpl in A.
        apply finish_c09 in A; [|rewrite K1; apply (i_qsorted _ _ IB)]. destruct A as [A1 A2]. split; auto.
        rewrite <- M0. replace (mon_of s0) with (mfl s0) by (unfold mon_of; destruct (ph s0) eqn:Q; auto; exfalso; apply Pi; exact Q).
        eapply mon_run_app_some; eauto. }
    destruct X as (s2 & o2 & A & P2 & M2). unfold fin_if in H. rewrite A in H.
    destruct (cancel_all _ _) as [s4 o4] eqn:E4. inv H.
    pose proof (cancel_all_frame _ _ _ _ E4) as (F1 & F2 & F3 & F4 & _).
    pose proof (cancel_all_spec _ _ _ _ E4) as (OO & _).
    split; [eapply PInv_same; [| | |exact P2]; simpl in *; auto|].
    rewrite app_assoc. eapply mon_run_app_some; [exact M2|]. rewrite mon_outcomes; auto. f_equal.
    symmetry. apply mon_of_same; simpl in *; auto.
Qed.

Lemma init_pinv : forall c has_t api0 cache0, PInv c (init_state has_t api0 cache0).
Proof. intros; split; simpl; auto; lia. Qed.

(* all outputs of a trace, in order *)
Definition outs_of (tr : list (event * list output)) : list output := flat_map snd tr.

Lemma inv_of_step : forall c s e s' out, Inv s -> step c s e = (s', out) -> Inv s'.
Proof. intros c s e s' out I H. apply (so_inv _ _ _ _ (step_inv _ _ _ _ _ I H)). Qed.

Theorem run_c09 : forall c evs s s' tr, Inv s -> PInv c s -> run c s evs = (s', tr) ->
  PInv c s' /\ mon_run c (mon_of s) (outs_of tr) = Some (mon_of s').
Proof.
  induction evs as [|e r IH]; simpl; intros s s' tr I P H.
  - inv H. auto.
  - destruct (step c s e) as [s1 o] eqn:E. destruct (run c s1 r) as [s2 t2] eqn:E2. inv H.
    destruct (step_c09 _ _ _ _ _ I P E) as [P1 M1].
    destruct (IH _ _ _ (inv_of_step _ _ _ _ _ I E) P1 E2) as [P2 M2]. split; auto.
    unfold outs_of in *. simpl. eapply mon_run_app_some; eauto.
Qed.

(* ------------------------------------------------------------------ what acceptance by the automaton means *)
Theorem trace_accepted : forall c has_t api0 cache0 evs s tr,
  run c (init_state has_t api0 cache0) evs = (s, tr) -> mon_run c m0 (outs_of tr) = Some (mon_of s).
Proof.
  intros c h a ca evs s tr H. eapply run_c09 in H; [|apply init_inv|apply init_pinv]. destruct H as [_ M]. exact M.
Qed.

(* serial batches: between two dispatches the earlier batch has ended *)
Lemma mon_fl_drop : forall c mid m m', mon_run c m mid = Some m' -> m_fl m = true -> m_fl m' = false -> In OBatchDone mid.
Proof.
  induction mid as [|o r IH]; simpl; intros m m' H F N; [inv H; congruence|].
  destruct (mon_step c m o) as [m1|] eqn:E; [|discriminate].
  assert (X : o = OBatchDone \/ m_fl m1 = true).
  { destruct o; simpl in E; rewrite ?F in E; simpl in E; try (inv E; auto; fail).
    - destruct ((attempt =? m_a m + 1) && (attempt <=? Z.max 1 (c_max c))); inv E; auto.
    - destruct (k =? m_k m); inv E; auto. }
  destruct X as [->|X]; [left; reflexivity|right; eapply IH; eauto].
Qed.

Theorem serial_batches : forall c m pre sids mid sids' post m',
  mon_run c m (pre ++ [ODispatch sids] ++ mid ++ [ODispatch sids'] ++ post) = Some m' -> In OBatchDone mid.
Proof.
  intros c m pre sids mid sids' post m' H.
  rewrite mon_run_app in H. destruct (mon_run c m pre) as [m1|]; [|discriminate].
  simpl in H. destruct (m_fl m1); [discriminate|].
  rewrite mon_run_app in H. destruct (mon_run c _ mid) as [m2|] eqn:E; [|discriminate].
  simpl in H. destruct (m_fl m2) eqn:F2; [discriminate|].
  eapply mon_fl_drop; eauto.
Qed.

(* attempts: consecutive from 1 within a batch, never more than max(1, max_req_attempts) *)
Theorem attempts_bounded : forall c outs m m', mon_run c m outs = Some m' -> 0 <= m_a m ->
  0 <= m_a m' /\ forall a mg v, In (OSendProduce a mg v) outs -> 1 <= a <= Z.max 1 (c_max c).
Proof.
  induction outs as [|o r IH]; simpl; intros m m' H A; [inv H; split; auto; intros ? ? ? []|].
  destruct (mon_step c m o) as [m1|] eqn:E; [|discriminate].
  assert (A1 : 0 <= m_a m1 /\ forall a mg v, o = OSendProduce a mg v -> 1 <= a <= Z.max 1 (c_max c)).
  { destruct o; simpl in E; try (destruct (m_fl m); inv E; simpl; split; auto; try lia; discriminate).
    - destruct (m_fl m); simpl in E; [|discriminate].
      destruct (attempt =? m_a m + 1) eqn:E1; simpl in E; [|discriminate].
      destruct (attempt <=? Z.max 1 (c_max c)) eqn:E2; inv E. apply Z.eqb_eq in E1. apply Z.leb_le in E2. simpl.
      split; [lia|]. intros a mg v X. inv X. lia.
    - destruct (m_fl m && (k =? m_k m)); inv E; simpl; split; auto; discriminate. }
  destruct A1 as [A1 A2]. destruct (IH _ _ H A1) as [B1 B2]. split; auto.
  intros a mg v [X|X]; eauto.
Qed.

(* back-off: inside a batch the k-th callLater gets delay index k (0, 1, 2, ...) *)
Definition not_sched_or_ghost (o : output) : Prop :=
  match o with OSched _ _ _ | ODispatch _ | OBatchDone => False | _ => True end.

Lemma mon_k_stays : forall c mid mm m2, mon_run c mm mid = Some m2 -> (forall o, In o mid -> not_sched_or_ghost o) -> m_k m2 = m_k mm.
Proof.
  induction mid as [|o r IH]; simpl; intros mm m2 E Q; [inv E; auto|].
  destruct (mon_step c mm o) as [m3|] eqn:E3; [|discriminate].
  assert (H : m_k m3 = m_k mm).
  { assert (Qo := Q o (or_introl eq_refl)). destruct o; try (exfalso; exact Qo); simpl in E3.
    - destruct (m_fl mm && (attempt =? m_a mm + 1) && (attempt <=? Z.max 1 (c_max c))); inv E3; auto.
    - destruct (m_fl mm); inv E3; auto.
    - destruct (m_fl mm); inv E3; auto.
    - destruct (m_fl mm); inv E3; auto.
    - destruct (m_fl mm); inv E3; auto.
    - inv E3; auto. }
  rewrite <- H. apply IH; auto.
Qed.

Theorem backoff_consecutive : forall c m pre t1 k1 kind1 mid t2 k2 kind2 post m',
  mon_run c m (pre ++ [OSched t1 k1 kind1] ++ mid ++ [OSched t2 k2 kind2] ++ post) = Some m' ->
  (forall o, In o mid -> not_sched_or_ghost o) -> k2 = k1 + 1.
Proof.
  intros c m pre t1 k1 kind1 mid t2 k2 kind2 post m' H Q.
  rewrite mon_run_app in H. destruct (mon_run c m pre) as [m1|]; [|discriminate].
  simpl in H. destruct (m_fl m1); simpl in H; [|discriminate]. destruct (k1 =? m_k m1) eqn:E1; [|discriminate].
  apply Z.eqb_eq in E1. rewrite mon_run_app in H.
  destruct (mon_run c _ mid) as [m2|] eqn:E; [|discriminate].
  apply mon_k_stays in E; auto. simpl in E.
  simpl in H. destruct (m_fl m2); simpl in H; [|discriminate]. destruct (k2 =? m_k m2) eqn:E2; [|discriminate].
  apply Z.eqb_eq in E2. lia.
Qed.

(* the first callLater of a batch has index 0 *)
Theorem backoff_first : forall c m pre sids mid t k kind post m',
  mon_run c m (pre ++ [ODispatch sids] ++ mid ++ [OSched t k kind] ++ post) = Some m' ->
  (forall o, In o mid -> not_sched_or_ghost o) -> k = 0.
Proof.
  intros c m pre sids mid t k kind post m' H Q.
  rewrite mon_run_app in H. destruct (mon_run c m pre) as [m1|]; [|discriminate].
  simpl in H. destruct (m_fl m1); simpl in H; [discriminate|]. rewrite mon_run_app in H.
  destruct (mon_run c _ mid) as [m2|] eqn:E; [|discriminate].
  apply mon_k_stays in E; auto. simpl in E.
  simpl in H. destruct (m_fl m2); simpl in H; [|discriminate]. destruct (k =? m_k m2) eqn:E2; [|discriminate].
  apply Z.eqb_eq in E2. lia.
Qed.

(* ------------------------------------------------------------------ retries: only what failed, acknowledged payloads at once *)
Definition resps_of (v : value) : list (tp * Z * Z) :=
  match v with VResp rs | VFailed rs _ => rs | _ => [] end.

Lemma process_resps_fl_err : forall rs s pls s' out fl, process_resps s pls rs = (s', out, fl) ->
  forall x, In x (tps_of_fl fl) -> exists err off, In (x, err, off) rs /\ err <> 0.
Proof.
  induction rs as [|[[y err] off] r IH]; simpl; intros s pls s' out fl H x Hx.
  - inv H. destruct Hx.
  - destruct (err =? 0) eqn:Ez.
    + destruct (deliver s (sends_of pls y) _) as [s1 o1]. destruct (process_resps s1 pls r) as [[s2 o2] f2] eqn:E2. inv H.
      destruct (IH _ _ _ _ _ E2 _ Hx) as (e & o & A & B). exists e, o; auto.
    + destruct (process_resps s pls r) as [[s2 o2] f2] eqn:E2. inv H. simpl in Hx. destruct Hx as [<-|Hx].
      * exists err, off. split; auto. apply Z.eqb_neq; auto.
      * destruct (IH _ _ _ _ _ E2 _ Hx) as (e & o & A & B). exists e, o; auto.
Qed.

Lemma nodup_fst_unique : forall (rs : list (tp * Z * Z)) x e1 o1 e2 o2,
  NoDup (map (fun e : tp * Z * Z => fst (fst e)) rs) -> In (x, e1, o1) rs -> In (x, e2, o2) rs -> e1 = e2.
Proof.
  induction rs as [|[[y e] o] r IH]; simpl; intros x e1 o1 e2 o2 N A B; [tauto|]. inversion N; subst.
  destruct A as [A|A], B as [B|B].
  - inv A; inv B; auto.
  - inv A. exfalso. apply H1. apply in_map_iff. exists (x, e2, o2); auto.
  - inv B. exfalso. apply H1. apply in_map_iff. exists (x, e1, o1); auto.
  - eapply IH; eauto.
Qed.

Lemma check_retry_phase : forall c s pls fl s1 o1, check_retry c s pls fl = (s1, o1, false) ->
  exists tid, ph s1 = RetryWait pls (tps_of_fl fl) tid.
Proof.
  unfold check_retry; intros c s pls fl s1 o1 H. destruct ((c_max c <=? attempts s) || stopping s).
  - destruct (deliver_failed s pls fl); inv H.
  - inv H. eexists; reflexivity.
Qed.

Lemma handle_result_retry : forall c s pls cur v s1 o1,
  resp_in cur v = true -> handle_result c s pls cur v = (s1, o1, false) ->
  exists cur' tid, ph s1 = RetryWait pls cur' tid /\ incl cur' cur /\
                   forall x off, In (x, 0, off) (resps_of v) -> ~ In x cur'.
Proof.
  unfold handle_result; intros c s pls cur v s1 o1 OK H. destruct v.
  - destruct (deliver s (all_sends pls) _); inv H.
  - simpl in OK. apply andb_true_iff in OK as [ND S1].
    apply nodup_tp_NoDup in ND. apply subset_tp_incl in S1.
    destruct (process_resps s pls rs) as [[s2 o2] f2] eqn:E.
    pose proof (process_resps_fl _ _ _ _ _ _ E) as [F1 _]. pose proof (process_resps_fl_err _ _ _ _ _ _ E) as F3.
    destruct f2 as [|p0 f2]; [inv H|].
    destruct (check_retry c s2 pls (p0 :: f2)) as [[s3 o3] d3] eqn:E3. inv H.
    apply check_retry_phase in E3 as [tid E3]. eexists; exists tid. split; [exact E3|]. split.
    + eapply incl_tran; [exact F1|exact S1].
    + simpl. intros x off Hx Hc. destruct (F3 _ Hc) as (e & o & A & B). apply B. eapply nodup_fst_unique; eauto.
  - simpl in OK. apply andb_true_iff in OK as [ND S1].
    apply nodup_tp_NoDup in ND. apply subset_tp_incl in S1.
    destruct (if c_acks c =? 0 then _ else _) as [s0 o0].
    destruct (process_resps s0 pls rs) as [[s2 o2] f2] eqn:E.
    pose proof (process_resps_fl _ _ _ _ _ _ E) as [F1 _]. pose proof (process_resps_fl_err _ _ _ _ _ _ E) as F3.
    destruct (check_retry c s2 pls _) as [[s3 o3] d3] eqn:E3. inv H.
    apply check_retry_phase in E3 as [tid E3]. eexists; exists tid. split; [exact E3|].
    unfold tps_of_fl. rewrite map_app, map_map. simpl. fold (tps_of_fl f2). split.
    + apply incl_app; (eapply incl_tran; [|exact S1]); [apply incl_appr, incl_refl|].
      eapply incl_tran; [exact F1|apply incl_appl, incl_refl].
    + simpl. intros x off Hx Hc. apply in_app_or in Hc as [Hc|Hc].
      * assert (Hr : In x (map (fun e : tp * Z * Z => fst (fst e)) rs)) by (apply in_map_iff; exists (x, 0, off); auto).
        clear - ND Hr Hc. induction (map (fun e : tp * Z * Z => fst (fst e)) rs) as [|y r IH]; simpl in *; [tauto|].
        inversion ND; subst. destruct Hr as [->|Hr]; [apply H1; apply in_or_app; auto|auto].
      * destruct (F3 _ Hc) as (e & o & A & B). apply B. eapply nodup_fst_unique; eauto.
        clear - ND. induction rs; simpl in *; [constructor|]. inversion ND; subst. constructor; auto.
        intros X; apply H1; apply in_or_app; auto.
  - apply check_retry_phase in H as [tid H]. eexists; exists tid. split; [exact H|].
    unfold tps_of_fl. rewrite map_map. simpl. rewrite map_id. split; [apply incl_refl|intros ? ? []].
  - destruct (deliver s (all_sends pls) _); inv H.
Qed.

Theorem retry_subset : forall c s pls cur v s' out, Inv s -> ph s = Sending pls cur -> result_ok c cur v = true ->
  step c s (EResult v) = (s', out) ->
  In OBatchDone out \/
  exists cur' tid, ph s' = RetryWait pls cur' tid /\ incl cur' cur /\
                   forall x off, In (x, 0, off) (resps_of v) -> ~ In x cur'.
Proof.
  intros c s pls cur v s' out I P OK H. unfold step in H. cbn [core] in H. rewrite P, OK in H.
  destruct (handle_result c s pls cur v) as [[s1 o1] done] eqn:E. unfold fin_if in H.
  destruct done; simpl in H.
  - left. unfold finish, finish0 in H. destruct (check_send_batch c _) as [s2 o2]. inv H.
    apply in_or_app; right; left; reflexivity.
  - inv H. right. eapply handle_result_retry; eauto. eapply result_ok_in; eauto.
Qed.

Theorem retry_resends : forall c s pls cur tid s' out, ph s = RetryWait pls cur tid -> broken s = false ->
  step c s (ETimer tid) = (s', out) ->
  out = [OSendProduce (nsp s + 1) (magic_of s) (map payload_view (filter (fun p => tpmem (p_tp p) cur) pls))] /\
  ph s' = Sending pls cur.
Proof.
  intros c s pls cur tid s' out P B H. unfold step in H. cbn [core] in H. rewrite P, Z.eqb_refl, B in H. simpl in H. inv H. auto.
Qed.

(* an acknowledged payload is reported in the same step: none of its requests is outstanding afterwards *)
Lemma deliver_covers : forall l s o s' out, deliver s l o = (s', out) ->
  incl (outstanding s') (outstanding s) /\ forall y, In y l -> ~ In (s_id y) (outstanding s').
Proof.
  induction l as [|x r IH]; simpl; intros s o s' out H.
  - inv H. split; [apply incl_refl|intros ? []].
  - destruct (zmem (s_id x) (outstanding s)) eqn:M.
    + destruct (deliver _ r o) as [s1 o1] eqn:E. inv H. apply IH in E as [A B]. simpl in A. split.
      * intros i Hi. apply A in Hi. apply zremove_In in Hi as [Hi _]. exact Hi.
      * intros y [<-|Hy]; auto. intros X. apply A in X. apply zremove_In in X as [_ X]. auto.
    + apply IH in H as [A B]. split; auto. intros y [<-|Hy]; auto. intros X. apply A in X. apply zmem_false in M. auto.
Qed.

Lemma process_resps_covers : forall rs s pls s' out fl, process_resps s pls rs = (s', out, fl) ->
  incl (outstanding s') (outstanding s) /\
  forall x off, In (x, 0, off) rs -> forall y, In y (sends_of pls x) -> ~ In (s_id y) (outstanding s').
Proof.
  induction rs as [|[[x err] off] r IH]; simpl; intros s pls s' out fl H.
  - inv H. split; [apply incl_refl|intros ? ? []].
  - destruct (err =? 0) eqn:Ez.
    + destruct (deliver s (sends_of pls x) _) as [s1 o1] eqn:E1. destruct (process_resps s1 pls r) as [[s2 o2] f2] eqn:E2. inv H.
      apply deliver_covers in E1 as [A1 B1]. apply IH in E2 as [A2 B2]. split; [eapply incl_tran; eauto|].
      intros x0 off0 [X|X] y Hy; [inv X; intros Z; apply (B1 y Hy); auto|eapply B2; eauto].
    + destruct (process_resps s pls r) as [[s2 o2] f2] eqn:E2. inv H. apply IH in E2 as [A2 B2]. split; auto.
      intros x0 off0 [X|X] y Hy; [inv X; discriminate|eapply B2; eauto].
Qed.

Theorem acked_reported : forall c s pls cur v s' out x off y, Inv s -> ph s = Sending pls cur -> result_ok c cur v = true ->
  step c s (EResult v) = (s', out) ->
  In (x, 0, off) (resps_of v) -> In y (sends_of pls x) -> In (s_id y) (outstanding s) -> In (s_id y) (oc out).
Proof.
  intros c s pls cur v s' out x off y I P OK H Hx Hy Ho.
  destruct (step_inv _ _ _ _ _ I H) as [_ Pm _]. simpl in Pm. rewrite app_nil_r in Pm.
  eapply Permutation_in in Ho; [|exact Pm]. apply in_app_or in Ho as [Ho|Ho]; auto. exfalso.
  (* it cannot still be outstanding *)
  pose proof I as [W L]. pose proof W as [IB PW ID ST].
  assert (N : NoDup (outstanding s)) by apply (i_onodup _ _ IB).
  assert (D : NoDup (ids (all_sends pls))) by (pose proof (i_bnodup _ _ IB) as X; rewrite P in X; exact X).
  unfold step in H. cbn [core] in H. rewrite P, OK in H.
  destruct (handle_result c s pls cur v) as [[s1 o1] done] eqn:E.
  assert (C1 : ~ In (s_id y) (outstanding s1)).
  { clear H. unfold handle_result in E. destruct v; simpl in Hx; try tauto.
    - destruct (process_resps s pls rs) as [[s2 o2] f2] eqn:E2.
      pose proof (process_resps_xo _ _ _ _ _ _ E2) as [X1 _].
      pose proof (process_resps_ostep _ _ _ _ _ _ N E2) as O2. pose proof (ostep_nodup _ _ _ _ O2 N) as N2.
      apply process_resps_covers in E2 as [_ B2]. specialize (B2 _ _ Hx _ Hy).
      destruct f2; [inv E; auto|].
      destruct (check_retry c s2 pls _) as [[s3 o3] d3] eqn:E3. inv E.
      apply check_retry_bstep in E3; auto. intros Z. apply B2. eapply ostep_sub; [apply (bs_ostep _ _ _ _ _ E3)|exact Z].
    - destruct (if c_acks c =? 0 then _ else _) as [s0 o0] eqn:E0.
      assert (A0 : ostep (ids (all_sends pls)) s s0 o0).
      { destruct (c_acks c =? 0).
        - apply deliver_ostep in E0 as [A _]; auto. eapply ostep_mono; [|exact A]. apply ids_incl, all_sends_filter_incl.
        - inv E0. apply ostep_nil; reflexivity. }
      pose proof (ostep_nodup _ _ _ _ A0 N) as N0.
      destruct (process_resps s0 pls rs) as [[s2 o2] f2] eqn:E2.
      pose proof (process_resps_ostep _ _ _ _ _ _ N0 E2) as O2. pose proof (ostep_nodup _ _ _ _ O2 N0) as N2.
      apply process_resps_covers in E2 as [_ B2]. specialize (B2 _ _ Hx _ Hy).
      destruct (check_retry c s2 pls _) as [[s3 o3] d3] eqn:E3. inv E.
      apply check_retry_bstep in E3; auto. intros Z. apply B2. eapply ostep_sub; [apply (bs_ostep _ _ _ _ _ E3)|exact Z]. }
  apply handle_result_bstep in E; auto. unfold fin_if in H. destruct done; simpl in H.
  - pose proof (invB_bstep _ _ _ _ _ [] (eq_rect _ (fun p => InvB (batch_sends p) s) IB _ P) E (incl_nil_l _) (NoDup_nil _)) as I2.
    destruct (finish c s1) as [s2 o2] eqn:F. inv H.
    apply finish_inv with (B := []) in F as (_ & O2 & _); auto. apply C1. eapply ostep_sub; eauto.
  - inv H. auto.
Qed.

(* ------------------------------------------------------------------ what a produce request contains *)
Definition viewf (pls : list payload) (cur : list tp) : list (tp * list (Z * Z)) :=
  map payload_view (filter (fun p => tpmem (p_tp p) cur) pls).
Definition no_sp (o : list output) : Prop := forall a m v, ~ In (OSendProduce a m v) o.
(* a step makes at most one produce request; it is its last output and the request the producer waits on in s' *)
Definition sp_ok (s' : state) (out : list output) : Prop :=
  no_sp out \/
  exists pre a m pls cur, out = pre ++ [OSendProduce a m (viewf pls cur)] /\ no_sp pre /\ ph s' = Sending pls cur /\ a = nsp s'.

Lemma no_sp_app : forall a b, no_sp a -> no_sp b -> no_sp (a ++ b).
Proof. unfold no_sp; intros a b A B x m v H. apply in_app_or in H as [H|H]; [eapply A|eapply B]; eauto. Qed.
Lemma no_sp_nil : no_sp []. Proof. intros ? ? ? []. Qed.
Lemma no_sp_outcomes : forall o, only_outcomes o -> no_sp o.
Proof. unfold only_outcomes; intros o F a m v H. rewrite Forall_forall in F. apply F in H. discriminate. Qed.
Lemma no_sp_lk : forall o, lk_outs o -> no_sp o.
Proof. unfold lk_outs; intros o F a m v H. rewrite Forall_forall in F. apply F in H. discriminate. Qed.
Lemma no_sp_ok : forall s o, no_sp o -> sp_ok s o.
Proof. intros s o N; left; exact N. Qed.
Lemma sp_ok_app_l : forall s a b, no_sp a -> sp_ok s b -> sp_ok s (a ++ b).
Proof.
  intros s a b A [B|(pre & x & m & pls & cur & -> & N & P & E)]; [left; apply no_sp_app; auto|].
  right. exists (a ++ pre), x, m, pls, cur. rewrite app_assoc. repeat split; auto. apply no_sp_app; auto.
Qed.

Lemma filter_all_tps : forall pls, filter (fun p => tpmem (p_tp p) (map p_tp pls)) pls = pls.
Proof.
  intros pls. assert (G : forall l, incl l pls -> filter (fun p => tpmem (p_tp p) (map p_tp pls)) l = l).
  { induction l as [|p r IH]; simpl; intros I; auto.
    assert (X : tpmem (p_tp p) (map p_tp pls) = true) by (apply tpmem_In, in_map, I; left; reflexivity).
    rewrite X, IH; auto. intros z Hz; apply I; right; auto. }
  apply G, incl_refl.
Qed.

Lemma send_requests_sp : forall s reqs res s1 o1 done, send_requests s reqs res = (s1, o1, done) ->
  (no_sp o1) \/ (done = false /\ sp_ok s1 o1).
Proof.
  unfold send_requests; intros s reqs res s1 o1 done H.
  destruct (stopping s); [inv H; left; apply no_sp_nil|].
  destruct (api s =? 0); [inv H; left; intros a m v [X|[]]; discriminate|].
  destruct (group_requests s reqs res []) as [[s2 o2] pls] eqn:E. apply group_requests_xo in E as [_ X2].
  destruct pls as [|p pls]; [inv H; left; apply no_sp_outcomes; auto|].
  destruct (broken s2); inv H; [left; apply no_sp_outcomes; auto|].
  right; split; auto. right. exists o2, 1, (magic_of s2), (p :: pls), (map p_tp (p :: pls)).
  split; [unfold viewf; rewrite filter_all_tps; reflexivity|]. split; [apply no_sp_outcomes; auto|]. split; reflexivity.
Qed.

Lemma lookups_progress_sp : forall s reqs ls s1 o1 done, lookups_progress s reqs ls = (s1, o1, done) ->
  (no_sp o1) \/ (done = false /\ sp_ok s1 o1).
Proof.
  unfold lookups_progress; intros s reqs ls s1 o1 done H. destruct (all_done ls); [eapply send_requests_sp; eauto|].
  inv H; left; apply no_sp_nil.
Qed.

Lemma check_retry_sp : forall c s pls fl s1 o1 done, check_retry c s pls fl = (s1, o1, done) -> no_sp o1.
Proof.
  unfold check_retry; intros c s pls fl s1 o1 done H. destruct ((c_max c <=? attempts s) || stopping s).
  - destruct (deliver_failed s pls fl) eqn:E; inv H. apply no_sp_outcomes. eapply deliver_failed_xo; eauto.
  - inv H. destruct (reset_topics fl); intros a m v X; simpl in X; intuition discriminate.
Qed.

Lemma handle_result_sp : forall c s pls cur v s1 o1 done, handle_result c s pls cur v = (s1, o1, done) -> no_sp o1.
Proof.
  unfold handle_result; intros c s pls cur v s1 o1 done H. destruct v.
  - destruct (deliver s (all_sends pls) _) eqn:E; inv H. apply no_sp_outcomes. eapply deliver_xo; eauto.
  - destruct (process_resps s pls rs) as [[s2 o2] f2] eqn:E. apply process_resps_xo in E as [_ E'].
    destruct f2; [inv H; apply no_sp_outcomes; auto|].
    destruct (check_retry c s2 pls _) as [[s3 o3] d3] eqn:E3. inv H.
    apply no_sp_app; [apply no_sp_outcomes; auto|eapply check_retry_sp; eauto].
  - destruct (if c_acks c =? 0 then _ else _) as [s0 o0] eqn:E0.
    assert (A0 : only_outcomes o0).
    { destruct (c_acks c =? 0); [apply deliver_xo in E0 as [_ E']; auto|inv E0; auto with prod]. }
    destruct (process_resps s0 pls rs) as [[s2 o2] f2] eqn:E. apply process_resps_xo in E as [_ E'].
    destruct (check_retry c s2 pls _) as [[s3 o3] d3] eqn:E3. inv H.
    apply no_sp_app; [apply no_sp_outcomes; auto|]. apply no_sp_app; [apply no_sp_outcomes; auto|eapply check_retry_sp; eauto].
  - eapply check_retry_sp; eauto.
  - destruct (deliver s (all_sends pls) _) eqn:E; inv H. apply no_sp_outcomes. eapply deliver_xo; eauto.
Qed.

Lemma core_batch_sp : forall c s e s1 o1 ep, batch_event e = true -> core c s e = (s1, o1, ep) ->
  no_sp o1 \/ (ep = NoEpi /\ sp_ok s1 o1).
Proof.
  intros c s e s1 o1 ep BE H. destruct e; try discriminate; cbn [core] in H.
  - destruct (ph s) eqn:P; try (inv H; left; apply no_sp_nil; fail).
    destruct (map_lookups _ s reqs ls) as [[s2 o2] ls2] eqn:E.
    apply map_lookups_xl in E as (_ & A2 & _).
    2:{ intros st x l st' o' l' Hf. destruct l; try discriminate. destruct (lid0 =? lid); [|discriminate].
        inv Hf. destruct ok; [eapply lookup_loaded_xl; eauto|inv H1; xl_done]. }
    destruct (lookups_progress s2 reqs ls2) as [[s3 o3] d3] eqn:E3. unfold fin_if in H. inv H.
    apply lookups_progress_sp in E3 as [X|[-> X]]; [left; apply no_sp_app; auto; apply no_sp_lk; auto|].
    right; split; auto. apply sp_ok_app_l; auto. apply no_sp_lk; auto.
  - destruct (ph s) eqn:P; try (inv H; left; apply no_sp_nil; fail).
    + destruct (map_lookups _ s reqs ls) as [[s2 o2] ls2] eqn:E.
      apply map_lookups_xl in E as (_ & A2 & _).
      2:{ intros st x l st' o' l' Hf. destruct l; try discriminate. destruct (tid0 =? tid); [|discriminate].
          inv Hf. eapply lookup_head_xl; eauto. }
      destruct (lookups_progress s2 reqs ls2) as [[s3 o3] d3] eqn:E3. unfold fin_if in H. inv H.
      apply lookups_progress_sp in E3 as [X|[-> X]]; [left; apply no_sp_app; auto; apply no_sp_lk; auto|].
      right; split; auto. apply sp_ok_app_l; auto. apply no_sp_lk; auto.
    + destruct (tid0 =? tid); [|inv H; left; apply no_sp_nil]. destruct (broken s); inv H; [left; apply no_sp_nil|].
      right; split; auto.
      right. exists [], (nsp s + 1), (magic_of s), pls, cur. split; [reflexivity|]. split; [apply no_sp_nil|]. split; reflexivity.
  - destruct (ph s) eqn:P; try (inv H; left; apply no_sp_nil; fail).
    destruct (r =? 0); [|destruct (r =? 1)].
    + destruct (send_requests _ reqs res) as [[s2 o2] d2] eqn:E. unfold fin_if in H. inv H.
      apply send_requests_sp in E as [X|[-> X]]; auto.
    + destruct (send_requests _ reqs res) as [[s2 o2] d2] eqn:E. unfold fin_if in H. inv H.
      apply send_requests_sp in E as [X|[-> X]]; auto.
    + unfold version_failed in H. destruct (deliver s reqs _) eqn:E. unfold fin_if in H. inv H.
      left. apply no_sp_outcomes. eapply deliver_xo; eauto.
  - destruct (ph s) eqn:P; try (inv H; left; apply no_sp_nil; fail).
    destruct (result_ok c cur v); [|inv H; left; apply no_sp_nil].
    destruct (handle_result c s pls cur v) as [[s2 o2] d2] eqn:E. unfold fin_if in H. inv H.
    left. eapply handle_result_sp; eauto.
  - destruct (ph s) eqn:P; try (inv H; left; apply no_sp_nil; fail).
    destruct (omit_ok c cur v); [|inv H; left; apply no_sp_nil].
    destruct (handle_result c s pls cur v) as [[s2 o2] d2] eqn:E. unfold fin_if in H. inv H.
    left. eapply handle_result_sp; eauto.
Qed.

Lemma dispatch_sp : forall c s s' o, dispatch c s = (s', o) -> sp_ok s' o.
Proof.
  unfold dispatch; intros c s s' o H.
  destruct (map_lookups _ _ (queue s) _) as [[s1 o1] ls] eqn:E1.
  apply map_lookups_xl in E1 as (_ & A2 & _);
    [|intros st x l st' o' l' Hf; inv Hf; eapply lookup_head_xl; eauto].
  destruct (lookups_progress s1 (queue s) ls) as [[s2 o2] done] eqn:E2.
  assert (N1 : no_sp (ODispatch (map s_id (queue s)) :: o1)).
  { intros a m v [X|X]; [discriminate|]. eapply no_sp_lk; eauto. }
  apply lookups_progress_sp in E2 as [X|[-> X]].
  - apply no_sp_ok. destruct done; [unfold finish0 in H|]; inv H.
    + replace (ODispatch (map s_id (queue s)) :: o1 ++ o2 ++ [OBatchDone]) with ((ODispatch (map s_id (queue s)) :: o1) ++ o2 ++ [OBatchDone]) by reflexivity.
      apply no_sp_app; auto. apply no_sp_app; auto. intros a m v [Y|[]]; discriminate.
    + replace (ODispatch (map s_id (queue s)) :: o1 ++ o2) with ((ODispatch (map s_id (queue s)) :: o1) ++ o2) by reflexivity.
      apply no_sp_app; auto.
  - inv H. replace (ODispatch (map s_id (queue s)) :: o1 ++ o2) with ((ODispatch (map s_id (queue s)) :: o1) ++ o2) by reflexivity.
    apply sp_ok_app_l; auto.
Qed.

Lemma epi_sp : forall c s1 ep s2 o2, apply_epi c s1 ep = (s2, o2) -> sp_ok s2 o2.
Proof.
  intros c s1 ep s2 o2 A.
  assert (T : forall s s' o, try_send_batch c s = (s', o) -> sp_ok s' o).
  { intros s s' o H. apply try_send_batch_spec in H as [[_ D]|(_ & -> & ->)]; [eapply dispatch_sp; eauto|apply no_sp_ok, no_sp_nil]. }
  assert (Ck : forall s s' o, check_send_batch c s = (s', o) -> sp_ok s' o).
  { unfold check_send_batch; intros s s' o H. destruct (threshold c s); [eauto|inv H; apply no_sp_ok, no_sp_nil]. }
  destruct ep; simpl in A; eauto.
  - inv A. apply no_sp_ok, no_sp_nil.
  - unfold finish, finish0 in A. destruct (check_send_batch c _) as [s4 o4] eqn:E. inv A.
    apply Ck in E. change (OBatchDone :: o4) with ([OBatchDone] ++ o4). apply sp_ok_app_l; auto.
    intros a m v [Y|[]]; discriminate.
Qed.

Theorem step_sp : forall c s e s' out, step c s e = (s', out) -> sp_ok s' out.
Proof.
  intros c s e s' out H.
  assert (NS : (forall cv, e <> EStop cv) -> exists s1 o1 ep o2, core c s e = (s1, o1, ep) /\ apply_epi c s1 ep = (s', o2) /\ out = o1 ++ o2)
    by (intros; eapply step_nonstop; eauto).
  assert (BE : batch_event e = true -> sp_ok s' out).
  { intros B. destruct (NS ltac:(intros ? ->; discriminate)) as (s1 & o1 & ep & o2 & C & A & ->).
    apply core_batch_sp in C as [X|[-> X]]; auto.
    - apply sp_ok_app_l; auto. eapply epi_sp; eauto.
    - simpl in A. inv A. rewrite app_nil_r. auto. }
  assert (Q : forall s1 o1 ep o2, no_sp o1 -> apply_epi c s1 ep = (s', o2) -> out = o1 ++ o2 -> sp_ok s' out).
  { intros s1 o1 ep o2 N A ->. apply sp_ok_app_l; auto. eapply epi_sp; eauto. }
  destruct e; try (apply BE; reflexivity).
  - destruct (NS ltac:(intros ? X; discriminate X)) as (s1 & o1 & ep & o2 & C & A & E). cbn [core] in C.
    eapply Q; eauto. destruct ((cnt <? 1) || (bytes <? 0)); [|destruct (stopping s)]; inv C;
      [intros a m v [X|[]]; discriminate|intros a m v [X|[]]; discriminate|apply no_sp_nil].
  - destruct (NS ltac:(intros ? X; discriminate X)) as (s1 & o1 & ep & o2 & C & A & E). cbn [core] in C.
    eapply Q; eauto. inv C. intros a m v [X|[]]; discriminate.
  - destruct (NS ltac:(intros ? X; discriminate X)) as (s1 & o1 & ep & o2 & C & A & E). cbn [core] in C.
    eapply Q; eauto. destruct (cancel_send s sid) as [s2 o3] eqn:Ec. inv C. apply no_sp_outcomes.
    apply cancel_send_spec in Ec as (OO & _). auto.
  - destruct (NS ltac:(intros ? X; discriminate X)) as (s1 & o1 & ep & o2 & C & A & E). cbn [core] in C.
    eapply Q; eauto. inv C. apply no_sp_nil.
  - destruct (NS ltac:(intros ? X; discriminate X)) as (s1 & o1 & ep & o2 & C & A & E). cbn [core] in C.
    eapply Q; eauto. inv C. apply no_sp_nil.
  - destruct (NS ltac:(intros ? X; discriminate X)) as (s1 & o1 & ep & o2 & C & A & E). cbn [core] in C.
    eapply Q; eauto. inv C. apply no_sp_nil.
  - destruct (NS ltac:(intros ? X; discriminate X)) as (s1 & o1 & ep & o2 & C & A & E). cbn [core] in C.
    eapply Q; eauto. inv C. apply no_sp_nil.
  - (* stop: nothing is sent at all *)
    apply no_sp_ok. intros a m v X.
    unfold step in H. set (s0 := set_flags s true (looper s)) in *.
    destruct (cancel_batch c s0 cv) as [[s1 o1] done] eqn:E.
    assert (N1 : no_sp o1).
    { unfold cancel_batch in E. destruct (ph s0) eqn:P.
      - inv E. apply no_sp_nil.
      - destruct (map_lookups _ s0 reqs ls) as [[s2 o2] ls2] eqn:E1.
        pose proof E1 as E1'. apply map_lookups_xl in E1' as (A1 & A2 & _).
        2:{ intros st x l st' o' l' Hf. destruct l; [discriminate| |].
            - inv Hf. eapply lookup_loaded_xl; eauto.
            - inv Hf. xl_done. }
        assert (St2 : stopping s2 = true) by (apply eq_xl_keeps in A1; destruct A1; simpl in *; congruence).
        unfold lookups_progress in E. destruct (all_done ls2).
        + rewrite send_requests_stopping in E; auto. inv E. rewrite app_nil_r. apply no_sp_lk; auto.
        + inv E. rewrite app_nil_r. apply no_sp_lk; auto.
      - unfold version_failed in E. destruct (deliver s0 reqs _) eqn:D; inv E. apply no_sp_outcomes. eapply deliver_xo; eauto.
      - eapply handle_result_sp; eauto.
      - destruct (deliver s0 (all_sends pls) _) eqn:D; inv E. intros a' m' v' [Y|Y]; [discriminate|].
        eapply no_sp_outcomes; [eapply deliver_xo; eauto|exact Y]. }
    assert (K : stopping s1 = true).
    { apply cancel_batch_ok in E. destruct E as [[_ _ _ K _ _ _] _ _]. rewrite K. reflexivity. }
    unfold fin_if in H. destruct (apply_epi c s1 (if done then Fin else NoEpi)) as [s2 o2] eqn:A.
    assert (N2 : no_sp o2).
    { destruct done; simpl in A; [|inv A; apply no_sp_nil].
      unfold finish, finish0 in A. destruct (stopping_no_dispatch c (set_retry (set_ph s1 Idle) 0 0 0) K) as [_ C]. rewrite C in A.
      inv A. intros a' m' v' [Y|[]]; discriminate. }
    destruct (cancel_all _ _) as [s4 o4] eqn:E4. inv H.
    apply cancel_all_spec in E4 as (OO & _).
    apply in_app_or in X as [X|X]; [eapply N1; eauto|]. apply in_app_or in X as [X|X]; [eapply N2; eauto|].
    eapply no_sp_outcomes; eauto.
Qed.

(* ------------------------------------------------------------------ each message in exactly one payload per attempt *)
Lemma sp_ok_in : forall s' out a m v, sp_ok s' out -> In (OSendProduce a m v) out ->
  exists pls cur pre, ph s' = Sending pls cur /\ v = viewf pls cur /\ a = nsp s' /\ out = pre ++ [OSendProduce a m v] /\ no_sp pre.
Proof.
  intros s' out a m v [N|(pre & x & mg & pls & cur & -> & N & P & E)] H; [exfalso; eapply N; eauto|].
  apply in_app_or in H as [H|[H|[]]]; [exfalso; eapply N; eauto|]. inv H. exists pls, cur, pre. auto.
Qed.

Lemma view_fst : forall l, map fst (map payload_view l) = map p_tp l.
Proof. intros l. rewrite map_map. reflexivity. Qed.

Lemma view_msgs : forall l, flat_map snd (map payload_view l) = flat_map msgs_of (all_sends l).
Proof.
  induction l as [|p r IH]; simpl; auto. rewrite IH. unfold all_sends. simpl. rewrite flat_map_app. reflexivity.
Qed.

Lemma nodup_app_intro : forall {A} (a b : list A), NoDup a -> NoDup b -> (forall x, In x a -> ~ In x b) -> NoDup (a ++ b).
Proof.
  induction a as [|x r IH]; simpl; intros b Na Nb D; auto. inversion Na; subst. constructor.
  - intros X. apply in_app_or in X as [X|X]; auto. eapply D; eauto.
  - apply IH; auto.
Qed.

Lemma msgs_of_nodup : forall x, NoDup (msgs_of x).
Proof.
  intros x. unfold msgs_of. apply FinFun.Injective_map_NoDup; [|apply seq_NoDup].
  intros i j H. inv H. apply Nat2Z.inj; auto.
Qed.

Lemma msgs_nodup : forall L, NoDup (ids L) -> NoDup (flat_map msgs_of L).
Proof.
  induction L as [|x r IH]; simpl; intros N; [constructor|]. inversion N; subst.
  apply nodup_app_intro; auto; [apply msgs_of_nodup|].
  intros m Hm X. apply in_flat_map in X as (y & Hy & Hm'). apply msgs_of_fst in Hm. apply msgs_of_fst in Hm'.
  apply H1. rewrite <- Hm, Hm'. apply in_map; auto.
Qed.

Lemma filter_tps_nodup : forall f pls, NoDup (map p_tp pls) -> NoDup (map p_tp (filter f pls)).
Proof.
  induction pls as [|p r IH]; simpl; intros N; auto. inversion N; subst. destruct (f p); simpl; auto.
  constructor; auto. intros X. apply H1. apply in_map_iff in X as (q & E & Hq). apply filter_In in Hq as [Hq _].
  rewrite <- E. apply in_map; auto.
Qed.

Lemma nodup_ids_filter : forall f pls, NoDup (ids (all_sends pls)) -> NoDup (ids (all_sends (filter f pls))).
Proof.
  induction pls as [|p r IH]; simpl; intros N; auto.
  unfold all_sends, ids in *. simpl in N. rewrite map_app in N.
  destruct (f p); simpl; [|apply IH; eapply nodup_app_r; eauto].
  rewrite map_app. apply nodup_app_intro; [eapply nodup_app_l; eauto|apply IH; eapply nodup_app_r; eauto|].
  intros i Hi X. eapply nodup_app_disj; eauto.
  apply in_map_iff in X as (y & <- & Hy). apply in_map. apply in_flat_map in Hy as (q & Hq & Hy).
  apply filter_In in Hq as [Hq _]. apply in_flat_map; eauto.
Qed.

Theorem one_payload : forall c s e s' out a m v, Inv s -> PInv c s -> step c s e = (s', out) ->
  In (OSendProduce a m v) out ->
  NoDup (map fst v) /\ NoDup (flat_map snd v) /\
  (exists pl, v = map payload_view pl /\ Forall (fun p => sorted_lt (ids (p_sends p))) pl) /\
  (exists pre, out = pre ++ [OSendProduce a m v] /\ no_sp pre).
Proof.
  intros c s e s' out a m v I P H X.
  destruct (sp_ok_in _ _ _ _ _ (step_sp _ _ _ _ _ H) X) as (pls & cur & pre & Ph & -> & -> & E & N).
  destruct (step_c09 _ _ _ _ _ I P H) as [[_ P'] _]. rewrite Ph in P'. destruct P' as ([W1 W2] & _).
  pose proof (inv_of_step _ _ _ _ _ I H) as [[IB' _ _ _] _]. pose proof (i_bnodup _ _ IB') as D. rewrite Ph in D. simpl in D.
  unfold viewf. rewrite view_fst, view_msgs. repeat split.
  - apply filter_tps_nodup; auto.
  - apply msgs_nodup, nodup_ids_filter; auto.
  - eexists; split; [reflexivity|]. clear - W2. induction pls as [|p r IH]; simpl; [constructor|].
    inversion W2; subst. destruct (tpmem (p_tp p) cur); auto.
  - exists pre; auto.
Qed.

(* ------------------------------------------------------------------ per-partition order *)
(* the sends that have not yet been in a first attempt: the batch whose partitions are being looked up, then the queue *)
Definition pend (s : state) : list Z :=
  match ph s with Looking reqs _ | VerWait reqs _ => ids reqs | _ => [] end ++ ids (queue s).
Definition low (s : state) : Z := hd (nsend s) (pend s).

Lemma sorted_lt_app : forall a b, sorted_lt a -> sorted_lt b -> (forall x y, In x a -> In y b -> x < y) -> sorted_lt (a ++ b).
Proof.
  induction a as [|x r IH]; simpl; intros b Sa Sb D; auto. inversion Sa; subst. constructor.
  - apply IH; auto.
  - apply Forall_app; split; auto. apply Forall_forall. intros y Hy. apply D; auto.
Qed.

Lemma pend_pool : forall s, incl (pend s) (pool s).
Proof. unfold pend, pool; intros s. destruct (ph s); simpl; try apply incl_refl; apply incl_appr, incl_refl. Qed.

Lemma pend_sorted : forall c s, Inv s -> PInv c s -> sorted_lt (pend s).
Proof.
  intros c s [[IB _ _ _] _] [_ P]. pose proof (i_qsorted _ _ IB) as Q. pose proof (i_blt _ _ IB) as B.
  unfold pend. destruct (ph s); simpl in *; auto; destruct P as [_ S]; apply sorted_lt_app; auto.
Qed.

Lemma pend_bound : forall s, Inv s -> Forall (fun i => 0 <= i < nsend s) (pend s).
Proof.
  intros s [[IB _ _ _] _]. pose proof (i_qbound _ _ IB) as Q. pose proof (i_bbound _ _ IB) as B.
  unfold pend. destruct (ph s); simpl in *; auto; apply Forall_app; auto.
Qed.

Lemma low_min : forall c s, Inv s -> PInv c s -> low s <= nsend s /\ forall y, In y (pend s) -> low s <= y.
Proof.
  intros c s I P. pose proof (pend_sorted _ _ I P) as S. pose proof (pend_bound _ I) as B. unfold low.
  destruct (pend s) as [|x r]; simpl; [split; [lia|intros ? []]|].
  inversion S; subst. inversion B; subst. split; [lia|]. intros y [<-|Hy]; [lia|]. rewrite Forall_forall in H2. apply H2 in Hy. lia.
Qed.

Lemma mon_a_mono : forall c o m m', mon_run c m o = Some m' -> no_ghost o ->
  m_a m <= m_a m' /\ forall a mg v, In (OSendProduce a mg v) o -> m_a m + 1 <= a.
Proof.
  induction o as [|x r IH]; simpl; intros m m' H G; [inv H; split; [lia|intros ? ? ? []]|].
  inversion G; subst. destruct (mon_step c m x) as [m1|] eqn:E; [|discriminate].
  destruct (IH _ _ H H3) as [A B].
  assert (X : m_a m <= m_a m1 /\ forall a mg v, x = OSendProduce a mg v -> m_a m + 1 <= a).
  { destruct x; simpl in E, H2; try discriminate; try (destruct (m_fl m); inv E; split; [lia|discriminate]).
    - destruct (m_fl m); simpl in E; [|discriminate]. destruct (attempt =? m_a m + 1) eqn:E1; simpl in E; [|discriminate].
      destruct (attempt <=? Z.max 1 (c_max c)); inv E. apply Z.eqb_eq in E1. simpl. split; [lia|]. intros a mg v Y; inv Y; lia.
    - destruct (m_fl m && (k =? m_k m)); inv E; simpl; split; [lia|discriminate].
    - inv E; split; [lia|discriminate]. }
  destruct X as [X1 X2]. split; [lia|]. intros a mg v [Y|Y]; [eauto|]. apply B in Y. lia.
Qed.

Definition first_wire (out : list output) : list Z :=
  flat_map (fun o => match o with OSendProduce a _ v => if a =? 1 then map fst (flat_map snd v) else [] | _ => [] end) out.

Lemma first_wire_app : forall a b, first_wire (a ++ b) = first_wire a ++ first_wire b.
Proof. intros; unfold first_wire; apply flat_map_app. Qed.
Lemma first_wire_no_sp : forall o, no_sp o -> first_wire o = [].
Proof.
  induction o as [|x r IH]; simpl; intros N; auto. rewrite IH; [|intros a m v H; eapply N; right; eauto].
  destruct x; auto. exfalso. eapply N. left; reflexivity.
Qed.
Lemma first_wire_in : forall B out, wire_in B out -> incl (first_wire out) B.
Proof.
  intros B out W i Hi. unfold first_wire in Hi. apply in_flat_map in Hi as (o & Ho & Hi).
  destruct o; try destruct Hi. destruct (attempt =? 1); [|destruct Hi]. eapply (W _ Ho). exact Hi.
Qed.

Lemma pend_step : forall c s e s' out, Inv s -> PInv c s -> step c s e = (s', out) ->
  incl (pend s') (pend s ++ new_sids s e) /\ incl (first_wire out) (pend s ++ new_sids s e).
Proof.
  intros c s e s' out I P H. pose proof I as [W L]. pose proof W as [IB PW ID ST].
  assert (NS : (forall cv, e <> EStop cv) -> exists s1 o1 ep o2, core c s e = (s1, o1, ep) /\ apply_epi c s1 ep = (s', o2) /\ out = o1 ++ o2)
    by (intros; eapply step_nonstop; eauto).
  (* an epilogue that starts from a state s1 with pend s1 = ids (queue s1) prefix-free part *)
  assert (EP : forall s1 ep o2, WInv s1 -> apply_epi c s1 ep = (s', o2) ->
                 (incl (pend s') (ids (queue s1)) /\ incl (first_wire o2) (ids (queue s1))) \/ (s' = s1 /\ o2 = [])).
  { intros s1 ep o2 W1 A. apply epi_wire in A as [[X Y]|[-> ->]]; auto. left. split.
    - eapply incl_tran; [apply pend_pool|exact Y].
    - apply first_wire_in; auto. }
  assert (BE : batch_event e = true -> incl (pend s') (pend s ++ new_sids s e) /\ incl (first_wire out) (pend s ++ new_sids s e)).
  { intros B. destruct (NS ltac:(intros ? ->; discriminate)) as (s1 & o1 & ep & o2 & C & A & ->).
    assert (E0 : new_sids s e = []) by (destruct e; try discriminate; reflexivity). rewrite E0, app_nil_r.
    pose proof (core_batch_wire _ _ _ _ _ _ (i_onodup _ _ IB) B C) as WI.
    pose proof (core_batch_sp _ _ _ _ _ _ B C) as SP.
    pose proof C as C'. apply core_batch_rstep with (c := c) in C' as [(-> & -> & ->)|(NI & done & RS & ->)]; auto.
    { simpl in A. inv A. split; [apply incl_refl|intros ? []]. }
    apply core_batch in C as [(-> & -> & X)|(_ & done' & BS & X)]; auto;
      try apply (i_onodup _ _ IB); try apply (i_bnodup _ _ IB).
    { destruct done; [discriminate|]. simpl in A. inv A. split; [apply incl_refl|intros ? []]. }
    assert (done' = done) by (destruct done, done'; auto; discriminate). subst done'. clear X.
    pose proof (bs_keeps _ _ _ _ _ BS) as [K1 _ _ _ _ _ _]. pose proof (bs_ng _ _ _ _ _ BS) as NG.
    destruct RS as [M Pp].
    (* first attempts among o1 come from the lookups of this batch *)
    assert (F1 : incl (first_wire o1) (pend s)).
    { destruct (ph s) eqn:Ph; try congruence.
      - apply first_wire_in. eapply wire_in_mono; [|exact WI]. unfold pend. rewrite Ph. simpl. apply incl_appl, incl_refl.
      - apply first_wire_in. eapply wire_in_mono; [|exact WI]. unfold pend. rewrite Ph. simpl. apply incl_appl, incl_refl.
      - destruct P as [_ P]. rewrite Ph in P. destruct P as (_ & _ & _ & [Pn _] & _).
        destruct (mon_a_mono _ _ _ _ M NG) as [_ Bm]. intros i Hi. exfalso.
        unfold first_wire in Hi. apply in_flat_map in Hi as (o & Ho & Hi). destruct o; try destruct Hi.
        destruct (attempt =? 1) eqn:E1; [|destruct Hi]. apply Z.eqb_eq in E1. apply Bm in Ho. simpl in Ho. lia.
      - destruct P as [_ P]. rewrite Ph in P. destruct P as (_ & _ & _ & [Pn _] & _).
        destruct (mon_a_mono _ _ _ _ M NG) as [_ Bm]. intros i Hi. exfalso.
        unfold first_wire in Hi. apply in_flat_map in Hi as (o & Ho & Hi). destruct o; try destruct Hi.
        destruct (attempt =? 1) eqn:E1; [|destruct Hi]. apply Z.eqb_eq in E1. apply Bm in Ho. simpl in Ho. lia. }
    destruct done; simpl in A.
    - pose proof (invB_bstep _ _ _ _ _ [] IB BS (incl_nil_l _) (NoDup_nil _)) as I2.
      unfold finish in A. destruct (finish0 s1) as [s3 o3] eqn:F. destruct (check_send_batch c s3) as [s4 o4] eqn:E. inv A.
      destruct (finish0_inv _ _ _ _ I2 F) as (W3 & -> & [J1 _ _ _ _ _ _] & _ & P3).
      assert (Q : incl (ids (queue s3)) (pend s)) by (rewrite J1, K1; unfold pend; apply incl_appr, incl_refl).
      destruct (EP s3 Check o4 W3 E) as [[X Y]|[-> ->]].
      + split; [eapply incl_tran; eauto|]. rewrite !first_wire_app. simpl. apply incl_app; auto. eapply incl_tran; eauto.
      + split; [unfold pend; rewrite P3; simpl; exact Q|]. rewrite !first_wire_app. simpl. rewrite app_nil_r. exact F1.
    - inv A. rewrite app_nil_r. split; auto.
      destruct (bs_ph _ _ _ _ _ BS eq_refl) as (P1 & P2 & _).
      destruct (mon_a_mono _ _ _ _ M NG) as [Am _]. simpl in Am.
      specialize (Pp eq_refl). destruct Pp as [_ Pp].
      unfold pend. rewrite K1. apply incl_app; [|apply incl_appr, incl_refl].
      destruct (ph s') eqn:Ph'; try (intros ? []); simpl in P2; destruct Pp as [N0 _];
        (destruct (ph s) eqn:Ph; try congruence;
          [apply incl_appl, ids_incl; exact P2|apply incl_appl, ids_incl; exact P2| |]);
        destruct P as [_ P]; rewrite Ph in P; destruct P as (_ & _ & _ & [Pn _] & _); lia. }
  destruct e; try (apply BE; reflexivity).
  - destruct (NS ltac:(intros ? X; discriminate X)) as (s1 & o1 & ep & o2 & C & A & ->). cbn [core] in C.
    destruct ((cnt <? 1) || (bytes <? 0)) eqn:G; [|destruct (stopping_dec s) as [SG|SG]; rewrite SG in C].
    + inv C. simpl in A. inv A. split; [apply incl_appl; unfold pend; simpl; apply incl_refl|intros ? []].
    + inv C. simpl in A. inv A. split; [apply incl_appl; unfold pend; simpl; apply incl_refl|intros ? []].
    + apply orb_false_iff in G as [G1 G2]. apply Z.ltb_ge in G1, G2. inv C.
      match type of A with apply_epi _ ?st _ = _ => assert (W1 : WInv st) by (apply inv_send; auto) end.
      destruct (EP _ _ _ W1 A) as [[X Y]|[-> ->]]; simpl in *.
      * unfold ids in X, Y. rewrite map_app in X, Y. simpl in X, Y.
        assert (Q : incl (map s_id (queue s) ++ [nsend s]) (pend s ++ [nsend s])).
        { unfold pend, ids. rewrite <- app_assoc. apply incl_appr, incl_refl. }
        split; eapply incl_tran; eauto.
      * split; [|intros ? []]. unfold pend, ids. simpl. rewrite map_app. simpl. rewrite app_assoc. apply incl_refl.
  - destruct (NS ltac:(intros ? X; discriminate X)) as (s1 & o1 & ep & o2 & C & A & ->). cbn [core] in C.
    inv C. simpl in A. inv A. split; [apply incl_appl; unfold pend; simpl; apply incl_refl|intros ? []].
  - destruct (NS ltac:(intros ? X; discriminate X)) as (s1 & o1 & ep & o2 & C & A & ->). cbn [core] in C.
    destruct (cancel_send s sid) as [s2 o3] eqn:Ec. inv C. simpl in A. inv A. simpl. rewrite !app_nil_r.
    apply cancel_send_spec in Ec as (OO & Ph & _ & _ & _ & _ & _ & _ & _ & _ & _ & _ & [(-> & -> & _)|(_ & _ & [(Q & _)|(x & Rm & _)])]).
    + split; [apply incl_refl|intros ? []].
    + split; [unfold pend; rewrite Ph, Q; apply incl_refl|rewrite first_wire_no_sp; [intros ? []|apply no_sp_outcomes; auto]].
    + split; [|rewrite first_wire_no_sp; [intros ? []|apply no_sp_outcomes; auto]].
      apply remove_send_spec in Rm as (a & b & Qa & Qb & _).
      unfold pend. rewrite Ph, Qa, Qb. apply incl_app; [apply incl_appl, incl_refl|apply incl_appr, ids_incl].
      intros z Hz. apply in_app_or in Hz as [Hz|Hz]; apply in_or_app; [left|right; right]; auto.
  - destruct (NS ltac:(intros ? X; discriminate X)) as (s1 & o1 & ep & o2 & C & A & ->). cbn [core] in C.
    inv C. simpl. rewrite app_nil_r. destruct (EP _ _ _ W A) as [[X Y]|[-> ->]].
    + assert (Q : incl (ids (queue s1)) (pend s1)) by (unfold pend; apply incl_appr, incl_refl).
      split; eapply incl_tran; eauto.
    + split; [apply incl_refl|intros ? []].
  - destruct (NS ltac:(intros ? X; discriminate X)) as (s1 & o1 & ep & o2 & C & A & ->). cbn [core] in C.
    inv C. simpl in A. inv A. simpl. rewrite app_nil_r. split; [apply incl_refl|intros ? []].
  - destruct (NS ltac:(intros ? X; discriminate X)) as (s1 & o1 & ep & o2 & C & A & ->). cbn [core] in C.
    inv C. simpl in A. inv A. simpl. rewrite app_nil_r. split; [apply incl_refl|intros ? []].
  - destruct (NS ltac:(intros ? X; discriminate X)) as (s1 & o1 & ep & o2 & C & A & ->). cbn [core] in C.
    inv C. simpl in A. inv A. simpl. rewrite app_nil_r. split; [apply incl_refl|intros ? []].
  - pose proof (step_sp _ _ _ _ _ H) as SP.
    apply stop_step_spec in H; auto. destruct H as [_ _ (_ & _ & Ph) (Q & _) F]. split.
    + unfold pend. rewrite Ph, Q. simpl. intros ? [].
    + intros i Hi. exfalso. unfold first_wire in Hi. apply in_flat_map in Hi as (o & Ho & Hi).
      rewrite Forall_forall in F. apply F in Ho. destruct o; simpl in Ho; try destruct Ho; destruct Hi.
Qed.

(* messages (send id, index) ordered by submission, then by position in the send *)
Definition lex_lt (a b : Z * Z) : Prop := fst a < fst b \/ (fst a = fst b /\ snd a < snd b).
(* the messages of first-attempt payloads for topic-partition x, in wire order *)
Definition msgs_for (x : tp) (v : list (tp * list (Z * Z))) : list (Z * Z) :=
  flat_map (fun pv => if tp_eqb (fst pv) x then snd pv else []) v.
Definition msgs_first (x : tp) (outs : list output) : list (Z * Z) :=
  flat_map (fun o => match o with OSendProduce a _ v => if a =? 1 then msgs_for x v else [] | _ => [] end) outs.

Lemma msgs_first_app : forall x a b, msgs_first x (a ++ b) = msgs_first x a ++ msgs_first x b.
Proof. intros; unfold msgs_first; apply flat_map_app. Qed.
Lemma msgs_first_no_sp : forall x o, no_sp o -> msgs_first x o = [].
Proof.
  induction o as [|y r IH]; simpl; intros N; auto. rewrite IH; [|intros a m v H; eapply N; right; eauto].
  destruct y; auto. exfalso. eapply N. left; reflexivity.
Qed.

Lemma msgs_for_fst : forall x v m, In m (msgs_for x v) -> In (fst m) (map fst (flat_map snd v)).
Proof.
  intros x v m H. unfold msgs_for in H. apply in_flat_map in H as (pv & Hpv & Hm).
  destruct (tp_eqb (fst pv) x); [|destruct Hm]. apply in_map. apply in_flat_map. eauto.
Qed.

Lemma msgs_first_wire : forall x out m, In m (msgs_first x out) -> In (fst m) (first_wire out).
Proof.
  intros x out m H. unfold msgs_first in H. apply in_flat_map in H as (o & Ho & Hm).
  unfold first_wire. apply in_flat_map. exists o. split; auto. destruct o; try destruct Hm.
  destruct (attempt =? 1); [|destruct Hm]. eapply msgs_for_fst; eauto.
Qed.

Lemma msgs_of_sorted : forall y, StronglySorted lex_lt (msgs_of y).
Proof.
  intros y. unfold msgs_of. generalize (Z.to_nat (s_cnt y)). intros n. generalize 0%nat.
  induction n as [|n IH]; simpl; intros k; constructor; auto.
  apply Forall_forall. intros m Hm. apply in_map_iff in Hm as (j & <- & Hj). apply in_seq in Hj.
  right; simpl; split; auto. lia.
Qed.

Lemma lex_sorted_app : forall a b, StronglySorted lex_lt a -> StronglySorted lex_lt b ->
  (forall p q, In p a -> In q b -> lex_lt p q) -> StronglySorted lex_lt (a ++ b).
Proof.
  induction a as [|p r IH]; simpl; intros b Sa Sb D; auto. inversion Sa; subst. constructor.
  - apply IH; auto.
  - apply Forall_app; split; auto. apply Forall_forall. intros q Hq. apply D; auto.
Qed.

Lemma msgs_sorted : forall L, sorted_lt (ids L) -> StronglySorted lex_lt (flat_map msgs_of L).
Proof.
  induction L as [|y r IH]; simpl; intros S; [constructor|]. inversion S; subst.
  apply lex_sorted_app; auto; [apply msgs_of_sorted|].
  intros p q Hp Hq. apply in_flat_map in Hq as (z & Hz & Hq). apply msgs_of_fst in Hp. apply msgs_of_fst in Hq.
  left. rewrite Hp, Hq. rewrite Forall_forall in H2. apply H2. apply in_map; auto.
Qed.

Lemma msgs_for_view : forall x l, NoDup (map p_tp l) -> Forall (fun p => sorted_lt (ids (p_sends p))) l ->
  StronglySorted lex_lt (msgs_for x (map payload_view l)).
Proof.
  induction l as [|p r IH]; simpl; intros N F; [constructor|]. inversion N; subst. inversion F; subst.
  unfold msgs_for in *. simpl. destruct (tp_eqb (p_tp p) x) eqn:E.
  - apply tp_eqb_eq in E. subst x.
    assert (Z0 : flat_map (fun pv : tp * list (Z * Z) => if tp_eqb (fst pv) (p_tp p) then snd pv else []) (map payload_view r) = []).
    { clear - H1. induction r as [|q r IH]; simpl; auto. simpl in H1.
      destruct (tp_eqb (p_tp q) (p_tp p)) eqn:E; [apply tp_eqb_eq in E; exfalso; apply H1; left; auto|].
      apply IH. intros X; apply H1; right; auto. }
    rewrite Z0, app_nil_r. apply msgs_sorted; auto.
  - simpl. apply IH; auto.
Qed.

Lemma filter_forall : forall {A} (P : A -> Prop) f l, Forall P l -> Forall P (filter f l).
Proof. induction l as [|x r IH]; simpl; intros F; auto. inversion F; subst. destruct (f x); auto. Qed.

(* one step: the first-attempt messages of x are sorted, lie between the two low-water marks, which only move up *)
Theorem order_step : forall c s e s' out x, Inv s -> PInv c s -> step c s e = (s', out) ->
  StronglySorted lex_lt (msgs_first x out) /\
  Forall (fun m => low s <= fst m < low s') (msgs_first x out) /\ low s <= low s'.
Proof.
  intros c s e s' out x I P H.
  pose proof (inv_of_step _ _ _ _ _ I H) as I'. destruct (step_c09 _ _ _ _ _ I P H) as [P' _].
  destruct (pend_step _ _ _ _ _ I P H) as [D A]. destruct (low_min _ _ I P) as [L1 L2]. destruct (low_min _ _ I' P') as [L1' L2'].
  destruct (step_inv _ _ _ _ _ I H) as [_ _ NS].
  assert (NW : forall i, In i (pend s ++ new_sids s e) -> low s <= i).
  { intros i Hi. apply in_app_or in Hi as [Hi|Hi]; auto. destruct e; simpl in Hi; try tauto; destruct Hi as [<-|[]]; lia. }
  assert (LM : low s <= low s').
  { unfold low at 2. destruct (pend s') as [|y r] eqn:Q; simpl; [lia|]. apply NW, D. left; reflexivity. }
  split; [|split; auto].
  - destruct (step_sp _ _ _ _ _ H) as [N|(pre & a & m & pls & cur & -> & N & Ph & Ea)].
    + rewrite msgs_first_no_sp; auto. constructor.
    + rewrite msgs_first_app, msgs_first_no_sp; auto. simpl. rewrite app_nil_r. destruct (a =? 1); [|constructor].
      destruct P' as [_ P']. rewrite Ph in P'. destruct P' as ([W1 W2] & _). unfold viewf.
      apply msgs_for_view; [apply filter_tps_nodup; auto|apply filter_forall; auto].
  - apply Forall_forall. intros m Hm. split.
    + apply NW, A. eapply msgs_first_wire; eauto.
    + (* below the new low-water mark: it is in the batch now on the wire *)
      destruct (step_sp _ _ _ _ _ H) as [N|(pre & a & mg & pls & cur & -> & N & Ph & Ea)].
      * rewrite msgs_first_no_sp in Hm; auto. destruct Hm.
      * rewrite msgs_first_app, msgs_first_no_sp in Hm; auto. simpl in Hm. rewrite app_nil_r in Hm.
        destruct (a =? 1); [|destruct Hm]. apply msgs_for_fst in Hm. unfold viewf in Hm. rewrite view_msgs in Hm.
        assert (Hb : In (fst m) (ids (batch_sends (ph s')))).
        { rewrite Ph. simpl. apply in_map_iff in Hm as (q & <- & Hq). apply in_flat_map in Hq as (y & Hy & Hq).
          rewrite (msgs_of_fst _ _ Hq). apply in_map. revert Hy. apply all_sends_filter_incl. }
        destruct I' as [[IB' _ _ _] _]. unfold low. destruct (pend s') as [|y r] eqn:Q; simpl.
        -- pose proof (i_bbound _ _ IB') as B. rewrite Forall_forall in B. apply B in Hb. unfold id_ok in Hb. lia.
        -- apply (i_blt _ _ IB'); auto. assert (Hy : In y (pend s')) by (rewrite Q; left; reflexivity).
           unfold pend in Hy. rewrite Ph in Hy. simpl in Hy. exact Hy.
Qed.

Theorem order_run : forall c evs s s' tr x, Inv s -> PInv c s -> run c s evs = (s', tr) ->
  StronglySorted lex_lt (msgs_first x (outs_of tr)) /\
  Forall (fun m => low s <= fst m < low s') (msgs_first x (outs_of tr)) /\ low s <= low s'.
Proof.
  induction evs as [|e r IH]; simpl; intros s s' tr x I P H.
  - inv H. simpl. repeat split; try constructor; lia.
  - destruct (step c s e) as [s1 o] eqn:E. destruct (run c s1 r) as [s2 t2] eqn:E2. inv H.
    destruct (order_step _ _ _ _ _ x I P E) as (S1 & F1 & M1).
    destruct (step_c09 _ _ _ _ _ I P E) as [P1 _].
    destruct (IH _ _ _ x (inv_of_step _ _ _ _ _ I E) P1 E2) as (S2 & F2 & M2).
    unfold outs_of in *. simpl. rewrite msgs_first_app. split; [|split; [|lia]].
    + apply lex_sorted_app; auto. intros p q Hp Hq. rewrite Forall_forall in F1, F2. apply F1 in Hp. apply F2 in Hq. left. lia.
    + apply Forall_app; split; eapply Forall_impl; try eassumption; simpl; intros; lia.
Qed.

Theorem order_from_init : forall c has_t api0 cache0 evs s tr x,
  run c (init_state has_t api0 cache0) evs = (s, tr) -> StronglySorted lex_lt (msgs_first x (outs_of tr)).
Proof.
  intros c h a ca evs s tr x H. eapply order_run in H; [|apply init_inv|apply init_pinv]. apply H.
Qed.

Theorem pinv_reachable : forall c s, reachable c s -> PInv c s.
Proof.
  intros c s (h & a & ca & evs & <-). destruct (run c _ evs) as [s' tr] eqn:E. simpl.
  eapply run_c09 in E; [|apply init_inv|apply init_pinv]. apply E.
Qed.
