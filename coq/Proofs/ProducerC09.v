(* C09: per-partition order, one payload per message per attempt, serial batches, retry discipline, attempt bound,
   back-off index - lemmas about Model/Producer.v. *)
From AV Require Import Base.Util Model.Producer Proofs.ProducerBase Proofs.ProducerInv.
From Coq Require Import Lia Permutation Sorted.

(* ------------------------------------------------------------------ topic-partitions *)
Lemma tp_eqb_eq : forall a b : tp, tp_eqb a b = true <-> a = b.
Proof.
  intros [a1 a2] [b1 b2]; unfold tp_eqb; simpl. rewrite andb_true_iff, !Z.eqb_eq. split; [intros [-> ->]; auto|intros H; inv H; auto].
Qed.
Lemma tp_eqb_refl : forall a, tp_eqb a a = true.
Proof. intros; apply tp_eqb_eq; reflexivity. Qed.
Lemma tp_eqb_sym : forall a b, tp_eqb a b = tp_eqb b a.
Proof. intros [a1 a2] [b1 b2]; unfold tp_eqb; simpl. rewrite (Z.eqb_sym a1), (Z.eqb_sym a2). reflexivity. Qed.
Lemma tpmem_In : forall x l, tpmem x l = true <-> In x l.
Proof.
  unfold tpmem; intros x l. rewrite existsb_exists. split.
  - intros (y & H & E). apply tp_eqb_eq in E; subst; auto.
  - intros H; exists x; split; auto. apply tp_eqb_refl.
Qed.
Lemma nodup_tp_NoDup : forall l, nodup_tp l = true -> NoDup l.
Proof.
  induction l as [|x r IH]; simpl; intros H; [constructor|]. apply andb_true_iff in H as [A B].
  constructor; auto. intros X. apply tpmem_In in X. rewrite X in A. discriminate.
Qed.
Lemma subset_tp_incl : forall a b, subset_tp a b = true -> incl a b.
Proof. unfold subset_tp; intros a b H x Hx. rewrite forallb_forall in H. apply tpmem_In; auto. Qed.

(* ------------------------------------------------------------------ well-formed payload lists *)
Definition pls_wf (pls : list payload) : Prop :=
  NoDup (map p_tp pls) /\ Forall (fun p => sorted_lt (ids (p_sends p))) pls.

Lemma add_to_payload_tps : forall pls x r,
  map p_tp (add_to_payload pls x r) = if tpmem x (map p_tp pls) then map p_tp pls else map p_tp pls ++ [x].
Proof.
  induction pls as [|p rest IH]; simpl; intros x r; [reflexivity|].
  unfold tpmem in *. simpl. rewrite (tp_eqb_sym x (p_tp p)). destruct (tp_eqb (p_tp p) x) eqn:E; simpl.
  - apply tp_eqb_eq in E. subst. reflexivity.
  - rewrite IH. destruct (existsb (tp_eqb x) (map p_tp rest)); reflexivity.
Qed.

Lemma add_to_payload_wf : forall pls x r, pls_wf pls -> Forall (fun i => i < s_id r) (ids (all_sends pls)) ->
  pls_wf (add_to_payload pls x r).
Proof.
  intros pls x r [N F] B. split.
  - rewrite add_to_payload_tps. destruct (tpmem x (map p_tp pls)) eqn:M; auto.
    apply Permutation_NoDup with (x :: map p_tp pls); [apply Permutation_cons_append|].
    constructor; auto. intros X. apply tpmem_In in X. congruence.
  - clear N. induction pls as [|p rest IH]; simpl.
    + repeat constructor.
    + inversion F; subst. unfold all_sends, ids in B. simpl in B. rewrite map_app in B. apply Forall_app in B as [B1 B2].
      destruct (tp_eqb (p_tp p) x).
      * constructor; auto. simpl. unfold ids. rewrite map_app. simpl. apply sorted_lt_app1; auto.
      * constructor; auto.
Qed.

Lemma group_requests_wf : forall reqs res s pls s' out pls',
  sorted_lt (ids reqs) -> pls_wf pls ->
  (forall i j, In i (ids (all_sends pls)) -> In j (ids reqs) -> i < j) ->
  group_requests s reqs res pls = (s', out, pls') -> pls_wf pls'.
Proof.
  induction reqs as [|x r IH]; cbn [group_requests]; intros res s pls s' out pls' S W B H.
  - inv H; auto.
  - destruct res as [|y res]; [inv H; auto|].
    inversion S as [|? ? S1 S2]; subst.
    assert (B' : forall i j, In i (ids (all_sends pls)) -> In j (ids r) -> i < j) by (intros; apply B; auto; right; auto).
    destruct (negb (zmem (s_id x) (outstanding s))); [eapply IH; eauto|].
    destruct y.
    + eapply IH; [exact S1| |  |exact H].
      * apply add_to_payload_wf; auto. apply Forall_forall. intros i Hi. apply B; auto. left; reflexivity.
      * intros i j Hi Hj. unfold ids in Hi. rewrite (Permutation_map s_id (add_to_payload_perm pls (s_topic x, p) x)) in Hi.
        destruct Hi as [<-|Hi]; [rewrite Forall_forall in S2; apply S2; auto|apply B'; auto].
    + destruct (deliver s [x] (OFail k 0)) as [s1 o1]. destruct (group_requests s1 r res pls) as [[s2 o2] pls2] eqn:E2. inv H.
      eapply IH; eauto.
Qed.

(* ------------------------------------------------------------------ the trace automaton:
   serial batches, consecutive back-off indices, consecutive and bounded produce attempts *)
Record mon := { m_fl : bool; m_k : Z; m_a : Z }.

Definition mon_step (c : cfg) (m : mon) (o : output) : option mon :=
  match o with
  | ODispatch _ => if m_fl m then None else Some {| m_fl := true; m_k := 0; m_a := 0 |}
  | OBatchDone => if m_fl m then Some {| m_fl := false; m_k := 0; m_a := 0 |} else None
  | OSched _ k _ => if m_fl m && (k =? m_k m) then Some {| m_fl := true; m_k := m_k m + 1; m_a := m_a m |} else None
  | OSendProduce a _ _ =>
      if m_fl m && (a =? m_a m + 1) && (a <=? Z.max 1 (c_max c)) then Some {| m_fl := true; m_k := m_k m; m_a := a |} else None
  | OLoadMeta _ _ | OGetVersion | OResetMeta _ | OCancelTimer _ => if m_fl m then Some m else None
  | OOutcome _ _ => Some m
  end.

Fixpoint mon_run (c : cfg) (m : mon) (outs : list output) : option mon :=
  match outs with
  | [] => Some m
  | o :: r => match mon_step c m o with Some m1 => mon_run c m1 r | None => None end
  end.

Lemma mon_run_app : forall c a b m, mon_run c m (a ++ b) = match mon_run c m a with Some m1 => mon_run c m1 b | None => None end.
Proof. induction a as [|o r IH]; simpl; intros b m; auto. destruct (mon_step c m o); auto. Qed.

Lemma mon_run_app_some : forall c a b m m1 m2, mon_run c m a = Some m1 -> mon_run c m1 b = Some m2 -> mon_run c m (a ++ b) = Some m2.
Proof. intros. rewrite mon_run_app, H. auto. Qed.

Lemma mon_outcomes : forall c o m, only_outcomes o -> mon_run c m o = Some m.
Proof.
  induction o as [|x r IH]; simpl; intros m H; auto. inversion H; subst. destruct x; try discriminate. simpl. auto.
Qed.

(* the automaton state that corresponds to a producer state with a batch in flight *)
Definition mfl (s : state) : mon := {| m_fl := true; m_k := didx s; m_a := nsp s |}.
Definition mon_of (s : state) : mon :=
  match ph s with Idle => {| m_fl := false; m_k := 0; m_a := 0 |} | _ => mfl s end.

Lemma mon_xo : forall c s s' o, eq_xo s s' -> only_outcomes o -> mon_run c (mfl s) o = Some (mfl s').
Proof.
  intros c s s' o X O. rewrite mon_outcomes; auto. apply eq_xo_fields in X as (_ & _ & _ & _ & _ & D & N & _).
  unfold mfl. rewrite D, N. reflexivity.
Qed.

Lemma lookup_head_mon : forall c s x s' o l, lookup_head c s x = (s', o, l) -> mon_run c (mfl s) o = Some (mfl s').
Proof.
  unfold lookup_head; intros c s x s' o l H. destruct (cache_get (cache s) (s_topic x)) as [err hp].
  destruct (err =? 0); [inv H; reflexivity|]. destruct (c_max c <=? attempts s); inv H; reflexivity.
Qed.

Lemma lookup_loaded_mon : forall c s x s' o l, lookup_loaded c s x = (s', o, l) -> mon_run c (mfl s) o = Some (mfl s').
Proof.
  unfold lookup_loaded; intros c s x s' o l H. destruct (stopping s); [inv H; reflexivity|].
  destruct (cache_get (cache s) (s_topic x)) as [err hp].
  destruct (err =? 0); inv H; [reflexivity|]. simpl. rewrite Z.eqb_refl. reflexivity.
Qed.

Lemma map_lookups_mon : forall c f,
  (forall st x l st' o l', f st x l = Some (st', o, l') -> mon_run c (mfl st) o = Some (mfl st')) ->
  forall reqs ls s s' o ls', map_lookups f s reqs ls = (s', o, ls') -> mon_run c (mfl s) o = Some (mfl s').
Proof.
  intros c f Hf; induction reqs as [|x r IH]; simpl; intros ls s s' o ls' H.
  - inv H; reflexivity.
  - destruct ls as [|l ls]; [inv H; reflexivity|].
    destruct (f s x l) as [[[s1 o1] l1]|] eqn:E.
    + destruct (map_lookups f s1 r ls) as [[s2 o2] ls2] eqn:E2. inv H.
      eapply mon_run_app_some; eauto.
    + destruct (map_lookups f s r ls) as [[s2 o2] ls2] eqn:E2. inv H. eauto.
Qed.

(* ------------------------------------------------------------------ the C09 invariant *)
Definition PInv (c : cfg) (s : state) : Prop :=
  0 <= attempts s /\
  match ph s with
  | Idle => True
  | Looking reqs _ | VerWait reqs _ => nsp s = 0 /\ sorted_lt (ids reqs)
  | Sending pls cur =>
      pls_wf pls /\ NoDup cur /\ incl cur (map p_tp pls) /\ 1 <= nsp s <= attempts s /\ (nsp s = 1 \/ attempts s <= c_max c)
  | RetryWait pls cur _ =>
      pls_wf pls /\ NoDup cur /\ incl cur (map p_tp pls) /\ 1 <= nsp s <= attempts s /\ attempts s < c_max c
  end.

Record rstep (c : cfg) (s s1 : state) (o1 : list output) (done : bool) : Prop := {
  rs_mon : mon_run c (mfl s) o1 = Some (mfl s1);
  rs_pinv : done = false -> PInv c s1 }.

Definition tps_of_fl (fl : list (tp * Z * bool)) : list tp := map (fun e => fst (fst e)) fl.

Lemma send_requests_rstep : forall c s reqs res s1 o1 done, 0 <= attempts s -> nsp s = 0 -> sorted_lt (ids reqs) ->
  send_requests s reqs res = (s1, o1, done) -> rstep c s s1 o1 done.
Proof.
  unfold send_requests; intros c s reqs res s1 o1 done A N S H.
  destruct (stopping s); [inv H; constructor; [reflexivity|discriminate]|].
  destruct (api s =? 0).
  { inv H; constructor; [reflexivity|]. intros _; split; simpl; auto. }
  destruct (group_requests s reqs res []) as [[s2 o2] pls] eqn:E.
  pose proof (group_requests_xo _ _ _ _ _ _ _ E) as [X1 X2].
  apply group_requests_wf in E; auto; [|split; constructor|intros ? ? []].
  pose proof (eq_xo_fields _ _ X1) as (_ & _ & _ & _ & F5 & F6 & F7 & _).
  destruct pls as [|p pls].
  - inv H; constructor; [apply mon_xo; auto|discriminate].
  - inv H; constructor.
    + eapply mon_run_app_some; [apply mon_xo; eauto|]. simpl. rewrite F7, N. simpl.
      replace (1 <=? Z.max 1 (c_max c)) with true by (symmetry; apply Z.leb_le; lia). reflexivity.
    + intros _; split; simpl; [lia|]. destruct E as [E1 E2]. repeat split; auto; try lia. apply incl_refl.
Qed.

Lemma lookups_progress_rstep : forall c s reqs ls s1 o1 done, 0 <= attempts s -> nsp s = 0 -> sorted_lt (ids reqs) ->
  lookups_progress s reqs ls = (s1, o1, done) -> rstep c s s1 o1 done.
Proof.
  unfold lookups_progress; intros c s reqs ls s1 o1 done A N S H. destruct (all_done ls).
  - eapply send_requests_rstep; eauto.
  - inv H; constructor; [reflexivity|]. intros _; split; simpl; auto.
Qed.

Lemma version_failed_rstep : forall c s reqs k s1 o1 done, version_failed s reqs k = (s1, o1, done) -> rstep c s s1 o1 done.
Proof.
  unfold version_failed; intros c s reqs k s1 o1 done H. destruct (deliver s reqs (OFail k 0)) as [s2 o2] eqn:E.
  apply deliver_xo in E as [E1 E2]. inv H; constructor; [apply mon_xo; auto|discriminate].
Qed.

Lemma check_retry_rstep : forall c s pls fl s1 o1 done,
  pls_wf pls -> NoDup (tps_of_fl fl) -> incl (tps_of_fl fl) (map p_tp pls) -> 1 <= nsp s <= attempts s ->
  check_retry c s pls fl = (s1, o1, done) -> rstep c s s1 o1 done.
Proof.
  unfold check_retry; intros c s pls fl s1 o1 done W N I A H.
  destruct ((c_max c <=? attempts s) || stopping s) eqn:G.
  - destruct (deliver_failed s pls fl) as [s2 o2] eqn:E. apply deliver_failed_xo in E as [E1 E2].
    inv H; constructor; [apply mon_xo; auto|discriminate].
  - apply orb_false_iff in G as [G _]. apply Z.leb_gt in G. inv H; constructor.
    + simpl. rewrite Z.eqb_refl. simpl. destruct (reset_topics fl); reflexivity.
    + intros _. unfold PInv. destruct W as [W1 W2]. destruct (reset_topics fl); simpl; (split; [lia|]); repeat split; auto; try lia.
Qed.

Lemma process_resps_fl : forall rs s pls s' out fl, process_resps s pls rs = (s', out, fl) ->
  incl (tps_of_fl fl) (map (fun e => fst (fst e)) rs) /\
  (NoDup (map (fun e : tp * Z * Z => fst (fst e)) rs) -> NoDup (tps_of_fl fl)).
Proof.
  induction rs as [|[[x err] off] r IH]; simpl; intros s pls s' out fl H.
  - inv H. split; [intros ? []|constructor].
  - destruct (err =? 0).
    + destruct (deliver s (sends_of pls x) _) as [s1 o1]. destruct (process_resps s1 pls r) as [[s2 o2] f2] eqn:E2. inv H.
      apply IH in E2 as [A B]. split; [apply incl_tl; auto|intros D; inversion D; auto].
    + destruct (process_resps s pls r) as [[s2 o2] f2] eqn:E2. inv H. apply IH in E2 as [A B]. simpl. split.
      * intros z [<-|Hz]; [left; reflexivity|right; auto].
      * intros D; inversion D; subst. constructor; auto.
Qed.

Lemma nodup_app_swap_sub : forall (r f r' : list tp), NoDup (r ++ f) -> NoDup r' -> incl r' r -> NoDup (f ++ r').
Proof.
  intros r f r' D N I. apply Permutation_NoDup with (r' ++ f); [apply Permutation_app_comm|].
  induction r' as [|x t IH]; simpl.
  - clear - D. induction r; simpl in *; auto. inversion D; auto.
  - inversion N; subst. constructor; [|apply IH; auto; intros z Hz; apply I; right; auto].
    intros X. apply in_app_or in X as [X|X]; auto.
    assert (In x r) by (apply I; left; reflexivity).
    clear - D H X. induction r; simpl in *; [tauto|]. inversion D; subst. destruct H as [->|H]; auto.
    apply H2. apply in_or_app; auto.
Qed.

Lemma handle_result_rstep : forall c s pls cur v s1 o1 done,
  pls_wf pls -> NoDup cur -> incl cur (map p_tp pls) -> 1 <= nsp s <= attempts s ->
  result_ok c cur v = true \/ (exists k, v = VOther k) ->
  handle_result c s pls cur v = (s1, o1, done) -> rstep c s s1 o1 done.
Proof.
  unfold handle_result; intros c s pls cur v s1 o1 done W N I A OK H. destruct v.
  - destruct (deliver s (all_sends pls) _) as [s2 o2] eqn:E. apply deliver_xo in E as [E1 E2].
    inv H; constructor; [apply mon_xo; auto|discriminate].
  - destruct OK as [OK|[k OK]]; [|discriminate]. simpl in OK.
    apply andb_true_iff in OK as [OK S2]. apply andb_true_iff in OK as [OK S1]. apply andb_true_iff in OK as [_ ND].
    apply nodup_tp_NoDup in ND. apply subset_tp_incl in S1.
    destruct (process_resps s pls rs) as [[s2 o2] f2] eqn:E. pose proof (process_resps_xo _ _ _ _ _ _ E) as [E1 E2].
    apply process_resps_fl in E as [F1 F2].
    pose proof (eq_xo_fields _ _ E1) as (_ & _ & _ & _ & F5 & F6 & F7 & _).
    destruct f2 as [|p0 f2].
    + inv H; constructor; [apply mon_xo; auto|discriminate].
    + destruct (check_retry c s2 pls (p0 :: f2)) as [[s3 o3] d3] eqn:E3. inv H.
      apply check_retry_rstep in E3; auto; try lia.
      * destruct E3 as [M P]. constructor; auto. eapply mon_run_app_some; [apply mon_xo; eauto|exact M].
      * eapply incl_tran; [exact F1|]. eapply incl_tran; [exact S1|exact I].
  - destruct OK as [OK|[k OK]]; [|discriminate]. simpl in OK.
    apply andb_true_iff in OK as [OK _]. apply andb_true_iff in OK as [OK S1]. apply andb_true_iff in OK as [_ ND].
    apply nodup_tp_NoDup in ND. apply subset_tp_incl in S1.
    destruct (if c_acks c =? 0 then _ else _) as [s0 o0] eqn:E0.
    assert (A0 : eq_xo s s0 /\ only_outcomes o0).
    { destruct (c_acks c =? 0); [eapply deliver_xo; eauto|inv E0; auto with prod]. }
    destruct A0 as [A1 A2].
    destruct (process_resps s0 pls rs) as [[s2 o2] f2] eqn:E. pose proof (process_resps_xo _ _ _ _ _ _ E) as [E1 E2].
    apply process_resps_fl in E as [F1 F2].
    pose proof (eq_xo_fields _ _ A1) as (_ & _ & _ & _ & G5 & G6 & G7 & _).
    pose proof (eq_xo_fields _ _ E1) as (_ & _ & _ & _ & F5 & F6 & F7 & _).
    destruct (check_retry c s2 pls _) as [[s3 o3] d3] eqn:E3. inv H.
    apply check_retry_rstep in E3; auto; try lia.
    + destruct E3 as [M P]. constructor; auto.
      eapply mon_run_app_some; [apply mon_xo; eauto|]. eapply mon_run_app_some; [apply mon_xo; eauto|exact M].
    + unfold tps_of_fl. rewrite map_app, map_map. simpl. fold (tps_of_fl f2).
      apply nodup_app_swap_sub with (r := map (fun e : tp * Z * Z => fst (fst e)) rs); auto.
      * apply F2. clear - ND.
        induction rs; simpl in *; [constructor|]. inversion ND; subst. constructor; auto.
        intros X; apply H1; apply in_or_app; auto.
    + unfold tps_of_fl. rewrite map_app, map_map. simpl. fold (tps_of_fl f2).
      apply incl_app; (eapply incl_tran; [|exact I]); (eapply incl_tran; [|exact S1]).
      * apply incl_appr, incl_refl.
      * eapply incl_tran; [exact F1|apply incl_appl, incl_refl].
  - eapply check_retry_rstep; eauto; unfold tps_of_fl; rewrite map_map; simpl; rewrite map_id; auto.
  - destruct (deliver s (all_sends pls) _) as [s2 o2] eqn:E. apply deliver_xo in E as [E1 E2].
    inv H; constructor; [apply mon_xo; auto|discriminate].
Qed.

(* ------------------------------------------------------------------ events on the batch in flight *)
Lemma lookup_head_att : forall c s x s' o l, lookup_head c s x = (s', o, l) -> attempts s <= attempts s' /\ nsp s' = nsp s.
Proof.
  unfold lookup_head; intros c s x s' o l H. destruct (cache_get (cache s) (s_topic x)) as [err hp].
  destruct (err =? 0); [inv H; simpl; lia|]. destruct (c_max c <=? attempts s); inv H; simpl; lia.
Qed.
Lemma lookup_loaded_att : forall c s x s' o l, lookup_loaded c s x = (s', o, l) -> attempts s <= attempts s' /\ nsp s' = nsp s.
Proof.
  unfold lookup_loaded; intros c s x s' o l H. destruct (stopping s); [inv H; simpl; lia|].
  destruct (cache_get (cache s) (s_topic x)) as [err hp]. destruct (err =? 0); inv H; simpl; lia.
Qed.
Lemma map_lookups_att : forall f,
  (forall st x l st' o l', f st x l = Some (st', o, l') -> attempts st <= attempts st' /\ nsp st' = nsp st) ->
  forall reqs ls s s' o ls', map_lookups f s reqs ls = (s', o, ls') -> attempts s <= attempts s' /\ nsp s' = nsp s.
Proof.
  intros f Hf; induction reqs as [|x r IH]; simpl; intros ls s s' o ls' H.
  - inv H; lia.
  - destruct ls as [|l ls]; [inv H; lia|].
    destruct (f s x l) as [[[s1 o1] l1]|] eqn:E.
    + destruct (map_lookups f s1 r ls) as [[s2 o2] ls2] eqn:E2. inv H. apply Hf in E. apply IH in E2. lia.
    + destruct (map_lookups f s r ls) as [[s2 o2] ls2] eqn:E2. inv H. eauto.
Qed.

Lemma rstep_seq : forall c s s1 o1 s2 o2 done, mon_run c (mfl s) o1 = Some (mfl s1) -> rstep c s1 s2 o2 done -> rstep c s s2 (o1 ++ o2) done.
Proof. intros c s s1 o1 s2 o2 done M [M2 P2]; constructor; auto. eapply mon_run_app_some; eauto. Qed.

Lemma core_batch_rstep : forall c s e s1 o1 ep, PInv c s -> batch_event e = true -> core c s e = (s1, o1, ep) ->
  (s1 = s /\ o1 = [] /\ ep = NoEpi) \/
  (ph s <> Idle /\ exists done, rstep c s s1 o1 done /\ ep = (if done then Fin else NoEpi)).
Proof.
  intros c s e s1 o1 ep [A P] BE H. destruct e; try discriminate; cbn [core] in H.
  - (* ELoadDone *)
    destruct (ph s) eqn:Ph; try (inv H; left; auto; fail). destruct P as [N S].
    destruct (map_lookups _ s reqs ls) as [[s2 o2] ls2] eqn:E.
    pose proof E as E'. apply map_lookups_att in E' as [T1 T2].
    2:{ intros st x l st' o' l' Hf. destruct l; try discriminate. destruct (lid0 =? lid); [|discriminate].
        inv Hf. destruct ok; [eapply lookup_loaded_att; eauto|inv H1; lia]. }
    apply map_lookups_mon with (c := c) in E.
    2:{ intros st x l st' o' l' Hf. destruct l; try discriminate. destruct (lid0 =? lid); [|discriminate].
        inv Hf. destruct ok; [eapply lookup_loaded_mon; eauto|inv H1; reflexivity]. }
    destruct (lookups_progress s2 reqs ls2) as [[s3 o3] d3] eqn:E3. unfold fin_if in H. inv H.
    right; split; [discriminate|]. exists d3; split; auto.
    eapply rstep_seq; [exact E|]. eapply lookups_progress_rstep; [| | |exact E3]; auto; lia.
  - (* ETimer *)
    destruct (ph s) eqn:Ph; try (inv H; left; auto; fail).
    + destruct P as [N S].
      destruct (map_lookups _ s reqs ls) as [[s2 o2] ls2] eqn:E.
      pose proof E as E'. apply map_lookups_att in E' as [T1 T2].
      2:{ intros st x l st' o' l' Hf. destruct l; try discriminate. destruct (tid0 =? tid); [|discriminate].
          inv Hf. eapply lookup_head_att; eauto. }
      apply map_lookups_mon with (c := c) in E.
      2:{ intros st x l st' o' l' Hf. destruct l; try discriminate. destruct (tid0 =? tid); [|discriminate].
          inv Hf. eapply lookup_head_mon; eauto. }
      destruct (lookups_progress s2 reqs ls2) as [[s3 o3] d3] eqn:E3. unfold fin_if in H. inv H.
      right; split; [discriminate|]. exists d3; split; auto.
      eapply rstep_seq; [exact E|]. eapply lookups_progress_rstep; [| | |exact E3]; auto; lia.
    + destruct (tid0 =? tid); [|inv H; left; auto]. inv H. destruct P as (W & N & I & B & C).
      right; split; [discriminate|]. exists false; split; auto. constructor.
      * simpl. rewrite Z.eqb_refl. simpl.
        replace (nsp s + 1 <=? Z.max 1 (c_max c)) with true by (symmetry; apply Z.leb_le; lia). reflexivity.
      * intros _. split; simpl; [lia|]. destruct W as [W1 W2]. repeat split; auto; try lia.
  - (* EVersion *)
    destruct (ph s) eqn:Ph; try (inv H; left; auto; fail). destruct P as [N S].
    destruct (r =? 0); [|destruct (r =? 1)].
    + destruct (send_requests _ reqs res) as [[s2 o2] d2] eqn:E. unfold fin_if in H. inv H.
      right; split; [discriminate|]. exists d2; split; auto.
      apply send_requests_rstep with (c := c) in E; auto. destruct E as [M Pp]; constructor; auto.
    + destruct (send_requests _ reqs res) as [[s2 o2] d2] eqn:E. unfold fin_if in H. inv H.
      right; split; [discriminate|]. exists d2; split; auto.
      apply send_requests_rstep with (c := c) in E; auto. destruct E as [M Pp]; constructor; auto.
    + destruct (version_failed s reqs r) as [[s2 o2] d2] eqn:E. unfold fin_if in H. inv H.
      right; split; [discriminate|]. exists d2; split; auto. eapply version_failed_rstep; eauto.
  - (* EResult *)
    destruct (ph s) eqn:Ph; try (inv H; left; auto; fail). destruct P as (W & N & I & B & C).
    destruct (result_ok c cur v) eqn:OK; [|inv H; left; auto].
    destruct (handle_result c s pls cur v) as [[s2 o2] d2] eqn:E. unfold fin_if in H. inv H.
    right; split; [discriminate|]. exists d2; split; auto.
    eapply handle_result_rstep; [exact W|exact N|exact I|exact B|left; exact OK|exact E].
Qed.

Lemma cancel_batch_mon : forall c s cv s1 o1 done, PInv c s -> ph s <> Idle ->
  cancel_batch c s cv = (s1, o1, done) -> mon_run c (mfl s) o1 = Some (mfl s1).
Proof.
  unfold cancel_batch; intros c s cv s1 o1 done [A P] NI H. destruct (ph s) eqn:Ph; [congruence| | | |].
  - destruct P as [N S].
    destruct (map_lookups _ s reqs ls) as [[s2 o2] ls2] eqn:E.
    pose proof E as E'. apply map_lookups_att in E' as [T1 T2].
    2:{ intros st x l st' o' l' Hf. destruct l; [discriminate| |].
        - inv Hf. eapply lookup_loaded_att; eauto.
        - inv Hf. lia. }
    apply map_lookups_mon with (c := c) in E.
    2:{ intros st x l st' o' l' Hf. destruct l; [discriminate| |].
        - inv Hf. eapply lookup_loaded_mon; eauto.
        - inv Hf. reflexivity. }
    destruct (lookups_progress s2 reqs ls2) as [[s3 o3] d3] eqn:E3. inv H.
    eapply mon_run_app_some; [exact E|]. eapply lookups_progress_rstep with (c := c) in E3; auto; try lia. apply E3.
  - apply version_failed_rstep with (c := c) in H. apply H.
  - destruct P as (W & N & I & B & C). eapply handle_result_rstep with (c := c) in H; eauto; [apply H|].
    destruct cv as [v|]; [destruct (result_ok c cur v) eqn:OK; [left; auto|right; eauto]|right; eauto].
  - destruct (deliver s (all_sends pls) _) as [s2 o2] eqn:E. apply deliver_xo in E as [E1 E2]. inv H.
    simpl. apply mon_xo; auto.
Qed.

(* ------------------------------------------------------------------ dispatch and the end of a batch *)
Definition m0 : mon := {| m_fl := false; m_k := 0; m_a := 0 |}.

Lemma dispatch_c09 : forall c s s' o, ph s = Idle -> attempts s = 0 -> didx s = 0 -> nsp s = 0 -> sorted_lt (ids (queue s)) ->
  dispatch c s = (s', o) -> mon_run c m0 o = Some (mon_of s') /\ PInv c s'.
Proof.
  unfold dispatch; intros c s s' o P A D N S H.
  set (s0 := set_queue s [] 0 0) in *.
  destruct (map_lookups _ s0 (queue s) _) as [[s1 o1] ls] eqn:E1.
  pose proof E1 as E'. apply map_lookups_att in E' as [T1 T2];
    [|intros st x l st' o' l' Hf; inv Hf; eapply lookup_head_att; eauto].
  apply map_lookups_mon with (c := c) in E1;
    [|intros st x l st' o' l' Hf; inv Hf; eapply lookup_head_mon; eauto].
  destruct (lookups_progress s1 (queue s) ls) as [[s2 o2] done] eqn:E2.
  pose proof E2 as E2'. apply lookups_progress_rstep with (c := c) in E2; auto; [|simpl in *; lia|simpl in *; lia].
  destruct E2 as [M2 P2].
  assert (M : mon_run c m0 (ODispatch (map s_id (queue s)) :: o1 ++ o2) = Some (mfl s2)).
  { simpl. replace {| m_fl := true; m_k := 0; m_a := 0 |} with (mfl s0) by (unfold mfl; simpl; rewrite D, N; reflexivity).
    eapply mon_run_app_some; eauto. }
  destruct done.
  - unfold finish0 in H. inv H. split.
    + replace (ODispatch (map s_id (queue s)) :: o1 ++ o2 ++ [OBatchDone]) with ((ODispatch (map s_id (queue s)) :: o1 ++ o2) ++ [OBatchDone])
        by (simpl; rewrite <- app_assoc; reflexivity).
      eapply mon_run_app_some; [exact M|]. reflexivity.
    + split; simpl; auto. lia.
  - inv H. split; [|auto]. rewrite M. unfold mon_of. apply lookups_progress_ph in E2'. destruct (ph s'); auto; congruence.
Qed.

Lemma try_c09 : forall c s s' o, ph s = Idle -> attempts s = 0 -> didx s = 0 -> nsp s = 0 -> sorted_lt (ids (queue s)) ->
  try_send_batch c s = (s', o) -> mon_run c m0 o = Some (mon_of s') /\ PInv c s'.
Proof.
  intros c s s' o P A D N S H. apply try_send_batch_spec in H as [[_ Dp]|(_ & -> & ->)].
  - eapply dispatch_c09; eauto.
  - split; [unfold mon_of; rewrite P; reflexivity|]. split; [lia|rewrite P; auto].
Qed.

Lemma check_c09 : forall c s s' o, ph s = Idle -> attempts s = 0 -> didx s = 0 -> nsp s = 0 -> sorted_lt (ids (queue s)) ->
  check_send_batch c s = (s', o) -> mon_run c m0 o = Some (mon_of s') /\ PInv c s'.
Proof.
  unfold check_send_batch; intros c s s' o P A D N S H. destruct (threshold c s); [eapply try_c09; eauto|].
  inv H. split; [unfold mon_of; rewrite P; reflexivity|]. split; [lia|rewrite P; auto].
Qed.

Lemma finish_c09 : forall c s1 s' o, sorted_lt (ids (queue s1)) -> finish c s1 = (s', o) ->
  mon_run c (mfl s1) o = Some (mon_of s') /\ PInv c s'.
Proof.
  unfold finish, finish0; intros c s1 s' o S H.
  destruct (check_send_batch c _) as [s2 o2] eqn:E. inv H.
  apply check_c09 in E; auto; try (simpl; exact E).
Qed.

Lemma PInv_same : forall c s s', ph s' = ph s -> attempts s' = attempts s -> nsp s' = nsp s -> PInv c s -> PInv c s'.
Proof. unfold PInv; intros c s s' E1 E2 E3 H. rewrite E1, E2, E3. exact H. Qed.
Lemma mon_of_same : forall s s', ph s' = ph s -> didx s' = didx s -> nsp s' = nsp s -> mon_of s' = mon_of s.
Proof. unfold mon_of, mfl; intros s s' E1 E2 E3. rewrite E1, E2, E3. reflexivity. Qed.

Lemma epi_c09 : forall c s1 ep s2 o2, WInv s1 -> PInv c s1 -> ep = Check \/ ep = Try ->
  apply_epi c s1 ep = (s2, o2) -> mon_run c (mon_of s1) o2 = Some (mon_of s2) /\ PInv c s2.
Proof.
  intros c s1 ep s2 o2 W P E A.
  destruct (phase_eq_idle (ph s1)) as [Pi|Pi].
  - destruct (i_idle _ W Pi) as (I1 & I2 & I3). pose proof (i_qsorted _ _ (i_b _ W)) as S.
    replace (mon_of s1) with m0 by (unfold mon_of; rewrite Pi; reflexivity).
    destruct E as [-> | ->]; simpl in A; [eapply check_c09|eapply try_c09]; eauto.
  - destruct (not_idle_no_dispatch c s1 Pi) as [T C].
    assert (X : (s2, o2) = (s1, [])) by (destruct E as [-> | ->]; simpl in A; congruence).
    inv X. split; auto.
Qed.

(* ------------------------------------------------------------------ every step keeps PInv and is accepted by the automaton *)
Ltac mon_same := simpl; first [reflexivity | f_equal; symmetry; apply mon_of_same; reflexivity].

Theorem step_c09 : forall c s e s' out, Inv s -> PInv c s -> step c s e = (s', out) ->
  PInv c s' /\ mon_run c (mon_of s) out = Some (mon_of s').
Proof.
  intros c s e s' out I P H. pose proof I as [W L]. pose proof W as [IB PW ID ST].
  assert (NS : (forall cv, e <> EStop cv) -> exists s1 o1 ep o2, core c s e = (s1, o1, ep) /\ apply_epi c s1 ep = (s', o2) /\ out = o1 ++ o2)
    by (intros; eapply step_nonstop; eauto).
  assert (BE : batch_event e = true -> PInv c s' /\ mon_run c (mon_of s) out = Some (mon_of s')).
  { intros B. destruct (NS ltac:(intros ? ->; discriminate)) as (s1 & o1 & ep & o2 & C & A & ->).
    pose proof C as C'. apply core_batch_rstep with (c := c) in C' as [(-> & -> & ->)|(NI & done & RS & ->)]; auto.
    - simpl in A. inv A. split; auto.
    - apply core_batch in C as [(-> & -> & X)|(_ & done' & BS & X)]; auto;
        try apply (i_onodup _ _ IB); try apply (i_bnodup _ _ IB).
      + destruct RS as [M Pp]. simpl in M. destruct done; [discriminate|]. simpl in A. inv A. split; auto.
      + assert (done' = done) by (destruct done, done'; auto; discriminate). subst done'.
        pose proof (bs_keeps _ _ _ _ _ BS) as [K1 _ _ _ _ _].
        replace (mon_of s) with (mfl s) by (unfold mon_of; destruct (ph s); auto; congruence).
        destruct RS as [M Pp]. destruct done; simpl in A.
        * apply finish_c09 in A; [|rewrite K1; apply (i_qsorted _ _ IB)]. destruct A as [A1 A2]. split; auto.
          eapply mon_run_app_some; eauto.
        * inv A. rewrite app_nil_r. split; auto. rewrite M.
          destruct (bs_ph _ _ _ _ _ BS eq_refl) as (P1 & _). unfold mon_of. destruct (ph s'); auto; congruence. }
  destruct e; try (apply BE; reflexivity).
  - (* ESend *)
    destruct (NS ltac:(intros ? X; discriminate X)) as (s1 & o1 & ep & o2 & C & A & ->). cbn [core] in C.
    destruct ((cnt <? 1) || (bytes <? 0)) eqn:G.
    + inv C. simpl in A. inv A. split; [eapply PInv_same; eauto; reflexivity|].
      mon_same.
    + apply orb_false_iff in G as [G1 G2]. apply Z.ltb_ge in G1, G2. inv C.
      match type of A with apply_epi _ ?st _ = _ =>
        assert (W1 : WInv st) by (apply inv_send; auto);
        assert (P1 : PInv c st) by (eapply PInv_same; eauto; reflexivity);
        assert (M1 : mon_of st = mon_of s) by (apply mon_of_same; reflexivity) end.
      apply epi_c09 in A; auto. simpl. rewrite <- M1. destruct A; auto.
  - (* EBadSend *)
    destruct (NS ltac:(intros ? X; discriminate X)) as (s1 & o1 & ep & o2 & C & A & ->). cbn [core] in C.
    inv C. simpl in A. inv A. split; [eapply PInv_same; eauto; reflexivity|].
    mon_same.
  - (* ECancel *)
    destruct (NS ltac:(intros ? X; discriminate X)) as (s1 & o1 & ep & o2 & C & A & ->). cbn [core] in C.
    destruct (cancel_send s sid) as [s2 o3] eqn:Ec. inv C. simpl in A. inv A. rewrite app_nil_r.
    apply cancel_send_spec in Ec as (OO & Ph & _ & _ & _ & At & Di & Np & _).
    split; [eapply PInv_same; eauto|]. rewrite mon_outcomes; auto. f_equal. symmetry. apply mon_of_same; auto.
  - (* ETick *)
    destruct (NS ltac:(intros ? X; discriminate X)) as (s1 & o1 & ep & o2 & C & A & ->). cbn [core] in C.
    inv C. destruct (looper s1).
    + apply epi_c09 in A; auto. destruct A; auto.
    + simpl in A. inv A. auto.
  - (* EMetaSet *)
    destruct (NS ltac:(intros ? X; discriminate X)) as (s1 & o1 & ep & o2 & C & A & ->). cbn [core] in C.
    inv C. simpl in A. inv A. split; [eapply PInv_same; eauto; reflexivity|].
    mon_same.
  - (* EMetaClearAll *)
    destruct (NS ltac:(intros ? X; discriminate X)) as (s1 & o1 & ep & o2 & C & A & ->). cbn [core] in C.
    inv C. simpl in A. inv A. split; [eapply PInv_same; eauto; reflexivity|].
    mon_same.
  - (* EStop *)
    unfold step in H. set (s0 := set_flags s true (looper s)) in *.
    assert (P0 : PInv c s0) by (eapply PInv_same; eauto; reflexivity).
    assert (M0 : mon_of s0 = mon_of s) by (apply mon_of_same; reflexivity).
    destruct (cancel_batch c s0 cv) as [[s1 o1] done] eqn:E.
    assert (X : exists s2 o2, apply_epi c s1 (if done then Fin else NoEpi) = (s2, o2) /\
                  PInv c s2 /\ mon_run c (mon_of s) (o1 ++ o2) = Some (mon_of s2)).
    { destruct (phase_eq_idle (ph s)) as [Pi|Pi].
      - unfold cancel_batch in E. replace (ph s0) with Idle in E by (symmetry; exact Pi). inv E.
        exists s0, []. simpl. rewrite M0. auto.
      - pose proof (cancel_batch_done c s0 cv _ _ _ (eq_refl : stopping s0 = true) PW Pi E) as ->.
        pose proof (cancel_batch_mon _ _ _ _ _ _ P0 Pi E) as M.
        apply cancel_batch_ok in E. destruct E as [[K1 _ _ _ _ _] _ _].
        destruct (apply_epi c s1 Fin) as [s2 o2] eqn:A. exists s2, o2. split; auto. simpl in A.
        apply finish_c09 in A; [|rewrite K1; apply (i_qsorted _ _ IB)]. destruct A as [A1 A2]. split; auto.
        rewrite <- M0. replace (mon_of s0) with (mfl s0) by (unfold mon_of; destruct (ph s0) eqn:Q; auto; exfalso; apply Pi; exact Q).
        eapply mon_run_app_some; eauto. }
    destruct X as (s2 & o2 & A & P2 & M2). unfold fin_if in H. rewrite A in H.
    destruct (cancel_all _ _) as [s4 o4] eqn:E4. inv H.
    pose proof (cancel_all_frame _ _ _ _ E4) as (F1 & F2 & F3 & F4 & _).
    pose proof (cancel_all_spec _ _ _ _ E4) as (OO & _).
    split; [eapply PInv_same; [| | |exact P2]; simpl in *; auto|].
    rewrite app_assoc. eapply mon_run_app_some; [exact M2|]. rewrite mon_outcomes; auto. f_equal.
    symmetry. apply mon_of_same; simpl in *; auto.
Qed.

Lemma init_pinv : forall c has_t api0 cache0, PInv c (init_state has_t api0 cache0).
Proof. intros; split; simpl; auto; lia. Qed.

(* all outputs of a trace, in order *)
Definition outs_of (tr : list (event * list output)) : list output := flat_map snd tr.

Lemma inv_of_step : forall c s e s' out, Inv s -> step c s e = (s', out) -> Inv s'.
Proof. intros c s e s' out I H. apply (so_inv _ _ _ _ (step_inv _ _ _ _ _ I H)). Qed.

Theorem run_c09 : forall c evs s s' tr, Inv s -> PInv c s -> run c s evs = (s', tr) ->
  PInv c s' /\ mon_run c (mon_of s) (outs_of tr) = Some (mon_of s').
Proof.
  induction evs as [|e r IH]; simpl; intros s s' tr I P H.
  - inv H. auto.
  - destruct (step c s e) as [s1 o] eqn:E. destruct (run c s1 r) as [s2 t2] eqn:E2. inv H.
    destruct (step_c09 _ _ _ _ _ I P E) as [P1 M1].
    destruct (IH _ _ _ (inv_of_step _ _ _ _ _ I E) P1 E2) as [P2 M2]. split; auto.
    unfold outs_of in *. simpl. eapply mon_run_app_some; eauto.
Qed.

(* ------------------------------------------------------------------ what acceptance by the automaton means *)
Theorem trace_accepted : forall c has_t api0 cache0 evs s tr,
  run c (init_state has_t api0 cache0) evs = (s, tr) -> mon_run c m0 (outs_of tr) = Some (mon_of s).
Proof.
  intros c h a ca evs s tr H. eapply run_c09 in H; [|apply init_inv|apply init_pinv]. destruct H as [_ M]. exact M.
Qed.

(* serial batches: between two dispatches the earlier batch has ended *)
Lemma mon_fl_drop : forall c mid m m', mon_run c m mid = Some m' -> m_fl m = true -> m_fl m' = false -> In OBatchDone mid.
Proof.
  induction mid as [|o r IH]; simpl; intros m m' H F N; [inv H; congruence|].
  destruct (mon_step c m o) as [m1|] eqn:E; [|discriminate].
  assert (X : o = OBatchDone \/ m_fl m1 = true).
  { destruct o; simpl in E; rewrite ?F in E; simpl in E; try (inv E; auto; fail).
    - destruct ((attempt =? m_a m + 1) && (attempt <=? Z.max 1 (c_max c))); inv E; auto.
    - destruct (k =? m_k m); inv E; auto. }
  destruct X as [->|X]; [left; reflexivity|right; eapply IH; eauto].
Qed.

Theorem serial_batches : forall c m pre sids mid sids' post m',
  mon_run c m (pre ++ [ODispatch sids] ++ mid ++ [ODispatch sids'] ++ post) = Some m' -> In OBatchDone mid.
Proof.
  intros c m pre sids mid sids' post m' H.
  rewrite mon_run_app in H. destruct (mon_run c m pre) as [m1|]; [|discriminate].
  simpl in H. destruct (m_fl m1); [discriminate|].
  rewrite mon_run_app in H. destruct (mon_run c _ mid) as [m2|] eqn:E; [|discriminate].
  simpl in H. destruct (m_fl m2) eqn:F2; [discriminate|].
  eapply mon_fl_drop; eauto.
Qed.

(* attempts: consecutive from 1 within a batch, never more than max(1, max_req_attempts) *)
Theorem attempts_bounded : forall c outs m m', mon_run c m outs = Some m' -> 0 <= m_a m ->
  0 <= m_a m' /\ forall a mg v, In (OSendProduce a mg v) outs -> 1 <= a <= Z.max 1 (c_max c).
Proof.
  induction outs as [|o r IH]; simpl; intros m m' H A; [inv H; split; auto; intros ? ? ? []|].
  destruct (mon_step c m o) as [m1|] eqn:E; [|discriminate].
  assert (A1 : 0 <= m_a m1 /\ forall a mg v, o = OSendProduce a mg v -> 1 <= a <= Z.max 1 (c_max c)).
  { destruct o; simpl in E; try (destruct (m_fl m); inv E; simpl; split; auto; try lia; discriminate).
    - destruct (m_fl m); simpl in E; [|discriminate].
      destruct (attempt =? m_a m + 1) eqn:E1; simpl in E; [|discriminate].
      destruct (attempt <=? Z.max 1 (c_max c)) eqn:E2; inv E. apply Z.eqb_eq in E1. apply Z.leb_le in E2. simpl.
      split; [lia|]. intros a mg v X. inv X. lia.
    - destruct (m_fl m && (k =? m_k m)); inv E; simpl; split; auto; discriminate. }
  destruct A1 as [A1 A2]. destruct (IH _ _ H A1) as [B1 B2]. split; auto.
  intros a mg v [X|X]; eauto.
Qed.

(* back-off: inside a batch the k-th callLater gets delay index k (0, 1, 2, ...) *)
Definition not_sched_or_ghost (o : output) : Prop :=
  match o with OSched _ _ _ | ODispatch _ | OBatchDone => False | _ => True end.

Lemma mon_k_stays : forall c mid mm m2, mon_run c mm mid = Some m2 -> (forall o, In o mid -> not_sched_or_ghost o) -> m_k m2 = m_k mm.
Proof.
  induction mid as [|o r IH]; simpl; intros mm m2 E Q; [inv E; auto|].
  destruct (mon_step c mm o) as [m3|] eqn:E3; [|discriminate].
  assert (H : m_k m3 = m_k mm).
  { assert (Qo := Q o (or_introl eq_refl)). destruct o; try (exfalso; exact Qo); simpl in E3.
    - destruct (m_fl mm && (attempt =? m_a mm + 1) && (attempt <=? Z.max 1 (c_max c))); inv E3; auto.
    - destruct (m_fl mm); inv E3; auto.
    - destruct (m_fl mm); inv E3; auto.
    - destruct (m_fl mm); inv E3; auto.
    - destruct (m_fl mm); inv E3; auto.
    - inv E3; auto. }
  rewrite <- H. apply IH; auto.
Qed.

Theorem backoff_consecutive : forall c m pre t1 k1 kind1 mid t2 k2 kind2 post m',
  mon_run c m (pre ++ [OSched t1 k1 kind1] ++ mid ++ [OSched t2 k2 kind2] ++ post) = Some m' ->
  (forall o, In o mid -> not_sched_or_ghost o) -> k2 = k1 + 1.
Proof.
  intros c m pre t1 k1 kind1 mid t2 k2 kind2 post m' H Q.
  rewrite mon_run_app in H. destruct (mon_run c m pre) as [m1|]; [|discriminate].
  simpl in H. destruct (m_fl m1); simpl in H; [|discriminate]. destruct (k1 =? m_k m1) eqn:E1; [|discriminate].
  apply Z.eqb_eq in E1. rewrite mon_run_app in H.
  destruct (mon_run c _ mid) as [m2|] eqn:E; [|discriminate].
  apply mon_k_stays in E; auto. simpl in E.
  simpl in H. destruct (m_fl m2); simpl in H; [|discriminate]. destruct (k2 =? m_k m2) eqn:E2; [|discriminate].
  apply Z.eqb_eq in E2. lia.
Qed.

(* the first callLater of a batch has index 0 *)
Theorem backoff_first : forall c m pre sids mid t k kind post m',
  mon_run c m (pre ++ [ODispatch sids] ++ mid ++ [OSched t k kind] ++ post) = Some m' ->
  (forall o, In o mid -> not_sched_or_ghost o) -> k = 0.
Proof.
  intros c m pre sids mid t k kind post m' H Q.
  rewrite mon_run_app in H. destruct (mon_run c m pre) as [m1|]; [|discriminate].
  simpl in H. destruct (m_fl m1); simpl in H; [discriminate|]. rewrite mon_run_app in H.
  destruct (mon_run c _ mid) as [m2|] eqn:E; [|discriminate].
  apply mon_k_stays in E; auto. simpl in E.
  simpl in H. destruct (m_fl m2); simpl in H; [|discriminate]. destruct (k =? m_k m2) eqn:E2; [|discriminate].
  apply Z.eqb_eq in E2. lia.
Qed.
