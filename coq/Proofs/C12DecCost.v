(* C12, part 3d: a SUMMED cost bound for the response decoders, over nested loops.

   The decoders are taken as the programs of b-c05's decoder language (Model/DecDSL.v, read-only here): the terms of
   Model/DecAst.v ARE the translated source of KafkaCodec.decode_* (tied per run by Props/C05gen.v) and [DecDSL.exec] is
   their meaning.  This file adds a COST semantics [cexec]: the same interpreter returning, besides the result, the
   number of TICKS - one per statement executed (every primitive read, assignment, append, dict store, yield, test),
   one per loop statement and one per loop iteration - proves that it computes the same result, and proves by
   induction over ALL programs of the language a static, linear bound:

       ticks <= (a + e) * length data + c          with (a, c, e) = coef p   computed from the program text,

   for every program that passes the syntactic check [ok]: CStart reads only where the cursor still is at the start,
   every counted loop's body certainly consumes at least one byte per completed iteration ([adv]), and a
   struct.iter_unpack loop has a body of constant cost.  The point is the loop rule: an iteration that completes has
   consumed >= 1 byte, so its cost a_b * consumed + c_b + 1 is at most (a_b + c_b + 1) * consumed - nesting ADDS the
   constants of the levels, it multiplies nothing, whatever the count fields claim.
   All 15 public decoders (16 terms: produce has two) pass [ok]; their coefficients are computed by vm_compute.
   Also: the number of values yielded is at most the number of ticks, so the same bound limits the yielded objects.

   What a tick is NOT: bytes copied by a slice (a read of a k-byte string is one tick), the quadratic list append of the
   MODEL (Python's append is amortised O(1)), and the lazy message-set generator inside a FetchResponse (its cost is
   C12_total_linear / C12_hops_linear_per_depth). *)
From Coq Require Import Lia.
From AV Require Import Base.Util Model.Prim Model.Crc Model.MsgSet Model.Responses Model.DecDSL
     Proofs.DecodeTotal Proofs.C12Resp.

Section Cost.
  Variable param : Z.
  Variable msgset : list Z -> dres.
  Variable data0 : list Z.

  Notation exec := (DecDSL.exec param msgset data0).
  Notation out := DecDSL.out.

  Definition cout : Type := (out * nat)%type.

  Definition cthen (o : cout) (k : state -> cout) : cout :=
    match o with
    | ((ys, Next s), n) => let '((zs, f), m) := k s in ((ys ++ zs, f), (n + m)%nat)
    | ((ys, f), n) => ((ys, f), n)
    end.

  Definition tick (o : cout) : cout := (fst o, S (snd o)).

  Fixpoint csfor (body : state -> cout) (fuel : nat) (n : Z) (s : state) : cout :=
    if (n <=? 0) then (([], Next s), O)
    else match fuel with
         | O => (([], Raise Fuel), O)
         | S f => cthen (tick (body s)) (csfor body f (n - 1))
         end.

  Fixpoint csiter (fmt : list ifmt) (targets : list nat) (body : state -> cout) (fuel : nat) (d : list Z) (s : state) : cout :=
    match d with
    | [] => (([], Next s), O)
    | _ :: _ => match fuel with
                | O => (([], Raise Fuel), O)
                | S f => match unpack_seq fmt d with
                         | Err e => (([], Raise e), 1%nat)
                         | Ok vr => cthen (tick (body (mk_state (set_all targets (map VInt (fst vr)) (s_env s)) (s_rest s))))
                                          (csiter fmt targets body f (snd vr))
                         end
                end
    end.

  Fixpoint cexec (p : stmt) (s : state) {struct p} : cout :=
    match p with
    | SSeq a b => cthen (cexec a s) (cexec b)
    | SFor count body =>
        match lookup count (s_env s) with
        | Ok (VInt n) => tick (csfor (cexec body) (S (length (s_rest s))) n s)
        | _ => (exec p s, 1%nat)
        end
    | SIterUnpack fmt targets body =>
        if negb (len (s_rest s) mod fmt_bytes fmt =? 0) then (exec p s, 1%nat)
        else tick (csiter fmt targets (cexec body) (length (s_rest s)) (s_rest s) s)
    | SIfParam op z a b => tick (if compare op param z then cexec a s else cexec b s)
    | _ => (exec p s, 1%nat)
    end.

  (* ---------------------------------------------------------------- it is the interpreter *)
  Lemma cthen_fst o k : fst (cthen o k) = then_ (fst o) (fun s => fst (k s)).
  Proof.
    destruct o as [[ys f] n]. destruct f as [s|v|e]; cbn [cthen then_ fst]; try reflexivity.
    destruct (k s) as [[zs f'] m]. reflexivity.
  Qed.

  Lemma then_ext o k1 k2 : (forall s, k1 s = k2 s) -> then_ o k1 = then_ o k2.
  Proof. intros H. destruct o as [ys [s|v|e]]; cbn [then_]; try reflexivity. rewrite H. reflexivity. Qed.

  Lemma csfor_fst body cbody : (forall s, fst (cbody s) = body s) ->
    forall fuel n s, fst (csfor cbody fuel n s) = sfor_range body fuel n s.
  Proof.
    intros H. induction fuel as [|f IH]; intros n s; cbn [csfor sfor_range]; destruct (n <=? 0); try reflexivity.
    rewrite cthen_fst. cbn [tick fst]. rewrite H. apply then_ext. intro s'. apply IH.
  Qed.

  Lemma csiter_fst fmt targets body cbody : (forall s, fst (cbody s) = body s) ->
    forall fuel d s, fst (csiter fmt targets cbody fuel d s) = siter fmt targets body fuel d s.
  Proof.
    intros H. induction fuel as [|f IH]; intros d s; destruct d as [|x t]; cbn [csiter siter]; try reflexivity.
    destruct (unpack_seq fmt (x :: t)) as [vr|e]; cbn [DecDSL.lift]; [|reflexivity].
    rewrite cthen_fst. cbn [tick fst]. rewrite H. apply then_ext. intro s'. apply IH.
  Qed.

  Theorem cexec_fst : forall p s, fst (cexec p s) = exec p s.
  Proof.
    induction p; intros s; try reflexivity.
    - cbn [cexec DecDSL.exec]. rewrite cthen_fst, IHp1. apply then_ext. exact IHp2.
    - cbn [cexec DecDSL.exec]. destruct (lookup count (s_env s)) as [[| |n| | | | | | |]|e]; try reflexivity.
      cbn [DecDSL.lift tick fst]. apply csfor_fst. exact IHp.
    - cbn [cexec DecDSL.exec]. destruct (negb (len (s_rest s) mod fmt_bytes fmt =? 0)); [reflexivity|].
      cbn [tick fst]. apply csiter_fst. exact IHp.
    - cbn [cexec DecDSL.exec tick fst]. destruct (compare op param z); auto.
  Qed.

  (* ---------------------------------------------------------------- yielded values <= ticks *)
  Definition yields_le (o : cout) : Prop := (length (fst (fst o)) <= snd o)%nat.

  Lemma cthen_yields o k : yields_le o -> (forall s, yields_le (k s)) -> yields_le (cthen o k).
  Proof.
    unfold yields_le. destruct o as [[ys f] n]. destruct f as [s|v|e]; cbn [cthen fst snd]; auto.
    intros H1 H2. specialize (H2 s). destruct (k s) as [[zs f'] m]. cbn [fst snd] in *. rewrite app_length. lia.
  Qed.

  Lemma exec_yields1 p s : (length (fst (exec p s)) <= 1)%nat ->  yields_le (exec p s, 1%nat).
  Proof. unfold yields_le. cbn [fst snd]. auto. Qed.

  Lemma lift_len {A} (r : res A) (k : A -> out) n : (forall a, (length (fst (k a)) <= n)%nat) -> (length (fst (DecDSL.lift r k)) <= n)%nat.
  Proof. intros H. destruct r; cbn [DecDSL.lift fst length]; auto. lia. Qed.
End Cost.

(* ------------------------------------------------------------------ the static analysis *)
Definition fsize (fmt : list ifmt) : nat := fold_right (fun f n => (fmt_size f + n)%nat) O fmt.
Definition is_cur (c : cur) : bool := match c with CCur => true | CStart => false end.
Definition rk_min (k : rkind) : nat := match k with RIntString => 4 | _ => 2 end%nat.

Fixpoint nostart (p : stmt) : bool :=
  match p with
  | SUnpack c _ _ | SUnpackTuple c _ _ | SUnpackN c _ _ _ | SRead c _ _ => is_cur c
  | SSeq a b | SIfParam _ _ a b => nostart a && nostart b
  | SFor _ b | SIterUnpack _ _ b => nostart b
  | _ => true
  end.

(* bytes certainly consumed when the statement completes *)
Fixpoint adv (p : stmt) : nat :=
  match p with
  | SUnpack CCur fmt _ | SUnpackTuple CCur fmt _ => fsize fmt
  | SRead CCur k _ => rk_min k
  | SSeq a b => (adv a + adv b)%nat
  | SIfParam _ _ a b => Nat.min (adv a) (adv b)
  | _ => O
  end.

(* (a, c, e): ticks <= a * consumed + c + e * remaining-at-entry *)
Fixpoint coef (p : stmt) : nat * nat * nat :=
  match p with
  | SSeq x y => let '(a1, c1, e1) := coef x in let '(a2, c2, e2) := coef y in (Nat.max a1 a2, c1 + c2, e1 + e2)%nat
  | SIfParam _ _ x y => let '(a1, c1, e1) := coef x in let '(a2, c2, e2) := coef y in (Nat.max a1 a2, S (Nat.max c1 c2), Nat.max e1 e2)
  | SFor _ b => let '(a, c, _) := coef b in (a + c + 1, c + 2, O)%nat
  | SIterUnpack _ _ b => let '(_, c, _) := coef b in (O, 2, S c)%nat
  | _ => (O, 1, O)%nat
  end.

Fixpoint wf (p : stmt) : bool :=
  match p with
  | SSeq a b | SIfParam _ _ a b => wf a && wf b
  | SFor _ b => wf b && Nat.leb 1 (adv b) && (let '(_, _, e) := coef b in Nat.eqb e 0)
  | SIterUnpack fmt _ b => wf b && Nat.leb 1 (fsize fmt) && (let '(a, _, e) := coef b in Nat.eqb a 0 && Nat.eqb e 0)
  | _ => true
  end.

(* ------------------------------------------------------------------ what the primitive reads consume *)
Lemma unpack_seq_len fmt : forall d vs r, unpack_seq fmt d = Ok (vs, r) -> length d = (fsize fmt + length r)%nat.
Proof.
  induction fmt as [|f t IH]; intros d vs r; cbn [unpack_seq fsize fold_right].
  - intros [= <- <-]. reflexivity.
  - destruct (unpack f d) as [[v d1]|e] eqn:U; cbn [bind]; [|discriminate].
    destruct (unpack_seq t d1) as [[vs' d2]|e] eqn:S; cbn [bind]; [|discriminate].
    intros [= <- <-]. apply unpack_consumes in U. apply IH in S. fold (fsize t). lia.
Qed.

Lemma read_kind_len k d v r : read_kind k d = Ok (v, r) -> (length r + rk_min k <= length d)%nat.
Proof.
  destruct k; cbn [read_kind rk_min].
  - unfold read_short_bytes. destruct (read_string Fh d) as [[o r']|e] eqn:R; cbn [bind]; [|discriminate].
    intros [= <- <-]. apply read_string_consumes in R. cbn [fmt_size] in R. lia.
  - unfold read_short_ascii. destruct (read_short_decoded ascii_valid d) as [[b r']|e] eqn:R; cbn [bind]; [|discriminate].
    intros [= <- <-]. apply read_short_decoded_consumes in R. lia.
  - unfold read_short_text. destruct (read_short_decoded utf8_valid d) as [[b r']|e] eqn:R; cbn [bind]; [|discriminate].
    intros [= <- <-]. apply read_short_decoded_consumes in R. lia.
  - unfold read_int_string. destruct (read_string Fi d) as [[o r']|e] eqn:R; cbn [bind]; [|discriminate].
    intros [= <- <-]. apply read_string_consumes in R. cbn [fmt_size] in R. lia.
Qed.

Lemma read_ints_len n d vs r : read_ints n d = Ok (vs, r) -> (length r <= length d)%nat.
Proof. intros H. pose proof (read_ints_radv n d) as R. rewrite H in R. unfold radv in R. lia. Qed.

(* ------------------------------------------------------------------ the bound, by induction over all programs *)
Section Bound.
  Variable param : Z.
  Variable msgset : list Z -> dres.
  Variable data0 : list Z.
  Notation exec := (DecDSL.exec param msgset data0).
  Notation cexec := (cexec param msgset data0).

  Definition rl (s : state) : nat := length (s_rest s).

  (* ticks + a * remaining-after <= a * remaining-before + c + e * remaining-before   (no subtraction in nat) *)
  Definition good_with (a c e adv_ : nat) (s : state) (o : cout) : Prop :=
    match o with
    | ((_, Next s'), t) => (rl s' + adv_ <= rl s /\ t + a * rl s' <= a * rl s + c + e * rl s)%nat
    | ((_, _), t) => (t <= a * rl s + c + e * rl s)%nat
    end.
  Definition good (p : stmt) (s : state) (o : cout) : Prop :=
    let '(a, c, e) := coef p in good_with a c e (adv p) s o.

  (* a statement of cost 1: only what it consumes has to be shown *)
  Lemma good_simple p s : coef p = (O, 1, O)%nat ->
    (forall ys s', exec p s = (ys, Next s') -> (rl s' + adv p <= rl s)%nat) ->
    good p s (exec p s, 1%nat).
  Proof.
    intros C H. unfold good. rewrite C. unfold good_with. destruct (exec p s) as [ys [s'|v|e]] eqn:E; [|lia|lia].
    split; [eapply H; reflexivity|lia].
  Qed.

  Lemma lift_next {A} (r : res A) (k : A -> DecDSL.out) ys s' :
    DecDSL.lift r k = (ys, Next s') -> exists a, r = Ok a /\ k a = (ys, Next s').
  Proof. destruct r as [a|e]; cbn [DecDSL.lift]; [eauto|discriminate]. Qed.

  Lemma simple_next p s ys s' : nostart p = true ->
    match p with SSeq _ _ | SFor _ _ | SIterUnpack _ _ _ | SIfParam _ _ _ _ => False | _ => True end ->
    exec p s = (ys, Next s') -> (rl s' + adv p <= rl s)%nat.
  Proof.
    intros NS Hs E. unfold rl. destruct p; try contradiction; cbn [DecDSL.exec adv] in E |- *.
    - (* SSkip *) injection E as _ <-. lia.
    - (* SUnpack *) destruct c; [discriminate NS|]. cbn [at_cur] in E.
      apply lift_next in E. destruct E as ([vs r] & U & E). injection E as _ <-. cbn [s_rest snd].
      apply unpack_seq_len in U. lia.
    - (* SUnpackTuple *) destruct c; [discriminate NS|]. cbn [at_cur] in E.
      apply lift_next in E. destruct E as ([vs r] & U & E). injection E as _ <-. cbn [s_rest snd].
      apply unpack_seq_len in U. lia.
    - (* SUnpackN *) destruct c; [discriminate NS|]. cbn [at_cur] in E.
      apply lift_next in E. destruct E as (v & _ & E). destruct v; try discriminate. destruct f; try discriminate.
      apply lift_next in E. destruct E as ([vs r] & U & E). injection E as _ <-. cbn [s_rest snd].
      apply read_ints_len in U. lia.
    - (* SRead *) destruct c; [discriminate NS|]. cbn [at_cur] in E.
      apply lift_next in E. destruct E as ([v r] & U & E). injection E as _ <-. cbn [s_rest snd].
      apply read_kind_len in U. lia.
    - (* SAssign *) apply lift_next in E. destruct E as (v & _ & E). injection E as _ <-. cbn [s_rest]. lia.
    - (* SAppend *) apply lift_next in E. destruct E as (l & _ & E). destruct l; try discriminate.
      apply lift_next in E. destruct E as (v & _ & E). injection E as _ <-. cbn [s_rest]. lia.
    - (* SSetItem *) apply lift_next in E. destruct E as (dv & _ & E). destruct dv; try discriminate.
      apply lift_next in E. destruct E as (k & _ & E). apply lift_next in E. destruct E as (v & _ & E).
      injection E as _ <-. cbn [s_rest]. lia.
    - (* SYield *) apply lift_next in E. destruct E as (v & _ & E). injection E as _ <-. lia.
    - (* SIfRaise *) apply lift_next in E. destruct E as (x & _ & E). destruct x; try discriminate.
      destruct (compare op z0 z); [discriminate|]. injection E as _ <-. lia.
    - (* SReturn *) apply lift_next in E. destruct E as (v & _ & E). discriminate.
    - (* SRaise *) discriminate.
  Qed.

  (* ---- counted loops: an iteration that completes has consumed >= 1 byte, so its cost ab*consumed + cb + 1 is at most
     (ab + cb + 1) * consumed: the loop as a whole is linear in what it consumes, whatever n claims *)
  Definition loop_good (A cb : nat) (s : state) (o : cout) : Prop :=
    match o with
    | ((_, Next s'), t) => (rl s' <= rl s /\ t + A * rl s' <= A * rl s)%nat
    | ((_, _), t) => (t <= A * rl s + cb + 1)%nat
    end.

  Lemma csfor_good (body : state -> cout) ab cb :
    (forall s, good_with ab cb 0 1 s (body s)) ->
    forall fuel n s, (rl s < fuel)%nat -> loop_good (ab + cb + 1) cb s (csfor body fuel n s).
  Proof.
    intros B. induction fuel as [|f IH]; intros n s Hf; [lia|].
    cbn [csfor]. destruct (n <=? 0). { unfold loop_good. lia. }
    pose proof (B s) as Bs. destruct (body s) as [[ys fl] tb]. unfold good_with in Bs. unfold tick. cbn [fst snd].
    destruct fl as [s1|v|e]; cbn [cthen].
    - destruct Bs as [R1 T1].
      assert (Hf1 : (rl s1 < f)%nat) by lia. specialize (IH (n - 1) s1 Hf1).
      destruct (csfor body f (n - 1) s1) as [[zs fl2] t2]. unfold loop_good in *.
      destruct fl2 as [s2|v|e]; nia.
    - unfold loop_good. nia.
    - unfold loop_good. nia.
  Qed.

  (* ---- struct.iter_unpack loops: the body has constant cost; one record of >= 1 byte of the scanned buffer per iteration *)
  Lemma csiter_good fmt targets (body : state -> cout) cb : (1 <= fsize fmt)%nat ->
    (forall s, good_with 0 cb 0 0 s (body s)) ->
    forall fuel d s,
      match csiter fmt targets body fuel d s with
      | ((_, Next s'), t) => (rl s' <= rl s /\ t <= (1 + cb) * length d + 1)%nat
      | ((_, _), t) => (t <= (1 + cb) * length d + 1)%nat
      end.
  Proof.
    intros Hs B. induction fuel as [|f IH]; intros d s; destruct d as [|x r]; cbn [csiter]; try lia.
    destruct (unpack_seq fmt (x :: r)) as [[vs d1]|e] eqn:U; [|cbn [length]; lia].
    apply unpack_seq_len in U. cbn [fst snd].
    set (s0 := mk_state (set_all targets (map VInt vs) (s_env s)) (s_rest s)).
    pose proof (B s0) as Bs. destruct (body s0) as [[ys fl] tb]. unfold good_with in Bs. unfold tick. cbn [fst snd].
    assert (R0 : rl s0 = rl s) by reflexivity.
    destruct fl as [s1|v|e]; cbn [cthen].
    - destruct Bs as [R1 T1]. specialize (IH d1 s1).
      destruct (csiter fmt targets body f d1 s1) as [[zs fl2] t2].
      destruct fl2 as [s2|v|e]; nia.
    - nia.
    - nia.
  Qed.

  Lemma max_l_le a b : (a <= Nat.max a b)%nat. Proof. apply Nat.le_max_l. Qed.
  Lemma max_r_le a b : (b <= Nat.max a b)%nat. Proof. apply Nat.le_max_r. Qed.

  (* weakening of the coefficients *)
  Lemma good_with_weaken a c e d a' c' e' d' s o :
    good_with a c e d s o -> (a <= a')%nat -> (c <= c')%nat -> (e <= e')%nat -> (d' <= d)%nat ->
    (match o with ((_, Next s'), _) => (rl s' <= rl s)%nat | _ => True end) ->
    good_with a' c' e' d' s o.
  Proof.
    unfold good_with. destruct o as [[ys fl] t]. destruct fl as [s'|v|er]; intros H Ha Hc He Hd Hr.
    - destruct H as [H1 H2]. split; [lia|].
      assert ((a' - a) * rl s' <= (a' - a) * rl s)%nat by (apply Nat.mul_le_mono_l; exact Hr).
      replace a' with (a + (a' - a))%nat by lia. nia.
    - nia.
    - nia.
  Qed.

  Theorem cexec_good : forall p, nostart p = true -> wf p = true -> forall s, good p s (cexec p s).
  Proof.
    induction p; intros NS WF s;
      try (apply good_simple; [reflexivity|]; intros ys s' E; eapply simple_next; eauto; exact I).
    - (* SSeq *)
      cbn [nostart wf] in NS, WF. apply andb_prop in NS. destruct NS as [N1 N2]. apply andb_prop in WF. destruct WF as [W1 W2].
      specialize (IHp1 N1 W1 s). unfold good in IHp1 |- *. cbn [coef adv cexec].
      destruct (coef p1) as [[a1 c1] e1] eqn:C1. destruct (coef p2) as [[a2 c2] e2] eqn:C2.
      destruct (C12DecCost.cexec param msgset data0 p1 s) as [[ys fl] t1]. unfold good_with in IHp1.
      destruct fl as [s1|v|e]; cbn [cthen].
      + destruct IHp1 as [R1 T1]. specialize (IHp2 N2 W2 s1). unfold good in IHp2. rewrite C2 in IHp2.
        destruct (C12DecCost.cexec param msgset data0 p2 s1) as [[zs fl2] t2]. unfold good_with in *.
        pose proof (max_l_le a1 a2). pose proof (max_r_le a1 a2). set (M := Nat.max a1 a2) in *.
        destruct fl2 as [s2|v|e].
        * destruct IHp2 as [R2 T2]. split; [lia|].
          assert ((M - a1) * rl s1 <= (M - a1) * rl s)%nat by (apply Nat.mul_le_mono_l; lia).
          assert ((M - a2) * rl s2 <= (M - a2) * rl s1)%nat by (apply Nat.mul_le_mono_l; lia).
          replace M with (a1 + (M - a1))%nat in * by lia. nia.
        * assert (a2 * rl s1 <= M * rl s1)%nat by (apply Nat.mul_le_mono_r; lia).
          assert (e2 * rl s1 <= e2 * rl s)%nat by (apply Nat.mul_le_mono_l; lia).
          assert ((M - a1) * rl s1 <= (M - a1) * rl s)%nat by (apply Nat.mul_le_mono_l; lia).
          nia.
        * assert (a2 * rl s1 <= M * rl s1)%nat by (apply Nat.mul_le_mono_r; lia).
          assert (e2 * rl s1 <= e2 * rl s)%nat by (apply Nat.mul_le_mono_l; lia).
          assert ((M - a1) * rl s1 <= (M - a1) * rl s)%nat by (apply Nat.mul_le_mono_l; lia).
          nia.
      + unfold good_with. pose proof (max_l_le a1 a2). nia.
      + unfold good_with. pose proof (max_l_le a1 a2). nia.
    - (* SFor *)
      cbn [nostart wf] in NS, WF. apply andb_prop in WF. destruct WF as [WF We]. apply andb_prop in WF. destruct WF as [W1 Wa].
      apply Nat.leb_le in Wa. unfold good. cbn [coef adv cexec].
      destruct (coef p) as [[ab cb] eb] eqn:C. apply Nat.eqb_eq in We. subst eb.
      destruct (lookup count (s_env s)) as [[| |n| | | | | | |]|e] eqn:L;
        try (unfold good_with; cbn [DecDSL.exec]; rewrite L; cbn [DecDSL.lift]; lia).
      assert (B : forall s0, good_with ab cb 0 1 s0 (C12DecCost.cexec param msgset data0 p s0)).
      { intro s0. specialize (IHp NS W1 s0). unfold good in IHp. rewrite C in IHp.
        unfold good_with in *. destruct (C12DecCost.cexec param msgset data0 p s0) as [[ys fl] t]. destruct fl; lia. }
      pose proof (csfor_good _ ab cb B (S (length (s_rest s))) n s (Nat.lt_succ_diag_r _)) as G.
      destruct (csfor (C12DecCost.cexec param msgset data0 p) (S (length (s_rest s))) n s) as [[ys fl] t].
      unfold loop_good in G. unfold tick, good_with. cbn [fst snd]. destruct fl as [s'|v|e]; nia.
    - (* SIterUnpack *)
      cbn [nostart wf] in NS, WF. apply andb_prop in WF. destruct WF as [WF We]. apply andb_prop in WF. destruct WF as [W1 Wf].
      apply Nat.leb_le in Wf. unfold good. cbn [coef adv cexec].
      destruct (coef p) as [[ab cb] eb] eqn:C. apply andb_prop in We. destruct We as [Ea Ee].
      apply Nat.eqb_eq in Ea. apply Nat.eqb_eq in Ee. subst ab eb.
      destruct (negb (len (s_rest s) mod fmt_bytes fmt =? 0)) eqn:Hm.
      { unfold good_with. cbn [DecDSL.exec]. rewrite Hm. lia. }
      assert (B : forall s0, good_with 0 cb 0 0 s0 (C12DecCost.cexec param msgset data0 p s0)).
      { intro s0. specialize (IHp NS W1 s0). unfold good in IHp. rewrite C in IHp.
        unfold good_with in *. destruct (C12DecCost.cexec param msgset data0 p s0) as [[ys fl] t]. destruct fl; lia. }
      pose proof (csiter_good fmt targets _ cb Wf B (length (s_rest s)) (s_rest s) s) as G.
      destruct (csiter fmt targets (C12DecCost.cexec param msgset data0 p) (length (s_rest s)) (s_rest s) s) as [[ys fl] t].
      unfold tick, good_with, rl in *. cbn [fst snd]. destruct fl as [s'|v|e]; nia.
    - (* SIfParam *)
      cbn [nostart wf] in NS, WF. apply andb_prop in NS. destruct NS as [N1 N2]. apply andb_prop in WF. destruct WF as [W1 W2].
      unfold good. cbn [coef adv cexec].
      destruct (coef p1) as [[a1 c1] e1] eqn:C1. destruct (coef p2) as [[a2 c2] e2] eqn:C2.
      destruct (compare op param z).
      + specialize (IHp1 N1 W1 s). unfold good in IHp1. rewrite C1 in IHp1.
        destruct (C12DecCost.cexec param msgset data0 p1 s) as [[ys fl] t]. unfold tick, good_with in *. cbn [fst snd].
        pose proof (max_l_le a1 a2). pose proof (max_l_le c1 c2). pose proof (max_l_le e1 e2).
        pose proof (Nat.le_min_l (adv p1) (adv p2)).
        destruct fl as [s'|v|e].
        * destruct IHp1 as [R T]. split; [lia|].
          assert ((Nat.max a1 a2 - a1) * rl s' <= (Nat.max a1 a2 - a1) * rl s)%nat by (apply Nat.mul_le_mono_l; lia).
          assert (e1 * rl s <= Nat.max e1 e2 * rl s)%nat by (apply Nat.mul_le_mono_r; lia).
          replace (Nat.max a1 a2) with (a1 + (Nat.max a1 a2 - a1))%nat by lia. nia.
        * assert (a1 * rl s <= Nat.max a1 a2 * rl s)%nat by (apply Nat.mul_le_mono_r; lia).
          assert (e1 * rl s <= Nat.max e1 e2 * rl s)%nat by (apply Nat.mul_le_mono_r; lia). nia.
        * assert (a1 * rl s <= Nat.max a1 a2 * rl s)%nat by (apply Nat.mul_le_mono_r; lia).
          assert (e1 * rl s <= Nat.max e1 e2 * rl s)%nat by (apply Nat.mul_le_mono_r; lia). nia.
      + specialize (IHp2 N2 W2 s). unfold good in IHp2. rewrite C2 in IHp2.
        destruct (C12DecCost.cexec param msgset data0 p2 s) as [[ys fl] t]. unfold tick, good_with in *. cbn [fst snd].
        pose proof (max_r_le a1 a2). pose proof (max_r_le c1 c2). pose proof (max_r_le e1 e2).
        pose proof (Nat.le_min_r (adv p1) (adv p2)).
        destruct fl as [s'|v|e].
        * destruct IHp2 as [R T]. split; [lia|].
          assert ((Nat.max a1 a2 - a2) * rl s' <= (Nat.max a1 a2 - a2) * rl s)%nat by (apply Nat.mul_le_mono_l; lia).
          assert (e2 * rl s <= Nat.max e1 e2 * rl s)%nat by (apply Nat.mul_le_mono_r; lia).
          replace (Nat.max a1 a2) with (a2 + (Nat.max a1 a2 - a2))%nat by lia. nia.
        * assert (a2 * rl s <= Nat.max a1 a2 * rl s)%nat by (apply Nat.mul_le_mono_r; lia).
          assert (e2 * rl s <= Nat.max e1 e2 * rl s)%nat by (apply Nat.mul_le_mono_r; lia). nia.
        * assert (a2 * rl s <= Nat.max a1 a2 * rl s)%nat by (apply Nat.mul_le_mono_r; lia).
          assert (e2 * rl s <= Nat.max e1 e2 * rl s)%nat by (apply Nat.mul_le_mono_r; lia). nia.
  Qed.
End Bound.

(* ------------------------------------------------------------------ reads "from the start" at the head of a program *)
Definition to_cur (c : cur) : cur := CCur.
Fixpoint decur (p : stmt) : stmt :=
  match p with
  | SUnpack c f t => SUnpack (to_cur c) f t
  | SUnpackTuple c f t => SUnpackTuple (to_cur c) f t
  | SUnpackN c n f t => SUnpackN (to_cur c) n f t
  | SRead c k t => SRead (to_cur c) k t
  | SSeq a b => SSeq (decur a) (decur b)
  | SIfParam op z a b => SIfParam op z (decur a) (decur b)
  | SFor n b => SFor n (decur b)
  | SIterUnpack f t b => SIterUnpack f t (decur b)
  | _ => p
  end.

(* every CStart read is executed while the cursor still is at the start of the data *)
Fixpoint head_ok (p : stmt) : bool :=
  match p with
  | SSeq a b => head_ok a && nostart b
  | SIfParam _ _ a b => head_ok a && head_ok b
  | SFor _ b | SIterUnpack _ _ b => nostart b
  | _ => true
  end.

Lemma decur_id p : nostart p = true -> decur p = p.
Proof.
  induction p; cbn [nostart decur]; intros H; try reflexivity;
    try (destruct c; [discriminate H|reflexivity]).
  - apply andb_prop in H. destruct H as [H1 H2]. rewrite IHp1, IHp2; auto.
  - rewrite IHp; auto.
  - rewrite IHp; auto.
  - apply andb_prop in H. destruct H as [H1 H2]. rewrite IHp1, IHp2; auto.
Qed.

Lemma nostart_decur p : nostart (decur p) = true.
Proof. induction p; cbn [nostart decur is_cur to_cur]; auto; rewrite ?IHp1, ?IHp2; auto. Qed.

Section Top.
  Variable param : Z.
  Variable msgset : list Z -> dres.
  Variable data0 : list Z.
  Notation cexec := (cexec param msgset data0).

  Lemma head_eq : forall p s, head_ok p = true -> s_rest s = data0 -> cexec p s = cexec (decur p) s.
  Proof.
    induction p; intros s H R; cbn [head_ok decur] in *; try reflexivity.
    - apply andb_prop in H. destruct H as [H1 H2]. cbn [C12DecCost.cexec]. rewrite (IHp1 s H1 R), (decur_id p2 H2). reflexivity.
    - destruct c; cbn [C12DecCost.cexec DecDSL.exec at_cur to_cur]; rewrite ?R; reflexivity.
    - destruct c; cbn [C12DecCost.cexec DecDSL.exec at_cur to_cur]; rewrite ?R; reflexivity.
    - destruct c; cbn [C12DecCost.cexec DecDSL.exec at_cur to_cur]; rewrite ?R; reflexivity.
    - destruct c; cbn [C12DecCost.cexec DecDSL.exec at_cur to_cur]; rewrite ?R; reflexivity.
    - rewrite (decur_id p H). reflexivity.
    - rewrite (decur_id p H). reflexivity.
    - apply andb_prop in H. destruct H as [H1 H2]. cbn [C12DecCost.cexec]. rewrite (IHp1 s H1 R), (IHp2 s H2 R). reflexivity.
  Qed.

  Definition ok (p : prog) : bool := head_ok (p_body p) && wf (decur (p_body p)).
  Definition init_state (p : prog) : state := mk_state (repeat VUnbound (p_nvars p)) data0.
  Definition ticks (p : prog) : nat := snd (cexec (p_body p) (init_state p)).
  Definition lin_a (p : prog) : nat := let '(a, _, e) := coef (decur (p_body p)) in (a + e)%nat.
  Definition lin_b (p : prog) : nat := let '(_, c, _) := coef (decur (p_body p)) in c.

  Theorem ticks_linear p : ok p = true -> (ticks p <= lin_a p * length data0 + lin_b p)%nat.
  Proof.
    unfold ok, ticks, lin_a, lin_b. intros H. apply andb_prop in H. destruct H as [H1 H2].
    rewrite (head_eq (p_body p) (init_state p) H1 eq_refl).
    pose proof (cexec_good param msgset data0 (decur (p_body p)) (nostart_decur _) H2 (init_state p)) as G.
    unfold good in G. destruct (coef (decur (p_body p))) as [[a c] e].
    destruct (cexec (decur (p_body p)) (init_state p)) as [[ys fl] t]. unfold good_with, rl in G. cbn [snd init_state s_rest] in *.
    destruct fl as [s'|v|er]; nia.
  Qed.

  (* the instrumented run is the run: same yields, same return value / exception *)
  Theorem cexec_is_exec p : fst (cexec (p_body p) (init_state p)) = DecDSL.exec param msgset data0 (p_body p) (init_state p).
  Proof. apply cexec_fst. Qed.
End Top.

(* ------------------------------------------------------------------ yielded values <= ticks: the same linear bound limits
   the number of objects a generator decoder hands out (every yield is a statement, hence a tick) *)
Section Yields.
  Variable param : Z.
  Variable msgset : list Z -> dres.
  Variable data0 : list Z.
  Notation cexec := (cexec param msgset data0).

  Lemma tick_yields o : yields_le o -> yields_le (tick o).
  Proof. unfold yields_le, tick. cbn [fst snd]. lia. Qed.

  Lemma csfor_yields body : (forall s, yields_le (body s)) -> forall fuel n s, yields_le (csfor body fuel n s).
  Proof.
    intros B. induction fuel as [|f IH]; intros n s; cbn [csfor]; destruct (n <=? 0); try (unfold yields_le; cbn; lia).
    apply cthen_yields; [apply tick_yields, B|intro; apply IH].
  Qed.

  Lemma csiter_yields fmt targets body : (forall s, yields_le (body s)) -> forall fuel d s, yields_le (csiter fmt targets body fuel d s).
  Proof.
    intros B. induction fuel as [|f IH]; intros d s; destruct d as [|x r]; cbn [csiter]; try (unfold yields_le; cbn; lia).
    destruct (unpack_seq fmt (x :: r)) as [vr|e]; [|unfold yields_le; cbn; lia].
    apply cthen_yields; [apply tick_yields, B|intro; apply IH].
  Qed.

  Lemma exec_simple_yields p s :
    match p with SSeq _ _ | SFor _ _ | SIterUnpack _ _ _ | SIfParam _ _ _ _ => False | _ => True end ->
    (length (fst (DecDSL.exec param msgset data0 p s)) <= 1)%nat.
  Proof.
    intros H. destruct p; try contradiction; cbn [DecDSL.exec fst length]; try lia;
      repeat (apply lift_len; intros); cbn [fst length]; try lia.
    - destruct a; cbn [fst length]; try lia. destruct f; cbn [fst length]; try lia. apply lift_len; intros; cbn; lia.
    - destruct a; cbn [fst length]; try lia. apply lift_len; intros; cbn; lia.
    - destruct a; cbn [fst length]; try lia. repeat (apply lift_len; intros); cbn; lia.
    - destruct a; cbn [fst length]; try lia. destruct (compare op z0 z); cbn; lia.
  Qed.

  Theorem cexec_yields : forall p s, yields_le (cexec p s).
  Proof.
    induction p; intros s; try (apply exec_yields1; apply exec_simple_yields; exact I).
    - cbn [C12DecCost.cexec]. apply cthen_yields; auto.
    - cbn [C12DecCost.cexec]. destruct (lookup count (s_env s)) as [[| |n| | | | | | |]|e] eqn:L;
        try (apply exec_yields1; cbn [DecDSL.exec]; rewrite L; cbn; lia).
      apply tick_yields, csfor_yields. exact IHp.
    - cbn [C12DecCost.cexec]. destruct (negb (len (s_rest s) mod fmt_bytes fmt =? 0)) eqn:Hm.
      + apply exec_yields1. cbn [DecDSL.exec]. rewrite Hm. cbn. lia.
      + apply tick_yields, csiter_yields. exact IHp.
    - cbn [C12DecCost.cexec]. apply tick_yields. destruct (compare op param z); auto.
  Qed.
End Yields.
