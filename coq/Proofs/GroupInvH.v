(* Invariants of Model/Group.v, part 2: stop(), rejoin_after_error and the event handlers preserve [Inv];
   main theorem [reachable_inv]. *)
From Coq Require Import Lia.
From AV Require Import Base.Util Model.Group Model.GroupObs Proofs.GroupInv.

Definition stab_eq (s s' : state) : Prop :=
  stopping s' = stopping s /\ rejoin_needed s' = rejoin_needed s /\ hb_running s' = hb_running s.

Lemma coord_stop_unstarted : forall st s, start_d s = None ->
  fst (coord_stop st s) = (if is_group s then set_stop_requested false s else s).
Proof. intros st s E. unfold coord_stop. rewrite E. reflexivity. Qed.

Lemma same_core_trans : forall a b c, same_core a b -> same_core b c -> same_core a c.
Proof. unfold same_core. intros a b c H1 H2. intuition congruence. Qed.
Lemma same_core_sr : forall s, stop_requested s = false -> same_core (set_stop_requested false s) s.
Proof. intros s E. ds s. prj. subst. frame. Qed.

Lemma do_stop_J : forall r idx err s, Jcore r s ->
  let s' := fst (do_stop idx err s) in
  Jcore r s' /\
  (stopping s' = true \/
   (start_d s = None /\ stopping s = false /\ same_core (set_stop_requested false s) s') \/
   (is_group s = true /\ consumers s <> [] /\ stop_requested s' = true /\ stab_eq s s')).
Proof.
  intros r idx err s H. unfold do_stop.
  destruct (is_group s) eqn:G.
  - destruct (consumers (set_stop_requested true s)) as [|c cs'] eqn:C.
    + destruct (start_d s) as [i|] eqn:Sd; [|destruct (stopping s) eqn:Stp].
      * assert (J0 : Jcore r (set_stop_requested true s)). { ds s. prj. subst. jgo. }
        pose proof (coord_stop_J r (mkStop idx err (S2 0)) _ J0 C) as (A & B & D). split; [exact A|].
        left. apply B. left. ds s. prj. congruence.
      * assert (J0 : Jcore r (set_stop_requested true s)). { ds s. prj. subst. jgo. }
        pose proof (coord_stop_J r (mkStop idx err (S2 0)) _ J0 C) as (A & B & D). split; [exact A|].
        left. apply B. right. ds s. exact Stp.
      * rewrite coord_stop_unstarted by (ds s; exact Sd).
        assert (Sr : stop_requested s = false).
        { destruct (j5 _ _ H Sd) as [X|[X _]]; [congruence|]. unfold pristine in X. intuition. }
        assert (SC : same_core (set_stop_requested false s) (if is_group (set_stop_requested true s) then set_stop_requested false (set_stop_requested true s) else set_stop_requested true s)).
        { ds s. prj. subst. frame. }
        split; [|right; left; auto].
        eapply Jcore_frame; [exact SC|]. eapply Jcore_frame; [|exact H]. ds s. prj. subst. frame.
    + unfold begin_shutdown. prj. split.
      * ds s. prj. subst. jgo.
      * right. right. ds s. prj. subst. repeat split; auto. discriminate.
  - pose proof (coord_stop_J r (mkStop idx err (S2 0)) _ H (j1 _ _ H G)) as (A & B & D). split; [exact A|].
    destruct (start_d s) as [i|] eqn:Sd.
    * left. apply B. left. congruence.
    * destruct (stopping s) eqn:Stp.
      -- left. apply B. right. reflexivity.
      -- right. left. split; [reflexivity|split; [reflexivity|]]. specialize (D eq_refl eq_refl). rewrite G in D.
         assert (Sr : stop_requested s = false).
         { destruct (j5 _ _ H Sd) as [X|[X _]]; [congruence|]. unfold pristine in X. intuition. }
         eapply same_core_trans; [apply same_core_sr; exact Sr|exact D].
Qed.

(* ---------- rejoin_after_error ---------- *)
Lemma ogl_fields : forall s, let s' := fst (on_group_leave s) in
  start_d s' = start_d s /\ stopping s' = stopping s /\ stop_requested s' = stop_requested s /\ rejoin_needed s' = rejoin_needed s /\
  hb_running s' = hb_running s /\ timers s' = timers s /\ gens s' = gens s /\ escaped s' = escaped s /\ dc s' = dc s /\ is_group s' = is_group s.
Proof. intros s. unfold on_group_leave. ds s. destruct grp; cbn; repeat split; reflexivity. Qed.

Lemma fatal_J : forall r k s, Jcore r s -> start_d s <> None \/ stopping s = true ->
  Jcore r (fst (fatal k s)) /\ stopping (fst (fatal k s)) = true.
Proof.
  intros r k s H Hn. unfold fatal, seq.
  destruct (on_group_leave s) as [s1 o1] eqn:E.
  pose proof (ogl_J r s H) as [J1 C1]. pose proof (ogl_fields s) as (F1 & F2 & _). rewrite E in *. cbn [fst] in *.
  pose proof (do_stop_J r (-1) (Some k) s1 J1) as [J2 Q].
  destruct (do_stop (-1) (Some k) s1) as [s2 o2]. cbn [fst] in *. split; auto.
  destruct Q as [Q|[(Q1 & Q2 & _)|(_ & Q & _)]].
  - exact Q.
  - exfalso. rewrite F1 in Q1. rewrite F2 in Q2. destruct Hn; congruence.
  - congruence.
Qed.

Lemma schedule_rejoin_J : forall r d s, stopping s = false -> start_d s <> None -> Jcore r s ->
  let s' := fst (schedule_rejoin d s) in
  Jcore r s' /\ rejoin_needed s' = true /\ timers s' <> [] /\ stopping s' = false.
Proof.
  intros r d s Hs Hd H.
  assert (F9 : forall id, dc s = DcActive id -> In (id, TRejoin) (timers s)) by apply (j9 _ _ H).
  assert (F10 : dc s <> DcStale) by apply (j10 _ _ H Hs).
  unfold schedule_rejoin. ds s. prj. subst. destruct dc0 as [|id|]; unf; prj.
  - split; [jgo|split; [reflexivity|split; [discriminate|reflexivity]]].
    intros id0 E. inversion E. left. reflexivity.
  - split; [jgo|split; [reflexivity|split; [|reflexivity]]]. intros ->. apply (F9 id eq_refl).
  - congruence.
Qed.

Lemma resched_J : forall r d s, Jcore r s -> start_d s <> None \/ stopping s = true ->
  let s' := fst (resched d s) in
  Jcore r s' /\ (stopping s' = true \/ (rejoin_needed s' = true /\ timers s' <> [] /\ stopping s' = false)).
Proof.
  intros r d s H Hn. unfold resched. destruct (stopping s) eqn:Hs.
  - cbn [fst]. auto.
  - assert (Hd : start_d s <> None) by (destruct Hn; [auto|congruence]).
    pose proof (schedule_rejoin_J r d s Hs Hd H) as (A & B & C & D). split; auto.
Qed.

Lemma set_member_J : forall r s, Jcore r s -> consumers s = [] -> Jcore r (set_member 0 s).
Proof. intros r s H C. ds s. prj. subst. jgo. Qed.

Definition rae_post (r : option (Z * bool)) (s' : state) : Prop :=
  Jcore r s' /\ (stopping s' = true \/ (rejoin_needed s' = true /\ timers s' <> [] /\ stopping s' = false)).

Lemma ogl_resched : forall r d s, Jcore r s -> start_d s <> None \/ stopping s = true ->
  rae_post r (fst ((on_group_leave ;; resched d) s)).
Proof.
  intros r d s H Hn. unfold seq. destruct (on_group_leave s) as [s1 o1] eqn:E.
  pose proof (ogl_J r s H) as [J1 _]. pose proof (ogl_fields s) as (F1 & F2 & _). rewrite E in J1, F1, F2. cbn [fst] in *.
  pose proof (resched_J r d s1 J1 ltac:(rewrite F1, F2; exact Hn)) as X. destruct (resched d s1). exact X.
Qed.

Lemma ogl_member_resched : forall r d s, Jcore r s -> start_d s <> None \/ stopping s = true ->
  rae_post r (fst ((on_group_leave ;; upd (set_member 0) ;; resched d) s)).
Proof.
  intros r d s H Hn. unfold seq, upd. destruct (on_group_leave s) as [s1 o1] eqn:E.
  pose proof (ogl_J r s H) as [J1 C1]. pose proof (ogl_fields s) as (F1 & F2 & _). rewrite E in J1, C1, F1, F2. cbn [fst] in *.
  assert (N : start_d (set_member 0 s1) <> None \/ stopping (set_member 0 s1) = true) by (ds s1; prj; rewrite <- F1, <- F2 in Hn; exact Hn).
  pose proof (resched_J r d _ (set_member_J r s1 J1 C1) N) as X. destruct (resched d (set_member 0 s1)). exact X.
Qed.

Lemma ogl_reset_resched : forall r d s, Jcore r s -> start_d s <> None \/ stopping s = true ->
  rae_post r (fst ((on_group_leave ;; emit OReset ;; resched d) s)).
Proof.
  intros r d s H Hn. unfold seq, emit. destruct (on_group_leave s) as [s1 o1] eqn:E.
  pose proof (ogl_J r s H) as [J1 _]. pose proof (ogl_fields s) as (F1 & F2 & _). rewrite E in J1, F1, F2. cbn [fst] in *.
  pose proof (resched_J r d s1 J1 ltac:(rewrite F1, F2; exact Hn)) as X. destruct (resched d s1). exact X.
Qed.

Lemma reset_resched : forall r d s, Jcore r s -> start_d s <> None \/ stopping s = true ->
  rae_post r (fst ((emit OReset ;; resched d) s)).
Proof.
  intros r d s H Hn. unfold seq, emit. pose proof (resched_J r d s H Hn) as X. destruct (resched d s). exact X.
Qed.

Lemma rejoin_after_error_J : forall r k s, Jcore r s -> start_d s <> None \/ stopping s = true ->
  rae_post r (fst (rejoin_after_error k s)).
Proof.
  intros r k s H Hn. destruct k; cbn [rejoin_after_error].
  - apply resched_J; auto.
  - apply reset_resched; auto.
  - apply reset_resched; auto.
  - apply ogl_resched; auto.
  - apply ogl_member_resched; auto.
  - apply ogl_member_resched; auto.
  - apply resched_J; auto.
  - apply ogl_reset_resched; auto.
  - apply resched_J; auto.
  - pose proof (fatal_J r KCancelled s H Hn) as [A B]. destruct (stopping s) eqn:Hs; [cbn [fst]; split; auto|]. split; auto.
  - pose proof (fatal_J r KNonKafka s H Hn) as [A B]. split; auto.
Qed.
(* ---------- generator bookkeeping at the level of Inv ---------- *)
Lemma take_gen_J : forall (p : gen -> bool) s g rest, Jcore None s -> take_first p (gens s) = Some (g, rest) ->
  Jcore (Some (g_id g, adv g)) (set_gens rest s) /\ (stopping s = false -> rejoin_needed s = true /\ rest = []) /\
  (start_d s <> None \/ stopping s = true).
Proof.
  intros p s g rest H T.
  pose proof (take_first_cnt _ p adv _ _ _ T) as (_ & Hc & _).
  assert (NP : start_d s <> None \/ stopping s = true).
  { destruct (start_d s) eqn:Sd; [left; discriminate|]. destruct (j5 _ _ H Sd) as [X|[X _]]; [auto|].
    unfold pristine in X. destruct X as (X & _). rewrite X in T. discriminate. }
  assert (SG : stopping s = false -> rejoin_needed s = true /\ rest = [] /\ rejoin_d s = Some (g_id g)).
  { intros Hs. destruct (j8 _ _ H Hs) as [[X _]|(g0 & X & Y)]; [rewrite X in T; discriminate|].
    rewrite X in T. apply take_first_single in T. destruct T; subst. repeat split; auto.
    apply (j13 _ _ H Hs). rewrite X. discriminate. }
  split; [|split; [intros Hs; destruct (SG Hs) as (A & B & _); auto|exact NP]].
  ds s. prj. destruct (adv g) eqn:Ag; cbn [b2n] in Hc; jgo.
  all: try (intros E; destruct (SG E) as (_ & ? & ?); auto).
  all: try (intros E; right; exists g; intuition (subst; auto; congruence)).
  all: try (intros E1 E2; destruct (SG E1) as (_ & ? & _); congruence).
Qed.

Lemma Stab_eq : forall s s', stab_eq s s' -> Stab s -> Stab s'.
Proof. unfold stab_eq, Stab. intros s s' (A & B & C) H. rewrite A, B, C. exact H. Qed.

Lemma gen_end_Inv : forall x s, Jcore (Some x) s -> Stab s ->
  stopping s = true \/ stop_requested s = true \/ timers s <> [] \/ (rejoin_needed s = false /\ hb_running s = true) \/ escaped s = true ->
  Inv (fst (gen_end s)).
Proof.
  intros x s H St P. constructor.
  - apply (gen_end_J (Some x)); [discriminate|exact H].
  - ds s. exact St.
  - ds s. unfold Prog, progress; unf; prj. intuition congruence.
Qed.

Lemma add_gen_Inv : forall gid b g s, Jcore (Some (gid, b)) s -> Stab s -> g_id g = gid ->
  (adv g = true -> consumers s = [] /\ (b = true \/ (stopping s = false /\ stop_requested s = false))) ->
  (stopping s = false -> rejoin_needed s = true) -> Inv (add_gen g s).
Proof.
  intros gid b g s H St Hg Ha Hn. constructor.
  - eapply add_gen_J; eauto.
  - ds s. exact St.
  - ds s. unfold Prog, progress; unf; prj. intros. left. discriminate.
Qed.

Lemma rae_Stab_Prog : forall s, stopping s = true \/ (rejoin_needed s = true /\ timers s <> [] /\ stopping s = false) -> Stab s /\ Prog s.
Proof. intros s H. unfold Stab, Prog, progress. split; intros; intuition congruence. Qed.

Lemma set_escaped_J : forall r s, Jcore r s -> start_d s <> None \/ stopping s = true -> Jcore r (set_escaped true s).
Proof. intros r s H Hn. ds s. prj. jgo. Qed.

Lemma gen_fail_Inv : forall x k s, Jcore (Some x) s -> Stab s -> start_d s <> None \/ stopping s = true -> Inv (fst (gen_fail k s)).
Proof.
  intros x k s H St Hn. unfold gen_fail, seq.
  pose proof (gen_end_J (Some x) s ltac:(discriminate) H) as J1.
  destruct (gen_end s) as [s1 o1] eqn:E. cbn [fst] in J1.
  assert (F : start_d s1 = start_d s /\ stopping s1 = stopping s /\ stab_eq s s1).
  { unfold gen_end, upd in E. inversion E. ds s. cbn. unfold stab_eq; cbn. auto. }
  destruct F as (F1 & F2 & F3).
  destruct (is_kafka k).
  - pose proof (rejoin_after_error_J None k s1 J1 ltac:(rewrite F1, F2; exact Hn)) as [A B]; unfold rae_post in *.
    destruct (rejoin_after_error k s1) as [s2 o2]. cbn [fst] in *. destruct (rae_Stab_Prog _ B). constructor; auto.
  - unfold upd. cbn [fst]. constructor.
    + apply set_escaped_J; auto. rewrite F1, F2. exact Hn.
    + apply (Stab_eq s1); [ds s1; unfold stab_eq; cbn; auto|]. apply (Stab_eq s); auto.
    + ds s1. unfold Prog. prj. congruence.
Qed.

(* ---------- the event handlers ---------- *)
Ltac stabx St := eapply Stab_eq; [|exact St]; unfold stab_eq; repeat split; reflexivity.

Lemma with_gen_Inv : forall ph (k : gen -> act) s, Inv s ->
  (forall g rest, take_first (awaits ph) (gens s) = Some (g, rest) -> Inv (fst (k g (set_gens rest s)))) ->
  Inv (fst (with_gen ph k s)).
Proof.
  intros ph k s H K. unfold with_gen. destruct (take_first (awaits ph) (gens s)) as [[g rest]|] eqn:T; [apply K; auto|exact H].
Qed.

Lemma coord_retry_end_Inv : forall x d s, Jcore (Some x) s -> Stab s -> Inv (fst ((coord_retry d ;; gen_end) s)).
Proof.
  intros x d s H St. unfold seq, coord_retry, new_timer.
  change (fst (let (s2, o2) := gen_end (set_timers ((next_timer s, TCoordRetry) :: timers s) (set_next_timer (next_timer s + 1) s)) in
               (s2, [OSched TCoordRetry d (next_timer s)] ++ o2)))
    with (fst (gen_end (set_timers ((next_timer s, TCoordRetry) :: timers s) (set_next_timer (next_timer s + 1) s)))).
  apply (gen_end_Inv x).
  - ds s. jgo.
  - ds s. stabx St.
  - right. right. left. ds s. discriminate.
Qed.

Lemma set_gens_stab : forall l s, Stab s -> Stab (set_gens l s).
Proof. intros l s H. ds s. exact H. Qed.

Lemma on_lookup_Inv : forall rid r s, Inv s -> Inv (fst (on_lookup rid r s)).
Proof.
  intros rid r s H. unfold on_lookup. apply with_gen_Inv; auto. intros g rest T.
  pose proof (take_gen_J _ _ _ _ (i_core _ H) T) as (J1 & N1 & NP).
  assert (Ag : adv g = false).
  { apply take_first_cnt with (p := adv) in T. destruct T as (T & _). unfold awaits in T. unfold adv. destruct (g_ph g); auto; discriminate. }
  rewrite Ag in J1. pose proof (set_gens_stab rest s (i_stab _ H)) as St.
  assert (NP' : start_d (set_gens rest s) <> None \/ stopping (set_gens rest s) = true) by (ds s; exact NP).
  destruct r as [| |k].
  - unfold fresh_rid. cbn [fst].
    apply (add_gen_Inv (g_id g) false).
    + eapply Jcore_frame; [|exact J1]. ds s. frame.
    + ds s. stabx St.
    + reflexivity.
    + cbn. discriminate.
    + intros E. assert (X : stopping s = false) by (ds s; exact E). destruct (N1 X) as [Y _]. ds s. exact Y.
  - apply (coord_retry_end_Inv _ _ _ J1 St).
  - destruct k; try apply (coord_retry_end_Inv _ _ _ J1 St); apply (gen_fail_Inv _ _ _ J1 St NP').
Qed.

Lemma send_join_Inv : forall gid b s, Jcore (Some (gid, b)) s -> Stab s -> consumers s = [] -> (b = true \/ (stopping s = false /\ stop_requested s = false)) ->
  (stopping s = false -> rejoin_needed s = true) -> Inv (fst (send_join gid s)).
Proof.
  intros gid b s H St Hc Hb Hn.
  change (fst (send_join gid s)) with (add_gen (mkGen gid (GJoin (next_rid s))) (set_next_rid (next_rid s + 1) s)).
  apply (add_gen_Inv gid b).
  - eapply Jcore_frame; [|exact H]. ds s. frame.
  - ds s. stabx St.
  - reflexivity.
  - intros _. ds s. auto.
  - ds s. exact Hn.
Qed.

Lemma send_sync_Inv : forall gid ld s, Jcore (Some (gid, true)) s -> Stab s -> consumers s = [] ->
  (stopping s = false -> rejoin_needed s = true) -> Inv (fst (send_sync gid ld s)).
Proof.
  intros gid ld s H St Hc Hn.
  change (fst (send_sync gid ld s)) with (add_gen (mkGen gid (GSync (next_rid s))) (set_next_rid (next_rid s + 1) s)).
  apply (add_gen_Inv gid true).
  - eapply Jcore_frame; [|exact H]. ds s. frame.
  - ds s. stabx St.
  - reflexivity.
  - intros _. ds s. auto.
  - ds s. exact Hn.
Qed.

Lemma prepare_and_join_Inv : forall gid s, Jcore (Some (gid, false)) s -> Stab s -> stopping s = false -> stop_requested s = false -> rejoin_needed s = true ->
  Inv (fst (prepare_and_join gid s)).
Proof.
  intros gid s H St Hs Hr Hn. unfold prepare_and_join. destruct (is_group s) eqn:G.
  - destruct (consumers s) as [|c cs'] eqn:C.
    + apply (send_join_Inv gid false); auto.
    + unfold begin_shutdown. cbn [fst].
      apply (add_gen_Inv gid false).
      * ds s. prj. subst. jgo.
      * ds s. stabx St.
      * reflexivity.
      * intros _. ds s. prj. auto.
      * ds s. prj. auto.
  - apply (send_join_Inv gid false); auto. apply (j1 _ _ H G).
Qed.

Lemma stop_pend_cases : forall s, stop_pend s = true -> stopping s = true \/ stop_requested s = true.
Proof. intros s. unfold stop_pend. destruct (stopping s), (stop_requested s); auto. Qed.
Lemma stop_pend_false : forall s, stop_pend s = false -> stopping s = false /\ stop_requested s = false.
Proof. intros s. unfold stop_pend. destruct (stopping s), (stop_requested s); auto; discriminate. Qed.

Lemma on_meta_Inv : forall rid r s, Inv s -> Inv (fst (on_meta rid r s)).
Proof.
  intros rid r s H. unfold on_meta. apply with_gen_Inv; auto. intros g rest T.
  pose proof (take_gen_J _ _ _ _ (i_core _ H) T) as (J1 & N1 & NP).
  assert (Ag : adv g = false).
  { apply take_first_cnt with (p := adv) in T. destruct T as (T & _). unfold awaits in T. unfold adv. destruct (g_ph g); auto; discriminate. }
  rewrite Ag in J1. pose proof (set_gens_stab rest s (i_stab _ H)) as St.
  assert (NP' : start_d (set_gens rest s) <> None \/ stopping (set_gens rest s) = true) by (ds s; exact NP).
  destruct r as [|k]; [|apply (gen_fail_Inv _ _ _ J1 St NP')].
  destruct (stop_pend (set_gens rest s)) eqn:SP.
  - apply (gen_end_Inv _ _ J1 St). apply stop_pend_cases in SP. intuition.
  - apply stop_pend_false in SP. destruct SP as [SP1 SP2].
    apply prepare_and_join_Inv.
    + eapply Jcore_frame; [|exact J1]. ds s. frame.
    + ds s. stabx St.
    + ds s. exact SP1.
    + ds s. exact SP2.
    + assert (X : stopping s = false) by (ds s; exact SP1). destruct (N1 X). ds s. auto.
Qed.

Lemma rae_end_Inv : forall x k s, Jcore (Some x) s -> start_d s <> None \/ stopping s = true ->
  Inv (fst ((rejoin_after_error k ;; gen_end) s)).
Proof.
  intros x k s H Hn. unfold seq.
  pose proof (rejoin_after_error_J (Some x) k s H Hn) as [A B]; unfold rae_post in *.
  destruct (rejoin_after_error k s) as [s1 o1]. cbn [fst] in *.
  destruct (rae_Stab_Prog _ B) as [St _].
  pose proof (gen_end_Inv x s1 A St ltac:(intuition)) as X. destruct (gen_end s1). exact X.
Qed.

Lemma adv_cons_nil : forall gid s, Jcore (Some (gid, true)) s -> consumers s = [].
Proof. intros gid s H. destruct (j2 _ _ H) as [X|X]; auto. cbn in X. lia. Qed.

Lemma awaits_adv : forall ph g, awaits ph g = true -> adv g = match ph with GLookup _ | GMeta _ => false | _ => true end.
Proof. intros ph g. unfold awaits, adv. destruct ph, (g_ph g); auto; discriminate. Qed.

Lemma on_join_Inv : forall rid r s, Inv s -> Inv (fst (on_join rid r s)).
Proof.
  intros rid r s H. unfold on_join. apply with_gen_Inv; auto. intros g rest T.
  pose proof (take_gen_J _ _ _ _ (i_core _ H) T) as (J1 & N1 & NP).
  assert (Ag : adv g = true).
  { apply take_first_cnt with (p := adv) in T. destruct T as (T & _). apply awaits_adv in T. exact T. }
  rewrite Ag in J1. pose proof (set_gens_stab rest s (i_stab _ H)) as St.
  assert (NP' : start_d (set_gens rest s) <> None \/ stopping (set_gens rest s) = true) by (ds s; exact NP).
  pose proof (adv_cons_nil _ _ J1) as C0.
  destruct r as [gn' mem' role|k]; [|apply (rae_end_Inv _ _ _ J1 NP')].
  unfold seq, upd.
  set (s1 := set_cur_assign [] (set_generation gn' (set_member mem' (set_gens rest s)))).
  assert (J2 : Jcore (Some (g_id g, true)) s1). { subst s1. ds s. prj. subst. jgo. }
  assert (St2 : Stab s1). { subst s1. ds s. stabx St. }
  assert (C2 : consumers s1 = []). { subst s1. ds s. exact C0. }
  assert (N2 : stopping s1 = false -> rejoin_needed s1 = true). { subst s1. intros E. assert (X : stopping s = false) by (ds s; exact E). destruct (N1 X). ds s. auto. }
  assert (NP2 : start_d s1 <> None \/ stopping s1 = true). { subst s1. ds s. exact NP. }
  clearbody s1.
  match goal with |- Inv (fst (let (s2, o2) := ?X in _)) => assert (GG : Inv (fst X)); [|destruct X; exact GG] end.
  destruct (stop_pend s1) eqn:SP.
  - apply (gen_end_Inv _ _ J2 St2). apply stop_pend_cases in SP. intuition.
  - destruct (role =? 0).
    + apply (send_sync_Inv _ _ _ J2 St2 C2 N2).
    + destruct (role =? 1).
      * unfold fresh_rid. cbn [fst]. apply (add_gen_Inv (g_id g) true).
        -- eapply Jcore_frame; [|exact J2]. ds s1. frame.
        -- ds s1. stabx St2.
        -- reflexivity.
        -- intros _. ds s1. auto.
        -- ds s1. exact N2.
      * apply (gen_fail_Inv _ _ _ J2 St2 NP2).
Qed.

Lemma on_parts_Inv : forall rid r s, Inv s -> Inv (fst (on_parts rid r s)).
Proof.
  intros rid r s H. unfold on_parts. apply with_gen_Inv; auto. intros g rest T.
  pose proof (take_gen_J _ _ _ _ (i_core _ H) T) as (J1 & N1 & NP).
  assert (Ag : adv g = true).
  { apply take_first_cnt with (p := adv) in T. destruct T as (T & _). apply awaits_adv in T. exact T. }
  rewrite Ag in J1. pose proof (set_gens_stab rest s (i_stab _ H)) as St.
  assert (NP' : start_d (set_gens rest s) <> None \/ stopping (set_gens rest s) = true) by (ds s; exact NP).
  pose proof (adv_cons_nil _ _ J1) as C0.
  destruct r as [| |k]; try apply (gen_fail_Inv _ _ _ J1 St NP').
  destruct (stop_pend (set_gens rest s)) eqn:SP.
  - apply (gen_end_Inv _ _ J1 St). apply stop_pend_cases in SP. intuition.
  - apply (send_sync_Inv _ _ _ J1 St C0). intros E. assert (X : stopping s = false) by (ds s; exact E). destruct (N1 X). ds s. auto.
Qed.

(* consumers started by on_join_complete *)
Lemma insert_by_Forall : forall A (key : A -> Z) (P : A -> Prop) x l, P x -> Forall P l -> Forall P (insert_by key x l).
Proof.
  intros A key P x l Hx Hl. induction Hl as [|y l Hy Hl IH]; cbn [insert_by]; [constructor; auto|].
  destruct ((key y =? key x) && negb (existsb (fun z => key z =? key x) l)); repeat constructor; auto.
Qed.
Lemma insert_by_In : forall A (key : A -> Z) x y l, In y (insert_by key x l) -> y = x \/ In y l.
Proof.
  intros A key x y l. induction l as [|z l IH]; cbn [insert_by]; [intros [->|[]]; auto|].
  destruct ((key z =? key x) && negb (existsb (fun w => key w =? key x) l)).
  - intros [->|[->|H]]; auto; right; [left|right]; auto.
  - intros [->|H]; [right; left; auto|]. destruct (IH H); auto. right; right; auto.
Qed.
Lemma group_by_topic_In : forall asg x, In x (group_by_topic asg) -> In x asg.
Proof.
  intros asg x. unfold group_by_topic.
  assert (G : forall l acc, In x (fold_left (fun acc tp => insert_by fst tp acc) l acc) -> In x l \/ In x acc).
  { induction l as [|y l IH]; cbn [fold_left]; intros acc H; [auto|].
    destruct (IH _ H) as [X|X]; [left; right; auto|]. apply insert_by_In in X. destruct X as [->|X]; [left; left; auto|auto]. }
  intros H. destruct (G _ _ H) as [X|[]]; auto.
Qed.

Lemma seq_fst : forall (a b : act) s, fst ((a ;; b) s) = fst (b (fst (a s))).
Proof. intros. unfold seq. destruct (a s) as [s1 o1]. cbn [fst]. destruct (b s1). reflexivity. Qed.

Lemma start_consumers_spec : forall tps s, let s' := fst (start_consumers tps s) in
  same_core (set_consumers (consumers s') s) s' /\
  (forall P : consumer -> Prop, Forall P (consumers s) ->
     (forall t p cid, In (t, p) tps -> P (mkC cid t p (generation s) (member s) false)) -> Forall P (consumers s')).
Proof.
  induction tps as [|[t p] tps IH]; intros s; cbn [start_consumers].
  - unfold skip. cbn [fst]. split; [ds s; frame|auto].
  - rewrite seq_fst. cbn beta. cbn [fst].
    set (s1 := set_consumers (insert_by c_topic (mkC (next_cid s) t p (generation s) (member s) false) (consumers s)) (set_next_cid (next_cid s + 1) s)).
    destruct (IH s1) as [A B]. split.
    + subst s1. ds s. unfold same_core in *. prj. exact A.
    + intros P HP HA. apply B.
      * subst s1. ds s. prj. apply insert_by_Forall; auto. apply HA. left; auto.
      * intros t' p' cid Hin. subst s1. ds s. prj. apply HA. right; auto.
Qed.


Lemma reset_hb_fst : forall s, fst (reset_heartbeat_timer s) = set_hb_running true s.
Proof. intros s. unfold reset_heartbeat_timer. destruct (hb_running s) eqn:E; cbn [fst]; [|reflexivity]. ds s. cbn in E. subst. reflexivity. Qed.

Lemma sync_ok_gen_Inv : forall gid asg (a : act) s, Jcore (Some (gid, true)) s -> stop_pend s = false ->
  (forall sA, consumers sA = [] -> stop_requested sA = false -> is_group sA = is_group s ->
     exists cs', same_core (set_consumers cs' sA) (fst (a sA)) /\
                 Forall (cons_ok (generation sA) (member sA) asg) cs' /\ (is_group sA = false -> cs' = [])) ->
  Inv (fst ((upd (set_cur_assign asg) ;; reset_heartbeat_timer ;; upd (set_rejoin_needed false) ;; a ;; gen_end) s)).
Proof.
  intros gid asg a s H SP HA. apply stop_pend_false in SP. destruct SP as [Hs Hr].
  rewrite !seq_fst. unfold upd at 1 2. cbn [fst]. rewrite reset_hb_fst.
  set (sA := set_rejoin_needed false (set_hb_running true (set_cur_assign asg s))).
  assert (C0 : consumers s = []) by apply (adv_cons_nil _ _ H).
  assert (G0 : gens s = [] /\ rejoin_d s = Some gid) by apply (j8 _ _ H Hs).
  assert (X : exists cs', same_core (set_consumers cs' sA) (fst (a sA)) /\
                          Forall (cons_ok (generation s) (member s) asg) cs' /\ (is_group s = false -> cs' = [])).
  { destruct (HA sA) as (cs' & A1 & A2 & A3); [subst sA; ds s; exact C0|subst sA; ds s; exact Hr|subst sA; ds s; reflexivity|].
    exists cs'. split; [exact A1|]. split; [subst sA; ds s; exact A2|subst sA; ds s; exact A3]. }
  destruct X as (cs' & SC & FA & NG).
  set (sB := fst (a sA)) in *. clearbody sB.
  assert (JB : Jcore None (set_rejoin_d None (set_consumers cs' sA))).
  { subst sA. destruct G0 as [G1 G2]. ds s. prj. subst. jgo. }
  assert (SC' : same_core (set_rejoin_d None (set_consumers cs' sA)) (fst (gen_end sB))).
  { unfold gen_end, upd. cbn [fst]. subst sA. ds s. destruct sB. unfold same_core in *. prj. intuition. }
  constructor.
  - eapply Jcore_frame; [exact SC'|exact JB].
  - unfold same_core in SC'. destruct SC' as (_&_&_&_&E1&E2&_&_&_&E3&_). unfold Stab. rewrite E1, E2, E3. subst sA. ds s. prj. auto.
  - unfold same_core in SC'. destruct SC' as (_&_&_&_&E1&E2&_&_&_&E3&_). unfold Prog, progress. rewrite E1, E3. intros. right. left. subst sA. ds s. prj. auto.
Qed.

Lemma on_sync_ok_Inv : forall gid asg s, Jcore (Some (gid, true)) s -> stop_pend s = false ->
  Inv (fst ((upd (set_cur_assign asg) ;; reset_heartbeat_timer ;; upd (set_rejoin_needed false) ;; on_join_complete asg ;; gen_end) s)).
Proof.
  intros gid asg s H SP. apply (sync_ok_gen_Inv gid asg (on_join_complete asg) s H SP).
  intros sA C0 Hr _. unfold on_join_complete. destruct (is_group sA) eqn:G.
  - rewrite Hr. destruct (start_consumers_spec (group_by_topic asg) sA) as [A B].
    exists (consumers (fst (start_consumers (group_by_topic asg) sA))). split; [exact A|]. split.
    + apply B; [rewrite C0; constructor|]. intros t p cid Hin. unfold cons_ok. cbn. repeat split; auto. apply group_by_topic_In; auto.
    + intros E. congruence.
  - exists []. cbn [fst]. split; [ds sA; cbn in C0; subst; frame|]. split; [constructor|auto].
Qed.

Lemma firstn_In : forall A (l : list A) n x, In x (firstn n l) -> In x l.
Proof. induction l as [|y l IH]; intros [|n] x H; cbn in *; try tauto. destruct H as [H|H]; [left; exact H|right; eapply IH; eauto]. Qed.

Lemma set_escaped_Inv : forall s, Inv s -> start_d s <> None \/ stopping s = true -> Inv (set_escaped true s).
Proof.
  intros s [A B C] NP. constructor.
  - apply set_escaped_J; auto.
  - ds s. exact B.
  - ds s. unfold Prog. prj. congruence.
Qed.

Lemma on_sync_raise_Inv : forall gid asg n s, Jcore (Some (gid, true)) s -> stop_pend s = false -> is_group s = true ->
  start_d s <> None \/ stopping s = true ->
  Inv (fst ((upd (set_cur_assign asg) ;; reset_heartbeat_timer ;; upd (set_rejoin_needed false) ;;
             start_consumers (firstn n (group_by_topic asg)) ;; gen_fail KNonKafka) s)).
Proof.
  intros gid asg n s H SP G NP.
  assert (X : Inv (fst ((upd (set_cur_assign asg) ;; reset_heartbeat_timer ;; upd (set_rejoin_needed false) ;;
                        start_consumers (firstn n (group_by_topic asg)) ;; gen_end) s))).
  { apply (sync_ok_gen_Inv gid asg _ s H SP). intros sA C0 Hr GA.
    destruct (start_consumers_spec (firstn n (group_by_topic asg)) sA) as [A B].
    exists (consumers (fst (start_consumers (firstn n (group_by_topic asg)) sA))). split; [exact A|]. split.
    - apply B; [rewrite C0; constructor|]. intros t p cid Hin. unfold cons_ok. cbn. repeat split; auto.
      apply group_by_topic_In. eapply firstn_In; eauto.
    - intros E. congruence. }
  (* gen_fail KNonKafka = gen_end, then the exception is only logged: the ghost flag *)
  assert (E : forall s0, fst ((upd (set_cur_assign asg) ;; reset_heartbeat_timer ;; upd (set_rejoin_needed false) ;;
                               start_consumers (firstn n (group_by_topic asg)) ;; gen_fail KNonKafka) s0)
                       = set_escaped true (fst ((upd (set_cur_assign asg) ;; reset_heartbeat_timer ;; upd (set_rejoin_needed false) ;;
                               start_consumers (firstn n (group_by_topic asg)) ;; gen_end) s0))).
  { intros s0. rewrite !seq_fst. unfold gen_fail. rewrite seq_fst. cbn [is_kafka]. unfold upd at 3. cbn [fst]. reflexivity. }
  rewrite E. apply set_escaped_Inv; auto.
  (* start_d / stopping are untouched by the whole sequence *)
  rewrite !seq_fst. unfold gen_end, upd. cbn [fst]. rewrite !reset_hb_fst.
  set (sA := set_rejoin_needed false (set_hb_running true (set_cur_assign asg s))).
  destruct (start_consumers_spec (firstn n (group_by_topic asg)) sA) as [SC _]. unfold same_core in SC.
  destruct SC as (_ & _ & _ & S1 & _ & S2 & _).
  assert (X1 : start_d (set_rejoin_d None (fst (start_consumers (firstn n (group_by_topic asg)) sA))) = start_d s).
  { destruct (fst (start_consumers (firstn n (group_by_topic asg)) sA)). cbn in *. rewrite S1. subst sA. ds s. reflexivity. }
  assert (X2 : stopping (set_rejoin_d None (fst (start_consumers (firstn n (group_by_topic asg)) sA))) = stopping s).
  { destruct (fst (start_consumers (firstn n (group_by_topic asg)) sA)). cbn in *. rewrite S2. subst sA. ds s. reflexivity. }
  rewrite X1, X2. exact NP.
Qed.

Lemma on_sync_Inv : forall rid r s, Inv s -> Inv (fst (on_sync rid r s)).
Proof.
  intros rid r s H. unfold on_sync. apply with_gen_Inv; auto. intros g rest T.
  pose proof (take_gen_J _ _ _ _ (i_core _ H) T) as (J1 & N1 & NP).
  assert (Ag : adv g = true).
  { apply take_first_cnt with (p := adv) in T. destruct T as (T & _). apply awaits_adv in T. exact T. }
  rewrite Ag in J1. pose proof (set_gens_stab rest s (i_stab _ H)) as St.
  assert (NP' : start_d (set_gens rest s) <> None \/ stopping (set_gens rest s) = true) by (ds s; exact NP).
  destruct r as [asg| | |k|asg n]; try apply (rae_end_Inv _ _ _ J1 NP').
  all: destruct (stop_pend (set_gens rest s)) eqn:SP;
    [apply (gen_end_Inv _ _ J1 St); apply stop_pend_cases in SP; intuition|].
  - apply (on_sync_ok_Inv _ _ _ J1 SP).
  - apply (gen_fail_Inv _ _ _ J1 St NP').
  - apply (gen_fail_Inv _ _ _ J1 St NP').
  - destruct (ctor_raises asg n (set_gens rest s)) eqn:CR; [|apply (on_sync_ok_Inv _ _ _ J1 SP)].
    apply (on_sync_raise_Inv _ _ _ _ J1 SP); auto.
    unfold ctor_raises in CR. destruct (is_group (set_gens rest s)); [reflexivity|discriminate].
Qed.

Lemma Inv_frame : forall s s', same_core s s' -> Inv s -> Inv s'.
Proof.
  intros s s' E [A B C]. constructor.
  - eapply Jcore_frame; eauto.
  - unfold same_core in E. destruct E as (_&_&_&_&E1&E2&_&_&_&E3&_). unfold Stab. rewrite E1, E2, E3. exact B.
  - unfold same_core in E. destruct E as (_&_&_&E0&E1&E2&E4&_&_&E3&_&E5&_&E6&_&_&E7). unfold Prog, progress.
    rewrite E0, E1, E2, E3, E4, E5, E6, E7. exact C.
Qed.

Lemma on_tick_Inv : forall s, Inv s -> Inv (fst (on_tick s)).
Proof.
  intros s H. unfold on_tick. destruct (hb_running s) eqn:Hb; [|exact H].
  destruct (stopping s || rejoin_needed s || match hb_req s with Some _ => true | None => false end); [exact H|].
  cbn [fst]. destruct H as [A B C]. constructor.
  - ds s. prj. subst. jgo.
  - ds s. exact B.
  - ds s. exact C.
Qed.

Lemma on_hb_reply_Inv : forall rid r s, Inv s -> Inv (fst (on_hb_reply rid r s)).
Proof.
  intros rid r s H. unfold on_hb_reply. destruct (hb_req s) as [rid'|] eqn:Hq; [|exact H].
  destruct (rid' =? rid); [|exact H].
  assert (NP : start_d s <> None \/ stopping s = true).
  { destruct (start_d s) eqn:Sd; [left; discriminate|]. destruct (j5 _ _ (i_core _ H) Sd) as [X|[X _]]; [auto|].
    unfold pristine in X. destruct X as (_&_&_&_&X&_). congruence. }
  destruct H as [A B C].
  destruct r as [|k].
  - cbn [fst]. constructor; [ds s; prj; subst; jgo|ds s; exact B|ds s; exact C].
  - destruct (hb_running (set_hb_req None s)) eqn:Hb.
    + rewrite seq_fst. unfold hb_stop at 1. cbn [fst].
      assert (J1 : Jcore None (set_hb_running false (set_hb_req None s))). { ds s. prj. subst. jgo. }
      assert (NP1 : start_d (set_hb_running false (set_hb_req None s)) <> None \/ stopping (set_hb_running false (set_hb_req None s)) = true) by (ds s; exact NP).
      pose proof (rejoin_after_error_J None k _ J1 NP1) as [X Y].
      destruct (rae_Stab_Prog _ Y). constructor; auto.
    + cbn [fst]. constructor; [ds s; prj; subst; jgo|ds s; exact B|ds s; exact C].
Qed.

(* join_and_sync: everything but the bookkeeping of the DelayedCall is required of the state it is called in *)
Lemma join_and_sync_Inv : forall s, Jcore None (set_dc DcNone s) ->
  (forall id, dc s = DcActive id -> In (id, TRejoin) (timers s)) -> Stab s ->
  start_d s <> None \/ stopping s = true -> Inv (fst (join_and_sync s)).
Proof.
  intros s H H9 St NP. unfold join_and_sync.
  destruct (is_group s && stop_requested s) eqn:GS.
  - assert (Sr : stop_requested s = true) by (destruct (is_group s), (stop_requested s); auto; discriminate).
    cbn [fst]. destruct (dc s) as [|id|] eqn:D.
    + constructor; [|ds s; stabx St|ds s; unfold Prog; prj; congruence].
      eapply Jcore_frame; [|exact H]. ds s. prj. subst. frame.
    + constructor; [|exact St|unfold Prog; congruence].
      specialize (H9 id eq_refl). ds s. prj. subst. jgo.
    + constructor; [|ds s; stabx St|ds s; unfold Prog; prj; congruence].
      eapply Jcore_frame; [|exact H]. ds s. prj. subst. frame.
  - destruct (rejoin_needed (set_dc DcNone s)) eqn:Rn; cbn [negb].
    2:{ cbn [fst]. constructor; [exact H|ds s; stabx St|].
        unfold Prog, progress. intros _ Hs _ _. right. left. split; [exact Rn|].
        assert (Hs' : stopping s = false) by (ds s; exact Hs). assert (Rn' : rejoin_needed s = false) by (ds s; exact Rn).
        specialize (St Hs' Rn'). ds s. exact St. }
    destruct (rejoin_d (set_dc DcNone s)) as [gid|] eqn:Rd.
    + cbn [fst]. constructor; [exact H|ds s; stabx St|].
      unfold Prog, progress. intros _ Hs _ _. left. destruct (j8 _ _ H Hs) as [[_ X]|(g & X & _)]; [congruence|rewrite X; discriminate].
    + cbn [fst]. unfold add_gen. constructor; [|ds s; stabx St|ds s; unfold Prog, progress; prj; intros; left; discriminate].
      assert (G0 : stopping s = false -> gens s = []).
      { intros Hs. assert (Hs' : stopping (set_dc DcNone s) = false) by (ds s; exact Hs).
        destruct (j8 _ _ H Hs') as [[X _]|(g & _ & X)]; [ds s; exact X|congruence]. }
      ds s. prj. subst. jgo; rewrite ?cnt_cons, ?cnt_nil in *; cbn [adv g_ph b2n] in *.
      all: try (intros E; right; eexists; rewrite (G0 E); split; reflexivity).
Qed.

Lemma on_fire_Inv : forall id s, Inv s -> Inv (fst (on_fire id s)).
Proof.
  intros id s H. unfold on_fire. destruct (existsb (fun t => fst t =? id) (timers s)) eqn:Ex; [|exact H].
  assert (NP : start_d s <> None \/ stopping s = true).
  { destruct (start_d s) eqn:Sd; [left; discriminate|]. destruct (j5 _ _ (i_core _ H) Sd) as [X|[X _]]; [auto|].
    unfold pristine in X. destruct X as (_&_&_&_&_&X&_). rewrite X in Ex. discriminate. }
  destruct H as [A B C].
  assert (F9 : forall i, dc s = DcActive i -> In (i, TRejoin) (timers s)) by apply (j9 _ _ A).
  apply join_and_sync_Inv.
  - unfold remove_timer. ds s. destruct dc0 as [|id'|]; [|assert (E : exists b, (id' =? id) = b) by eauto; destruct E as [[|] E]|]; prj; rewrite ?E; prj; jgo.
  - unfold remove_timer. intros id0. ds s. destruct dc0 as [|id'|]; [|assert (E : exists b, (id' =? id) = b) by eauto; destruct E as [[|] E]|]; prj; rewrite ?E; prj; try discriminate.
    intros X. inversion X. subst id0. apply filter_In. split; [apply F9; reflexivity|]. cbn. rewrite E. reflexivity.
  - unfold remove_timer. ds s. destruct dc0 as [|id'|]; [|assert (E : exists b, (id' =? id) = b) by eauto; destruct E as [[|] E]|]; prj; rewrite ?E; stabx B.
  - unfold remove_timer. ds s. destruct dc0 as [|id'|]; [|assert (E : exists b, (id' =? id) = b) by eauto; destruct E as [[|] E]|]; prj; rewrite ?E; exact NP.
Qed.

Lemma stopping_Inv : forall s, Jcore None s -> stopping s = true -> Inv s.
Proof. intros s H E. constructor; auto; [unfold Stab|unfold Prog]; intros; congruence. Qed.

Lemma on_leave_Inv : forall rid r s, Inv s -> Inv (fst (on_leave rid r s)).
Proof.
  intros rid r s H. unfold on_leave. destruct (take_first (is_s2 rid) (stops s)) as [[st rest]|] eqn:T; [|exact H].
  destruct H as [A B C].
  pose proof (take_first_cnt _ _ has_s2 _ _ _ T) as (P & Hc & _).
  assert (P2 : has_s2 st = true). { unfold is_s2 in P. unfold has_s2. destruct (st_ph st); [discriminate|reflexivity]. }
  pose proof (take_first_cnt _ _ has_s1 _ _ _ T) as (_ & Hc1 & _).
  rewrite P2 in Hc. cbn [b2n] in Hc.
  assert (S : stopping s = true /\ start_d s <> None /\ cnt has_s2 rest = 0%nat).
  { destruct (j6 _ _ A) as [X|(X & Y & Z)]; [lia|]. repeat split; auto. lia. }
  destruct S as (S1 & S2 & S3). pose proof (j3 _ _ A (or_intror S1)) as C0.
  set (s1 := match r with ROk => set_cur_assign [] (set_generation (-1) (set_member 0 (set_stops rest s))) | RFail _ => set_stops rest s end).
  assert (J1 : Jcore None s1 /\ stopping s1 = true /\ cnt has_s2 (stops s1) = 0%nat).
  { subst s1. destruct r; ds s; prj; subst; (split; [jgo|split; [reflexivity|exact S3]]). }
  destruct J1 as (J1 & X1 & X2).
  pose proof (stop_tail_J None st s1 X1 X2 J1) as [Y1 Y2].
  apply stopping_Inv; assumption.
Qed.

(* ---------- a partition consumer fails ---------- *)
Lemma cnt_adv_failc : forall cid l, cnt adv (map (gen_fail_c cid) l) = cnt adv l.
Proof. intros. apply cnt_map. intros [i ph]. destruct ph; reflexivity. Qed.
Lemma cnt_s1_failc : forall cid l, cnt has_s1 (map (stop_fail_c cid) l) = cnt has_s1 l.
Proof. intros. apply cnt_map. intros [i e ph]. destruct ph; reflexivity. Qed.
Lemma cnt_s2_failc : forall cid l, cnt has_s2 (map (stop_fail_c cid) l) = cnt has_s2 l.
Proof. intros. apply cnt_map. intros [i e ph]. destruct ph; reflexivity. Qed.
Lemma gen_fail_c_id : forall cid g, g_id (gen_fail_c cid g) = g_id g.
Proof. intros cid [i ph]. destruct ph; reflexivity. Qed.
Lemma cons_ok_failc : forall g m ca cid l, Forall (cons_ok g m ca) l -> Forall (cons_ok g m ca) (map (c_fail cid) l).
Proof.
  intros g m ca cid l H. induction H as [|c l Hc Hl IH]; cbn [map]; constructor; auto.
  unfold c_fail. destruct (c_id c =? cid); auto.
Qed.
Lemma map_nil_iff : forall A B (f : A -> B) l, map f l = [] <-> l = [].
Proof. intros. destruct l; cbn; split; auto; discriminate. Qed.

Lemma cfail_maps_Inv : forall cid s, Inv s ->
  Inv (set_stops (map (stop_fail_c cid) (stops s)) (set_gens (map (gen_fail_c cid) (gens s)) (set_consumers (map (c_fail cid) (consumers s)) s))).
Proof.
  intros cid s [A B C]. constructor.
  - ds s. prj. jdes. prj. constructor; prj; unfold pristine in *; prj;
      rewrite ?cnt_adv_failc, ?cnt_s1_failc, ?cnt_s2_failc, ?map_nil_iff in *; auto.
    all: try (apply cons_ok_failc; assumption).
    all: try (intros E; destruct (h8 E) as [[X Y]|(g & X & Y)]; [left; subst; auto|right]; exists (gen_fail_c cid g); subst; rewrite gen_fail_c_id; auto; fail).
    all: try (intros E; destruct (h5 E) as [X|[X Y]]; auto; right; split; auto; intuition; subst; reflexivity).
  - ds s. exact B.
  - ds s. unfold Prog, progress in *. prj. rewrite map_nil_iff. exact C.
Qed.

Lemma on_cfail_Inv : forall cid k s, Inv s -> Inv (fst (on_cfail cid k s)).
Proof.
  intros cid k s H. unfold on_cfail. destruct (can_fail cid s) eqn:CF; [|exact H].
  assert (NP : start_d s <> None \/ stopping s = true).
  { destruct (start_d s) eqn:Sd; [left; discriminate|]. destruct (j5 _ _ (i_core _ H) Sd) as [X|[X _]]; [auto|].
    unfold pristine in X. destruct X as (X1&X2&X3&_). unfold can_fail in CF. rewrite X1, X2, X3 in CF. discriminate. }
  pose proof (cfail_maps_Inv cid s H) as H1.
  set (s1 := set_stops (map (stop_fail_c cid) (stops s)) (set_gens (map (gen_fail_c cid) (gens s)) (set_consumers (map (c_fail cid) (consumers s)) s))) in *.
  assert (NP1 : start_d s1 <> None \/ stopping s1 = true) by (subst s1; ds s; exact NP).
  clearbody s1.
  assert (R : Inv (fst (rejoin_after_error k s1))).
  { pose proof (rejoin_after_error_J None k s1 (i_core _ H1) NP1) as [X Y]. destruct (rae_Stab_Prog _ Y). constructor; auto. }
  destruct k; try exact R. destruct (consumers s1); [exact H1|exact R].
Qed.

(* ---------- a partition consumer's shutdown Deferred fires ---------- *)
Lemma sh_has_prep : forall cid g, sh_has cid (gen_list g) = true -> adv g = true.
Proof. intros cid [i ph]. destruct ph; cbn; auto; discriminate. Qed.
Lemma sh_has_s1 : forall cid st, sh_has cid (stop_list st) = true -> has_s1 st = true /\ has_s2 st = false.
Proof. intros cid [i e ph]. destruct ph; cbn; auto; discriminate. Qed.

Lemma after_prepare_Inv : forall gid s, Jcore (Some (gid, true)) s -> Stab s ->
  (stopping s = false -> rejoin_needed s = true) -> Inv (fst (after_prepare gid s)).
Proof.
  intros gid s H St N. unfold after_prepare. destruct (stop_pend s) eqn:SP.
  - apply (gen_end_Inv _ _ H St). apply stop_pend_cases in SP. intuition.
  - apply (send_join_Inv gid true); auto. apply (adv_cons_nil _ _ H).
Qed.

Lemma emits_fst : forall (o : list output) (a : act) s, fst ((emits o ;; a) s) = fst (a s).
Proof. intros. unfold seq, emits. destruct (a s). reflexivity. Qed.

Lemma on_cshut_Inv : forall cid ok s, Inv s -> Inv (fst (on_cshut cid ok s)).
Proof.
  intros cid ok s H. unfold on_cshut.
  destruct (take_first (fun g => sh_has cid (gen_list g)) (gens s)) as [[g rest]|] eqn:T.
  - pose proof (take_gen_J _ _ _ _ (i_core _ H) T) as (J1 & N1 & NP).
    assert (Ag : adv g = true). { apply take_first_cnt with (p := adv) in T. destruct T as (T & _). apply sh_has_prep in T. exact T. }
    rewrite Ag in J1. pose proof (set_gens_stab rest s (i_stab _ H)) as St.
    assert (N2 : stopping (set_gens rest s) = false -> rejoin_needed (set_gens rest s) = true).
    { intros E. assert (X : stopping s = false) by (ds s; exact E). destruct (N1 X) as [Y _]. ds s. exact Y. }
    assert (RE : forall l', Inv (set_gens (mkGen (g_id g) (GPrepare l') :: rest) s)).
    { intros l'. change (set_gens (mkGen (g_id g) (GPrepare l') :: rest) s) with (add_gen (mkGen (g_id g) (GPrepare l')) (set_gens rest s)) .
      apply (add_gen_Inv (g_id g) true); auto. intros _. split; [apply (adv_cons_nil _ _ J1)|auto]. }
    destruct ok.
    + destruct (sh_all_done (sh_mark_done cid (gen_list g))); [apply after_prepare_Inv; auto|apply RE].
    + rewrite emits_fst. apply after_prepare_Inv; auto.
  - destruct (take_first (fun st => sh_has cid (stop_list st)) (stops s)) as [[st rest]|] eqn:T2; [|exact H].
    destruct H as [A B C].
    pose proof (take_first_cnt _ _ has_s1 _ _ _ T2) as (P & Hc1 & _).
    pose proof (take_first_cnt _ _ has_s2 _ _ _ T2) as (_ & Hc2 & _).
    apply sh_has_s1 in P. destruct P as [P1 P2]. rewrite P1 in Hc1. rewrite P2 in Hc2. cbn [b2n] in Hc1, Hc2.
    assert (SR : stop_requested s = true \/ stopping s = true). { destruct (j4 _ _ A) as [X|X]; [lia|exact X]. }
    pose proof (j3 _ _ A SR) as C0.
    assert (NP : start_d s <> None \/ stopping s = true).
    { destruct (start_d s) eqn:Sd; [left; discriminate|]. destruct (j5 _ _ A Sd) as [X|[X _]]; [auto|].
      unfold pristine in X. destruct X as (_&_&X&_). rewrite X in T2. discriminate. }
    assert (J0 : Jcore None (set_stops rest s)). { ds s. prj. subst. jgo. }
    assert (C1 : consumers (set_stops rest s) = []) by (ds s; exact C0).
    assert (CS : Inv (fst (coord_stop st (set_stops rest s)))).
    { pose proof (coord_stop_J None st _ J0 C1) as (X & Y & _). apply stopping_Inv; [exact X|]. apply Y. ds s. exact NP. }
    assert (AG : (cnt adv (gens s) + radv None = 0)%nat). { destruct (j14 _ _ A) as [X|X]; [lia|exact X]. }
    assert (RE : forall l', Inv (set_stops (mkStop (st_idx st) (st_err st) (S1 l') :: rest) s)).
    { intros l'. constructor; [|ds s; exact B|ds s; exact C]. ds s. prj. subst. jgo. all: cbn [has_s1 st_ph b2n radv] in *; fin. }
    destruct ok.
    + destruct (sh_all_done (sh_mark_done cid (stop_list st))); [exact CS|apply RE].
    + rewrite emits_fst. exact CS.
Qed.

(* ---------- start() / stop() ---------- *)
Lemma start_Inv : forall s, Inv s -> Inv (fst (step s EStart)).
Proof.
  intros s H. cbn [step]. destruct (start_d s) eqn:Sd; [exact H|].
  set (s1 := set_n_start (n_start s + 1) (set_start_d (Some (n_start s)) s)).
  assert (X : Inv (fst (join_and_sync s1))).
  { destruct H as [A B C]. apply join_and_sync_Inv.
    - subst s1. ds s. prj. subst. jgo.
    - subst s1. pose proof (j9 _ _ A) as F. ds s. exact F.
    - subst s1. ds s. stabx B.
    - left. subst s1. ds s. discriminate. }
  destruct (join_and_sync s1). exact X.
Qed.

Lemma stop_Inv : forall s, Inv s -> Inv (fst (step s EStop)).
Proof.
  intros s H. cbn [step].
  set (s0 := set_stop_called (stop_called s || started s) (set_n_stop (n_stop s + 1) s)).
  assert (H0 : Inv s0). { apply (Inv_frame s); [subst s0; ds s; frame|exact H]. }
  assert (X : Inv (fst (do_stop (n_stop s) None s0))).
  { destruct H0 as [A B C]. pose proof (do_stop_J None (n_stop s) None s0 A) as [J Q]. cbv zeta in Q.
    destruct Q as [Q|[(Q1 & Q2 & Q3)|(_ & _ & Q3 & Q4)]].
    - apply stopping_Inv; auto.
    - apply (Inv_frame s0); [|constructor; auto].
      eapply same_core_trans; [|exact Q3].
      assert (Sr : stop_requested s0 = false).
      { destruct (j5 _ _ A Q1) as [X|[X _]]; [congruence|]. unfold pristine in X. intuition. }
      clear - Sr. ds s0. prj. subst. frame.
    - constructor; [exact J|eapply Stab_eq; eauto|unfold Prog; congruence].
  }
  destruct (do_stop (n_stop s) None s0). exact X.
Qed.

Theorem step_Inv : forall s e, Inv s -> Inv (fst (step s e)).
Proof.
  intros s e H. destruct e.
  - apply start_Inv; auto.
  - apply stop_Inv; auto.
  - apply on_lookup_Inv; auto.
  - apply on_meta_Inv; auto.
  - apply on_join_Inv; auto.
  - apply on_parts_Inv; auto.
  - apply on_sync_Inv; auto.
  - apply on_tick_Inv; auto.
  - apply on_hb_reply_Inv; auto.
  - apply on_fire_Inv; auto.
  - apply on_leave_Inv; auto.
  - apply on_cfail_Inv; auto.
  - apply on_cshut_Inv; auto.
Qed.

Theorem reachable_Inv : forall grp evs, Inv (state_after grp evs).
Proof.
  intros grp evs. unfold state_after.
  assert (G : forall s, Inv s -> Inv (fold_left (fun s e => fst (step s e)) evs s)).
  { induction evs as [|e evs IH]; intros s H; cbn [fold_left]; auto. apply IH. apply step_Inv. exact H. }
  apply G. apply init_inv.
Qed.

Lemma run_from_state : forall evs s, fst (run_from s evs) = fold_left (fun s e => fst (step s e)) evs s.
Proof.
  induction evs as [|e evs IH]; intros s; cbn [run_from fold_left]; auto.
  destruct (step s e) as [s1 o] eqn:E. specialize (IH s1). destruct (run_from s1 evs). cbn [fst] in *. exact IH.
Qed.
