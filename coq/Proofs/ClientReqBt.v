(* The back-off DelayedCall of a broker client (b_timer) mirrors M7's connector state CTimer in every reachable state;
   consequences: a closed client holds no DelayedCall at all (Props/C20.v), and the translation of M7's OCancelTimer
   never meets a missing timer (the OErr 5 branch of Model/ClientReq.v is unreachable, Props/C11.v). *)
From AV Require Import Base.Util Proofs.UtilFacts Model.Framing Proofs.FramingFacts
  Proofs.BrokerClientTbl Proofs.BrokerClientInv Proofs.BrokerClientC06 Proofs.BrokerClientC10.
From AV Require Model.BrokerClient.
From AV Require Import Model.ClientReq Proofs.ClientReqBase Proofs.ClientReqStep Proofs.ClientReqC11 Proofs.ClientReqC11d Proofs.ClientReqMono.
From Coq Require Import Lia.

(* ------------------------------------------------------------------ M7: where the back-off timer is armed and released *)
Definition tmr (s : BrokerClient.state) : Prop := BrokerClient.s_connector s = BrokerClient.CTimer.
Definition is_tm (o : BrokerClient.output) : bool :=
  match o with BrokerClient.OSched _ | BrokerClient.OCancelTimer => true | _ => false end.
Definition no_tm (os : list BrokerClient.output) : Prop := forallb (fun o => negb (is_tm o)) os = true.

Lemma no_tm_app a b : no_tm a -> no_tm b -> no_tm (a ++ b).
Proof. unfold no_tm. intros A B. rewrite forallb_app, A, B. reflexivity. Qed.

Lemma fire_no_tm t h o : no_tm (snd (BrokerClient.fire t h o)).
Proof. unfold BrokerClient.fire. destruct (BrokerClient.is_fired t h); reflexivity. Qed.

Lemma cancel_no_tm t h : no_tm (snd (BrokerClient.cancel t h)).
Proof.
  unfold BrokerClient.cancel. destruct (nth_error _ h); [|reflexivity]. destruct (BrokerClient.is_fired t h); [reflexivity|].
  destruct (BrokerClient.lookup _ _); [|reflexivity]. apply fire_no_tm.
Qed.

Lemma send_request_no_tm t r : no_tm (snd (BrokerClient.send_request t r)).
Proof.
  unfold BrokerClient.send_request. destruct (BrokerClient.r_expect r); [reflexivity|].
  match goal with |- context [BrokerClient.fire ?a ?b ?c] => pose proof (fire_no_tm a b c) as H; destruct (BrokerClient.fire a b c) end.
  cbn [snd] in *. apply (no_tm_app [_]); [reflexivity | exact H].
Qed.

Lemma send_each_no_tm : forall snap t, no_tm (snd (BrokerClient.send_each t snap)).
Proof.
  induction snap as [|r rest IH]; intro t; cbn [BrokerClient.send_each]; [reflexivity|].
  destruct (BrokerClient.r_sent r); [apply IH|].
  pose proof (send_request_no_tm t r) as H1. destruct (BrokerClient.send_request t r) as [t1 o1].
  pose proof (IH t1) as H2. destruct (BrokerClient.send_each t1 rest). cbn [snd] in *. apply no_tm_app; assumption.
Qed.

Lemma handle_response_no_tm t f : no_tm (snd (BrokerClient.handle_response t f)).
Proof.
  unfold BrokerClient.handle_response. destruct (corr_id f); [|reflexivity]. destruct (BrokerClient.lookup _ _); [|reflexivity].
  destruct (BrokerClient.r_cancelled r); [reflexivity | apply fire_no_tm].
Qed.

Lemma deliver_no_tm : forall fs t, no_tm (snd (BrokerClient.deliver t fs)).
Proof.
  induction fs as [|f fs IH]; intro t; cbn [BrokerClient.deliver]; [reflexivity|].
  pose proof (handle_response_no_tm t f) as H1. destruct (BrokerClient.handle_response t f) as [t1 o1].
  pose proof (IH t1) as H2. destruct (BrokerClient.deliver t1 fs). cbn [snd] in *. apply no_tm_app; assumption.
Qed.

Lemma fail_all_no_tm : forall rs t, no_tm (snd (BrokerClient.fail_all t rs)).
Proof.
  induction rs as [|r rs IH]; intro t; cbn [BrokerClient.fail_all]; [reflexivity|].
  destruct (BrokerClient.r_cancelled r); [apply IH|].
  pose proof (fire_no_tm t (BrokerClient.r_h r) BrokerClient.FailClosed) as H1. destruct (BrokerClient.fire t _ _) as [t1 o1].
  pose proof (IH t1) as H2. destruct (BrokerClient.fail_all t1 rs). cbn [snd] in *. apply no_tm_app; assumption.
Qed.

Lemma fire_down_tm s : no_tm (snd (BrokerClient.fire_down s))
  /\ BrokerClient.s_connector (fst (BrokerClient.fire_down s)) = BrokerClient.s_connector s.
Proof. unfold BrokerClient.fire_down. destruct (BrokerClient.s_down s); split; reflexivity. Qed.

Lemma data_in_tm s chunk : no_tm (snd (BrokerClient.data_in s chunk))
  /\ BrokerClient.s_connector (fst (BrokerClient.data_in s chunk)) = BrokerClient.s_connector s.
Proof.
  unfold BrokerClient.data_in. destruct (data_received ok4 _ chunk) as [fs e].
  pose proof (deliver_no_tm fs (BrokerClient.s_t s)) as H. destruct (BrokerClient.deliver _ fs) as [t1 o1]. cbn [snd] in H.
  destruct e; cbn [fst snd]; (split; [|reflexivity]); try exact H; apply no_tm_app; try exact H; reflexivity.
Qed.

Definition not_fire (e : BrokerClient.event) : bool := match e with BrokerClient.EFire => false | _ => true end.

(* one M7 step: no timer output and the timer state is kept (EFire: it has just fired), or the timer is cancelled -
   first output - or it is armed - only output *)
Ltac iff_tm Ec := cbn; rewrite ?Ec; cbn; first [reflexivity | split; discriminate | tauto].
Ltac fin := cbn [not_fire]; repeat split; auto; try discriminate; try (intros; discriminate); try tauto.
(* left disjunct: [no_tm mo] by tactic nt, timer state kept *)
Ltac keep nt Ec := left; split; [nt | split; [cbn [not_fire]; discriminate | intros _; iff_tm Ec]].

Lemma tm_step s e s' mo : CInv s -> BrokerClient.step s e = (s', mo) ->
  (no_tm mo /\ (not_fire e = false -> ~ tmr s') /\ (not_fire e = true -> (tmr s' <-> tmr s)))
  \/ (exists rest, mo = BrokerClient.OCancelTimer :: rest /\ no_tm rest /\ tmr s /\ ~ tmr s')
  \/ (exists k, mo = [BrokerClient.OSched k] /\ ~ tmr s /\ tmr s').
Proof.
  intros I H. unfold tmr. destruct e; cbn [BrokerClient.step] in H.
  - (* EMake *) unfold BrokerClient.make_request in H. cbv zeta in H.
    destruct (BrokerClient.lookup rid _); [injection H as <- <-; keep reflexivity I|].
    destruct (BrokerClient.s_down s).
    + destruct (BrokerClient.s_proto s).
      * unfold BrokerClient.lift in H. injection H as <- <-. keep ltac:(apply send_request_no_tm) I.
      * destruct (BrokerClient.s_connector s) eqn:Ec; injection H as <- <-; keep reflexivity Ec.
    + unfold BrokerClient.lift in H. injection H as <- <-. keep ltac:(apply fire_no_tm) I.
    + unfold BrokerClient.lift in H. injection H as <- <-. keep ltac:(apply fire_no_tm) I.
  - (* ECancel *) unfold BrokerClient.lift in H. injection H as <- <-. keep ltac:(apply cancel_no_tm) I.
  - (* EConnOk *) destruct (BrokerClient.s_connector s) eqn:Ec; try (injection H as <- <-; keep reflexivity Ec).
    cbn [BrokerClient.s_down BrokerClient.with_rxbuf BrokerClient.with_proto BrokerClient.with_connector BrokerClient.with_failures] in H.
    destruct (BrokerClient.s_down s).
    + unfold BrokerClient.lift in H. injection H as <- <-. keep ltac:(apply send_each_no_tm) Ec.
    + injection H as <- <-. keep reflexivity Ec.
    + injection H as <- <-. keep reflexivity Ec.
  - (* EConnFail *)
    destruct (BrokerClient.s_connector s) eqn:Ec; try (injection H as <- <-; keep reflexivity Ec).
    destruct (BrokerClient.s_down s).
    + right. right. injection H as <- <-. eexists. split; [reflexivity|]. cbn. split; [discriminate | reflexivity].
    + destruct (fire_down_tm (BrokerClient.with_connector s BrokerClient.CStale)) as [A B]. rewrite H in A, B. cbn [fst snd] in A, B.
      left. split; [exact A|]. split; [discriminate|]. intros _. rewrite B. cbn. split; discriminate.
    + destruct (fire_down_tm (BrokerClient.with_connector s BrokerClient.CStale)) as [A B]. rewrite H in A, B. cbn [fst snd] in A, B.
      left. split; [exact A|]. split; [discriminate|]. intros _. rewrite B. cbn. split; discriminate.
  - (* ELost *) destruct (BrokerClient.s_proto s) eqn:Ep; [|injection H as <- <-; keep reflexivity I].
    pose proof (ci_conn s I Ep) as Ec.
    cbn [BrokerClient.s_down BrokerClient.with_t BrokerClient.with_rxbuf BrokerClient.with_proto] in H.
    destruct (BrokerClient.s_down s).
    + destruct (map _ _); injection H as <- <-; keep reflexivity Ec.
    + match type of H with BrokerClient.fire_down ?x = _ => destruct (fire_down_tm x) as [A B] end. rewrite H in A, B. cbn [fst snd] in A, B.
      left. split; [exact A|]. split; [discriminate|]. intros _. rewrite B. iff_tm Ec.
    + match type of H with BrokerClient.fire_down ?x = _ => destruct (fire_down_tm x) as [A B] end. rewrite H in A, B. cbn [fst snd] in A, B.
      left. split; [exact A|]. split; [discriminate|]. intros _. rewrite B. iff_tm Ec.
  - (* EData *) destruct (BrokerClient.s_proto s); [|injection H as <- <-; keep reflexivity I].
    destruct (data_in_tm s chunk) as [A B]. rewrite H in A, B. cbn [fst snd] in A, B.
    left. split; [exact A|]. split; [discriminate|]. intros _. rewrite B. reflexivity.
  - (* EFrame *) destruct (BrokerClient.s_proto s); [|injection H as <- <-; keep reflexivity I].
    destruct (data_in_tm s (encode_frame body)) as [A B]. rewrite H in A, B. cbn [fst snd] in A, B.
    left. split; [exact A|]. split; [discriminate|]. intros _. rewrite B. reflexivity.
  - (* EFire *) left. destruct (BrokerClient.s_connector s) eqn:Ec; injection H as <- <-; cbn; rewrite ?Ec;
      (split; [reflexivity|]); (split; [intros _; discriminate | discriminate]).
  - (* EClose *)
    destruct (BrokerClient.s_down s) eqn:Ed; [|injection H as <- <-; keep reflexivity I|injection H as <- <-; keep reflexivity I].
    cbn [BrokerClient.s_proto BrokerClient.with_down BrokerClient.s_connector] in H.
    destruct (BrokerClient.s_proto s) eqn:Ep.
    + pose proof (ci_conn s I Ep) as Ec.
      match type of H with context [BrokerClient.fail_all ?a ?b] => pose proof (fail_all_no_tm b a) as F; destruct (BrokerClient.fail_all a b) as [t2 o2] end.
      injection H as <- <-. cbn [snd] in F. keep ltac:(apply (no_tm_app [BrokerClient.OLose]); [reflexivity | exact F]) Ec.
    + destruct (BrokerClient.s_connector s) eqn:Ec.
      * match type of H with context [BrokerClient.fire_down ?x] => destruct (fire_down_tm x) as [A B]; destruct (BrokerClient.fire_down x) as [s1 o1] end.
        cbn [fst snd] in A, B.
        match type of H with context [BrokerClient.fail_all ?a ?b] => pose proof (fail_all_no_tm b a) as F; destruct (BrokerClient.fail_all a b) as [t2 o2] end.
        injection H as <- <-. cbn [snd] in F. left. split; [apply no_tm_app; assumption|]. split; [discriminate|]. intros _. cbn. rewrite B. iff_tm Ec.
      * match type of H with context [BrokerClient.fire_down ?x] => destruct (fire_down_tm x) as [A B]; destruct (BrokerClient.fire_down x) as [s1 o1] end.
        cbn [fst snd] in A, B.
        match type of H with context [BrokerClient.fail_all ?a ?b] => pose proof (fail_all_no_tm b a) as F; destruct (BrokerClient.fail_all a b) as [t2 o2] end.
        injection H as <- <-. cbn [snd] in F. left. split; [apply (no_tm_app (BrokerClient.OCancelAttempt :: o1)); [exact A | exact F]|].
        split; [discriminate|]. intros _. cbn. rewrite B. iff_tm Ec.
      * right. left. match type of H with context [BrokerClient.fire_down ?x] => destruct (fire_down_tm x) as [A B]; destruct (BrokerClient.fire_down x) as [s1 o1] end.
        cbn [fst snd] in A, B.
        match type of H with context [BrokerClient.fail_all ?a ?b] => pose proof (fail_all_no_tm b a) as F; destruct (BrokerClient.fail_all a b) as [t2 o2] end.
        injection H as <- <-. cbn [snd] in F. eexists. split; [reflexivity|]. split; [apply no_tm_app; assumption|]. split; [reflexivity|]. cbn. rewrite B. cbn. discriminate.
      * match type of H with context [BrokerClient.fail_all ?a ?b] => pose proof (fail_all_no_tm b a) as F; destruct (BrokerClient.fail_all a b) as [t2 o2] end.
        injection H as <- <-. cbn [snd] in F. keep ltac:(exact F) Ec.
  - (* EDisconnect *) destruct (BrokerClient.s_proto s); injection H as <- <-; keep reflexivity I.
  - (* EUpdate *) destruct same; injection H as <- <-; keep reflexivity I.
Qed.

(* ------------------------------------------------------------------ the client side: b_timer mirrors CTimer *)
Definition bt_ok (b : bcent) : Prop := b_timer b <> None <-> tmr (b_st b).
Definition BT (C : cstate) : Prop := forall i b, nth_error (c_bcs C) i = Some b -> bt_ok b.
Definition BTx (i : nat) (C : cstate) : Prop := forall j b, j <> i -> nth_error (c_bcs C) j = Some b -> bt_ok b.
Definition PB (C : cstate) : Prop := AllCInv C /\ BT C.

Lemma PB_bcs C C' : c_bcs C' = c_bcs C -> PB C -> PB C'.
Proof. intros E [A B]. split; [intros i b H | intros i b H]; rewrite E in H; [exact (A i b H) | exact (B i b H)]. Qed.

Lemma PB_upd_keep C i f : (forall b, b_timer (f b) = b_timer b /\ b_st (f b) = b_st b) -> PB C -> PB (upd_bc C i f).
Proof.
  intros F [A B]. split; intros j b' Hb'; cbn [upd_bc with_bcs c_bcs] in Hb'; apply nth_upd_inv in Hb';
    destruct Hb' as [[<- (x & Hx & ->)]|[N Hb']].
  - rewrite (proj2 (F x)). exact (A _ _ Hx).
  - exact (A j b' Hb').
  - unfold bt_ok. rewrite (proj1 (F x)), (proj2 (F x)). exact (B _ _ Hx).
  - exact (B j b' Hb').
Qed.

Lemma dl_refresh_bcs C : c_bcs (fst (dl_refresh C)) = c_bcs C.
Proof.
  unfold dl_refresh. destruct (c_dl C) as [l|]; [|reflexivity]. destruct (filter (bc_pending C) l); [|reflexivity].
  destruct (c_wait _); reflexivity.
Qed.
Lemma op_fail_bcs C p r : c_bcs (fst (op_fail C p r)) = c_bcs C.
Proof. unfold op_fail. destruct (nth_error (c_ops C) p); reflexivity. Qed.
Lemma boot_next_bcs C p hosts : c_bcs (fst (boot_next C p hosts)) = c_bcs C.
Proof. unfold boot_next. destruct (closing C); [apply op_fail_bcs|]. destruct hosts; [apply op_fail_bcs | reflexivity]. Qed.

Lemma tr_out_PB C i o : is_tm o = false -> PB C -> PB (fst (tr_out C i o)).
Proof.
  intros N P. destruct o; try discriminate; cbn [tr_out fst]; try exact P.
  eapply PB_bcs; [apply dl_refresh_bcs | exact P].
Qed.

Lemma no_tm_cons o os : no_tm (o :: os) -> is_tm o = false /\ no_tm os.
Proof. unfold no_tm. cbn [forallb]. intro H. apply andb_prop in H. destruct H as [A B]. split; [destruct (is_tm o); [discriminate | reflexivity] | exact B]. Qed.

Lemma tr_list_PB : forall os C i, no_tm os -> PB C -> PB (fst (tr_list C i os)).
Proof.
  induction os as [|o os IH]; intros C i N P; cbn [tr_list]; [exact P|].
  destruct (no_tm_cons _ _ N) as [N1 N2].
  pose proof (tr_out_PB C i o N1 P) as P1. destruct (tr_out C i o) as [C1 o1]. cbn [fst] in P1.
  pose proof (IH C1 i N2 P1) as P2. destruct (tr_list C1 i os). exact P2.
Qed.

Lemma no_tm_filter p os : no_tm os -> no_tm (filter p os).
Proof.
  unfold no_tm. induction os as [|o os IH]; cbn [filter forallb]; [auto|]. intro H. apply andb_prop in H. destruct H as [A B].
  destruct (p o); cbn [forallb]; [rewrite A, (IH B); reflexivity | exact (IH B)].
Qed.

(* an M7 step that neither arms nor releases the back-off timer, applied to broker client i *)
Lemma apply_bc_PB C i e : PB C ->
  (forall b, nth_error (c_bcs C) i = Some b -> no_tm (snd (BrokerClient.step (b_st b) e))
                                                 /\ (tmr (fst (BrokerClient.step (b_st b) e)) <-> tmr (b_st b))) ->
  PB (fst (apply_bc C i e)) /\ no_tm (snd (apply_bc C i e)).
Proof.
  intros [A B] K. unfold apply_bc. destruct (nth_error (c_bcs C) i) as [b|] eqn:Eb; [|split; [split; assumption | reflexivity]].
  destruct (K b eq_refl) as [N T]. destruct (BrokerClient.step (b_st b) e) as [s' mo] eqn:Es. cbn [fst snd] in *.
  split; [|exact N]. destruct (fired_after_step _ _ _ _ (A i b Eb) Es) as (I' & _).
  split; intros j b' Hb'; cbn [upd_bc with_bcs c_bcs] in Hb'; apply nth_upd_inv in Hb';
    destruct Hb' as [[<- (x & Hx & ->)]|[Nj Hb']].
  - exact I'.
  - exact (A j b' Hb').
  - rewrite Eb in Hx. injection Hx as <-. unfold bt_ok. cbn [set_st b_timer b_st]. rewrite T. exact (B i b Eb).
  - exact (B j b' Hb').
Qed.

Lemma make_quiet s rid ex : CInv s -> no_tm (snd (BrokerClient.step s (BrokerClient.EMake rid ex)))
  /\ (tmr (fst (BrokerClient.step s (BrokerClient.EMake rid ex))) <-> tmr s).
Proof.
  intro I. destruct (BrokerClient.step s (BrokerClient.EMake rid ex)) as [s' mo] eqn:Es.
  destruct (tm_step _ _ _ _ I Es) as [(N & _ & K)|[(rest & -> & _)|(k & -> & _)]]; cbn [fst snd].
  - split; [exact N | exact (K eq_refl)].
  - exfalso. cbn [BrokerClient.step] in Es. unfold BrokerClient.make_request in Es. cbv zeta in Es.
    destruct (BrokerClient.lookup rid _); [discriminate|]. destruct (BrokerClient.s_down s).
    + destruct (BrokerClient.s_proto s).
      * unfold BrokerClient.lift, BrokerClient.send_request in Es. cbn [snd fst] in Es. destruct ex; [discriminate|].
        destruct (BrokerClient.fire _ _ _); discriminate.
      * destruct (BrokerClient.s_connector s); discriminate.
    + unfold BrokerClient.lift, BrokerClient.fire in Es. destruct (BrokerClient.is_fired _ _); discriminate.
    + unfold BrokerClient.lift, BrokerClient.fire in Es. destruct (BrokerClient.is_fired _ _); discriminate.
  - exfalso. cbn [BrokerClient.step] in Es. unfold BrokerClient.make_request in Es. cbv zeta in Es.
    destruct (BrokerClient.lookup rid _); [discriminate|]. destruct (BrokerClient.s_down s).
    + destruct (BrokerClient.s_proto s).
      * unfold BrokerClient.lift, BrokerClient.send_request in Es. cbn [snd fst] in Es. destruct ex; [discriminate|].
        destruct (BrokerClient.fire _ _ _); discriminate.
      * destruct (BrokerClient.s_connector s); discriminate.
    + unfold BrokerClient.lift, BrokerClient.fire in Es. destruct (BrokerClient.is_fired _ _); discriminate.
    + unfold BrokerClient.lift, BrokerClient.fire in Es. destruct (BrokerClient.is_fired _ _); discriminate.
Qed.

Lemma make_req_PB C i rid ex mint ow : PB C -> PB (fst (fst (make_req C i rid ex mint ow))).
Proof.
  intro P. unfold make_req. destruct (nth_error (c_bcs C) i) as [b|] eqn:Eb; [|exact P].
  assert (forall b0, nth_error (c_bcs C) i = Some b0 ->
            no_tm (snd (BrokerClient.step (b_st b0) (BrokerClient.EMake rid ex)))
            /\ (tmr (fst (BrokerClient.step (b_st b0) (BrokerClient.EMake rid ex))) <-> tmr (b_st b0))) as K.
  { intros b0 H0. apply make_quiet. exact (proj1 P i b0 H0). }
  destruct (apply_bc_PB C i (BrokerClient.EMake rid ex) P K) as [P1 N1].
  destruct (apply_bc C i (BrokerClient.EMake rid ex)) as [C1 mo]. cbn [fst snd] in P1, N1.
  destruct (raised_dup mo); [exact P1|].
  pose proof (tr_list_PB (filter (fun o => negb (is_def o)) mo) C1 i (no_tm_filter _ _ N1) P1) as P2.
  destruct (tr_list C1 i (filter (fun o => negb (is_def o)) mo)) as [C2 o2]. cbn [fst] in P2.
  unfold new_timer.
  assert (PB (with_timers C2 (c_timers C2 ++ [TReq i (length (BrokerClient.t_dlog (BrokerClient.s_t (b_st b))))]))) as P3
    by (eapply PB_bcs; [|exact P2]; reflexivity).
  destruct (first_def mo); cbn [fst]; (apply PB_upd_keep; [intros; split; reflexivity | exact P3]).
Qed.

Lemma get_client_PB C cl n C1 i : PB C -> get_client C cl n = Some (C1, i) -> PB C1.
Proof.
  intros P H. unfold get_client in H. destruct (assoc n cl); [injection H as <- _; exact P|].
  destruct (assoc n (c_brokers C)); [|discriminate]. injection H as <- _. destruct P as [A B].
  split; intros j b' Hb'; cbn [with_clients with_bcs c_bcs] in Hb'; apply nth_error_snoc_inv in Hb'; destruct Hb' as [Hb'|[_ ->]].
  - exact (A j b' Hb').
  - cbn [b_st]. apply cinv_with_addr, CInv_init.
  - exact (B j b' Hb').
  - unfold bt_ok, tmr. cbn. split; [intro X; exfalso; apply X; reflexivity | discriminate].
Qed.

Lemma op_fail_PB C p r : PB C -> PB (fst (op_fail C p r)).
Proof. apply PB_bcs, op_fail_bcs. Qed.
Lemma boot_next_PB C p hosts : PB C -> PB (fst (boot_next C p hosts)).
Proof. apply PB_bcs, boot_next_bcs. Qed.

Lemma op_known_PB : forall nodes C p rid, PB C -> PB (fst (op_known C p rid nodes)).
Proof.
  induction nodes as [|n rest IH]; intros C p rid P; cbn [op_known]; [apply boot_next_PB; exact P|].
  destruct (c_clients C) as [cl|]; [|apply op_fail_PB; exact P].
  destruct (get_client C cl n) as [[C1 i]|] eqn:G; [|apply op_fail_PB; exact P].
  pose proof (get_client_PB _ _ _ _ _ P G) as P1.
  pose proof (make_req_PB C1 i rid true (-1) (OfOp p) P1) as P2.
  destruct (make_req C1 i rid true (-1) (OfOp p)) as [[C2 r] o2]. cbn [fst] in P2.
  destruct r as [|h|h r]; cbn [fst].
  - pose proof (IH C2 p rid P2) as X. destruct (op_known C2 p rid rest). exact X.
  - eapply PB_bcs; [|exact P2]. reflexivity.
  - destruct r; try (pose proof (IH C2 p rid P2) as X; destruct (op_known C2 p rid rest); exact X).
    + exact P2.
    + pose proof (op_fail_PB C2 p RCancelled P2) as X. destruct (op_fail C2 p RCancelled). exact X.
Qed.

Section LevelB.
Variable succ : cstate -> nat -> list Z -> cstate * list output.
Hypothesis succ_PB : forall C p f, PB C -> PB (fst (succ C p f)).

Lemma on_def_PB C i h oc : PB C -> PB (fst (on_def succ C i h oc)).
Proof.
  intro P. unfold on_def. destruct (nth_error (c_bcs C) i) as [b|]; [|exact P].
  destruct (nth_error (b_reqs b) h) as [q|]; [|exact P].
  set (C1o1 := match q_timer q with
               | Some t => (upd_creq C i h (fun q0 => mkCreq (q_owner q0) None (q_to q0)), [OCancelTimer t])
               | None => (C, []) end).
  assert (PB (fst C1o1)) as P1.
  { unfold C1o1. destruct (q_timer q); cbn [fst]; [|exact P]. unfold upd_creq. apply PB_upd_keep; [intros; split; reflexivity | exact P]. }
  destruct C1o1 as [C1 o1]. cbn [fst] in P1.
  destruct (q_owner q) as [d|p]; [exact P1|].
  destruct (nth_error (c_ops C1) p) as [[k al rid ph]|]; [|exact P1].
  destruct ph as [rest i' h'| | | |]; try exact P1.
  destruct (Nat.eqb i i' && Nat.eqb h h'); [|exact P1].
  destruct (if q_to q then RTimedOut else res_of oc);
    try (pose proof (op_known_PB rest C1 p rid P1) as X; destruct (op_known C1 p rid rest); exact X).
  - pose proof (succ_PB C1 p frame P1) as X. destruct (succ C1 p frame). exact X.
  - pose proof (op_fail_PB C1 p RCancelled P1) as X. destruct (op_fail C1 p RCancelled). exact X.
Qed.

Lemma proc_PB : forall os C i, no_tm os -> PB C -> PB (fst (proc succ C i os)).
Proof.
  induction os as [|o os IH]; intros C i N P; cbn [proc]; [exact P|].
  destruct (no_tm_cons _ _ N) as [N1 N2].
  assert (PB (fst (match o with BrokerClient.ODef h oc => on_def succ C i h oc | _ => tr_out C i o end))) as P1.
  { destruct o; try (apply tr_out_PB; [exact N1 | exact P]). apply on_def_PB. exact P. }
  destruct (match o with BrokerClient.ODef h oc => on_def succ C i h oc | _ => tr_out C i o end) as [C1 o1].
  cbn [fst] in P1. pose proof (IH C1 i N2 P1) as X. destruct (proc succ C1 i os). exact X.
Qed.

(* what the pair (b_timer before, M7 step) must satisfy for the invariant to hold again after the step's outputs *)
Definition compat (bt : option nat) (s' : BrokerClient.state) (mo : list BrokerClient.output) : Prop :=
  (no_tm mo /\ (bt <> None <-> tmr s'))
  \/ (exists rest, mo = BrokerClient.OCancelTimer :: rest /\ no_tm rest /\ bt <> None /\ ~ tmr s')
  \/ (exists k, mo = [BrokerClient.OSched k] /\ tmr s').

Lemma bc_event_core C i e : AllCInv C -> BTx i C ->
  (forall b, nth_error (c_bcs C) i = Some b -> compat (b_timer b) (fst (BrokerClient.step (b_st b) e)) (snd (BrokerClient.step (b_st b) e))) ->
  PB (fst (bc_event succ C i e)).
Proof.
  intros A Bx K. unfold bc_event, apply_bc. destruct (nth_error (c_bcs C) i) as [b|] eqn:Eb.
  2:{ cbn [proc fst]. split; [exact A|]. intros j b' Hb'. apply (Bx j b'); [|exact Hb']. intros ->. congruence. }
  specialize (K b eq_refl). destruct (BrokerClient.step (b_st b) e) as [s' mo] eqn:Es. cbn [fst snd] in K.
  destruct (fired_after_step _ _ _ _ (A i b Eb) Es) as (I' & _).
  set (C1 := upd_bc C i (set_st s')).
  assert (AllCInv C1) as A1.
  { intros j b' Hb'. unfold C1 in Hb'. cbn [upd_bc with_bcs c_bcs] in Hb'. apply nth_upd_inv in Hb'.
    destruct Hb' as [[<- (x & Hx & ->)]|[Nj Hb']]; [exact I' | exact (A j b' Hb')]. }
  assert (nth_error (c_bcs C1) i = Some (set_st s' b)) as Eb1 by (unfold C1; cbn [upd_bc with_bcs c_bcs]; apply nth_upd_same; exact Eb).
  assert (BTx i C1) as Bx1.
  { intros j b' Nj Hb'. unfold C1 in Hb'. cbn [upd_bc with_bcs c_bcs] in Hb'. rewrite nth_upd_other in Hb' by congruence. exact (Bx j b' Nj Hb'). }
  (* the invariant once broker client i is consistent again *)
  assert (forall C2, c_bcs C2 = nth_upd (c_bcs C1) i (fun b0 => set_btimer (b_timer (match nth_error (c_bcs C2) i with Some x => x | None => b end)) b0) ->
                     (forall b2, nth_error (c_bcs C2) i = Some b2 -> (b_timer b2 <> None <-> tmr s')) -> PB C2) as Fix.
  { intros C2 E2 H2. split.
    - intros j b' Hb'. rewrite E2 in Hb'. apply nth_upd_inv in Hb'. destruct Hb' as [[<- (x & Hx & ->)]|[Nj Hb']]; [|exact (A1 j b' Hb')].
      cbn [set_btimer b_st]. exact (A1 _ _ Hx).
    - intros j b' Hb'. destruct (Nat.eq_dec j i) as [->|Nj].
      + unfold bt_ok. pose proof Hb' as Hb''. rewrite E2 in Hb''. rewrite (nth_upd_same _ _ _ _ Eb1) in Hb''. injection Hb'' as <-.
        cbn [set_btimer set_st b_st]. rewrite Hb'. cbn [set_btimer b_timer]. rewrite Hb' in H2. exact (H2 _ eq_refl).
      + rewrite E2 in Hb'. rewrite nth_upd_other in Hb' by congruence. exact (Bx1 j b' Nj Hb'). }
  destruct K as [(N & T)|[(rest & -> & N & T1 & T2)|(k & -> & T)]].
  - apply proc_PB; [exact N|]. apply (Fix C1).
    + rewrite Eb1. symmetry. apply nth_upd_fix with (x := set_st s' b); [exact Eb1 | reflexivity].
    + intros b2 H2. rewrite Eb1 in H2. injection H2 as <-. exact T.
  - cbn [proc tr_out]. rewrite Eb1. cbn [set_st b_timer]. destruct (b_timer b) as [t|] eqn:Et; [|exfalso; apply T1; reflexivity].
    assert (PB (upd_bc C1 i (set_btimer None))) as P2.
    { apply Fix.
      - cbn [upd_bc with_bcs c_bcs]. rewrite (nth_upd_same _ _ _ _ Eb1). reflexivity.
      - intros b2 H2. cbn [upd_bc with_bcs c_bcs] in H2. rewrite (nth_upd_same _ _ _ _ Eb1) in H2. injection H2 as <-.
        cbn. split; [intro X; exfalso; apply X; reflexivity | intro X; exfalso; exact (T2 X)]. }
    pose proof (proc_PB rest _ i N P2) as X. destruct (proc succ (upd_bc C1 i (set_btimer None)) i rest). exact X.
  - cbn [proc tr_out]. unfold new_timer. cbn [fst snd app].
    set (C2 := upd_bc (with_timers C1 (c_timers C1 ++ [TBackoff i])) i (set_btimer (Some (length (c_timers C1))))).
    apply (Fix C2).
    + unfold C2. cbn [upd_bc with_bcs with_timers c_bcs]. rewrite (nth_upd_same _ _ _ _ Eb1). reflexivity.
    + intros b2 H2. unfold C2 in H2. cbn [upd_bc with_bcs with_timers c_bcs] in H2. rewrite (nth_upd_same _ _ _ _ Eb1) in H2. injection H2 as <-.
      cbn. split; [intros _; exact T | discriminate].
Qed.

Lemma bc_event_PB C i e : not_fire e = true -> PB C -> PB (fst (bc_event succ C i e)).
Proof.
  intros NF [A B]. apply bc_event_core; [exact A | intros j b _ Hb; exact (B j b Hb)|].
  intros b Eb. destruct (BrokerClient.step (b_st b) e) as [s' mo] eqn:Es. cbn [fst snd].
  pose proof (B i b Eb) as Ok. unfold bt_ok in Ok.
  destruct (tm_step _ _ _ _ (A i b Eb) Es) as [(N & _ & K)|[(rest & -> & N & T1 & T2)|(k & -> & T1 & T2)]].
  - left. split; [exact N|]. rewrite (K NF). exact Ok.
  - right. left. exists rest. split; [reflexivity|]. split; [exact N|]. split; [apply Ok; exact T1 | exact T2].
  - right. right. exists k. split; [reflexivity | exact T2].
Qed.

(* the reactor fires the back-off DelayedCall: the model clears b_timer first (ETimer), then M7's EFire *)
Lemma bc_event_fire C i : AllCInv C -> BTx i C -> (forall b, nth_error (c_bcs C) i = Some b -> b_timer b = None) ->
  PB (fst (bc_event succ C i BrokerClient.EFire)).
Proof.
  intros A Bx Z. apply bc_event_core; [exact A | exact Bx|].
  intros b Eb. destruct (BrokerClient.step (b_st b) BrokerClient.EFire) as [s' mo] eqn:Es. cbn [fst snd].
  destruct (tm_step _ _ _ _ (A i b Eb) Es) as [(N & K & _)|[(rest & -> & _)|(k & -> & _)]].
  - left. split; [exact N|]. rewrite (Z b Eb). split; [intro X; exfalso; apply X; reflexivity | intro X; exfalso; exact (K eq_refl X)].
  - exfalso. cbn [BrokerClient.step] in Es. destruct (BrokerClient.s_connector (b_st b)); discriminate.
  - exfalso. cbn [BrokerClient.step] in Es. destruct (BrokerClient.s_connector (b_st b)); discriminate.
Qed.
End LevelB.

(* ------------------------------------------------------------------ closing broker clients, refreshing the broker table *)
Lemma succ0_PB C p f : PB C -> PB (fst (succ0 C p f)).
Proof. intro P. exact P. Qed.

Lemma close_each_PB : forall l C, PB C -> PB (fst (close_each C l)).
Proof.
  induction l as [|i l IH]; intros C P; cbn [close_each]; [exact P|].
  pose proof (bc_event_PB succ0 succ0_PB C i BrokerClient.EClose eq_refl P) as P1.
  destruct (bc_event succ0 C i BrokerClient.EClose) as [C1 o1]. cbn [fst] in P1.
  pose proof (IH C1 P1) as X. destruct (close_each C1 l). exact X.
Qed.

Lemma close_brokerclients_PB C l : PB C -> PB (fst (close_brokerclients C l)).
Proof.
  intro P. unfold close_brokerclients. pose proof (close_each_PB l C P) as P1.
  destruct (close_each C l) as [C1 o1]. cbn [fst] in P1.
  set (C1' := with_dl C1 (Some (match c_dl C with Some x => x | None => [] end ++ l))).
  pose proof (dl_refresh_bcs C1') as X. destruct (dl_refresh C1') as [C2 o2]. cbn [fst] in *.
  eapply PB_bcs; [exact X|]. eapply PB_bcs; [|exact P1]. reflexivity.
Qed.

Lemma update_each_PB : forall bs C cl, PB C -> PB (update_each C cl bs).
Proof.
  induction bs as [|[n a] bs IH]; intros C cl P; cbn [update_each]; [exact P|].
  destruct (assoc n cl) as [i|]; [|apply IH; exact P]. apply IH.
  apply (apply_bc_PB C i (BrokerClient.EUpdate true a) P). intros b _. cbn. split; [reflexivity | unfold tmr; reflexivity].
Qed.

Lemma update_brokers_PB C brokers remove : PB C -> PB (fst (update_brokers C brokers remove)).
Proof.
  intro P. unfold update_brokers.
  set (C1 := with_brokers C (dict_update (c_brokers C) (dict_update [] brokers))).
  assert (PB C1) as P1 by (eapply PB_bcs; [|exact P]; reflexivity).
  destruct (c_clients C1) as [cl|].
  - pose proof (update_each_PB (dict_update [] brokers) C1 cl P1) as P2.
    destruct remove; [|exact P2].
    destruct (flat_map _ _) as [|i0 idx]; [exact P2|].
    apply close_brokerclients_PB. eapply PB_bcs; [|exact P2]. reflexivity.
  - destruct (dict_update [] brokers); [destruct remove|]; exact P1.
Qed.

Lemma merge_PB C payload all : PB C -> PB (fst (merge C payload all)).
Proof.
  intro P. unfold merge. destruct (parse_meta payload) as [[brokers topics]|]; [|exact P].
  set (rm := all && _). pose proof (update_brokers_PB C brokers rm P) as P1.
  destruct (update_brokers C brokers rm) as [C1 o1]. cbn [fst] in *.
  eapply PB_bcs; [|exact P1]. reflexivity.
Qed.

Lemma succ1_PB C p f : PB C -> PB (fst (succ1 C p f)).
Proof.
  intro P. unfold succ1. destruct (nth_error (c_ops C) p) as [o|]; [|exact P].
  assert (PB (set_phase C p PDone)) as P1 by (eapply PB_bcs; [|exact P]; reflexivity).
  destruct (o_kind o =? 1).
  - destruct (closing (set_phase C p PDone)); [exact P1|].
    pose proof (merge_PB _ (drop 4 f) (o_all o) P1) as X. destruct (merge (set_phase C p PDone) (drop 4 f) (o_all o)). exact X.
  - destruct (is_ltp (o_kind o)); [|exact P1]. destruct (closing (set_phase C p PDone)); [exact P1|].
    pose proof (merge_PB _ (drop 4 f) false P1) as X. destruct (merge (set_phase C p PDone) (drop 4 f) false) as [C2 o2]. cbn [fst] in X.
    destruct (missing (drop 4 f)); [|exact X]. unfold new_timer. cbn [fst]. eapply PB_bcs; [|exact X]. reflexivity.
Qed.

Lemma ev_bc_PB C i e : not_fire e = true -> PB C -> PB (fst (ev_bc C i e)).
Proof. apply (bc_event_PB succ1 succ1_PB). Qed.

Lemma cancel_boots_PB : forall n C p, PB C -> PB (fst (cancel_boots C n p)).
Proof.
  induction n as [|n IH]; intros C p P; cbn [cancel_boots]; [exact P|].
  set (X := match nth_error (c_ops C) p with
            | Some (mkOp _ _ _ (PBootConn a rest)) => let (C', o') := boot_next (set_boot C a KDead) p rest in (C', OBootCancel a :: o')
            | Some (mkOp _ _ _ (PBootReq a t rest)) => let (C', o') := boot_next C p rest in (C', OCancelTimer t :: OBootLose a :: o')
            | Some (mkOp _ _ _ (PWait t)) => let (C', o') := op_fail C p RCancelled in (C', OCancelTimer t :: o')
            | _ => (C, []) end).
  assert (PB (fst X)) as P1.
  { unfold X. destruct (nth_error (c_ops C) p) as [[k al rid ph]|]; [|exact P]. destruct ph; try exact P.
    - pose proof (boot_next_bcs (set_boot C a KDead) p rest) as Y. destruct (boot_next (set_boot C a KDead) p rest). cbn [fst] in *.
      eapply PB_bcs; [exact Y|]. eapply PB_bcs; [|exact P]. reflexivity.
    - pose proof (boot_next_bcs C p rest) as Y. destruct (boot_next C p rest). cbn [fst] in *. eapply PB_bcs; [exact Y | exact P].
    - pose proof (op_fail_bcs C p RCancelled) as Y. destruct (op_fail C p RCancelled). cbn [fst] in *. eapply PB_bcs; [exact Y | exact P]. }
  destruct X as [C1 o1]. cbn [fst] in P1. pose proof (IH C1 (S p) P1) as Y. destruct (cancel_boots C1 n (S p)). exact Y.
Qed.

Theorem step_PB C e : PB C -> PB (fst (step C e)).
Proof.
  intro P. destruct e; cbn [step].
  - (* ESend *)
    destruct (c_clients C) as [cl|]; [|exact P].
    destruct (get_client C cl node) as [[C1 i]|] eqn:G; [|exact P].
    pose proof (get_client_PB _ _ _ _ _ P G) as P1. unfold next_id.
    set (C2 := with_corr C1 _). assert (PB C2) as P2 by (eapply PB_bcs; [|exact P1]; reflexivity).
    pose proof (make_req_PB C2 i ((c_corr C1 + 1) mod 2147483648) expect mint (Direct (length (c_direct C2))) P2) as P3.
    destruct (make_req C2 i _ expect mint _) as [[C3 r] o3]. cbn [fst] in P3.
    destruct r; cbn [fst]; [exact P3 | |]; (eapply PB_bcs; [|exact P3]; reflexivity).
  - destruct (nth_error (c_direct C) d) as [[i h]|]; [|exact P]. apply ev_bc_PB; [reflexivity | exact P].
  - (* EOp *)
    unfold next_id. cbn [fst snd]. set (C1 := with_corr C _). set (C2 := with_ops C1 _).
    assert (PB C2) as P2 by (eapply PB_bcs; [|exact P]; reflexivity).
    destruct (c_clients C2); [apply op_known_PB; exact P2 | apply op_fail_PB; exact P2].
  - apply update_brokers_PB. exact P.
  - (* EClose *)
    destruct (c_clients C) as [cl|]; [|exact P].
    assert (PB (with_clients C None)) as P0 by (eapply PB_bcs; [|exact P]; reflexivity).
    pose proof (close_brokerclients_PB _ (map snd cl) P0) as P1.
    destruct (close_brokerclients (with_clients C None) (map snd cl)) as [C1 o1]. cbn [fst] in P1.
    pose proof (cancel_boots_PB (length (c_ops C1)) C1 0 P1) as P2.
    destruct (cancel_boots C1 (length (c_ops C1)) 0) as [C2 o2]. cbn [fst] in P2.
    destruct (c_dl (with_topics C2 [])); cbn [fst]; (eapply PB_bcs; [|exact P2]; reflexivity).
  - eapply PB_bcs; [|exact P]; reflexivity.
  - apply ev_bc_PB; [reflexivity | exact P].
  - apply ev_bc_PB; [reflexivity | exact P].
  - apply ev_bc_PB; [reflexivity | exact P].
  - apply ev_bc_PB; [reflexivity | exact P].
  - (* ETimer *)
    destruct (nth_error (c_timers C) t) as [[i h|i|p a|p]|]; [| | | |exact P].
    + unfold creq_at. destruct (nth_error (c_bcs C) i) as [b|]; [|exact P].
      destruct (nth_error (b_reqs b) h) as [[ow [t'|] to]|]; try exact P.
      destruct (Nat.eqb t t'); [|exact P].
      set (C1 := upd_creq C i h _). assert (PB C1) as P1 by (apply PB_upd_keep; [intros; split; reflexivity | exact P]).
      pose proof (ev_bc_PB C1 i (BrokerClient.ECancel h) eq_refl P1) as P2. destruct (ev_bc C1 i (BrokerClient.ECancel h)) as [C2 o2]. cbn [fst] in P2.
      destruct (g_dot (c_cfg C2)); cbn [fst]; [|exact P2].
      pose proof (ev_bc_PB C2 i BrokerClient.EDisconnect eq_refl P2) as P3. destruct (ev_bc C2 i BrokerClient.EDisconnect). exact P3.
    + destruct (nth_error (c_bcs C) i) as [b|] eqn:Eb; [|exact P].
      destruct (match b_timer b with Some t' => Nat.eqb t t' | None => false end); [|exact P].
      destruct P as [A B]. apply (bc_event_fire succ1 succ1_PB).
      * intros j b' Hb'. cbn [upd_bc with_bcs c_bcs] in Hb'. apply nth_upd_inv in Hb'.
        destruct Hb' as [[<- (x & Hx & ->)]|[Nj Hb']]; [exact (A _ _ Hx) | exact (A j b' Hb')].
      * intros j b' Nj Hb'. cbn [upd_bc with_bcs c_bcs] in Hb'. rewrite nth_upd_other in Hb' by congruence. exact (B j b' Hb').
      * intros b' Hb'. cbn [upd_bc with_bcs c_bcs] in Hb'. rewrite (nth_upd_same _ _ _ _ Eb) in Hb'. injection Hb' as <-. reflexivity.
    + destruct (phase_of C p); try exact P. destruct (Nat.eqb a a0 && Nat.eqb t t0); [|exact P].
      pose proof (boot_next_PB C p rest P) as Y. destruct (boot_next C p rest). exact Y.
    + destruct (phase_of C p); try exact P. destruct (Nat.eqb t t0); [|exact P]. unfold next_id. cbn [fst snd].
      set (C1 := with_corr C _). set (C2 := restart_op C1 p _).
      assert (PB C2) as P2 by (eapply PB_bcs; [|exact P]; reflexivity).
      destruct (c_clients C2); [apply op_known_PB; exact P2 | apply op_fail_PB; exact P2].
  - (* EBootOk *)
    destruct (nth_error (c_boots C) a) as [[[p rid] [| |]]|]; try exact P.
    destruct (phase_of C p); try exact P. destruct (Nat.eqb a a0); [|exact P].
    unfold new_timer. cbn [fst]. eapply PB_bcs; [|exact P]; reflexivity.
  - (* EBootFail *)
    destruct (nth_error (c_boots C) a) as [[[p rid] [| |]]|]; try exact P.
    destruct (phase_of C p); try exact P. destruct (Nat.eqb a a0); [|exact P].
    apply boot_next_PB. eapply PB_bcs; [|exact P]; reflexivity.
  - (* EBootReply *)
    destruct (nth_error (c_boots C) a) as [[[p rid'] [|pend|]]|]; try exact P.
    destruct (pend && zlist_eqb (id4 rid) (id4 rid')); [|exact P].
    assert (PB (set_boot C a (KLive false))) as P0 by (eapply PB_bcs; [|exact P]; reflexivity).
    destruct (phase_of (set_boot C a (KLive false)) p); try exact P0. destruct (Nat.eqb a a0); [|exact P0].
    pose proof (succ1_PB _ p (id4 rid ++ payload) P0) as Y. destruct (succ1 (set_boot C a (KLive false)) p (id4 rid ++ payload)). exact Y.
  - (* EBootLost *)
    destruct (nth_error (c_boots C) a) as [[[p rid'] [|pend|]]|]; try exact P.
    assert (PB (set_boot C a KDead)) as P0 by (eapply PB_bcs; [|exact P]; reflexivity).
    destruct pend; [|exact P0].
    destruct (phase_of (set_boot C a KDead) p); try exact P0. destruct (Nat.eqb a a0); [|exact P0].
    pose proof (boot_next_PB (set_boot C a KDead) p rest P0) as Y. destruct (boot_next (set_boot C a KDead) p rest). exact Y.
  - (* EResend *)
    destruct (c_clients C) as [cl|]; [|exact P].
    destruct (nth_error (c_direct C) d) as [[i h0]|]; [|exact P].
    match goal with |- PB (fst (match make_req C i ?rid expect mint ?ow with _ => _ end)) =>
      pose proof (make_req_PB C i rid expect mint ow P) as P3; destruct (make_req C i rid expect mint ow) as [[C3 r] o3] end.
    cbn [fst] in P3.
    destruct r; cbn [fst]; [exact P3 | |]; (eapply PB_bcs; [|exact P3]; reflexivity).
Qed.

Theorem run_PB : forall evs C, PB C -> PB (fst (run C evs)).
Proof.
  induction evs as [|e evs IH]; intros C P; cbn [run]; [exact P|].
  pose proof (step_PB C e P) as P1. destruct (step C e) as [C1 o1]. cbn [fst] in P1.
  pose proof (IH C1 P1) as P2. destruct (run C1 evs). exact P2.
Qed.

Corollary reachable_PB g evs : PB (fst (run (init g) evs)).
Proof. apply run_PB. split; intros i b H; destruct i; discriminate. Qed.

(* ------------------------------------------------------------------ a closed client holds no DelayedCall *)
Lemma filter_none {A} (p : A -> bool) l : (forall x, In x l -> p x = false) -> filter p l = [].
Proof. induction l as [|x l IH]; intro H; cbn; [reflexivity|]. rewrite (H x (or_introl eq_refl)). apply IH. intros y Hy. apply H. right. exact Hy. Qed.

Lemma fold_zero (f : bcent -> nat) l : (forall b, In b l -> f b = 0%nat) -> fold_right (fun b n => (f b + n)%nat) 0%nat l = 0%nat.
Proof. induction l as [|b l IH]; intro H; cbn; [reflexivity|]. rewrite (H b (or_introl eq_refl)), IH; [reflexivity|]. intros x Hx. apply H. right. exact Hx. Qed.

From AV Require Import Proofs.ClientReqClosed Proofs.ClientReqC20b.

Lemma closed_no_timers C : ClosedInv C -> BT C -> count_timers C = 0%nat.
Proof.
  intros [Cc T D Dn Tp] B. unfold count_timers.
  rewrite (filter_none _ (c_ops C)).
  2:{ intros o Ho. destruct (In_nth_error _ _ Ho) as [p Hp]. rewrite (Dn p o Hp). reflexivity. }
  cbn [length]. rewrite Nat.add_0_r.
  apply (fold_zero (fun b => (length (filter (fun q => match q_timer q with Some _ => true | None => false end) (b_reqs b))
                              + match b_timer b with Some _ => 1 | None => 0 end)%nat)).
  intros b Hb. destruct (In_nth_error _ _ Hb) as [i Eb].
  destruct (TInvC_bc _ _ _ _ T Eb) as (I & L & A & _).
  rewrite filter_none.
  2:{ intros q Hq. destruct (In_nth_error _ _ Hq) as [h Eq]. destruct (q_timer q) as [t|] eqn:Et; [|reflexivity].
      exfalso. destruct (A h q t Eq Et) as [_ [X|[]]]. apply X.
      apply closed_all_fired; [exact I | exact (D i b Eb)|]. fold (sdlog (b_st b)). rewrite <- L. apply nth_error_Some. congruence. }
  cbn [length]. destruct (b_timer b) as [t|] eqn:Et; [|reflexivity].
  exfalso. assert (tmr (b_st b)) as X by (apply (B i b Eb); rewrite Et; discriminate).
  destruct (ci_closed _ I (D i b Eb)) as [_ [Y|Y]]; unfold tmr in X; congruence.
Qed.

(* every reachable closed client: no DelayedCall is left, whatever happened before and whatever happens later *)
Lemma c20_closed_no_timers g evs : ClosedInv (fst (run (init g) evs)) -> count_timers (fst (run (init g) evs)) = 0%nat.
Proof. intro K. apply closed_no_timers; [exact K | exact (proj2 (reachable_PB g evs))]. Qed.

Lemma c20_no_timers_after_close g evs : c_clients (fst (run (init g) evs)) = None -> count_timers (fst (run (init g) evs)) = 0%nat.
Proof. intro Hc. apply c20_closed_no_timers. exact (proj1 (reachable_closed evs g Hc)). Qed.
