(* C14_attempt_limit over whole runs: with request_retry_max_attempts = n0 > 0 the start Deferred is no longer pending
   after n0 consecutive failed offset/fetch attempts (counted since the last successful reply or accepted start). *)
From Coq Require Import Lia.
From AV Require Import Base.Util Model.Consumer Proofs.ConsumerBase Proofs.ConsumerFrame Proofs.ConsumerC13 Proofs.ConsumerStop
  Proofs.ConsumerC13Top Proofs.ConsumerInv Proofs.ConsumerRun.
Open Scope Z_scope.

Section Limit.
Variable n0 : Z.

(* f = consecutive failed attempts so far *)
Record LI (f : Z) (s : state) : Prop := mkLI {
  li_nonneg : 0 <= f;
  li_att : startd_unfired s = true -> req_pending s = true \/ rcall_active s = true -> f + 1 <= s_att s;
  li_parked : parked s = true -> f = 0;
  li_lim : 0 < n0 -> startd_unfired s = true -> f < n0
}.

Lemma LI_zero s : J n0 s -> LI 0 s.
Proof.
  intros HJ. pose proof (j9 _ _ HJ) as (H9 & _). constructor; try lia; auto.
Qed.

(* the part of Fr that matters here (event handlers also flush s_pend and run the LoopingCall) *)
Record Fw (s s' : state) : Prop := mkFw {
  fw_req : s_req s' = s_req s \/ s_req s' = None;
  fw_parked : parked s' = true -> parked s = true;
  fw_att : s_att s' = s_att s \/ parked s = true /\ 1 <= s_att s' <= 2;
  fw_rcall : rcall_active s' = true -> rcall_active s = true \/ parked s = true
}.
Lemma Fw_of_Fr s s' : Fr s s' -> Fw s s'.
Proof. intros [r1 d1 p1 i1 a1 c1 f1 l1 q1]. constructor; auto. Qed.
Lemma Fw_refl s : Fw s s. Proof. constructor; auto. Qed.
Lemma Fw_trans a b c : Fw a b -> Fw b c -> Fw a c.
Proof.
  intros [r1 p1 a1 c1] [r2 p2 a2 c2]. constructor.
  - destruct r2 as [->| ->]; auto.
  - auto.
  - destruct a2 as [->|[? ?]]; auto.
  - intro H. destruct (c2 H) as [H1|H1]; auto.
Qed.
Ltac fw_explicit :=
  solve [ constructor; psimpl; unfold parked, rcall_active in *; psimpl;
          first [ auto | left; reflexivity | right; reflexivity | intros; congruence | intros; discriminate ] ].
Ltac fw_chain :=
  lazymatch goal with
  | |- Fw ?s ?s' =>
    first [ match goal with
            | H : Fw ?a ?b |- _ =>
              lazymatch s' with context [b] => idtac end;
              apply (Fw_trans s b s'); [ apply (Fw_trans s a b); [ clear H; fw_chain | exact H ] | fw_explicit ]
            end
          | fw_explicit ]
  end.

(* an execution that only does what nested executions do keeps LI, provided the start Deferred does not become pending *)
Lemma LI_frame f s s' : Fw s s' -> J n0 s' -> (startd_unfired s' = true -> startd_unfired s = true) -> LI f s -> LI f s'.
Proof.
  intros [r1 p1 a1 c1] HJ Hu [n1 n2 n3 n4]. pose proof (j9 _ _ HJ) as (H9 & _).
  constructor; auto.
  intros Hu' Hp. specialize (Hu Hu').
  destruct (parked s) eqn:Epk.
    + rewrite (n3 eq_refl). lia.
    + destruct a1 as [a1|[x _]]; [|discriminate]. rewrite a1. apply n2; [exact Hu|].
      destruct Hp as [Hp|Hp].
      * left. unfold req_pending in *. destruct r1 as [r1|r1]; rewrite r1 in Hp; [exact Hp | discriminate].
      * destruct (c1 Hp) as [x|x]; [right; exact x | discriminate].
Qed.

(* every event other than an accepted start, a reply to the outstanding request or the retry timer acts like a nested
   execution on the fetch-side bookkeeping *)
Definition plain (s : state) (e : event) : bool :=
  negb (start_accepted s e) && negb (success_reply s e) && negb (fail_reply s e) &&
  negb (match e with EFireRetry => rcall_active s | _ => false end).

Ltac fw_facts Hf := fuel_split; repeat match goal with
  | E : run _ ?k ?s1 = (_, ?s2, ?o1), Hf : fuel_ok ?o1 = true |- _ =>
    let F := fresh "F" in pose proof (run_frame _ _ _ _ _ _ E Hf) as F; cbn beta iota in F; destruct F as (_ & F);
    apply Fw_of_Fr in F; clear E
  | E : commit _ _ = _ |- _ => apply commit_fr in E; destruct E as (E & _); apply Fw_of_Fr in E
  | E : auto_commit _ _ = _ |- _ => apply auto_commit_fr in E; destruct E as (E & _); apply Fw_of_Fr in E
  | E : send_commit_request _ _ _ = _ |- _ => apply send_commit_request_fr in E; destruct E as (E & _); apply Fw_of_Fr in E
  end.

Lemma handle_plain_fw fuel e s s' o : handle fuel e s = (Ok tt, s', o) -> fuel_ok o = true -> plain s e = true -> Fw s s'.
Proof.
  intros H Hf Hpl. unfold plain, start_accepted, success_reply, fail_reply, req_pending, rcall_active, is_none, is_some in Hpl.
  unfold handle in H. cbn zeta in H. destruct e; unfold api_stop, api_commit, api_shutdown, flush_pend, handle_commit_error in H; mi H.
  all: try (cbn in Hpl; rewrite ?andb_false_r in Hpl; discriminate Hpl).
  all: split_state_if; fw_facts Hf; fw_chain.
Qed.

(* the retry timer fires *)
Lemma fire_retry_li fuel f s s' o : handle fuel EFireRetry s = (Ok tt, s', o) -> rcall_active s = true -> J n0 s' ->
  LI f s -> LI f s'.
Proof.
  intros H Hra HJ' [n1 n2 n3 n4]. pose proof (j9 _ _ HJ') as (H9 & _).
  unfold handle in H. cbn zeta in H. unfold do_fetch, startd_errback in H. unfold rcall_active in Hra.
  mi H; try (rewrite ?D, ?D0 in Hra; discriminate Hra).
  all: constructor; auto; unfold startd_unfired, req_pending, rcall_active, parked in *; psimpl;
       repeat match goal with D : s_rcall _ = _ |- _ => rewrite D in * end;
       repeat match goal with D : s_startd _ = _ |- _ => rewrite D in * end;
       try (intros; discriminate); intros; auto.
Qed.

(* a failed attempt *)
Lemma fail_reply_li fuel fk f s s' o : handle fuel (EReqFail fk) s = (Ok tt, s', o) -> req_pending s = true ->
  J n0 s -> s_stopping s = false -> J n0 s' -> LI f s -> LI (f + 1) s'.
Proof.
  intros H Hrp HJ Hst HJ' [n1 n2 n3 n4]. pose proof (j9 _ _ HJ') as (H9 & _).
  assert (Hnp : parked s = false)
    by (destruct (parked s) eqn:Ep; [destruct (j1 _ _ HJ Ep) as (x & _); unfold req_pending in Hrp; rewrite x in Hrp; discriminate | reflexivity]).
  assert (Hnr : rcall_active s = false)
    by (destruct (rcall_active s) eqn:Er; [pose proof (j0 _ _ HJ Er) as x; unfold req_pending in Hrp; rewrite x in Hrp; discriminate | reflexivity]).
  pose proof (j11 _ _ HJ) as H11.
  unfold handle in H. cbn zeta in H. unfold handle_fetch_error, handle_offset_error, retry_fetch, startd_errback, exhausted in H.
  unfold req_pending in Hrp.
  mi H; try (rewrite ?D in Hrp; discriminate Hrp).
  all: constructor; try lia; unfold parked, rcall_active, startd_unfired, req_pending in *; psimpl;
       repeat match goal with D : s_startd _ = _ |- _ => rewrite D in * end;
       repeat match goal with D : s_rcall _ = _ |- _ => rewrite D in * end;
       repeat match goal with D : s_req _ = _ |- _ => rewrite D in * end;
       try (intros; discriminate); try (intros; congruence).
  all: intros; bsimp; try discriminate; try lia.
  all: repeat match goal with H : _ \/ _ |- _ => destruct H end; try discriminate; try congruence.
  all: repeat match goal with D : _ && _ = false |- _ => apply andb_false_iff in D; destruct D end; bsimp.
  all: try (match type of n2 with ?P -> _ => match goal with H : P |- _ => pose proof (n2 H (or_introl eq_refl)) end end).
  all: match type of H11 with (if ?c then _ else _) => destruct c end; try (destruct H11); try lia.
Qed.

Definition next_f (f : Z) (s : state) (e : event) : Z :=
  if success_reply s e || start_accepted s e then 0 else if fail_reply s e then f + 1 else f.

Lemma LI_step fuel f s e s' o : Reach n0 s -> LI f s -> step fuel s e = (s', o) -> fuel_ok o = true ->
  LI (next_f f s e) s'.
Proof.
  intros HR HL H Hf. pose proof (reach_step _ _ _ _ _ _ HR H Hf) as HR'.
  destruct HR as ((HJ & Hst) & Hl & Hi & Hp). destruct HR' as ((HJ' & Hst') & _).
  unfold next_f.
  destruct (success_reply s e || start_accepted s e) eqn:E0; [apply LI_zero; exact HJ'|].
  apply orb_false_elim in E0. destruct E0 as (Es & Ea).
  apply step_inv in H. destruct H as (o1 & H & ->). apply fuel_ok_app_inv in Hf. destruct Hf as (Hf & _).
  destruct (fail_reply s e) eqn:Ef.
  - (* a failed attempt *) destruct e; try discriminate Ef. cbn [fail_reply] in Ef.
    eapply fail_reply_li; eauto.
  - destruct (match e with EFireRetry => rcall_active s | _ => false end) eqn:Er.
    + destruct e; try discriminate Er. eapply fire_retry_li; eauto.
    + assert (Hpl : plain s e = true) by (unfold plain; rewrite Es, Ea, Ef, Er; reflexivity).
      pose proof (handle_plain_fw _ _ _ _ _ H Hf Hpl) as HF.
      destruct (handle_start_once _ _ _ _ _ H Hi Hp) as (Hu & _).
      apply (LI_frame f s s' HF HJ'); [|exact HL].
      unfold acc in Hu. rewrite Ea in Hu. unfold u in Hu.
      destruct (startd_unfired s'), (startd_unfired s); auto; lia.
Qed.

(* C14_attempt_limit: limit_run (Model/Consumer.v) holds of every run *)
Theorem limit_run_holds fuel : forall evs f s, Reach n0 s -> LI f s -> all_fuel_ok (run_steps fuel s evs) = true ->
  limit_run n0 f (run_steps fuel s evs) = true.
Proof.
  induction evs as [|e evs IH]; intros f s HR HL Hf; cbn [run_steps] in *; [reflexivity|].
  destruct (step fuel s e) as [s1 o] eqn:E. cbn [all_fuel_ok forallb t_out] in Hf. apply andb_prop in Hf. destruct Hf as (Hf1 & Hf2).
  pose proof (reach_step _ _ _ _ _ _ HR E Hf1) as HR1. pose proof (LI_step _ _ _ _ _ _ HR HL E Hf1) as HL1.
  cbn [limit_run]. fold (next_f f s e). apply andb_true_intro. split; [|apply IH; assumption].
  destruct ((0 <? n0) && startd_unfired s1) eqn:Ec; [|reflexivity]. cbn [implb].
  apply andb_prop in Ec. destruct Ec as (Ec1 & Ec2). apply Z.ltb_lt in Ec1. apply Z.ltb_lt. exact (li_lim _ _ HL1 Ec1 Ec2).
Qed.

(* limit 0: the count never ends the consumer, except while shutdown() has temporarily limited the retries (s_susp, set by
   shutdown() and cleared by the stop() that ends it - consumer.py:408-410, 474-477) *)
Lemma unlimited_reachable s : Reach n0 s -> n0 = 0 -> s_susp s = false -> exhausted s = false.
Proof.
  intros ((HJ & _) & _) Hn Hs. pose proof (j11 _ _ HJ) as H11. rewrite Hs in H11. unfold exhausted. rewrite H11, Hn. reflexivity.
Qed.
Lemma limited_reachable s : Reach n0 s -> 0 < n0 -> s_maxatt s = n0 /\ s_susp s = false.
Proof.
  intros ((HJ & _) & _) Hn. pose proof (j11 _ _ HJ) as H11. destruct (s_susp s); [destruct H11; lia | auto].
Qed.
End Limit.
