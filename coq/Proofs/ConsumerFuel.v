(* Fuel monotonicity of the interpreter of nested executions (Model/Consumer.v): an execution that did not run out of
   fuel is reproduced, with the same result, state and outputs, by every larger fuel.  So the hypothesis "the fuel was
   not exhausted" of the run-level theorems does not depend on the particular fuel. *)
From Coq Require Import Lia.
From AV Require Import Base.Util Model.Consumer Proofs.ConsumerBase.
Open Scope Z_scope.

(* m2 reproduces every execution of m1 that did not run out of fuel *)
Definition le {A} (m1 m2 : M A) : Prop :=
  forall s r s' o, m1 s = (r, s', o) -> fuel_ok o = true -> m2 s = (r, s', o).

Lemma le_refl {A} (m : M A) : le m m. Proof. intros s r s' o H _. exact H. Qed.
Lemma fuel_ok_app_l a b : fuel_ok (a ++ b) = true -> fuel_ok a = true.
Proof. intro H. apply fuel_ok_app in H. tauto. Qed.
Lemma fuel_ok_app_r a b : fuel_ok (a ++ b) = true -> fuel_ok b = true.
Proof. intro H. apply fuel_ok_app in H. tauto. Qed.

Lemma le_bind {A B} (m1 m2 : M A) (f1 f2 : A -> M B) : le m1 m2 -> (forall a, le (f1 a) (f2 a)) -> le (bind m1 f1) (bind m2 f2).
Proof.
  intros Hm Hf s r s' o H Hok. apply bind_inv in H. destruct H as [(a & s1 & o1 & o2 & H1 & H2 & ->) | (k & H1 & ->)].
  - unfold bind. rewrite (Hm _ _ _ _ H1 (fuel_ok_app_l _ _ Hok)). rewrite (Hf a _ _ _ _ H2 (fuel_ok_app_r _ _ Hok)). reflexivity.
  - unfold bind. rewrite (Hm _ _ _ _ H1 Hok). reflexivity.
Qed.
Lemma le_try {A} (m1 m2 : M A) : le m1 m2 -> le (try m1) (try m2).
Proof.
  intros Hm s r s' o H Hok. apply try_inv in H. destruct H as (r0 & H & ->). unfold try. rewrite (Hm _ _ _ _ H Hok). reflexivity.
Qed.
Lemma le_swallow (m1 m2 : M unit) : le m1 m2 -> le (swallow m1) (swallow m2).
Proof.
  intros Hm s r s' o H Hok. apply swallow_inv in H. destruct H as (r0 & H & ->). unfold swallow. rewrite (Hm _ _ _ _ H Hok). reflexivity.
Qed.

(* walks the syntax of a method body *)
Ltac le_walk :=
  repeat first
    [ apply le_refl
    | apply le_bind; [| intro]
    | apply le_try
    | apply le_swallow
    | match goal with
      | |- le (match ?x with _ => _ end) (match ?x with _ => _ end) => destruct x
      | |- le (if ?b then _ else _) (if ?b then _ else _) => destruct b
      | |- le (let (_, _) := ?x in _) (let (_, _) := ?x in _) => destruct x
      end ].

Section Mono.
Variables rec1 rec2 : kont -> M unit.
Hypothesis Hrec : forall k, le (rec1 k) (rec2 k).

Lemma api_stop_le : le (api_stop rec1) (api_stop rec2).
Proof. unfold api_stop. le_walk. apply Hrec. Qed.
Lemma api_shutdown_le : le (api_shutdown rec1) (api_shutdown rec2).
Proof. unfold api_shutdown. le_walk. apply Hrec. Qed.
Lemma handle_commit_error_le fk i a : le (handle_commit_error rec1 fk i a) (handle_commit_error rec2 fk i a).
Proof. unfold handle_commit_error. le_walk; apply Hrec. Qed.
Lemma fire_all_le cr : forall ds, le (fire_all rec1 ds cr) (fire_all rec2 ds cr).
Proof. induction ds as [|d ds IH]; cbn [fire_all]; le_walk; [apply Hrec | apply IH]. Qed.
Lemma finish_block_le : le (finish_block rec1) (finish_block rec2).
Proof. unfold finish_block. le_walk. apply Hrec. Qed.
Lemma stop_proc_le : le (stop_proc rec1) (stop_proc rec2).
Proof. unfold stop_proc. le_walk. apply Hrec. Qed.
Lemma stop_creq_le : le (stop_creq rec1) (stop_creq rec2).
Proof. unfold stop_creq. le_walk; first [apply Hrec | apply handle_commit_error_le]. Qed.

Lemma body_le k : le (body rec1 k) (body rec2 k).
Proof.
  destruct k; cbn [body].
  all: le_walk.
  all: first [ apply Hrec | apply api_stop_le | apply api_shutdown_le | apply finish_block_le
             | apply stop_proc_le | apply stop_creq_le | apply fire_all_le | apply handle_commit_error_le ].
Qed.
End Mono.

Lemma run_succ_le : forall f k, le (run f k) (run (S f) k).
Proof.
  induction f as [|f IH]; intro k.
  - intros s r s' o H Hok. cbn [run] in H. unfold bind, emit, raise in H. inversion H; subst. discriminate Hok.
  - change (run (S f) k) with (body (run f) k). change (run (S (S f)) k) with (body (run (S f)) k). apply body_le. exact IH.
Qed.

Theorem run_mono f f' k : (f <= f')%nat -> le (run f k) (run f' k).
Proof.
  induction 1 as [|f' Hle IH]; [apply le_refl|].
  intros s r s' o H Hok. apply run_succ_le; [|exact Hok]. apply IH; assumption.
Qed.

(* one event: the handler with a larger fuel reproduces a step that did not run out of fuel *)
Lemma handle_mono f f' e : (f <= f')%nat -> le (handle f e) (handle f' e).
Proof.
  intro Hle. assert (Hrec : forall k, le (run f k) (run f' k)) by (intro k; apply run_mono; exact Hle).
  unfold handle. cbn zeta. destruct e; le_walk.
  all: first [ apply Hrec | apply api_stop_le; exact Hrec | apply api_shutdown_le; exact Hrec | apply handle_commit_error_le; exact Hrec ].
Qed.

Theorem step_mono f f' s e s' o : (f <= f')%nat -> step f s e = (s', o) -> fuel_ok o = true -> step f' s e = (s', o).
Proof.
  intros Hle H Hok. apply step_inv in H. destruct H as (o1 & H & ->).
  pose proof (handle_mono f f' e Hle _ _ _ _ H (fuel_ok_app_l _ _ Hok)) as H'.
  unfold step, bind. rewrite H'. unfold get, emit. reflexivity.
Qed.

(* whole runs: a run that never ran out of fuel is the same run under every larger fuel *)
Theorem run_steps_mono f f' : (f <= f')%nat -> forall evs s,
  forallb (fun t => fuel_ok (match t with (_, _, o, _) => o end)) (run_steps f s evs) = true ->
  run_steps f' s evs = run_steps f s evs.
Proof.
  intro Hle. induction evs as [|e evs IH]; intros s Hok; cbn [run_steps] in *; [reflexivity|].
  destruct (step f s e) as [s1 o] eqn:E. cbn [forallb] in Hok. apply andb_prop in Hok. destruct Hok as (Hok1 & Hok2).
  rewrite (step_mono f f' _ _ _ _ Hle E Hok1). rewrite (IH s1 Hok2). reflexivity.
Qed.
