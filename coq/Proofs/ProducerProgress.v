(* Bounded progress of the batch in flight (the "at least once" half of C01, in event-order form).
   owed c s e : the environment events that the producer is waiting for in state s - the answer of a pending metadata
   load, an armed retry timer firing, the API-version answer, an in-contract result of the request in flight.
   mu c s : a measure; every owed event ends the batch or strictly decreases it, no honest event increases it, and in
   every state with a batch in flight some owed event exists.  Hence the batch ends within mu owed events. *)
From AV Require Import Base.Util Model.Producer Proofs.ProducerBase Proofs.ProducerInv Proofs.ProducerC19 Proofs.ProducerC09.
From Coq Require Import Lia.

(* ------------------------------------------------------------------ owed events *)
Definition has_load (lid : Z) (ls : list lstate) : bool := existsb (fun l => match l with LLoad i => i =? lid | _ => false end) ls.
Definition has_timer (tid : Z) (ls : list lstate) : bool := existsb (fun l => match l with LTimer i => i =? tid | _ => false end) ls.

Definition owed (c : cfg) (s : state) (e : event) : bool :=
  match ph s, e with
  | Looking _ ls, ELoadDone lid _ _ => has_load lid ls
  | Looking _ ls, ETimer tid => has_timer tid ls
  | VerWait _ _, EVersion _ => true
  | Sending _ cur, EResult v => result_ok c cur v
  | RetryWait _ _ tid, ETimer tid' => tid =? tid'
  | _, _ => false
  end.

(* the honest environment (as in Proofs/ProducerC01Spec.v) *)
Definition hon_ev (e : event) : bool := match e with EResultOmit _ => false | EBroken b => negb b | _ => true end.

(* ------------------------------------------------------------------ the measure *)
Definition rem (c : cfg) (s : state) : Z := Z.max 0 (c_max c - attempts s).
(* events a lookup can still need when a attempts remain *)
Definition lk_rem (a : Z) (l : lstate) : Z :=
  match l with LDone _ => 0 | LLoad _ => Z.max (2 * a) 2 | LTimer _ => 2 * a + 1 end.
Fixpoint lks_rem (a : Z) (ls : list lstate) : Z := match ls with [] => 0 | l :: r => lk_rem a l + lks_rem a r end.

Definition mu (c : cfg) (s : state) : Z :=
  let a := rem c s in
  match ph s with
  | Idle => 0
  | Looking _ ls => lks_rem a ls + (if api s =? 0 then 1 else 0) + 2 * a + 1
  | VerWait _ _ => 2 * a + 2
  | Sending _ _ => 2 * a + 1
  | RetryWait _ _ _ => 2 * a
  end.

(* the bound at dispatch: n lookups, all attempts left *)
Definition mu_bound (c : cfg) (n : Z) : Z :=
  let m := Z.max 0 (c_max c) in n * (2 * m + 2) + 2 * m + 2.

Lemma lk_rem_nonneg : forall a l, 0 <= a -> 0 <= lk_rem a l.
Proof. intros a [] H; unfold lk_rem; lia. Qed.
Lemma lks_rem_nonneg : forall a ls, 0 <= a -> 0 <= lks_rem a ls.
Proof. induction ls; cbn [lks_rem]; intros; [lia|]. pose proof (lk_rem_nonneg a a0 H). specialize (IHls H). lia. Qed.
Lemma lk_rem_mono : forall a b l, 0 <= a <= b -> lk_rem a l <= lk_rem b l.
Proof. intros a b [] H; unfold lk_rem; lia. Qed.
Lemma lks_rem_mono : forall a b ls, 0 <= a <= b -> lks_rem a ls <= lks_rem b ls.
Proof. induction ls; cbn [lks_rem]; intros; [lia|]. pose proof (lk_rem_mono a b a0 H). specialize (IHls H). lia. Qed.

Lemma rem_nonneg : forall c s, 0 <= rem c s.
Proof. intros; unfold rem; lia. Qed.

Lemma mu_pos : forall c s, ph s <> Idle -> (forall pls cur tid, ph s = RetryWait pls cur tid -> attempts s < c_max c) -> 1 <= mu c s.
Proof.
  intros c s NI RW. unfold mu. pose proof (rem_nonneg c s) as R. destruct (ph s) eqn:P; try congruence.
  - pose proof (lks_rem_nonneg (rem c s) ls R). destruct (api s =? 0); lia.
  - lia.
  - lia.
  - specialize (RW _ _ _ eq_refl). unfold rem. lia.
Qed.

(* ------------------------------------------------------------------ a lookup phase always waits for something *)
Definition LkInv (s : state) : Prop := match ph s with Looking _ ls => all_done ls = None | _ => True end.

Lemma all_done_none : forall ls, all_done ls = None -> exists l, In l ls /\ (exists i, l = LLoad i \/ l = LTimer i).
Proof.
  induction ls as [|l r IH]; unfold all_done; simpl; intros H; [discriminate|].
  destruct l as [res|lid|tid]; [|exists (LLoad lid); split; eauto|exists (LTimer tid); split; eauto].
  fold (all_done r) in H. destruct (all_done r) eqn:E; [discriminate|].
  destruct (IH eq_refl) as (l & A & B). exists l; split; auto.
Qed.

Lemma send_requests_lk : forall s reqs res s1 o1, send_requests s reqs res = (s1, o1, false) -> LkInv s1.
Proof.
  unfold send_requests; intros s reqs res s1 o1 H. destruct (stopping s); [discriminate|].
  destruct (api s =? 0); [inv H; exact I|].
  destruct (group_requests s reqs res []) as [[s2 o2] pls]. destruct pls; [inv H|]. destruct (broken s2); inv H. exact I.
Qed.
Lemma lookups_progress_lk : forall s reqs ls s1 o1, lookups_progress s reqs ls = (s1, o1, false) -> LkInv s1.
Proof.
  unfold lookups_progress; intros s reqs ls s1 o1 H. destruct (all_done ls) eqn:E; [eapply send_requests_lk; eauto|].
  inv H. exact E.
Qed.
Lemma check_retry_lk : forall c s pls fl s1 o1, check_retry c s pls fl = (s1, o1, false) -> LkInv s1.
Proof.
  unfold check_retry; intros c s pls fl s1 o1 H. destruct ((c_max c <=? attempts s) || stopping s).
  - destruct (deliver_failed s pls fl); inv H.
  - inv H. exact I.
Qed.
Lemma handle_result_lk : forall c s pls cur v s1 o1, handle_result c s pls cur v = (s1, o1, false) -> LkInv s1.
Proof.
  unfold handle_result; intros c s pls cur v s1 o1 H. destruct v.
  - destruct (deliver s (all_sends pls) _); inv H.
  - destruct (process_resps s pls rs) as [[s2 o2] f2]. destruct f2; [inv H|].
    destruct (check_retry c s2 pls _) as [[s3 o3] d3] eqn:E3. inv H. eapply check_retry_lk; eauto.
  - destruct (if c_acks c =? 0 then _ else _) as [s0 o0]. destruct (process_resps s0 pls rs) as [[s2 o2] f2].
    destruct (check_retry c s2 pls _) as [[s3 o3] d3] eqn:E3. inv H. eapply check_retry_lk; eauto.
  - eapply check_retry_lk; eauto.
  - destruct (deliver s (all_sends pls) _); inv H.
Qed.

Lemma core_lk : forall c s e s1 o1 ep, LkInv s -> core c s e = (s1, o1, ep) -> ep <> Fin -> LkInv s1.
Proof.
  intros c s e s1 o1 ep I H NF. unfold LkInv in I. destruct e; cbn [core] in H.
  - destruct ((cnt <? 1) || (bytes <? 0)); [|destruct (stopping s)]; inv H; exact I.
  - inv H; exact I.
  - destruct (cancel_send s sid) as [s2 o2] eqn:E. inv H. apply cancel_send_spec in E as (_ & P & _). unfold LkInv. rewrite P. exact I.
  - destruct (looper s); inv H; exact I.
  - inv H; exact I.
  - inv H; exact I.
  - destruct (ph s) eqn:P; try (inv H; unfold LkInv; rewrite P; exact I; fail).
    destruct (map_lookups _ s reqs ls) as [[s2 o2] ls2] eqn:E.
    destruct (lookups_progress s2 reqs ls2) as [[s3 o3] d3] eqn:E3. unfold fin_if in H. destruct d3; inv H; [congruence|].
    eapply lookups_progress_lk; eauto.
  - destruct (ph s) eqn:P; try (inv H; unfold LkInv; rewrite P; exact I; fail).
    + destruct (map_lookups _ s reqs ls) as [[s2 o2] ls2] eqn:E.
      destruct (lookups_progress s2 reqs ls2) as [[s3 o3] d3] eqn:E3. unfold fin_if in H. destruct d3; inv H; [congruence|].
      eapply lookups_progress_lk; eauto.
    + destruct (tid0 =? tid); [|inv H; unfold LkInv; rewrite P; exact I]. destruct (broken s); inv H; [congruence|]. exact Logic.I.
  - destruct (ph s) eqn:P; try (inv H; unfold LkInv; rewrite P; exact I; fail).
    destruct (r =? 0); [|destruct (r =? 1)].
    + destruct (send_requests _ reqs res) as [[s2 o2] d2] eqn:E. unfold fin_if in H. destruct d2; inv H; [congruence|]. eapply send_requests_lk; eauto.
    + destruct (send_requests _ reqs res) as [[s2 o2] d2] eqn:E. unfold fin_if in H. destruct d2; inv H; [congruence|]. eapply send_requests_lk; eauto.
    + unfold version_failed in H. destruct (deliver s reqs _). inv H. congruence.
  - destruct (ph s) eqn:P; try (inv H; unfold LkInv; rewrite P; exact I; fail).
    destruct (result_ok c cur v); [|inv H; unfold LkInv; rewrite P; exact I].
    destruct (handle_result c s pls cur v) as [[s2 o2] d2] eqn:E. unfold fin_if in H. destruct d2; inv H; [congruence|]. eapply handle_result_lk; eauto.
  - destruct (ph s) eqn:P; try (inv H; unfold LkInv; rewrite P; exact I; fail).
    destruct (omit_ok c cur v); [|inv H; unfold LkInv; rewrite P; exact I].
    destruct (handle_result c s pls cur v) as [[s2 o2] d2] eqn:E. unfold fin_if in H. destruct d2; inv H; [congruence|]. eapply handle_result_lk; eauto.
  - inv H; exact I.
  - inv H; exact I.
Qed.

Lemma dispatch_lk : forall c s s' o, dispatch c s = (s', o) -> LkInv s'.
Proof.
  unfold dispatch; intros c s s' o H.
  destruct (map_lookups _ _ (queue s) _) as [[s1 o1] ls] eqn:E1.
  destruct (lookups_progress s1 (queue s) ls) as [[s2 o2] done] eqn:E2.
  destruct done; [unfold finish0 in H; inv H; exact I|]. inv H. eapply lookups_progress_lk; eauto.
Qed.

Lemma epi_lk : forall c s1 ep s2 o2, LkInv s1 -> apply_epi c s1 ep = (s2, o2) -> LkInv s2.
Proof.
  intros c s1 ep s2 o2 I A.
  assert (T : forall s s' o, LkInv s -> try_send_batch c s = (s', o) -> LkInv s').
  { intros s s' o Is H. apply try_send_batch_spec in H as [[_ D]|(_ & -> & _)]; auto. eapply dispatch_lk; eauto. }
  assert (Ck : forall s s' o, LkInv s -> check_send_batch c s = (s', o) -> LkInv s').
  { unfold check_send_batch; intros s s' o Is H. destruct (threshold c s); [eauto|inv H; auto]. }
  destruct ep; simpl in A; eauto.
  - inv A; auto.
  - unfold finish, finish0 in A. destruct (check_send_batch c _) as [s4 o4] eqn:E. inv A. eapply Ck; [|exact E]. exact Logic.I.
Qed.

Theorem step_lk : forall c s e s' out, Inv s -> LkInv s -> step c s e = (s', out) -> LkInv s'.
Proof.
  intros c s e s' out IV I H.
  assert (NS : (forall cv, e <> EStop cv) -> LkInv s').
  { intros NE. destruct (step_nonstop c s e s' out NE H) as (s1 & o1 & ep & o2 & C & A & _).
    destruct ep.
    - eapply epi_lk; [eapply core_lk; eauto; discriminate|exact A].
    - simpl in A. unfold finish, finish0 in A. destruct (check_send_batch c _) as [s4 o4] eqn:E. inv A.
      eapply (epi_lk c _ Check); [|exact E]. exact Logic.I.
    - eapply epi_lk; [eapply core_lk; eauto; discriminate|exact A].
    - eapply epi_lk; [eapply core_lk; eauto; discriminate|exact A]. }
  destruct e; try (apply NS; intros ? X; discriminate X).
  apply stop_step_spec in H; auto. destruct H as [_ _ (_ & _ & P) _ _]. unfold LkInv. rewrite P. exact Logic.I.
Qed.

Theorem reachable_lk : forall c s, reachable c s -> LkInv s.
Proof.
  intros c s (h & a & ca & evs & <-).
  assert (G : forall evs s0, Inv s0 -> LkInv s0 -> LkInv (fst (run c s0 evs))).
  { induction evs0 as [|e r IH]; simpl; intros s0 IV I; auto.
    destruct (step c s0 e) as [s1 o] eqn:E. destruct (run c s1 r) as [s2 t2] eqn:E2. simpl.
    replace s2 with (fst (run c s1 r)) by (rewrite E2; reflexivity). apply IH; [eapply inv_step; eauto|eapply step_lk; eauto]. }
  apply G; [apply init_inv|exact Logic.I].
Qed.

(* ------------------------------------------------------------------ one lookup makes progress *)
Lemma loaded_dec : forall c st x st' o l' i, lookup_loaded c st x = (st', o, l') ->
  attempts st <= attempts st' /\ api st' = api st /\ lk_rem (rem c st') l' + 1 <= lk_rem (rem c st) (LLoad i).
Proof.
  unfold lookup_loaded; intros c st x st' o l' i H.
  destruct (stopping st); [inv H; unfold rem, lk_rem; lia|].
  destruct (cache_get (cache st) (s_topic x)) as [err hp].
  destruct (err =? 0); inv H; unfold rem, lk_rem; cbn - [Z.max Z.mul Z.add Z.sub]; lia.
Qed.

Lemma head_dec : forall c st x st' o l' i, lookup_head c st x = (st', o, l') ->
  attempts st' = attempts st /\ api st' = api st /\ lk_rem (rem c st') l' + 1 <= lk_rem (rem c st) (LTimer i).
Proof.
  unfold lookup_head; intros c st x st' o l' i H.
  destruct (cache_get (cache st) (s_topic x)) as [err hp]. destruct (err =? 0); [inv H; unfold rem, lk_rem; lia|].
  destruct (c_max c <=? attempts st) eqn:E; inv H; unfold rem, lk_rem; cbn - [Z.max Z.mul Z.add Z.sub]; [lia|].
  apply Z.leb_gt in E. lia.
Qed.

(* a function applied to the lookups of a batch that advances exactly the lookups selected by [hit] *)
Definition advances (c : cfg) (f : state -> send -> lstate -> option (state * list output * lstate)) (hit : lstate -> bool) : Prop :=
  forall st x l, (hit l = false -> f st x l = None) /\
                 (hit l = true -> exists st' o l', f st x l = Some (st', o, l') /\ attempts st <= attempts st' /\ api st' = api st /\
                                                   lk_rem (rem c st') l' + 1 <= lk_rem (rem c st) l).

Lemma rem_mono : forall c s s', attempts s <= attempts s' -> 0 <= rem c s' <= rem c s.
Proof. intros c s s' H. unfold rem. lia. Qed.

Lemma map_lookups_adv : forall c f hit, advances c f hit ->
  forall reqs ls s s' o ls', length ls = length reqs -> map_lookups f s reqs ls = (s', o, ls') ->
  attempts s <= attempts s' /\ api s' = api s /\
  lks_rem (rem c s') ls' + (if existsb hit ls then 1 else 0) <= lks_rem (rem c s) ls /\
  (existsb hit ls = false -> s' = s /\ o = [] /\ ls' = ls).
Proof.
  intros c f hit ADV. induction reqs as [|x r IH]; intros ls s s' o ls' L H; destruct ls as [|l ls]; try discriminate.
  - simpl in H. inv H. simpl. repeat split; auto; lia.
  - simpl in L. assert (L' : length ls = length r) by lia. cbn [map_lookups] in H. destruct (ADV s x l) as [N Y]. cbn [existsb lks_rem].
    destruct (hit l) eqn:Hl.
    + destruct (Y eq_refl) as (s1 & o1 & l1 & E & A1 & P1 & D1). rewrite E in H.
      destruct (map_lookups f s1 r ls) as [[s2 o2] ls2] eqn:E2. inv H.
      destruct (IH ls s1 s' o2 ls2 L' E2) as (A2 & P2 & D2 & _).
      split; [lia|]. split; [congruence|]. split; [|discriminate]. simpl.
      pose proof (rem_mono c s1 s' A2) as M1. pose proof (rem_mono c s s1 A1) as M0.
      pose proof (lk_rem_mono (rem c s') (rem c s1) l1 M1). pose proof (lks_rem_mono (rem c s1) (rem c s) ls M0).
      destruct (existsb hit ls); lia.
    + rewrite (N eq_refl) in H. destruct (map_lookups f s r ls) as [[s2 o2] ls2] eqn:E2. inv H.
      destruct (IH ls s s' o ls2 L' E2) as (A2 & P2 & D2 & Z2).
      split; auto. split; auto. split.
      * simpl. pose proof (rem_mono c s s' A2) as M. pose proof (lk_rem_mono (rem c s') (rem c s) l M). lia.
      * simpl. intros X. destruct (Z2 X) as (-> & -> & ->). auto.
Qed.

Lemma adv_load : forall c lid (ok : bool) k,
  advances c (fun st x l => match l with
                            | LLoad lid' => if lid' =? lid then Some (if ok then lookup_loaded c st x else (st, [], LDone (LFail k))) else None
                            | _ => None
                            end)
             (fun l => match l with LLoad i => i =? lid | _ => false end).
Proof.
  intros c lid ok k st x l. destruct l as [r|i|i]; try (split; [reflexivity|discriminate]).
  destruct (i =? lid); split; try discriminate; try reflexivity. intros _.
  destruct ok.
  - destruct (lookup_loaded c st x) as [[s1 o1] l1] eqn:E. exists s1, o1, l1. split; auto. eapply loaded_dec; eauto.
  - exists st, [], (LDone (LFail k)). split; auto. unfold lk_rem. pose proof (rem_nonneg c st). repeat split; lia.
Qed.

Lemma adv_timer : forall c tid,
  advances c (fun st x l => match l with LTimer tid' => if tid' =? tid then Some (lookup_head c st x) else None | _ => None end)
             (fun l => match l with LTimer i => i =? tid | _ => false end).
Proof.
  intros c tid st x l. destruct l as [r|i|i]; try (split; [reflexivity|discriminate]).
  destruct (i =? tid); split; try discriminate; try reflexivity. intros _.
  destruct (lookup_head c st x) as [[s1 o1] l1] eqn:E. exists s1, o1, l1. split; auto.
  destruct (head_dec _ _ _ _ _ _ i E) as (A & B & C). repeat split; auto; lia.
Qed.

(* ------------------------------------------------------------------ after the lookups *)
Lemma send_requests_mu : forall c s reqs res s1 o1, send_requests s reqs res = (s1, o1, false) ->
  ph s1 <> Idle /\ mu c s1 <= 2 * rem c s + (if api s =? 0 then 2 else 1).
Proof.
  unfold send_requests; intros c s reqs res s1 o1 H. destruct (stopping s); [discriminate|].
  destruct (api s =? 0) eqn:A.
  - inv H. split; [discriminate|]. unfold mu, rem. cbn - [Z.max Z.mul Z.add Z.sub]. lia.
  - destruct (group_requests s reqs res []) as [[s2 o2] pls] eqn:E. apply group_requests_xo in E as [X _].
    apply eq_xo_fields in X as (_ & _ & _ & _ & At & _). destruct pls; [inv H|]. destruct (broken s2); inv H.
    split; [discriminate|]. unfold mu, rem. cbn - [Z.max Z.mul Z.add Z.sub]. rewrite At. lia.
Qed.

Lemma lookups_progress_mu : forall c s reqs ls s1 o1, lookups_progress s reqs ls = (s1, o1, false) ->
  ph s1 <> Idle /\ mu c s1 <= lks_rem (rem c s) ls + (if api s =? 0 then 1 else 0) + 2 * rem c s + 1.
Proof.
  unfold lookups_progress; intros c s reqs ls s1 o1 H. pose proof (lks_rem_nonneg (rem c s) ls (rem_nonneg c s)) as N.
  destruct (all_done ls).
  - apply send_requests_mu with (c := c) in H as [P M]. split; auto. destruct (api s =? 0); lia.
  - inv H. split; [discriminate|]. unfold mu, rem. cbn - [Z.max Z.mul Z.add Z.sub]. fold (rem c s). lia.
Qed.

Lemma check_retry_att : forall c s pls fl s1 o1, check_retry c s pls fl = (s1, o1, false) ->
  attempts s1 = attempts s /\ attempts s < c_max c /\ exists cur tid, ph s1 = RetryWait pls cur tid.
Proof.
  unfold check_retry; intros c s pls fl s1 o1 H. destruct ((c_max c <=? attempts s) || stopping s) eqn:G.
  - destruct (deliver_failed s pls fl); inv H.
  - apply orb_false_iff in G as [G _]. apply Z.leb_gt in G. inv H. destruct (reset_topics fl); simpl; eauto.
Qed.

Lemma handle_result_att : forall c s pls cur v s1 o1, handle_result c s pls cur v = (s1, o1, false) ->
  attempts s1 = attempts s /\ attempts s < c_max c /\ exists cur' tid, ph s1 = RetryWait pls cur' tid.
Proof.
  unfold handle_result; intros c s pls cur v s1 o1 H. destruct v.
  - destruct (deliver s (all_sends pls) _); inv H.
  - destruct (process_resps s pls rs) as [[s2 o2] f2] eqn:E. apply process_resps_xo in E as [X _].
    apply eq_xo_fields in X as (_ & _ & _ & _ & At & _). destruct f2; [inv H|].
    destruct (check_retry c s2 pls _) as [[s3 o3] d3] eqn:E3. inv H. apply check_retry_att in E3. rewrite At in E3. exact E3.
  - destruct (if c_acks c =? 0 then _ else _) as [s0 o0] eqn:E0.
    assert (A0 : attempts s0 = attempts s).
    { destruct (c_acks c =? 0); [apply deliver_xo in E0 as [X _]; apply eq_xo_fields in X; tauto|inv E0; auto]. }
    destruct (process_resps s0 pls rs) as [[s2 o2] f2] eqn:E. apply process_resps_xo in E as [X _].
    apply eq_xo_fields in X as (_ & _ & _ & _ & At & _).
    destruct (check_retry c s2 pls _) as [[s3 o3] d3] eqn:E3. inv H. apply check_retry_att in E3. rewrite At, A0 in E3. exact E3.
  - eapply check_retry_att; eauto.
  - destruct (deliver s (all_sends pls) _); inv H.
Qed.

(* ------------------------------------------------------------------ every honest step: the batch ends, or the measure does
   not grow, and it strictly decreases when the event was owed *)
Lemma mu_same : forall c s s', ph s' = ph s -> attempts s' = attempts s -> api s' = api s -> mu c s' = mu c s.
Proof. unfold mu, rem; intros c s s' P A B. rewrite P, A, B. reflexivity. Qed.

Lemma finish_done : forall c s1 s' o, finish c s1 = (s', o) -> In OBatchDone o.
Proof. unfold finish, finish0; intros c s1 s' o H. destruct (check_send_batch c _). inv H. left; reflexivity. Qed.

Definition progressed (c : cfg) (s : state) (e : event) (s' : state) (out : list output) : Prop :=
  In OBatchDone out \/ (ph s' <> Idle /\ mu c s' + (if owed c s e then 1 else 0) <= mu c s).

Theorem progress_step : forall c s e s' out, Inv s -> PInv c s -> broken s = false -> ph s <> Idle ->
  hon_ev e = true -> step c s e = (s', out) -> progressed c s e s' out.
Proof.
  intros c s e s' out I P BK NI HE H. pose proof I as [W L]. pose proof W as [IB PW ID ST]. unfold progressed.
  assert (SAME : ph s' = ph s -> attempts s' = attempts s -> api s' = api s -> owed c s e = false ->
                 In OBatchDone out \/ (ph s' <> Idle /\ mu c s' + (if owed c s e then 1 else 0) <= mu c s)).
  { intros A B C D. right. rewrite D, (mu_same c s s' A B C). split; [congruence|lia]. }
  assert (NS : (forall cv, e <> EStop cv) -> exists s1 o1 ep o2, core c s e = (s1, o1, ep) /\ apply_epi c s1 ep = (s', o2) /\ out = o1 ++ o2)
    by (intros; eapply step_nonstop; eauto).
  assert (OW : forall e0, batch_event e0 = false -> owed c s e0 = false).
  { intros e0 B. unfold owed. destruct (ph s); destruct e0; try discriminate; reflexivity. }
  destruct e.
  - (* ESend *)
    destruct (NS ltac:(intros ? X; discriminate X)) as (s1 & o1 & ep & o2 & C & A & E). cbn [core] in C.
    destruct ((cnt <? 1) || (bytes <? 0)); [|destruct (stopping s)]; inv C; simpl in A.
    + inv A. apply SAME; auto.
    + inv A. apply SAME; auto.
    + match type of A with check_send_batch _ ?st = _ => destruct (not_idle_no_dispatch c st NI) as [_ X] end.
      rewrite X in A. inv A. apply SAME; auto.
  - destruct (NS ltac:(intros ? X; discriminate X)) as (s1 & o1 & ep & o2 & C & A & E). cbn [core] in C.
    inv C. simpl in A. inv A. apply SAME; auto.
  - destruct (NS ltac:(intros ? X; discriminate X)) as (s1 & o1 & ep & o2 & C & A & E). cbn [core] in C.
    destruct (cancel_send s sid) as [s2 o3] eqn:Ec. inv C. simpl in A. inv A.
    apply cancel_send_spec in Ec as (_ & Ph & _ & _ & _ & At & _ & _ & Ap & _). apply SAME; auto.
  - destruct (NS ltac:(intros ? X; discriminate X)) as (s1 & o1 & ep & o2 & C & A & E). cbn [core] in C.
    inv C. destruct (looper s1); simpl in A.
    + destruct (not_idle_no_dispatch c s1 NI) as [X _]. rewrite X in A. inv A. apply SAME; auto.
    + inv A. apply SAME; auto.
  - destruct (NS ltac:(intros ? X; discriminate X)) as (s1 & o1 & ep & o2 & C & A & E). cbn [core] in C.
    inv C. simpl in A. inv A. apply SAME; auto.
  - destruct (NS ltac:(intros ? X; discriminate X)) as (s1 & o1 & ep & o2 & C & A & E). cbn [core] in C.
    inv C. simpl in A. inv A. apply SAME; auto.
  - (* ELoadDone *)
    destruct (NS ltac:(intros ? X; discriminate X)) as (s1 & o1 & ep & o2 & C & A & ->). cbn [core] in C.
    destruct (ph s) eqn:Ph; try (inv C; simpl in A; inv A; apply SAME; auto; unfold owed; rewrite Ph; reflexivity; fail).
    simpl in PW.
    destruct (map_lookups _ s reqs ls) as [[s2 o3] ls2] eqn:E.
    apply (map_lookups_adv c _ _ (adv_load c lid ok k)) in E as (A1 & A2 & A3 & _); auto.
    destruct (lookups_progress s2 reqs ls2) as [[s3 o4] d3] eqn:E3. unfold fin_if in C. inv C.
    destruct d3; simpl in A.
    + left. apply finish_done in A. apply in_or_app; auto.
    + inv A. right. apply lookups_progress_mu with (c := c) in E3 as [P3 M3]. split; auto.
      unfold owed. rewrite Ph. unfold has_load. unfold mu at 2. rewrite Ph. rewrite A2 in M3.
      pose proof (rem_mono c s s2 A1). destruct (existsb _ ls); lia.
  - (* ETimer *)
    destruct (NS ltac:(intros ? X; discriminate X)) as (s1 & o1 & ep & o2 & C & A & ->). cbn [core] in C.
    destruct (ph s) eqn:Ph; try (inv C; simpl in A; inv A; apply SAME; auto; unfold owed; rewrite Ph; reflexivity; fail).
    + simpl in PW.
      destruct (map_lookups _ s reqs ls) as [[s2 o3] ls2] eqn:E.
      apply (map_lookups_adv c _ _ (adv_timer c tid)) in E as (A1 & A2 & A3 & _); auto.
      destruct (lookups_progress s2 reqs ls2) as [[s3 o4] d3] eqn:E3. unfold fin_if in C. inv C.
      destruct d3; simpl in A.
      * left. apply finish_done in A. apply in_or_app; auto.
      * inv A. right. apply lookups_progress_mu with (c := c) in E3 as [P3 M3]. split; auto.
        unfold owed. rewrite Ph. unfold has_timer. unfold mu at 2. rewrite Ph. rewrite A2 in M3.
        pose proof (rem_mono c s s2 A1). destruct (existsb _ ls); lia.
    + destruct (tid0 =? tid) eqn:Et.
      * rewrite BK in C. inv C. simpl in A. inv A. right. split; [simpl; discriminate|].
        unfold owed. rewrite Ph, Et. destruct P as [_ P]. rewrite Ph in P. destruct P as (_ & _ & _ & _ & Lt).
        unfold mu, rem. rewrite Ph. cbn - [Z.max Z.mul Z.add Z.sub]. lia.
      * inv C. simpl in A. inv A. apply SAME; auto. unfold owed. rewrite Ph, Et. reflexivity.
  - (* EVersion *)
    destruct (NS ltac:(intros ? X; discriminate X)) as (s1 & o1 & ep & o2 & C & A & ->). cbn [core] in C.
    destruct (ph s) eqn:Ph; try (inv C; simpl in A; inv A; apply SAME; auto; unfold owed; rewrite Ph; reflexivity; fail).
    assert (G : forall a, a <> 0 -> forall s2 o3 d2, send_requests (set_client s a (cache s)) reqs res = (s2, o3, d2) ->
                fin_if (s2, o3, d2) = (s1, o1, ep) ->
                In OBatchDone (o1 ++ o2) \/ (ph s' <> Idle /\ mu c s' + (if owed c s (EVersion r) then 1 else 0) <= mu c s)).
    { intros a Na s2 o3 d2 Es F. unfold fin_if in F. inv F. destruct d2; simpl in A.
      - left. apply finish_done in A. apply in_or_app; auto.
      - inv A. right. apply send_requests_mu with (c := c) in Es as [P3 M3]. split; auto.
        unfold owed. rewrite Ph. unfold mu at 2. rewrite Ph. cbn [api set_client] in M3.
        replace (a =? 0) with false in M3 by (symmetry; apply Z.eqb_neq; auto).
        replace (rem c (set_client s a (cache s))) with (rem c s) in M3 by reflexivity. lia. }
    destruct (r =? 0); [|destruct (r =? 1)].
    + destruct (send_requests _ reqs res) as [[s2 o3] d2] eqn:Es. eapply (G 1); eauto. lia.
    + destruct (send_requests _ reqs res) as [[s2 o3] d2] eqn:Es. eapply (G 2); eauto. lia.
    + unfold version_failed in C. destruct (deliver s reqs _) as [s2 o3]. unfold fin_if in C. inv C. simpl in A.
      left. apply finish_done in A. apply in_or_app; auto.
  - (* EResult *)
    destruct (NS ltac:(intros ? X; discriminate X)) as (s1 & o1 & ep & o2 & C & A & ->). cbn [core] in C.
    destruct (ph s) eqn:Ph; try (inv C; simpl in A; inv A; apply SAME; auto; unfold owed; rewrite Ph; reflexivity; fail).
    destruct (result_ok c cur v) eqn:OK.
    + destruct (handle_result c s pls cur v) as [[s2 o3] d2] eqn:Eh. unfold fin_if in C. inv C. destruct d2; simpl in A.
      * left. apply finish_done in A. apply in_or_app; auto.
      * inv A. right. apply handle_result_att in Eh as (At & Lt & cur' & tid & Ph'). split; [rewrite Ph'; discriminate|].
        unfold owed. rewrite Ph, OK. unfold mu, rem. rewrite Ph, Ph', At. lia.
    + inv C. simpl in A. inv A. apply SAME; auto. unfold owed. rewrite Ph, OK. reflexivity.
  - discriminate.
  - destruct (NS ltac:(intros ? X; discriminate X)) as (s1 & o1 & ep & o2 & C & A & E). cbn [core] in C.
    inv C. simpl in A. inv A. apply SAME; auto.
  - (* EStop: the batch ends *)
    left. unfold step in H. set (s0 := set_flags s true (looper s)) in *.
    destruct (cancel_batch c s0 cv) as [[s1 o1] done] eqn:E.
    pose proof (cancel_batch_done c s0 cv _ _ _ (eq_refl : stopping s0 = true) PW NI E) as ->.
    unfold fin_if in H. simpl in H. destruct (finish c s1) as [s2 o2] eqn:F. destruct (cancel_all _ _) as [s4 o4]. inv H.
    apply finish_done in F. apply in_or_app; right. apply in_or_app; auto.
Qed.

(* no deadlock: with a batch in flight the environment owes the producer something *)
Theorem owed_exists : forall c s, Inv s -> LkInv s -> ph s <> Idle -> exists e, owed c s e = true /\ hon_ev e = true.
Proof.
  intros c s [[_ PW _ _] _] LK NI. unfold owed, LkInv in *. destruct (ph s) eqn:P; try congruence.
  - destruct (all_done_none _ LK) as (l & Hl & i & [-> | ->]).
    + exists (ELoadDone i true 0). split; auto. unfold has_load. apply existsb_exists. exists (LLoad i). split; auto. apply Z.eqb_refl.
    + exists (ETimer i). split; auto. unfold has_timer. apply existsb_exists. exists (LTimer i). split; auto. apply Z.eqb_refl.
  - exists (EVersion 1). auto.
  - exists (EResult VEmpty). auto.
  - exists (ETimer tid). split; auto. apply Z.eqb_refl.
Qed.

(* ------------------------------------------------------------------ along a run *)
Fixpoint count_owed (c : cfg) (s : state) (evs : list event) : Z :=
  match evs with
  | [] => 0
  | e :: r => (if owed c s e then 1 else 0) + count_owed c (fst (step c s e)) r
  end.

Definition hon (evs : list event) : Prop := Forall (fun e => hon_ev e = true) evs.

Lemma count_owed_nonneg : forall c evs s, 0 <= count_owed c s evs.
Proof. induction evs; simpl; intros; [lia|]. specialize (IHevs (fst (step c s a))). destruct (owed c s a); lia. Qed.

Lemma honest_broken : forall c s e s' out, Inv s -> broken s = false -> hon_ev e = true -> step c s e = (s', out) -> broken s' = false.
Proof.
  intros c s e s' out I B HE H. rewrite (step_broken _ _ _ _ _ I H). destruct e; auto. destruct b; [discriminate|reflexivity].
Qed.

(* the queue only grows by the send just made *)
Lemma epi_queue2 : forall c s1 ep s2 o2, apply_epi c s1 ep = (s2, o2) -> queue s2 = queue s1 \/ queue s2 = [].
Proof.
  intros c s1 ep s2 o2 A.
  assert (T : forall s s' o, try_send_batch c s = (s', o) -> queue s' = queue s \/ queue s' = []).
  { intros s s' o H. apply try_send_batch_spec in H as [[_ D]|(_ & -> & _)]; auto.
    apply dispatch_spec in D as (Q & _). auto. }
  assert (Ck : forall s s' o, check_send_batch c s = (s', o) -> queue s' = queue s \/ queue s' = []).
  { unfold check_send_batch; intros s s' o H. destruct (threshold c s); [eauto|inv H; auto]. }
  destruct ep; simpl in A; eauto.
  - inv A; auto.
  - unfold finish, finish0 in A. destruct (check_send_batch c _) as [s4 o4] eqn:E. inv A. apply Ck in E. simpl in E. exact E.
Qed.

Lemma queue_step : forall c s e s' out, Inv s -> step c s e = (s', out) -> incl (ids (queue s')) (ids (queue s) ++ new_sids s e).
Proof.
  intros c s e s' out I H. pose proof I as [W L]. pose proof W as [IB PW ID ST].
  assert (NS : (forall cv, e <> EStop cv) -> exists s1 o1 ep o2, core c s e = (s1, o1, ep) /\ apply_epi c s1 ep = (s', o2) /\ out = o1 ++ o2)
    by (intros; eapply step_nonstop; eauto).
  assert (G : forall s1 ep o2, apply_epi c s1 ep = (s', o2) -> incl (ids (queue s1)) (ids (queue s) ++ new_sids s e) ->
              incl (ids (queue s')) (ids (queue s) ++ new_sids s e)).
  { intros s1 ep o2 A Q. apply epi_queue2 in A as [-> | ->]; auto. intros ? []. }
  destruct (batch_event e) eqn:BE.
  - destruct (NS ltac:(intros ? ->; discriminate)) as (s1 & o1 & ep & o2 & C & A & _). eapply G; eauto.
    apply core_batch in C as [(-> & _)|(_ & done & BS & _)]; auto;
      try apply (i_onodup _ _ IB); try apply (i_bnodup _ _ IB); [apply incl_appl, incl_refl|].
    destruct (bs_keeps _ _ _ _ _ BS) as [K1 _ _ _ _ _ _]. rewrite K1. apply incl_appl, incl_refl.
  - destruct e; try discriminate.
    + destruct (NS ltac:(intros ? X; discriminate X)) as (s1 & o1 & ep & o2 & C & A & _). cbn [core] in C. eapply G; eauto.
      destruct ((cnt <? 1) || (bytes <? 0)); [|destruct (stopping s)]; inv C; simpl; try (apply incl_appl, incl_refl).
      unfold ids. rewrite map_app. simpl. apply incl_refl.
    + destruct (NS ltac:(intros ? X; discriminate X)) as (s1 & o1 & ep & o2 & C & A & _). cbn [core] in C. eapply G; eauto.
      inv C. simpl. apply incl_appl, incl_refl.
    + destruct (NS ltac:(intros ? X; discriminate X)) as (s1 & o1 & ep & o2 & C & A & _). cbn [core] in C. eapply G; eauto.
      destruct (cancel_send s sid) as [s2 o3] eqn:Ec. inv C. simpl. rewrite app_nil_r.
      apply cancel_send_spec in Ec as (_ & _ & _ & _ & _ & _ & _ & _ & _ & _ & _ & _ & [(-> & _)|(_ & _ & [(Q & _)|(x & Rm & _)])]).
      * apply incl_refl.
      * rewrite Q. apply incl_refl.
      * apply remove_send_spec in Rm as (a & b & Qa & Qb & _). rewrite Qa, Qb. apply ids_incl.
        intros z Hz. apply in_app_or in Hz as [Hz|Hz]; apply in_or_app; [left|right; right]; auto.
    + destruct (NS ltac:(intros ? X; discriminate X)) as (s1 & o1 & ep & o2 & C & A & _). cbn [core] in C. eapply G; eauto.
      inv C. apply incl_appl, incl_refl.
    + destruct (NS ltac:(intros ? X; discriminate X)) as (s1 & o1 & ep & o2 & C & A & _). cbn [core] in C. eapply G; eauto.
      inv C. apply incl_appl, incl_refl.
    + destruct (NS ltac:(intros ? X; discriminate X)) as (s1 & o1 & ep & o2 & C & A & _). cbn [core] in C. eapply G; eauto.
      inv C. apply incl_appl, incl_refl.
    + destruct (NS ltac:(intros ? X; discriminate X)) as (s1 & o1 & ep & o2 & C & A & _). cbn [core] in C. eapply G; eauto.
      inv C. apply incl_appl, incl_refl.
    + apply stop_step_spec in H; auto. destruct H as [_ _ _ (Q & _) _]. rewrite Q. intros ? [].
Qed.

(* when the batch in flight ends, what the producer holds afterwards comes from the queue (or is the send just made) *)
Lemma done_pool : forall c s e s' out, Inv s -> ph s <> Idle -> step c s e = (s', out) -> In OBatchDone out ->
  incl (pool s') (ids (queue s) ++ new_sids s e).
Proof.
  intros c s e s' out I NI H D. pose proof I as [W L]. pose proof W as [IB PW ID ST].
  assert (NS : (forall cv, e <> EStop cv) -> exists s1 o1 ep o2, core c s e = (s1, o1, ep) /\ apply_epi c s1 ep = (s', o2) /\ out = o1 ++ o2)
    by (intros; eapply step_nonstop; eauto).
  assert (NG : no_ghost out -> incl (pool s') (ids (queue s) ++ new_sids s e)).
  { intros G. exfalso. eapply no_ghost_not_done; eauto. }
  destruct (batch_event e) eqn:BE.
  - destruct (NS ltac:(intros ? ->; discriminate)) as (s1 & o1 & ep & o2 & C & A & ->).
    assert (E0 : new_sids s e = []) by (destruct e; try discriminate; reflexivity). rewrite E0, app_nil_r.
    apply core_batch in C as [(-> & -> & ->)|(_ & done & BS & ->)]; auto;
      try apply (i_onodup _ _ IB); try apply (i_bnodup _ _ IB).
    + simpl in A. inv A. destruct D.
    + pose proof (bs_keeps _ _ _ _ _ BS) as [K1 _ _ _ _ _ _]. pose proof (bs_ng _ _ _ _ _ BS) as G1.
      destruct done; simpl in A.
      * pose proof (invB_bstep _ _ _ _ _ [] IB BS (incl_nil_l _) (NoDup_nil _)) as I2.
        unfold finish in A. destruct (finish0 s1) as [s3 o3] eqn:F. destruct (check_send_batch c s3) as [s4 o4] eqn:E. inv A.
        destruct (finish0_inv _ _ _ _ I2 F) as (W3 & -> & [J1 _ _ _ _ _ _] & _ & P3).
        assert (A' : apply_epi c s3 Check = (s', o4)) by exact E.
        apply epi_wire in A' as [[_ Y]|[-> _]]; auto.
        -- rewrite J1, K1 in Y. exact Y.
        -- unfold pool. rewrite P3, J1, K1. simpl. apply incl_refl.
      * inv A. rewrite app_nil_r in D. exfalso. eapply no_ghost_not_done; eauto.
  - destruct e; try discriminate.
    + destruct (NS ltac:(intros ? X; discriminate X)) as (s1 & o1 & ep & o2 & C & A & ->). cbn [core] in C. apply NG.
      destruct ((cnt <? 1) || (bytes <? 0)); [|destruct (stopping s)]; inv C; simpl in A.
      * inv A. repeat constructor.
      * inv A. repeat constructor.
      * match type of A with check_send_batch _ ?st = _ => destruct (not_idle_no_dispatch c st NI) as [_ X] end.
        rewrite X in A. inv A. constructor.
    + destruct (NS ltac:(intros ? X; discriminate X)) as (s1 & o1 & ep & o2 & C & A & ->). cbn [core] in C. apply NG.
      inv C. simpl in A. inv A. repeat constructor.
    + destruct (NS ltac:(intros ? X; discriminate X)) as (s1 & o1 & ep & o2 & C & A & ->). cbn [core] in C. apply NG.
      destruct (cancel_send s sid) as [s2 o3] eqn:Ec. inv C. simpl in A. inv A. rewrite app_nil_r.
      apply cancel_send_spec in Ec as (OO & _). auto with prod.
    + destruct (NS ltac:(intros ? X; discriminate X)) as (s1 & o1 & ep & o2 & C & A & ->). cbn [core] in C. apply NG.
      inv C. destruct (looper s1); simpl in A.
      * destruct (not_idle_no_dispatch c s1 NI) as [X _]. rewrite X in A. inv A. constructor.
      * inv A. constructor.
    + destruct (NS ltac:(intros ? X; discriminate X)) as (s1 & o1 & ep & o2 & C & A & ->). cbn [core] in C. apply NG.
      inv C. simpl in A. inv A. constructor.
    + destruct (NS ltac:(intros ? X; discriminate X)) as (s1 & o1 & ep & o2 & C & A & ->). cbn [core] in C. apply NG.
      inv C. simpl in A. inv A. constructor.
    + destruct (NS ltac:(intros ? X; discriminate X)) as (s1 & o1 & ep & o2 & C & A & ->). cbn [core] in C. apply NG.
      inv C. simpl in A. inv A. constructor.
    + apply stop_step_spec in H; auto. destruct H as [_ _ (_ & _ & P) (Q & _) _]. unfold pool. rewrite P, Q. intros ? [].
Qed.

(* ids the producer no longer holds stay gone *)
Definition gone (B : list Z) (s : state) : Prop := forall i, In i B -> i < nsend s /\ ~ In i (pool s).

Lemma gone_step : forall c B s e s' out, Inv s -> gone B s -> step c s e = (s', out) -> gone B s'.
Proof.
  intros c B s e s' out I G H i Hi. destruct (G i Hi) as [Lt N].
  destruct (step_pool _ _ _ _ _ I H) as [P _]. destruct (step_inv _ _ _ _ _ I H) as [_ _ NSd].
  split; [lia|]. intros X. apply P in X. apply in_app_or in X as [X|X]; auto.
  destruct e; simpl in X; try tauto; destruct X as [X|[]]; lia.
Qed.

Lemma gone_run : forall c B evs s s' tr, Inv s -> gone B s -> run c s evs = (s', tr) -> gone B s'.
Proof.
  induction evs as [|e r IH]; simpl; intros s s' tr I G H; [inv H; auto|].
  destruct (step c s e) as [s1 o] eqn:E. destruct (run c s1 r) as [s2 t2] eqn:E2. inv H.
  eapply IH; [eapply inv_step; eauto|eapply gone_step; eauto|exact E2].
Qed.

(* ids of the batch in flight: below the next id, not in the queue *)
Definition held (B : list Z) (s : state) : Prop := forall i, In i B -> i < nsend s /\ ~ In i (ids (queue s)).

Theorem progress_run : forall c B evs s s' tr, Inv s -> PInv c s -> broken s = false -> ph s <> Idle -> held B s ->
  hon evs -> run c s evs = (s', tr) ->
  (In OBatchDone (outs_of tr) /\ gone B s') \/ (ph s' <> Idle /\ mu c s' + count_owed c s evs <= mu c s).
Proof.
  intros c B. induction evs as [|e r IH]; intros s s' tr I P BK NI HB HN H.
  - simpl in H. inv H. right. split; auto. simpl. lia.
  - simpl in H. destruct (step c s e) as [s1 o] eqn:E. destruct (run c s1 r) as [s2 t2] eqn:E2. inv H.
    inversion HN as [|? ? HE HN']; subst. cbn [count_owed]. rewrite E. cbn [fst].
    pose proof (inv_step _ _ _ _ _ I E) as I1.
    destruct (progress_step _ _ _ _ _ I P BK NI HE E) as [D|[NI1 M1]].
    + left. split; [unfold outs_of; simpl; apply in_or_app; auto|].
      eapply gone_run; [exact I1| |exact E2].
      intros i Hi. destruct (HB i Hi) as [Lt Nq]. destruct (step_inv _ _ _ _ _ I E) as [_ _ NSd]. split; [lia|].
      intros X. apply (done_pool _ _ _ _ _ I NI E D) in X. apply in_app_or in X as [X|X]; auto.
      destruct e; simpl in X; try tauto; destruct X as [X|[]]; lia.
    + destruct (step_c09 _ _ _ _ _ I P E) as [P1 _].
      assert (HB1 : held B s1).
      { intros i Hi. destruct (HB i Hi) as [Lt Nq]. destruct (step_inv _ _ _ _ _ I E) as [_ _ NSd]. split; [lia|].
        intros X. apply (queue_step _ _ _ _ _ I E) in X. apply in_app_or in X as [X|X]; auto.
        destruct e; simpl in X; try tauto; destruct X as [X|[]]; lia. }
      destruct (IH s1 s' t2 I1 P1 (honest_broken _ _ _ _ _ I BK HE E) NI1 HB1 HN' E2) as [[D G]|[NI2 M2]].
      * left. split; auto. unfold outs_of in *. simpl. apply in_or_app; auto.
      * right. split; auto. lia.
Qed.

Lemma pinv_retry_lt : forall c s, PInv c s -> forall pls cur tid, ph s = RetryWait pls cur tid -> attempts s < c_max c.
Proof. intros c s [_ P] pls cur tid E. rewrite E in P. destruct P as (_ & _ & _ & _ & Lt). exact Lt. Qed.

(* the batch in flight ends within mu owed events, and then none of its sends is held any more *)
Theorem batch_ends : forall c evs s s' tr, Inv s -> PInv c s -> broken s = false -> ph s <> Idle -> hon evs ->
  run c s evs = (s', tr) -> mu c s <= count_owed c s evs ->
  In OBatchDone (outs_of tr) /\ gone (ids (batch_sends (ph s))) s'.
Proof.
  intros c evs s s' tr I P BK NI HN H M.
  assert (HB : held (ids (batch_sends (ph s))) s).
  { destruct I as [[IB _ _ _] _]. intros i Hi. pose proof (i_bbound _ _ IB) as B. rewrite Forall_forall in B.
    destruct (B i Hi) as [_ Lt]. split; auto. intros X. pose proof (i_blt _ _ IB i i Hi X). lia. }
  destruct (progress_run c _ evs s s' tr I P BK NI HB HN H) as [X|[NI' M']]; auto. exfalso.
  assert (P' : PInv c s') by (eapply run_c09; eauto).
  pose proof (mu_pos c s' NI' (pinv_retry_lt c s' P')). lia.
Qed.

(* the measure is bounded by the size of the batch and the attempt limit *)
Lemma lks_rem_bound : forall a ls, 0 <= a -> lks_rem a ls <= Z.of_nat (length ls) * (2 * a + 2).
Proof.
  induction ls as [|l r IH]; intros H; [simpl; lia|]. cbn [lks_rem length]. specialize (IH H).
  assert (lk_rem a l <= 2 * a + 2) by (destruct l; unfold lk_rem; lia). rewrite Nat2Z.inj_succ. nia.
Qed.

Theorem mu_bounded : forall c s, Inv s -> PInv c s -> mu c s <= mu_bound c (Z.of_nat (length (batch_sends (ph s)))).
Proof.
  intros c s [[_ PW _ _] _] [A _]. unfold mu, mu_bound.
  assert (R : 0 <= rem c s <= Z.max 0 (c_max c)) by (unfold rem; lia).
  set (m := Z.max 0 (c_max c)) in *. set (a := rem c s) in *.
  assert (N : 0 <= Z.of_nat (length (batch_sends (ph s)))) by lia.
  destruct (ph s) as [|reqs ls| | |] eqn:Ph; cbn - [Z.max Z.mul Z.add Z.sub Z.of_nat] in PW |- *; try nia.
  pose proof (lks_rem_bound a ls (proj1 R)) as B. rewrite PW in B.
  destruct (api s =? 0); nia.
Qed.

(* ------------------------------------------------------------------ from the initial state *)
From AV Require Proofs.ProducerC01Spec Proofs.ProducerC01Lists Proofs.ProducerC01Batch Proofs.ProducerC01Thm.

Lemma honest_spec : forall evs, ProducerC01Spec.honest evs -> hon evs.
Proof. intros evs H. exact H. Qed.

Section Resolved.
Variables (c : cfg) (has_t : bool) (api0 : Z) (cache0 : list (Z * (Z * bool))).
Let s0 := init_state has_t api0 cache0.

(* No deadlock: in every state of an honest run with a batch in flight the producer waits for something the
   environment can deliver. *)
Theorem no_deadlock : forall evs s tr, ProducerC01Spec.honest evs -> run c s0 evs = (s, tr) -> ph s <> Idle ->
  exists e, owed c s e = true /\ ProducerC01Spec.honest_ev e = true.
Proof.
  intros evs s tr HN H NI. assert (R : reachable c s) by (exists has_t, api0, cache0, evs; fold s0; rewrite H; reflexivity).
  apply owed_exists; auto. - apply reachable_inv with c; auto. - apply reachable_lk with c; auto.
Qed.

(* Every honest step with a batch in flight ends the batch or does not increase the measure, and an owed event
   decreases it by at least one. *)
Theorem owed_progress : forall evs s tr e s' out, ProducerC01Spec.honest (evs ++ [e]) -> run c s0 evs = (s, tr) ->
  ph s <> Idle -> step c s e = (s', out) ->
  In OBatchDone out \/ (ph s' <> Idle /\ mu c s' + (if owed c s e then 1 else 0) <= mu c s).
Proof.
  intros evs s tr e s' out HN H NI E. apply Forall_app in HN as [HN HE]. inversion HE; subst.
  assert (R : reachable c s) by (exists has_t, api0, cache0, evs; fold s0; rewrite H; reflexivity).
  eapply progress_step; eauto.
  - apply reachable_inv with c; auto.
  - apply pinv_reachable; auto.
  - exact (ProducerC01Thm.i_ok _ _ _ _ (ProducerC01Thm.run_inv _ _ _ _ _ _ _ HN H)).
Qed.

(* Eventually resolved, in event-order form.  Take any honest continuation evs2 of a run that has a batch in flight.
   Either the batch has ended and every send in it has fired, or the batch is still in flight and the environment
   has so far delivered fewer than mu_bound c (size of the batch) of the events it owed (count_owed counts, along the
   run, the events that were owed in the state they arrived in).  With no_deadlock - while the batch is in flight an
   owed event always exists - this says: if the environment keeps delivering what it owes (the fairness premise, a
   property of the event list, not of the producer), the batch ends within mu_bound owed events.  Nothing is claimed
   about runs in which the environment stops delivering. *)
Theorem eventually_resolved : forall evs1 evs2 s1 tr1 s2 tr2, ProducerC01Spec.honest (evs1 ++ evs2) ->
  run c s0 evs1 = (s1, tr1) -> run c s1 evs2 = (s2, tr2) -> ph s1 <> Idle ->
  (In OBatchDone (ProducerC01Spec.outs_of tr2) /\
   forall x, In x (batch_sends (ph s1)) -> In (s_id x) (ProducerC01Spec.fired (tr1 ++ tr2))) \/
  (ph s2 <> Idle /\ count_owed c s1 evs2 < mu_bound c (Z.of_nat (length (batch_sends (ph s1))))).
Proof.
  intros evs1 evs2 s1 tr1 s2 tr2 HN H1 H2 NI.
  pose proof HN as HN'. apply Forall_app in HN' as [HN1 HN2].
  assert (R : reachable c s1) by (exists has_t, api0, cache0, evs1; fold s0; rewrite H1; reflexivity).
  pose proof (reachable_inv _ _ R) as I1. pose proof (pinv_reachable _ _ R) as P1.
  pose proof (ProducerC01Thm.run_inv _ _ _ _ _ _ _ HN1 H1) as R1.
  assert (H : run c s0 (evs1 ++ evs2) = (s2, tr1 ++ tr2)) by (rewrite run_app, H1, H2; reflexivity).
  pose proof (ProducerC01Thm.run_inv _ _ _ _ _ _ _ HN H) as R2.
  assert (HB : held (ids (batch_sends (ph s1))) s1).
  { destruct I1 as [[IB _ _ _] _]. intros i Hi. pose proof (i_bbound _ _ IB) as B. rewrite Forall_forall in B.
    destruct (B i Hi) as [_ Lt]. split; auto. intros X. pose proof (i_blt _ _ IB i i Hi X). lia. }
  destruct (progress_run c _ evs2 s1 s2 tr2 I1 P1 (ProducerC01Thm.i_ok _ _ _ _ R1) NI HB HN2 H2) as [[D G]|[NI2 M2]].
  - left. split; [exact D|]. intros x X.
    assert (A : In x (ProducerC01Spec.accepted 0 (evs1 ++ evs2))).
    { rewrite ProducerC01Lists.accepted_app. apply in_or_app; left. apply (ProducerC01Thm.i_acc _ _ _ _ R1).
      unfold ProducerC01Batch.live. apply in_or_app; right. exact X. }
    destruct (ProducerC01Thm.i_all _ _ _ _ R2 x A) as [O|O]; auto. exfalso.
    apply (ProducerC01Thm.i_live _ _ _ _ R2) in O as (y & Y & E).
    destruct (G (s_id x)) as [_ N]; [apply in_map; exact X|]. apply N. unfold pool. rewrite <- E.
    unfold ProducerC01Batch.live in Y. apply in_or_app. apply in_app_or in Y as [Y|Y]; [right|left]; apply in_map; exact Y.
  - right. split; auto.
    assert (P2 : PInv c s2) by (eapply run_c09; eauto).
    pose proof (mu_pos c s2 NI2 (pinv_retry_lt c s2 P2)). pose proof (mu_bounded c s1 I1 P1). lia.
Qed.

(* the same with the fairness premise as a hypothesis: once mu_bound owed events have been delivered *)
Corollary resolved_within : forall evs1 evs2 s1 tr1 s2 tr2, ProducerC01Spec.honest (evs1 ++ evs2) ->
  run c s0 evs1 = (s1, tr1) -> run c s1 evs2 = (s2, tr2) -> ph s1 <> Idle ->
  mu_bound c (Z.of_nat (length (batch_sends (ph s1)))) <= count_owed c s1 evs2 ->
  forall x, In x (batch_sends (ph s1)) -> In (s_id x) (ProducerC01Spec.fired (tr1 ++ tr2)).
Proof.
  intros evs1 evs2 s1 tr1 s2 tr2 HN H1 H2 NI M.
  destruct (eventually_resolved _ _ _ _ _ _ HN H1 H2 NI) as [[_ F]|[_ L]]; [exact F|lia].
Qed.
End Resolved.
