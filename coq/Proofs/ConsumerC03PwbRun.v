(* PWB (processor-call window with the failure discipline) at the level of events and whole runs. *)
From Coq Require Import Lia.
From AV Require Import Base.Util Model.Consumer Model.ConsumerLog Model.ConsumerLogFifo Model.ConsumerLogC03 Proofs.ConsumerC02Wp
  Proofs.ConsumerC03Pwb Proofs.ConsumerC03PwbRec Proofs.ConsumerC03PwbLoop.

Definition JB (b : bool) (s : state) : Prop := PInv (false, false) (None, b) s.

Lemma J_pend b s : JB b s -> forallb pw_neutral (s_pend s) = true.
Proof. unfold JB, PInv. intro K. repeat (apply andb_prop in K; destruct K as [K ?]). assumption. Qed.

Lemma pw_ret_none s b v : pwb_out (pwb_abs (None, b) s) (ORet v) = Some (pwb_abs (None, b) s).
Proof. unfold pwb_abs, pw_abs. cbn. destruct (s_proc s) as [[[? ?] ?]|]; reflexivity. Qed.
Lemma pw_raised_none s b v : pwb_out (pwb_abs (None, b) s) (ORaised v) = Some (pwb_abs (None, b) s).
Proof. unfold pwb_abs, pw_abs. cbn. destruct (s_proc s) as [[[? ?] ?]|]; reflexivity. Qed.
(* the return of an API call made by the application (not from inside the processor) *)
Ltac p_emit_api :=
  lazymatch goal with
  | |- wp _ (emit (ORet _)) _ ?g ?st =>
    let w0 := cur_w in eapply p_eq with (w := w0) (s := st); [ solve [psolve] |
      apply wp_emit; eexists; split; [ apply pw_ret_none | cbn beta iota ] ]
  | |- wp _ (emit (ORaised _)) _ ?g ?st =>
    let w0 := cur_w in eapply p_eq with (w := w0) (s := st); [ solve [psolve] |
      apply wp_emit; eexists; split; [ apply pw_raised_none | cbn beta iota ] ]
  end.
Ltac p_flush :=
  lazymatch goal with
  | |- wp _ (fun s' : state => (Ok tt, s', ?l)) _ ?g _ =>
    apply wp_emits; exists g; split; [ apply neutral_pw; first [ eapply J_pend; eassumption | solve [psolve] ] | cbn beta iota ]
  end.

Section Ev.
Variable fuel : nat.
Notation rec := (run fuel).
Let Hrec := p_run fuel.

Ltac wcond := first [ assumption | solve [intro; discriminate] | solve [cbn; intros; congruence] | solve [psolve] ].
Ltac pinv_arg := try (match goal with K : PInv ?d0 _ _ |- PInv ?e _ _ => is_evar e; unify e d0 end); solve [psolve].
Ltac cE := idtac; first [ c8 | lazymatch goal with
  | |- wp _ (run fuel (KFireProc _)) _ _ _ => fail
  | |- wp _ (run fuel KStop) _ _ _ => fail
  | |- wp _ (run fuel (KProcLoop _)) _ _ _ => fail
  | |- wp _ (run fuel (KFetchResp _ _)) _ _ _ =>
    let w0 := cur_w in eapply p_eq with (w := w0); [ solve [psolve] |
      eapply wp_call; [ eapply (Hrec_fetch rec Hrec); [ pinv_arg | wcond ] | after_callx ] ]
  | |- wp _ (run fuel _) _ _ _ =>
    let w0 := cur_w in eapply p_eq with (w := w0); [ solve [psolve] |
      eapply wp_call; [ eapply (Hrec_plain rec Hrec); [ pinv_arg | exact I ] | after_callx ] ]
  | |- wp _ (handle_commit_error _ _ _ _) _ _ _ =>
    let w0 := cur_w in eapply p_eq with (w := w0); [ solve [psolve] |
      eapply wp_call; [ eapply (p_handle_commit_error rec Hrec); pinv_arg | after_callx ] ]
  end ].

Ltac ev_auto := solve [ repeat (first [ p_flush | p_stif | p_emit_api | p_emit | wp_step cE ]); p_donex ].
Lemma pe_handle e b s : JB b s ->
  ww (handle fuel e) (PQx (false, false) (None, b)) (pwb_ev (pwb_abs (None, b) s) s e) s.
Proof.
  intro K. unfold JB in K. unfold handle. destruct e; cbn [pwb_ev pwb_abs fst snd b_pw b_bad pw_ev].
  all: unfold handle_offset_response, flush_pend, api_commit, api_shutdown.
  - (* EStart *) apply wp_bind, wp_get. cbn beta iota. unfold is_none.
    destruct (s_startd s) as [x|] eqn:SD; cbn [is_some negb].
    + change (mkPB (pw_abs None s) b) with (pwb_abs (None, b) s). ev_auto.
    + change (mkPB (pw_abs None s) false) with (pwb_abs (None, false) s).
      assert (K0 : PInv (false, false) (None, false) s) by (clear - K; psolve). clear K.
      pose proof (J_pend false s K0) as NPs. ev_auto.
  - (* EStop *) change (mkPB (pw_abs None s) b) with (pwb_abs (None, b) s).
    apply wp_bind, wp_get. cbn beta iota. unfold api_stop. apply wp_bind, wp_try.
    eapply wp_conseq; [ apply (Hrec KStop (false, false) (None, b)); cbn; repeat split; auto |].
    intros r g' s' (b1 & -> & H). cbn [fst] in H |- *. cbn beta iota.
    assert (K' : PInv (false, false) (None, b1) s') by (destruct H as [H | (_ & _ & H)]; [ clear - H; psolve | exact H ]).
    apply wp_bind, wp_get. cbn beta iota.
    destruct r; repeat (first [ p_emit_api | wp_step cE ]); p_donex.
  - (* EShutdown *) change (mkPB (pw_abs None s) b) with (pwb_abs (None, b) s). pose proof (J_pend _ _ K) as NPs. ev_auto.
  - (* ECommit *) change (mkPB (pw_abs None s) b) with (pwb_abs (None, b) s). ev_auto.
  - (* EReqOk *) change (mkPB (pw_abs None s) b) with (pwb_abs (None, b) s). ev_auto.
  - (* EFetchOk *) change (mkPB (pw_abs None s) b) with (pwb_abs (None, b) s). ev_auto.
  - (* EReqFail *) change (mkPB (pw_abs None s) b) with (pwb_abs (None, b) s). ev_auto.
  - (* EPlan *) apply wp_bind, wp_get. cbn beta iota. apply wp_upd. exists b. split; [reflexivity | clear - K; psolve].
  - (* EProcFire *) apply wp_bind, wp_get. cbn beta iota.
    destruct (s_proc s) as [[[l rest] c]|] eqn:SP.
    + apply wp_swallow. eapply wp_conseq; [ apply (Hrec (KFireProc (if ok then None else Some FK_PROC)) (false, false) (None, b)) |].
      * cbn [PreD]. rewrite SP. cbn [fst snd]. repeat split; auto. unfold pw_abs, fired. rewrite SP. cbn. destruct ok; cbn; rewrite ?orb_false_r, ?orb_true_r; reflexivity.
      * intros r g' s' (b1 & -> & [H | (E & _)]); [| discriminate E]. exists b1. split; [reflexivity | exact H].
    + unfold pw_abs. rewrite SP. cbn [w_st]. apply wp_emit. eexists. split; [reflexivity|].
      exists b. split; [unfold pwb_abs, pw_abs; rewrite SP; reflexivity | exact K].
  - (* ECommitOk *) change (mkPB (pw_abs None s) b) with (pwb_abs (None, b) s). ev_auto.
  - (* ECommitFail *) change (mkPB (pw_abs None s) b) with (pwb_abs (None, b) s). ev_auto.
  - (* EFireRetry *) change (mkPB (pw_abs None s) b) with (pwb_abs (None, b) s). ev_auto.
  - (* EFireCommitRetry *) change (mkPB (pw_abs None s) b) with (pwb_abs (None, b) s). ev_auto.
  - (* ETick *) change (mkPB (pw_abs None s) b) with (pwb_abs (None, b) s). ev_auto.
Qed.
End Ev.

Lemma pe_step fuel b s e s' o : JB b s -> step fuel s e = (s', o) -> fuel_ok o = true ->
  exists b', gouts pwb_out (pwb_ev (pwb_abs (None, b) s) s e) o = Some (pwb_abs (None, b') s') /\ JB b' s'.
Proof.
  intros K E F. unfold step in E.
  destruct ((handle fuel e;;; s'0 <- get;; emit (OEnd (s_lp s'0) (s_lc s'0))) s) as [[r s1] o1] eqn:E1.
  inversion E; subst s1 o1; clear E.
  assert (W : ww (handle fuel e;;; s'0 <- get;; emit (OEnd (s_lp s'0) (s_lc s'0))) (PQx (false, false) (None, b))
                 (pwb_ev (pwb_abs (None, b) s) s e) s).
  { apply wp_bind. eapply wp_call; [ apply pe_handle; exact K |].
    intros r0 g' s0 (b1 & -> & K0). cbn [fst] in K0 |- *. destruct r0; cbn beta iota; [| exists b1; split; auto].
    apply wp_bind, wp_get. cbn beta iota. apply wp_emit. eexists. split.
    - unfold pwb_abs, pw_abs. cbn [fst snd pwb_out pw_out bad_after b_pw b_bad w_lp]. rewrite oz_eqb_refl. reflexivity.
    - exists b1. split; [reflexivity | exact K0]. }
  destruct (W _ _ _ E1 F) as (g' & Hg & b1 & -> & K'). exists b1. auto.
Qed.

Lemma JB_init c m b : 0 <= c_acn c -> JB false (init c m b).
Proof. intro H. unfold JB, PInv, init. cbn. apply Z.leb_le in H. rewrite H. reflexivity. Qed.

Lemma pwb_run fuel : forall evs b s, JB b s ->
  forallb (fun t => match t with (_, _, o, _) => fuel_ok o end) (run_steps fuel s evs) = true ->
  exists b', mon_run_s pwb_ev pwb_out (pwb_abs (None, b) s) (run_steps fuel s evs)
             = Some (pwb_abs (None, b') (fst (run_events fuel s evs))) /\ JB b' (fst (run_events fuel s evs)).
Proof.
  induction evs as [|e evs IH]; intros b s K F; cbn [run_steps run_events mon_run_s fst].
  - exists b. auto.
  - cbn [run_steps] in F. destruct (step fuel s e) as [s1 o1] eqn:E. cbn [forallb] in F.
    apply andb_prop in F. destruct F as [F1 F2].
    destruct (pe_step _ _ _ _ _ _ K E F1) as (b1 & Hg & K1). cbn [mon_run_s]. rewrite Hg.
    destruct (IH b1 s1 K1 F2) as (b2 & H2 & K2). rewrite H2.
    destruct (run_events fuel s1 evs) as [s2 o2] eqn:E2. cbn [fst] in *. exists b2. auto.
Qed.

(* the monitor PWB accepts every run of the model that does not run out of fuel (auto_commit_every_n >= 0, as the
   constructor checks); between events its window part is the function pw_abs None of the model state, and its
   failure bit implies that the consumer is dead (stopped, or its start Deferred has fired) *)
Theorem pwb_monitor_accepts fuel c maxatt buf evs :
  0 <= c_acn c -> run_fuel_ok fuel c maxatt buf evs = true ->
  exists b, mon_run_s pwb_ev pwb_out pwb0 (run_steps fuel (init c maxatt buf) evs)
            = Some (mkPB (pw_abs None (fst (run_events fuel (init c maxatt buf) evs))) b)
            /\ (b = true -> dead (fst (run_events fuel (init c maxatt buf) evs)) = true).
Proof.
  intros A F. unfold run_fuel_ok in F.
  destruct (pwb_run fuel evs false (init c maxatt buf) (JB_init _ _ _ A) F) as (b & H & K).
  exists b. split; [exact H|]. intros ->. exact (PInv_bad _ _ _ K).
Qed.
Print Assumptions pwb_monitor_accepts.
