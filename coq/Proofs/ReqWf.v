(* C04, part 7: WHEN the encoders return.  Boolean well-formedness predicates ("what struct.pack / str.encode accept",
   plus: the strings the grammar does not allow to be null are present) and totality lemmas
       wf args = true -> exists w, encode args = Ok w
   so that the parse theorems are not vacuous: composed in Props/C04.v to
       wf args = true -> exists w, encode args = Ok w /\ parse_request orc w = Some (...).
   At the level of the primitives the predicates are exact (Proofs.PrimFacts.pack_ok_iff, write_short_bytes_ok_iff;
   [astr_ok_iff] / [ustr_ok_iff] below). *)
From AV Require Import Base.Util Model.Prim Model.Partitioner Model.Crc Model.MsgSet Model.KafkaSpecReq Model.Requests
     Proofs.PrimFacts Proofs.Truncation Proofs.ReqParsePrim Proofs.ReqParseGroup Proofs.ReqParseApis
     Proofs.ReqParseProduce.
From Coq Require Import Lia.

Definition MAX16 : Z := 32767.
Definition MAX32 : Z := 2147483647.

Definition hdr_wf (cid : list Z) (corr : Z) : bool := in_i32 corr && (len cid <=? MAX16).
(* a non-null STRING written by write_short_ascii / write_short_text *)
Definition astr_wf (t : text) : bool :=
  match t with Some cps => ascii_cps cps && (len cps <=? MAX16) | None => false end.
Definition ustr_wf (t : text) : bool :=
  match t with
  | Some cps => match utf8 cps with Some b => len b <=? MAX16 | None => false end
  | None => false
  end.
Definition nstr_wf (b : obytes) : bool := match b with Some x => len x <=? MAX16 | None => true end.     (* NULLABLE_STRING *)
Definition bytes_wf (b : obytes) : bool := match b with Some x => len x <=? MAX32 | None => false end.   (* BYTES *)
Definition nbytes_wf (b : obytes) : bool := match b with Some x => len x <=? MAX32 | None => true end.   (* NULLABLE_BYTES *)
Definition count_wf {A} (xs : list A) : bool := llen xs <=? MAX32.

(* ---- primitives: the writers return exactly on these values ---- *)
Lemma pack_total f v : fmt_in f v = true -> pack f v = Ok (enc_be (fmt_size f) v).
Proof. unfold pack. now intros ->. Qed.

Lemma len_i16 b : len b <=? MAX16 = true -> fmt_in Fh (len b) = true.
Proof.
  intros H. apply Z.leb_le in H. pose proof (len_nonneg b). cbn [fmt_in]. unfold in_i16, MAX16 in *.
  apply andb_true_intro. split; apply Z.leb_le; lia.
Qed.
Lemma len_i32 b : len b <=? MAX32 = true -> fmt_in Fi (len b) = true.
Proof.
  intros H. apply Z.leb_le in H. pose proof (len_nonneg b). cbn [fmt_in]. unfold in_i32, MAX32 in *.
  apply andb_true_intro. split; apply Z.leb_le; lia.
Qed.
Lemma llen_i32 {A} (xs : list A) : count_wf xs = true -> fmt_in Fi (llen xs) = true.
Proof.
  unfold count_wf, llen. intros H. apply Z.leb_le in H. pose proof (Zle_0_nat (length xs)).
  cbn [fmt_in]. unfold in_i32, MAX32 in *. apply andb_true_intro. split; apply Z.leb_le; lia.
Qed.

Lemma short_bytes_total b : len b <=? MAX16 = true -> exists w, write_short_bytes (Some b) = Ok w.
Proof. intros H. apply write_short_bytes_ok_iff. apply Z.leb_le in H. exact H. Qed.

Lemma astr_total t : astr_wf t = true -> exists w, write_short_ascii t = Ok w.
Proof.
  destruct t as [cps|]; [|discriminate]. cbn [astr_wf write_short_ascii]. intros H. apply andb_prop in H.
  destruct H as [A L]. rewrite A. now apply short_bytes_total.
Qed.
Lemma ustr_total t : ustr_wf t = true -> exists w, write_short_text t = Ok w.
Proof.
  destruct t as [cps|]; [|discriminate]. cbn [ustr_wf write_short_text]. destruct (utf8 cps) as [b|]; [|discriminate].
  apply short_bytes_total.
Qed.
Lemma nstr_total b : nstr_wf b = true -> exists w, write_short_bytes b = Ok w.
Proof. destruct b as [x|]; [apply short_bytes_total|intros _; eexists; reflexivity]. Qed.
Lemma nbytes_total b : nbytes_wf b = true -> exists w, write_int_string b = Ok w.
Proof.
  destruct b as [x|]; cbn [nbytes_wf write_int_string]; [|intros _; eexists; reflexivity].
  intros H. unfold write_i32. rewrite (pack_total Fi _ (len_i32 _ H)). cbn [bind]. eexists. reflexivity.
Qed.
Lemma bytes_total b : bytes_wf b = true -> exists w, write_int_string b = Ok w.
Proof. destruct b as [x|]; [|discriminate]. exact (nbytes_total (Some x)). Qed.

Lemma astr_present t : astr_wf t = true -> present t = true.
Proof. destruct t; [reflexivity|discriminate]. Qed.
Lemma ustr_present t : ustr_wf t = true -> present t = true.
Proof. destruct t; [reflexivity|discriminate]. Qed.
Lemma bytes_present b : bytes_wf b = true -> present b = true.
Proof. destruct b; [reflexivity|discriminate]. Qed.

(* exactness at the primitive level: a present string is written iff the predicate holds *)
Lemma astr_ok_iff cps : (exists w, write_short_ascii (Some cps) = Ok w) <-> astr_wf (Some cps) = true.
Proof.
  split; [|apply astr_total]. cbn [write_short_ascii astr_wf]. destruct (ascii_cps cps); [|intros [w H]; discriminate].
  intros H. apply write_short_bytes_ok_iff in H. cbn [andb]. apply Z.leb_le. exact H.
Qed.
Lemma ustr_ok_iff cps : (exists w, write_short_text (Some cps) = Ok w) <-> ustr_wf (Some cps) = true.
Proof.
  split; [|apply ustr_total]. cbn [write_short_text ustr_wf]. destruct (utf8 cps) as [b|]; [|intros [w H]; discriminate].
  intros H. apply write_short_bytes_ok_iff in H. apply Z.leb_le. exact H.
Qed.

Lemma header_total cid corr key ver :
  hdr_wf cid corr = true -> in_i16 key = true -> in_i16 ver = true ->
  exists h, encode_message_header cid corr key ver = Ok h.
Proof.
  unfold hdr_wf, encode_message_header. intros H K V. apply andb_prop in H. destruct H as [C L].
  cbn [pack_list]. rewrite (pack_total Fh key K), (pack_total Fh ver V), (pack_total Fi corr C), (pack_total Fh _ (len_i16 _ L)).
  cbn [bind]. eexists. reflexivity.
Qed.

Lemma enc_all_total {A} (enc : A -> res (list Z)) xs :
  (forall a, In a xs -> exists w, enc a = Ok w) -> exists w, enc_all enc xs = Ok w.
Proof.
  induction xs as [|x r IH]; intros H; cbn [enc_all]; [eexists; reflexivity|].
  destruct (H x (or_introl eq_refl)) as [a ->]. destruct (IH (fun a I => H a (or_intror I))) as [b ->].
  cbn [bind]. eexists. reflexivity.
Qed.

(* use the totality facts in the context to run a do-chain to its end *)
Ltac run_total :=
  repeat match goal with
         | H : exists w, ?e = Ok w |- _ => let w := fresh "w" in let E := fresh "E" in destruct H as [w E]; rewrite E
         end;
  cbn [bind]; eexists; reflexivity.

(* ------------------------------------------------------------------ ApiVersions, Metadata, FindCoordinator, group APIs *)
Lemma api_versions_total cid corr : hdr_wf cid corr = true ->
  exists w, encode_api_versions_request cid corr API_VERSIONS_KEY 0 = Ok w.
Proof. intros H. apply header_total; auto. Qed.

Definition metadata_wf (cid : list Z) (corr : Z) (topics : list text) : bool :=
  hdr_wf cid corr && count_wf topics && forallb astr_wf topics.

Lemma metadata_total cid corr topics : metadata_wf cid corr topics = true ->
  exists w, encode_metadata_request cid corr topics = Ok w /\ forallb present topics = true.
Proof.
  unfold metadata_wf. intros H. apply andb_prop in H. destruct H as [H T]. apply andb_prop in H. destruct H as [H C].
  pose proof (header_total cid corr METADATA_KEY 0 H eq_refl eq_refl) as Hh.
  assert (He : exists w, enc_all write_short_ascii topics = Ok w).
  { apply enc_all_total. intros a I. apply astr_total. rewrite forallb_forall in T. now apply T. }
  unfold encode_metadata_request. rewrite (pack_total Fi _ (llen_i32 _ C)).
  destruct Hh as [h ->]. destruct He as [e ->]. cbn [bind]. eexists. split; [reflexivity|].
  apply forallb_forall. intros t I. apply astr_present. rewrite forallb_forall in T. now apply T.
Qed.

Lemma find_coordinator_total cid corr group : hdr_wf cid corr = true -> astr_wf group = true ->
  exists w, encode_consumermetadata_request cid corr group = Ok w.
Proof.
  intros H G. pose proof (header_total cid corr CONSUMER_METADATA_KEY 0 H eq_refl eq_refl) as Hh.
  pose proof (astr_total _ G) as Hg. unfold encode_consumermetadata_request. run_total.
Qed.

Lemma heartbeat_total cid corr group gen member :
  hdr_wf cid corr = true -> ustr_wf group = true -> in_i32 gen = true -> ustr_wf member = true ->
  exists w, encode_heartbeat_request cid corr group gen member = Ok w.
Proof.
  intros H G N M. pose proof (header_total cid corr HEARTBEAT_KEY 0 H eq_refl eq_refl) as Hh.
  pose proof (ustr_total _ G) as Hg. pose proof (ustr_total _ M) as Hm.
  unfold encode_heartbeat_request. rewrite (pack_total Fi gen N). run_total.
Qed.

Lemma leave_group_total cid corr group member :
  hdr_wf cid corr = true -> ustr_wf group = true -> ustr_wf member = true ->
  exists w, encode_leave_group_request cid corr group member = Ok w.
Proof.
  intros H G M. pose proof (header_total cid corr LEAVE_GROUP_KEY 0 H eq_refl eq_refl) as Hh.
  pose proof (ustr_total _ G) as Hg. pose proof (ustr_total _ M) as Hm.
  unfold encode_leave_group_request. run_total.
Qed.

Definition join_wf (cid : list Z) (corr : Z) (p : join_group_request) : bool :=
  hdr_wf cid corr && ustr_wf (jg_group p) && in_i32 (jg_session_timeout p) && ustr_wf (jg_member_id p)
  && ustr_wf (jg_protocol_type p) && count_wf (jg_protocols p)
  && forallb (fun gp => astr_wf (fst gp) && bytes_wf (snd gp)) (jg_protocols p).

Lemma pairs_present (f : text -> bool) (ps : list (text * obytes)) :
  (forall t, f t = true -> present t = true) ->
  forallb (fun gp => f (fst gp) && bytes_wf (snd gp)) ps = true -> protocols_present ps = true.
Proof.
  intros F H. unfold protocols_present. apply forallb_forall. intros gp I. rewrite forallb_forall in H.
  specialize (H gp I). apply andb_prop in H. destruct H as [A B]. cbv beta. apply andb_true_intro. split; [apply F; exact A|apply bytes_present; exact B].
Qed.

Lemma join_total cid corr p : join_wf cid corr p = true ->
  exists w, encode_join_group_request cid corr p = Ok w /\
            present (jg_group p) = true /\ present (jg_member_id p) = true /\ present (jg_protocol_type p) = true /\
            protocols_present (jg_protocols p) = true.
Proof.
  unfold join_wf. intros H.
  repeat match type of H with _ && _ = true => let X := fresh "W" in apply andb_prop in H; destruct H as [H X] end.
  pose proof (header_total cid corr JOIN_GROUP_KEY 0 H eq_refl eq_refl) as Hh.
  pose proof (ustr_total _ W4) as H1. pose proof (ustr_total _ W2) as H2. pose proof (ustr_total _ W1) as H3.
  unfold encode_join_group_request. rewrite (pack_total Fi _ W3), (pack_total Fi _ (llen_i32 _ W0)).
  destruct Hh as [h ->]. destruct H1 as [a1 ->]. destruct H2 as [a2 ->]. destruct H3 as [a3 ->]. cbn [bind].
  match goal with |- context [enc_all ?f (jg_protocols p)] =>
    destruct (enc_all_total f (jg_protocols p)) as [e Ee]; [|rewrite Ee] end.
  { intros gp I. rewrite forallb_forall in W. specialize (W gp I). apply andb_prop in W.
    destruct W as [A B]. destruct gp as [gn gm]. cbn [fst snd] in *. destruct (astr_total _ A) as [a ->]. destruct (bytes_total _ B) as [b ->]. cbn [bind].
    eexists. reflexivity. }
  cbn [bind]. eexists. split; [reflexivity|].
  repeat split; try (apply ustr_present; assumption).
  apply (pairs_present astr_wf); [exact astr_present|exact W].
Qed.

Definition sync_wf (cid : list Z) (corr : Z) (p : sync_group_request) : bool :=
  hdr_wf cid corr && ustr_wf (sg_group p) && in_i32 (sg_generation_id p) && ustr_wf (sg_member_id p)
  && count_wf (sg_assignment p)
  && forallb (fun gp => ustr_wf (fst gp) && bytes_wf (snd gp)) (sg_assignment p).

Lemma sync_total cid corr p : sync_wf cid corr p = true ->
  exists w, encode_sync_group_request cid corr p = Ok w /\
            present (sg_group p) = true /\ present (sg_member_id p) = true /\
            protocols_present (sg_assignment p) = true.
Proof.
  unfold sync_wf. intros H.
  repeat match type of H with _ && _ = true => let X := fresh "W" in apply andb_prop in H; destruct H as [H X] end.
  pose proof (header_total cid corr SYNC_GROUP_KEY 0 H eq_refl eq_refl) as Hh.
  pose proof (ustr_total _ W3) as H1. pose proof (ustr_total _ W1) as H2.
  unfold encode_sync_group_request. rewrite (pack_total Fi _ W2), (pack_total Fi _ (llen_i32 _ W0)).
  destruct Hh as [h ->]. destruct H1 as [a1 ->]. destruct H2 as [a2 ->]. cbn [bind].
  match goal with |- context [enc_all ?f (sg_assignment p)] =>
    destruct (enc_all_total f (sg_assignment p)) as [e Ee]; [|rewrite Ee] end.
  { intros gp I. rewrite forallb_forall in W. specialize (W gp I). apply andb_prop in W.
    destruct W as [A B]. destruct gp as [gn gm]. cbn [fst snd] in *. destruct (ustr_total _ A) as [a ->]. destruct (bytes_total _ B) as [b ->]. cbn [bind].
    eexists. reflexivity. }
  cbn [bind]. eexists. split; [reflexivity|].
  repeat split; try (apply ustr_present; assumption).
  apply (pairs_present ustr_wf); [exact ustr_present|exact W].
Qed.

(* ------------------------------------------------------------------ grouped payload bodies *)
Lemma aset_length {K V} (eqb : K -> K -> bool) k f (l : list (K * V)) :
  (length (aset eqb k f l) <= S (length l))%nat.
Proof. induction l as [|[k' v'] r IH]; cbn [aset length]; [lia|]. destruct (eqb k' k); cbn [length]; lia. Qed.

Section Grouped.
  Context {Pl : Type} (topic : Pl -> text) (part : Pl -> Z).
  Notation group := (group_by_topic_and_partition topic part).

  Lemma group_length ps : (length (group ps) <= length ps)%nat.
  Proof.
    induction ps as [|x ps IH] using rev_ind; [cbn; lia|].
    rewrite group_snoc. unfold group_step. rewrite app_length. cbn [length].
    pose proof (aset_length text_eqb (topic x)
                  (fun inner => aset Z.eqb (part x) (fun _ => x) match inner with Some i => i | None => [] end) (group ps)).
    lia.
  Qed.

  (* every inner list is no longer than the payload list *)
  Lemma group_inner_length ps : forall t inner, In (t, inner) (group ps) -> (length inner <= length ps)%nat.
  Proof.
    induction ps as [|x ps IH] using rev_ind; intros t inner I; [destruct I|].
    rewrite group_snoc in I. unfold group_step in I. rewrite app_length. cbn [length].
    refine (aset_forall text_eqb text_eqb_eq (topic x) _ (group ps)
              (fun _ i => (length i <= length ps + 1)%nat) _ _ _ t inner I).
    - intros t0 inner0 I0. pose proof (IH t0 inner0 I0). lia.
    - intros inner0 I0. pose proof (IH _ _ I0). pose proof (aset_length Z.eqb (part x) (fun _ => x) inner0). lia.
    - cbn. lia.
  Qed.

  Lemma group_count_wf ps : count_wf ps = true ->
    count_wf (group ps) = true /\ forall t inner, In (t, inner) (group ps) -> count_wf inner = true.
  Proof.
    unfold count_wf, llen. intros H. apply Z.leb_le in H. split.
    - apply Z.leb_le. pose proof (group_length ps). lia.
    - intros t inner I. apply Z.leb_le. pose proof (group_inner_length ps t inner I). lia.
  Qed.

  (* totality of the shared "grouped payloads" encoder from a per-payload fact *)
  Lemma encode_topics_total (enc_part : Z * Pl -> res (list Z)) (pwf : Pl -> bool) ps :
    count_wf ps = true ->
    forallb (fun p => astr_wf (topic p) && pwf p) ps = true ->
    (forall p, pwf p = true -> exists w, enc_part (part p, p) = Ok w) ->
    (exists w, encode_topics enc_part (group ps) = Ok w) /\ topics_present topic ps = true.
  Proof.
    intros C H E. destruct (group_count_wf ps C) as [Cg Ci]. rewrite forallb_forall in H. split.
    - unfold encode_topics. apply enc_all_total. intros [t inner] I. cbn [fst snd].
      assert (It : In t (map topic ps)) by (apply (group_topic_in topic part); apply (in_map fst) in I; exact I).
      apply in_map_iff in It. destruct It as (p0 & <- & I0). pose proof (H p0 I0) as W0. apply andb_prop in W0.
      destruct (astr_total _ (proj1 W0)) as [n ->]. cbn [bind].
      rewrite (pack_total Fi _ (llen_i32 _ (Ci _ _ I))). cbn [bind].
      assert (Hp : exists w, enc_all enc_part inner = Ok w).
      { apply enc_all_total. intros [pt x] Ix. destruct (group_sound topic part ps _ _ _ _ I Ix) as (Ixp & _ & <-).
        apply E. pose proof (H x Ixp) as Wx. apply andb_prop in Wx. exact (proj2 Wx). }
      destruct Hp as [w ->]. cbn [bind]. eexists. reflexivity.
    - unfold topics_present. apply forallb_forall. intros p I. apply astr_present. pose proof (H p I) as W.
      apply andb_prop in W. exact (proj1 W).
  Qed.
End Grouped.

(* ------------------------------------------------------------------ Fetch, ListOffsets, OffsetCommit, OffsetFetch *)
Definition fetch_part_wf (p : fetch_payload) : bool :=
  in_i32 (fe_partition p) && in_i64 (fe_offset p) && in_i32 (fe_max_bytes p).
Definition fetch_wf cid corr (ps : list fetch_payload) max_wait min_bytes v : bool :=
  hdr_wf cid corr && in_i32 max_wait && in_i32 min_bytes && (0 <=? v) && in_i16 v && count_wf ps
  && forallb (fun p => astr_wf (fe_topic p) && fetch_part_wf p) ps.

Lemma header_version_i16 v : 0 <= v -> in_i16 v = true -> in_i16 (if 2 <=? v then 2 else v) = true.
Proof. intros _ H. destruct (2 <=? v); [reflexivity|exact H]. Qed.

Lemma fetch_total cid corr ps max_wait min_bytes v : fetch_wf cid corr ps max_wait min_bytes v = true ->
  exists w, encode_fetch_request cid corr ps max_wait min_bytes v = Ok w /\
            topics_present fe_topic ps = true /\ 0 <= v.
Proof.
  unfold fetch_wf. intros H.
  repeat match type of H with _ && _ = true => let X := fresh "W" in apply andb_prop in H; destruct H as [H X] end.
  apply Z.leb_le in W2.
  pose proof (header_total cid corr FETCH_KEY (fetch_header_version v) H eq_refl (header_version_i16 v W2 W1)) as Hh.
  destruct (encode_topics_total fe_topic fe_partition
              (fun pp => pack_list [(Fi, fst pp); (Fq, fe_offset (snd pp)); (Fi, fe_max_bytes (snd pp))])
              fetch_part_wf ps W0 W) as [He Tp].
  { intros p Wp. unfold fetch_part_wf in Wp. apply andb_prop in Wp. destruct Wp as [Wp C]. apply andb_prop in Wp.
    destruct Wp as [A B]. cbn [pack_list fst snd]. rewrite (pack_total Fi _ A), (pack_total Fq _ B), (pack_total Fi _ C).
    cbn [bind]. eexists. reflexivity. }
  destruct (group_count_wf fe_topic fe_partition ps W0) as [Cg _].
  unfold encode_fetch_request. cbn [pack_list].
  rewrite (pack_total Fi (-1) eq_refl), (pack_total Fi _ W4), (pack_total Fi _ W3), (pack_total Fi _ (llen_i32 _ Cg)).
  destruct Hh as [h ->]. destruct He as [e Ee]. cbn [bind].
  match goal with |- context [encode_topics ?f ?g] => replace (encode_topics f g) with (@Ok (list Z) e) by (symmetry; exact Ee) end.
  cbn [bind]. eexists. repeat split; auto.
Qed.

Definition offset_part_wf (p : offset_payload) : bool :=
  in_i32 (of_partition p) && in_i64 (of_time p) && in_i32 (of_max_offsets p).
Definition offsets_wf cid corr (ps : list offset_payload) : bool :=
  hdr_wf cid corr && count_wf ps && forallb (fun p => astr_wf (of_topic p) && offset_part_wf p) ps.

Lemma offsets_total cid corr ps : offsets_wf cid corr ps = true ->
  exists w, encode_offset_request cid corr ps = Ok w /\ topics_present of_topic ps = true.
Proof.
  unfold offsets_wf. intros H.
  repeat match type of H with _ && _ = true => let X := fresh "W" in apply andb_prop in H; destruct H as [H X] end.
  pose proof (header_total cid corr OFFSET_KEY 0 H eq_refl eq_refl) as Hh.
  destruct (encode_topics_total of_topic of_partition
              (fun pp => pack_list [(Fi, fst pp); (Fq, of_time (snd pp)); (Fi, of_max_offsets (snd pp))])
              offset_part_wf ps W0 W) as [He Tp].
  { intros p Wp. unfold offset_part_wf in Wp. apply andb_prop in Wp. destruct Wp as [Wp C]. apply andb_prop in Wp.
    destruct Wp as [A B]. cbn [pack_list fst snd]. rewrite (pack_total Fi _ A), (pack_total Fq _ B), (pack_total Fi _ C).
    cbn [bind]. eexists. reflexivity. }
  destruct (group_count_wf of_topic of_partition ps W0) as [Cg _].
  unfold encode_offset_request. cbn [pack_list].
  rewrite (pack_total Fi (-1) eq_refl), (pack_total Fi _ (llen_i32 _ Cg)).
  destruct Hh as [h ->]. destruct He as [e Ee]. cbn [bind].
  match goal with |- context [encode_topics ?f ?g] => replace (encode_topics f g) with (@Ok (list Z) e) by (symmetry; exact Ee) end.
  cbn [bind]. eexists. split; auto.
Qed.

Definition commit_part_wf (p : commit_payload) : bool :=
  in_i32 (co_partition p) && in_i64 (co_offset p) && in_i64 (co_timestamp p) && nstr_wf (co_metadata p).
Definition commit_wf cid corr group gen consumer (ps : list commit_payload) : bool :=
  hdr_wf cid corr && astr_wf group && in_i32 gen && astr_wf consumer && count_wf ps
  && forallb (fun p => astr_wf (co_topic p) && commit_part_wf p) ps.

Lemma commit_total cid corr group gen consumer ps : commit_wf cid corr group gen consumer ps = true ->
  exists w, encode_offset_commit_request cid corr group gen consumer ps = Ok w /\
            present group = true /\ present consumer = true /\ topics_present co_topic ps = true.
Proof.
  unfold commit_wf. intros H.
  repeat match type of H with _ && _ = true => let X := fresh "W" in apply andb_prop in H; destruct H as [H X] end.
  pose proof (header_total cid corr OFFSET_COMMIT_KEY 1 H eq_refl eq_refl) as Hh.
  destruct (encode_topics_total co_topic co_partition
              (fun pp => do f <- pack_list [(Fi, fst pp); (Fq, co_offset (snd pp)); (Fq, co_timestamp (snd pp))];
                         do m <- write_short_bytes (co_metadata (snd pp)); Ok (f ++ m))
              commit_part_wf ps W0 W) as [He Tp].
  { intros p Wp. unfold commit_part_wf in Wp.
    repeat match type of Wp with _ && _ = true => let X := fresh "V" in apply andb_prop in Wp; destruct Wp as [Wp X] end.
    cbn [pack_list fst snd]. rewrite (pack_total Fi _ Wp), (pack_total Fq _ V1), (pack_total Fq _ V0). cbn [bind].
    destruct (nstr_total _ V) as [m ->]. cbn [bind]. eexists. reflexivity. }
  destruct (group_count_wf co_topic co_partition ps W0) as [Cg _].
  destruct (astr_total _ W3) as [g Eg]. destruct (astr_total _ W1) as [c Ec].
  unfold encode_offset_commit_request.
  rewrite Eg, Ec, (pack_total Fi _ W2), (pack_total Fi _ (llen_i32 _ Cg)).
  destruct Hh as [h ->]. destruct He as [e Ee]. cbn [bind].
  match goal with |- context [encode_topics ?f ?g] => replace (encode_topics f g) with (@Ok (list Z) e) by (symmetry; exact Ee) end.
  cbn [bind]. eexists.
  repeat split; auto using astr_present.
Qed.

Definition ofetch_wf cid corr group (ps : list ofetch_payload) : bool :=
  hdr_wf cid corr && astr_wf group && count_wf ps
  && forallb (fun p => astr_wf (og_topic p) && in_i32 (og_partition p)) ps.

Lemma ofetch_total cid corr group ps : ofetch_wf cid corr group ps = true ->
  exists w, encode_offset_fetch_request cid corr group ps = Ok w /\
            present group = true /\ topics_present og_topic ps = true.
Proof.
  unfold ofetch_wf. intros H.
  repeat match type of H with _ && _ = true => let X := fresh "W" in apply andb_prop in H; destruct H as [H X] end.
  pose proof (header_total cid corr OFFSET_FETCH_KEY 1 H eq_refl eq_refl) as Hh.
  destruct (encode_topics_total og_topic og_partition (fun pp => pack Fi (fst pp))
              (fun p => in_i32 (og_partition p)) ps W0 W) as [He Tp].
  { intros p Wp. cbn [fst]. rewrite (pack_total Fi _ Wp). eexists. reflexivity. }
  destruct (group_count_wf og_topic og_partition ps W0) as [Cg _].
  destruct (astr_total _ W1) as [g Eg].
  unfold encode_offset_fetch_request. rewrite Eg, (pack_total Fi _ (llen_i32 _ Cg)).
  destruct Hh as [h ->]. destruct He as [e Ee]. cbn [bind].
  match goal with |- context [encode_topics ?f ?g] => replace (encode_topics f g) with (@Ok (list Z) e) by (symmetry; exact Ee) end.
  cbn [bind]. eexists. repeat split; auto using astr_present.
Qed.

(* ------------------------------------------------------------------ Produce *)
Definition msg_wf (m : message) : bool :=
  ((m_magic m =? 0) || (m_magic m =? 1)) && in_u8 (m_attr m) && nbytes_wf (m_key m) && nbytes_wf (m_value m)
  && match m_ts m with Some t => in_i64 t | None => true end.

(* bytes a message list occupies in a message set: 12 (offset, size) + the message, per entry *)
Definition set_bytes (msgs : list message) : Z := fold_right (fun m a => Z.of_nat (entry_size m) + a) 0 msgs.

Definition clock_wf (clock : nat -> Z) : Prop := forall k, in_i64 (clock k) = true.

Lemma encode_message_total now m : msg_wf m = true -> in_i64 now = true -> exists e, encode_message now m = Ok e.
Proof.
  unfold msg_wf. intros H N.
  repeat match type of H with _ && _ = true => let X := fresh "W" in apply andb_prop in H; destruct H as [H X] end.
  destruct (nbytes_total _ W1) as [k Ek]. destruct (nbytes_total _ W0) as [v Ev].
  unfold encode_message. apply orb_prop in H. destruct H as [M|M]; apply Z.eqb_eq in M; rewrite M; cbn [Z.eqb Pos.eqb pack_list].
  - rewrite (pack_total FB 0 eq_refl), (pack_total FB _ W2), Ek, Ev. cbn [bind]. eexists. reflexivity.
  - assert (T : fmt_in Fq match m_ts m with Some t => t | None => now end = true) by (destruct (m_ts m); assumption).
    rewrite (pack_total FB 1 eq_refl), (pack_total FB _ W2), (pack_total Fq _ T), Ek, Ev. cbn [bind]. eexists. reflexivity.
Qed.

Lemma set_bytes_nonneg msgs : 0 <= set_bytes msgs.
Proof. induction msgs as [|m r IH]; cbn [set_bytes fold_right]; [lia|]. fold (set_bytes r). lia. Qed.

Lemma encode_set_total clock magic : clock_wf clock -> magic = 0 \/ magic = 1 ->
  forall msgs k, forallb msg_wf msgs = true -> set_bytes msgs <= MAX32 ->
  exists bs, encode_message_set_from clock k msgs 0 0 magic = Ok bs /\ len bs = set_bytes msgs.
Proof.
  intros CW MG. induction msgs as [|m r IH]; intros k H SB; cbn [encode_message_set_from].
  - eexists. split; reflexivity.
  - cbn [forallb] in H. apply andb_prop in H. destruct H as [Hm Hr].
    cbn [set_bytes fold_right] in SB. fold (set_bytes r) in SB. pose proof (set_bytes_nonneg r) as NN.
    replace ((magic =? 0) || (magic =? 1)) with true by (destruct MG as [-> | ->]; reflexivity).
    destruct (encode_message_total (clock k) m Hm (CW k)) as [e Ee]. rewrite Ee. cbn [bind].
    pose proof (encoded_length _ _ _ (encode_message_parts _ _ _ Ee)) as L.
    assert (Le : fmt_in Fi (len e) = true).
    { apply len_i32. apply Z.leb_le. unfold len, MAX32 in *. lia. }
    cbn [pack_list]. rewrite (pack_total Fq 0 eq_refl), (pack_total Fi _ Le). cbn [bind].
    replace (0 + 0) with 0 by reflexivity.
    destruct (IH (if uses_clock m then S k else k) Hr) as (t & -> & Lt); [lia|]. cbn [bind].
    eexists. split; [reflexivity|].
    unfold len in *. rewrite !app_length, !enc_be_length. cbn [length fmt_size set_bytes fold_right]. fold (set_bytes r).
    rewrite <- Lt, <- L. lia.
Qed.

Definition payload_wf (p : produce_payload) : bool :=
  in_i32 (pr_partition p) && forallb msg_wf (pr_messages p) && (set_bytes (pr_messages p) <=? MAX32).

Lemma produce_partitions_total clock magic : clock_wf clock -> magic = 0 \/ magic = 1 ->
  forall ps, (forall pp, In pp ps -> fst pp = pr_partition (snd pp) /\ payload_wf (snd pp) = true) ->
  forall k, exists w, encode_produce_partitions clock k magic ps = Ok w.
Proof.
  intros CW MG. induction ps as [|[partition payload] r IH]; intros H k; cbn [encode_produce_partitions].
  - eexists. reflexivity.
  - destruct (H _ (or_introl eq_refl)) as [Ep W]. cbn [fst snd] in Ep, W. subst partition.
    unfold payload_wf in W. apply andb_prop in W. destruct W as [W SB]. apply andb_prop in W. destruct W as [P M].
    apply Z.leb_le in SB. cbn [encode_message_set].
    destruct (encode_set_total clock magic CW MG (pr_messages payload) k M SB) as (ms & -> & L). cbn [bind].
    assert (Lm : fmt_in Fi (len ms) = true) by (apply len_i32; apply Z.leb_le; lia).
    cbn [pack_list]. rewrite (pack_total Fi _ P), (pack_total Fi _ Lm). cbn [bind].
    destruct (IH (fun pp I => H pp (or_intror I)) (k + clock_uses (pr_messages payload))%nat) as [t ->]. cbn [bind].
    eexists. reflexivity.
Qed.

Lemma produce_topics_total clock magic : clock_wf clock -> magic = 0 \/ magic = 1 ->
  forall ts, (forall tp, In tp ts -> astr_wf (fst tp) = true /\ count_wf (snd tp) = true /\
                                     forall pp, In pp (snd tp) -> fst pp = pr_partition (snd pp) /\ payload_wf (snd pp) = true) ->
  forall k, exists w, encode_produce_topics clock k magic ts = Ok w.
Proof.
  intros CW MG. induction ts as [|[topic tps] r IH]; intros H k; cbn [encode_produce_topics].
  - eexists. reflexivity.
  - destruct (H _ (or_introl eq_refl)) as (A & C & P). cbn [fst snd] in *.
    destruct (astr_total _ A) as [n ->]. cbn [bind]. rewrite (pack_total Fi _ (llen_i32 _ C)). cbn [bind].
    destruct (produce_partitions_total clock magic CW MG tps P k) as [ps ->]. cbn [bind].
    destruct (IH (fun tp I => H tp (or_intror I)) (k + topic_clock_uses tps)%nat) as [t ->]. cbn [bind].
    eexists. reflexivity.
Qed.

Definition produce_wf cid corr (ps : list produce_payload) acks timeout v : bool :=
  hdr_wf cid corr && in_i16 acks && in_i32 timeout && (0 <=? v) && in_i16 v && count_wf ps
  && forallb (fun p => astr_wf (pr_topic p) && payload_wf p) ps.

Lemma produce_total clock cid corr ps acks timeout v :
  clock_wf clock -> produce_wf cid corr ps acks timeout v = true ->
  exists w, encode_produce_request clock cid corr ps acks timeout v = Ok w /\
            topics_present pr_topic ps = true /\ 0 <= v.
Proof.
  unfold produce_wf. intros CW H.
  repeat match type of H with _ && _ = true => let X := fresh "W" in apply andb_prop in H; destruct H as [H X] end.
  apply Z.leb_le in W2.
  pose proof (header_total cid corr PRODUCE_KEY (produce_header_version v) H eq_refl (header_version_i16 v W2 W1)) as Hh.
  destruct (group_count_wf pr_topic pr_partition ps W0) as [Cg Ci].
  rewrite forallb_forall in W.
  assert (MG : produce_magic v = 0 \/ produce_magic v = 1) by (unfold produce_magic; destruct (2 <=? v); auto).
  destruct (produce_topics_total clock (produce_magic v) CW MG (group_by_topic_and_partition pr_topic pr_partition ps)) with (k := 0%nat)
    as [t Et].
  { intros [tp inner] I. cbn [fst snd]. split; [|split].
    - assert (It : In tp (map pr_topic ps)) by (apply (group_topic_in pr_topic pr_partition); apply (in_map fst) in I; exact I).
      apply in_map_iff in It. destruct It as (p0 & <- & I0). pose proof (W p0 I0) as W0'. apply andb_prop in W0'. tauto.
    - exact (Ci _ _ I).
    - intros [pt x] Ix. destruct (group_sound pr_topic pr_partition ps _ _ _ _ I Ix) as (Ixp & _ & <-). cbn [fst snd].
      split; [reflexivity|]. pose proof (W x Ixp) as Wx. apply andb_prop in Wx. tauto. }
  unfold encode_produce_request. cbn [pack_list].
  rewrite (pack_total Fh _ W4), (pack_total Fi _ W3), (pack_total Fi _ (llen_i32 _ Cg)).
  destruct Hh as [h ->]. cbn [bind]. rewrite Et. cbn [bind]. eexists. split; [reflexivity|]. split; [|exact W2].
  unfold topics_present. apply forallb_forall. intros p I. apply astr_present. pose proof (W p I) as Wp.
  apply andb_prop in Wp. tauto.
Qed.

(* uncompressed byte-string messages, as required by the functional canon *)
Definition produce_plain_wf cid corr ps acks timeout v : bool :=
  produce_wf cid corr ps acks timeout v && all_uncompressed ps.

(* ------------------------------------------------------------------ composed: wf -> the request is emitted AND parses *)
Theorem api_versions_conforms orc cid corr : hdr_wf cid corr = true ->
  exists w, encode_api_versions_request cid corr API_VERSIONS_KEY 0 = Ok w /\
            parse_request orc w = Some (mkSreq 18 0 corr (Some cid) SApiVersions).
Proof. intros H. destruct (api_versions_total cid corr H) as [w E]. exists w. split; [exact E|]. now apply api_versions_parses. Qed.

Theorem metadata_conforms orc cid corr topics : metadata_wf cid corr topics = true ->
  exists w, encode_metadata_request cid corr topics = Ok w /\
            parse_request orc w = Some (mkSreq 3 0 corr (Some cid) (SMetadata (map abytes topics))).
Proof. intros H. destruct (metadata_total _ _ _ H) as (w & E & P). exists w. split; [exact E|]. now apply metadata_parses. Qed.

Theorem find_coordinator_conforms orc cid corr group : hdr_wf cid corr && astr_wf group = true ->
  exists w, encode_consumermetadata_request cid corr group = Ok w /\
            parse_request orc w = Some (mkSreq 10 0 corr (Some cid) (SFindCoordinator (abytes group))).
Proof.
  intros H. apply andb_prop in H. destruct H as [H G]. destruct (find_coordinator_total _ _ _ H G) as [w E].
  exists w. split; [exact E|]. apply find_coordinator_parses; [exact E|now apply astr_present].
Qed.

Theorem heartbeat_conforms orc cid corr group gen member :
  hdr_wf cid corr && ustr_wf group && in_i32 gen && ustr_wf member = true ->
  exists w, encode_heartbeat_request cid corr group gen member = Ok w /\
            parse_request orc w = Some (mkSreq 12 0 corr (Some cid) (SHeartbeat (ubytes group) gen (ubytes member))).
Proof.
  intros H. repeat match type of H with _ && _ = true => let X := fresh "W" in apply andb_prop in H; destruct H as [H X] end.
  destruct (heartbeat_total _ _ _ _ _ H W1 W0 W) as [w E]. exists w. split; [exact E|].
  apply heartbeat_parses; auto using ustr_present.
Qed.

Theorem leave_group_conforms orc cid corr group member :
  hdr_wf cid corr && ustr_wf group && ustr_wf member = true ->
  exists w, encode_leave_group_request cid corr group member = Ok w /\
            parse_request orc w = Some (mkSreq 13 0 corr (Some cid) (SLeaveGroup (ubytes group) (ubytes member))).
Proof.
  intros H. repeat match type of H with _ && _ = true => let X := fresh "W" in apply andb_prop in H; destruct H as [H X] end.
  destruct (leave_group_total _ _ _ _ H W0 W) as [w E]. exists w. split; [exact E|].
  apply leave_group_parses; auto using ustr_present.
Qed.

Theorem join_group_conforms orc cid corr p : join_wf cid corr p = true ->
  exists w, encode_join_group_request cid corr p = Ok w /\
            parse_request orc w = Some (mkSreq 11 0 corr (Some cid)
              (SJoinGroup (ubytes (jg_group p)) (jg_session_timeout p) (ubytes (jg_member_id p)) (ubytes (jg_protocol_type p))
                          (map (fun gp => (abytes (fst gp), obytes_val (snd gp))) (jg_protocols p)))).
Proof.
  intros H. destruct (join_total _ _ _ H) as (w & E & A & B & C & D). exists w. split; [exact E|]. now apply join_group_parses.
Qed.

Theorem sync_group_conforms orc cid corr p : sync_wf cid corr p = true ->
  exists w, encode_sync_group_request cid corr p = Ok w /\
            parse_request orc w = Some (mkSreq 14 0 corr (Some cid)
              (SSyncGroup (ubytes (sg_group p)) (sg_generation_id p) (ubytes (sg_member_id p))
                          (map (fun ma => (ubytes (fst ma), obytes_val (snd ma))) (sg_assignment p)))).
Proof.
  intros H. destruct (sync_total _ _ _ H) as (w & E & A & B & C). exists w. split; [exact E|]. now apply sync_group_parses.
Qed.

Theorem fetch_conforms orc cid corr ps max_wait min_bytes v : fetch_wf cid corr ps max_wait min_bytes v = true ->
  exists w, encode_fetch_request cid corr ps max_wait min_bytes v = Ok w /\
            parse_request orc w = Some (mkSreq 1 (fetch_header_version v) corr (Some cid)
                                               (SFetch (-1) max_wait min_bytes (canon_fetch ps))).
Proof.
  intros H. destruct (fetch_total _ _ _ _ _ _ H) as (w & E & T & V). exists w. split; [exact E|]. now apply fetch_parses.
Qed.

Theorem offsets_conforms orc cid corr ps : offsets_wf cid corr ps = true ->
  exists w, encode_offset_request cid corr ps = Ok w /\
            parse_request orc w = Some (mkSreq 2 0 corr (Some cid) (SListOffsets (-1) (canon_offsets ps))).
Proof. intros H. destruct (offsets_total _ _ _ H) as (w & E & T). exists w. split; [exact E|]. now apply offsets_parses. Qed.

Theorem offset_commit_conforms orc cid corr group gen consumer ps : commit_wf cid corr group gen consumer ps = true ->
  exists w, encode_offset_commit_request cid corr group gen consumer ps = Ok w /\
            parse_request orc w = Some (mkSreq 8 1 corr (Some cid)
                                               (SOffsetCommit (abytes group) gen (abytes consumer) (canon_commit ps))).
Proof.
  intros H. destruct (commit_total _ _ _ _ _ _ H) as (w & E & A & B & T). exists w. split; [exact E|].
  now apply offset_commit_parses.
Qed.

Theorem offset_fetch_conforms orc cid corr group ps : ofetch_wf cid corr group ps = true ->
  exists w, encode_offset_fetch_request cid corr group ps = Ok w /\
            parse_request orc w = Some (mkSreq 9 1 corr (Some cid) (SOffsetFetch (abytes group) (canon_ofetch ps))).
Proof.
  intros H. destruct (ofetch_total _ _ _ _ H) as (w & E & A & T). exists w. split; [exact E|]. now apply offset_fetch_parses.
Qed.

Theorem produce_conforms orc clock cid corr ps acks timeout v :
  clock_wf clock -> produce_plain_wf cid corr ps acks timeout v = true ->
  exists w, encode_produce_request clock cid corr ps acks timeout v = Ok w /\
            parse_request orc w = Some (mkSreq 0 (produce_header_version v) corr (Some cid)
                                               (SProduce acks timeout (canon_produce clock ps))).
Proof.
  intros CW H. unfold produce_plain_wf in H. apply andb_prop in H. destruct H as [H U].
  destruct (produce_total clock _ _ _ _ _ _ CW H) as (w & E & T & V). exists w. split; [exact E|].
  now apply produce_plain_parses.
Qed.

(* ------------------------------------------------------------------ payload lists with distinct (topic, partition) keys
   [group_last_wins] says that of several payloads for one (topic, partition) only the last is encoded.  With
   distinct keys nothing is lost: every payload of the list is stored under its own key. *)
Section Distinct.
  Context {Pl : Type} (topic : Pl -> text) (part : Pl -> Z).
  Definition key_of (x : Pl) : text * Z := (topic x, part x).
  Definition keys_distinct (ps : list Pl) : Prop := NoDup (map key_of ps).

  Lemma for_key_spec t p y : for_key topic part t p y = true <-> key_of y = (t, p).
  Proof.
    unfold for_key, key_of. rewrite andb_true_iff, text_eqb_eq, Z.eqb_eq. split.
    - intros [-> ->]. reflexivity.
    - intros E. injection E as -> ->. auto.
  Qed.

  Lemma find_unique l x : NoDup (map key_of l) -> In x l ->
    find (for_key topic part (topic x) (part x)) l = Some x.
  Proof.
    induction l as [|y r IH]; intros N I; [destruct I|]. cbn [map] in N. inversion N as [|? ? Ny Nr]; subst.
    cbn [find]. destruct (for_key topic part (topic x) (part x) y) eqn:F.
    - apply for_key_spec in F. destruct I as [->|I]; [reflexivity|]. exfalso. apply Ny. rewrite F.
      change (topic x, part x) with (key_of x). now apply in_map.
    - destruct I as [->|I]; [|now apply IH]. exfalso.
      assert (X : for_key topic part (topic x) (part x) x = true) by (apply for_key_spec; reflexivity). congruence.
  Qed.

  Theorem group_complete ps x : keys_distinct ps -> In x ps ->
    lookup2 (topic x) (part x) (group_by_topic_and_partition topic part ps) = Some x.
  Proof.
    intros N I. rewrite (group_last_wins topic part). unfold last_match. apply find_unique.
    - rewrite map_rev. apply NoDup_rev. exact N.
    - apply in_rev in I. exact I.
  Qed.
End Distinct.

(* ... and WITHOUT distinct keys the earlier payload's messages never reach the wire: two different payload lists,
   one containing a message the other lacks, are encoded to the same bytes (witness by computation) *)
Definition dup_first := mkProduce (Some [116]) 0 [mkMessage 0 0 None (Some [1]) None].
Definition dup_second := mkProduce (Some [116]) 0 [mkMessage 0 0 None (Some [2]) None].

Theorem duplicate_keys_lose_messages :
  pr_messages dup_first <> pr_messages dup_second /\
  exists w, encode_produce_request (fun _ => 0) [99] 1 [dup_first; dup_second] 1 1000 0 = Ok w /\
            encode_produce_request (fun _ => 0) [99] 1 [dup_second] 1 1000 0 = Ok w.
Proof. split; [discriminate|]. eexists. split; vm_compute; reflexivity. Qed.

(* ------------------------------------------------------------------ the consumer-protocol blobs *)
Definition subscription_wf (version : Z) (subs : list text) (ud : obytes) : bool :=
  in_i16 version && count_wf subs && forallb ustr_wf subs && nbytes_wf ud.

Theorem subscription_conforms version subs ud : subscription_wf version subs ud = true ->
  exists w, encode_join_group_protocol_metadata version subs ud = Ok w /\
            parse_subscription w = Some (version, map ubytes subs, ud).
Proof.
  unfold subscription_wf. intros H.
  repeat match type of H with _ && _ = true => let X := fresh "W" in apply andb_prop in H; destruct H as [H X] end.
  assert (He : exists w, enc_all write_short_text subs = Ok w).
  { apply enc_all_total. intros a I. apply ustr_total. rewrite forallb_forall in W0. now apply W0. }
  destruct He as [e Ee]. destruct (nbytes_total _ W) as [u Eu].
  assert (E : encode_join_group_protocol_metadata version subs ud
              = Ok ((enc_be 2 version ++ enc_be 4 (llen subs) ++ []) ++ e ++ u)).
  { unfold encode_join_group_protocol_metadata. cbn [pack_list].
    rewrite (pack_total Fh _ H), (pack_total Fi _ (llen_i32 _ W1)), Ee, Eu. reflexivity. }
  eexists. split; [exact E|]. apply subscription_parses; [exact E|].
  apply forallb_forall. intros t I. apply ustr_present. rewrite forallb_forall in W0. now apply W0.
Qed.

Lemma pack_list_total fs : forallb (fun fv => fmt_in (fst fv) (snd fv)) fs = true -> exists w, pack_list fs = Ok w.
Proof.
  induction fs as [|[f z] r IH]; intros H; cbn [pack_list]; [eexists; reflexivity|].
  cbn [forallb fst snd] in H. apply andb_prop in H. destruct H as [A B]. rewrite (pack_total f z A).
  destruct (IH B) as [w ->]. cbn [bind]. eexists. reflexivity.
Qed.

Definition assignment_wf (version : Z) (asg : list (text * list Z)) (ud : obytes) : bool :=
  in_i16 version && count_wf asg
  && forallb (fun tp => astr_wf (fst tp) && (len (snd tp) <=? MAX32) && forallb in_i32 (snd tp)) asg && nbytes_wf ud.

Theorem assignment_conforms version asg ud : assignment_wf version asg ud = true ->
  exists w, encode_sync_group_member_assignment version asg ud = Ok w /\
            parse_assignment w = Some (version, map (fun tp : text * list Z => (abytes (fst tp), snd tp)) asg, ud).
Proof.
  unfold assignment_wf. intros H.
  repeat match type of H with _ && _ = true => let X := fresh "W" in apply andb_prop in H; destruct H as [H X] end.
  rewrite forallb_forall in W0.
  assert (He : exists w, enc_all (fun tp : text * list Z =>
                                    do n <- write_short_ascii (fst tp);
                                    do ps <- pack_list ((Fi, len (snd tp)) :: map (fun x => (Fi, x)) (snd tp)); Ok (n ++ ps)) asg = Ok w).
  { apply enc_all_total. intros [t ps] I. specialize (W0 _ I). cbn [fst snd] in *.
    repeat match type of W0 with _ && _ = true => let X := fresh "V" in apply andb_prop in W0; destruct W0 as [W0 X] end.
    destruct (astr_total _ W0) as [n ->]. cbn [bind].
    destruct (pack_list_total ((Fi, len ps) :: map (fun x => (Fi, x)) ps)) as [w ->]; [|cbn [bind]; eexists; reflexivity].
    cbn [forallb fst snd]. rewrite (len_i32 _ V0). cbn [andb]. rewrite forallb_forall in V.
    apply forallb_forall. intros [f z] Iz. apply in_map_iff in Iz. destruct Iz as (x & [= <- <-] & Ix). cbn [fst snd fmt_in]. now apply V. }
  destruct He as [e Ee]. destruct (nbytes_total _ W) as [u Eu].
  assert (E : exists w, encode_sync_group_member_assignment version asg ud = Ok w).
  { unfold encode_sync_group_member_assignment. rewrite (pack_total Fh _ H), (pack_total Fi _ (llen_i32 _ W1)). cbn [bind].
    match goal with |- context [enc_all ?f asg] => replace (enc_all f asg) with (@Ok (list Z) e) by (symmetry; exact Ee) end.
    rewrite Eu. cbn [bind]. eexists. reflexivity. }
  destruct E as [w E]. exists w. split; [exact E|]. apply assignment_parses; [exact E|].
  apply forallb_forall. intros tp I. apply astr_present. specialize (W0 _ I).
  repeat match type of W0 with _ && _ = true => let X := fresh "V" in apply andb_prop in W0; destruct W0 as [W0 X] end. exact W0.
Qed.
